#!/usr/bin/env python3
"""addcheck.py <ID> <category> <text> <note> <technique> : (re)register a check in MANIFEST.json"""
import json,sys
pid,cat,text,note,tech=sys.argv[1:6]
m=json.load(open('/verif/MANIFEST.json'))
m['checks']=[c for c in m['checks'] if c['property_id']!=pid]
m['checks'].append({"property_id":pid,"quick_cmd":f"./check {pid} quick","thorough_cmd":f"./check {pid} thorough","evidence_file":f"evidence/{pid}.json","replay_cmd_template":"./check --replay {path}","engine":"jv","level_claimed":{"category":cat,"text":text,"design_ref":f"DESIGN.md 5/{pid}"},"level_note":note,"technique":tech})
m['checks'].sort(key=lambda c:c['property_id'])
m['engines'][0]['serves_properties']=sorted(c['property_id'] for c in m['checks'])
json.dump(m,open('/verif/MANIFEST.json','w'),indent=1)
