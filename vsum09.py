import json,re,collections
ev=json.load(open('/verif/evidence/C09.json'))
cls=collections.Counter()
ex={}
for r in ev['violation_replays']:
    v=json.load(open(r['replay']))
    for line in v['why'].split('\n')[1:]:
        m=re.match(r'(.*?)  →  (.*)',line)
        if not m: continue
        e=m.group(1)
        op=re.sub(r'\(-?[0-9.e+-]+\)|[0-9][0-9.e+-]*','N',e)
        cls[op]+=1
        ex.setdefault(op,[]).append(line)
for op,n in cls.most_common(40):
    print(n,op,'|',ex[op][0][:170])
print(ev['violations'])
