#!/usr/bin/env python3
"""compact view of the violations of the last run of a property (from its evidence file)"""
import json,re,sys
ev=json.load(open(f'/verif/evidence/{sys.argv[1]}.json'))
n=int(sys.argv[2]) if len(sys.argv)>2 else 12
w=int(sys.argv[3]) if len(sys.argv)>3 else 700
for r in ev.get('violation_replays',[])[:n]:
    v=json.load(open(r['replay']))
    why=re.sub(r'\x1b\[[0-9;]*m','',v['why'])
    print('=====',v['stage'],r['replay'].split('/')[-1]); print(v['case'][:400]); print('-- why:'); print(why[:w])
print('violations:',ev['violations'],'known:',ev['coverage'].get('known_findings_hit'))
