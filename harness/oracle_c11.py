#!/usr/bin/python3
"""Second reference for property C11 (hashes, base64, UTF-8), independent of jrsonnet and of the harness's Rust code.

stdin:  {"strings": [str, ...], "bytes": [[int, ...], ...], "b64": [str, ...]}
stdout: {"strings": [{"utf8": [int], "md5": hex, "sha1": hex, "sha256": hex, "sha512": hex, "sha3": hex,
                      "b64_utf8": str, "b64_latin1": str | null}, ...],
         "bytes":   [{"b64": str, "replace": str, "strict": str | null}, ...],
         "b64":     [{"bytes": [int] | null}, ...]}
Called once per run (or once per replay) with all inputs of the batch stages.
"""
import base64
import binascii
import hashlib
import json
import sys


def for_string(s):
    u = s.encode("utf-8")
    try:
        latin1 = base64.b64encode(s.encode("latin-1")).decode("ascii")
    except UnicodeEncodeError:
        latin1 = None
    return {
        "utf8": list(u),
        "md5": hashlib.md5(u).hexdigest(),
        "sha1": hashlib.sha1(u).hexdigest(),
        "sha256": hashlib.sha256(u).hexdigest(),
        "sha512": hashlib.sha512(u).hexdigest(),
        "sha3": hashlib.sha3_512(u).hexdigest(),
        "b64_utf8": base64.b64encode(u).decode("ascii"),
        "b64_latin1": latin1,
    }


def for_bytes(b):
    raw = bytes(b)
    try:
        strict = raw.decode("utf-8", "strict")
    except UnicodeDecodeError:
        strict = None
    return {
        "b64": base64.b64encode(raw).decode("ascii"),
        "replace": raw.decode("utf-8", "replace"),
        "strict": strict,
    }


def for_b64(t):
    try:
        return {"bytes": list(base64.b64decode(t.encode("ascii"), validate=True))}
    except (binascii.Error, ValueError, UnicodeEncodeError):
        return {"bytes": None}


def main():
    req = json.load(sys.stdin)
    out = {
        "strings": [for_string(s) for s in req.get("strings", [])],
        "bytes": [for_bytes(b) for b in req.get("bytes", [])],
        "b64": [for_b64(t) for t in req.get("b64", [])],
    }
    json.dump(out, sys.stdout)


if __name__ == "__main__":
    main()
