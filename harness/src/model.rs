//! Reference interpreter of the Jsonnet core language, written from the language specification.
//! Shares no code with jrsonnet: own lowering of the harness AST to a core form, own values, own object model
//! (a list of layers searched right to left), own call-by-need thunks, own JSON manifester.
//! Every recursion is fuel-limited; running out of fuel makes the *case* undecided (`E::Fuel`), never a verdict.
use std::{
	cell::{Cell, RefCell},
	collections::{BTreeMap, HashMap},
	rc::Rc,
};

use crate::ast::{self, BinOp, Ex, UnOp, Vis};

// ------------------------------------------------------------------------------------------------ core form

pub enum C {
	Null,
	True,
	False,
	SelfE,
	Num(f64),
	Str(String),
	Var(String),
	Arr(Vec<Rc<C>>),
	ArrComp(Rc<C>, Vec<Spec>),
	Obj(Rc<ObjLit>),
	ObjComp { locals: Vec<(String, Rc<C>)>, name: Rc<C>, plus: bool, vis: Vis, value: Rc<C>, specs: Vec<Spec> },
	Index(Rc<C>, Rc<C>),
	SuperIndex(Rc<C>),
	InSuper(Rc<C>),
	Call(Rc<C>, Vec<Rc<C>>, Vec<(String, Rc<C>)>, bool),
	Fun(Rc<Vec<(String, Option<Rc<C>>)>>, Rc<C>),
	Local(Vec<(String, Rc<C>)>, Rc<C>),
	If(Rc<C>, Rc<C>, Option<Rc<C>>),
	Un(UnOp, Rc<C>),
	Bin(BinOp, Rc<C>, Rc<C>),
	Error(Rc<C>),
	Assert(Rc<C>, Option<Rc<C>>, Rc<C>),
	Slice(Rc<C>, Option<Rc<C>>, Option<Rc<C>>, Option<Rc<C>>),
	Import(String, u8),
}
pub enum Spec {
	For(String, Rc<C>),
	If(Rc<C>),
}
pub struct FieldLit {
	pub name: Rc<C>,
	pub plus: bool,
	pub vis: Vis,
	pub body: Rc<C>,
}
pub struct ObjLit {
	pub locals: Vec<(String, Rc<C>)>,
	pub asserts: Vec<(Rc<C>, Option<Rc<C>>)>,
	pub fields: Vec<FieldLit>,
	/// binds `$` (this literal is not nested in another object literal)
	pub outermost: bool,
}

fn lower_params(ps: &[ast::Param], in_obj: bool) -> Rc<Vec<(String, Option<Rc<C>>)>> {
	Rc::new(ps.iter().map(|p| (p.name.clone(), p.default.as_ref().map(|d| lower_in(d, in_obj)))).collect())
}
fn lower_bind(b: &ast::Bind, in_obj: bool) -> (String, Rc<C>) {
	match b {
		ast::Bind::Var(n, e) => (n.clone(), lower_in(e, in_obj)),
		ast::Bind::Func(n, ps, e) => (n.clone(), Rc::new(C::Fun(lower_params(ps, in_obj), lower_in(e, in_obj)))),
	}
}
fn lower_specs(cs: &[ast::Comp], in_obj: bool) -> Vec<Spec> {
	cs.iter()
		.map(|c| match c {
			ast::Comp::For(v, e) => Spec::For(v.clone(), lower_in(e, in_obj)),
			ast::Comp::If(e) => Spec::If(lower_in(e, in_obj)),
		})
		.collect()
}
pub fn lower(e: &Ex) -> Rc<C> {
	lower_in(e, false)
}
fn lower_obj(ms: &[ast::Member], in_obj: bool) -> Rc<ObjLit> {
	let mut o = ObjLit { locals: vec![], asserts: vec![], fields: vec![], outermost: !in_obj };
	for m in ms {
		match m {
			ast::Member::Local(b) => o.locals.push(lower_bind(b, true)),
			ast::Member::Assert(c, m) => o.asserts.push((lower_in(c, true), m.as_ref().map(|m| lower_in(m, true)))),
			ast::Member::Field { name, plus, vis, params, value } => {
				// field names are evaluated in the scope *outside* the object
				let n = match name {
					ast::FieldName::Id(s) | ast::FieldName::Str(s, _) => Rc::new(C::Str(s.clone())),
					ast::FieldName::Dyn(e) => lower_in(e, in_obj),
				};
				let body = match params {
					Some(ps) => Rc::new(C::Fun(lower_params(ps, true), lower_in(value, true))),
					None => lower_in(value, true),
				};
				o.fields.push(FieldLit { name: n, plus: *plus, vis: *vis, body });
			}
		}
	}
	Rc::new(o)
}
fn lower_in(e: &Ex, in_obj: bool) -> Rc<C> {
	use Ex::*;
	let l = |x: &Ex| lower_in(x, in_obj);
	Rc::new(match e {
		Null => C::Null,
		True => C::True,
		False => C::False,
		SelfE => C::SelfE,
		Dollar => C::Var("$".to_owned()),
		Num(v, _) => C::Num(*v),
		Str(s, _) => C::Str(s.clone()),
		Var(n) => C::Var(n.clone()),
		Arr(v) => C::Arr(v.iter().map(l).collect()),
		ArrComp(x, cs) => C::ArrComp(l(x), lower_specs(cs, in_obj)),
		Obj(ms) => C::Obj(lower_obj(ms, in_obj)),
		ObjComp { pre, name, plus, vis, value, post, specs } => C::ObjComp {
			locals: pre.iter().chain(post.iter()).map(|b| lower_bind(b, true)).collect(),
			name: l(name),
			plus: *plus,
			vis: *vis,
			value: lower_in(value, true),
			specs: lower_specs(specs, in_obj),
		},
		// e { ... }  ==  e + { ... }
		ObjExt(a, b) => C::Bin(BinOp::Add, l(a), l(b)),
		Index(a, i) => C::Index(l(a), l(i)),
		Dot(a, f) => C::Index(l(a), Rc::new(C::Str(f.clone()))),
		SuperDot(f) => C::SuperIndex(Rc::new(C::Str(f.clone()))),
		SuperIndex(i) => C::SuperIndex(l(i)),
		InSuper(x) => C::InSuper(l(x)),
		Slice(a, x, y, z) => C::Slice(l(a), x.as_ref().map(|v| l(v)), y.as_ref().map(|v| l(v)), z.as_ref().map(|v| l(v))),
		Call(f, args, named, ts) => C::Call(l(f), args.iter().map(l).collect(), named.iter().map(|(n, a)| (n.clone(), l(a))).collect(), *ts),
		Func(ps, b) => C::Fun(lower_params(ps, in_obj), l(b)),
		Local(bs, b) => C::Local(bs.iter().map(|b| lower_bind(b, in_obj)).collect(), l(b)),
		If(c, t, el) => C::If(l(c), l(t), el.as_ref().map(|v| l(v))),
		Un(op, x) => C::Un(*op, l(x)),
		Bin(op, a, b) => C::Bin(*op, l(a), l(b)),
		Error(x) => C::Error(l(x)),
		Assert(c, m, r) => C::Assert(l(c), m.as_ref().map(|v| l(v)), l(r)),
		Import(p) => C::Import(p.clone(), 0),
		ImportStr(p) => C::Import(p.clone(), 1),
		ImportBin(p) => C::Import(p.clone(), 2),
		Paren(x) => return l(x),
	})
}

// ------------------------------------------------------------------------------------------------ values

#[derive(Clone, Debug, PartialEq)]
pub enum E {
	/// `error e`
	User(String),
	/// failed assert (message if one was given)
	Assert(Option<String>),
	Type(String),
	NoField(String),
	Index(String),
	DivZero,
	Arity(String),
	NonFinite,
	Infinite,
	Other(String),
	/// the model gave up (fuel / depth / unsupported): the case is undecided
	Fuel(String),
}
impl E {
	pub fn undecided(&self) -> bool {
		matches!(self, E::Fuel(_))
	}
}
pub type R<T> = Result<T, E>;

#[derive(Clone)]
pub enum V {
	Null,
	Bool(bool),
	Num(f64),
	Str(Rc<str>),
	Arr(Rc<Vec<Th>>),
	Obj(Rc<Obj>),
	Fun(Rc<Fun>),
}
pub type Th = Rc<Thunk>;

pub enum TState {
	Lazy(Env, Rc<C>),
	/// deferred native computation
	Native(Box<dyn FnOnce(&Interp) -> R<V>>),
	Running,
	Done(V),
	Failed(E),
}
pub struct Thunk {
	pub st: RefCell<TState>,
}
thread_local! {
	/// every thunk and object created on this thread since the last release: the value graph of the reference
	/// interpreter is full of reference cycles (thunk -> environment -> thunk, object -> cache -> thunk -> object), which
	/// plain `Rc` never frees; they are cut open when an interpreter is dropped
	static LIVE_THUNKS: RefCell<Vec<std::rc::Weak<Thunk>>> = const { RefCell::new(Vec::new()) };
	static LIVE_OBJS: RefCell<Vec<std::rc::Weak<Obj>>> = const { RefCell::new(Vec::new()) };
}
fn track(t: Th) -> Th {
	LIVE_THUNKS.with(|l| l.borrow_mut().push(Rc::downgrade(&t)));
	t
}
/// cut every reference cycle of the values created on this thread (they must not be used afterwards)
pub fn release_all() {
	let thunks = LIVE_THUNKS.with(|l| std::mem::take(&mut *l.borrow_mut()));
	let objs = LIVE_OBJS.with(|l| std::mem::take(&mut *l.borrow_mut()));
	for w in &thunks {
		if let Some(t) = w.upgrade() {
			if let Ok(mut st) = t.st.try_borrow_mut() {
				let old = std::mem::replace(&mut *st, TState::Running);
				drop(st);
				drop(old);
			}
		}
	}
	for w in &objs {
		if let Some(o) = w.upgrade() {
			let cache = o.cache.try_borrow_mut().map(|mut c| std::mem::take(&mut *c));
			let envs = o.local_envs.try_borrow_mut().map(|mut c| std::mem::take(&mut *c));
			drop(cache);
			drop(envs);
		}
	}
}
impl Drop for Interp {
	fn drop(&mut self) {
		release_all();
	}
}

impl Thunk {
	pub fn lazy(env: &Env, c: &Rc<C>) -> Th {
		track(Rc::new(Thunk { st: RefCell::new(TState::Lazy(env.clone(), c.clone())) }))
	}
	pub fn done(v: V) -> Th {
		track(Rc::new(Thunk { st: RefCell::new(TState::Done(v)) }))
	}
	pub fn native(f: impl FnOnce(&Interp) -> R<V> + 'static) -> Th {
		track(Rc::new(Thunk { st: RefCell::new(TState::Native(Box::new(f))) }))
	}
	pub fn was_forced(&self) -> bool {
		!matches!(&*self.st.borrow(), TState::Lazy(..) | TState::Native(_))
	}
}

pub enum Fun {
	Closure { env: Env, params: Rc<Vec<(String, Option<Rc<C>>)>>, body: Rc<C> },
	Builtin(&'static str, &'static [&'static str]),
}

struct EnvNode {
	name: String,
	th: RefCell<Option<Th>>,
	parent: Option<Rc<EnvNode>>,
}
#[derive(Clone, Default)]
pub struct Env {
	vars: Option<Rc<EnvNode>>,
	/// (self, number of layers visible to `super`)
	pub this: Option<(Rc<Obj>, usize)>,
}
impl Env {
	fn bind(&self, name: &str, th: Th) -> Env {
		Env { vars: Some(Rc::new(EnvNode { name: name.to_owned(), th: RefCell::new(Some(th)), parent: self.vars.clone() })), this: self.this.clone() }
	}
	/// create a recursive scope: all names first, thunks filled in afterwards
	fn bind_rec(&self, names: &[String]) -> (Env, Vec<Rc<EnvNode>>) {
		let mut cur = self.vars.clone();
		let mut nodes = vec![];
		for n in names {
			let node = Rc::new(EnvNode { name: n.clone(), th: RefCell::new(None), parent: cur });
			nodes.push(node.clone());
			cur = Some(node);
		}
		(Env { vars: cur, this: self.this.clone() }, nodes)
	}
	fn lookup(&self, name: &str) -> Option<Th> {
		let mut cur = self.vars.as_ref();
		while let Some(n) = cur {
			if n.name == name {
				return n.th.borrow().clone();
			}
			cur = n.parent.as_ref();
		}
		None
	}
}

pub enum Layer {
	Lit { env: Env, lit: Rc<ObjLit>, names: Vec<Option<Rc<str>>> },
	/// object comprehension result / native object: fixed fields with ready thunks builders
	Fixed { env: Env, fields: Vec<(Rc<str>, bool, Vis, Rc<C>, Env)>, locals: Vec<(String, Rc<C>)> },
	/// std.objectRemoveKey: hides `name` of the layers of its own argument (the given number of layers directly
	/// beneath) from every lookup that starts above; layers further down (a base the result is added onto) are untouched
	Remove(Rc<str>, usize),
}
pub struct Obj {
	pub layers: Vec<Rc<Layer>>,
	cache: RefCell<HashMap<(Rc<str>, usize), Th>>,
	local_envs: RefCell<HashMap<usize, Env>>,
	asserts: Cell<u8>, // 0 = not run, 1 = running, 2 = done
}
impl Obj {
	fn new(layers: Vec<Rc<Layer>>) -> Rc<Obj> {
		let o = Rc::new(Obj { layers, cache: RefCell::new(HashMap::new()), local_envs: RefCell::new(HashMap::new()), asserts: Cell::new(0) });
		LIVE_OBJS.with(|l| l.borrow_mut().push(Rc::downgrade(&o)));
		o
	}
}

#[derive(Default)]
pub struct Stats {
	pub steps: u64,
}

pub struct Interp {
	pub fuel: Cell<i64>,
	pub depth: Cell<u32>,
	pub max_depth: u32,
	pub traces: RefCell<Vec<String>>,
	pub ext: RefCell<HashMap<String, Th>>,
	pub files: RefCell<HashMap<String, Vec<u8>>>,
	pub file_cache: RefCell<HashMap<String, Th>>,
	pub std: RefCell<Option<V>>,
	pub same_reference_equal: Cell<bool>,
}

fn s(x: &str) -> V {
	V::Str(Rc::from(x))
}

pub fn type_name(v: &V) -> &'static str {
	match v {
		V::Null => "null",
		V::Bool(_) => "boolean",
		V::Num(_) => "number",
		V::Str(_) => "string",
		V::Arr(_) => "array",
		V::Obj(_) => "object",
		V::Fun(_) => "function",
	}
}

const BUILTINS: &[(&str, &[&str])] = &[
	("length", &["x"]),
	("type", &["x"]),
	("toString", &["a"]),
	("objectFields", &["o"]),
	("objectFieldsAll", &["o"]),
	("objectHas", &["o", "f"]),
	("objectHasAll", &["o", "f"]),
	("objectValues", &["o"]),
	("objectRemoveKey", &["obj", "key"]),
	("range", &["from", "to"]),
	("makeArray", &["sz", "func"]),
	("join", &["sep", "arr"]),
	("map", &["func", "arr"]),
	("filter", &["func", "arr"]),
	("foldl", &["func", "arr", "init"]),
	("trace", &["str", "rest"]),
	("extVar", &["x"]),
	("slice", &["indexable", "index", "end", "step"]),
	("manifestJsonMinified", &["value"]),
	("get", &["o", "f", "default", "inc_hidden"]),
	("isString", &["v"]),
	("isNumber", &["v"]),
	("reverse", &["arr"]),
];

impl Interp {
	pub fn new(fuel: i64) -> Self {
		Self {
			fuel: Cell::new(fuel),
			depth: Cell::new(0),
			max_depth: 150,
			traces: RefCell::new(vec![]),
			ext: RefCell::new(HashMap::new()),
			files: RefCell::new(HashMap::new()),
			file_cache: RefCell::new(HashMap::new()),
			std: RefCell::new(None),
			same_reference_equal: Cell::new(false),
		}
	}
	fn tick(&self) -> R<()> {
		let f = self.fuel.get() - 1;
		self.fuel.set(f);
		if f <= 0 {
			return Err(E::Fuel("out of fuel".into()));
		}
		Ok(())
	}
	fn enter(&self) -> R<DepthGuard<'_>> {
		let d = self.depth.get() + 1;
		if d > self.max_depth {
			return Err(E::Fuel("model recursion depth".into()));
		}
		self.depth.set(d);
		Ok(DepthGuard(self))
	}

	pub fn std_obj(&self) -> V {
		if let Some(v) = &*self.std.borrow() {
			return v.clone();
		}
		let env = Env::default();
		let mut fields = vec![];
		for (name, _) in BUILTINS {
			fields.push((Rc::<str>::from(*name), false, Vis::Hidden, Rc::new(C::Var(format!("\0builtin:{name}"))), env.clone()));
		}
		let o = V::Obj(Obj::new(vec![Rc::new(Layer::Fixed { env, fields, locals: vec![] })]));
		*self.std.borrow_mut() = Some(o.clone());
		o
	}
	pub fn root_env(&self) -> Env {
		Env::default().bind("std", Thunk::done(self.std_obj()))
	}

	pub fn force(&self, th: &Th) -> R<V> {
		let st = std::mem::replace(&mut *th.st.borrow_mut(), TState::Running);
		let r = match st {
			TState::Done(v) => {
				*th.st.borrow_mut() = TState::Done(v.clone());
				return Ok(v);
			}
			TState::Failed(e) => {
				*th.st.borrow_mut() = TState::Failed(e.clone());
				return Err(e);
			}
			TState::Running => {
				return Err(E::Infinite);
			}
			TState::Lazy(env, c) => self.eval(&env, &c),
			TState::Native(f) => f(self),
		};
		match &r {
			Ok(v) => *th.st.borrow_mut() = TState::Done(v.clone()),
			Err(e) => *th.st.borrow_mut() = TState::Failed(e.clone()),
		}
		r
	}

	// -------------------------------------------------------------------------------------------- objects

	/// names defined by a layer (None entries = null-named fields, which do not exist)
	fn layer_defines(&self, l: &Layer, name: &str) -> Option<usize> {
		match l {
			Layer::Lit { names, .. } => names.iter().position(|n| n.as_deref() == Some(name)),
			Layer::Fixed { fields, .. } => fields.iter().position(|f| &*f.0 == name),
			Layer::Remove(..) => None,
		}
	}
	/// ordered map name -> visible? for the first `upto` layers
	pub fn field_set(&self, o: &Obj, upto: usize) -> BTreeMap<Rc<str>, bool> {
		let mut m: BTreeMap<Rc<str>, bool> = BTreeMap::new();
		for (li, l) in o.layers[..upto].iter().enumerate() {
			let mut def = |n: &Rc<str>, vis: Vis| match vis {
				Vis::Hidden => {
					m.insert(n.clone(), false);
				}
				Vis::Unhide => {
					m.insert(n.clone(), true);
				}
				Vis::Normal => {
					m.entry(n.clone()).or_insert(true);
				}
			};
			match &**l {
				Layer::Lit { lit, names, .. } => {
					for (i, n) in names.iter().enumerate() {
						if let Some(n) = n {
							def(n, lit.fields[i].vis);
						}
					}
				}
				Layer::Fixed { fields, .. } => {
					for f in fields {
						def(&f.0, f.2);
					}
				}
				Layer::Remove(n, span) => {
					// what lies beneath the removed region stays as it was
					match self.field_set(o, li.saturating_sub(*span)).get(n) {
						Some(v) => {
							m.insert(n.clone(), *v);
						}
						None => {
							m.remove(n);
						}
					}
				}
			}
		}
		m
	}
	pub fn has_field(&self, o: &Obj, upto: usize, name: &str, include_hidden: bool) -> bool {
		match self.field_set(o, upto).get(name) {
			Some(v) => *v || include_hidden,
			None => false,
		}
	}

	/// environment of layer `i` of object `o` (self/super bound, object locals in scope), shared by all its fields
	fn layer_env(&self, o: &Rc<Obj>, i: usize) -> Env {
		if let Some(e) = o.local_envs.borrow().get(&i) {
			return e.clone();
		}
		let (base, locals, outermost): (Env, &Vec<(String, Rc<C>)>, bool) = match &*o.layers[i] {
			Layer::Lit { env, lit, .. } => (env.clone(), &lit.locals, lit.outermost),
			Layer::Fixed { env, locals, .. } => (env.clone(), locals, false),
			Layer::Remove(..) => unreachable!(),
		};
		let mut env = Env { vars: base.vars.clone(), this: Some((o.clone(), i)) };
		if outermost {
			env = env.bind("$", Thunk::done(V::Obj(o.clone())));
		}
		let names: Vec<String> = locals.iter().map(|l| l.0.clone()).collect();
		let (env2, nodes) = env.bind_rec(&names);
		for (k, (_, c)) in locals.iter().enumerate() {
			*nodes[k].th.borrow_mut() = Some(Thunk::lazy(&env2, c));
		}
		o.local_envs.borrow_mut().insert(i, env2.clone());
		env2
	}

	fn run_asserts(&self, o: &Rc<Obj>) -> R<()> {
		if o.asserts.get() != 0 {
			return Ok(());
		}
		o.asserts.set(1);
		for i in 0..o.layers.len() {
			if let Layer::Lit { lit, .. } = &*o.layers[i] {
				if lit.asserts.is_empty() {
					continue;
				}
				let env = self.layer_env(o, i);
				for (c, m) in &lit.asserts {
					let r = (|| -> R<()> {
						match self.eval(&env, c)? {
							V::Bool(true) => Ok(()),
							V::Bool(false) => {
								let msg = match m {
									Some(m) => Some(self.to_string(&self.eval(&env, m)?)?),
									None => None,
								};
								Err(E::Assert(msg))
							}
							v => Err(E::Type(format!("assert condition must be boolean, got {}", type_name(&v)))),
						}
					})();
					if let Err(e) = r {
						o.asserts.set(0);
						return Err(e);
					}
				}
			}
		}
		o.asserts.set(2);
		Ok(())
	}

	/// thunk of field `name` looked up in layers [0, upto) of `o` (self stays `o`)
	///
	/// Sharing: a field value is shared per *access path* — all reads through the object itself (`upto` = number of
	/// layers), all explicit `super.f` reads from one layer (`upto` = that layer), and the implicit read of `f +:` from
	/// one layer are each one thunk.  Nothing more is promised (reads from different layers, or an explicit `super.f`
	/// next to `f +:` in the same layer, may evaluate the inherited field again), so nothing more is shared here: the
	/// evaluation counts of the reference are upper bounds for an implementation.
	fn field_thunk(&self, o: &Rc<Obj>, upto: usize, name: &str, implicit: bool) -> Option<Th> {
		let slot = upto * 2 + usize::from(implicit);
		let mut i = upto;
		while i > 0 {
			i -= 1;
			if let Layer::Remove(n, span) = &*o.layers[i] {
				if &**n == name {
					// skip the layers of the removal's own argument
					i = i.saturating_sub(*span);
				}
				continue;
			}
			let Some(fi) = self.layer_defines(&o.layers[i], name) else { continue };
			let key: (Rc<str>, usize) = (Rc::from(name), slot);
			if let Some(t) = o.cache.borrow().get(&key) {
				return Some(t.clone());
			}
			let (plus, body, env) = match &*o.layers[i] {
				Layer::Lit { lit, .. } => (lit.fields[fi].plus, lit.fields[fi].body.clone(), self.layer_env(o, i)),
				Layer::Fixed { fields, .. } => {
					let f = &fields[fi];
					let le = self.layer_env(o, i);
					// comprehension fields close over their own loop variables; self/super and object locals come from the layer
					let mut env = Env { vars: f.4.vars.clone(), this: le.this.clone() };
					let Layer::Fixed { locals, .. } = &*o.layers[i] else { unreachable!() };
					if !locals.is_empty() {
						let names: Vec<String> = locals.iter().map(|l| l.0.clone()).collect();
						let (env2, nodes) = env.bind_rec(&names);
						for (k, (_, c)) in locals.iter().enumerate() {
							*nodes[k].th.borrow_mut() = Some(Thunk::lazy(&env2, c));
						}
						env = env2;
					}
					(f.1, f.3.clone(), env)
				}
				Layer::Remove(..) => unreachable!(),
			};
			let th = if plus {
				// f +: e   ==   f: if "f" in super then super.f + e else e
				let o2 = o.clone();
				let name2: Rc<str> = Rc::from(name);
				Thunk::native(move |it: &Interp| {
					let here = it.eval(&env, &body);
					if it.has_field(&o2, i, &name2, true) {
						let sup = it.field_thunk(&o2, i, &name2, true).ok_or_else(|| E::NoField(name2.to_string()))?;
						let a = it.force(&sup)?;
						let b = here?;
						it.add(a, b)
					} else {
						here
					}
				})
			} else {
				Thunk::lazy(&env, &body)
			};
			o.cache.borrow_mut().insert(key, th.clone());
			return Some(th);
		}
		None
	}

	pub fn get_field(&self, o: &Rc<Obj>, name: &str) -> R<Option<V>> {
		self.run_asserts(o)?;
		if !self.has_field(o, o.layers.len(), name, true) {
			return Ok(None);
		}
		match self.field_thunk(o, o.layers.len(), name, false) {
			Some(t) => Ok(Some(self.force(&t)?)),
			None => Ok(None),
		}
	}

	// -------------------------------------------------------------------------------------------- evaluation

	pub fn eval(&self, env: &Env, c: &Rc<C>) -> R<V> {
		self.tick()?;
		let _g = self.enter()?;
		Ok(match &**c {
			C::Null => V::Null,
			C::True => V::Bool(true),
			C::False => V::Bool(false),
			C::Num(n) => V::Num(*n),
			C::Str(x) => s(x),
			C::SelfE => match &env.this {
				Some((o, _)) => V::Obj(o.clone()),
				None => return Err(E::Other("self outside of object".into())),
			},
			C::Var(n) => {
				if let Some(b) = n.strip_prefix("\0builtin:") {
					let (name, params) = BUILTINS.iter().find(|x| x.0 == b).unwrap();
					return Ok(V::Fun(Rc::new(Fun::Builtin(name, params))));
				}
				match env.lookup(n) {
					Some(t) => self.force(&t)?,
					None => return Err(E::Other(format!("unbound variable {n}"))),
				}
			}
			C::Arr(items) => V::Arr(Rc::new(items.iter().map(|i| Thunk::lazy(env, i)).collect())),
			C::ArrComp(body, specs) => {
				let mut out = vec![];
				self.comp(env, specs, 0, &mut |e| {
					out.push(Thunk::lazy(e, body));
					Ok(())
				})?;
				V::Arr(Rc::new(out))
			}
			C::Obj(lit) => {
				let mut names = vec![];
				for f in &lit.fields {
					match self.eval(env, &f.name)? {
						V::Str(x) => {
							if names.iter().any(|n: &Option<Rc<str>>| n.as_deref() == Some(&*x)) {
								return Err(E::Other(format!("duplicate field name {x}")));
							}
							names.push(Some(x));
						}
						V::Null => names.push(None),
						v => return Err(E::Type(format!("field name must be string, got {}", type_name(&v)))),
					}
				}
				V::Obj(Obj::new(vec![Rc::new(Layer::Lit { env: env.clone(), lit: lit.clone(), names })]))
			}
			C::ObjComp { locals, name, plus, vis, value, specs } => {
				let mut fields: Vec<(Rc<str>, bool, Vis, Rc<C>, Env)> = vec![];
				self.comp(env, specs, 0, &mut |e| {
					match self.eval(e, name)? {
						V::Str(x) => {
							if fields.iter().any(|f| f.0 == x) {
								return Err(E::Other(format!("duplicate field name {x}")));
							}
							fields.push((x, *plus, *vis, value.clone(), e.clone()));
						}
						V::Null => {}
						v => return Err(E::Type(format!("field name must be string, got {}", type_name(&v)))),
					}
					Ok(())
				})?;
				V::Obj(Obj::new(vec![Rc::new(Layer::Fixed { env: env.clone(), fields, locals: locals.iter().map(|(n, c)| (n.clone(), c.clone())).collect() })]))
			}
			C::Index(a, i) => {
				let av = self.eval(env, a)?;
				let iv = self.eval(env, i)?;
				self.index(av, iv)?
			}
			C::SuperIndex(i) => {
				let Some((o, upto)) = &env.this else { return Err(E::Other("super outside of object".into())) };
				let iv = self.eval(env, i)?;
				let V::Str(name) = iv else { return Err(E::Type("super index must be a string".into())) };
				if !self.has_field(o, *upto, &name, true) {
					return Err(E::NoField(name.to_string()));
				}
				match self.field_thunk(o, *upto, &name, false) {
					Some(t) => self.force(&t)?,
					None => return Err(E::NoField(name.to_string())),
				}
			}
			C::InSuper(x) => {
				let Some((o, upto)) = &env.this else { return Err(E::Other("super outside of object".into())) };
				let V::Str(name) = self.eval(env, x)? else { return Err(E::Type("left operand of in must be a string".into())) };
				V::Bool(self.has_field(o, *upto, &name, true))
			}
			C::Call(f, args, named, ts) => {
				let fv = self.eval(env, f)?;
				let V::Fun(fun) = fv else { return Err(E::Type(format!("only functions can be called, got {}", type_name(&fv)))) };
				let pos: Vec<Th> = args.iter().map(|a| Thunk::lazy(env, a)).collect();
				let nm: Vec<(String, Th)> = named.iter().map(|(n, a)| (n.clone(), Thunk::lazy(env, a))).collect();
				if *ts {
					for t in pos.iter().chain(nm.iter().map(|x| &x.1)) {
						self.force(t)?;
					}
				}
				self.call(&fun, pos, nm)?
			}
			C::Fun(ps, b) => V::Fun(Rc::new(Fun::Closure { env: env.clone(), params: ps.clone(), body: b.clone() })),
			C::Local(bs, body) => {
				let names: Vec<String> = bs.iter().map(|b| b.0.clone()).collect();
				let (env2, nodes) = env.bind_rec(&names);
				for (k, (_, c)) in bs.iter().enumerate() {
					*nodes[k].th.borrow_mut() = Some(Thunk::lazy(&env2, c));
				}
				self.eval(&env2, body)?
			}
			C::If(c, t, e) => match self.eval(env, c)? {
				V::Bool(true) => self.eval(env, t)?,
				V::Bool(false) => match e {
					Some(e) => self.eval(env, e)?,
					None => V::Null,
				},
				v => return Err(E::Type(format!("if condition must be boolean, got {}", type_name(&v)))),
			},
			C::Un(op, x) => {
				let v = self.eval(env, x)?;
				match (op, v) {
					(UnOp::Not, V::Bool(b)) => V::Bool(!b),
					(UnOp::Neg, V::Num(n)) => V::Num(-n),
					(UnOp::Plus, V::Num(n)) => V::Num(n),
					(UnOp::BitNot, V::Num(n)) => V::Num(!(self.to_i64(n)?) as f64),
					(op, v) => return Err(E::Type(format!("unary {} on {}", op.sym(), type_name(&v)))),
				}
			}
			C::Bin(op, a, b) => self.binop(env, *op, a, b)?,
			C::Error(x) => {
				let v = self.eval(env, x)?;
				return Err(E::User(self.to_string(&v)?));
			}
			C::Assert(c, m, rest) => match self.eval(env, c)? {
				V::Bool(true) => self.eval(env, rest)?,
				V::Bool(false) => {
					let msg = match m {
						Some(m) => Some(self.to_string(&self.eval(env, m)?)?),
						None => None,
					};
					return Err(E::Assert(msg));
				}
				v => return Err(E::Type(format!("assert condition must be boolean, got {}", type_name(&v)))),
			},
			C::Slice(a, x, y, z) => {
				let av = self.eval(env, a)?;
				let mut part = |p: &Option<Rc<C>>| -> R<V> {
					match p {
						Some(p) => self.eval(env, p),
						None => Ok(V::Null),
					}
				};
				let xv = part(x)?;
				let yv = part(y)?;
				let zv = part(z)?;
				self.slice(av, xv, yv, zv)?
			}
			C::Import(p, kind) => self.import(p, *kind)?,
		})
	}

	fn import(&self, p: &str, kind: u8) -> R<V> {
		let Some(data) = self.files.borrow().get(p).cloned() else { return Err(E::Other(format!("import not found: {p}"))) };
		match kind {
			0 => {
				if let Some(t) = self.file_cache.borrow().get(p) {
					return self.force(&t.clone());
				}
				Err(E::Fuel("code import without registered program".into()))
			}
			1 => match String::from_utf8(data) {
				Ok(t) => Ok(s(&t)),
				Err(_) => Err(E::Other("invalid utf-8".into())),
			},
			_ => Ok(V::Arr(Rc::new(data.iter().map(|b| Thunk::done(V::Num(*b as f64))).collect()))),
		}
	}

	fn comp(&self, env: &Env, specs: &[Spec], k: usize, f: &mut dyn FnMut(&Env) -> R<()>) -> R<()> {
		if k == specs.len() {
			return f(env);
		}
		match &specs[k] {
			Spec::For(v, arr) => {
				let V::Arr(items) = self.eval(env, arr)? else { return Err(E::Type("for loop can only iterate over arrays".into())) };
				for it in items.iter() {
					self.tick()?;
					let e2 = env.bind(v, it.clone());
					self.comp(&e2, specs, k + 1, f)?;
				}
				Ok(())
			}
			Spec::If(c) => match self.eval(env, c)? {
				V::Bool(true) => self.comp(env, specs, k + 1, f),
				V::Bool(false) => Ok(()),
				v => Err(E::Type(format!("comprehension condition must be boolean, got {}", type_name(&v)))),
			},
		}
	}

	pub fn call(&self, fun: &Rc<Fun>, pos: Vec<Th>, named: Vec<(String, Th)>) -> R<V> {
		self.tick()?;
		match &**fun {
			Fun::Closure { env, params, body } => {
				if pos.len() > params.len() {
					return Err(E::Arity("too many arguments".into()));
				}
				let names: Vec<String> = params.iter().map(|p| p.0.clone()).collect();
				let (env2, nodes) = env.bind_rec(&names);
				let mut bound = vec![false; params.len()];
				for (i, t) in pos.into_iter().enumerate() {
					*nodes[i].th.borrow_mut() = Some(t);
					bound[i] = true;
				}
				for (n, t) in named {
					let Some(i) = names.iter().position(|x| *x == n) else { return Err(E::Arity(format!("unknown parameter {n}"))) };
					if bound[i] {
						return Err(E::Arity(format!("parameter {n} bound twice")));
					}
					*nodes[i].th.borrow_mut() = Some(t);
					bound[i] = true;
				}
				for (i, p) in params.iter().enumerate() {
					if !bound[i] {
						match &p.1 {
							Some(d) => *nodes[i].th.borrow_mut() = Some(Thunk::lazy(&env2, d)),
							None => return Err(E::Arity(format!("missing argument {}", p.0))),
						}
					}
				}
				self.eval(&env2, body)
			}
			Fun::Builtin(name, params) => {
				if pos.len() > params.len() {
					return Err(E::Arity("too many arguments".into()));
				}
				let mut args: Vec<Option<Th>> = vec![None; params.len()];
				for (i, t) in pos.into_iter().enumerate() {
					args[i] = Some(t);
				}
				for (n, t) in named {
					let Some(i) = params.iter().position(|x| *x == n) else { return Err(E::Arity(format!("unknown parameter {n}"))) };
					if args[i].is_some() {
						return Err(E::Arity(format!("parameter {n} bound twice")));
					}
					args[i] = Some(t);
				}
				self.builtin(name, args)
			}
		}
	}

	fn to_i64(&self, n: f64) -> R<i64> {
		if n.abs() > 9007199254740991.0 {
			return Err(E::Other("number out of safe integer range".into()));
		}
		Ok(n.trunc() as i64)
	}
	fn num(&self, v: f64) -> R<V> {
		if v.is_finite() {
			Ok(V::Num(v))
		} else {
			Err(E::NonFinite)
		}
	}

	pub fn add(&self, a: V, b: V) -> R<V> {
		Ok(match (a, b) {
			(V::Num(x), V::Num(y)) => self.num(x + y)?,
			(V::Str(x), V::Str(y)) => s(&format!("{x}{y}")),
			(V::Str(x), y) => s(&format!("{x}{}", self.to_string(&y)?)),
			(x, V::Str(y)) => s(&format!("{}{y}", self.to_string(&x)?)),
			(V::Arr(x), V::Arr(y)) => V::Arr(Rc::new(x.iter().chain(y.iter()).cloned().collect())),
			(V::Obj(x), V::Obj(y)) => V::Obj(Obj::new(x.layers.iter().chain(y.layers.iter()).cloned().collect())),
			(x, y) => return Err(E::Type(format!("{} + {}", type_name(&x), type_name(&y)))),
		})
	}

	fn binop(&self, env: &Env, op: BinOp, a: &Rc<C>, b: &Rc<C>) -> R<V> {
		use BinOp::*;
		match op {
			And => {
				return match self.eval(env, a)? {
					V::Bool(false) => Ok(V::Bool(false)),
					V::Bool(true) => match self.eval(env, b)? {
						V::Bool(x) => Ok(V::Bool(x)),
						v => Err(E::Type(format!("right operand of && must be boolean, got {}", type_name(&v)))),
					},
					v => Err(E::Type(format!("left operand of && must be boolean, got {}", type_name(&v)))),
				}
			}
			Or => {
				return match self.eval(env, a)? {
					V::Bool(true) => Ok(V::Bool(true)),
					V::Bool(false) => match self.eval(env, b)? {
						V::Bool(x) => Ok(V::Bool(x)),
						v => Err(E::Type(format!("right operand of || must be boolean, got {}", type_name(&v)))),
					},
					v => Err(E::Type(format!("left operand of || must be boolean, got {}", type_name(&v)))),
				}
			}
			_ => {}
		}
		let av = self.eval(env, a)?;
		let bv = self.eval(env, b)?;
		Ok(match op {
			Add => self.add(av, bv)?,
			Sub | Mul | Div => match (av, bv) {
				(V::Num(x), V::Num(y)) => match op {
					Sub => self.num(x - y)?,
					Mul => self.num(x * y)?,
					_ => {
						if y == 0.0 {
							return Err(E::DivZero);
						}
						self.num(x / y)?
					}
				},
				(x, y) => return Err(E::Type(format!("{} {} {}", type_name(&x), op.sym(), type_name(&y)))),
			},
			Mod => match (av, bv) {
				(V::Num(x), V::Num(y)) => {
					if y == 0.0 {
						return Err(E::DivZero);
					}
					self.num(x % y)?
				}
				(V::Str(f), v) => s(&self.format(&f, v)?),
				(x, y) => return Err(E::Type(format!("{} % {}", type_name(&x), type_name(&y)))),
			},
			BitAnd | BitOr | BitXor | Shl | Shr => match (av, bv) {
				(V::Num(x), V::Num(y)) => {
					let (x, y) = (self.to_i64(x)?, self.to_i64(y)?);
					let r = match op {
						BitAnd => x & y,
						BitOr => x | y,
						BitXor => x ^ y,
						Shl => {
							if y < 0 {
								return Err(E::Other("negative shift".into()));
							}
							let y = (y % 64) as u32;
							let r = x.checked_mul(1i64.checked_shl(y).ok_or(E::NonFinite)?);
							match r {
								Some(r) if y < 63 => r,
								_ => return Err(E::Other("shift overflow".into())),
							}
						}
						_ => {
							if y < 0 {
								return Err(E::Other("negative shift".into()));
							}
							x >> ((y % 64) as u32)
						}
					};
					V::Num(r as f64)
				}
				(x, y) => return Err(E::Type(format!("{} {} {}", type_name(&x), op.sym(), type_name(&y)))),
			},
			Eq => V::Bool(self.equals(&av, &bv)?),
			Ne => V::Bool(!self.equals(&av, &bv)?),
			Lt => V::Bool(self.compare(&av, &bv)? < 0),
			Le => V::Bool(self.compare(&av, &bv)? <= 0),
			Gt => V::Bool(self.compare(&av, &bv)? > 0),
			Ge => V::Bool(self.compare(&av, &bv)? >= 0),
			In => match (av, bv) {
				(V::Str(f), V::Obj(o)) => V::Bool(self.has_field(&o, o.layers.len(), &f, true)),
				(x, y) => return Err(E::Type(format!("{} in {}", type_name(&x), type_name(&y)))),
			},
			And | Or => unreachable!(),
		})
	}

	pub fn equals(&self, a: &V, b: &V) -> R<bool> {
		self.tick()?;
		// deviation model of the recorded finding C02-same-reference-equality-shortcut (off unless a check asks for it
		// to explain an observed difference): one and the same array / object value is equal to itself unread
		if self.same_reference_equal.get() {
			match (a, b) {
				(V::Arr(x), V::Arr(y)) if Rc::ptr_eq(x, y) => return Ok(true),
				(V::Obj(x), V::Obj(y)) if Rc::ptr_eq(x, y) => return Ok(true),
				_ => {}
			}
		}
		Ok(match (a, b) {
			(V::Null, V::Null) => true,
			(V::Bool(x), V::Bool(y)) => x == y,
			(V::Num(x), V::Num(y)) => x == y,
			(V::Str(x), V::Str(y)) => x == y,
			(V::Arr(x), V::Arr(y)) => {
				if x.len() != y.len() {
					return Ok(false);
				}
				for (p, q) in x.iter().zip(y.iter()) {
					let pv = self.force(p)?;
					let qv = self.force(q)?;
					if !self.equals(&pv, &qv)? {
						return Ok(false);
					}
				}
				true
			}
			(V::Obj(x), V::Obj(y)) => {
				// std.equals compares the visible field names, then the field values: assertions only run through the
				// field reads (two field-less objects with failing assertions are equal)
				let fx: Vec<Rc<str>> = self.field_set(x, x.layers.len()).into_iter().filter(|f| f.1).map(|f| f.0).collect();
				let fy: Vec<Rc<str>> = self.field_set(y, y.layers.len()).into_iter().filter(|f| f.1).map(|f| f.0).collect();
				if fx != fy {
					return Ok(false);
				}
				for f in fx {
					let p = self.get_field(x, &f)?.ok_or(E::NoField(f.to_string()))?;
					let q = self.get_field(y, &f)?.ok_or(E::NoField(f.to_string()))?;
					if !self.equals(&p, &q)? {
						return Ok(false);
					}
				}
				true
			}
			(V::Fun(_), V::Fun(_)) => return Err(E::Type("cannot test equality of functions".into())),
			_ => false,
		})
	}
	pub fn compare(&self, a: &V, b: &V) -> R<i32> {
		self.tick()?;
		Ok(match (a, b) {
			(V::Num(x), V::Num(y)) => {
				if x < y {
					-1
				} else if x > y {
					1
				} else {
					0
				}
			}
			(V::Str(x), V::Str(y)) => {
				// code point order
				let o = x.chars().cmp(y.chars());
				o as i32
			}
			(V::Arr(x), V::Arr(y)) => {
				for (p, q) in x.iter().zip(y.iter()) {
					let pv = self.force(p)?;
					let qv = self.force(q)?;
					let c = self.compare(&pv, &qv)?;
					if c != 0 {
						return Ok(c);
					}
				}
				(x.len() as i64 - y.len() as i64).signum() as i32
			}
			(x, y) => return Err(E::Type(format!("cannot compare {} with {}", type_name(x), type_name(y)))),
		})
	}

	fn index(&self, a: V, i: V) -> R<V> {
		match (a, i) {
			(V::Arr(items), V::Num(n)) => {
				if n.fract() != 0.0 {
					return Err(E::Index("fractional index".into()));
				}
				if n < 0.0 || n as usize >= items.len() {
					return Err(E::Index(format!("index {n} out of bounds {}", items.len())));
				}
				self.force(&items[n as usize])
			}
			(V::Str(x), V::Num(n)) => {
				if n.fract() != 0.0 {
					return Err(E::Index("fractional index".into()));
				}
				let cs: Vec<char> = x.chars().collect();
				if n < 0.0 || n as usize >= cs.len() {
					return Err(E::Index(format!("index {n} out of bounds {}", cs.len())));
				}
				Ok(s(&cs[n as usize].to_string()))
			}
			(V::Obj(o), V::Str(f)) => match self.get_field(&o, &f)? {
				Some(v) => Ok(v),
				None => Err(E::NoField(f.to_string())),
			},
			(a, i) => Err(E::Type(format!("cannot index {} with {}", type_name(&a), type_name(&i)))),
		}
	}

	fn slice(&self, a: V, x: V, y: V, z: V) -> R<V> {
		let opt = |v: &V, what: &str| -> R<Option<f64>> {
			match v {
				V::Null => Ok(None),
				V::Num(n) => Ok(Some(*n)),
				v => Err(E::Type(format!("slice {what} must be a number, got {}", type_name(v)))),
			}
		};
		let (x, y, z) = (opt(&x, "start")?, opt(&y, "end")?, opt(&z, "step")?);
		for v in [x, y, z].into_iter().flatten() {
			if v.fract() != 0.0 {
				return Err(E::Type("slice bounds must be integers".into()));
			}
		}
		let step = match z {
			None => 1usize,
			Some(s) if s >= 1.0 => s as usize,
			Some(_) => return Err(E::Other("slice step must be positive".into())),
		};
		let sel = |len: usize| -> Vec<usize> {
			let l = len as i64;
			let fix = |p: Option<f64>, d: i64| match p {
				None => d,
				Some(v) if v < 0.0 => (l + v as i64).max(0),
				Some(v) => (v as i64).min(l),
			};
			let s0 = fix(x, 0);
			let e0 = fix(y, l);
			if s0 >= e0 {
				vec![]
			} else {
				(s0 as usize..e0 as usize).step_by(step).collect()
			}
		};
		match a {
			V::Arr(items) => Ok(V::Arr(Rc::new(sel(items.len()).into_iter().map(|i| items[i].clone()).collect()))),
			V::Str(t) => {
				let cs: Vec<char> = t.chars().collect();
				Ok(s(&sel(cs.len()).into_iter().map(|i| cs[i]).collect::<String>()))
			}
			v => Err(E::Type(format!("cannot slice {}", type_name(&v)))),
		}
	}

	// -------------------------------------------------------------------------------------------- text

	pub fn num_to_string(n: f64) -> String {
		if n == n.trunc() && n.abs() < 1e17 {
			format!("{}", n as i64).replace("-0", if n == 0.0 { "-0" } else { "-0" })
		} else {
			format!("{n}")
		}
	}
	pub fn to_string(&self, v: &V) -> R<String> {
		match v {
			V::Str(x) => Ok(x.to_string()),
			v => {
				let mut out = String::new();
				self.manifest(v, &mut out, true)?;
				Ok(out)
			}
		}
	}
	pub fn escape(x: &str, out: &mut String) {
		out.push('"');
		for c in x.chars() {
			match c {
				'"' => out.push_str("\\\""),
				'\\' => out.push_str("\\\\"),
				'\u{8}' => out.push_str("\\b"),
				'\u{c}' => out.push_str("\\f"),
				'\n' => out.push_str("\\n"),
				'\r' => out.push_str("\\r"),
				'\t' => out.push_str("\\t"),
				c if (c as u32) < 0x20 || c == '\u{7f}' => out.push_str(&format!("\\u{:04x}", c as u32)),
				c => out.push(c),
			}
		}
		out.push('"');
	}
	/// minified JSON, or the std.toString layout (`[1, 2]`, `{"a": 1}`, `[ ]`, `{ }`) when `tostring`
	pub fn manifest(&self, v: &V, out: &mut String, tostring: bool) -> R<()> {
		self.tick()?;
		let _g = self.enter()?;
		match v {
			V::Null => out.push_str("null"),
			V::Bool(b) => out.push_str(if *b { "true" } else { "false" }),
			V::Num(n) => out.push_str(&format!("{n}")),
			V::Str(x) => Self::escape(x, out),
			V::Arr(items) => {
				out.push('[');
				for (i, t) in items.iter().enumerate() {
					if i > 0 {
						out.push(',');
						if tostring {
							out.push(' ');
						}
					}
					let e = self.force(t)?;
					self.manifest(&e, out, tostring)?;
				}
				if items.is_empty() && tostring {
					out.push(' ');
				}
				out.push(']');
			}
			V::Obj(o) => {
				self.run_asserts(o)?;
				out.push('{');
				let mut first = true;
				for (f, vis) in self.field_set(o, o.layers.len()) {
					if !vis {
						continue;
					}
					if !first {
						out.push(',');
						if tostring {
							out.push(' ');
						}
					}
					first = false;
					Self::escape(&f, out);
					out.push(':');
					if tostring {
						out.push(' ');
					}
					let e = self.get_field(o, &f)?.ok_or(E::NoField(f.to_string()))?;
					self.manifest(&e, out, tostring)?;
				}
				if first && tostring {
					out.push(' ');
				}
				out.push('}');
			}
			V::Fun(_) => return Err(E::Type("cannot manifest function".into())),
		}
		Ok(())
	}

	/// the small subset of std.format the core generator uses: %s %d %%
	fn format(&self, f: &str, v: V) -> R<String> {
		let vals: Vec<V> = match v {
			V::Arr(items) => {
				let mut o = vec![];
				for t in items.iter() {
					o.push(self.force(t)?);
				}
				o
			}
			v => vec![v],
		};
		let mut out = String::new();
		let mut it = f.chars().peekable();
		let mut k = 0;
		while let Some(c) = it.next() {
			if c != '%' {
				out.push(c);
				continue;
			}
			match it.next() {
				Some('%') => out.push('%'),
				Some('s') => {
					let v = vals.get(k).ok_or_else(|| E::Other("not enough values to format".into()))?;
					k += 1;
					out.push_str(&self.to_string(v)?);
				}
				Some('d') => {
					let v = vals.get(k).ok_or_else(|| E::Other("not enough values to format".into()))?;
					k += 1;
					match v {
						V::Num(n) => out.push_str(&format!("{}", n.trunc() as i64)),
						v => return Err(E::Type(format!("%d expects a number, got {}", type_name(v)))),
					}
				}
				_ => return Err(E::Fuel("format code outside the modelled subset".into())),
			}
		}
		if k < vals.len() {
			return Err(E::Other("too many values to format".into()));
		}
		Ok(out)
	}

	// -------------------------------------------------------------------------------------------- builtins

	fn builtin(&self, name: &str, args: Vec<Option<Th>>) -> R<V> {
		let arg = |i: usize| -> R<V> {
			match args.get(i).and_then(|a| a.as_ref()) {
				Some(t) => self.force(t),
				None => Err(E::Arity(format!("missing argument {i} of std.{name}"))),
			}
		};
		let need = |n: usize| -> R<()> {
			for i in 0..n {
				if args.get(i).and_then(|a| a.as_ref()).is_none() {
					return Err(E::Arity(format!("missing argument {i} of std.{name}")));
				}
			}
			Ok(())
		};
		let tyerr = |what: &str, v: &V| E::Type(format!("std.{name}: expected {what}, got {}", type_name(v)));
		Ok(match name {
			"length" => {
				need(1)?;
				match arg(0)? {
					V::Str(x) => V::Num(x.chars().count() as f64),
					V::Arr(a) => V::Num(a.len() as f64),
					V::Obj(o) => V::Num(self.field_set(&o, o.layers.len()).values().filter(|v| **v).count() as f64),
					V::Fun(f) => match &*f {
						Fun::Closure { params, .. } => V::Num(params.len() as f64),
						Fun::Builtin(_, p) => V::Num(p.len() as f64),
					},
					v => return Err(tyerr("string, array, object or function", &v)),
				}
			}
			"type" => {
				need(1)?;
				s(type_name(&arg(0)?))
			}
			"isString" => {
				need(1)?;
				V::Bool(matches!(arg(0)?, V::Str(_)))
			}
			"isNumber" => {
				need(1)?;
				V::Bool(matches!(arg(0)?, V::Num(_)))
			}
			"toString" => {
				need(1)?;
				s(&self.to_string(&arg(0)?)?)
			}
			"manifestJsonMinified" => {
				need(1)?;
				let mut out = String::new();
				self.manifest(&arg(0)?, &mut out, false)?;
				s(&out)
			}
			"objectFields" | "objectFieldsAll" => {
				need(1)?;
				let V::Obj(o) = arg(0)? else { return Err(tyerr("object", &arg(0)?)) };
				let all = name == "objectFieldsAll";
				V::Arr(Rc::new(self.field_set(&o, o.layers.len()).into_iter().filter(|f| f.1 || all).map(|f| Thunk::done(V::Str(f.0))).collect()))
			}
			"objectHas" | "objectHasAll" => {
				need(2)?;
				let V::Obj(o) = arg(0)? else { return Err(tyerr("object", &arg(0)?)) };
				let V::Str(f) = arg(1)? else { return Err(tyerr("string", &arg(1)?)) };
				V::Bool(self.has_field(&o, o.layers.len(), &f, name == "objectHasAll"))
			}
			"objectValues" => {
				need(1)?;
				let V::Obj(o) = arg(0)? else { return Err(tyerr("object", &arg(0)?)) };
				let mut out = vec![];
				for (f, vis) in self.field_set(&o, o.layers.len()) {
					if vis {
						let o2 = o.clone();
						out.push(Thunk::native(move |it: &Interp| it.get_field(&o2, &f)?.ok_or(E::NoField(f.to_string()))));
					}
				}
				V::Arr(Rc::new(out))
			}
			"objectRemoveKey" => {
				need(2)?;
				let V::Obj(o) = arg(0)? else { return Err(tyerr("object", &arg(0)?)) };
				let V::Str(f) = arg(1)? else { return Err(tyerr("string", &arg(1)?)) };
				let mut layers = o.layers.clone();
				let span = layers.len();
				layers.push(Rc::new(Layer::Remove(f, span)));
				V::Obj(Obj::new(layers))
			}
			"get" => {
				need(2)?;
				let V::Obj(o) = arg(0)? else { return Err(tyerr("object", &arg(0)?)) };
				let V::Str(f) = arg(1)? else { return Err(tyerr("string", &arg(1)?)) };
				let inc = match args.get(3).and_then(|a| a.as_ref()) {
					Some(t) => match self.force(t)? {
						V::Bool(b) => b,
						v => return Err(tyerr("boolean", &v)),
					},
					None => true,
				};
				if self.has_field(&o, o.layers.len(), &f, inc) {
					self.get_field(&o, &f)?.ok_or(E::NoField(f.to_string()))?
				} else {
					match args.get(2).and_then(|a| a.as_ref()) {
						Some(t) => self.force(t)?,
						None => V::Null,
					}
				}
			}
			"range" => {
				need(2)?;
				let (V::Num(a), V::Num(b)) = (arg(0)?, arg(1)?) else { return Err(E::Type("std.range expects numbers".into())) };
				if a.fract() != 0.0 || b.fract() != 0.0 {
					return Err(E::Type("std.range expects integers".into()));
				}
				if b - a > 100000.0 {
					return Err(E::Fuel("huge range".into()));
				}
				V::Arr(Rc::new(((a as i64)..=(b as i64)).map(|i| Thunk::done(V::Num(i as f64))).collect()))
			}
			"makeArray" => {
				need(2)?;
				let V::Num(n) = arg(0)? else { return Err(tyerr("number", &arg(0)?)) };
				let V::Fun(f) = arg(1)? else { return Err(tyerr("function", &arg(1)?)) };
				if n < 0.0 || n.fract() != 0.0 {
					return Err(E::Type("makeArray size".into()));
				}
				if n > 100000.0 {
					return Err(E::Fuel("huge makeArray".into()));
				}
				V::Arr(Rc::new(
					(0..n as usize)
						.map(|i| {
							let f = f.clone();
							Thunk::native(move |it: &Interp| it.call(&f, vec![Thunk::done(V::Num(i as f64))], vec![]))
						})
						.collect(),
				))
			}
			"join" => {
				need(2)?;
				let sep = arg(0)?;
				let V::Arr(items) = arg(1)? else { return Err(tyerr("array", &arg(1)?)) };
				match sep {
					V::Str(sep) => {
						let mut out = String::new();
						let mut first = true;
						for t in items.iter() {
							match self.force(t)? {
								V::Null => continue,
								V::Str(x) => {
									if !first {
										out.push_str(&sep);
									}
									first = false;
									out.push_str(&x);
								}
								v => return Err(tyerr("string elements", &v)),
							}
						}
						s(&out)
					}
					V::Arr(sep) => {
						let mut out: Vec<Th> = vec![];
						let mut first = true;
						for t in items.iter() {
							match self.force(t)? {
								V::Null => continue,
								V::Arr(x) => {
									if !first {
										out.extend(sep.iter().cloned());
									}
									first = false;
									out.extend(x.iter().cloned());
								}
								v => return Err(tyerr("array elements", &v)),
							}
						}
						V::Arr(Rc::new(out))
					}
					v => return Err(tyerr("string or array separator", &v)),
				}
			}
			"map" => {
				need(2)?;
				let V::Fun(f) = arg(0)? else { return Err(tyerr("function", &arg(0)?)) };
				let items: Vec<Th> = match arg(1)? {
					V::Arr(a) => a.iter().cloned().collect(),
					V::Str(x) => x.chars().map(|c| Thunk::done(s(&c.to_string()))).collect(),
					v => return Err(tyerr("array", &v)),
				};
				V::Arr(Rc::new(
					items
						.into_iter()
						.map(|t| {
							let f = f.clone();
							Thunk::native(move |it: &Interp| it.call(&f, vec![t], vec![]))
						})
						.collect(),
				))
			}
			"filter" => {
				need(2)?;
				let V::Fun(f) = arg(0)? else { return Err(tyerr("function", &arg(0)?)) };
				let V::Arr(items) = arg(1)? else { return Err(tyerr("array", &arg(1)?)) };
				let mut out = vec![];
				for t in items.iter() {
					match self.call(&f, vec![t.clone()], vec![])? {
						V::Bool(true) => out.push(t.clone()),
						V::Bool(false) => {}
						v => return Err(tyerr("boolean from filter function", &v)),
					}
				}
				V::Arr(Rc::new(out))
			}
			"foldl" => {
				need(3)?;
				let V::Fun(f) = arg(0)? else { return Err(tyerr("function", &arg(0)?)) };
				let items: Vec<Th> = match arg(1)? {
					V::Arr(a) => a.iter().cloned().collect(),
					V::Str(x) => x.chars().map(|c| Thunk::done(s(&c.to_string()))).collect(),
					v => return Err(tyerr("array", &v)),
				};
				let mut acc = arg(2)?;
				for t in items {
					acc = self.call(&f, vec![Thunk::done(acc), t], vec![])?;
				}
				acc
			}
			"reverse" => {
				need(1)?;
				let V::Arr(items) = arg(0)? else { return Err(tyerr("array", &arg(0)?)) };
				V::Arr(Rc::new(items.iter().rev().cloned().collect()))
			}
			"trace" => {
				need(2)?;
				let V::Str(msg) = arg(0)? else { return Err(tyerr("string", &arg(0)?)) };
				self.traces.borrow_mut().push(msg.to_string());
				arg(1)?
			}
			"extVar" => {
				need(1)?;
				let V::Str(n) = arg(0)? else { return Err(tyerr("string", &arg(0)?)) };
				let t = self.ext.borrow().get(&*n).cloned();
				match t {
					Some(t) => self.force(&t)?,
					None => return Err(E::Other(format!("undefined external variable {n}"))),
				}
			}
			"slice" => {
				need(4)?;
				self.slice(arg(0)?, arg(1)?, arg(2)?, arg(3)?)?
			}
			_ => return Err(E::Fuel(format!("builtin std.{name} not modelled"))),
		})
	}
}

pub struct DepthGuard<'a>(&'a Interp);
impl Drop for DepthGuard<'_> {
	fn drop(&mut self) {
		self.0.depth.set(self.0.depth.get() - 1);
	}
}

// ------------------------------------------------------------------------------------------------ front end

#[derive(Clone, Debug, PartialEq)]
pub enum MOut {
	Val(String),
	Err(E),
}

/// evaluate and manifest as minified JSON
pub fn run(e: &Ex, it: &Interp) -> MOut {
	let c = lower(e);
	let env = it.root_env();
	match it.eval(&env, &c) {
		Ok(V::Fun(f)) => {
			// top-level function: called without arguments (its defaults apply)
			match it.call(&f, vec![], vec![]) {
				Ok(v) => manifest_out(it, &v),
				Err(e) => MOut::Err(e),
			}
		}
		Ok(v) => manifest_out(it, &v),
		Err(e) => MOut::Err(e),
	}
}
/// evaluate and manifest as minified JSON, without the command line's implicit call of a top-level function
pub fn run_expr(e: &Ex, it: &Interp) -> MOut {
	let c = lower(e);
	let env = it.root_env();
	match it.eval(&env, &c) {
		Ok(v) => manifest_out(it, &v),
		Err(e) => MOut::Err(e),
	}
}
pub fn manifest_out(it: &Interp, v: &V) -> MOut {
	let mut out = String::new();
	match it.manifest(v, &mut out, false) {
		Ok(()) => MOut::Val(out),
		Err(e) => MOut::Err(e),
	}
}
