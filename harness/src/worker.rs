//! Isolated worker processes.  A native stack overflow, abort or fatal signal kills only the worker; the parent sees the
//! pipe close, reads the exit status and the tail of the worker's stderr and attributes the death to the request in flight.
//!
//! Child side: `jv worker` reads one JSON request per line and answers with one JSON line.  All requests are served on
//! one thread with an 8 MiB stack (the main-thread stack of the real executable), so "the same thread evaluates further
//! programs normally" is observable: after every request that did not end in a value a canary program is evaluated.
use std::{
	cell::RefCell,
	io::{BufRead, BufReader, Write},
	os::unix::process::{CommandExt, ExitStatusExt},
	process::{Child, ChildStdin, Command, Stdio},
	sync::{
		atomic::{AtomicU64, Ordering},
		mpsc,
	},
	time::Duration,
};

use jrsonnet_evaluator::{manifest::JsonFormat, stack::limit_stack_depth};
use serde_json::{json, Value};

use crate::{
	core::{guarded, VERIF},
	jr::{self, Ext, Opts, Outcome, Parser},
};

pub const STACK_BYTES: usize = 8 << 20;
const CLIP: usize = 3000;

pub fn clip(s: &str) -> String {
	if s.len() <= CLIP {
		return s.to_owned();
	}
	let mut cut = CLIP;
	while !s.is_char_boundary(cut) {
		cut -= 1;
	}
	format!("{}…({} bytes)", &s[..cut], s.len())
}

// ------------------------------------------------------------------------------------------------ child side

pub fn out_json(o: &Outcome) -> Value {
	match o {
		Outcome::Val(s) => json!({"o": "val", "t": clip(s)}),
		Outcome::Err(k, m) => json!({"o": "err", "k": k, "t": clip(m)}),
		Outcome::Panic(p) => json!({"o": "panic", "t": clip(p)}),
	}
}

fn exts(v: &Value) -> Vec<(String, Ext)> {
	v.as_array()
		.map(|a| {
			a.iter()
				.filter_map(|e| {
					let name = e[0].as_str()?.to_owned();
					let val = e[2].as_str()?.to_owned();
					Some((name, if e[1].as_str()? == "code" { Ext::Code(val) } else { Ext::Str(val) }))
				})
				.collect()
		})
		.unwrap_or_default()
}

fn opts_of(req: &Value) -> Opts {
	Opts {
		parser: if req["parser"].as_str() == Some("peg") { Parser::Peg } else { Parser::Ir },
		max_stack: req["max_stack"].as_u64().unwrap_or(200) as usize,
		ext: exts(&req["ext"]),
		tla: exts(&req["tla"]),
		files: req["files"]
			.as_array()
			.map(|a| a.iter().filter_map(|f| Some((f[0].as_str()?.to_owned(), f[1].as_str()?.as_bytes().to_vec()))).collect())
			.unwrap_or_default(),
		..Opts::default()
	}
}

const CANARY: &str = "local f(n) = if n == 0 then 0 else 1 + f(n - 1); [f(50), { a: 1, b: self.a }.b, std.length([x for x in std.range(1, 5)])]";
/// evaluates a small recursive program on this thread; anything but its value means the thread was left damaged
pub fn canary() -> Option<String> {
	match jr::eval(CANARY, &Opts { max_stack: 200, ..Opts::default() }) {
		Outcome::Val(s) if s == "[50,1,5]" => None,
		other => Some(other.short()),
	}
}

/// evaluate on an existing (long-lived) state with the default parser
pub fn eval_on(sess: &jr::Session, code: &str, max_stack: usize) -> Outcome {
	let state = sess.state.clone();
	let r = guarded(|| {
		let _e = state.enter();
		let _l = (max_stack > 0).then(|| limit_stack_depth(max_stack));
		match state.evaluate_snippet("prog.jsonnet", code).and_then(|v| v.manifest(JsonFormat::minify())) {
			Ok(s) => Outcome::Val(s),
			Err(e) => jr::outcome_of_err(&e),
		}
	});
	jrsonnet_gcmodule::collect_thread_cycles();
	match r {
		Ok(o) => o,
		Err(p) => Outcome::Panic(p),
	}
}

fn handle(req: &Value) -> Value {
	match req["op"].as_str().unwrap_or("") {
		"ping" => json!({"o": "pong"}),
		// C15: the libjsonnet C ABI through dlopen (a panic across the C boundary aborts this process only)
		"capi" => crate::props::c15::capi_worker(req),
		"eval" => {
			let code = req["code"].as_str().unwrap_or("");
			let out = jr::eval(code, &opts_of(req));
			let mut v = out_json(&out);
			if !out.is_val() {
				if let Some(c) = canary() {
					v["canary"] = json!(c);
				}
			}
			v
		}
		"parse" => {
			let code = req["code"].as_str().unwrap_or("");
			let r = match req["parser"].as_str().unwrap_or("ir") {
				"peg" => crate::props::c06::parse_peg(code).map(|r| r.is_ok()),
				"rowan" => crate::props::c06::parse_rowan(code).map(|n| n == 0),
				_ => crate::props::c06::parse_ir(code).map(|r| r.is_ok()),
			};
			match r {
				Ok(accepted) => json!({"o": "val", "t": if accepted { "accepted" } else { "rejected" }}),
				Err(p) => json!({"o": "panic", "t": clip(&p)}),
			}
		}
		"history" => {
			let items: Vec<(String, usize)> = req["items"]
				.as_array()
				.map(|a| a.iter().map(|i| (i[0].as_str().unwrap_or("").to_owned(), i[1].as_u64().unwrap_or(200) as usize)).collect())
				.unwrap_or_default();
			let shared = req["shared"].as_bool().unwrap_or(false);
			let files_req = req.clone();
			let mut inside = vec![];
			if shared {
				let sess = jr::new_session(&opts_of(&files_req));
				for (code, ms) in &items {
					inside.push(out_json(&eval_on(&sess, code, *ms)));
				}
			} else {
				for (code, ms) in &items {
					inside.push(out_json(&jr::eval(code, &Opts { max_stack: *ms, ..opts_of(&files_req) })));
				}
			}
			let after = canary();
			// every item once more, each alone on a brand-new thread with a new state
			let mut alone = vec![];
			for (code, ms) in &items {
				let (code, ms, o) = (code.clone(), *ms, opts_of(&files_req));
				let r = std::thread::Builder::new()
					.stack_size(STACK_BYTES)
					.spawn(move || {
						if shared {
							eval_on(&jr::new_session(&o), &code, ms)
						} else {
							jr::eval(&code, &Opts { max_stack: ms, ..o })
						}
					})
					.unwrap()
					.join();
				alone.push(match r {
					Ok(o) => out_json(&o),
					Err(_) => json!({"o": "panic", "t": "thread died"}),
				});
			}
			json!({"o": "history", "inside": inside, "alone": alone, "canary": after})
		}
		other => json!({"o": "bad-request", "t": other}),
	}
}

pub fn serve() -> i32 {
	jr::install_panic_hook();
	let stdin = std::io::stdin();
	let mut out = std::io::stdout();
	for line in stdin.lock().lines() {
		let Ok(line) = line else { break };
		if line.trim().is_empty() {
			continue;
		}
		let resp = match serde_json::from_str::<Value>(&line) {
			Ok(req) => handle(&req),
			Err(e) => json!({"o": "bad-request", "t": e.to_string()}),
		};
		if writeln!(out, "{resp}").is_err() || out.flush().is_err() {
			break;
		}
	}
	0
}

// ------------------------------------------------------------------------------------------------ parent side

pub enum Reply {
	Ok(Value),
	/// the worker process ended while serving the request
	Died { status: String, stderr: String },
	Timeout,
}

pub struct Worker {
	child: Child,
	tx: Option<ChildStdin>,
	rx: mpsc::Receiver<String>,
	log: String,
	dead: bool,
}

static COUNTER: AtomicU64 = AtomicU64::new(0);
pub static SPAWNED: AtomicU64 = AtomicU64::new(0);

/// address-space limit of a worker: an allocation failure aborts the worker ("memory allocation of N bytes failed"),
/// which the parent classifies as a resource limit, not as a crash
const AS_LIMIT: u64 = 6 << 30;

impl Worker {
	pub fn spawn() -> std::io::Result<Worker> {
		Self::spawn_exe(std::env::current_exe()?)
	}
	/// a worker running another build of this harness (C01: the build with jrsonnet's experimental syntax enabled)
	pub fn spawn_exe(exe: std::path::PathBuf) -> std::io::Result<Worker> {
		let dir = format!("{VERIF}/target/worker-logs");
		std::fs::create_dir_all(&dir)?;
		let log = format!("{dir}/{}-{}.log", std::process::id(), COUNTER.fetch_add(1, Ordering::SeqCst));
		let logf = std::fs::File::create(&log)?;
		let mut cmd = Command::new(exe);
		cmd.arg("worker").stdin(Stdio::piped()).stdout(Stdio::piped()).stderr(Stdio::from(logf));
		unsafe {
			cmd.pre_exec(|| {
				let lim = libc::rlimit { rlim_cur: AS_LIMIT, rlim_max: AS_LIMIT };
				libc::setrlimit(libc::RLIMIT_AS, &lim);
				let core = libc::rlimit { rlim_cur: 0, rlim_max: 0 };
				libc::setrlimit(libc::RLIMIT_CORE, &core);
				Ok(())
			});
		}
		let mut child = cmd.spawn()?;
		let tx = child.stdin.take();
		let stdout = child.stdout.take().unwrap();
		let (s, rx) = mpsc::channel();
		std::thread::spawn(move || {
			for line in BufReader::new(stdout).lines() {
				let Ok(line) = line else { break };
				if s.send(line).is_err() {
					break;
				}
			}
		});
		SPAWNED.fetch_add(1, Ordering::SeqCst);
		Ok(Worker { child, tx, rx, log, dead: false })
	}

	fn stderr_tail(&self) -> String {
		let s = std::fs::read(&self.log).unwrap_or_default();
		let s = String::from_utf8_lossy(&s).into_owned();
		// the first lines name the cause (an abort prints a long backtrace after it), the last lines are the most recent
		let lines: Vec<&str> = s.lines().collect();
		if lines.len() <= 10 {
			return lines.join("\n");
		}
		format!("{}\n…\n{}", lines[..5].join("\n"), lines[lines.len() - 4..].join("\n"))
	}

	fn finish(&mut self) -> Reply {
		self.dead = true;
		self.tx = None;
		let status = match self.child.wait() {
			Ok(st) => match (st.signal(), st.code()) {
				(Some(sig), _) => format!("signal {sig}"),
				(_, Some(c)) => format!("exit status {c}"),
				_ => "unknown status".to_owned(),
			},
			Err(e) => format!("wait failed: {e}"),
		};
		Reply::Died { status, stderr: self.stderr_tail() }
	}

	pub fn ask(&mut self, req: &Value, timeout: Duration) -> Reply {
		let Some(tx) = self.tx.as_mut() else { return self.finish() };
		if writeln!(tx, "{req}").is_err() || tx.flush().is_err() {
			return self.finish();
		}
		match self.rx.recv_timeout(timeout) {
			Ok(line) => match serde_json::from_str::<Value>(&line) {
				Ok(v) => Reply::Ok(v),
				Err(e) => Reply::Ok(json!({"o": "bad-reply", "t": format!("{e}: {}", clip(&line))})),
			},
			Err(mpsc::RecvTimeoutError::Timeout) => {
				let _ = self.child.kill();
				let _ = self.child.wait();
				self.dead = true;
				self.tx = None;
				Reply::Timeout
			}
			Err(mpsc::RecvTimeoutError::Disconnected) => self.finish(),
		}
	}
}
impl Drop for Worker {
	fn drop(&mut self) {
		self.tx = None;
		let _ = self.child.kill();
		let _ = self.child.wait();
		let _ = std::fs::remove_file(&self.log);
	}
}

thread_local! {
	static WORKER: RefCell<Option<Worker>> = const { RefCell::new(None) };
	static WORKER_EXP: RefCell<Option<Worker>> = const { RefCell::new(None) };
}

/// the harness built with `--features exp` (jrsonnet's exp-destruct, exp-null-coaelse, exp-object-iteration)
pub const EXP_EXE: &str = "/verif/target/exp/debug/jv";
/// ask this thread's worker of the experimental-syntax build
pub fn ask_exp(req: &Value, timeout_s: u64) -> Reply {
	WORKER_EXP.with(|w| {
		let mut w = w.borrow_mut();
		if w.as_ref().map(|x| x.dead).unwrap_or(true) {
			*w = None;
			match Worker::spawn_exe(EXP_EXE.into()) {
				Ok(n) => *w = Some(n),
				Err(e) => return Reply::Died { status: format!("cannot start worker: {e}"), stderr: String::new() },
			}
		}
		w.as_mut().unwrap().ask(req, Duration::from_secs(timeout_s))
	})
}

/// ask this thread's worker (started on first use, restarted after a death or a timeout)
pub fn ask(req: &Value, timeout_s: u64) -> Reply {
	WORKER.with(|w| {
		let mut w = w.borrow_mut();
		if w.as_ref().map(|x| x.dead).unwrap_or(true) {
			*w = None;
			match Worker::spawn() {
				Ok(n) => *w = Some(n),
				Err(e) => return Reply::Died { status: format!("cannot start worker: {e}"), stderr: String::new() },
			}
		}
		w.as_mut().unwrap().ask(req, Duration::from_secs(timeout_s))
	})
}
/// stop this thread's worker (thread-local destructors of scoped threads run anyway; this is for the main thread)
pub fn retire() {
	WORKER.with(|w| *w.borrow_mut() = None);
}
pub fn retire_exp() {
	WORKER_EXP.with(|w| *w.borrow_mut() = None);
}
