//! Thin layer over the jrsonnet public API: evaluate a program under a configuration, capture traces and panics.
use std::{
	cell::RefCell,
	collections::HashMap,
	path::Path,
	rc::Rc,
	sync::Once,
};

use jrsonnet_evaluator::{
	apply_tla,
	error::ErrorKind,
	function::CallLocation,
	manifest::JsonFormat,
	parser::{Source, SourceFifo, SourcePath, SourceVirtual},
	stack::limit_stack_depth,
	tla::TlaArg,
	trace::{CompactFormat, PathResolver, TraceFormat},
	function::builtin,
	val::ArrValue, AsPathLike, Error, IStr, ImportResolver, ObjValueBuilder, State, Thunk, Val,
};
use jrsonnet_gcmodule::Acyclic;
use jrsonnet_stdlib::{ContextInitializer, TracePrinter};

thread_local! {
	pub static LAST_PANIC: RefCell<Option<String>> = const { RefCell::new(None) };
}
static HOOK: Once = Once::new();
pub fn install_panic_hook() {
	HOOK.call_once(|| {
		std::panic::set_hook(Box::new(|info| {
			let loc = info.location().map(|l| format!("{}:{}:{}", l.file(), l.line(), l.column())).unwrap_or_default();
			LAST_PANIC.with(|p| *p.borrow_mut() = Some(loc));
		}));
	});
}

#[derive(Clone, Copy, PartialEq, Eq, Debug, Hash)]
pub enum Parser {
	Ir,
	Peg,
}

#[derive(Clone, Debug)]
pub enum Ext {
	Str(String),
	Code(String),
}

#[derive(Clone, Debug)]
pub struct Opts {
	pub parser: Parser,
	pub max_stack: usize,
	pub ext: Vec<(String, Ext)>,
	pub tla: Vec<(String, Ext)>,
	/// in-memory files served by the resolver (name -> bytes)
	pub files: Vec<(String, Vec<u8>)>,
	/// if set, the program text is stored as this in-memory file and reached by `import`
	pub as_import: Option<String>,
	pub name: String,
}
impl Default for Opts {
	fn default() -> Self {
		Self {
			parser: Parser::Ir,
			max_stack: 200,
			ext: vec![],
			tla: vec![],
			files: vec![],
			as_import: None,
			name: "snippet.jsonnet".to_owned(),
		}
	}
}

#[derive(Clone, Debug, PartialEq, Eq)]
pub enum Outcome {
	/// manifested text
	Val(String),
	/// jsonnet error: (kind = ErrorKind variant name, Display text of the error kind)
	Err(String, String),
	/// panic message @ location
	Panic(String),
}
impl Outcome {
	pub fn is_val(&self) -> bool {
		matches!(self, Outcome::Val(_))
	}
	pub fn is_err(&self) -> bool {
		matches!(self, Outcome::Err(..))
	}
	pub fn is_panic(&self) -> bool {
		matches!(self, Outcome::Panic(_))
	}
	pub fn short(&self) -> String {
		match self {
			Outcome::Val(v) => format!("VALUE {v}"),
			Outcome::Err(k, m) => format!("ERROR[{k}] {m}"),
			Outcome::Panic(p) => format!("PANIC {p}"),
		}
	}
	pub fn err_kind(&self) -> Option<&str> {
		match self {
			Outcome::Err(k, _) => Some(k),
			_ => None,
		}
	}
	/// payload of `error "x"` (RuntimeError) or assert message
	pub fn user_payload(&self) -> Option<String> {
		match self {
			Outcome::Err(k, m) if k == "RuntimeError" => Some(m.strip_prefix("runtime error: ").unwrap_or(m).to_owned()),
			Outcome::Err(k, m) if k == "AssertionFailed" => Some(m.strip_prefix("assert failed: ").unwrap_or(m).to_owned()),
			_ => None,
		}
	}
}

pub fn err_kind_name(e: &ErrorKind) -> String {
	let d = format!("{e:?}");
	d.split(|c: char| !(c.is_alphanumeric() || c == '_')).next().unwrap_or("").to_owned()
}
pub fn outcome_of_err(e: &Error) -> Outcome {
	Outcome::Err(err_kind_name(e.error()), format!("{}", e.error()))
}

#[derive(Acyclic, Clone, Default)]
pub struct TraceLog(pub Rc<RefCell<Vec<(String, String)>>>);
#[derive(Acyclic)]
struct CollectingPrinter {
	log: TraceLog,
}
impl TracePrinter for CollectingPrinter {
	fn print_trace(&self, loc: CallLocation, value: IStr) {
		let l = loc
			.0
			.map(|s| {
				let locs = s.0.map_source_locations(&[s.1]);
				format!("{}:{}", s.0.source_path(), locs[0].line)
			})
			.unwrap_or_default();
		let mut g = self.log.0.borrow_mut();
		if g.len() < 2_000_000 {
			g.push((l, value.to_string()));
		}
	}
}

/// serves in-memory files; paths are plain names, `from` is ignored except for relative lookups by name
#[derive(Acyclic)]
pub struct MemResolver {
	files: Rc<RefCell<HashMap<String, Vec<u8>>>>,
	pub log: Rc<RefCell<Vec<String>>>,
}
impl MemResolver {
	pub fn new(files: &[(String, Vec<u8>)]) -> Self {
		Self {
			files: Rc::new(RefCell::new(files.iter().cloned().collect())),
			log: Rc::new(RefCell::new(vec![])),
		}
	}
}
impl ImportResolver for MemResolver {
	fn resolve_from(&self, _from: &SourcePath, path: &dyn AsPathLike) -> jrsonnet_evaluator::Result<SourcePath> {
		let p = path.as_path();
		let name = p.as_ref().to_string_lossy().into_owned();
		self.log.borrow_mut().push(format!("resolve {name}"));
		if self.files.borrow().contains_key(&name) {
			Ok(SourcePath::new(SourceVirtual(name.into())))
		} else {
			Err(ErrorKind::ImportFileNotFound(_from.clone(), p.to_owned()).into())
		}
	}
	fn load_file_contents(&self, resolved: &SourcePath) -> jrsonnet_evaluator::Result<Vec<u8>> {
		if let Some(f) = resolved.downcast_ref::<SourceFifo>() {
			return Ok(f.1.to_vec());
		}
		if let Some(v) = resolved.downcast_ref::<SourceVirtual>() {
			self.log.borrow_mut().push(format!("load {}", v.0));
			if let Some(d) = self.files.borrow().get(v.0.as_str()) {
				return Ok(d.clone());
			}
		}
		Err(ErrorKind::ResolvedFileNotFound(resolved.clone()).into())
	}
}

#[builtin]
fn verif_try(x: Thunk<Val>) -> Result<Val, Error> {
	Ok(match x.evaluate() {
		Ok(v) => Val::Arr(ArrValue::eager(vec![Val::Bool(true), v])),
		Err(e) => Val::Arr(ArrValue::eager(vec![
			Val::Bool(false),
			Val::string(err_kind_name(e.error())),
			Val::string(format!("{}", e.error())),
		])),
	})
}
/// deep-forcing variant: the value is manifested to minified JSON text
#[builtin]
fn verif_tryj(x: Thunk<Val>) -> Result<Val, Error> {
	let r = x.evaluate().and_then(|v| v.manifest(JsonFormat::minify()));
	Ok(match r {
		Ok(v) => Val::Arr(ArrValue::eager(vec![Val::Bool(true), Val::string(v)])),
		Err(e) => Val::Arr(ArrValue::eager(vec![
			Val::Bool(false),
			Val::string(err_kind_name(e.error())),
			Val::string(format!("{}", e.error())),
		])),
	})
}

/// binds the global `verif` = { try, tryj } (harness-side natives, built only from public API)
#[derive(jrsonnet_gcmodule::Trace)]
pub struct VerifInit;
impl jrsonnet_evaluator::ContextInitializer for VerifInit {
	fn populate(&self, _for_file: Source, builder: &mut jrsonnet_evaluator::ContextBuilder) {
		let mut b = ObjValueBuilder::new();
		b.method("try", verif_try::INST);
		b.method("tryj", verif_tryj::INST);
		builder.bind("verif", Thunk::evaluated(Val::Obj(b.build())));
	}
	fn as_any(&self) -> &dyn std::any::Any {
		self
	}
}

pub struct Session {
	pub state: State,
	pub init: ContextInitializer,
	pub traces: TraceLog,
}

pub fn new_session(opts: &Opts) -> Session {
	let init = ContextInitializer::new(PathResolver::FileName);
	let traces = TraceLog::default();
	init.settings_mut().trace_printer = Rc::new(CollectingPrinter { log: traces.clone() });
	for (k, v) in &opts.ext {
		match v {
			Ext::Str(s) => init.add_ext_str(k.as_str().into(), s.as_str().into()),
			Ext::Code(c) => init.add_ext_code(k, c).unwrap(),
		}
	}
	let mut b = State::builder();
	b.context_initializer((init.clone(), VerifInit));
	let mut files = opts.files.clone();
	if let Some(n) = &opts.as_import {
		files.push((n.clone(), Vec::new())); // placeholder replaced by caller through eval()
	}
	b.import_resolver(MemResolver::new(&files));
	Session { state: b.build(), init, traces }
}

/// a session (state + trace log + stdlib settings) over a caller-supplied import resolver
pub fn session_with_resolver(ext: &[(String, Ext)], resolver: impl ImportResolver) -> Session {
	let init = ContextInitializer::new(PathResolver::FileName);
	let traces = TraceLog::default();
	init.settings_mut().trace_printer = Rc::new(CollectingPrinter { log: traces.clone() });
	for (k, v) in ext {
		match v {
			Ext::Str(s) => init.add_ext_str(k.as_str().into(), s.as_str().into()),
			Ext::Code(c) => init.add_ext_code(k, c).unwrap(),
		}
	}
	let mut b = State::builder();
	b.context_initializer((init.clone(), VerifInit));
	b.import_resolver(resolver);
	Session { state: b.build(), init, traces }
}

pub fn parse_with(parser: Parser, code: &str, source: Source) -> Result<jrsonnet_ir::Expr, (String, usize)> {
	match parser {
		Parser::Ir => jrsonnet_ir_parser::parse(code, &jrsonnet_ir_parser::ParserSettings { source })
			.map_err(|e| (e.message.clone(), e.location.offset)),
		Parser::Peg => jrsonnet_peg_parser::parse(code, &jrsonnet_peg_parser::ParserSettings { source })
			.map_err(|e| (format!("{}", e.expected), e.location.offset)),
	}
}

/// Evaluate (parse with the chosen parser, evaluate, apply TLAs, manifest as minified JSON unless `fmt` given).
pub fn eval_val(code: &str, opts: &Opts) -> (Result<Val, Error>, Session) {
	let mut o = opts.clone();
	if let Some(n) = &opts.as_import {
		o.files.push((n.clone(), code.as_bytes().to_vec()));
		o.as_import = None;
	}
	let sess = new_session(&o);
	let state = sess.state.clone();
	let _entered = state.enter();
	// max_stack 0 = leave the thread's own limit alone (the default of 200 frames, counted from depth 0)
	let _lim = (opts.max_stack > 0).then(|| limit_stack_depth(opts.max_stack));
	let r = (|| -> Result<Val, Error> {
		let v = if let Some(n) = &opts.as_import {
			// the default parser only (the resolver path goes through parse_jsonnet)
			state.import(n.as_str())?
		} else {
			let source = Source::new_virtual(opts.name.as_str().into(), code.into());
			let parsed = parse_with(opts.parser, code, source.clone()).map_err(|(m, off)| {
				Error::from(ErrorKind::ImportSyntaxError {
					path: source.clone(),
					error: Box::new(jrsonnet_evaluator::SyntaxError {
						message: m,
						location: jrsonnet_evaluator::SyntaxErrorLocation { offset: off },
					}),
				})
			})?;
			jrsonnet_evaluator::evaluate(state.create_default_context(source), &parsed)?
		};
		if opts.tla.is_empty() {
			// CLI semantic: a top-level function is called with no arguments
			return apply_tla(&HashMap::<IStr, TlaArg>::new(), v);
		}
		let mut args: HashMap<IStr, TlaArg> = HashMap::new();
		for (k, a) in &opts.tla {
			args.insert(
				k.as_str().into(),
				match a {
					Ext::Str(s) => TlaArg::String(s.as_str().into()),
					Ext::Code(c) => TlaArg::InlineCode(c.clone()),
				},
			);
		}
		apply_tla(&args, v)
	})();
	drop(_lim);
	drop(_entered);
	(r, sess)
}

pub fn eval_traced(code: &str, opts: &Opts) -> (Outcome, Vec<(String, String)>) {
	install_panic_hook();
	let r = crate::core::guarded(|| {
		let (r, sess) = eval_val(code, opts);
		let state = sess.state.clone();
		let out = match r {
			Ok(v) => {
				let _e = state.enter();
				let _lim = (opts.max_stack > 0).then(|| limit_stack_depth(opts.max_stack));
				match v.manifest(JsonFormat::minify()) {
					Ok(s) => Outcome::Val(s),
					Err(e) => outcome_of_err(&e),
				}
			}
			Err(e) => outcome_of_err(&e),
		};
		let t = sess.traces.0.borrow().clone();
		(out, t)
	});
	maybe_collect();
	match r {
		Ok(v) => v,
		Err(p) => (Outcome::Panic(p), vec![]),
	}
}

pub fn eval(code: &str, opts: &Opts) -> Outcome {
	eval_traced(code, opts).0
}
pub fn eval_default(code: &str) -> Outcome {
	eval(code, &Opts::default())
}

/// full error text as the CLI would print it with CompactFormat
pub fn eval_error_text(code: &str, opts: &Opts) -> Result<String, String> {
	install_panic_hook();
	let r = crate::core::guarded(|| {
		let (r, sess) = eval_val(code, opts);
		let fmt = CompactFormat { resolver: PathResolver::FileName, max_trace: 20, padding: 4 };
		let state = sess.state.clone();
		match r {
			Ok(v) => {
				let _e = state.enter();
				match v.manifest(JsonFormat::default()) {
					Ok(s) => s,
					Err(e) => fmt.format(&e).unwrap_or_else(|_| "<fmt error>".into()),
				}
			}
			Err(e) => fmt.format(&e).unwrap_or_else(|_| "<fmt error>".into()),
		}
	});
	maybe_collect();
	r
}

thread_local! {
	static EVALS: std::cell::Cell<u32> = const { std::cell::Cell::new(0) };
}
pub fn maybe_collect() {
	EVALS.with(|c| {
		let n = c.get() + 1;
		c.set(n);
		if n % 64 == 0 {
			jrsonnet_gcmodule::collect_thread_cycles();
		}
	});
}

pub fn path_display(p: &Path) -> String {
	p.to_string_lossy().into_owned()
}
