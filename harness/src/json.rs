//! Independent strict RFC 8259 parser and the harness's JSON-like value type.
//! Numbers are converted with Rust's correctly rounded `f64::from_str`, so the oracle has no rounding slack.
use std::fmt::Write as _;

#[derive(Clone, Debug, PartialEq)]
pub enum J {
	Null,
	Bool(bool),
	Num(f64),
	Str(String),
	Arr(Vec<J>),
	/// fields in document order
	Obj(Vec<(String, J)>),
}

#[derive(Debug)]
pub struct JsonError(pub String, pub usize);

struct P<'a> {
	s: &'a [u8],
	i: usize,
	depth: usize,
}
impl<'a> P<'a> {
	fn err<T>(&self, m: &str) -> Result<T, JsonError> {
		Err(JsonError(m.to_owned(), self.i))
	}
	fn ws(&mut self) {
		while self.i < self.s.len() && matches!(self.s[self.i], b' ' | b'\t' | b'\n' | b'\r') {
			self.i += 1;
		}
	}
	fn lit(&mut self, w: &str, v: J) -> Result<J, JsonError> {
		if self.s[self.i..].starts_with(w.as_bytes()) {
			self.i += w.len();
			Ok(v)
		} else {
			self.err("invalid literal")
		}
	}
	fn value(&mut self) -> Result<J, JsonError> {
		self.depth += 1;
		if self.depth > 5000 {
			return self.err("too deep");
		}
		self.ws();
		let Some(&c) = self.s.get(self.i) else { return self.err("unexpected end") };
		let r = match c {
			b'n' => self.lit("null", J::Null),
			b't' => self.lit("true", J::Bool(true)),
			b'f' => self.lit("false", J::Bool(false)),
			b'"' => Ok(J::Str(self.string()?)),
			b'[' => {
				self.i += 1;
				let mut v = vec![];
				self.ws();
				if self.s.get(self.i) == Some(&b']') {
					self.i += 1;
				} else {
					loop {
						v.push(self.value()?);
						self.ws();
						match self.s.get(self.i) {
							Some(b',') => self.i += 1,
							Some(b']') => {
								self.i += 1;
								break;
							}
							_ => return self.err("expected , or ]"),
						}
					}
				}
				Ok(J::Arr(v))
			}
			b'{' => {
				self.i += 1;
				let mut v: Vec<(String, J)> = vec![];
				self.ws();
				if self.s.get(self.i) == Some(&b'}') {
					self.i += 1;
				} else {
					loop {
						self.ws();
						if self.s.get(self.i) != Some(&b'"') {
							return self.err("expected string key");
						}
						let k = self.string()?;
						self.ws();
						if self.s.get(self.i) != Some(&b':') {
							return self.err("expected :");
						}
						self.i += 1;
						let val = self.value()?;
						v.push((k, val));
						self.ws();
						match self.s.get(self.i) {
							Some(b',') => self.i += 1,
							Some(b'}') => {
								self.i += 1;
								break;
							}
							_ => return self.err("expected , or }"),
						}
					}
				}
				Ok(J::Obj(v))
			}
			b'-' | b'0'..=b'9' => self.number(),
			_ => self.err("unexpected character"),
		};
		self.depth -= 1;
		r
	}
	fn number(&mut self) -> Result<J, JsonError> {
		let start = self.i;
		if self.s.get(self.i) == Some(&b'-') {
			self.i += 1;
		}
		match self.s.get(self.i) {
			Some(b'0') => self.i += 1,
			Some(b'1'..=b'9') => {
				while matches!(self.s.get(self.i), Some(b'0'..=b'9')) {
					self.i += 1;
				}
			}
			_ => return self.err("bad number"),
		}
		if self.s.get(self.i) == Some(&b'.') {
			self.i += 1;
			if !matches!(self.s.get(self.i), Some(b'0'..=b'9')) {
				return self.err("digits expected after decimal point");
			}
			while matches!(self.s.get(self.i), Some(b'0'..=b'9')) {
				self.i += 1;
			}
		}
		if matches!(self.s.get(self.i), Some(b'e' | b'E')) {
			self.i += 1;
			if matches!(self.s.get(self.i), Some(b'+' | b'-')) {
				self.i += 1;
			}
			if !matches!(self.s.get(self.i), Some(b'0'..=b'9')) {
				return self.err("digits expected in exponent");
			}
			while matches!(self.s.get(self.i), Some(b'0'..=b'9')) {
				self.i += 1;
			}
		}
		let t = std::str::from_utf8(&self.s[start..self.i]).unwrap();
		match t.parse::<f64>() {
			Ok(v) if v.is_finite() => Ok(J::Num(v)),
			_ => self.err("number out of range"),
		}
	}
	fn hex4(&mut self) -> Result<u32, JsonError> {
		let mut v = 0u32;
		for _ in 0..4 {
			let Some(&c) = self.s.get(self.i) else { return self.err("truncated \\u escape") };
			let d = (c as char).to_digit(16);
			let Some(d) = d else { return self.err("bad hex digit") };
			v = v * 16 + d;
			self.i += 1;
		}
		Ok(v)
	}
	fn string(&mut self) -> Result<String, JsonError> {
		self.i += 1;
		let mut out = String::new();
		loop {
			let Some(&c) = self.s.get(self.i) else { return self.err("unterminated string") };
			match c {
				b'"' => {
					self.i += 1;
					return Ok(out);
				}
				b'\\' => {
					self.i += 1;
					let Some(&e) = self.s.get(self.i) else { return self.err("truncated escape") };
					self.i += 1;
					match e {
						b'"' => out.push('"'),
						b'\\' => out.push('\\'),
						b'/' => out.push('/'),
						b'b' => out.push('\u{8}'),
						b'f' => out.push('\u{c}'),
						b'n' => out.push('\n'),
						b'r' => out.push('\r'),
						b't' => out.push('\t'),
						b'u' => {
							let hi = self.hex4()?;
							if (0xd800..0xdc00).contains(&hi) {
								if self.s.get(self.i) != Some(&b'\\') || self.s.get(self.i + 1) != Some(&b'u') {
									return self.err("lone high surrogate");
								}
								self.i += 2;
								let lo = self.hex4()?;
								if !(0xdc00..0xe000).contains(&lo) {
									return self.err("bad low surrogate");
								}
								let cp = 0x10000 + ((hi - 0xd800) << 10) + (lo - 0xdc00);
								out.push(char::from_u32(cp).unwrap());
							} else if (0xdc00..0xe000).contains(&hi) {
								return self.err("lone low surrogate");
							} else {
								out.push(char::from_u32(hi).unwrap());
							}
						}
						_ => return self.err("bad escape"),
					}
				}
				0..=0x1f => return self.err("raw control character in string"),
				_ => {
					// copy one UTF-8 scalar
					let rest = std::str::from_utf8(&self.s[self.i..]).map_err(|_| JsonError("invalid utf-8".into(), self.i))?;
					let ch = rest.chars().next().unwrap();
					out.push(ch);
					self.i += ch.len_utf8();
				}
			}
		}
	}
}

pub fn parse(text: &str) -> Result<J, JsonError> {
	let mut p = P { s: text.as_bytes(), i: 0, depth: 0 };
	let v = p.value()?;
	p.ws();
	if p.i != p.s.len() {
		return p.err("trailing characters");
	}
	Ok(v)
}

impl J {
	/// structural equality; numbers as doubles (so -0 == 0), object fields compared in order
	pub fn same(&self, other: &J) -> bool {
		match (self, other) {
			(J::Num(a), J::Num(b)) => a == b,
			(J::Arr(a), J::Arr(b)) => a.len() == b.len() && a.iter().zip(b).all(|(x, y)| x.same(y)),
			(J::Obj(a), J::Obj(b)) => a.len() == b.len() && a.iter().zip(b).all(|((k1, v1), (k2, v2))| k1 == k2 && v1.same(v2)),
			(a, b) => a == b,
		}
	}
	/// are all object keys strictly ascending by code point (Rust string order = UTF-8 byte order = code point order)?
	pub fn keys_sorted(&self) -> bool {
		match self {
			J::Arr(a) => a.iter().all(|x| x.keys_sorted()),
			J::Obj(f) => f.windows(2).all(|w| w[0].0 < w[1].0) && f.iter().all(|x| x.1.keys_sorted()),
			_ => true,
		}
	}
	pub fn sort_keys(&mut self) {
		match self {
			J::Arr(a) => a.iter_mut().for_each(|x| x.sort_keys()),
			J::Obj(f) => {
				f.sort_by(|a, b| a.0.cmp(&b.0));
				f.iter_mut().for_each(|x| x.1.sort_keys());
			}
			_ => {}
		}
	}
	pub fn depth(&self) -> usize {
		match self {
			J::Arr(a) => 1 + a.iter().map(|x| x.depth()).max().unwrap_or(0),
			J::Obj(f) => 1 + f.iter().map(|x| x.1.depth()).max().unwrap_or(0),
			_ => 0,
		}
	}
	pub fn walk(&self, f: &mut dyn FnMut(&J)) {
		f(self);
		match self {
			J::Arr(a) => a.iter().for_each(|x| x.walk(f)),
			J::Obj(o) => o.iter().for_each(|x| x.1.walk(f)),
			_ => {}
		}
	}
	/// compact JSON text (own writer; shortest round-trip numbers)
	pub fn to_text(&self) -> String {
		let mut s = String::new();
		self.write(&mut s);
		s
	}
	fn write(&self, out: &mut String) {
		match self {
			J::Null => out.push_str("null"),
			J::Bool(b) => out.push_str(if *b { "true" } else { "false" }),
			J::Num(n) => {
				let _ = write!(out, "{n:?}");
			}
			J::Str(s) => write_str(s, out),
			J::Arr(a) => {
				out.push('[');
				for (i, x) in a.iter().enumerate() {
					if i > 0 {
						out.push(',');
					}
					x.write(out);
				}
				out.push(']');
			}
			J::Obj(f) => {
				out.push('{');
				for (i, (k, v)) in f.iter().enumerate() {
					if i > 0 {
						out.push(',');
					}
					write_str(k, out);
					out.push(':');
					v.write(out);
				}
				out.push('}');
			}
		}
	}
}
pub fn write_str(s: &str, out: &mut String) {
	out.push('"');
	for c in s.chars() {
		match c {
			'"' => out.push_str("\\\""),
			'\\' => out.push_str("\\\\"),
			'\n' => out.push_str("\\n"),
			'\r' => out.push_str("\\r"),
			'\t' => out.push_str("\\t"),
			c if (c as u32) < 0x20 => {
				let _ = write!(out, "\\u{:04x}", c as u32);
			}
			c => out.push(c),
		}
	}
	out.push('"');
}
