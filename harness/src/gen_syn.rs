//! Generator of syntactically valid programs covering every construct of the standard grammar.
//! (No typing discipline: used by the parser/formatter/position properties, which never evaluate blindly.)
use crate::{
	ast::*,
	core::Src,
};

pub const IDS: &[&str] = &["a", "b", "c", "x", "y", "f", "g", "obj", "arr", "_p", "x1", "assertion", "selfish", "nulls", "e1"];
pub const FIELDS: &[&str] = &["a", "b", "c", "field", "x_y", "k1"];
pub const STRS: &[&str] = &[
	"", "a", "hello world", "é", "😀", "a\"b", "a'b", "back\\slash", "line1\nline2\n", "tab\there", "%s %d", "ünï", "\u{7f}", "\u{0}",
	"  lead\n trail \n", "|||", "a\n\nb\n", "\ttabbed\n\t\tmore\n", "x\n", "\nblank first\n", "\n\ntwo blanks\n\n\n", "end blanks\n\n\n", "first\n  \nlast\n", "a\n\t\nb\n",
];

pub struct SynCfg {
	pub max_depth: usize,
	pub imports: bool,
	pub text_blocks: bool,
	/// allow constructs only jrsonnet accepts (kept false: standard language)
	pub paren_noise: bool,
}
impl Default for SynCfg {
	fn default() -> Self {
		Self { max_depth: 5, imports: true, text_blocks: true, paren_noise: false }
	}
}

pub fn ident(src: &mut Src) -> String {
	(*src.pick(IDS)).to_owned()
}
pub fn str_style(src: &mut Src, cfg: &SynCfg) -> StrStyle {
	match src.weighted(&[5, 3, 1, 1, if cfg.text_blocks { 2 } else { 0 }]) {
		0 => StrStyle::Double,
		1 => StrStyle::Single,
		2 => StrStyle::VerbDouble,
		3 => StrStyle::VerbSingle,
		_ => StrStyle::Block,
	}
}
pub fn string(src: &mut Src, cfg: &SynCfg) -> Ex {
	let t = (*src.pick(STRS)).to_owned();
	let st = str_style(src, cfg);
	let st = if style_ok(&t, st) { st } else { StrStyle::Double };
	Ex::Str(t, st)
}
pub fn number(src: &mut Src) -> Ex {
	match src.weighted(&[6, 2, 2, 1, 1]) {
		0 => num(src.range(0, 12) as f64),
		1 => num(*src.pick(&[0.5, 1.5, 0.1, 2.25, 1e3, 1e-3, 123456.0, 3.14159])),
		2 => {
			let (v, l) = *src.pick(&[
				(1000.0, "1_000"),
				(1e3, "1e3"),
				(1e3, "1E3"),
				(1e3, "1e+3"),
				(1e-3, "1e-3"),
				(1.5, "1.5"),
				(0.0, "0.0"),
				(10.01, "1_0.0_1"),
				(15.0, "1.5e1"),
				(1.0, "1.0"),
				(12345678901234567890.0, "12345678901234567890"),
			]);
			Ex::Num(v, Some(l.to_owned()))
		}
		3 => num(9007199254740993.0),
		_ => num(1e300),
	}
}

fn params(src: &mut Src, cfg: &SynCfg, d: usize) -> Vec<Param> {
	let n = src.weighted(&[2, 4, 3, 1]);
	let names = ["p", "q", "r"];
	(0..n)
		.map(|i| Param {
			name: names[i].to_owned(),
			default: if src.chance(1, 3) { Some(expr(src, cfg, d.saturating_sub(2))) } else { None },
		})
		.collect()
}
fn bind(src: &mut Src, cfg: &SynCfg, d: usize) -> Bind {
	if src.chance(1, 4) {
		Bind::Func(ident(src), params(src, cfg, d), expr(src, cfg, d.saturating_sub(1)))
	} else {
		Bind::Var(ident(src), expr(src, cfg, d.saturating_sub(1)))
	}
}
fn comps(src: &mut Src, cfg: &SynCfg, d: usize) -> Vec<Comp> {
	let mut v = vec![Comp::For(ident(src), expr(src, cfg, d.saturating_sub(1)))];
	for _ in 0..src.weighted(&[5, 3, 1]) {
		if src.chance(1, 2) {
			v.push(Comp::For(ident(src), expr(src, cfg, d.saturating_sub(1))));
		} else {
			v.push(Comp::If(expr(src, cfg, d.saturating_sub(1))));
		}
	}
	v
}
fn field_name(src: &mut Src, cfg: &SynCfg, d: usize) -> FieldName {
	match src.weighted(&[5, 2, 1]) {
		0 => FieldName::Id((*src.pick(FIELDS)).to_owned()),
		1 => {
			let t = (*src.pick(&["a", "b c", "é", "", "x-y", "1"])).to_owned();
			let st = *src.pick(&[StrStyle::Double, StrStyle::Single, StrStyle::VerbDouble, StrStyle::VerbSingle]);
			FieldName::Str(t, st)
		}
		_ => FieldName::Dyn(expr(src, cfg, d.saturating_sub(2))),
	}
}
fn vis(src: &mut Src) -> Vis {
	*src.pick(&[Vis::Normal, Vis::Normal, Vis::Hidden, Vis::Unhide])
}
pub fn members(src: &mut Src, cfg: &SynCfg, d: usize) -> Vec<Member> {
	let n = src.weighted(&[1, 3, 3, 2, 1]);
	let mut v = vec![];
	for _ in 0..n {
		match src.weighted(&[8, 2, 1]) {
			0 => {
				let method = src.chance(1, 6);
				v.push(Member::Field {
					name: field_name(src, cfg, d),
					plus: !method && src.chance(1, 6),
					vis: vis(src),
					params: if method { Some(params(src, cfg, d)) } else { None },
					value: expr(src, cfg, d.saturating_sub(1)),
				});
			}
			1 => v.push(Member::Local(bind(src, cfg, d))),
			_ => v.push(Member::Assert(
				expr(src, cfg, d.saturating_sub(1)),
				if src.chance(1, 2) { Some(expr(src, cfg, d.saturating_sub(2))) } else { None },
			)),
		}
	}
	v
}
fn objcomp(src: &mut Src, cfg: &SynCfg, d: usize) -> Ex {
	Ex::ObjComp {
		pre: (0..src.weighted(&[4, 1])).map(|_| bind(src, cfg, d.saturating_sub(1))).collect(),
		name: bx(expr(src, cfg, d.saturating_sub(2))),
		plus: src.chance(1, 8),
		vis: vis(src),
		value: bx(expr(src, cfg, d.saturating_sub(1))),
		post: (0..src.weighted(&[4, 1])).map(|_| bind(src, cfg, d.saturating_sub(1))).collect(),
		specs: comps(src, cfg, d),
	}
}

pub fn atom(src: &mut Src, cfg: &SynCfg) -> Ex {
	match src.weighted(&[4, 4, 3, 1, 1, 1, 1, 1]) {
		0 => number(src),
		1 => Ex::Var(ident(src)),
		2 => string(src, cfg),
		3 => Ex::Null,
		4 => Ex::True,
		5 => Ex::False,
		6 => Ex::SelfE,
		_ => Ex::Dollar,
	}
}

pub fn expr(src: &mut Src, cfg: &SynCfg, d: usize) -> Ex {
	if d == 0 || src.exhausted() {
		return atom(src, cfg);
	}
	let d1 = d - 1;
	match src.weighted(&[
		3, // atom
		6, // binary
		2, // unary
		2, // array
		1, // array comp
		3, // object
		1, // obj comp
		1, // obj ext
		2, // index
		2, // dot
		1, // super
		2, // slice
		3, // call
		2, // function
		2, // local
		2, // if
		1, // error
		1, // assert
		if cfg.imports { 1 } else { 0 },
		if cfg.paren_noise { 1 } else { 0 },
	]) {
		0 => atom(src, cfg),
		1 => {
			let op = *src.pick(&BinOp::ALL);
			Ex::Bin(op, bx(expr(src, cfg, d1)), bx(expr(src, cfg, d1)))
		}
		2 => Ex::Un(*src.pick(&UnOp::ALL), bx(expr(src, cfg, d1))),
		3 => {
			let n = src.weighted(&[1, 2, 2, 1]);
			Ex::Arr((0..n).map(|_| expr(src, cfg, d1)).collect())
		}
		4 => Ex::ArrComp(bx(expr(src, cfg, d1)), comps(src, cfg, d)),
		5 => Ex::Obj(members(src, cfg, d)),
		6 => objcomp(src, cfg, d),
		7 => {
			let base = expr(src, cfg, d1);
			let ext = if src.chance(1, 5) { objcomp(src, cfg, d1) } else { Ex::Obj(members(src, cfg, d1)) };
			Ex::ObjExt(bx(base), bx(ext))
		}
		8 => Ex::Index(bx(expr(src, cfg, d1)), bx(expr(src, cfg, d1))),
		9 => Ex::Dot(bx(expr(src, cfg, d1)), (*src.pick(FIELDS)).to_owned()),
		10 => match src.below(3) {
			0 => Ex::SuperDot((*src.pick(FIELDS)).to_owned()),
			1 => Ex::SuperIndex(bx(expr(src, cfg, d1))),
			_ => Ex::InSuper(bx(expr(src, cfg, d1))),
		},
		11 => {
			let a = expr(src, cfg, d1);
			let mut part = |src: &mut Src| if src.chance(1, 2) { Some(bx(expr(src, cfg, d1.saturating_sub(1)))) } else { None };
			let x = part(src);
			let y = part(src);
			let z = part(src);
			Ex::Slice(bx(a), x, y, z)
		}
		12 => {
			let f = expr(src, cfg, d1);
			let na = src.weighted(&[1, 3, 2, 1]);
			let args = (0..na).map(|_| expr(src, cfg, d1)).collect();
			let nn = src.weighted(&[4, 2, 1]);
			let names = ["p", "q", "r"];
			let named = (0..nn).map(|i| (names[i].to_owned(), expr(src, cfg, d1))).collect();
			Ex::Call(bx(f), args, named, src.chance(1, 6))
		}
		13 => Ex::Func(params(src, cfg, d), bx(expr(src, cfg, d1))),
		14 => {
			let n = 1 + src.weighted(&[4, 2, 1]);
			Ex::Local((0..n).map(|_| bind(src, cfg, d)).collect(), bx(expr(src, cfg, d1)))
		}
		15 => Ex::If(
			bx(expr(src, cfg, d1)),
			bx(expr(src, cfg, d1)),
			if src.chance(2, 3) { Some(bx(expr(src, cfg, d1))) } else { None },
		),
		16 => Ex::Error(bx(expr(src, cfg, d1))),
		17 => Ex::Assert(
			bx(expr(src, cfg, d1)),
			if src.chance(1, 2) { Some(bx(expr(src, cfg, d1))) } else { None },
			bx(expr(src, cfg, d1)),
		),
		18 => match src.below(3) {
			0 => Ex::Import("lib.libsonnet".to_owned()),
			1 => Ex::ImportStr("data.txt".to_owned()),
			_ => Ex::ImportBin("data.bin".to_owned()),
		},
		_ => Ex::Paren(bx(expr(src, cfg, d1))),
	}
}

/// Random trivia (spaces, newlines, the three comment forms) for the printer
pub struct RandTrivia<'a, 'b> {
	pub src: &'a mut Src<'b>,
	pub comments: bool,
	pub counter: usize,
	/// payloads of the comments emitted so far, in order
	pub emitted: Vec<String>,
	/// comments only where a list item may start (after an opening bracket or a comma), each on its own line or,
	/// after a comma, at the end of the item's line
	pub items_only: bool,
}
impl crate::ast::Trivia for RandTrivia<'_, '_> {
	fn between(&mut self, must: bool, prev: &str, next: &str) -> String {
		if self.comments && self.items_only {
			let at_item = matches!(prev, "[" | "{" | "(" | ",") && !matches!(next, "for" | "if");
			if !at_item {
				return if must { " ".to_owned() } else { String::new() };
			}
			self.counter += 1;
			let w = format!("c{} note", self.counter);
			// (an end-of-line comment after an item is not emitted: when the list is re-flowed onto one line the
			// formatter fuses it with the next item — part of the recorded comment findings)
			return match self.src.weighted(&[6, 2, 1, 1, 0]) {
				0 => "\n".to_owned(),
				1 => {
					self.emitted.push(w.clone());
					format!("\n// {w}\n")
				}
				2 => {
					self.emitted.push(w.clone());
					format!("\n/* {w} */\n")
				}
				3 => {
					self.emitted.push(w.clone());
					format!("\n# {w}\n")
				}
				_ => {
					self.emitted.push(w.clone());
					format!(" // {w}\n")
				}
			};
		}
		let w = if self.comments { [6, 2, 1, 1, 1, 1] } else { [6, 2, 1, 0, 0, 0] };
		let k = self.src.weighted(&w);
		let mut word = |s: &mut Self| {
			s.counter += 1;
			let w = format!("c{} note", s.counter);
			s.emitted.push(w.clone());
			w
		};
		match k {
			0 => {
				if must {
					" ".to_owned()
				} else {
					String::new()
				}
			}
			1 => "\n".to_owned(),
			2 => "  ".to_owned(),
			3 => {
				let w = word(self);
				format!(" /* {w} */ ")
			}
			4 => {
				let w = word(self);
				format!(" // {w}\n")
			}
			_ => {
				let w = word(self);
				format!(" # {w}\n")
			}
		}
	}
}
