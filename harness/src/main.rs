mod ast;
mod core;
mod gen_eval;
mod gen_syn;
mod jr;
mod json;
mod model;
mod props;
mod worker;

use crate::core::{Run, Tier};

fn main() {
	let args: Vec<String> = std::env::args().collect();
	if args.len() < 2 {
		eprintln!("usage: jv run <ID> [quick|thorough] | jv replay <file> | jv eval <code>");
		std::process::exit(2);
	}
	if args[1] == "worker" {
		// an isolated worker serves its requests on a thread with the stack size of the executable's main thread
		let h = std::thread::Builder::new().stack_size(worker::STACK_BYTES).spawn(worker::serve).unwrap();
		std::process::exit(h.join().unwrap_or(3));
	}
	// all real work happens on a big-stack thread
	let h = std::thread::Builder::new()
		.stack_size(1 << 30)
		.spawn(move || real_main(args))
		.unwrap();
	let code = h.join().unwrap_or(2);
	std::process::exit(code);
}

fn real_main(args: Vec<String>) -> i32 {
	match args[1].as_str() {
		"run" => {
			let id = args[2].clone();
			let tier = match args.get(3).map(|s| s.as_str()).or(std::env::var("VERIF_TIER").ok().as_deref()) {
				Some("thorough") => Tier::Thorough,
				_ => Tier::Quick,
			};
			let seed: u64 = std::env::var("VERIF_SEED").ok().and_then(|s| s.parse().ok()).unwrap_or(1);
			let run = Run::new(&id, tier, seed);
			// watchdog: a hang is "inconclusive" (exit 2), never a violation
			let limit = std::env::var("VERIF_WATCHDOG_S").ok().and_then(|s| s.parse().ok()).unwrap_or(tier.pick(3000u64, 6 * 3600));
			std::thread::spawn(move || {
				std::thread::sleep(std::time::Duration::from_secs(limit));
				eprintln!("INCONCLUSIVE: watchdog ({limit}s) expired");
				std::process::exit(2);
			});
			if !props::run(&run) {
				eprintln!("unknown property {id}");
				return 2;
			}
			run.write_evidence()
		}
		"replay" => props::replay(&args[2]),
		"parse" => {
			props::c06::debug(&args[2]);
			0
		}
		"membench" => {
			// development aid: resident memory after n runs of the reference interpreter / of jrsonnet on one program
			let n: usize = args.get(3).and_then(|s| s.parse().ok()).unwrap_or(2000);
			let rss = || std::fs::read_to_string("/proc/self/statm").ok().and_then(|s| s.split_whitespace().nth(1).and_then(|x| x.parse::<u64>().ok())).unwrap_or(0) * 4 / 1024;
			let e = ast::parse_to_ex(&args[2]).expect("program");
			let r0 = rss();
			for _ in 0..n {
				let it = model::Interp::new(300_000);
				let _ = model::run_expr(&e, &it);
			}
			let r1 = rss();
			for _ in 0..n {
				let _ = jr::eval(&args[2], &jr::Opts::default());
			}
			println!("rss MiB: start {r0}, after {n} model runs {r1}, after {n} jrsonnet runs {}", rss());
			0
		}
		"eval" => {
			println!("{}", jr::eval_default(&args[2]).short());
			0
		}
		_ => 2,
	}
}
