//! The harness's own Jsonnet AST, a pretty-printer with minimal parentheses (own precedence table, from the
//! language specification), recorded byte ranges, and span-erasing canonical dumps of both this AST and
//! `jrsonnet_ir::Expr` in one common notation.
use std::fmt::Write as _;

use jrsonnet_ir as ir;

#[derive(Clone, Copy, Debug, PartialEq, Eq, Hash)]
pub enum StrStyle {
	Double,
	Single,
	VerbDouble,
	VerbSingle,
	Block,
}

#[derive(Clone, Copy, Debug, PartialEq, Eq, Hash)]
pub enum UnOp {
	Neg,
	Plus,
	Not,
	BitNot,
}
impl UnOp {
	pub fn sym(self) -> &'static str {
		match self {
			UnOp::Neg => "-",
			UnOp::Plus => "+",
			UnOp::Not => "!",
			UnOp::BitNot => "~",
		}
	}
	pub const ALL: [UnOp; 4] = [UnOp::Neg, UnOp::Plus, UnOp::Not, UnOp::BitNot];
}

#[derive(Clone, Copy, Debug, PartialEq, Eq, Hash)]
pub enum BinOp {
	Mul,
	Div,
	Mod,
	Add,
	Sub,
	Shl,
	Shr,
	Lt,
	Gt,
	Le,
	Ge,
	In,
	Eq,
	Ne,
	BitAnd,
	BitXor,
	BitOr,
	And,
	Or,
}
impl BinOp {
	pub const ALL: [BinOp; 19] = [
		BinOp::Mul,
		BinOp::Div,
		BinOp::Mod,
		BinOp::Add,
		BinOp::Sub,
		BinOp::Shl,
		BinOp::Shr,
		BinOp::Lt,
		BinOp::Gt,
		BinOp::Le,
		BinOp::Ge,
		BinOp::In,
		BinOp::Eq,
		BinOp::Ne,
		BinOp::BitAnd,
		BinOp::BitXor,
		BinOp::BitOr,
		BinOp::And,
		BinOp::Or,
	];
	pub fn sym(self) -> &'static str {
		use BinOp::*;
		match self {
			Mul => "*",
			Div => "/",
			Mod => "%",
			Add => "+",
			Sub => "-",
			Shl => "<<",
			Shr => ">>",
			Lt => "<",
			Gt => ">",
			Le => "<=",
			Ge => ">=",
			In => "in",
			Eq => "==",
			Ne => "!=",
			BitAnd => "&",
			BitXor => "^",
			BitOr => "|",
			And => "&&",
			Or => "||",
		}
	}
	/// precedence level per the Jsonnet specification (higher binds tighter); all operators are left-associative
	pub fn level(self) -> u8 {
		use BinOp::*;
		match self {
			Mul | Div | Mod => 10,
			Add | Sub => 9,
			Shl | Shr => 8,
			Lt | Gt | Le | Ge | In => 7,
			Eq | Ne => 6,
			BitAnd => 5,
			BitXor => 4,
			BitOr => 3,
			And => 2,
			Or => 1,
		}
	}
}
pub const LVL_UNARY: u8 = 11;
pub const LVL_POSTFIX: u8 = 12;
pub const LVL_ATOM: u8 = 13;

#[derive(Clone, Copy, Debug, PartialEq, Eq, Hash)]
pub enum Vis {
	Normal,
	Hidden,
	Unhide,
}
impl Vis {
	pub fn sym(self) -> &'static str {
		match self {
			Vis::Normal => ":",
			Vis::Hidden => "::",
			Vis::Unhide => ":::",
		}
	}
}

#[derive(Clone, Debug, PartialEq)]
pub struct Param {
	pub name: String,
	pub default: Option<Ex>,
}
#[derive(Clone, Debug, PartialEq)]
pub enum Bind {
	Var(String, Ex),
	Func(String, Vec<Param>, Ex),
}
impl Bind {
	pub fn name(&self) -> &str {
		match self {
			Bind::Var(n, _) | Bind::Func(n, _, _) => n,
		}
	}
}
#[derive(Clone, Debug, PartialEq)]
pub enum FieldName {
	Id(String),
	Str(String, StrStyle),
	Dyn(Ex),
}
#[derive(Clone, Debug, PartialEq)]
pub enum Member {
	Field { name: FieldName, plus: bool, vis: Vis, params: Option<Vec<Param>>, value: Ex },
	Local(Bind),
	Assert(Ex, Option<Ex>),
}
#[derive(Clone, Debug, PartialEq)]
pub enum Comp {
	For(String, Ex),
	If(Ex),
}

#[derive(Clone, Debug, PartialEq)]
pub enum Ex {
	Null,
	True,
	False,
	SelfE,
	Dollar,
	/// number with optional literal spelling
	Num(f64, Option<String>),
	Str(String, StrStyle),
	Var(String),
	Arr(Vec<Ex>),
	ArrComp(Box<Ex>, Vec<Comp>),
	Obj(Vec<Member>),
	/// { locals, [name]: value, locals for ... }
	ObjComp { pre: Vec<Bind>, name: Box<Ex>, plus: bool, vis: Vis, value: Box<Ex>, post: Vec<Bind>, specs: Vec<Comp> },
	/// e { ... }  (second is Obj or ObjComp)
	ObjExt(Box<Ex>, Box<Ex>),
	Index(Box<Ex>, Box<Ex>),
	Dot(Box<Ex>, String),
	SuperDot(String),
	SuperIndex(Box<Ex>),
	InSuper(Box<Ex>),
	Slice(Box<Ex>, Option<Box<Ex>>, Option<Box<Ex>>, Option<Box<Ex>>),
	Call(Box<Ex>, Vec<Ex>, Vec<(String, Ex)>, bool),
	Func(Vec<Param>, Box<Ex>),
	Local(Vec<Bind>, Box<Ex>),
	If(Box<Ex>, Box<Ex>, Option<Box<Ex>>),
	Un(UnOp, Box<Ex>),
	Bin(BinOp, Box<Ex>, Box<Ex>),
	Error(Box<Ex>),
	Assert(Box<Ex>, Option<Box<Ex>>, Box<Ex>),
	Import(String),
	ImportStr(String),
	ImportBin(String),
	/// explicit (redundant) parentheses; erased by the canonical dump
	Paren(Box<Ex>),
}

pub fn num(v: f64) -> Ex {
	Ex::Num(v, None)
}
pub fn s(v: &str) -> Ex {
	Ex::Str(v.to_owned(), StrStyle::Double)
}
pub fn var(v: &str) -> Ex {
	Ex::Var(v.to_owned())
}
pub fn bx(e: Ex) -> Box<Ex> {
	Box::new(e)
}
pub fn call(f: Ex, args: Vec<Ex>) -> Ex {
	Ex::Call(bx(f), args, vec![], false)
}
pub fn std_call(name: &str, args: Vec<Ex>) -> Ex {
	call(Ex::Dot(bx(var("std")), name.to_owned()), args)
}

impl Ex {
	pub fn level(&self) -> u8 {
		use Ex::*;
		match self {
			Local(..) | If(..) | Func(..) | Error(..) | Assert(..) | Import(..) | ImportStr(..) | ImportBin(..) => 0,
			Bin(op, ..) => op.level(),
			InSuper(_) => BinOp::In.level(),
			Un(..) => LVL_UNARY,
			Num(v, None) if *v < 0.0 || (*v == 0.0 && v.is_sign_negative()) => LVL_UNARY,
			Index(..) | Dot(..) | Slice(..) | Call(..) | ObjExt(..) | SuperDot(..) | SuperIndex(..) => LVL_POSTFIX,
			_ => LVL_ATOM,
		}
	}
	pub fn size(&self) -> usize {
		let mut n = 0;
		self.walk(&mut |_| n += 1);
		n
	}
	pub fn walk(&self, f: &mut dyn FnMut(&Ex)) {
		use Ex::*;
		f(self);
		let wp = |ps: &Vec<Param>, f: &mut dyn FnMut(&Ex)| {
			for p in ps {
				if let Some(d) = &p.default {
					d.walk(f);
				}
			}
		};
		let wb = |b: &Bind, f: &mut dyn FnMut(&Ex)| match b {
			Bind::Var(_, e) => e.walk(f),
			Bind::Func(_, ps, e) => {
				wp(ps, f);
				e.walk(f);
			}
		};
		let wc = |cs: &Vec<Comp>, f: &mut dyn FnMut(&Ex)| {
			for c in cs {
				match c {
					Comp::For(_, e) | Comp::If(e) => e.walk(f),
				}
			}
		};
		match self {
			Arr(v) => v.iter().for_each(|e| e.walk(f)),
			ArrComp(e, cs) => {
				e.walk(f);
				wc(cs, f);
			}
			Obj(ms) => {
				for m in ms {
					match m {
						Member::Field { name, params, value, .. } => {
							if let FieldName::Dyn(e) = name {
								e.walk(f);
							}
							if let Some(ps) = params {
								wp(ps, f);
							}
							value.walk(f);
						}
						Member::Local(b) => wb(b, f),
						Member::Assert(c, m) => {
							c.walk(f);
							if let Some(m) = m {
								m.walk(f);
							}
						}
					}
				}
			}
			ObjComp { pre, name, value, post, specs, .. } => {
				pre.iter().for_each(|b| wb(b, f));
				name.walk(f);
				value.walk(f);
				post.iter().for_each(|b| wb(b, f));
				wc(specs, f);
			}
			ObjExt(a, b) | Index(a, b) | Bin(_, a, b) => {
				a.walk(f);
				b.walk(f);
			}
			Dot(a, _) | SuperIndex(a) | InSuper(a) | Un(_, a) | Error(a) | Paren(a) => a.walk(f),
			Slice(a, x, y, z) => {
				a.walk(f);
				for o in [x, y, z].into_iter().flatten() {
					o.walk(f);
				}
			}
			Call(fun, args, named, _) => {
				fun.walk(f);
				args.iter().for_each(|e| e.walk(f));
				named.iter().for_each(|(_, e)| e.walk(f));
			}
			Func(ps, b) => {
				wp(ps, f);
				b.walk(f);
			}
			Local(bs, b) => {
				bs.iter().for_each(|x| wb(x, f));
				b.walk(f);
			}
			If(c, t, e) => {
				c.walk(f);
				t.walk(f);
				if let Some(e) = e {
					e.walk(f);
				}
			}
			Assert(c, m, r) => {
				c.walk(f);
				if let Some(m) = m {
					m.walk(f);
				}
				r.walk(f);
			}
			_ => {}
		}
	}
}

// ------------------------------------------------------------------------------------------------
// printing

pub const KEYWORDS: &[&str] = &[
	"assert", "else", "error", "false", "for", "function", "if", "import", "importstr", "importbin", "in", "local", "null",
	"tailstrict", "then", "self", "super", "true",
];

pub fn is_ident(s: &str) -> bool {
	let mut c = s.chars();
	match c.next() {
		Some(ch) if ch == '_' || ch.is_ascii_alphabetic() => {}
		_ => return false,
	}
	c.all(|ch| ch == '_' || ch.is_ascii_alphanumeric()) && !KEYWORDS.contains(&s)
}

/// can `text` be written in `style`?  (otherwise the printer falls back to a double-quoted literal)
pub fn style_ok(text: &str, style: StrStyle) -> bool {
	match style {
		StrStyle::Double | StrStyle::Single => true,
		StrStyle::VerbDouble | StrStyle::VerbSingle => true,
		StrStyle::Block => {
			// content must end with a newline (we do not use |||-), must not start with a newline or whitespace-led first line
			// problems: every line is indented by the printer, so any text works as long as it ends in '\n' and the first
			// line is non-empty; a line consisting of whitespace only is kept verbatim after the indentation.
			// the first line fixes the indentation, so it must not itself begin with white space
			// (blank lines before the first indented line are allowed and belong to the content)
			let first = text.split('\n').find(|l| !l.is_empty());
			text.ends_with('\n') && !text.contains('\r') && first.is_some_and(|l| !l.starts_with([' ', '\t']))
		}
	}
}

pub fn escape_string(text: &str, quote: char) -> String {
	let mut o = String::new();
	o.push(quote);
	for c in text.chars() {
		match c {
			'\\' => o.push_str("\\\\"),
			'\n' => o.push_str("\\n"),
			'\r' => o.push_str("\\r"),
			'\t' => o.push_str("\\t"),
			'\u{8}' => o.push_str("\\b"),
			'\u{c}' => o.push_str("\\f"),
			c if c == quote => {
				o.push('\\');
				o.push(c);
			}
			c if (c as u32) < 0x20 || c == '\u{7f}' => {
				let _ = write!(o, "\\u{:04x}", c as u32);
			}
			c => o.push(c),
		}
	}
	o.push(quote);
	o
}

pub fn string_literal(text: &str, style: StrStyle, indent: &str) -> String {
	let style = if style_ok(text, style) { style } else { StrStyle::Double };
	match style {
		StrStyle::Double => escape_string(text, '"'),
		StrStyle::Single => escape_string(text, '\''),
		StrStyle::VerbDouble => format!("@\"{}\"", text.replace('"', "\"\"")),
		StrStyle::VerbSingle => format!("@'{}'", text.replace('\'', "''")),
		StrStyle::Block => {
			let mut o = String::from("|||\n");
			for line in text.split_inclusive('\n') {
				if line == "\n" {
					o.push('\n');
				} else {
					o.push_str(indent);
					o.push_str("  ");
					o.push_str(line);
				}
			}
			o.push_str(indent);
			o.push_str("|||");
			o
		}
	}
}

pub fn num_literal(v: f64) -> String {
	// shortest round-trip; Jsonnet has no negative literals, callers handle the sign
	let a = v.abs();
	if a == a.trunc() && a < 1e15 {
		format!("{}", a as u64)
	} else {
		let s = format!("{a:?}");
		s
	}
}

/// Source of trivia between tokens.  Default: single spaces.
pub trait Trivia {
	/// text to put between two tokens; `must` = a separator is syntactically required
	fn between(&mut self, must: bool, prev: &str, next: &str) -> String;
}
pub struct PlainTrivia;
impl Trivia for PlainTrivia {
	fn between(&mut self, must: bool, _prev: &str, _next: &str) -> String {
		if must {
			" ".to_owned()
		} else {
			String::new()
		}
	}
}

pub struct Mark {
	pub label: String,
	pub start: usize,
	pub end: usize,
}

pub struct Printer<'t> {
	pub out: String,
	pub marks: Vec<Mark>,
	prev: String,
	trivia: &'t mut dyn Trivia,
	/// use trailing commas where allowed
	pub trailing_commas: bool,
	/// print redundant parens never (true = minimal parentheses)
	pub minimal: bool,
	/// allow a bare open-ended construct (if/local/function/error/assert) as right-most operand
	pub bare_tail: bool,
	/// always parenthesise a prefix-operator expression that is the left operand of `* / %`
	pub paren_unary_in_mul: bool,
}

impl<'t> Printer<'t> {
	pub fn new(trivia: &'t mut dyn Trivia) -> Self {
		Self { out: String::new(), marks: vec![], prev: String::new(), trivia, trailing_commas: false, minimal: true, bare_tail: false, paren_unary_in_mul: false }
	}
	/// emit a token, separated from the previous one unless brackets/punctuation make that unnecessary
	fn tok(&mut self, t: &str) {
		if !self.prev.is_empty() {
			let tight_prev = matches!(self.prev.as_str(), "(" | "[" | ".");
			let tight_next = matches!(t, ")" | "]" | "," | ";" | ".");
			let must = !(tight_prev || tight_next);
			let tr = self.trivia.between(must, &self.prev, t);
			self.out.push_str(&tr);
		}
		self.out.push_str(t);
		self.prev = t.to_owned();
	}
	/// emit a token that may directly follow the previous one (call/index brackets)
	fn tight(&mut self, t: &str) {
		if !self.prev.is_empty() {
			let tr = self.trivia.between(false, &self.prev, t);
			self.out.push_str(&tr);
		}
		self.out.push_str(t);
		self.prev = t.to_owned();
	}
	pub fn pos(&self) -> usize {
		self.out.len()
	}
	/// position at which the next token will start is only known after trivia; marks are therefore recorded by
	/// emitting the first token and looking back
	fn mark_from_tok(&mut self, label: &str, start_tok_len: usize) -> usize {
		let start = self.out.len() - start_tok_len;
		self.marks.push(Mark { label: label.to_owned(), start, end: 0 });
		self.marks.len() - 1
	}
	fn mark_end(&mut self, idx: usize) {
		self.marks[idx].end = self.out.len();
	}

	fn params(&mut self, ps: &[Param]) {
		self.tight("(");
		for (i, p) in ps.iter().enumerate() {
			if i > 0 {
				self.tok(",");
			}
			self.tok(&p.name);
			if let Some(d) = &p.default {
				self.tok("=");
				self.expr(d, 0, true);
			}
		}
		if self.trailing_commas && !ps.is_empty() {
			self.tok(",");
		}
		self.tok(")");
	}
	fn bind(&mut self, b: &Bind) {
		match b {
			Bind::Var(n, e) => {
				self.tok(n);
				self.tok("=");
				self.expr(e, 0, true);
			}
			Bind::Func(n, ps, e) => {
				self.tok(n);
				self.params(ps);
				self.tok("=");
				self.expr(e, 0, true);
			}
		}
	}
	fn comps(&mut self, cs: &[Comp]) {
		for c in cs {
			match c {
				Comp::For(v, e) => {
					self.tok("for");
					self.tok(v);
					self.tok("in");
					self.expr(e, 0, true);
				}
				Comp::If(e) => {
					self.tok("if");
					self.expr(e, 0, true);
				}
			}
		}
	}
	fn field_name(&mut self, n: &FieldName) {
		match n {
			FieldName::Id(s) => self.tok(s),
			FieldName::Str(s, st) => {
				let st = if *st == StrStyle::Block { StrStyle::Double } else { *st };
				self.tok(&string_literal(s, st, ""))
			}
			FieldName::Dyn(e) => {
				self.tok("[");
				self.expr(e, 0, true);
				self.tok("]");
			}
		}
	}
	fn members(&mut self, ms: &[Member]) {
		self.tok("{");
		for (i, m) in ms.iter().enumerate() {
			if i > 0 {
				self.tok(",");
			}
			match m {
				Member::Field { name, plus, vis, params, value } => {
					let t0 = self.out.len();
					self.field_name(name);
					let _ = t0;
					if let Some(ps) = params {
						self.params(ps);
					}
					let sym = format!("{}{}", if *plus { "+" } else { "" }, vis.sym());
					self.tok(&sym);
					self.expr(value, 0, true);
				}
				Member::Local(b) => {
					self.tok("local");
					self.bind(b);
				}
				Member::Assert(c, m) => {
					self.tok("assert");
					self.expr(c, 0, true);
					if let Some(m) = m {
						self.tok(":");
						self.expr(m, 0, true);
					}
				}
			}
		}
		if self.trailing_commas && !ms.is_empty() {
			self.tok(",");
		}
		self.tok("}");
	}
	fn objcomp(&mut self, e: &Ex) {
		if let Ex::ObjComp { pre, name, plus, vis, value, post, specs } = e {
			self.tok("{");
			for b in pre {
				self.tok("local");
				self.bind(b);
				self.tok(",");
			}
			self.tok("[");
			self.expr(name, 0, true);
			self.tok("]");
			let sym = format!("{}{}", if *plus { "+" } else { "" }, vis.sym());
			self.tok(&sym);
			self.expr(value, 0, true);
			for b in post {
				self.tok(",");
				self.tok("local");
				self.bind(b);
			}
			self.comps(specs);
			self.tok("}");
		}
	}

	/// print `e` where an expression of at least precedence `min` is required.
	/// `tail`: nothing of the enclosing expression follows to the right (so an open-ended construct may stay bare).
	pub fn expr(&mut self, e: &Ex, min: u8, tail: bool) {
		use Ex::*;
		let lvl = e.level();
		let open_ended = lvl == 0;
		let need = if open_ended { min > 0 && !(self.bare_tail && tail && min <= LVL_UNARY) } else { lvl < min };
		if need {
			self.tok("(");
			self.expr(e, 0, true);
			self.tok(")");
			return;
		}
		match e {
			Null => self.tok("null"),
			True => self.tok("true"),
			False => self.tok("false"),
			SelfE => self.tok("self"),
			Dollar => self.tok("$"),
			Num(v, lit) => match lit {
				Some(l) => self.tok(l),
				None => {
					if *v < 0.0 || (*v == 0.0 && v.is_sign_negative()) {
						self.tok("-");
						self.tok(&num_literal(*v));
					} else {
						self.tok(&num_literal(*v));
					}
				}
			},
			Str(t, st) => {
				let lit = string_literal(t, *st, "");
				self.tok(&lit)
			}
			Var(n) => self.tok(n),
			Arr(v) => {
				self.tok("[");
				for (i, x) in v.iter().enumerate() {
					if i > 0 {
						self.tok(",");
					}
					self.expr(x, 0, true);
				}
				if self.trailing_commas && !v.is_empty() {
					self.tok(",");
				}
				self.tok("]");
			}
			ArrComp(x, cs) => {
				self.tok("[");
				self.expr(x, 0, true);
				if self.trailing_commas {
					self.tok(",");
				}
				self.comps(cs);
				self.tok("]");
			}
			Obj(ms) => self.members(ms),
			ObjComp { .. } => self.objcomp(e),
			ObjExt(a, b) => {
				self.expr(a, LVL_POSTFIX, false);
				match &**b {
					Obj(ms) => self.members(ms),
					oc @ ObjComp { .. } => self.objcomp(oc),
					other => {
						// not representable as sugar: print as +
						self.tok("+");
						self.expr(other, 10, tail);
					}
				}
			}
			Index(a, i) => {
				self.expr(a, LVL_POSTFIX, false);
				self.tight("[");
				self.expr(i, 0, true);
				self.tok("]");
			}
			Dot(a, f) => {
				if matches!(**a, Num(..)) {
					self.tok("(");
					self.expr(a, 0, true);
					self.tok(")");
				} else {
					self.expr(a, LVL_POSTFIX, false);
				}
				self.tok(".");
				self.tok(f);
			}
			SuperDot(f) => {
				self.tok("super");
				self.tok(".");
				self.tok(f);
			}
			SuperIndex(i) => {
				self.tok("super");
				self.tight("[");
				self.expr(i, 0, true);
				self.tok("]");
			}
			InSuper(x) => {
				self.expr(x, BinOp::In.level(), false);
				self.tok("in");
				self.tok("super");
			}
			Slice(a, x, y, z) => {
				self.expr(a, LVL_POSTFIX, false);
				self.tight("[");
				if let Some(x) = x {
					self.expr(x, 0, true);
				}
				self.tok(":");
				if let Some(y) = y {
					self.expr(y, 0, true);
				}
				if let Some(z) = z {
					self.tok(":");
					self.expr(z, 0, true);
				}
				self.tok("]");
			}
			Call(f, args, named, ts) => {
				self.expr(f, LVL_POSTFIX, false);
				self.tight("(");
				let mut first = true;
				for a in args {
					if !first {
						self.tok(",");
					}
					first = false;
					self.expr(a, 0, true);
				}
				for (n, a) in named {
					if !first {
						self.tok(",");
					}
					first = false;
					self.tok(n);
					self.tok("=");
					self.expr(a, 0, true);
				}
				if self.trailing_commas && !first {
					self.tok(",");
				}
				self.tok(")");
				if *ts {
					self.tok("tailstrict");
				}
			}
			Func(ps, b) => {
				self.tok("function");
				self.params(ps);
				self.expr(b, 0, true);
			}
			Local(bs, b) => {
				self.tok("local");
				for (i, x) in bs.iter().enumerate() {
					if i > 0 {
						self.tok(",");
					}
					self.bind(x);
				}
				self.tok(";");
				self.expr(b, 0, true);
			}
			If(c, t, el) => {
				self.tok("if");
				self.expr(c, 0, true);
				self.tok("then");
				match el {
					Some(el) => {
						// a nested else-less `if` in the then-branch would capture our else
						let t_needs = dangling_if(t);
						if t_needs {
							self.tok("(");
							self.expr(t, 0, true);
							self.tok(")");
						} else {
							self.expr(t, 0, true);
						}
						self.tok("else");
						self.expr(el, 0, true);
					}
					None => self.expr(t, 0, true),
				}
			}
			Un(op, x) => {
				self.tok(op.sym());
				self.expr(x, LVL_UNARY, tail);
			}
			Bin(op, a, b) => {
				let l = op.level();
				// exclusion by construction of the recorded unary-precedence finding: `(-a) * b` keeps its parentheses
				let unary_left = matches!(**a, Un(..)) || matches!(**a, Num(v, None) if v < 0.0);
				if self.paren_unary_in_mul && l == 10 && unary_left {
					self.tok("(");
					self.expr(a, 0, true);
					self.tok(")");
				} else {
					self.expr(a, l, false);
				}
				self.tok(op.sym());
				let unary_right = matches!(**b, Un(..)) || matches!(**b, Num(v, None) if v < 0.0);
				if self.paren_unary_in_mul && l == 10 && unary_right {
					self.tok("(");
					self.expr(b, 0, true);
					self.tok(")");
				} else {
					self.expr(b, l + 1, tail);
				}
			}
			Error(x) => {
				self.tok("error");
				self.expr(x, 0, true);
			}
			Assert(c, m, r) => {
				self.tok("assert");
				self.expr(c, 0, true);
				if let Some(m) = m {
					self.tok(":");
					self.expr(m, 0, true);
				}
				self.tok(";");
				self.expr(r, 0, true);
			}
			Import(p) => {
				self.tok("import");
				self.tok(&string_literal(p, StrStyle::Double, ""));
			}
			ImportStr(p) => {
				self.tok("importstr");
				self.tok(&string_literal(p, StrStyle::Double, ""));
			}
			ImportBin(p) => {
				self.tok("importbin");
				self.tok(&string_literal(p, StrStyle::Double, ""));
			}
			Paren(x) => {
				self.tok("(");
				self.expr(x, 0, true);
				self.tok(")");
			}
		}
	}
}

/// does `e`, printed bare, end in an `if` without `else` (which would capture a following `else`)?
fn dangling_if(e: &Ex) -> bool {
	use Ex::*;
	match e {
		If(_, t, None) => {
			let _ = t;
			true
		}
		If(_, _, Some(el)) => dangling_if(el),
		Local(_, b) | Func(_, b) | Error(b) | Assert(_, _, b) => dangling_if(b),
		Un(_, x) => dangling_if(x),
		Bin(_, _, b) => dangling_if(b),
		_ => false,
	}
}

/// printing for evaluation: a prefix-operator expression under `* / %` keeps explicit parentheses, so that the
/// recorded unary-precedence finding of the default parser (C06) cannot change the meaning of the program
pub fn print_eval(e: &Ex) -> String {
	let mut t = PlainTrivia;
	let mut p = Printer::new(&mut t);
	p.paren_unary_in_mul = true;
	p.expr(e, 0, true);
	p.out
}

pub fn print(e: &Ex) -> String {
	let mut t = PlainTrivia;
	let mut p = Printer::new(&mut t);
	p.expr(e, 0, true);
	p.out
}

// ------------------------------------------------------------------------------------------------
// canonical dumps

fn cn(v: f64) -> String {
	format!("n{v:?}")
}
fn cs(s: &str) -> String {
	format!("s{s:?}")
}

#[derive(Clone, Copy, Default)]
pub struct CanonOpts {
	/// treat `local f = function(..) e` as `local f(..) = e` and `f: function(..) e` as `f(..): e` (C19's documented sugar)
	pub merge_function_sugar: bool,
	/// dump the default parser's tree as if prefix operators bound tighter than `* / %` (the specification's
	/// precedence): `(un op (bin * A B))` is dumped as `(bin * (un op A) B)`.  Only used to recognise one recorded finding.
	pub spec_unary_precedence: bool,
}

pub fn canon_ex(e: &Ex, o: CanonOpts) -> String {
	let mut out = String::new();
	cex(e, o, &mut out);
	out
}

fn cparams(ps: &[Param], o: CanonOpts, out: &mut String) {
	out.push('(');
	for p in ps {
		out.push_str("(p ");
		out.push_str(&p.name);
		if let Some(d) = &p.default {
			out.push(' ');
			cex(d, o, out);
		}
		out.push(')');
	}
	out.push(')');
}
fn cbind(b: &Bind, o: CanonOpts, out: &mut String) {
	match b {
		Bind::Var(n, Ex::Func(ps, body)) if o.merge_function_sugar => {
			let _ = write!(out, "(bf {n} ");
			cparams(ps, o, out);
			out.push(' ');
			cex(body, o, out);
			out.push(')');
		}
		Bind::Var(n, e) => {
			let _ = write!(out, "(b {n} ");
			cex(e, o, out);
			out.push(')');
		}
		Bind::Func(n, ps, e) => {
			let _ = write!(out, "(bf {n} ");
			cparams(ps, o, out);
			out.push(' ');
			cex(e, o, out);
			out.push(')');
		}
	}
}
fn ccomps(cs_: &[Comp], o: CanonOpts, out: &mut String) {
	for c in cs_ {
		match c {
			Comp::For(v, e) => {
				let _ = write!(out, "(for {v} ");
				cex(e, o, out);
				out.push(')');
			}
			Comp::If(e) => {
				out.push_str("(if ");
				cex(e, o, out);
				out.push(')');
			}
		}
	}
}
fn cfield(name: &FieldName, plus: bool, vis: Vis, params: Option<&Vec<Param>>, value: &Ex, o: CanonOpts, out: &mut String) {
	out.push_str("(field ");
	match name {
		FieldName::Id(s) | FieldName::Str(s, _) => out.push_str(&cs(s)),
		FieldName::Dyn(e) => {
			out.push('[');
			cex(e, o, out);
			out.push(']');
		}
	}
	let _ = write!(out, " {}{} ", if plus { "+" } else { "" }, vis.sym());
	match (params, value) {
		(Some(ps), v) => {
			cparams(ps, o, out);
			out.push(' ');
			cex(v, o, out);
		}
		(None, Ex::Func(ps, body)) if o.merge_function_sugar => {
			cparams(ps, o, out);
			out.push(' ');
			cex(body, o, out);
		}
		(None, v) => {
			out.push_str("- ");
			cex(v, o, out);
		}
	}
	out.push(')');
}

fn cobj(e: &Ex, o: CanonOpts, out: &mut String) {
	match e {
		Ex::Obj(ms) => {
			out.push_str("{locals:(");
			for m in ms {
				if let Member::Local(b) = m {
					cbind(b, o, out);
				}
			}
			out.push_str(") asserts:(");
			for m in ms {
				if let Member::Assert(c, m) = m {
					out.push_str("(a ");
					cex(c, o, out);
					if let Some(m) = m {
						out.push(' ');
						cex(m, o, out);
					}
					out.push(')');
				}
			}
			out.push_str(") fields:(");
			for m in ms {
				if let Member::Field { name, plus, vis, params, value } = m {
					cfield(name, *plus, *vis, params.as_ref(), value, o, out);
				}
			}
			out.push_str(")}");
		}
		Ex::ObjComp { pre, name, plus, vis, value, post, specs } => {
			out.push_str("{comp locals:(");
			for b in pre.iter().chain(post.iter()) {
				cbind(b, o, out);
			}
			out.push_str(") ");
			cfield(&FieldName::Dyn((**name).clone()), *plus, *vis, None, value, o, out);
			out.push_str(" specs:(");
			ccomps(specs, o, out);
			out.push_str(")}");
		}
		_ => cex(e, o, out),
	}
}

fn cex(e: &Ex, o: CanonOpts, out: &mut String) {
	use Ex::*;
	match e {
		Null => out.push_str("null"),
		True => out.push_str("true"),
		False => out.push_str("false"),
		SelfE => out.push_str("self"),
		Dollar => out.push_str("$"),
		Num(v, _) => {
			if *v < 0.0 || (*v == 0.0 && v.is_sign_negative()) {
				// there are no negative literals in the language
				let _ = write!(out, "(un - {})", cn(-*v));
			} else {
				out.push_str(&cn(*v))
			}
		}
		Str(s, _) => out.push_str(&cs(s)),
		Var(n) => {
			let _ = write!(out, "v:{n}");
		}
		Arr(v) => {
			out.push('[');
			for (i, x) in v.iter().enumerate() {
				if i > 0 {
					out.push(',');
				}
				cex(x, o, out);
			}
			out.push(']');
		}
		ArrComp(x, cs_) => {
			out.push_str("(comp ");
			cex(x, o, out);
			out.push(' ');
			ccomps(cs_, o, out);
			out.push(')');
		}
		Obj(_) | ObjComp { .. } => cobj(e, o, out),
		ObjExt(a, b) => {
			out.push_str("(ext ");
			cex(a, o, out);
			out.push(' ');
			cobj(b, o, out);
			out.push(')');
		}
		Index(a, i) => {
			out.push_str("(idx ");
			cex(a, o, out);
			out.push(' ');
			cex(i, o, out);
			out.push(')');
		}
		Dot(a, f) => {
			out.push_str("(idx ");
			cex(a, o, out);
			out.push(' ');
			out.push_str(&cs(f));
			out.push(')');
		}
		SuperDot(f) => {
			let _ = write!(out, "(idx super {})", cs(f));
		}
		SuperIndex(i) => {
			out.push_str("(idx super ");
			cex(i, o, out);
			out.push(')');
		}
		InSuper(x) => {
			out.push_str("(bin in ");
			cex(x, o, out);
			out.push_str(" super)");
		}
		Slice(a, x, y, z) => {
			out.push_str("(slice ");
			cex(a, o, out);
			for p in [x, y, z] {
				out.push(' ');
				match p {
					Some(p) => cex(p, o, out),
					None => out.push('_'),
				}
			}
			out.push(')');
		}
		Call(f, args, named, ts) => {
			out.push_str("(call ");
			cex(f, o, out);
			out.push_str(" (");
			for (i, a) in args.iter().enumerate() {
				if i > 0 {
					out.push(',');
				}
				cex(a, o, out);
			}
			out.push_str(") (");
			for (n, a) in named {
				let _ = write!(out, "({n} ");
				cex(a, o, out);
				out.push(')');
			}
			out.push(')');
			if *ts {
				out.push_str(" tailstrict");
			}
			out.push(')');
		}
		Func(ps, b) => {
			out.push_str("(fn ");
			cparams(ps, o, out);
			out.push(' ');
			cex(b, o, out);
			out.push(')');
		}
		Local(bs, b) => {
			out.push_str("(local (");
			for x in bs {
				cbind(x, o, out);
			}
			out.push_str(") ");
			cex(b, o, out);
			out.push(')');
		}
		If(c, t, el) => {
			out.push_str("(if ");
			cex(c, o, out);
			out.push(' ');
			cex(t, o, out);
			if let Some(el) = el {
				out.push(' ');
				cex(el, o, out);
			}
			out.push(')');
		}
		Un(op, x) => {
			let _ = write!(out, "(un {} ", op.sym());
			cex(x, o, out);
			out.push(')');
		}
		Bin(op, a, b) => {
			let _ = write!(out, "(bin {} ", op.sym());
			cex(a, o, out);
			out.push(' ');
			cex(b, o, out);
			out.push(')');
		}
		Error(x) => {
			out.push_str("(error ");
			cex(x, o, out);
			out.push(')');
		}
		Assert(c, m, r) => {
			out.push_str("(assert ");
			cex(c, o, out);
			if let Some(m) = m {
				out.push_str(" : ");
				cex(m, o, out);
			}
			out.push_str(" ; ");
			cex(r, o, out);
			out.push(')');
		}
		Import(p) => {
			let _ = write!(out, "(import code {})", cs(p));
		}
		ImportStr(p) => {
			let _ = write!(out, "(import str {})", cs(p));
		}
		ImportBin(p) => {
			let _ = write!(out, "(import bin {})", cs(p));
		}
		Paren(x) => cex(x, o, out),
	}
}

// ---- the same notation for jrsonnet_ir::Expr ----

pub fn canon_ir(e: &ir::Expr, o: CanonOpts) -> String {
	let mut out = String::new();
	cir(e, o, &mut out);
	out
}

fn destruct_name(d: &ir::Destruct) -> String {
	match d {
		ir::Destruct::Full(n) => n.to_string(),
		#[allow(unreachable_patterns)]
		_ => "<destruct>".to_owned(),
	}
}
fn cir_params(ps: &ir::ExprParams, o: CanonOpts, out: &mut String) {
	out.push('(');
	for p in ps.exprs.iter() {
		out.push_str("(p ");
		out.push_str(&destruct_name(&p.destruct));
		if let Some(d) = &p.default {
			out.push(' ');
			cir(d, o, out);
		}
		out.push(')');
	}
	out.push(')');
}
fn cir_bind(b: &ir::BindSpec, o: CanonOpts, out: &mut String) {
	match b {
		ir::BindSpec::Field { into, value } => {
			if o.merge_function_sugar {
				if let ir::Expr::Function(ps, body) = &**value {
					let _ = write!(out, "(bf {} ", destruct_name(into));
					cir_params(ps, o, out);
					out.push(' ');
					cir(body, o, out);
					out.push(')');
					return;
				}
			}
			let _ = write!(out, "(b {} ", destruct_name(into));
			cir(value, o, out);
			out.push(')');
		}
		ir::BindSpec::Function { name, params, value } => {
			let _ = write!(out, "(bf {name} ");
			cir_params(params, o, out);
			out.push(' ');
			cir(value, o, out);
			out.push(')');
		}
	}
}
fn cir_comps(cs_: &[ir::CompSpec], o: CanonOpts, out: &mut String) {
	for c in cs_ {
		match c {
			ir::CompSpec::ForSpec(f) => {
				let _ = write!(out, "(for {} ", destruct_name(&f.destruct));
				cir(&f.over, o, out);
				out.push(')');
			}
			ir::CompSpec::IfSpec(i) => {
				out.push_str("(if ");
				cir(&i.cond, o, out);
				out.push(')');
			}
		}
	}
}
fn cir_field(f: &ir::FieldMember, o: CanonOpts, out: &mut String) {
	out.push_str("(field ");
	match &f.name.value {
		ir::FieldName::Fixed(s) => out.push_str(&cs(s)),
		ir::FieldName::Dyn(e) => {
			out.push('[');
			cir(e, o, out);
			out.push(']');
		}
	}
	let vis = match f.visibility {
		ir::Visibility::Normal => ":",
		ir::Visibility::Hidden => "::",
		ir::Visibility::Unhide => ":::",
	};
	let _ = write!(out, " {}{} ", if f.plus { "+" } else { "" }, vis);
	match (&f.params, &*f.value) {
		(Some(ps), v) => {
			cir_params(ps, o, out);
			out.push(' ');
			cir(v, o, out);
		}
		(None, ir::Expr::Function(ps, body)) if o.merge_function_sugar => {
			cir_params(ps, o, out);
			out.push(' ');
			cir(body, o, out);
		}
		(None, v) => {
			out.push_str("- ");
			cir(v, o, out);
		}
	}
	out.push(')');
}
fn cir_obj(b: &ir::ObjBody, o: CanonOpts, out: &mut String) {
	match b {
		ir::ObjBody::MemberList(m) => {
			out.push_str("{locals:(");
			for b in m.locals.iter() {
				cir_bind(b, o, out);
			}
			out.push_str(") asserts:(");
			for a in m.asserts.iter() {
				out.push_str("(a ");
				cir(&a.0, o, out);
				if let Some(m) = &a.1 {
					out.push(' ');
					cir(m, o, out);
				}
				out.push(')');
			}
			out.push_str(") fields:(");
			for f in &m.fields {
				cir_field(f, o, out);
			}
			out.push_str(")}");
		}
		ir::ObjBody::ObjComp(c) => {
			out.push_str("{comp locals:(");
			for b in c.locals.iter() {
				cir_bind(b, o, out);
			}
			out.push_str(") ");
			cir_field(&c.field, o, out);
			out.push_str(" specs:(");
			cir_comps(&c.compspecs, o, out);
			out.push_str(")}");
		}
	}
}

fn cir_unary(op: ir::UnaryOpType, x: &ir::Expr, o: CanonOpts, out: &mut String) {
	if o.spec_unary_precedence {
		if let ir::Expr::BinaryOp(b) = x {
			if matches!(b.op, ir::BinaryOpType::Mul | ir::BinaryOpType::Div | ir::BinaryOpType::Mod) {
				let _ = write!(out, "(bin {} ", b.op);
				cir_unary(op, &b.lhs, o, out);
				out.push(' ');
				cir(&b.rhs, o, out);
				out.push(')');
				return;
			}
		}
	}
	let _ = write!(out, "(un {op} ");
	cir(x, o, out);
	out.push(')');
}

fn cir(e: &ir::Expr, o: CanonOpts, out: &mut String) {
	use ir::Expr::*;
	match e {
		Literal(l) => out.push_str(match l {
			ir::LiteralType::This => "self",
			ir::LiteralType::Super => "super",
			ir::LiteralType::Dollar => "$",
			ir::LiteralType::Null => "null",
			ir::LiteralType::True => "true",
			ir::LiteralType::False => "false",
		}),
		Str(s) => out.push_str(&cs(s)),
		Num(v) => out.push_str(&cn(*v)),
		Var(n) => {
			let _ = write!(out, "v:{}", n.value);
		}
		Arr(v) => {
			out.push('[');
			for (i, x) in v.iter().enumerate() {
				if i > 0 {
					out.push(',');
				}
				cir(x, o, out);
			}
			out.push(']');
		}
		ArrComp(x, cs_) => {
			out.push_str("(comp ");
			cir(x, o, out);
			out.push(' ');
			cir_comps(cs_, o, out);
			out.push(')');
		}
		Obj(b) => cir_obj(b, o, out),
		ObjExtend(a, b) => {
			out.push_str("(ext ");
			cir(a, o, out);
			out.push(' ');
			cir_obj(b, o, out);
			out.push(')');
		}
		UnaryOp(op, x) => cir_unary(*op, x, o, out),
		BinaryOp(b) => {
			let _ = write!(out, "(bin {} ", b.op);
			cir(&b.lhs, o, out);
			out.push(' ');
			cir(&b.rhs, o, out);
			out.push(')');
		}
		AssertExpr(a) => {
			out.push_str("(assert ");
			cir(&a.assert.0, o, out);
			if let Some(m) = &a.assert.1 {
				out.push_str(" : ");
				cir(m, o, out);
			}
			out.push_str(" ; ");
			cir(&a.rest, o, out);
			out.push(')');
		}
		LocalExpr(bs, b) => {
			out.push_str("(local (");
			for x in bs {
				cir_bind(x, o, out);
			}
			out.push_str(") ");
			cir(b, o, out);
			out.push(')');
		}
		Import(k, p) => {
			let k = match k.value {
				ir::ImportKind::Normal => "code",
				ir::ImportKind::Str => "str",
				ir::ImportKind::Bin => "bin",
			};
			let _ = write!(out, "(import {k} ");
			cir(p, o, out);
			out.push(')');
		}
		ErrorStmt(_, x) => {
			out.push_str("(error ");
			cir(x, o, out);
			out.push(')');
		}
		Apply(f, args, ts) => {
			out.push_str("(call ");
			cir(f, o, out);
			out.push_str(" (");
			for (i, a) in args.unnamed.iter().enumerate() {
				if i > 0 {
					out.push(',');
				}
				cir(a, o, out);
			}
			out.push_str(") (");
			for (n, a) in &args.named {
				let _ = write!(out, "({n} ");
				cir(a, o, out);
				out.push(')');
			}
			out.push(')');
			if *ts {
				out.push_str(" tailstrict");
			}
			out.push(')');
		}
		Index { indexable, parts } => {
			for _ in parts {
				out.push_str("(idx ");
			}
			cir(indexable, o, out);
			for p in parts {
				out.push(' ');
				cir(&p.value, o, out);
				out.push(')');
			}
		}
		Function(ps, b) => {
			out.push_str("(fn ");
			cir_params(ps, o, out);
			out.push(' ');
			cir(b, o, out);
			out.push(')');
		}
		IfElse(i) => {
			out.push_str("(if ");
			cir(&i.cond.cond, o, out);
			out.push(' ');
			cir(&i.cond_then, o, out);
			if let Some(el) = &i.cond_else {
				out.push(' ');
				cir(el, o, out);
			}
			out.push(')');
		}
		Slice(s) => {
			out.push_str("(slice ");
			cir(&s.value, o, out);
			for p in [&s.slice.start, &s.slice.end, &s.slice.step] {
				out.push(' ');
				match p {
					Some(p) => cir(&p.value, o, out),
					None => out.push('_'),
				}
			}
			out.push(')');
		}
	}
}

// ------------------------------------------------------------------------------------------------
// jrsonnet_ir::Expr -> harness AST (used to feed reference-library *text* and repository programs to the model;
// the parser is the trusted part there, it is checked on its own by C06)

fn ie_params(ps: &ir::ExprParams) -> Option<Vec<Param>> {
	ps.exprs
		.iter()
		.map(|p| {
			Some(Param {
				name: match &p.destruct {
					ir::Destruct::Full(n) => n.to_string(),
					#[allow(unreachable_patterns)]
					_ => return None,
				},
				default: match &p.default {
					Some(d) => Some(ir_to_ex(d)?),
					None => None,
				},
			})
		})
		.collect()
}
fn ie_bind(b: &ir::BindSpec) -> Option<Bind> {
	Some(match b {
		ir::BindSpec::Field { into, value } => match into {
			ir::Destruct::Full(n) => Bind::Var(n.to_string(), ir_to_ex(value)?),
			#[allow(unreachable_patterns)]
			_ => return None,
		},
		ir::BindSpec::Function { name, params, value } => Bind::Func(name.to_string(), ie_params(params)?, ir_to_ex(value)?),
	})
}
fn ie_specs(cs: &[ir::CompSpec]) -> Option<Vec<Comp>> {
	cs.iter()
		.map(|c| {
			Some(match c {
				ir::CompSpec::ForSpec(f) => match &f.destruct {
					ir::Destruct::Full(n) => Comp::For(n.to_string(), ir_to_ex(&f.over)?),
					#[allow(unreachable_patterns)]
					_ => return None,
				},
				ir::CompSpec::IfSpec(i) => Comp::If(ir_to_ex(&i.cond)?),
			})
		})
		.collect()
}
fn ie_vis(v: ir::Visibility) -> Vis {
	match v {
		ir::Visibility::Normal => Vis::Normal,
		ir::Visibility::Hidden => Vis::Hidden,
		ir::Visibility::Unhide => Vis::Unhide,
	}
}
fn ie_field(f: &ir::FieldMember) -> Option<Member> {
	Some(Member::Field {
		name: match &f.name.value {
			ir::FieldName::Fixed(n) => FieldName::Str(n.to_string(), StrStyle::Double),
			ir::FieldName::Dyn(e) => FieldName::Dyn(ir_to_ex(e)?),
		},
		plus: f.plus,
		vis: ie_vis(f.visibility),
		params: match &f.params {
			Some(ps) => Some(ie_params(ps)?),
			None => None,
		},
		value: ir_to_ex(&f.value)?,
	})
}
fn ie_obj(b: &ir::ObjBody) -> Option<Ex> {
	Some(match b {
		ir::ObjBody::MemberList(m) => {
			let mut ms = vec![];
			for l in m.locals.iter() {
				ms.push(Member::Local(ie_bind(l)?));
			}
			for a in m.asserts.iter() {
				ms.push(Member::Assert(
					ir_to_ex(&a.0.value)?,
					match &a.1 {
						Some(m) => Some(ir_to_ex(&m.value)?),
						None => None,
					},
				));
			}
			for f in &m.fields {
				ms.push(ie_field(f)?);
			}
			Ex::Obj(ms)
		}
		ir::ObjBody::ObjComp(c) => {
			let Member::Field { name, plus, vis, params: None, value } = ie_field(&c.field)? else { return None };
			let name = match name {
				FieldName::Dyn(e) => e,
				FieldName::Str(s, _) | FieldName::Id(s) => Ex::Str(s, StrStyle::Double),
			};
			Ex::ObjComp { pre: c.locals.iter().map(ie_bind).collect::<Option<Vec<_>>>()?, name: bx(name), plus, vis, value: bx(value), post: vec![], specs: ie_specs(&c.compspecs)? }
		}
	})
}
pub fn ir_to_ex(e: &ir::Expr) -> Option<Ex> {
	use ir::Expr::*;
	Some(match e {
		Literal(l) => match l {
			ir::LiteralType::This => Ex::SelfE,
			ir::LiteralType::Super => return None,
			ir::LiteralType::Dollar => Ex::Dollar,
			ir::LiteralType::Null => Ex::Null,
			ir::LiteralType::True => Ex::True,
			ir::LiteralType::False => Ex::False,
		},
		Str(s) => Ex::Str(s.to_string(), StrStyle::Double),
		Num(n) => Ex::Num(*n, None),
		Var(n) => Ex::Var(n.value.to_string()),
		Arr(v) => Ex::Arr(v.iter().map(ir_to_ex).collect::<Option<Vec<_>>>()?),
		ArrComp(x, cs) => Ex::ArrComp(bx(ir_to_ex(x)?), ie_specs(cs)?),
		Obj(b) => ie_obj(b)?,
		ObjExtend(a, b) => Ex::ObjExt(bx(ir_to_ex(a)?), bx(ie_obj(b)?)),
		UnaryOp(op, x) => Ex::Un(
			match op {
				ir::UnaryOpType::Plus => UnOp::Plus,
				ir::UnaryOpType::Minus => UnOp::Neg,
				ir::UnaryOpType::BitNot => UnOp::BitNot,
				ir::UnaryOpType::Not => UnOp::Not,
			},
			bx(ir_to_ex(x)?),
		),
		BinaryOp(b) => {
			use ir::BinaryOpType as B;
			if b.op == B::In && matches!(b.rhs, Literal(ir::LiteralType::Super)) {
				return Some(Ex::InSuper(bx(ir_to_ex(&b.lhs)?)));
			}
			let op = match b.op {
				B::Mul => BinOp::Mul,
				B::Div => BinOp::Div,
				B::Mod => BinOp::Mod,
				B::Add => BinOp::Add,
				B::Sub => BinOp::Sub,
				B::Lhs => BinOp::Shl,
				B::Rhs => BinOp::Shr,
				B::Lt => BinOp::Lt,
				B::Gt => BinOp::Gt,
				B::Lte => BinOp::Le,
				B::Gte => BinOp::Ge,
				B::BitAnd => BinOp::BitAnd,
				B::BitOr => BinOp::BitOr,
				B::BitXor => BinOp::BitXor,
				B::Eq => BinOp::Eq,
				B::Neq => BinOp::Ne,
				B::And => BinOp::And,
				B::Or => BinOp::Or,
				B::In => BinOp::In,
				#[allow(unreachable_patterns)]
				_ => return None,
			};
			Ex::Bin(op, bx(ir_to_ex(&b.lhs)?), bx(ir_to_ex(&b.rhs)?))
		}
		AssertExpr(a) => Ex::Assert(
			bx(ir_to_ex(&a.assert.0.value)?),
			match &a.assert.1 {
				Some(m) => Some(bx(ir_to_ex(&m.value)?)),
				None => None,
			},
			bx(ir_to_ex(&a.rest)?),
		),
		LocalExpr(bs, b) => Ex::Local(bs.iter().map(ie_bind).collect::<Option<Vec<_>>>()?, bx(ir_to_ex(b)?)),
		Import(k, p) => {
			let Str(path) = &**p else { return None };
			match k.value {
				ir::ImportKind::Normal => Ex::Import(path.to_string()),
				ir::ImportKind::Str => Ex::ImportStr(path.to_string()),
				ir::ImportKind::Bin => Ex::ImportBin(path.to_string()),
			}
		}
		ErrorStmt(_, x) => Ex::Error(bx(ir_to_ex(x)?)),
		Apply(f, args, ts) => Ex::Call(
			bx(ir_to_ex(f)?),
			args.value.unnamed.iter().map(|a| ir_to_ex(a)).collect::<Option<Vec<_>>>()?,
			args.value.named.iter().map(|(n, a)| Some((n.to_string(), ir_to_ex(a)?))).collect::<Option<Vec<_>>>()?,
			*ts,
		),
		Index { indexable, parts } => {
			let mut cur = if matches!(**indexable, Literal(ir::LiteralType::Super)) {
				let first = parts.first()?;
				let mut c = Ex::SuperIndex(bx(ir_to_ex(&first.value)?));
				for p in &parts[1..] {
					c = Ex::Index(bx(c), bx(ir_to_ex(&p.value)?));
				}
				return Some(c);
			} else {
				ir_to_ex(indexable)?
			};
			for p in parts {
				cur = Ex::Index(bx(cur), bx(ir_to_ex(&p.value)?));
			}
			cur
		}
		Function(ps, b) => Ex::Func(ie_params(ps)?, bx(ir_to_ex(b)?)),
		IfElse(i) => Ex::If(
			bx(ir_to_ex(&i.cond.cond)?),
			bx(ir_to_ex(&i.cond_then)?),
			match &i.cond_else {
				Some(e) => Some(bx(ir_to_ex(e)?)),
				None => None,
			},
		),
		Slice(s) => {
			let part = |p: &Option<ir::Spanned<ir::Expr>>| -> Option<Option<Box<Ex>>> {
				Some(match p {
					Some(p) => Some(bx(ir_to_ex(&p.value)?)),
					None => None,
				})
			};
			Ex::Slice(bx(ir_to_ex(&s.value)?), part(&s.slice.start)?, part(&s.slice.end)?, part(&s.slice.step)?)
		}
	})
}

/// parse Jsonnet text (default parser) into the harness AST
pub fn parse_to_ex(code: &str) -> Option<Ex> {
	let source = ir::Source::new_virtual("ref.jsonnet".into(), code.into());
	let e = jrsonnet_ir_parser::parse(code, &jrsonnet_ir_parser::ParserSettings { source }).ok()?;
	ir_to_ex(&e)
}
