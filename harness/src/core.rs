//! Shared machinery: choice tapes, proptest driver, evidence, known findings, replay files.
use std::{
	collections::{BTreeMap, HashSet},
	hash::{Hash, Hasher},
	path::PathBuf,
	sync::{
		atomic::{AtomicBool, AtomicU64, Ordering},
		Mutex,
	},
	time::Instant,
};

use proptest::{
	collection::vec,
	prelude::*,
	test_runner::{Config, RngAlgorithm, RngSeed, TestCaseError, TestError, TestRunner},
};
use serde_json::{json, Value};

pub const VERIF: &str = "/verif";

#[derive(Clone, Copy, PartialEq, Eq, Debug)]
pub enum Tier {
	Quick,
	Thorough,
}
impl Tier {
	pub fn name(self) -> &'static str {
		match self {
			Tier::Quick => "quick",
			Tier::Thorough => "thorough",
		}
	}
	/// pick a count by tier
	pub fn pick<T>(self, quick: T, thorough: T) -> T {
		match self {
			Tier::Quick => quick,
			Tier::Thorough => thorough,
		}
	}
}

/// Source of choices.  All randomness of a case comes from `data`, which proptest generates and shrinks.
/// An exhausted tape yields 0 for every further choice, and generators put their simplest alternative at 0.
pub struct Src<'a> {
	data: &'a [u16],
	pos: usize,
	/// exact mode: values are taken as digits (clamped) instead of scaled; used by exhaustive enumerations
	exact: bool,
}
impl<'a> Src<'a> {
	pub fn new(data: &'a [u16]) -> Self {
		Self { data, pos: 0, exact: false }
	}
	pub fn exact(data: &'a [u16]) -> Self {
		Self { data, pos: 0, exact: true }
	}
	pub fn raw(&mut self) -> u16 {
		let v = self.data.get(self.pos).copied().unwrap_or(0);
		self.pos += 1;
		v
	}
	pub fn exhausted(&self) -> bool {
		self.pos >= self.data.len()
	}
	pub fn consumed(&self) -> usize {
		self.pos
	}
	/// uniform choice in 0..n (monotone in the tape value so that shrinking converges)
	pub fn below(&mut self, n: usize) -> usize {
		if n <= 1 {
			// still consume nothing: keeps tapes short
			return 0;
		}
		let v = self.raw() as usize;
		if self.exact {
			v.min(n - 1)
		} else {
			(v * n) >> 16
		}
	}
	/// integer in lo..=hi
	pub fn range(&mut self, lo: i64, hi: i64) -> i64 {
		lo + self.below((hi - lo + 1) as usize) as i64
	}
	/// true with probability num/den (false is the "simple" outcome)
	pub fn chance(&mut self, num: usize, den: usize) -> bool {
		if self.exact {
			return self.raw() != 0;
		}
		let v = self.raw() as usize;
		// high tape values => true, so that shrinking toward 0 turns options off
		v * den >= (den - num) * 65536
	}
	pub fn pick<'b, T>(&mut self, items: &'b [T]) -> &'b T {
		&items[self.below(items.len())]
	}
	/// weighted choice; index 0 should be the simplest alternative
	pub fn weighted(&mut self, weights: &[u32]) -> usize {
		let total: u32 = weights.iter().sum();
		if total == 0 {
			return 0;
		}
		if self.exact {
			return (self.raw() as usize).min(weights.len() - 1);
		}
		let mut x = ((self.raw() as u64 * total as u64) >> 16) as u32;
		for (i, w) in weights.iter().enumerate() {
			if x < *w {
				return i;
			}
			x -= *w;
		}
		weights.len() - 1
	}
	pub fn u32(&mut self) -> u32 {
		((self.raw() as u32) << 16) | self.raw() as u32
	}
	pub fn u64(&mut self) -> u64 {
		((self.u32() as u64) << 32) | self.u32() as u64
	}
}

pub enum Verdict {
	Pass,
	/// the generator or the reference gave up; not decided
	Discard(String),
	/// property violated; text explains expected vs observed
	Fail(String),
	/// violated in a way that matches a recorded known finding (id); counted, search continues
	Known(String),
}

pub struct CaseOut {
	pub verdict: Verdict,
	/// canonical text of the case (program, call, sequence); used for distinctness, samples and replay
	pub text: String,
	pub nontrivial: bool,
	pub classes: Vec<String>,
}
impl CaseOut {
	pub fn pass(text: String, nontrivial: bool) -> Self {
		Self { verdict: Verdict::Pass, text, nontrivial, classes: vec![] }
	}
	pub fn discard(text: String, why: &str) -> Self {
		Self { verdict: Verdict::Discard(why.to_owned()), text, nontrivial: false, classes: vec![] }
	}
	pub fn fail(text: String, why: String) -> Self {
		Self { verdict: Verdict::Fail(why), text, nontrivial: true, classes: vec![] }
	}
	pub fn class(mut self, c: impl Into<String>) -> Self {
		self.classes.push(c.into());
		self
	}
	pub fn classes(mut self, c: Vec<String>) -> Self {
		self.classes.extend(c);
		self
	}
}

#[derive(Clone)]
pub struct Violation {
	pub stage: String,
	pub replay: String,
	pub why: String,
}

#[derive(Default)]
pub struct Stats {
	pub evaluations: u64,
	pub discarded: BTreeMap<String, u64>,
	pub classes: BTreeMap<String, u64>,
	pub nontrivial: HashSet<u128>,
	pub samples: Vec<Value>,
	pub sample_stage_count: BTreeMap<String, u64>,
	pub known_hits: BTreeMap<String, u64>,
	pub excluded: BTreeMap<String, u64>,
	pub violations: Vec<Violation>,
	pub stages: Vec<Value>,
	pub notes: Vec<String>,
	pub assumptions: Vec<String>,
	pub infra_problems: Vec<String>,
	/// ids for which a KNOWN-FINDING line has been printed in this run
	pub reported_known: std::collections::BTreeSet<String>,
}

#[derive(Clone, Debug)]
pub struct KnownFinding {
	pub id: String,
	pub property: String,
	pub status: String,
	pub what: String,
	/// the finding's own reproducer (property-specific form), executed on every run
	pub replay: String,
}

pub struct Run {
	pub prop: String,
	pub tier: Tier,
	pub seed: u64,
	pub start: Instant,
	pub stats: Mutex<Stats>,
	pub known: Vec<KnownFinding>,
	pub threads: usize,
	pub rule: Mutex<String>,
	pub level: Mutex<String>,
	pub exhaustive: AtomicBool,
	pub next_replay: AtomicU64,
}

pub fn hash128(s: &str) -> u128 {
	let mut h1 = std::collections::hash_map::DefaultHasher::new();
	s.hash(&mut h1);
	let mut h2 = std::collections::hash_map::DefaultHasher::new();
	0x9e3779b97f4a7c15u64.hash(&mut h2);
	s.hash(&mut h2);
	((h1.finish() as u128) << 64) | h2.finish() as u128
}
pub fn hash64(s: &str) -> u64 {
	let mut h1 = std::collections::hash_map::DefaultHasher::new();
	s.hash(&mut h1);
	h1.finish()
}

pub fn load_known() -> Vec<KnownFinding> {
	let p = format!("{VERIF}/known_findings.jsonl");
	let mut out = vec![];
	if let Ok(s) = std::fs::read_to_string(p) {
		for l in s.lines() {
			let l = l.trim();
			if l.is_empty() || l.starts_with('#') {
				continue;
			}
			if let Ok(v) = serde_json::from_str::<Value>(l) {
				out.push(KnownFinding {
					id: v["id"].as_str().unwrap_or("").to_owned(),
					property: v["property"].as_str().unwrap_or("").to_owned(),
					status: v["status"].as_str().unwrap_or("").to_owned(),
					what: v["what"].as_str().unwrap_or("").to_owned(),
					replay: v["replay"].as_str().unwrap_or("").to_owned(),
				});
			}
		}
	}
	out
}

impl Run {
	pub fn new(prop: &str, tier: Tier, seed: u64) -> Self {
		let threads = std::env::var("VERIF_THREADS")
			.ok()
			.and_then(|v| v.parse().ok())
			.unwrap_or_else(|| std::thread::available_parallelism().map(|n| n.get()).unwrap_or(8))
			.clamp(1, 16);
		Self {
			prop: prop.to_owned(),
			tier,
			seed,
			start: Instant::now(),
			stats: Mutex::new(Stats::default()),
			known: load_known(),
			threads,
			rule: Mutex::new(String::new()),
			level: Mutex::new("exploration".to_owned()),
			exhaustive: AtomicBool::new(false),
			next_replay: AtomicU64::new(0),
		}
	}
	pub fn set_rule(&self, r: &str) {
		*self.rule.lock().unwrap() = r.to_owned();
	}
	pub fn set_level(&self, l: &str) {
		*self.level.lock().unwrap() = l.to_owned();
	}
	pub fn assume(&self, a: &str) {
		self.stats.lock().unwrap().assumptions.push(a.to_owned());
	}
	pub fn note(&self, a: impl Into<String>) {
		self.stats.lock().unwrap().notes.push(a.into());
	}
	pub fn infra(&self, a: impl Into<String>) {
		let a = a.into();
		eprintln!("INFRA: {a}");
		self.stats.lock().unwrap().infra_problems.push(a);
	}
	/// is this known-finding id listed (status "known") for this property?
	pub fn is_known(&self, id: &str) -> bool {
		self.known.iter().any(|k| k.id == id && k.property == self.prop && k.status == "known")
	}
	/// is this id listed with status "known" under any property? (a finding recorded for one property may have to be
	/// excluded by construction from another property's generator)
	pub fn known_listed(&self, id: &str) -> bool {
		self.known.iter().any(|k| k.id == id && k.status == "known")
	}
	pub fn known_what(&self, id: &str) -> String {
		self.known.iter().find(|k| k.id == id).map(|k| k.what.clone()).unwrap_or_default()
	}
	pub fn count_excluded(&self, id: &str) {
		*self.stats.lock().unwrap().excluded.entry(id.to_owned()).or_default() += 1;
	}

	/// record a decided case (not called while shrinking)
	pub fn record(&self, stage: &str, out: &CaseOut) {
		let mut st = self.stats.lock().unwrap();
		st.evaluations += 1;
		for c in &out.classes {
			*st.classes.entry(c.clone()).or_default() += 1;
		}
		match &out.verdict {
			Verdict::Discard(why) => {
				*st.discarded.entry(format!("{stage}: {why}")).or_default() += 1;
				return;
			}
			Verdict::Known(id) => {
				*st.known_hits.entry(id.clone()).or_default() += 1;
			}
			_ => {}
		}
		if out.nontrivial {
			let fresh = st.nontrivial.insert(hash128(&format!("{stage}\u{0}{}", out.text)));
			if fresh {
				let n = st.sample_stage_count.entry(stage.to_owned()).or_default();
				*n += 1;
				let n = *n;
				// keep the 1st, 2nd, 10th, 100th, 1000th ... non-trivial case of each stage as samples
				if n <= 2 || (n.is_power_of_two() && n >= 64 && n <= 1 << 16) {
					let mut t = out.text.clone();
					if t.len() > 1500 {
						let mut cut = 1500;
						while !t.is_char_boundary(cut) {
							cut -= 1;
						}
						t.truncate(cut);
						t.push_str("…");
					}
					st.samples.push(json!({"stage": stage, "case": t}));
				}
			}
		}
	}

	pub fn add_violation(&self, stage: &str, text: &str, why: &str, tape: Option<&[u16]>, extra: Value) {
		let n = self.next_replay.fetch_add(1, Ordering::SeqCst);
		let dir = format!("{VERIF}/replays/{}", self.prop);
		let _ = std::fs::create_dir_all(&dir);
		let path = format!("{dir}/violation-{}-{}-{}.json", stage.replace(['/', ' '], "_"), self.seed, n);
		let v = json!({
			"property": self.prop, "stage": stage, "seed": self.seed, "tier": self.tier.name(),
			"tape": tape, "case": text, "why": why, "extra": extra,
		});
		let _ = std::fs::write(&path, serde_json::to_string_pretty(&v).unwrap());
		println!("VIOLATION property={} replay={}", self.prop, path);
		eprintln!("--- violation in stage {stage}\n{text}\n--- why: {why}\n");
		self.stats.lock().unwrap().violations.push(Violation {
			stage: stage.to_owned(),
			replay: path,
			why: why.to_owned(),
		});
	}

	pub fn stage_info(&self, v: Value) {
		self.stats.lock().unwrap().stages.push(v);
	}

	/// Random exploration of one stage: `cases` tapes of length within `len`, decoded and decided by `f`.
	/// Work is split over threads; every shard is a proptest TestRunner with a fixed derived seed.
	pub fn explore<F>(&self, stage: &str, cases: u32, len: std::ops::RangeInclusive<usize>, f: F)
	where
		F: Fn(&mut Src) -> CaseOut + Sync,
	{
		let t0 = Instant::now();
		let shards = self.threads.min(cases.max(1) as usize).max(1);
		let per = cases.div_ceil(shards as u32);
		let fails = AtomicU64::new(0);
		std::thread::scope(|scope| {
			for shard in 0..shards {
				let f = &f;
				let fails = &fails;
				let len = len.clone();
				std::thread::Builder::new()
					.stack_size(512 << 20)
					.spawn_scoped(scope, move || {
						let mut seed = [0u8; 32];
						let h = hash128(&format!("{}|{}|{}|{}", self.seed, self.prop, stage, shard));
						seed[..16].copy_from_slice(&h.to_le_bytes());
						seed[16..].copy_from_slice(&h.rotate_left(37).to_le_bytes());
						let cfg = Config {
							cases: per,
							failure_persistence: None,
							rng_algorithm: RngAlgorithm::ChaCha,
							rng_seed: RngSeed::Fixed(u64::from_le_bytes(seed[..8].try_into().unwrap())),
							// shrinking re-runs the whole (possibly expensive) case: bounded, the unshrunk tape is a valid replay too
							max_shrink_iters: self.tier.pick(500, 5000),
							max_global_rejects: 1 << 30,
							max_local_rejects: 1 << 30,
							..Config::default()
						};
						let mut runner = TestRunner::new_with_rng(
							cfg,
							proptest::test_runner::TestRng::from_seed(RngAlgorithm::ChaCha, &seed),
						);
						let failed = std::cell::Cell::new(false);
						let strat = vec(any::<u16>(), len);
						let res = runner.run(&strat, |tape| {
							let mut src = Src::new(&tape);
							let out = f(&mut src);
							if !failed.get() {
								self.record(stage, &out);
							}
							match out.verdict {
								Verdict::Fail(why) => {
									failed.set(true);
									Err(TestCaseError::fail(why))
								}
								_ => Ok(()),
							}
						});
						if let Err(e) = res {
							fails.fetch_add(1, Ordering::SeqCst);
							match e {
								TestError::Fail(_, tape) => {
									let mut src = Src::new(&tape);
									let out = f(&mut src);
									let why = match &out.verdict {
										Verdict::Fail(w) => w.clone(),
										_ => "(failure did not reproduce on the shrunk tape: flaky oracle?)".to_owned(),
									};
									self.add_violation(stage, &out.text, &why, Some(&tape), Value::Null);
								}
								TestError::Abort(r) => {
									self.infra(format!("stage {stage} shard {shard} aborted: {r}"));
								}
							}
						}
					})
					.unwrap();
			}
		});
		self.stage_info(json!({"stage": stage, "kind": "random", "cases_requested": cases, "tape_len": [*len.start(), *len.end()],
			"failing_shards": fails.load(Ordering::SeqCst), "wall_s": t0.elapsed().as_secs_f64()}));
	}

	/// Exhaustive enumeration: `n` indices, each turned into a case by `f`.
	pub fn enumerate<F>(&self, stage: &str, n: u64, f: F)
	where
		F: Fn(u64) -> CaseOut + Sync,
	{
		let t0 = Instant::now();
		let shards = self.threads.max(1) as u64;
		let fails = AtomicU64::new(0);
		std::thread::scope(|scope| {
			for shard in 0..shards {
				let f = &f;
				let fails = &fails;
				std::thread::Builder::new()
					.stack_size(512 << 20)
					.spawn_scoped(scope, move || {
						let mut i = shard;
						let mut my_fails = 0;
						while i < n {
							let out = f(i);
							self.record(stage, &out);
							if let Verdict::Fail(why) = &out.verdict {
								my_fails += 1;
								fails.fetch_add(1, Ordering::SeqCst);
								if my_fails <= 2 {
									self.add_violation(stage, &out.text, why, None, json!({"index": i}));
								}
								if my_fails > 20 {
									break;
								}
							}
							i += shards;
						}
					})
					.unwrap();
			}
		});
		self.stage_info(json!({"stage": stage, "kind": "exhaustive", "cases": n,
			"failures": fails.load(Ordering::SeqCst), "wall_s": t0.elapsed().as_secs_f64()}));
	}

	/// recorded findings (status "known") of this run's property
	pub fn known_for_prop(&self) -> Vec<KnownFinding> {
		self.known.iter().filter(|k| k.property == self.prop && k.status == "known").cloned().collect()
	}
	/// Run every recorded finding's own reproducer through `decide` (returns the verdict for the reproducer text).
	/// Still failing in the recorded way => KNOWN-FINDING line; passing => silent; failing differently => violation.
	pub fn reproduce_known(&self, decide: impl Fn(&KnownFinding) -> CaseOut) {
		for k in self.known_for_prop() {
			let out = decide(&k);
			self.record("known-reproducers", &out);
			match &out.verdict {
				Verdict::Known(id) if *id == k.id => self.report_known(&k.id),
				Verdict::Known(other) => {
					// explained by another recorded finding: still a recorded failure, report that one
					self.report_known(other)
				}
				Verdict::Fail(why) => self.add_violation("known-reproducers", &out.text, &format!("reproducer of {} now fails differently: {why}", k.id), None, Value::Null),
				Verdict::Pass | Verdict::Discard(_) => {
					eprintln!("note: recorded finding {} no longer reproduces", k.id);
				}
			}
		}
	}
	/// Print KNOWN-FINDING line (once per id per run)
	pub fn report_known(&self, id: &str) {
		if self.stats.lock().unwrap().reported_known.insert(id.to_owned()) {
			println!("KNOWN-FINDING: property={} {} [{}]", self.prop, self.known_what(id), id);
		}
	}

	pub fn require_class(&self, class: &str, min: u64) {
		let st = self.stats.lock().unwrap();
		let have = st.classes.get(class).copied().unwrap_or(0);
		drop(st);
		if have < min {
			self.infra(format!("generator degenerate: class '{class}' seen {have} < {min}"));
		}
	}

	pub fn write_evidence(&self) -> i32 {
		// every recorded finding of this property that explained a case in this run is named once on stdout
		let hit: Vec<String> = self.stats.lock().unwrap().known_hits.keys().cloned().collect();
		for id in hit {
			if self.is_known(&id) {
				self.report_known(&id);
			}
		}
		let st = self.stats.lock().unwrap();
		let nviol = st.violations.len();
		let mut samples = st.samples.clone();
		if samples.len() > 24 {
			let step = samples.len() / 24 + 1;
			samples = samples.into_iter().step_by(step).collect();
		}
		let ev = json!({
			"property_id": self.prop,
			"tier": self.tier.name(),
			"seed": self.seed,
			"level": *self.level.lock().unwrap(),
			"coverage": {
				"evaluations": st.evaluations,
				"distinct_nontrivial": st.nontrivial.len(),
				"rule": *self.rule.lock().unwrap(),
				"samples": samples,
				"exhaustive": self.exhaustive.load(Ordering::SeqCst),
				"discarded": st.discarded,
				"classes": st.classes,
				"known_findings_hit": st.known_hits,
				"excluded_by_known_finding": st.excluded,
				"stages": st.stages,
				"notes": st.notes,
				"infra_problems": st.infra_problems,
			},
			"assumptions": st.assumptions,
			"wall_s": self.start.elapsed().as_secs_f64(),
			"violations": nviol,
			"violation_replays": st.violations.iter().map(|v| json!({"stage": v.stage, "replay": v.replay, "why": v.why})).collect::<Vec<_>>(),
		});
		let dir = format!("{VERIF}/evidence");
		let _ = std::fs::create_dir_all(&dir);
		let path = PathBuf::from(format!("{dir}/{}.json", self.prop));
		std::fs::write(&path, serde_json::to_string_pretty(&ev).unwrap()).expect("write evidence");
		eprintln!(
			"[{}] tier={} seed={} evaluations={} distinct_nontrivial={} violations={} known_hits={:?} wall={:.1}s",
			self.prop,
			self.tier.name(),
			self.seed,
			st.evaluations,
			st.nontrivial.len(),
			nviol,
			st.known_hits,
			self.start.elapsed().as_secs_f64()
		);
		if nviol > 0 {
			1
		} else if !st.infra_problems.is_empty() {
			2
		} else {
			0
		}
	}
}

/// convenience: run a closure under catch_unwind, returning panic message + location
pub fn guarded<T>(f: impl FnOnce() -> T) -> Result<T, String> {
	crate::jr::install_panic_hook();
	crate::jr::LAST_PANIC.with(|p| p.borrow_mut().take());
	match std::panic::catch_unwind(std::panic::AssertUnwindSafe(f)) {
		Ok(v) => Ok(v),
		Err(e) => {
			let msg = if let Some(s) = e.downcast_ref::<&str>() {
				(*s).to_owned()
			} else if let Some(s) = e.downcast_ref::<String>() {
				s.clone()
			} else {
				"<non-string panic>".to_owned()
			};
			let loc = crate::jr::LAST_PANIC.with(|p| p.borrow_mut().take()).unwrap_or_default();
			Err(format!("{msg} @ {loc}"))
		}
	}
}
