//! C18 — garbage cycles are reclaimed; interned strings stay canonical.
use jrsonnet_interner::{interop, IBytes, IStr};
use serde_json::Value;

use crate::{
	ast,
	core::{guarded, CaseOut, Run, Src},
	gen_eval,
	jr::{self, Opts},
};

// ------------------------------------------------------------------------------------------ collector

fn tracked_after(code: &str, opts: &Opts) -> (usize, jr::Outcome) {
	let out = jr::eval(code, opts);
	jrsonnet_gcmodule::collect_thread_cycles();
	(jrsonnet_gcmodule::count_thread_tracked(), out)
}

/// evaluate three times; the tracked-object count after collection must not grow from the 2nd to the 3rd repetition
pub fn collector_case(code: &str, opts: &Opts, cyclic: bool) -> CaseOut {
	let (_r1, o1) = tracked_after(code, opts);
	let (r2, _o2) = tracked_after(code, opts);
	let (r3, o3) = tracked_after(code, opts);
	let mut classes = vec![match &o3 {
		jr::Outcome::Val(_) => "outcome:value".to_owned(),
		jr::Outcome::Err(k, _) => format!("outcome:error:{k}"),
		jr::Outcome::Panic(_) => "outcome:panic".to_owned(),
	}];
	if cyclic {
		classes.push("cyclic".into());
	}
	let mut problems = vec![];
	if r3 > r2 {
		problems.push(format!("tracked objects after collection grow with every evaluation: {r2} after the 2nd, {r3} after the 3rd repetition"));
	}
	if o1 != o3 {
		problems.push(format!("repeating the evaluation changed its outcome: {} vs {}", o1.short(), o3.short()));
	}
	if problems.is_empty() {
		CaseOut::pass(code.to_owned(), cyclic).classes(classes)
	} else {
		CaseOut::fail(code.to_owned(), problems.join("\n")).classes(classes)
	}
}

const CYCLE_SHAPES: &[&str] = &[
	// cycles that pass through an already evaluated argument (native callbacks, tailstrict, keyF): the result
	// captures the parameter and is cached inside the value that was passed
	"{ a: 1, items: std.map(function(i) { v: i.a }, [self]) }",
	"local f(x) = { v: x.a }; { a: 1, b: f(self) tailstrict }",
	"{ a: 1, r: std.foldl(function(acc, i) { v: i.a, prev: acc }, [self, self], null) }",
	"{ a: 1, s: std.length(std.sort([self], keyF=function(o) o.a)), m: std.mapWithIndex(function(i, o) { back: o.a }, [self]) }",
	"local o = { a: 1, fs: std.filterMap(function(x) true, function(x) function() x.a, [self]) }; o.fs[0]()",
	"{ a: self, b: 1 }.b",
	"local o = { a: self.b, b: [self.a, $], c: $ }; std.length(o.b)",
	"local f(x) = if x == 0 then [] else [f] + f(x - 1); std.length(f(5))",
	"local a = [b, 1], b = [a, 2]; a[1] + b[1]",
	"local a = { x: b }, b = { y: a }; std.objectFields(a.x.y)",
	"{ local l = self, a: l.b, b: { c: l } }.b.c.b.c.a.c.b",
	"local r = std.map(function(x) [x, r], [1, 2, 3]); std.length(r[0][1])",
	"{ a: { b: { c: $ } } }.a.b.c.a.b",
	"local o = { f(x): self.g(x), g(x): if x == 0 then self else self.f(x - 1) }; o.f(4).f(0).g(1) == o",
	"local mk(n) = { n: n, next: if n == 0 then null else mk(n - 1), me: self }; mk(6).next.next.me.n",
	"local o = { a+: { b: 1 } } + { a+: { c: super.b } }; o.a",
	"local o = { assert self.a == 1, a: 1, s: self }; o.s.s.a",
	"local o = { a: error 'x', s: self }; o.s.a",
	"local f(x) = f(x + 1); f(0)",
	"local o = { a: self.b, b: self.a }; o.a",
	"local a = [a]; a[0][0][0]",
	"{ a: 1 } + { a+: error 'boom', b: super.a, c: self }",
	"std.foldl(function(acc, x) { prev: acc, v: x, me: self }, [1, 2, 3], null).prev.me.v",
	"local o = { x: std.objectValues(self), y: 1 }; std.length(o.x)",
	"[function(x) [x, f], null] + [1] tailstrict",
];

// ------------------------------------------------------------------------------------------ interner

/// `N` bytes `fill` with a different last byte: long contents that agree in length and in every byte but the last
const fn long_content<const N: usize>(fill: u8, last: u8) -> [u8; N] {
	let mut a = [fill; N];
	a[N - 1] = last;
	a
}
const LONG_A: [u8; 2000] = long_content(b'q', b'1');
const LONG_B: [u8; 2000] = long_content(b'q', b'2');
const LONG_C: [u8; 70_000] = long_content(b'w', b'3');
const CONTENTS: &[&[u8]] = &[
	b"",
	b"a",
	b"ab",
	"é".as_bytes(),
	&[0xff, 0xfe, 0x00],
	&[b'x'; 300],
	b"std",
	b"self",
	// lengths around and beyond the sizes at which a hashing or storage strategy could change
	&[b'y'; 1023],
	&[b'y'; 1024],
	&[b'y'; 1025],
	&LONG_A,
	&LONG_B,
	&LONG_C,
];

#[derive(Clone, Copy, Debug)]
enum Op {
	InternStr(usize),
	InternBytes(usize),
	Clone(usize),
	Drop(usize),
	CastBytes(usize),
	CastStr(usize),
	Compare(usize, usize),
	HandOver,
}
enum H {
	S(IStr),
	B(IBytes),
}
impl H {
	fn bytes(&self) -> &[u8] {
		match self {
			H::S(s) => s.as_bytes(),
			H::B(b) => b.as_slice(),
		}
	}
	fn ptr(&self) -> *const u8 {
		self.bytes().as_ptr()
	}
}
struct Shuttle(Vec<Option<(H, Vec<u8>)>>, *mut interop::PoolState);
// SAFETY: the whole interned pool travels together with its handles (interop::exit_thread / reenter_thread),
// which is the documented way of moving a VM between OS threads.
unsafe impl Send for Shuttle {}

fn gen_ops(src: &mut Src, max: usize) -> Vec<Op> {
	let n = src.range(4, max as i64) as usize;
	(0..n)
		.map(|_| match src.weighted(&[5, 3, 3, 4, 2, 2, 2, 1]) {
			0 => Op::InternStr(src.below(CONTENTS.len())),
			1 => Op::InternBytes(src.below(CONTENTS.len())),
			2 => Op::Clone(src.below(8)),
			3 => Op::Drop(src.below(8)),
			4 => Op::CastBytes(src.below(8)),
			5 => Op::CastStr(src.below(8)),
			6 => Op::Compare(src.below(8), src.below(8)),
			_ => Op::HandOver,
		})
		.collect()
}

fn invariant(slots: &[Option<(H, Vec<u8>)>], baseline_pool: usize, step: usize, op: &Op) -> Result<(), String> {
	let live: Vec<&(H, Vec<u8>)> = slots.iter().flatten().collect();
	for (h, model) in &live {
		if h.bytes() != model.as_slice() {
			return Err(format!("after step {step} ({op:?}): a live handle holds {:?} but was interned as {:?}", h.bytes(), model));
		}
	}
	for (i, (h1, m1)) in live.iter().enumerate() {
		for (h2, m2) in live.iter().skip(i + 1) {
			let same_content = m1 == m2;
			let same_ptr = h1.ptr() == h2.ptr() && h1.bytes().len() == h2.bytes().len();
			// (empty contents may share a dangling pointer; compare by equality of the handles where types match)
			let eq = match (h1, h2) {
				(H::S(a), H::S(b)) => Some(a == b),
				(H::B(a), H::B(b)) => Some(a == b),
				_ => None,
			};
			if let Some(eq) = eq {
				if eq != same_content {
					return Err(format!("after step {step} ({op:?}): handles with contents {m1:?} / {m2:?} compare {eq}"));
				}
			}
			if !m1.is_empty() && same_ptr != same_content {
				return Err(format!("after step {step} ({op:?}): contents {m1:?} / {m2:?}: equal contents = {same_content} but same storage = {same_ptr}"));
			}
		}
	}
	let mut distinct: Vec<&Vec<u8>> = live.iter().map(|x| &x.1).collect();
	distinct.sort();
	distinct.dedup();
	let pool = jrsonnet_interner::verif_pool_len();
	if pool != baseline_pool + distinct.len() {
		return Err(format!(
			"after step {step} ({op:?}): the pool holds {pool} entries, expected {} (baseline {baseline_pool} + {} distinct live contents)",
			baseline_pool + distinct.len(),
			distinct.len()
		));
	}
	Ok(())
}

/// interpret `ops` from `start`; on HandOver the pool and all handles move to a new OS thread which continues
fn interpret(ops: &[Op], start: usize, mut slots: Vec<Option<(H, Vec<u8>)>>, baseline_pool: usize) -> Result<(), String> {
	for (k, op) in ops.iter().enumerate().skip(start) {
		match *op {
			Op::InternStr(c) => {
				if let Ok(s) = std::str::from_utf8(CONTENTS[c]) {
					let slot = slots.iter().position(|s| s.is_none());
					if let Some(i) = slot {
						slots[i] = Some((H::S(IStr::from(s)), CONTENTS[c].to_vec()));
					}
				}
			}
			Op::InternBytes(c) => {
				if let Some(i) = slots.iter().position(|s| s.is_none()) {
					slots[i] = Some((H::B(IBytes::from(CONTENTS[c])), CONTENTS[c].to_vec()));
				}
			}
			Op::Clone(i) => {
				if let Some(Some((h, m))) = slots.get(i) {
					let copy = match h {
						H::S(s) => H::S(s.clone()),
						H::B(b) => H::B(b.clone()),
					};
					let m = m.clone();
					if let Some(j) = slots.iter().position(|s| s.is_none()) {
						slots[j] = Some((copy, m));
					}
				}
			}
			Op::Drop(i) => {
				if i < slots.len() {
					slots[i] = None;
				}
			}
			Op::CastBytes(i) => {
				if let Some(Some((H::S(s), m))) = slots.get(i) {
					let b = s.clone().cast_bytes();
					let m = m.clone();
					slots[i] = Some((H::B(b), m));
				}
			}
			Op::CastStr(i) => {
				if let Some(Some((H::B(b), m))) = slots.get(i) {
					let valid = std::str::from_utf8(m).is_ok();
					let r = b.clone().cast_str();
					if r.is_some() != valid {
						return Err(format!("step {k}: cast_str on {m:?} gave {:?} but the bytes are {} UTF-8", r.is_some(), if valid { "valid" } else { "invalid" }));
					}
					if let Some(s) = r {
						let m = m.clone();
						slots[i] = Some((H::S(s), m));
					}
				}
			}
			Op::Compare(i, j) => {
				if let (Some(Some((a, ma))), Some(Some((b, mb)))) = (slots.get(i), slots.get(j)) {
					let eq = match (a, b) {
						(H::S(x), H::S(y)) => x == y,
						(H::B(x), H::B(y)) => x == y,
						(H::S(x), H::B(y)) => &x.clone().cast_bytes() == y,
						(H::B(x), H::S(y)) => x == &y.clone().cast_bytes(),
					};
					if eq != (ma == mb) {
						return Err(format!("step {k}: comparing {ma:?} with {mb:?} gave {eq}"));
					}
				}
			}
			Op::HandOver => {
				let state = interop::exit_thread();
				let shuttle = Shuttle(slots, state);
				let rest: Vec<Op> = ops.to_vec();
				let r = std::thread::scope(|sc| {
					sc.spawn(move || {
						let shuttle = shuttle;
						// SAFETY: `state` comes from exit_thread and is used exactly once
						unsafe { interop::reenter_thread(shuttle.1) };
						// the new thread starts with an empty pool of its own: the baseline carries over with the moved pool
						let r = invariant(&shuttle.0, baseline_pool, k, &Op::HandOver).and_then(|()| interpret(&rest, k + 1, shuttle.0, baseline_pool));
						r
					})
					.join()
				});
				return match r {
					Ok(r) => r,
					Err(_) => Err(format!("step {k}: the thread that took over the pool panicked")),
				};
			}
		}
		invariant(&slots, baseline_pool, k, op)?;
	}
	// all handles dropped: the pool returns to the baseline
	drop(slots);
	let pool = jrsonnet_interner::verif_pool_len();
	if pool != baseline_pool {
		return Err(format!("after dropping every handle the pool holds {pool} entries (baseline {baseline_pool})"));
	}
	Ok(())
}

pub fn interner_case(src: &mut Src, max: usize) -> CaseOut {
	let ops = gen_ops(src, max);
	let text = format!("{ops:?}");
	let handover = ops.iter().any(|o| matches!(o, Op::HandOver));
	let reintern = {
		// some content interned, then later interned again
		let mut seen = std::collections::HashSet::new();
		let mut again = false;
		for o in &ops {
			if let Op::InternStr(c) | Op::InternBytes(c) = o {
				if !seen.insert(*c) {
					again = true;
				}
			}
		}
		again
	};
	let casts = ops.iter().any(|o| matches!(o, Op::CastBytes(_))) && ops.iter().any(|o| matches!(o, Op::CastStr(_)));
	// every sequence runs on a thread of its own, so that a hand-over never leaves the worker thread without its pool
	let ops2 = ops.clone();
	let r = std::thread::spawn(move || {
		guarded(|| {
			let baseline = jrsonnet_interner::verif_pool_len();
			interpret(&ops2, 0, (0..8).map(|_| None).collect(), baseline)
		})
	})
	.join();
	let mut classes = vec![];
	if handover {
		classes.push("handover".to_owned());
	}
	if reintern {
		classes.push("re-interned".to_owned());
	}
	if casts {
		classes.push("cast-both-ways".to_owned());
	}
	match r {
		Ok(Ok(Ok(()))) => CaseOut::pass(text, handover || reintern || casts).classes(classes),
		Ok(Ok(Err(e))) => CaseOut::fail(text, e).classes(classes),
		Ok(Err(p)) => CaseOut::fail(text, format!("interner panicked: {p}")).classes(classes),
		Err(_) => CaseOut::fail(text, "interner thread died".into()).classes(classes),
	}
}

fn cli_gc_case(code: &str) -> CaseOut {
	let out = std::process::Command::new("/verif/target/repo/debug/jrsonnet")
		.args(["--gc-print-stats", "--gc-collect-before-printing-stats", "--gc-collect-on-exit", "-e", "--", code])
		.output();
	match out {
		Ok(o) => {
			let err = String::from_utf8_lossy(&o.stderr);
			let tracked: Vec<&str> = err.lines().filter(|l| l.starts_with("Tracked:")).collect();
			if tracked.last().map(|l| l.trim()) == Some("Tracked: 0") {
				CaseOut::pass(format!("jrsonnet --gc-... -e {code:?}"), true).class("cli-gc")
			} else {
				CaseOut::fail(format!("jrsonnet --gc-... -e {code:?}"), format!("expected `Tracked: 0` after the final collection, stderr:\n{err}"))
			}
		}
		Err(e) => CaseOut::discard(code.to_owned(), &format!("cannot run jrsonnet: {e}")),
	}
}

pub fn run(run: &Run) {
	run.set_rule("collector: generated programs (values, errors, stack-limit hits) and 20 cycle-heavy shapes (self-referential objects, mutually recursive locals, recursive closures in arrays, cached object-local contexts, $ references, inheritance with super) are evaluated three times on one thread with the state dropped and a cycle collection after each: the number of tracked objects must not grow from the 2nd to the 3rd repetition (and the executable with --gc-collect-on-exit reports `Tracked: 0`). interner: operation sequences (intern str/bytes over a 14-string alphabet incl. empty, non-ASCII, invalid UTF-8, 300, 1023, 1024, 1025 bytes, two 2000-byte contents that differ in the last byte only, and 70 000 bytes; clone, drop, cast bytes<->str, compare, hand the pool over to another OS thread) against a model of the live handles: contents preserved, equality <=> equal contents <=> same storage, cast_str succeeds <=> valid UTF-8, pool size == baseline + number of distinct live contents after every step, back to the baseline at the end. Non-trivial: cyclic program / sequence with re-interning, casts both ways or a hand-over.");
	run.assume("hook jrsonnet_interner::verif_pool_len (cfg jrsonnet_verif) reads the size of the thread's pool");
	let opts = Opts::default();
	run.enumerate("collector-cycle-shapes", CYCLE_SHAPES.len() as u64, |i| collector_case(CYCLE_SHAPES[i as usize], &opts, true));
	run.enumerate("collector-cli", CYCLE_SHAPES.len() as u64, |i| cli_gc_case(CYCLE_SHAPES[i as usize]));
	let n = run.tier.pick(9_000, 90_000);
	run.explore("collector-programs", n, 20..=400, |src| {
		let p = gen_eval::program(src, 5, 60, 10, 0, 0);
		let e = p.closed();
		let code = ast::print_eval(&e);
		let cyclic = p.stats.recursion || p.stats.mutual || code.contains("self") || code.contains('$');
		collector_case(&code, &Opts::default(), cyclic)
	});
	let n = run.tier.pick(900, 9_000);
	run.explore("collector-stack-limited", n, 20..=200, |src| {
		let p = gen_eval::program(src, 5, 60, 5, 0, 0);
		let code = format!("local deep(n) = if n == 0 then {} else [deep(n - 1)]; deep(500)", ast::print_eval(&p.closed()));
		collector_case(&code, &Opts { max_stack: 50, ..Opts::default() }, true)
	});
	// (the same length bound in both tiers, so that a saved tape decodes identically on replay)
	let max = 120;
	let n = run.tier.pick(24_000, 500_000);
	run.explore("interner-sequences", n, 10..=500, |src| interner_case(src, max));
	run.require_class("handover", 500);
	run.require_class("re-interned", 1000);
	run.require_class("cyclic", 500);
}

pub fn replay(_run: &Run, stage: &str, tape: Option<&[u16]>, v: &Value) -> Option<CaseOut> {
	match (stage, tape) {
		("interner-sequences", Some(t)) => Some(interner_case(&mut Src::new(t), 120)),
		("collector-programs", Some(t)) => {
			let p = gen_eval::program(&mut Src::new(t), 5, 60, 10, 0, 0);
			Some(collector_case(&ast::print_eval(&p.closed()), &Opts::default(), true))
		}
		("collector-cli", _) => Some(cli_gc_case(CYCLE_SHAPES.get(v["extra"]["index"].as_u64()? as usize)?)),
		_ => Some(collector_case(v["case"].as_str()?, &Opts::default(), true)),
	}
}
