//! C01 — evaluation agrees with the Jsonnet language semantics, under every parser / call style / embedding.
use serde_json::Value;

use crate::{
	ast::{self, bx, Bind, Ex},
	core::{CaseOut, Run, Src, Verdict},
	gen_eval::{self, Program, Ty},
	jr::{self, Ext, Opts, Outcome, Parser},
	model::{self, Interp, MOut, E},
};

pub enum Cmp {
	Agree,
	Undecided(String),
	Disagree(String),
}

pub fn json_eq(a: &Value, b: &Value) -> bool {
	match (a, b) {
		(Value::Number(x), Value::Number(y)) => x.as_f64() == y.as_f64(),
		(Value::Array(x), Value::Array(y)) => x.len() == y.len() && x.iter().zip(y).all(|(p, q)| json_eq(p, q)),
		(Value::Object(x), Value::Object(y)) => x.len() == y.len() && x.iter().zip(y).all(|((k1, v1), (k2, v2))| k1 == k2 && json_eq(v1, v2)),
		(a, b) => a == b,
	}
}

/// the oracle: value <=> value with equal JSON, error <=> error, equal payload for `error` / `assert ... : msg`
pub fn compare(m: &MOut, j: &Outcome) -> Cmp {
	match (m, j) {
		(MOut::Err(e), _) if e.undecided() => Cmp::Undecided(format!("{e:?}")),
		// `string * number` (string repetition) is a jrsonnet extension outside the stated language: a program whose
		// reference run stops at exactly that operation is outside the domain
		(MOut::Err(E::Type(t)), Outcome::Val(_)) if t == "string * number" || t == "number * string" => Cmp::Undecided("string repetition extension".to_owned()),
		(_, Outcome::Panic(p)) => Cmp::Disagree(format!("jrsonnet panicked: {p}")),
		(MOut::Val(a), Outcome::Val(b)) => {
			// own strict parser: numbers are converted with correctly rounded f64::from_str on both sides
			let (Ok(x), Ok(y)) = (crate::json::parse(a), crate::json::parse(b)) else {
				return Cmp::Disagree(format!("output is not JSON: model {a} / jrsonnet {b}"));
			};
			if x.same(&y) {
				Cmp::Agree
			} else {
				Cmp::Disagree(format!("values differ: reference {a}  jrsonnet {b}"))
			}
		}
		// error <=> error.  (Which of several possible errors is reported is not part of the property; the payload is
		// compared by `compare_single_error` only for programs with exactly one failure site.)
		(MOut::Err(_), Outcome::Err(..)) => Cmp::Agree,
		(MOut::Val(a), Outcome::Err(k, msg)) => Cmp::Disagree(format!("reference yields {a} but jrsonnet fails with [{k}] {msg}")),
		(MOut::Err(e), Outcome::Val(b)) => Cmp::Disagree(format!("reference fails with {e:?} but jrsonnet yields {b}")),
	}
}

thread_local! {
	/// while set, the reference runs with the deviation model of the recorded finding C02-same-reference-equality-shortcut
	/// (used only to explain a failure that has already been observed, never to set an expectation)
	static SAME_REFERENCE_EQUAL: std::cell::Cell<bool> = const { std::cell::Cell::new(false) };
}
pub fn model_of(e: &Ex) -> MOut {
	let it = Interp::new(400_000);
	it.same_reference_equal.set(SAME_REFERENCE_EQUAL.with(|c| c.get()));
	model::run(e, &it)
}

fn ext_of(lit: &Ex, ty: &Ty, as_str: bool) -> Ext {
	match (ty, lit, as_str) {
		(Ty::Str, Ex::Str(s, _), true) => Ext::Str(s.clone()),
		_ => Ext::Code(ast::print_eval(lit)),
	}
}

pub struct Decided {
	pub problems: Vec<String>,
	pub text: String,
	pub model: MOut,
}

/// all configurations of one tape
pub fn decide(tape: &[u16], depth: usize, budget: isize) -> Result<(Decided, gen_eval::GenStats, usize), String> {
	let n_ext = (tape.first().copied().unwrap_or(0) % 3) as usize;
	let progs: Vec<Program> = (0..3u8).map(|style| gen_eval::program(&mut Src::new(tape), depth, budget, 12, style, n_ext)).collect();
	let base = progs[0].closed();
	let text = ast::print_eval(&base);
	let m = model_of(&base);
	if let MOut::Err(e) = &m {
		if e.undecided() {
			return Err(format!("reference undecided: {e:?}"));
		}
	}
	let problems: std::cell::RefCell<Vec<String>> = std::cell::RefCell::new(vec![]);
	let single_error_site = text.matches("error ").count() == 1;
	let check = |label: &str, code: &str, opts: &Opts, m: &MOut| {
		let j = jr::eval(code, opts);
		if let Cmp::Disagree(w) = compare(m, &j) {
			problems.borrow_mut().push(format!("[{label}] {w}\n    program: {code}"));
		}
		// with a single `error` expression in the program, a reported runtime error must carry exactly its payload
		if let (true, MOut::Err(E::User(p)), Outcome::Err(k, _)) = (single_error_site, m, &j) {
			if k == "RuntimeError" {
				let got = j.user_payload().unwrap_or_default();
				let want = if p.is_empty() { "\"\" (empty string)".to_owned() } else { p.clone() };
				if got != want {
					problems.borrow_mut().push(format!("[{label}] error payload differs: expected {want:?}, got {got:?}\n    program: {code}"));
				}
			}
		}
	};
	// parsers x call styles
	for (si, p) in progs.iter().enumerate() {
		let closed = p.closed();
		let code = ast::print_eval(&closed);
		// every style has its own reference run (the styles must also agree with each other, which follows)
		let ms = if si == 0 { m.clone() } else { model_of(&closed) };
		if let MOut::Err(e) = &ms {
			if e.undecided() {
				continue;
			}
		}
		if si != 0 && !same_class(&ms, &m) {
			problems.borrow_mut().push(format!("[harness] reference differs between call styles: {ms:?} vs {m:?}"));
		}
		for parser in [Parser::Ir, Parser::Peg] {
			let opts = Opts { parser, ..Opts::default() };
			check(&format!("style{si}/{parser:?}"), &code, &opts, &ms);
		}
	}
	// embeddings of the base program
	{
		let opts = Opts { as_import: Some("prog.jsonnet".to_owned()), ..Opts::default() };
		check("imported-file", &text, &opts, &m);
		let opts = Opts { ext: vec![("prog".to_owned(), Ext::Code(text.clone()))], ..Opts::default() };
		check("ext-code", "std.extVar('prog')", &opts, &m);
	}
	if n_ext > 0 {
		let p = &progs[0];
		for as_str in [false, true] {
			// external variables
			let binds: Vec<Bind> = p.ext.iter().map(|(n, _, _)| Bind::Var(n.clone(), ast::std_call("extVar", vec![ast::s(n)]))).collect();
			let code = ast::print_eval(&Ex::Local(binds, bx(p.body.clone())));
			let ext: Vec<(String, Ext)> = p.ext.iter().map(|(n, t, l)| (n.clone(), ext_of(l, t, as_str))).collect();
			check(if as_str { "ext-str" } else { "ext-code-vars" }, &code, &Opts { ext: ext.clone(), ..Opts::default() }, &m);
			// top-level arguments
			let params = p.ext.iter().map(|(n, _, _)| ast::Param { name: n.clone(), default: None }).collect();
			let code = ast::print_eval(&Ex::Func(params, bx(p.body.clone())));
			// a top-level function is called once: when the body is itself a function, wrapping it in the function
			// that takes the top-level arguments is a different program (its result is the inner function)
			let body_is_function = matches!(model::run_expr(&ast::std_call("type", vec![base.clone()]), &Interp::new(400_000)), MOut::Val(v) if v == "\"function\"");
			if !body_is_function {
				check(if as_str { "tla-str" } else { "tla-code" }, &code, &Opts { tla: ext.clone(), ..Opts::default() }, &m);
				// only the first argument is passed; the others take a default that reads the passed one
				if p.ext.len() >= 2 {
					let first = p.ext[0].0.clone();
					let params = p
						.ext
						.iter()
						.enumerate()
						.map(|(i, (n, _, l))| ast::Param {
							name: n.clone(),
							default: (i > 0).then(|| {
								let probe = Ex::Bin(ast::BinOp::Eq, bx(ast::std_call("type", vec![ast::var(&first)])), bx(ast::s("")));
								Ex::If(bx(probe), bx(Ex::Null), Some(bx(l.clone())))
							}),
						})
						.collect();
					let code = ast::print_eval(&Ex::Func(params, bx(p.body.clone())));
					let label = if as_str { "tla-str-defaults" } else { "tla-code-defaults" };
					check(label, &code, &Opts { tla: ext[..1].to_vec(), ..Opts::default() }, &m);
				}
			}
		}
	}
	let size = base.size();
	let problems = problems.into_inner();
	Ok((Decided { problems, text, model: m }, progs[0].stats.clone(), size))
}

fn same_class(a: &MOut, b: &MOut) -> bool {
	match (a, b) {
		(MOut::Val(x), MOut::Val(y)) => x == y,
		(MOut::Err(_), MOut::Err(_)) => true,
		_ => false,
	}
}

pub fn case(run: &Run, tape: &[u16], depth: usize, budget: isize) -> CaseOut {
	match decide(tape, depth, budget) {
		Err(why) => CaseOut::discard(String::new(), &why),
		Ok((d, st, size)) => {
			let mut classes = vec![];
			match &d.model {
				MOut::Val(_) => classes.push("outcome:value".to_owned()),
				MOut::Err(e) => classes.push(format!("outcome:error:{}", format!("{e:?}").split('(').next().unwrap_or(""))),
			}
			for (flag, name) in [
				(st.shadowing, "shadowing"),
				(st.mutual, "mutual-recursion"),
				(st.closure_over_loop, "closure-over-loop-var"),
				(st.default_refs_param, "default-refers-to-param"),
				(st.named_call, "named-call"),
				(st.uses_super, "super"),
				(st.plus_field, "plus-field"),
				(st.slice_step, "slice-step"),
				(st.recursion, "recursion"),
				(st.tailstrict, "tailstrict"),
				(st.objcomp, "object-comprehension"),
				(st.planted_errors > 0, "planted-error"),
			] {
				if flag {
					classes.push(name.to_owned());
				}
			}
			let nontrivial = size >= 8;
			let mut out = if d.problems.is_empty() { CaseOut::pass(d.text, nontrivial) } else { CaseOut::fail(d.text, d.problems.join("\n")) };
			// recorded finding (listed under C02): `x == x` on one and the same array/object answers true without reading
			// it.  A failing case is attributed to it iff the reference with exactly that deviation agrees everywhere.
			if !d.problems.is_empty() && run.known_listed(crate::props::c02::K_PTR_EQ) {
				SAME_REFERENCE_EQUAL.with(|c| c.set(true));
				let again = decide(tape, depth, budget);
				SAME_REFERENCE_EQUAL.with(|c| c.set(false));
				if matches!(&again, Ok((d2, _, _)) if d2.problems.is_empty()) {
					run.count_excluded(crate::props::c02::K_PTR_EQ);
					out = CaseOut::discard(out.text.clone(), "explained by the recorded finding C02-same-reference-equality-shortcut");
				}
			}
			out.classes = classes;
			out
		}
	}
}

/// relative oracle on the repository's own programs: both parsers and the import embedding agree with each other
fn repo_program_case(path: &std::path::Path) -> Option<CaseOut> {
	let code = std::fs::read_to_string(path).ok()?;
	if code.contains("import") || code.contains("test.") || code.contains("thisFile") {
		return None;
	}
	let a = jr::eval(&code, &Opts::default());
	let b = jr::eval(&code, &Opts { parser: Parser::Peg, ..Opts::default() });
	let c = jr::eval(&code, &Opts { as_import: Some("p.jsonnet".into()), ..Opts::default() });
	let name = path.file_name()?.to_string_lossy().into_owned();
	let mut problems = vec![];
	if a != b {
		problems.push(format!("default parser: {}\nlegacy parser: {}", a.short(), b.short()));
	}
	if a != c {
		problems.push(format!("snippet: {}\nimported: {}", a.short(), c.short()));
	}
	Some(if problems.is_empty() { CaseOut::pass(name, true).class("repo-program") } else { CaseOut::fail(name, problems.join("\n")) })
}

pub fn run(run: &Run) {
	run.set_rule("type-directed closed programs of the standard language (locals, closures, positional/named/default parameters, conditionals, all operators, strings, arrays and comprehensions, indexing and slicing, objects with inheritance, error and assert, bounded recursion) with deliberately ill-typed and failing sub-terms; each decided against an independent reference interpreter and evaluated under {default, legacy parser} x {drawn, positional, named call style} x {snippet, imported file, external code, external variables, top-level arguments (code and string)}. Non-trivial = at least 8 AST nodes; distinct by program text.");
	run.assume("the reference interpreter harness/src/model.rs is a faithful transcription of the Jsonnet specification for the generated subset; cases it cannot decide (fuel) are discarded and counted");
	let regs = REGRESSIONS;
	run.enumerate("regressions", regs.len() as u64, |i| {
		let code = regs[i as usize].0;
		let want = regs[i as usize].1;
		let mut problems = vec![];
		for parser in [Parser::Ir, Parser::Peg] {
			let got = jr::eval(code, &Opts { parser, ..Opts::default() });
			let ok = match (&got, want) {
				(Outcome::Val(v), Some(w)) => v == w,
				(Outcome::Err(..), None) => true,
				_ => false,
			};
			if !ok {
				problems.push(format!("{parser:?}: expected {:?}, got {}", want, got.short()));
			}
		}
		if problems.is_empty() {
			CaseOut::pass(code.to_owned(), true)
		} else {
			CaseOut::fail(code.to_owned(), problems.join("\n"))
		}
	});
	let mut files: Vec<std::path::PathBuf> = vec![];
	for dir in ["/repo/tests/suite", "/repo/tests/golden"] {
		if let Ok(rd) = std::fs::read_dir(dir) {
			files.extend(rd.filter_map(|e| e.ok()).map(|e| e.path()).filter(|p| p.extension().is_some_and(|x| x == "jsonnet")));
		}
	}
	files.sort();
	for f in &files {
		if let Some(out) = repo_program_case(f) {
			run.record("repo-programs", &out);
			if let Verdict::Fail(why) = &out.verdict {
				run.add_violation("repo-programs", &out.text, why, None, serde_json::json!({"file": f.to_string_lossy()}));
			}
		}
	}
	run.enumerate("operator-table", op_table_size(), op_table_case);
	run.enumerate("object-reuse", reuse_size(), reuse_case);
	let n = run.tier.pick(200_000, 2_000_000);
	run.explore("programs", n, 20..=400, |src| {
		// the whole tape is the case
		let tape: Vec<u16> = std::iter::from_fn(|| if src.exhausted() { None } else { Some(src.raw()) }).collect();
		case(run, &tape, 5, 60)
	});
	let n = run.tier.pick(40_000, 400_000);
	run.explore("programs-large", n, 100..=900, |src| {
		let tape: Vec<u16> = std::iter::from_fn(|| if src.exhausted() { None } else { Some(src.raw()) }).collect();
		case(run, &tape, 7, 150)
	});
	for c in ["shadowing", "mutual-recursion", "closure-over-loop-var", "default-refers-to-param", "named-call", "super", "plus-field", "slice-step", "planted-error", "outcome:value"] {
		run.require_class(c, 50);
	}
	// last clause of the property: experimental syntax against its documented desugaring (second build of the harness)
	crate::props::c01x::run(run);
}

/// operand domain of the operator tables: every type, and within a type the pairs that distinguish orderings
/// (prefixes, equal heads, different lengths, same keys / different values, hidden fields)
const OP_VALUES: &[&str] = &[
	"null", "true", "false", "0", "-0", "1", "-1", "2", "3", "0.5", "-2.5", "1e10", "''", "'a'", "'ab'", "'b'", "'A'", "'é'", "'10'", "[]", "[1]", "[1, 2]", "[1, 2, 3]", "[1, 3]",
	"[2]", "[0, 9]", "['a']", "['a', 'b']", "[[1]]", "[[1], [2]]", "[[1, 2]]", "[null]", "[1, 'a']", "[true]", "{}", "{ a: 1 }", "{ a: 1, b: 2 }", "{ a: 2 }", "{ b: 1 }",
	"{ a:: 1 }", "{ a: [1] }", "{ a: { b: 1 } }", "function(x) x",
];
fn op_table_size() -> u64 {
	let v = OP_VALUES.len() as u64;
	(ast::BinOp::ALL.len() as u64) * v * v + 4 * v
}
fn op_table_case(i: u64) -> CaseOut {
	let v = OP_VALUES.len() as u64;
	let nb = (ast::BinOp::ALL.len() as u64) * v * v;
	let lit = |k: u64| ast::parse_to_ex(OP_VALUES[k as usize]).expect("operand literal");
	let (e, cls) = if i < nb {
		let op = ast::BinOp::ALL[(i / (v * v)) as usize];
		let (a, b) = ((i / v) % v, i % v);
		(Ex::Bin(op, Box::new(lit(a)), Box::new(lit(b))), format!("op:{op:?}"))
	} else {
		let j = i - nb;
		let op = [ast::UnOp::Neg, ast::UnOp::Plus, ast::UnOp::Not, ast::UnOp::BitNot][(j / v) as usize];
		(Ex::Un(op, Box::new(lit(j % v))), format!("op:unary {}", op.sym()))
	};
	let text = ast::print_eval(&e);
	// `string % value` is std.format: decided by C12 against its own references, not by the core-language model
	if let Ex::Bin(ast::BinOp::Mod, a, _) = &e {
		if matches!(**a, Ex::Str(..)) {
			return CaseOut::discard(text, "string formatting operator (C12)");
		}
	}
	// `string * number` is a jrsonnet extension outside the stated language
	if let Ex::Bin(ast::BinOp::Mul, a, b) = &e {
		let numlike = |e: &Ex| matches!(e, Ex::Num(..)) || matches!(e, Ex::Un(_, x) if matches!(**x, Ex::Num(..)));
		if (matches!(**a, Ex::Str(..)) && numlike(b)) || (numlike(a) && matches!(**b, Ex::Str(..))) {
			return CaseOut::discard(text, "string repetition extension");
		}
	}
	let it = Interp::new(200_000);
	let m = model::run_expr(&e, &it);
	let mut problems = vec![];
	for parser in [Parser::Ir, Parser::Peg] {
		let got = jr::eval(&text, &Opts { parser, ..Opts::default() });
		match compare(&m, &got) {
			Cmp::Agree => {}
			Cmp::Undecided(w) => return CaseOut::discard(text, &w),
			Cmp::Disagree(w) => problems.push(format!("{parser:?}: {w}")),
		}
	}
	let outcome = if matches!(m, MOut::Val(_)) { "op-table:value" } else { "op-table:error" };
	if problems.is_empty() {
		CaseOut::pass(text, matches!(m, MOut::Val(_))).class(cls).class(outcome)
	} else {
		CaseOut::fail(text, problems.join("\n")).class(cls)
	}
}

/// One object *value* (with object-level locals, methods and `super` references) used several times in one inheritance
/// chain and in different chains: every occurrence has its own position (`super`), although `self` is the same.
/// `@R` is replaced by the repeated `+ m` part, `@B` by a base value.
const REUSE_TEMPLATES: &[&str] = &[
	"local m = { local s = 1, n: super.n + s }; ({ n: @B }@R).n",
	"local m = { local l = ['M'], q+: l }; ({ q: [@B] }@R).q",
	"local m = { local a = 1, f(x):: x + a, v: super.v + self.f(@B) }; ({ v: 0 }@R).v",
	"local m = { local t = 'x', o+: { local u = t, s+: u } }; ({ o: { s: '@B' } }@R).o.s",
	"local m = { local k = 'n' in super, n: if k then super.n + 1 else @B }; ({}@R).n",
	"local m = { local s = self.step, step:: 2, n: super.n + s }; [({ n: @B }@R).n, ({ n: 10 } + m).n, ({ n: 20, step:: 5 }@R).n]",
	"local m = { local z = 0, n+: 1 + z }; local o = { n: @B }@R; [o.n, (o + m).n, o.n]",
	"local m = { local w = 1, [if 'n' in super then 'n' else 'x']: w + (if 'n' in super then super.n else 0) }; ({ n: @B }@R)",
];
fn reuse_size() -> u64 {
	(REUSE_TEMPLATES.len() * 4 * 3) as u64
}
fn reuse_case(i: u64) -> CaseOut {
	let t = REUSE_TEMPLATES[(i as usize) / 12];
	let reps = (i as usize / 3) % 4 + 1;
	let base = ["0", "1", "7"][(i % 3) as usize];
	let text = t.replace("@R", &" + m".repeat(reps)).replace("@B", base);
	let Some(e) = ast::parse_to_ex(&text) else { return CaseOut::fail(text, "template does not parse".into()) };
	let m = model::run_expr(&e, &Interp::new(400_000));
	let mut problems = vec![];
	for parser in [Parser::Ir, Parser::Peg] {
		let got = jr::eval(&text, &Opts { parser, ..Opts::default() });
		match compare(&m, &got) {
			Cmp::Agree => {}
			Cmp::Undecided(w) => return CaseOut::discard(text, &w),
			Cmp::Disagree(w) => problems.push(format!("{parser:?}: {w}")),
		}
	}
	if problems.is_empty() {
		CaseOut::pass(text, reps >= 2).class("object-reuse")
	} else {
		CaseOut::fail(text, problems.join("\n")).class("object-reuse")
	}
}

const REGRESSIONS: &[(&str, Option<&str>)] = &[("1 + 2", Some("3")), ("local f(x, y=x) = x + y; f(2)", Some("4")), ("{a: 1} + {a+: 2}", Some("{\"a\":3}")), ("error 'x'", None)];

pub fn replay(run: &Run, stage: &str, tape: Option<&[u16]>, _v: &Value) -> Option<CaseOut> {
	match (stage, tape) {
		("programs", Some(t)) => Some(case(run, t, 5, 60)),
		("programs-large", Some(t)) => Some(case(run, t, 7, 150)),
		("operator-table", _) => _v["extra"]["index"].as_u64().map(op_table_case),
		("object-reuse", _) => _v["extra"]["index"].as_u64().map(reuse_case),
		(s, t) if s.starts_with("exp-") => crate::props::c01x::replay(s, t, _v),
		_ => None,
	}
}
