//! C05 — JSON manifestation is well-formed and faithful.
use jrsonnet_evaluator::{
	manifest::JsonFormat,
	val::{ArrValue, NumValue},
	ObjValueBuilder, Val,
};
use serde_json::Value;

use crate::{
	ast::{self, bx, call, num, s, std_call, var, BinOp, Bind, Comp, Ex, FieldName, Member, Param, StrStyle, Vis},
	core::{guarded, CaseOut, Run, Src},
	jr::{self, Opts},
	json::{self, J},
};

// ---------------------------------------------------------------------------------------------- generator

const STR_CLASSES: &[&str] = &["ascii", "control", "quote", "backslash", "slash", "del", "c1", "linesep", "bom", "bmp", "astral", "combining", "surrogate-adjacent"];
fn gen_char(src: &mut Src, classes: &mut Vec<&'static str>) -> char {
	let k = src.weighted(&[10, 3, 2, 2, 1, 1, 1, 1, 1, 3, 2, 1, 1]);
	classes.push(STR_CLASSES[k]);
	match k {
		0 => *src.pick(&['a', 'b', 'Z', '0', ' ', '-', '_', ':', ',', '{', '}', '[', ']', '%', '$', '<', '&']),
		1 => char::from_u32(src.below(0x20) as u32).unwrap(),
		2 => *src.pick(&['"', '\'']),
		3 => '\\',
		4 => '/',
		5 => '\u{7f}',
		6 => char::from_u32(0x80 + src.below(0x20) as u32).unwrap(),
		7 => *src.pick(&['\u{2028}', '\u{2029}', '\u{85}']),
		8 => '\u{feff}',
		9 => *src.pick(&['é', 'ß', '漢', 'Ω', 'ж', '\u{a0}']),
		10 => *src.pick(&['😀', '𝄞', '\u{10000}', '\u{10ffff}']),
		11 => '\u{301}',
		_ => *src.pick(&['\u{d7ff}', '\u{e000}', '\u{fffd}', '\u{ffff}']),
	}
}
pub fn gen_string(src: &mut Src, classes: &mut Vec<&'static str>) -> String {
	let n = match src.weighted(&[4, 12, 6, 2, 1]) {
		0 => 0,
		1 => src.range(1, 4),
		2 => src.range(5, 12),
		3 => src.range(30, 80),
		_ => {
			// long: a short generated chunk repeated to a few hundred characters
			let chunk: Vec<char> = (0..src.range(1, 6)).map(|_| gen_char(src, classes)).collect();
			let total = src.range(100, 600) as usize;
			classes.push("long-string");
			return chunk.iter().cycle().take(total).collect();
		}
	};
	(0..n).map(|_| gen_char(src, classes)).collect()
}
pub fn gen_number(src: &mut Src) -> f64 {
	match src.weighted(&[5, 3, 3, 2, 2, 2]) {
		0 => src.range(-20, 20) as f64,
		1 => *src.pick(&[0.5, -0.5, 0.1, 0.2, 0.30000000000000004, 1.0 / 3.0, 2.5, 1e-7, 1e-6, 1e21, 1e20, 123456789.125, 1e15, 1e16, 1e17]),
		2 => *src.pick(&[
			-0.0,
			9007199254740991.0,
			9007199254740992.0,
			9007199254740993.0,
			9223372036854775807.0,
			18446744073709551615.0,
			-9007199254740992.0,
			f64::MAX,
			f64::MIN,
			f64::MIN_POSITIVE,
			5e-324,
			2.2250738585072009e-308,
		]),
		3 => {
			// any finite bit pattern
			let bits = src.u64();
			let v = f64::from_bits(bits);
			if v.is_finite() {
				v
			} else {
				1.5
			}
		}
		4 => {
			// around printer notation switches
			let e = src.range(-8, 23);
			let m = src.range(1, 9999) as f64;
			m * 10f64.powi(e as i32)
		}
		_ => {
			// needs 17 significant digits
			let bits = 0x3ff0000000000000u64 + src.u32() as u64 * 1048577;
			f64::from_bits(bits)
		}
	}
}
const KEYS: &[&str] = &["a", "b", "A", "a\u{0}", "", "é", "z", "aa", "a b", "\"", "\\", "😀", "\u{ffff}", "key", "0", "10", "9"];
pub fn gen_j(src: &mut Src, depth: usize, width: usize, classes: &mut Vec<&'static str>) -> J {
	let leaf = depth == 0 || src.exhausted();
	match src.weighted(&[1, 1, 4, 4, if leaf { 0 } else { 4 }, if leaf { 0 } else { 4 }]) {
		0 => J::Null,
		1 => J::Bool(src.chance(1, 2)),
		2 => J::Num(gen_number(src)),
		3 => J::Str(gen_string(src, classes)),
		4 => {
			let n = src.below(width + 1);
			J::Arr((0..n).map(|_| gen_j(src, depth - 1, width, classes)).collect())
		}
		_ => {
			let n = src.below(width + 1);
			let mut f: Vec<(String, J)> = vec![];
			for _ in 0..n {
				let k = if src.chance(2, 3) { (*src.pick(KEYS)).to_owned() } else { gen_string(src, classes) };
				if f.iter().any(|x| x.0 == k) {
					continue;
				}
				f.push((k, gen_j(src, depth - 1, width, classes)));
			}
			J::Obj(f)
		}
	}
}

// ---------------------------------------------------------------------------------------------- constructions

fn num_ex(v: f64) -> Ex {
	if v == 0.0 && v.is_sign_negative() {
		return Ex::Un(ast::UnOp::Neg, bx(Ex::Num(0.0, Some("0".into()))));
	}
	let lit = format!("{:?}", v.abs());
	// Rust prints 1e21 as "1e21" and 1.0 as "1.0": both valid Jsonnet numbers
	let e = Ex::Num(v.abs(), Some(lit));
	if v < 0.0 {
		Ex::Un(ast::UnOp::Neg, bx(e))
	} else {
		e
	}
}
pub fn lit_ex(j: &J) -> Ex {
	match j {
		J::Null => Ex::Null,
		J::Bool(true) => Ex::True,
		J::Bool(false) => Ex::False,
		J::Num(n) => num_ex(*n),
		J::Str(t) => Ex::Str(t.clone(), StrStyle::Double),
		J::Arr(a) => Ex::Arr(a.iter().map(lit_ex).collect()),
		J::Obj(f) => Ex::Obj(f.iter().map(|(k, v)| Member::Field { name: FieldName::Str(k.clone(), StrStyle::Double), plus: false, vis: Vis::Normal, params: None, value: lit_ex(v) }).collect()),
	}
}
fn fld(k: &str, plus: bool, vis: Vis, v: Ex) -> Member {
	Member::Field { name: FieldName::Str(k.to_owned(), StrStyle::Double), plus, vis, params: None, value: v }
}
/// a lazily built expression denoting the same data
pub fn lazy_ex(j: &J, src: &mut Src) -> Ex {
	match j {
		J::Arr(a) => {
			let items: Vec<Ex> = a.iter().map(|x| lazy_ex(x, src)).collect();
			match src.below(6) {
				0 => Ex::Arr(items),
				1 => Ex::ArrComp(bx(var("x")), vec![Comp::For("x".into(), Ex::Arr(items))]),
				2 => std_call("map", vec![Ex::Func(vec![Param { name: "x".into(), default: None }], bx(var("x"))), Ex::Arr(items)]),
				3 => {
					let k = src.below(items.len() + 1);
					let (l, r) = items.split_at(k);
					Ex::Bin(BinOp::Add, bx(Ex::Arr(l.to_vec())), bx(Ex::Arr(r.to_vec())))
				}
				4 => {
					// slice of a larger array
					let mut padded = vec![s("pad")];
					padded.extend(items.iter().cloned());
					padded.push(s("pad"));
					Ex::Slice(bx(Ex::Arr(padded)), Some(bx(num(1.0))), Some(bx(num((items.len() + 1) as f64))), None)
				}
				_ => std_call("makeArray", vec![num(items.len() as f64), Ex::Func(vec![Param { name: "i".into(), default: None }], bx(Ex::Index(bx(Ex::Arr(items)), bx(var("i")))))]),
			}
		}
		J::Obj(f) => {
			let fields: Vec<(String, Ex)> = f.iter().map(|(k, v)| (k.clone(), lazy_ex(v, src))).collect();
			match src.below(7) {
				0 => Ex::Obj(fields.iter().map(|(k, v)| fld(k, false, Vis::Normal, v.clone())).collect()),
				6 => {
					// visibility folding over layers: three decoys that end up hidden in three different ways
					// (::: then ::, :: then plain :, plain : then ::); a visible decoy would fail the manifestation
					let boom = || Ex::Error(bx(s("hidden decoy must not be manifested")));
					let mut base: Vec<Member> = fields.iter().map(|(k, v)| fld(k, false, Vis::Normal, v.clone())).collect();
					base.push(fld("zz-d1", false, Vis::Unhide, boom()));
					base.push(fld("zz-d2", false, Vis::Hidden, boom()));
					base.push(fld("zz-d3", false, Vis::Normal, boom()));
					let top = vec![fld("zz-d1", false, Vis::Hidden, boom()), fld("zz-d2", false, Vis::Normal, boom()), fld("zz-d3", false, Vis::Hidden, boom())];
					Ex::Bin(BinOp::Add, bx(Ex::Obj(base)), bx(Ex::Obj(top)))
				}
				1 => {
					// inheritance: split over two layers; a hidden decoy that must not appear
					let k = src.below(fields.len() + 1);
					let (l, r) = fields.split_at(k);
					let mut left: Vec<Member> = l.iter().map(|(k, v)| fld(k, false, Vis::Normal, v.clone())).collect();
					left.push(fld("zz-decoy-hidden", false, Vis::Hidden, Ex::Error(bx(s("hidden decoy must not be manifested")))));
					let right: Vec<Member> = r.iter().map(|(k, v)| fld(k, false, Vis::Normal, v.clone())).collect();
					Ex::Bin(BinOp::Add, bx(Ex::Obj(left)), bx(Ex::Obj(right)))
				}
				2 => {
					// hidden in the base, re-exposed by :::
					let base: Vec<Member> = fields.iter().map(|(k, v)| fld(k, false, Vis::Hidden, v.clone())).collect();
					let top: Vec<Member> = fields.iter().map(|(k, _)| fld(k, false, Vis::Unhide, Ex::SuperIndex(bx(s(k))))).collect();
					Ex::Bin(BinOp::Add, bx(Ex::Obj(base)), bx(Ex::Obj(top)))
				}
				3 => {
					// computed names, locals
					let mut ms = vec![Member::Local(Bind::Var("unused".into(), Ex::Error(bx(s("unused local")))))];
					ms.extend(fields.iter().map(|(k, v)| Member::Field { name: FieldName::Dyn(s(k)), plus: false, vis: Vis::Normal, params: None, value: v.clone() }));
					Ex::Obj(ms)
				}
				4 => {
					// overridden values: the base holds junk, the layer the real data
					let base: Vec<Member> = fields.iter().map(|(k, _)| fld(k, false, Vis::Normal, Ex::Error(bx(s("overridden"))))).collect();
					let top: Vec<Member> = fields.iter().map(|(k, v)| fld(k, false, Vis::Normal, v.clone())).collect();
					Ex::ObjExt(bx(Ex::Obj(base)), bx(Ex::Obj(top)))
				}
				_ => {
					// object comprehension over key/value pairs
					let pairs = Ex::Arr(fields.iter().map(|(k, v)| Ex::Arr(vec![s(k), v.clone()])).collect());
					Ex::ObjComp {
						pre: vec![],
						name: bx(Ex::Index(bx(var("kv")), bx(num(0.0)))),
						plus: false,
						vis: Vis::Normal,
						value: bx(Ex::Index(bx(var("kv")), bx(num(1.0)))),
						post: vec![],
						specs: vec![Comp::For("kv".into(), pairs)],
					}
				}
			}
		}
		// a string put together from pieces: left-nested, right-nested or balanced `+`, or std.join (long results stay
		// unflattened concatenations inside the evaluator)
		J::Str(t) if t.chars().count() >= 2 && src.chance(1, 2) => {
			let chars: Vec<char> = t.chars().collect();
			let k = 2 + src.below(4);
			let mut cuts: Vec<usize> = (0..k - 1).map(|_| src.below(chars.len() + 1)).collect();
			cuts.push(0);
			cuts.push(chars.len());
			cuts.sort();
			let pieces: Vec<Ex> = cuts.windows(2).map(|w| Ex::Str(chars[w[0]..w[1]].iter().collect(), StrStyle::Double)).collect();
			let add = |a: Ex, b: Ex| Ex::Bin(BinOp::Add, bx(a), bx(b));
			match src.below(4) {
				0 | 1 => pieces.into_iter().reduce(add).unwrap(),
				2 => pieces.into_iter().rev().reduce(|acc, p| add(p, acc)).unwrap(),
				_ => std_call("join", vec![s(""), Ex::Arr(pieces)]),
			}
		}
		other => lit_ex(other),
	}
}
pub fn to_val(j: &J) -> Val {
	match j {
		J::Null => Val::Null,
		J::Bool(b) => Val::Bool(*b),
		J::Num(n) => Val::Num(NumValue::new(*n).expect("finite")),
		J::Str(t) => Val::string(t.as_str()),
		J::Arr(a) => Val::Arr(ArrValue::eager(a.iter().map(to_val).collect())),
		J::Obj(f) => {
			let mut b = ObjValueBuilder::new();
			for (k, v) in f {
				b.field(k.as_str()).value(to_val(v));
			}
			Val::Obj(b.build())
		}
	}
}

// ---------------------------------------------------------------------------------------------- the check

const INDENTS: &[&str] = &["", " ", "\t", "  \t ", "    "];
const NEWLINES: &[&str] = &["\n", "\r\n", " ", ""];
const SEPS: &[&str] = &[":", ": ", " : ", ":\t"];

pub fn verify_text(text: &str, want: &J, path: &str, problems: &mut Vec<String>) {
	match json::parse(text) {
		Err(e) => problems.push(format!("{path}: output is not well-formed JSON ({} at byte {}): {}", e.0, e.1, clip(text))),
		Ok(got) => {
			if !got.keys_sorted() {
				problems.push(format!("{path}: object keys are not in strictly ascending order: {}", clip(text)));
			}
			if !got.same(want) {
				problems.push(format!("{path}: reads back as a different value\n    expected {}\n    got      {}", clip(&want.to_text()), clip(&got.to_text())));
			}
		}
	}
}
fn clip(s: &str) -> String {
	if s.chars().count() > 300 {
		format!("{}…", s.chars().take(300).collect::<String>())
	} else {
		s.to_owned()
	}
}

fn str_field(v: &Value, k: &str) -> Result<String, String> {
	let e = &v[k];
	if e[0] == Value::Bool(true) {
		Ok(e[1].as_str().unwrap_or("").to_owned())
	} else {
		Err(format!("[{}] {}", e[1].as_str().unwrap_or(""), e[2].as_str().unwrap_or("")))
	}
}

pub fn check(src: &mut Src, depth: usize, width: usize) -> CaseOut {
	let mut classes: Vec<&'static str> = vec![];
	let j = gen_j(src, depth, width, &mut classes);
	let mut want = j.clone();
	want.sort_keys();
	let construction = src.below(3);
	let indent = *src.pick(INDENTS);
	let newline = *src.pick(NEWLINES);
	let sep = *src.pick(SEPS);
	let top_is_string = matches!(j, J::Str(_));
	let case_text = format!("{}   // construction {}", j.to_text(), ["literal", "lazy", "rust-api"][construction]);
	let mut problems: Vec<String> = vec![];
	let mut cls: Vec<String> = classes.iter().map(|c| format!("char:{c}")).collect();
	cls.push(format!("construction:{}", ["literal", "lazy", "rust-api"][construction]));
	let mut nums = 0;
	let mut hard_nums = 0;
	j.walk(&mut |x| {
		if let J::Num(n) = x {
			nums += 1;
			if n.fract() != 0.0 && format!("{n:?}").len() > 16 || n.abs() >= 9007199254740992.0 || (n.abs() < 1e-6 && *n != 0.0) {
				hard_nums += 1;
			}
		}
	});
	if hard_nums > 0 {
		cls.push("number:hard".into());
	}
	if nums > 0 {
		cls.push("number:any".into());
	}
	cls.sort();
	cls.dedup();
	let nontrivial = j.depth() >= 1 && (hard_nums > 0 || classes.iter().any(|c| *c != "ascii") || j.depth() >= 3);

	// --- Rust API paths (and the value for construction 3)
	let val_expr = match construction {
		0 => Some(ast::print_eval(&lit_ex(&j))),
		1 => Some(ast::print_eval(&lazy_ex(&j, src))),
		_ => None,
	};
	let api = guarded(|| -> Result<Vec<(String, String)>, String> {
		let (val, sess) = match &val_expr {
			Some(code) => {
				let (r, sess) = jr::eval_val(code, &Opts::default());
				(r.map_err(|e| format!("value expression failed: {}", e.error()))?, Some(sess))
			}
			None => (to_val(&j), None),
		};
		let _entered = sess.as_ref().map(|s| s.state.enter());
		let mut outs = vec![];
		outs.push(("Val::manifest(JsonFormat::default())".to_owned(), val.manifest(JsonFormat::default()).map_err(|e| format!("{}", e.error()))?));
		outs.push(("Val::manifest(JsonFormat::minify())".to_owned(), val.manifest(JsonFormat::minify()).map_err(|e| format!("{}", e.error()))?));
		for n in [0usize, 1, 3, 8] {
			outs.push((format!("Val::manifest(JsonFormat::cli({n}))"), val.manifest(JsonFormat::cli(n)).map_err(|e| format!("{}", e.error()))?));
		}
		Ok(outs)
	});
	match api {
		Ok(Ok(outs)) => {
			for (p, t) in outs {
				verify_text(&t, &want, &p, &mut problems);
			}
		}
		Ok(Err(e)) => problems.push(format!("Rust API path failed: {e}")),
		Err(p) => problems.push(format!("Rust API path panicked: {p}")),
	}

	// --- Jsonnet-level paths
	let vexpr = match &val_expr {
		Some(c) => c.clone(),
		None => ast::print_eval(&lit_ex(&j)),
	};
	let q = |t: &str| ast::string_literal(t, StrStyle::Double, "");
	let mut prog = format!("local v = {vexpr};\n{{\n");
	prog.push_str("  mj: verif.try(std.manifestJson(v)),\n  mjm: verif.try(std.manifestJsonMinified(v)),\n");
	prog.push_str(&format!("  ex1: verif.try(std.manifestJsonEx(v, {})),\n", q(indent)));
	prog.push_str(&format!("  ex3: verif.try(std.manifestJsonEx(v, {}, {}, {})),\n", q(indent), q(newline), q(sep)));
	prog.push_str(&format!("  ex3n: verif.try(std.manifestJsonEx(v, {}, newline={}, key_val_sep={})),\n", q(indent), q(newline), q(sep)));
	if !top_is_string {
		prog.push_str("  ts: verif.try(std.toString(v)),\n  c1: verif.try('' + v),\n  c2: verif.try(v + ''),\n  f: verif.try('%s' % [v]),\n  f2: verif.try(std.format('%s', [v])),\n");
	}
	prog.push_str("  pj_eq: verif.try(std.parseJson(std.manifestJson(v)) == v),\n");
	prog.push_str("  pj_min: verif.try(std.manifestJsonMinified(std.parseJson(std.manifestJsonMinified(v)))),\n");
	prog.push_str("  pj_ts: verif.try(std.manifestJsonMinified(std.parseJson(std.manifestJsonEx(v, '  '))) == std.manifestJsonMinified(v)),\n");
	prog.push_str("}\n");
	match jr::eval(&prog, &Opts::default()) {
		jr::Outcome::Val(out) => {
			let got: Value = serde_json::from_str(&out).unwrap_or(Value::Null);
			let mut paths = vec![("mj", "std.manifestJson(v)"), ("mjm", "std.manifestJsonMinified(v)"), ("ex1", "std.manifestJsonEx(v, indent)"), ("ex3", "std.manifestJsonEx(v, indent, newline, key_val_sep)"), ("ex3n", "std.manifestJsonEx with named arguments"), ("pj_min", "manifestJsonMinified(parseJson(manifestJsonMinified(v)))")];
			if !top_is_string {
				paths.extend([("ts", "std.toString(v)"), ("c1", "'' + v"), ("c2", "v + ''"), ("f", "'%s' % [v]"), ("f2", "std.format('%s', [v])")]);
			}
			for (k, name) in paths {
				match str_field(&got, k) {
					Ok(t) => verify_text(&t, &want, name, &mut problems),
					Err(e) => problems.push(format!("{name} failed: {e}")),
				}
			}
			for (k, name) in [("pj_eq", "std.parseJson(std.manifestJson(v)) == v"), ("pj_ts", "parseJson of the indented text re-manifests to the minified text")] {
				if got[k][0] != Value::Bool(true) || got[k][1] != Value::Bool(true) {
					problems.push(format!("{name}: expected true, got {}", got[k]));
				}
			}
		}
		o => problems.push(format!("probe program did not evaluate: {}", o.short())),
	}
	if problems.is_empty() {
		CaseOut::pass(case_text, nontrivial).classes(cls)
	} else {
		problems.truncate(10);
		CaseOut::fail(case_text, problems.join("\n")).classes(cls)
	}
}

/// values containing a function must be rejected on every path (unless the function sits in a hidden field)
pub fn reject_case(src: &mut Src) -> CaseOut {
	let mut classes = vec![];
	let j = gen_j(src, 2, 3, &mut classes);
	let position = src.below(4);
	let f = Ex::Func(vec![Param { name: "x".into(), default: None }], bx(var("x")));
	let base = lit_ex(&j);
	let (vexpr, must_reject, where_) = match position {
		0 => (f, true, "top level"),
		1 => (Ex::Arr(vec![base, f]), true, "array element"),
		2 => (Ex::Obj(vec![fld("data", false, Vis::Normal, base), fld("fn", false, Vis::Normal, f)]), true, "visible field"),
		_ => (Ex::Obj(vec![fld("data", false, Vis::Normal, base), fld("fn", false, Vis::Hidden, f)]), false, "hidden field"),
	};
	let vtext = ast::print_eval(&vexpr);
	let mut prog = format!("local v = {vtext};\n[\n");
	let paths = ["std.manifestJson(v)", "std.manifestJsonMinified(v)", "std.manifestJsonEx(v, ' ')", "std.toString(v)", "'' + v", "'%s' % [v]", "v"];
	for p in paths {
		let p = if p == "v" { "verif.tryj(v)".to_owned() } else { format!("verif.try({p})") };
		prog.push_str(&format!("  {p},\n"));
	}
	prog.push_str("]\n");
	let mut problems = vec![];
	match jr::eval(&prog, &Opts::default()) {
		jr::Outcome::Val(out) => {
			let got: Value = serde_json::from_str(&out).unwrap_or(Value::Null);
			for (i, p) in paths.iter().enumerate() {
				let ok = got[i][0] == Value::Bool(true);
				// a bare function converts to a string through toString / concatenation? no: it must fail everywhere
				if must_reject && ok {
					problems.push(format!("{p} emitted {} for a value with a function at {where_}", got[i][1]));
				}
				if !must_reject && !ok {
					problems.push(format!("{p} failed although the function is in a hidden field: {}", got[i]));
				}
			}
		}
		o => problems.push(format!("probe program did not evaluate: {}", o.short())),
	}
	let text = format!("{vtext}   // function at {where_}");
	if problems.is_empty() {
		CaseOut::pass(text, true).class(format!("function:{where_}"))
	} else {
		CaseOut::fail(text, problems.join("\n"))
	}
}

pub fn run(run: &Run) {
	run.set_rule("JSON-like trees (strings over a class-weighted alphabet: controls, quotes, backslash, slash, DEL, C1, U+2028/9, BOM, astral, combining; numbers from raw bit patterns, subnormals, +-0, integers beyond 2^53, notation-switch neighbourhoods; empty containers, look-alike keys), each built as a source literal, as a lazily computed expression (comprehension, map, concatenation, slices, inheritance with hidden decoys and ::: re-exposure, computed names) or through the Rust Val API, and manifested on every JSON path (Val::manifest default/minify/cli(n), std.manifestJson, manifestJsonMinified, manifestJsonEx with indent/newline/separator, toString, string concatenation, %s). Oracle: an independent strict RFC 8259 parser reads the text back as the same value with keys ascending; std.parseJson inverts it; values containing a function are rejected. Non-trivial = container with a non-ASCII/escaped string, a hard number or depth>=3; distinct by value text.");
	run.assume("harness/src/json.rs is a correct strict JSON parser (numbers through Rust's correctly rounded f64::from_str)");
	// regression seeds of repaired defects (known_findings.jsonl, status "fixed"): each must evaluate to true
	let regs = [
		"std.parseJson(std.manifestJson(4.461554834902824e88)) == 4.461554834902824e88",
		"std.parseJson(std.manifestJsonMinified(1.3700166914115945)) == 1.3700166914115945",
		"std.parseJson(std.manifestJsonMinified(1.7976931348623157e308)) == 1.7976931348623157e308",
		"std.parseJson(std.manifestJson([1.1261889535061583e-251, 2.1565962477601652e123])) == [1.1261889535061583e-251, 2.1565962477601652e123]",
	];
	run.enumerate("regressions", regs.len() as u64, |i| {
		let code = regs[i as usize];
		match jr::eval(code, &Opts::default()) {
			jr::Outcome::Val(v) if v == "true" => CaseOut::pass(code.to_owned(), true),
			o => CaseOut::fail(code.to_owned(), format!("expected true, got {}", o.short())),
		}
	});
	let n = run.tier.pick(300_000, 3_000_000);
	run.explore("trees", n, 10..=300, |src| check(src, 4, 5));
	let n = run.tier.pick(6_000, 60_000);
	run.explore("deep-and-wide", n, 200..=3000, |src| {
		let (d, w) = if src.chance(1, 2) { (30, 2) } else { (2, 60) };
		check(src, d, w)
	});
	let n = run.tier.pick(30_000, 300_000);
	run.explore("functions-rejected", n, 5..=80, reject_case);
	for c in ["control", "quote", "backslash", "del", "c1", "linesep", "astral", "bom"] {
		run.require_class(&format!("char:{c}"), 200);
	}
	run.require_class("number:hard", 300);
	for c in ["literal", "lazy", "rust-api"] {
		run.require_class(&format!("construction:{c}"), 300);
	}
}

pub fn replay(_run: &Run, stage: &str, tape: Option<&[u16]>, _v: &Value) -> Option<CaseOut> {
	let t = tape?;
	match stage {
		"trees" => Some(check(&mut Src::new(t), 4, 5)),
		"deep-and-wide" => {
			let mut src = Src::new(t);
			let (d, w) = if src.chance(1, 2) { (30, 2) } else { (2, 60) };
			Some(check(&mut src, d, w))
		}
		"functions-rejected" => Some(reject_case(&mut Src::new(t))),
		_ => None,
	}
}

#[allow(dead_code)]
fn unused(_: Ex) {
	let _ = call;
}
