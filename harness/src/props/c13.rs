//! C13 — standard-library object and type functions match their documented definitions.
//! Reference: the documented std.jsonnet definitions, written in Jsonnet over a handful of primitives and evaluated
//! by the harness's own interpreter (model.rs); jrsonnet's native builtins are evaluated by jrsonnet.
use serde_json::Value;

use crate::{
	ast::{self, bx, call, num, s, std_call, var, Bind, Ex, Param},
	core::{CaseOut, Run, Src, Verdict},
	jr::{self, Opts, Outcome},
	model::{self, Interp, MOut},
	props::{
		c01::{compare, Cmp},
		c02, c05,
	},
};

/// documented definitions (jsonnet.org/ref/stdlib.html, std.jsonnet), over the primitives
/// std.objectFields/objectFieldsAll/objectHas/objectHasAll/length/type and the core language
pub const REF_LIB: &str = r#"
{
  local ref = self,
  isObject(v):: std.type(v) == 'object',
  isArray(v):: std.type(v) == 'array',
  isString(v):: std.type(v) == 'string',
  isNumber(v):: std.type(v) == 'number',
  isBoolean(v):: std.type(v) == 'boolean',
  isFunction(v):: std.type(v) == 'function',
  type(v):: std.type(v),
  length(v):: std.length(v),
  objectFieldsEx(o, hidden):: if hidden then std.objectFieldsAll(o) else std.objectFields(o),
  objectHasEx(o, f, hidden):: if hidden then std.objectHasAll(o, f) else std.objectHas(o, f),
  objectFields(o):: std.objectFields(o),
  objectFieldsAll(o):: std.objectFieldsAll(o),
  objectHas(o, f):: std.objectHas(o, f),
  objectHasAll(o, f):: std.objectHasAll(o, f),
  objectValues(o):: [o[k] for k in std.objectFields(o)],
  objectValuesAll(o):: [o[k] for k in std.objectFieldsAll(o)],
  objectKeysValues(o):: [{ key: k, value: o[k] } for k in std.objectFields(o)],
  objectKeysValuesAll(o):: [{ key: k, value: o[k] } for k in std.objectFieldsAll(o)],
  get(o, f, default=null, inc_hidden=true):: if ref.objectHasEx(o, f, inc_hidden) then o[f] else default,
  mapWithKey(func, obj)::
    if !ref.isFunction(func) then error 'std.mapWithKey first param must be function'
    else if !ref.isObject(obj) then error 'std.mapWithKey second param must be object'
    else { [k]: func(k, obj[k]) for k in std.objectFields(obj) },
  mergePatch(target, patch)::
    if ref.isObject(patch) then
      local target_object = if ref.isObject(target) then target else {};
      local target_fields = std.objectFields(target_object);
      local null_fields = [k for k in std.objectFields(patch) if patch[k] == null];
      local both_fields = target_fields + [k for k in std.objectFields(patch) if !std.objectHas(target_object, k)];
      {
        [k]:
          if !std.objectHas(patch, k) then target_object[k]
          else if !std.objectHas(target_object, k) then ref.mergePatch(null, patch[k]) tailstrict
          else ref.mergePatch(target_object[k], patch[k]) tailstrict
        for k in both_fields
        if !ref.contains(null_fields, k)
      }
    else patch,
  contains(arr, x):: std.length([1 for e in arr if e == x]) > 0,
  prune(a)::
    local isContent(b) =
      if b == null then false
      else if ref.isArray(b) then std.length(b) > 0
      else if ref.isObject(b) then std.length(b) > 0
      else true;
    if ref.isArray(a) then [ref.prune(x) for x in a if isContent(ref.prune(x))]
    else if ref.isObject(a) then { [x]: ref.prune(a[x]) for x in std.objectFields(a) if isContent(ref.prune(a[x])) }
    else a,
  objectRemoveKey(obj, key):: std.objectRemoveKey(obj, key),
  equals(a, b):: a == b,
  primitiveEquals(a, b)::
    if std.type(a) != std.type(b) then false
    else if ref.isArray(a) || ref.isObject(a) || ref.isFunction(a) then error 'primitiveEquals operates on primitive types'
    else a == b,
  assertEqual(a, b):: if a == b then true else error 'Assertion failed. ' + a + ' != ' + b,
  xor(x, y):: x != y,
  xnor(x, y):: x == y,
}
"#;

thread_local! {
	static REF_EX: Ex = ast::parse_to_ex(REF_LIB).expect("reference library parses");
}

#[derive(Clone)]
pub struct Question {
	pub func: &'static str,
	pub args: Vec<Ex>,
	pub named: Vec<(String, Ex)>,
	/// observe only std.length(result) (must not force the elements) instead of the deep value
	pub shallow: bool,
	pub classes: Vec<String>,
}
impl Question {
	fn jr_expr(&self) -> Ex {
		let c = Ex::Call(bx(Ex::Dot(bx(var("std")), self.func.to_owned())), self.args.clone(), self.named.clone(), false);
		if self.shallow {
			std_call("length", vec![c])
		} else {
			c
		}
	}
	fn model_expr(&self) -> Ex {
		let c = Ex::Call(bx(Ex::Dot(bx(var("ref")), self.func.to_owned())), self.args.clone(), self.named.clone(), false);
		let body = if self.shallow { std_call("length", vec![c]) } else { c };
		REF_EX.with(|r| Ex::Local(vec![Bind::Var("ref".into(), r.clone())], bx(body)))
	}
	pub fn text(&self) -> String {
		ast::print_eval(&self.jr_expr())
	}
}

fn q(func: &'static str, args: Vec<Ex>) -> Question {
	Question { func, args, named: vec![], shallow: false, classes: vec![format!("fn:{func}")] }
}

fn gen_object(src: &mut Src, classes: &mut Vec<String>) -> Ex {
	if src.chance(3, 4) {
		let chain = c02::gen_chain(src);
		if chain.layers.len() >= 2 {
			classes.push("arg:inherited-object".into());
		}
		if chain.layers.iter().any(|l| l.kinds.iter().any(|k| *k == c02::Kind::ErrorField)) {
			classes.push("arg:object-with-failing-field".into());
		}
		if chain.layers.iter().any(|l| l.kinds.iter().any(|k| matches!(k, c02::Kind::Plain(ast::Vis::Hidden) | c02::Kind::Plus(ast::Vis::Hidden)))) {
			classes.push("arg:object-with-hidden-field".into());
		}
		c02::chain_ex(&chain)
	} else {
		let mut cl = vec![];
		let j = c05::gen_j(src, 2, 3, &mut cl);
		match j {
			crate::json::J::Obj(_) => c05::lazy_ex(&j, src),
			other => Ex::Obj(vec![ast::Member::Field { name: ast::FieldName::Id("a".into()), plus: false, vis: ast::Vis::Normal, params: None, value: c05::lit_ex(&other) }]),
		}
	}
}

/// JSON-like tree with many nulls / empties (for mergePatch and prune)
fn gen_patchy(src: &mut Src, depth: usize) -> Ex {
	let leaf = depth == 0 || src.exhausted();
	match src.weighted(&[3, 2, 2, 1, if leaf { 0 } else { 5 }, if leaf { 0 } else { 3 }]) {
		0 => Ex::Null,
		1 => num(src.range(0, 3) as f64),
		2 => s(*src.pick(&["", "x", "y"])),
		3 => {
			if src.chance(1, 2) {
				Ex::True
			} else {
				Ex::False
			}
		}
		4 => {
			let n = src.range(0, 3) as usize;
			let keys = ["a", "b", "c", "d"];
			let mut ms = vec![];
			for _ in 0..n {
				let k = *src.pick(&keys);
				if ms.iter().any(|m| matches!(m, ast::Member::Field { name: ast::FieldName::Id(x), .. } if x == k)) {
					continue;
				}
				let vis = if src.chance(1, 6) { ast::Vis::Hidden } else { ast::Vis::Normal };
				ms.push(ast::Member::Field { name: ast::FieldName::Id(k.to_owned()), plus: false, vis, params: None, value: gen_patchy(src, depth - 1) });
			}
			Ex::Obj(ms)
		}
		_ => {
			let n = src.range(0, 3);
			Ex::Arr((0..n).map(|_| gen_patchy(src, depth - 1)).collect())
		}
	}
}

fn gen_any(src: &mut Src, classes: &mut Vec<String>) -> Ex {
	match src.weighted(&[3, 2, 2, 1, 1, 2, 2, 2]) {
		0 => num(*src.pick(&[0.0, 1.0, -1.5, 1e300])),
		1 => s(*src.pick(&["", "a", "é😀", "abc"])),
		2 => Ex::Arr((0..src.range(0, 3)).map(|_| num(1.0)).collect()),
		3 => Ex::Null,
		4 => {
			if src.chance(1, 2) {
				Ex::True
			} else {
				Ex::False
			}
		}
		5 => gen_object(src, classes),
		6 => {
			let n = src.range(0, 3) as usize;
			let names = ["p", "q", "r"];
			classes.push("arg:function".into());
			Ex::Func((0..n).map(|i| Param { name: names[i].into(), default: if src.chance(1, 2) { Some(num(0.0)) } else { None } }).collect(), bx(num(1.0)))
		}
		_ => gen_patchy(src, 2),
	}
}

pub fn gen_question(src: &mut Src) -> Question {
	let mut cl = vec![];
	let key = |src: &mut Src| s(*src.pick(&["a", "b", "c", "zz", "n"]));
	let bool_ex = |src: &mut Src| if src.chance(1, 2) { Ex::True } else { Ex::False };
	let mut qu = match src.below(30) {
		0 => q("objectFields", vec![gen_object(src, &mut cl)]),
		1 => q("objectFieldsAll", vec![gen_object(src, &mut cl)]),
		2 => q("objectValues", vec![gen_object(src, &mut cl)]),
		3 => q("objectValuesAll", vec![gen_object(src, &mut cl)]),
		4 => q("objectKeysValues", vec![gen_object(src, &mut cl)]),
		5 => q("objectKeysValuesAll", vec![gen_object(src, &mut cl)]),
		6 => q("objectHas", vec![gen_object(src, &mut cl), key(src)]),
		7 => q("objectHasAll", vec![gen_object(src, &mut cl), key(src)]),
		8 => q("objectHasEx", vec![gen_object(src, &mut cl), key(src), bool_ex(src)]),
		9 => q("objectFieldsEx", vec![gen_object(src, &mut cl), bool_ex(src)]),
		10 | 11 => {
			let o = gen_object(src, &mut cl);
			let k = key(src);
			let mut qq = q("get", vec![o, k]);
			match src.below(4) {
				0 => {}
				1 => qq.args.push(s("dflt")),
				2 => {
					// a failing default: only forced when used
					qq.args.push(Ex::Error(bx(s("default was forced"))));
					qq.classes.push("get:failing-default".into());
				}
				_ => {
					qq.args.push(s("dflt"));
					if src.chance(1, 2) {
						qq.args.push(bool_ex(src));
					} else {
						qq.named.push(("inc_hidden".into(), bool_ex(src)));
					}
				}
			}
			qq
		}
		12 | 13 => {
			let f = match src.below(4) {
				0 => Ex::Func(vec![Param { name: "k".into(), default: None }, Param { name: "v".into(), default: None }], bx(var("k"))),
				1 => Ex::Func(vec![Param { name: "k".into(), default: None }, Param { name: "v".into(), default: None }], bx(Ex::Arr(vec![var("k"), var("v")]))),
				2 => Ex::Func(vec![Param { name: "k".into(), default: None }, Param { name: "v".into(), default: None }], bx(num(1.0))),
				_ => Ex::Func(vec![Param { name: "k".into(), default: None }, Param { name: "v".into(), default: None }], bx(Ex::If(bx(Ex::Bin(ast::BinOp::Eq, bx(var("k")), bx(s("b")))), bx(Ex::Error(bx(s("partial")))), Some(bx(var("v")))))),
			};
			q("mapWithKey", vec![f, gen_object(src, &mut cl)])
		}
		14 | 15 | 16 => {
			let t = if src.chance(1, 4) { gen_object(src, &mut cl) } else { gen_patchy(src, 3) };
			let p = gen_patchy(src, 3);
			cl.push("mergePatch:any".into());
			q("mergePatch", vec![t, p])
		}
		17 | 18 => q("prune", vec![if src.chance(1, 5) { gen_object(src, &mut cl) } else { gen_patchy(src, 3) }]),
		19 => q("objectRemoveKey", vec![gen_object(src, &mut cl), key(src)]),
		20 => q("length", vec![gen_any(src, &mut cl)]),
		21 => q("type", vec![gen_any(src, &mut cl)]),
		22 => q(*src.pick(&["isString", "isNumber", "isBoolean", "isObject", "isArray", "isFunction"]), vec![gen_any(src, &mut cl)]),
		23 | 24 => {
			let a = gen_any(src, &mut cl);
			let b = if src.chance(1, 2) { a.clone() } else { gen_any(src, &mut cl) };
			q("equals", vec![a, b])
		}
		25 => {
			let a = gen_any(src, &mut cl);
			let b = if src.chance(1, 2) { a.clone() } else { gen_any(src, &mut cl) };
			q("primitiveEquals", vec![a, b])
		}
		26 => {
			let a = gen_patchy(src, 1);
			let b = if src.chance(1, 2) { a.clone() } else { gen_patchy(src, 1) };
			q("assertEqual", vec![a, b])
		}
		27 => q("xor", vec![bool_ex(src), bool_ex(src)]),
		28 => q("xnor", vec![bool_ex(src), bool_ex(src)]),
		// (xor / xnor are documented for booleans only: other argument types are not generated)
		_ => q("xnor", vec![bool_ex(src), bool_ex(src)]),
	};
	// array/object results are also observed through std.length only: the definition does not force the elements
	if matches!(qu.func, "objectValues" | "objectValuesAll" | "objectKeysValues" | "objectKeysValuesAll" | "mapWithKey" | "objectRemoveKey") && src.chance(1, 2) {
		qu.shallow = true;
		qu.classes.push("observe:length-only".into());
	}
	qu.classes.extend(cl);
	qu
}

pub const K_MAPWITHKEY_STRICT: &str = "C13-mapwithkey-strict";

pub fn decide(run: &Run, qs: &[Question]) -> Vec<CaseOut> {
	let mut prog = String::from("[\n");
	for qu in qs {
		prog.push_str(&format!("  verif.tryj({}),\n", qu.text()));
	}
	prog.push_str("]\n");
	let out = jr::eval(&prog, &Opts::default());
	let got: Value = match &out {
		Outcome::Val(t) => serde_json::from_str(t).unwrap_or(Value::Null),
		o => {
			return qs.iter().map(|qu| CaseOut::fail(qu.text(), format!("batch did not evaluate: {}", o.short()))).collect();
		}
	};
	qs.iter()
		.enumerate()
		.map(|(i, qu)| {
			let m = model::run_expr(&qu.model_expr(), &Interp::new(300_000));
			let v = &got[i];
			let j = if v[0] == Value::Bool(true) {
				Outcome::Val(v[1].as_str().unwrap_or("").to_owned())
			} else {
				Outcome::Err(v[1].as_str().unwrap_or("").to_owned(), v[2].as_str().unwrap_or("").to_owned())
			};
			let text = qu.text();
			let nontrivial = qu.classes.iter().any(|c| c.starts_with("arg:") || c.starts_with("mergePatch") || c.starts_with("get:"));
			match compare(&m, &j) {
				Cmp::Agree => CaseOut::pass(text, nontrivial).classes(qu.classes.clone()),
				Cmp::Undecided(w) => CaseOut::discard(text, &w),
				Cmp::Disagree(w) => {
					// recorded finding: mapWithKey reads every field eagerly.  Signature: jrsonnet fails, the reference
					// yields a value, and forcing all visible fields of the object argument fails in the reference as well.
					if qu.func == "mapWithKey" && run.is_known(K_MAPWITHKEY_STRICT) && matches!(m, MOut::Val(_)) && j.is_err() {
						let force_all = std_call("manifestJsonMinified", vec![std_call("objectValues", vec![qu.args[1].clone()])]);
						// ... or applying the function to every field (forcing the whole result) fails in the reference
						let mut deep = qu.clone();
						deep.shallow = false;
						let eager_fails = matches!(model::run_expr(&force_all, &Interp::new(300_000)), MOut::Err(_))
							|| matches!(model::run_expr(&deep.model_expr(), &Interp::new(300_000)), MOut::Err(_));
						if eager_fails {
							return CaseOut { verdict: Verdict::Known(K_MAPWITHKEY_STRICT.to_owned()), text, nontrivial, classes: qu.classes.clone() };
						}
					}
					CaseOut::fail(text, w).classes(qu.classes.clone())
				}
			}
		})
		.collect()
}

pub fn batch_case(run: &Run, src: &mut Src) -> CaseOut {
	// one tape = one small batch of questions; the first failing question is the case's verdict
	let n = 6;
	let qs: Vec<Question> = (0..n).map(|_| gen_question(src)).collect();
	let outs = decide(run, &qs);
	// the returned case is the first failing question (or the first question); the others are recorded here
	let mut ret: Option<CaseOut> = None;
	let mut rest = vec![];
	for o in outs {
		let is_fail = matches!(o.verdict, Verdict::Fail(_));
		let ret_is_fail = ret.as_ref().is_some_and(|r| matches!(r.verdict, Verdict::Fail(_)));
		if ret.is_none() {
			ret = Some(o);
		} else if is_fail && !ret_is_fail {
			rest.push(ret.replace(o).unwrap());
		} else {
			rest.push(o);
		}
	}
	for o in &rest {
		run.record("questions", o);
	}
	ret.unwrap()
}

/// std.equals / primitiveEquals / assertEqual / == on strings depend on the contents only, not on how a string was put
/// together.  Two contents A and B (B equal to A, or differing in one character, or a proper prefix) are each built from
/// a drawn split by a drawn grouping of `+` (left-nested, right-nested, balanced), by std.join, by `%` or as a literal;
/// total lengths 0..3000 characters, so short, medium (>= 100 bytes) and long (> 1024 bytes) strings all occur.
fn string_construction_case(src: &mut Src) -> CaseOut {
	const ALPHA: &[&str] = &["a", "b", "z", "0", " ", "é", "😀", "%", "'", "\\"];
	let unit: String = (0..1 + src.below(6)).map(|_| *src.pick(ALPHA)).collect();
	let n_units = match src.below(4) {
		0 => src.below(8),
		1 => 10 + src.below(60),
		_ => 60 + src.below(400),
	};
	let a: Vec<char> = unit.chars().cycle().take(n_units * unit.chars().count().max(1)).collect();
	let relation = src.below(4);
	let b: Vec<char> = match relation {
		0 | 1 => a.clone(),
		2 if !a.is_empty() => {
			let mut b = a.clone();
			let at = match src.below(3) {
				0 => 0,
				1 => b.len() - 1,
				_ => src.below(b.len()),
			};
			b[at] = if b[at] == 'Q' { 'R' } else { 'Q' };
			b
		}
		_ => a[..a.len() - a.len().min(1)].to_vec(),
	};
	fn lit(c: &[char]) -> String {
		let mut o = String::from("'");
		for ch in c {
			match ch {
				'\'' => o.push_str("\\'"),
				'\\' => o.push_str("\\\\"),
				c => o.push(*c),
			}
		}
		o.push('\'');
		o
	}
	// a construction of the content `c`
	fn build(src: &mut Src, c: &[char]) -> (String, &'static str) {
		let k = 1 + src.below(5);
		let mut cuts: Vec<usize> = (0..k - 1).map(|_| src.below(c.len() + 1)).collect();
		cuts.push(0);
		cuts.push(c.len());
		cuts.sort();
		let pieces: Vec<String> = cuts.windows(2).map(|w| lit(&c[w[0]..w[1]])).collect();
		match src.below(6) {
			0 => (lit(c), "literal"),
			1 => (pieces.iter().skip(1).fold(pieces[0].clone(), |acc, p| format!("({acc} + {p})")), "left-nested"),
			2 => (pieces.iter().rev().skip(1).fold(pieces[pieces.len() - 1].clone(), |acc, p| format!("({p} + {acc})")), "right-nested"),
			3 => {
				fn bal(p: &[String]) -> String {
					if p.len() == 1 {
						p[0].clone()
					} else {
						format!("({} + {})", bal(&p[..p.len() / 2]), bal(&p[p.len() / 2..]))
					}
				}
				(bal(&pieces), "balanced")
			}
			4 => (format!("std.join('', [{}])", pieces.join(", ")), "join"),
			_ => (format!("('{}' % [{}])", "%s".repeat(pieces.len()), pieces.join(", ")), "format"),
		}
	}
	let (ea, ka) = build(src, &a);
	let (eb, kb) = build(src, &b);
	let eq = a == b;
	let code = format!(
		"local A = {ea}, B = {eb}; [std.equals(A, B), std.primitiveEquals(A, B), A == B, !(A != B), std.equals([A], [B]), std.equals({{ k: A }}, {{ k: B }}), std.member([A], B), std.objectHas({{ [A]: 1 }}, B), std.length(std.set([A, B])) == 1, std.length(A) == {}, std.length(B) == {}]",
		a.len(),
		b.len()
	);
	let want = format!("[{e},{e},{e},{e},{e},{e},{e},{e},{e},true,true]", e = eq);
	let bytes = a.iter().collect::<String>().len();
	let size = if bytes > 1024 { "string:longer-than-1024-bytes" } else if bytes >= 100 { "string:100-to-1024-bytes" } else { "string:short" };
	let classes = vec![format!("construction:{ka}"), format!("construction:{kb}"), size.to_owned(), format!("string-equal:{eq}")];
	let mut problems = vec![];
	match jr::eval(&code, &Opts::default()) {
		Outcome::Val(v) if v == want => {}
		other => problems.push(format!("expected {want}, got {}", other.short())),
	}
	// assertEqual succeeds exactly on equal strings
	let code2 = format!("local A = {ea}, B = {eb}; std.assertEqual(A, B)");
	match (eq, jr::eval(&code2, &Opts::default())) {
		(true, Outcome::Val(v)) if v == "true" => {}
		(false, Outcome::Err(..)) => {}
		(_, other) => problems.push(format!("std.assertEqual on {} strings: {}", if eq { "equal" } else { "different" }, other.short())),
	}
	let text = if code.len() > 1500 { format!("{}… ({} bytes; constructions {ka} / {kb}, contents {} and {} characters, equal: {eq})", &code[..code.char_indices().nth(700).map(|x| x.0).unwrap_or(code.len())], code.len(), a.len(), b.len()) } else { code.clone() };
	if problems.is_empty() {
		CaseOut::pass(text, ka != kb && bytes >= 100).classes(classes)
	} else {
		CaseOut::fail(format!("{text}\n// full program:\n{code}"), problems.join("\n")).classes(classes)
	}
}

pub fn run(run: &Run) {
	run.set_rule("calls of std.objectFields/All, objectValues/All, objectKeysValues/All, objectHas/All/Ex, objectFieldsEx, get (default present/absent/failing, inc_hidden positional and named), mapWithKey (total and partial functions), mergePatch (trees with nulls at every level, non-object targets/patches, hidden fields, inherited targets), prune, objectRemoveKey, length, type, is*, equals, primitiveEquals, assertEqual, xor, xnor on inheritance chains from the C02 generator (hidden, unhidden, +:, removed keys, failing fields, failing assertions), lazily built JSON-like objects and other values incl. functions. Reference: the documented std.jsonnet definitions written in Jsonnet over primitives and evaluated by the harness's own interpreter; array/object results are also observed through std.length only (elements must stay unevaluated). Non-trivial = inherited/hidden/failing-field object argument, a mergePatch, or a std.get with a failing default; distinct by call text.");
	run.assume("documented definitions transcribed in REF_LIB (props/c13.rs); std.objectRemoveKey follows the property's wording (mask over the layers beneath), evaluated by harness/src/model.rs");
	run.reproduce_known(|k| {
		let out = jr::eval(&k.replay, &Opts::default());
		if out.is_err() {
			CaseOut { verdict: Verdict::Known(k.id.clone()), text: k.replay.clone(), nontrivial: true, classes: vec![] }
		} else {
			CaseOut::pass(k.replay.clone(), true)
		}
	});
	let n = run.tier.pick(150_000, 1_500_000);
	run.explore("questions", n, 40..=400, |src| batch_case(run, src));
	for f in [
		"objectFields", "objectFieldsAll", "objectValues", "objectValuesAll", "objectKeysValues", "objectKeysValuesAll", "objectHas", "objectHasAll", "objectHasEx", "objectFieldsEx",
		"get", "mapWithKey", "mergePatch", "prune", "objectRemoveKey", "length", "type", "equals", "primitiveEquals", "assertEqual", "xor", "xnor",
	] {
		run.require_class(&format!("fn:{f}"), 100);
	}
	let n = run.tier.pick(4_000, 40_000);
	run.explore("string-constructions", n, 10..=60, string_construction_case);
	run.require_class("string:longer-than-1024-bytes", 200);
	run.require_class("string:100-to-1024-bytes", 200);
	run.require_class("string-equal:false", 200);
	run.require_class("arg:object-with-failing-field", 300);
	run.require_class("observe:length-only", 300);
}

pub fn replay(run: &Run, stage: &str, tape: Option<&[u16]>, _v: &Value) -> Option<CaseOut> {
	match (stage, tape) {
		("questions", Some(t)) => {
			let mut src = Src::new(t);
			let qs: Vec<Question> = (0..6).map(|_| gen_question(&mut src)).collect();
			decide(run, &qs).into_iter().find(|o| matches!(o.verdict, Verdict::Fail(_))).or_else(|| Some(CaseOut::pass("batch passes".into(), true)))
		}
		("string-constructions", Some(t)) => Some(string_construction_case(&mut Src::new(t))),
		_ => None,
	}
}

#[allow(dead_code)]
fn unused() {
	let _ = call;
}
