//! C04 — evaluation is total: a value or a Jsonnet error, never a crash.
//! Everything is evaluated in isolated worker processes (worker.rs); the oracle is the outcome class.
use std::{
	collections::BTreeMap,
	sync::{
		atomic::{AtomicU64, Ordering},
		Mutex,
	},
};

use jrsonnet_evaluator::Val;
use serde_json::{json, Value};

use crate::{
	ast,
	core::{CaseOut, Run, Src, Verdict},
	gen_eval, jr,
	props::c06,
	worker::{self, Reply},
};

pub const K_DEEP: &str = "C04-deep-nesting-overflows-native-stack";

#[derive(Clone, Debug, PartialEq)]
pub enum Out {
	Val(String),
	Err(String, String),
	Panic(String),
	/// the worker process died: (exit status, tail of its stderr)
	Crash(String, String),
	/// memory or time limit of the worker: undecided
	Resource(String),
	Infra(String),
}
impl Out {
	fn short(&self) -> String {
		match self {
			Out::Val(s) => format!("value {}", clipn(s, 200)),
			Out::Err(k, m) => format!("error [{k}] {}", clipn(m, 300)),
			Out::Panic(p) => format!("PANIC {}", clipn(p, 400)),
			Out::Crash(st, e) => format!("PROCESS DIED ({st}) {}", clipn(e, 500)),
			Out::Resource(w) => format!("resource limit ({w})"),
			Out::Infra(w) => format!("harness problem ({w})"),
		}
	}
	fn stack_overflow_crash(&self) -> bool {
		matches!(self, Out::Crash(_, e) if e.contains("overflowed its stack"))
	}
}
fn clipn(s: &str, n: usize) -> String {
	if s.chars().count() <= n {
		s.to_owned()
	} else {
		format!("{}…", s.chars().take(n).collect::<String>())
	}
}

static RESOURCE: AtomicU64 = AtomicU64::new(0);
static ASKED: AtomicU64 = AtomicU64::new(0);

fn out_of(v: &Value) -> Out {
	let t = v["t"].as_str().unwrap_or("").to_owned();
	match v["o"].as_str().unwrap_or("") {
		"val" => Out::Val(t),
		"err" => Out::Err(v["k"].as_str().unwrap_or("").to_owned(), t),
		"panic" => Out::Panic(t),
		other => Out::Infra(format!("unexpected reply {other}: {t}")),
	}
}
/// texts by which the platform reports that the worker's address-space limit was reached
fn memory_exhausted(text: &str) -> bool {
	text.contains("memory allocation of")
		|| text.contains("out of memory")
		|| text.contains("mmap failed to allocate stack")
		|| text.contains("Cannot allocate memory")
		// the interner checks the result of its own allocation with an assertion
		|| (text.contains("!data.is_null()") && text.contains("jrsonnet-interner"))
}
fn reply_out(r: Reply) -> (Out, Option<String>, Value) {
	match r {
		Reply::Ok(v) => {
			let out = out_of(&v);
			if let Out::Panic(p) = &out {
				if memory_exhausted(p) {
					// the panic leaves the worker in an undefined state: it is restarted by the next request through `retire`
					RESOURCE.fetch_add(1, Ordering::SeqCst);
					worker::retire();
					return (Out::Resource(format!("memory limit of the worker: {}", clipn(p, 160))), None, Value::Null);
				}
			}
			(out, v["canary"].as_str().map(|s| s.to_owned()), v)
		}
		Reply::Died { status, stderr } => {
			if memory_exhausted(&stderr) {
				RESOURCE.fetch_add(1, Ordering::SeqCst);
				(Out::Resource(format!("allocation failure under the worker's address-space limit: {}", clipn(&stderr, 200))), None, Value::Null)
			} else if status.starts_with("cannot start") {
				(Out::Infra(status), None, Value::Null)
			} else {
				(Out::Crash(status, stderr), None, Value::Null)
			}
		}
		Reply::Timeout => {
			RESOURCE.fetch_add(1, Ordering::SeqCst);
			(Out::Resource("time limit of the worker".into()), None, Value::Null)
		}
	}
}

#[derive(Clone, Default)]
pub struct Cfg {
	pub parser: &'static str,
	pub max_stack: usize,
	pub ext: Vec<(String, &'static str, String)>,
	pub tla: Vec<(String, &'static str, String)>,
	pub files: Vec<(String, String)>,
}
fn triples(v: &[(String, &'static str, String)]) -> Value {
	Value::Array(v.iter().map(|(a, b, c)| json!([a, b, c])).collect())
}
pub fn eval(code: &str, cfg: &Cfg, timeout_s: u64) -> (Out, Option<String>) {
	ASKED.fetch_add(1, Ordering::SeqCst);
	let req = json!({"op": "eval", "code": code, "parser": if cfg.parser.is_empty() { "ir" } else { cfg.parser },
		"max_stack": if cfg.max_stack == 0 { 200 } else { cfg.max_stack }, "ext": triples(&cfg.ext), "tla": triples(&cfg.tla),
		"files": Value::Array(cfg.files.iter().map(|(a, b)| json!([a, b])).collect())});
	let t0 = std::time::Instant::now();
	let (o, c, _) = reply_out(worker::ask(&req, timeout_s));
	if t0.elapsed().as_secs() >= 3 && std::env::var_os("C04_TRACE").is_some() {
		eprintln!("[C04] slow request ({:.1}s, {}): {}", t0.elapsed().as_secs_f64(), clipn(&o.short(), 80), clipn(code.strip_prefix(PRELUDE).unwrap_or(code), 300));
	}
	(o, c)
}

/// the verdict common to all stages: outcome classes that violate the property
fn crashes(label: &str, out: &Out, canary: &Option<String>, problems: &mut Vec<String>) {
	match out {
		Out::Panic(_) | Out::Crash(..) => problems.push(format!("{label}: {}", out.short())),
		_ => {}
	}
	if let Some(c) = canary {
		problems.push(format!("{label}: ended with {} and afterwards the same thread no longer evaluates a simple recursive program correctly: {c}", out.short()));
	}
}

// ================================================================================================ a. source text

const EXTRA_TOKENS: &[&str] = &[
	"\"abc", "'x", "|||", "|||\n t", "|||\n  t\n |||", "@\"", "@'a''b'", "1.", "1e", "1e+", "0x", "0x1F", "/*", "*/", "/* c */", "// c\n", "# c\n", "\u{0}",
	"\u{feff}", "é", "😀", "\\", "\"\\uD800\"", "\"\\u00\"", "'\\x'", "\"\\u{1}\"", "1e999", "9999999999999999999999", ".5", "1..2", "e", "_", "a.b.c", "[::]", "[1:2:3]",
	"{[x]:1}", "+:::", "?.", "??", "\r\n", "\t", "std", "std.length", "std.extVar(\"x\")", "import \"missing\"", "importstr 'a'", "importbin \"b\"", "$.a", "self.a", "super.a",
	"in super", "function(x=1)", "tailstrict", "for x in [1]", "if true", "assert false", "error 1", "local a = a;", "a.b(c)(d)", "-", "!", "~", "+", "f(x=", "f(1, y =", "function(a=", "{ a:", "local x =", "[1,", "x for",
];

/// a generated valid program that the reference interpreter finishes within its fuel (it is used only as a cost bound:
/// generated programs that loop forever through `tailstrict` would each cost a worker time-out)
fn bounded_program(src: &mut Src) -> String {
	let p = gen_eval::program(src, 4, 40, 15, 0, 0);
	let ex = p.closed();
	match crate::props::c01::model_of(&ex) {
		crate::model::MOut::Err(e) if e.undecided() => "{ a: 1, b: [self.a, 'x'] }".to_owned(),
		_ => ast::print_eval(&ex),
	}
}

fn gen_text(src: &mut Src) -> (String, &'static str) {
	match src.weighted(&[5, 4, 2, 2, 3]) {
		4 => {
			// a valid program cut off after one of its tokens (every prefix is a possible end of input)
			let text = bounded_program(src);
			let toks: Vec<String> = c06::lex_tokens(&text).into_iter().map(|t| t.1).collect();
			let keep = if toks.is_empty() { 0 } else { src.below(toks.len()) };
			(toks[..keep].join(" "), "truncated-program")
		}
		0 => {
			let n = src.range(1, 40) as usize;
			let mut toks = vec![];
			for _ in 0..n {
				if src.chance(1, 4) {
					toks.push((*src.pick(EXTRA_TOKENS)).to_owned());
				} else {
					toks.push((*src.pick(c06::FULL_ALPHABET)).to_owned());
				}
			}
			let sep = if src.chance(1, 5) { "" } else { " " };
			(toks.join(sep), "token-soup")
		}
		1 => {
			// single-token mutations of a valid program
			let text = bounded_program(src);
			let mut toks: Vec<String> = c06::lex_tokens(&text).into_iter().map(|t| t.1).collect();
			let k = src.range(1, 3);
			for _ in 0..k {
				if toks.is_empty() {
					break;
				}
				let i = src.below(toks.len());
				match src.below(5) {
					0 => {
						toks.remove(i);
					}
					1 => toks.insert(i, (*src.pick(c06::FULL_ALPHABET)).to_owned()),
					2 => toks.insert(i, (*src.pick(EXTRA_TOKENS)).to_owned()),
					3 => {
						let t = toks[i].clone();
						toks.insert(i, t);
					}
					_ => {
						let j = src.below(toks.len());
						toks.swap(i, j);
					}
				}
			}
			(toks.join(" "), "mutated-program")
		}
		2 => (crate::props::fmt::unicode_text(src), "unicode-text"),
		_ => {
			// a valid program, untouched (positive control: must be accepted)
			(bounded_program(src), "valid-program")
		}
	}
}

fn text_case(src: &mut Src) -> CaseOut {
	let (code, kind) = gen_text(src);
	let mut problems = vec![];
	let mut accepted = false;
	let mut classes = vec![kind.to_owned()];
	for parser in ["ir", "peg"] {
		let (out, canary) = eval(&code, &Cfg { parser, ..Cfg::default() }, 10);
		crashes(&format!("parser {parser}"), &out, &canary, &mut problems);
		match &out {
			Out::Val(_) => accepted = true,
			Out::Err(k, _) if k != "ImportSyntaxError" => accepted = true,
			Out::Resource(_) => classes.push("resource-undecided".into()),
			Out::Infra(w) => return CaseOut::discard(code, &format!("harness: {w}")),
			_ => {}
		}
		classes.push(format!("text:{}", match &out { Out::Val(_) => "value", Out::Err(k, _) if k == "ImportSyntaxError" => "syntax-error", Out::Err(..) => "runtime-error", _ => "other" }));
	}
	if kind == "valid-program" && !accepted {
		problems.push("a generated valid program was rejected as a syntax error by both parsers".into());
	}
	let toks = code.split_whitespace().count();
	let nontrivial = accepted || toks >= 5;
	if problems.is_empty() {
		CaseOut::pass(code, nontrivial).classes(classes)
	} else {
		CaseOut::fail(code, problems.join("\n")).classes(classes)
	}
}

// ================================================================================================ configurations

fn config_case(src: &mut Src) -> CaseOut {
	let progs = [
		"function(a, b=2) [a, b, std.extVar('x')]",
		"function(a) a + std.extVar('x')",
		"function() std.extVar('x')",
		"[std.extVar('x'), std.extVar('y')]",
		"function(a, b) { a: a, b: b, x: std.extVar('x') }",
		"local f(a) = a; f",
		"{ f(a): a }.f",
		"std.extVar('x')(1)",
		"function(a=error 'default') a",
		"function(a) function(b) a",
		"std.length",
		"std.extVar(std.extVar('x'))",
	];
	let values = [
		("str", "plain"),
		("str", ""),
		("str", "é\u{0}😀"),
		("code", "1 + 1"),
		("code", "{ a: [1, 2] }"),
		("code", "function(z) z"),
		("code", "1 +"),
		("code", "\"unterminated"),
		("code", "error 'from code'"),
		("code", "std.extVar('x')"),
		("code", "std.extVar('y')"),
		("code", "import 'missing.libsonnet'"),
		("code", "local f(n) = f(n + 1) + 1; f(0)"),
		("code", "self"),
		("code", "a"),
		("code", ""),
	];
	let prog = *src.pick(&progs);
	let mut cfg = Cfg { parser: if src.chance(1, 2) { "ir" } else { "peg" }, ..Cfg::default() };
	for name in ["x", "y"] {
		if src.chance(3, 4) {
			let (k, v) = *src.pick(&values);
			cfg.ext.push((name.to_owned(), k, v.to_owned()));
		}
	}
	for name in ["a", "b", "zz", ""] {
		if src.chance(if name == "a" { 3 } else { 1 }, 4) {
			let (k, v) = *src.pick(&values);
			cfg.tla.push((name.to_owned(), k, v.to_owned()));
		}
	}
	let text = format!("{prog}\n  ext: {:?}\n  tla: {:?}\n  parser: {}", cfg.ext, cfg.tla, cfg.parser);
	let (out, canary) = eval(prog, &cfg, 30);
	let mut problems = vec![];
	crashes("evaluation", &out, &canary, &mut problems);
	let cls = match &out {
		Out::Val(_) => "config:value",
		Out::Err(..) => "config:error",
		Out::Resource(_) => "resource-undecided",
		Out::Infra(w) => return CaseOut::discard(text, &format!("harness: {w}")),
		_ => "config:crash",
	};
	if problems.is_empty() {
		CaseOut::pass(text, !cfg.ext.is_empty() || !cfg.tla.is_empty()).class(cls)
	} else {
		CaseOut::fail(text, problems.join("\n")).class(cls)
	}
}

// ================================================================================================ c. std functions x boundary arguments

pub struct StdFn {
	pub name: String,
	/// (parameter name if any, has default)
	pub params: Vec<(Option<String>, bool)>,
}
/// read from the built library at run time: a new builtin is covered without touching the harness
pub fn std_functions() -> Vec<StdFn> {
	let (r, sess) = jr::eval_val("std", &jr::Opts::default());
	let _e = sess.state.enter();
	let mut out = vec![];
	if let Ok(Val::Obj(o)) = r {
		for name in o.fields_ex(true) {
			if let Ok(Some(Val::Func(f))) = o.get(name.clone()) {
				let params = f.params().iter().map(|p| (p.name().as_str().map(|s| s.to_owned()), p.has_default())).collect();
				out.push(StdFn { name: name.to_string(), params });
			}
		}
	}
	out.sort_by(|a, b| a.name.cmp(&b.name));
	out
}

const PRELUDE: &str = "local big = std.repeat('a', 70000), odd = 'x' + std.repeat('é', 300), arr1001 = std.range(0, 1000), o2 = { a: 1, b: 'x', c:: 2 };\n";
const ARGS: &[&str] = &[
	"null", "true", "false", "0", "-0", "1", "-1", "0.5", "-0.5", "2", "3", "7", "255", "256", "65535", "65536", "2147483647", "2147483648", "-2147483649", "4294967296",
	"9007199254740991", "9007199254740992", "9007199254740994", "1e308", "-1e308", "5e-324", "1e-7", "1e15", "''", "'a'", "'ab'", "'é'", "'😀'", "'a\\u0000b'", "'%'", "'%('",
	"'%5.3d'", "'1'", "'-'", "'0x'", "'ff'", "'{\"a\": 1}'", "'a: 1'", "'[1, '", "'\\n'", "' '", "'a,b'", "big", "odd", "[odd]", "{ a: odd, [odd]: big }", "{ a: [{ b: 1 }, 2] }", "{ a: [2, { b: 1 }] }", "{ a: [{ b: 1 }, error 'e'] }", "[{ a: 1 }, 2]", "[]", "[1]", "[1, 'a']", "[[]]", "[null]", "[3, 1, 2]",
	"['b', 'a']", "[[1, 2], [3]]", "[{ a: 1 }, { a: 2 }]", "arr1001", "std.reverse([1, 2, 3])", "[1, 2, 3, 4, 5][1:3]", "std.repeat([1, 2], 3)", "std.map(function(x) x, [1, 2])",
	"std.encodeUTF8('aé')", "std.makeArray(3, function(i) i)", "[1, error 'elem']", "[1, 2] + [3]", "{}", "{ a: 1 }", "o2", "{ a: error 'field' }", "{ assert false : 'inv', a: 1 }",
	"{ a: 1 } + { b: 2 }", "std.objectRemoveKey({ a: 1, b: 2 }, 'a')", "{ a: { b: { c: 1 } } }", "{ a: [1, { b: null }] }", "function() 1", "function(x) x", "function(x, y) x",
	"function(x, y, z) x", "function(x) error 'boom'", "function(x) 'str'", "function(x) [x]", "function(x) x > 1", "function(a, b) a < b", "function(k, v) v", "function(x) null",
	"function(x) { a: x }", "function(i) i * 2", "std.length", "std.toString",
];

fn call_text(f: &StdFn, src: &mut Src) -> String {
	let required = f.params.iter().filter(|p| !p.1).count();
	let total = f.params.len();
	// mostly a legal arity; sometimes too few / too many
	let n = match src.weighted(&[14, 1, 1]) {
		0 => src.range(required as i64, total as i64) as usize,
		1 => required.saturating_sub(1),
		_ => total + 1,
	};
	let named = src.chance(1, 4);
	let mut args = vec![];
	for i in 0..n {
		let a = *src.pick(ARGS);
		match f.params.get(i).and_then(|p| p.0.clone()) {
			Some(name) if named && src.chance(2, 3) => args.push(format!("{name}={a}")),
			_ => {
				if args.iter().any(|x: &String| x.contains('=') && !x.starts_with('\'')) {
					// positional after named is a syntax error: keep the call well formed
					let name = f.params.get(i).and_then(|p| p.0.clone()).unwrap_or_else(|| format!("p{i}"));
					args.push(format!("{name}={a}"));
				} else {
					args.push(a.to_owned());
				}
			}
		}
	}
	format!("std.{}({})", f.name, args.join(", "))
}
const FORCE: &str = "if std.type(r) == 'array' && std.length(r) > 3000 then [std.length(r), r[0], r[std.length(r) - 1]] else if std.type(r) == 'string' && std.length(r) > 200000 then std.length(r) else if std.type(r) == 'function' then std.length(r) else r";

static STD_STATS: Mutex<BTreeMap<String, (u64, u64)>> = Mutex::new(BTreeMap::new());

fn std_case(src: &mut Src, fns: &[StdFn]) -> CaseOut {
	let f = &fns[src.below(fns.len())];
	let call = call_text(f, src);
	let code = format!("{PRELUDE}local r = {call};\n{FORCE}");
	let (out, canary) = eval(&code, &Cfg::default(), 20);
	let mut problems = vec![];
	crashes("call", &out, &canary, &mut problems);
	{
		let mut st = STD_STATS.lock().unwrap();
		let e = st.entry(f.name.clone()).or_default();
		e.0 += 1;
		if matches!(out, Out::Val(_)) {
			e.1 += 1;
		}
	}
	let cls = match &out {
		Out::Val(_) => "std:value",
		Out::Err(k, _) if k == "TypeError" || k == "TypeMismatch" => "std:type-error",
		Out::Err(..) => "std:error",
		Out::Resource(_) => "resource-undecided",
		Out::Infra(w) => return CaseOut::discard(call, &format!("harness: {w}")),
		_ => "std:crash",
	};
	// reaching the function body (a value or an error other than an argument type error) is what makes a call count
	let nontrivial = matches!(cls, "std:value" | "std:error");
	if problems.is_empty() {
		CaseOut::pass(call, nontrivial).class(cls)
	} else {
		CaseOut::fail(call, problems.join("\n")).class(cls)
	}
}

// ================================================================================================ d. recursion depth sweep

const SHAPES: &[(&str, &str)] = &[
	("plain", "local f(n) = if n == 0 then 0 else 1 + f(n - 1); f(N)"),
	("mutual", "local f(n) = if n == 0 then 0 else 1 + g(n - 1), g(n) = if n == 0 then 0 else 1 + f(n - 1); f(N)"),
	("method", "local o = { f(n): if n == 0 then 0 else 1 + self.f(n - 1) }; o.f(N)"),
	("default-argument", "local f(n, m=(if n == 0 then 0 else 1 + f(n - 1))) = m; f(N)"),
	("map-callback", "local f(n) = if n == 0 then 0 else 1 + std.map(f, [n - 1])[0]; f(N)"),
	("foldl-callback", "local f(n) = if n == 0 then 0 else std.foldl(function(a, x) a + 1 + f(x), [n - 1], 0); f(N)"),
	("comprehension", "local f(n) = if n == 0 then 0 else 1 + [f(x) for x in [n - 1]][0]; f(N)"),
	("object-inheritance", "local f(n) = if n == 0 then { v: 0 } else f(n - 1) + { v: super.v + 1 }; f(N).v"),
	("lazy-accumulator", "local f(n, acc) = if n == 0 then acc else f(n - 1, acc + 1); f(N, 0)"),
	("array-elements", "local f(n) = if n == 0 then [0] else [f(n - 1)[0] + 1]; f(N)[0]"),
	("comprehension-elements", "local f(n) = if n == 0 then [0] else [f(n - 1)[0] + 1 for _ in [0]]; f(N)[0]"),
	("object-fields", "local f(n) = if n == 0 then { a: 0 } else { a: f(n - 1).a + 1 }; f(N).a"),
	("object-comprehension-fields", "local f(n) = if n == 0 then { a: 0 } else { [k]: f(n - 1).a + 1 for k in ['a'] }; f(N).a"),
	("string-concat", "local f(n) = if n == 0 then '' else 'a' + f(n - 1); std.length(f(N))"),
	("local-chain", "local f(n) = local m = n - 1; if n == 0 then 0 else 1 + f(m); f(N)"),
];

fn limits(run: &Run) -> Vec<usize> {
	run.tier.pick(vec![50, 200, 512, 5000], vec![50, 200, 512, 5000, 200_000])
}
/// (shape, limit, depth, must succeed)
fn sweep_points(run: &Run) -> Vec<(usize, usize, usize, bool)> {
	let mut v = vec![];
	for s in 0..SHAPES.len() {
		for l in limits(run) {
			// shapes of the recorded finding K_LAZY are not stopped at all: deep instances only cost time and memory
			if LAZY_MEMBER_SHAPES.contains(&SHAPES[s].0) && l > 512 {
				continue;
			}
			for (n, ok) in [(l / 32, true), (l / 16, true), (2 * l, false), (16 * l, false)] {
				v.push((s, l, n.max(1), ok));
			}
		}
	}
	v
}
pub const K_LAZY: &str = "C04-recursion-through-lazy-members-not-limited";
pub const K_DROP: &str = "C04-deep-value-chain-drop-overflows-native-stack";
/// shapes whose depth grows only by forcing lazy members (recorded finding K_LAZY: they are not counted as frames)
const LAZY_MEMBER_SHAPES: &[&str] = &["array-elements", "map-callback", "comprehension-elements", "object-fields", "object-comprehension-fields"];

fn sweep_case(run: &Run, s: usize, l: usize, n: usize, must_succeed: bool) -> CaseOut {
	let (name, tmpl) = SHAPES[s];
	let code = tmpl.replace('N', &n.to_string());
	let text = format!("[{name}, frame limit {l}, depth {n}] {code}");
	let mut problems = vec![];
	let mut known_hit = false;
	let mut known_drop = false;
	for parser in ["ir", "peg"] {
		let (out, canary) = eval(&code, &Cfg { parser, max_stack: l, ..Cfg::default() }, 300);
		// recorded finding: with the frame limit raised to 200000 a chain of >= 10^5 nested thunks / contexts is built
		// and the process dies in its recursive drop
		if l >= 200_000 && name == "lazy-accumulator" && matches!(out, Out::Crash(..)) && run.is_known(K_DROP) {
			known_drop = true;
			continue;
		}
		crashes(&format!("parser {parser}"), &out, &canary, &mut problems);
		match (&out, must_succeed) {
			(Out::Val(v), true) => {
				if v.trim() != n.to_string() {
					problems.push(format!("recursion of depth {n} under frame limit {l} gave {v} instead of {n}"));
				}
			}
			(Out::Err(k, m), true) => problems.push(format!("recursion of depth {n}, well below the frame limit {l}, failed: [{k}] {}", clipn(m, 200))),
			(Out::Err(k, _), false) if k == "StackOverflow" => {}
			(Out::Err(k, m), false) => problems.push(format!("runaway recursion (depth {n}, frame limit {l}) ended with [{k}] {} instead of the stack overflow error", clipn(m, 200))),
			// recorded finding: recursion through lazy members is not counted; the value must still be the right one
			(Out::Val(v), false) if LAZY_MEMBER_SHAPES.contains(&name) && run.is_known(K_LAZY) && v.trim() == n.to_string() => known_hit = true,
			(Out::Val(v), false) => problems.push(format!("recursion of depth {n} succeeded ({}) although the frame limit is {l}", clipn(v, 50))),
			(Out::Resource(_), false) if LAZY_MEMBER_SHAPES.contains(&name) && run.is_known(K_LAZY) => known_hit = true,
			(Out::Resource(w), _) => return CaseOut::discard(text, &format!("resource: {w}")),
			(Out::Infra(w), _) => return CaseOut::discard(text, &format!("harness: {w}")),
			_ => {}
		}
	}
	let cls = format!("sweep:{}", if must_succeed { "below-limit" } else { "above-limit" });
	if problems.is_empty() {
		let mut c = CaseOut::pass(text, true).class(cls);
		if known_hit {
			c.verdict = Verdict::Known(K_LAZY.to_owned());
		}
		if known_drop {
			c.verdict = Verdict::Known(K_DROP.to_owned());
		}
		c
	} else {
		CaseOut::fail(text, problems.join("\n")).class(cls)
	}
}

/// the same sweep through the executable's own options: `-s/--max-stack L` (default 512 when absent) with and
/// without `--os-stack` (evaluation on a spawned thread)
fn cli_sweep_points() -> Vec<(usize, Option<usize>, bool, usize, bool)> {
	let mut v = vec![];
	for name in ["plain", "mutual", "method", "foldl-callback", "local-chain"] {
		let s = SHAPES.iter().position(|x| x.0 == name).expect("shape");
		for limit in [None, Some(50usize), Some(2000)] {
			for os_stack in [false, true] {
				let l = limit.unwrap_or(512);
				for (n, ok) in [(l / 16, true), (l / 2 + l / 8, true), (2 * l, false)] {
					// depths between the library default (200) and the configured limit matter: `l/2 + l/8`
					if SHAPES[s].0 != "plain" && n > l / 16 && ok {
						continue;
					}
					v.push((s, limit, os_stack, n.max(1), ok));
				}
			}
		}
	}
	v
}
fn cli_sweep_case(s: usize, limit: Option<usize>, os_stack: bool, n: usize, must_succeed: bool) -> CaseOut {
	let (name, tmpl) = SHAPES[s];
	let code = tmpl.replace('N', &n.to_string());
	let mut args: Vec<String> = vec![];
	if let Some(l) = limit {
		args.push("--max-stack".into());
		args.push(l.to_string());
	}
	if os_stack {
		args.push("--os-stack".into());
		args.push("16".into());
	}
	let text = format!("jrsonnet {} -e '{code}'   [{name}, depth {n}]", args.join(" "));
	args.push("-e".into());
	args.push(code);
	let out = match std::process::Command::new("/verif/target/repo/debug/jrsonnet").args(&args).output() {
		Ok(o) => o,
		Err(e) => return CaseOut::discard(text, &format!("cannot run the executable: {e}")),
	};
	let (so, se) = (String::from_utf8_lossy(&out.stdout).into_owned(), String::from_utf8_lossy(&out.stderr).into_owned());
	let mut problems = vec![];
	match (out.status.code(), must_succeed) {
		(Some(0), true) => {
			if so.trim() != n.to_string() {
				problems.push(format!("printed {} instead of {n}", clipn(so.trim(), 60)));
			}
		}
		(Some(0), false) => problems.push(format!("recursion of depth {n} succeeded ({}) although the frame limit is {}", clipn(so.trim(), 40), limit.unwrap_or(512))),
		(Some(1), false) if se.contains("stack overflow") => {}
		(Some(1), true) => problems.push(format!("recursion of depth {n}, below the frame limit {}, failed: {}", limit.unwrap_or(512), clipn(se.trim(), 200))),
		(code, _) => problems.push(format!("unexpected exit status {code:?}: {}", clipn(se.trim(), 300))),
	}
	if problems.is_empty() {
		CaseOut::pass(text, true).class(if os_stack { "cli-sweep:os-stack" } else { "cli-sweep:main-thread" })
	} else {
		CaseOut::fail(text, problems.join("\n")).class("cli-sweep")
	}
}

// ================================================================================================ e. self-dependent values

fn wrap_ref(src: &mut Src, r: &str) -> String {
	match src.below(8) {
		0 => format!("{r} + 1"),
		1 => format!("[{r}][0]"),
		// (inside a new object `self` would be that object)
		2 if !r.starts_with("self") => format!("{{ x: {r} }}.x"),
		3 => format!("if {r} == 1 then 1 else 2"),
		4 => format!("std.length({r})"),
		5 => format!("(function(v) v)({r})"),
		6 => format!("local t = {r}; t"),
		_ => r.to_owned(),
	}
}
/// returns (program, files, description); `broken` replaces the closing edge of the cycle by a constant (control)
fn cycle_program(src: &mut Src, broken: bool) -> (String, Vec<(String, String)>, &'static str) {
	let k = src.range(1, 4) as usize;
	let kind = src.below(11);
	let mut refs: Vec<String> = vec![];
	let name = |i: usize| match kind {
		0 => format!("v{i}"),
		1 | 5 | 7 => format!("self.f{i}"),
		2 | 8 | 9 | 10 => format!("arr[{i}]"),
		3 => format!("p{i}"),
		4 => format!("$.f{i}"),
		_ => format!("(import 'n{i}.libsonnet')"),
	};
	for i in 0..k {
		let target = (i + 1) % k;
		let r = if broken && i == k - 1 { "[1]".to_owned() } else { name(target) };
		// the wrapped reference must stay lazy-compatible with every wrapper: constants are arrays of length one
		refs.push(if broken && i == k - 1 { r } else { wrap_ref(src, &r) });
	}
	match kind {
		0 => (format!("local {}; v0", (0..k).map(|i| format!("v{i} = {}", refs[i])).collect::<Vec<_>>().join(", ")), vec![], "locals"),
		1 => (format!("{{ {} }}.f0", (0..k).map(|i| format!("f{i}: {}", refs[i])).collect::<Vec<_>>().join(", ")), vec![], "fields-through-self"),
		2 => (format!("local arr = [{}]; arr[0]", refs.join(", ")), vec![], "array-elements"),
		3 => (format!("local f({}) = p0; f()", (0..k).map(|i| format!("p{i}={}", refs[i])).collect::<Vec<_>>().join(", ")), vec![], "default-arguments"),
		4 => (format!("{{ {} }}.f0", (0..k).map(|i| format!("f{i}: {}", refs[i])).collect::<Vec<_>>().join(", ")), vec![], "fields-through-dollar"),
		5 => (
			format!("{{ local l = self.f0, {}, g: l }}.g", (0..k).map(|i| format!("f{i}: {}", refs[i])).collect::<Vec<_>>().join(", ")),
			vec![],
			"object-local-and-fields",
		),
		// the cycle is first entered by an object assertion
		7 => (
			format!("{{ {}, assert std.type(self.f0) != 'boolean' : 'inv' }}.f{}", (0..k).map(|i| format!("f{i}: {}", refs[i])).collect::<Vec<_>>().join(", "), k - 1),
			vec![],
			"fields-read-by-assertion",
		),
		// elements computed by a function (std.makeArray / std.map / std.mapWithIndex) that read each other
		8 => (format!("local arr = std.makeArray({k}, function(i) [{}][i]); arr[0]", refs.join(", ")), vec![], "makeArray-elements"),
		9 => (format!("local arr = std.map(function(i) [{}][i], std.range(0, {})); arr[0]", refs.join(", "), k - 1), vec![], "map-elements"),
		10 => (format!("local arr = std.mapWithIndex(function(i, x) [{}][i], std.range(1, {k})); arr[0]", refs.join(", ")), vec![], "mapWithIndex-elements"),
		_ => ("import 'n0.libsonnet'".to_owned(), (0..k).map(|i| (format!("n{i}.libsonnet"), refs[i].clone())).collect(), "imports"),
	}
}
fn cycle_case(src: &mut Src) -> CaseOut {
	let broken = src.chance(1, 4);
	let tape_pos = src.consumed();
	let _ = tape_pos;
	let (code, files, kind) = cycle_program(src, broken);
	let text = format!("{code}{}", files.iter().map(|(n, c)| format!("\n  {n}: {c}")).collect::<String>());
	let mut problems = vec![];
	for parser in ["ir", "peg"] {
		if parser == "peg" && !files.is_empty() {
			continue; // imported files are always read by the default parser
		}
		let (out, canary) = eval(&code, &Cfg { parser, files: files.clone(), ..Cfg::default() }, 30);
		crashes(&format!("parser {parser}"), &out, &canary, &mut problems);
		match (&out, broken) {
			(Out::Err(k, _), false) if k == "InfiniteRecursionDetected" => {}
			(Out::Err(k, m), false) => problems.push(format!("a value that depends on itself was reported as [{k}] {} instead of infinite recursion", clipn(m, 200))),
			(Out::Val(v), false) => problems.push(format!("a value that depends on itself evaluated to {}", clipn(v, 100))),
			(Out::Val(_), true) => {}
			// wrappers like `+ 1` on the constant [1] legitimately fail with a type error; what must not happen is a cycle report
			(Out::Err(k, m), true) if k == "InfiniteRecursionDetected" || k == "StackOverflow" => {
				problems.push(format!("control without a cycle was reported as [{k}] {}", clipn(m, 200)))
			}
			(Out::Err(..), true) => {}
			(Out::Resource(w), _) => return CaseOut::discard(text, &format!("resource: {w}")),
			(Out::Infra(w), _) => return CaseOut::discard(text, &format!("harness: {w}")),
			_ => {}
		}
	}
	let cls = vec![format!("cycle:{kind}"), (if broken { "cycle:control" } else { "cycle:closed" }).to_owned()];
	if problems.is_empty() {
		CaseOut::pass(text, true).classes(cls)
	} else {
		CaseOut::fail(text, problems.join("\n")).classes(cls)
	}
}

// ================================================================================================ f. histories on one thread

const HISTORY_ITEMS: &[(&str, usize, &str)] = &[
	("1 + 1", 200, "value"),
	("{ a: [1, 2, { b: 'x' }], c: self.a[0] }", 200, "value"),
	("std.foldl(function(a, b) a + b, std.range(1, 100), 0)", 200, "value"),
	("local f(n) = if n == 0 then 0 else 1 + f(n - 1); f(100)", 200, "value"),
	("import 'ok.libsonnet'", 200, "value"),
	("error 'user error'", 200, "error"),
	("1 + {}", 200, "error"),
	("[1, 2][5]", 200, "error"),
	("{ a: 1 }.b", 200, "error"),
	("std.length(1)", 200, "error"),
	("local f(n) = f(n + 1) + 1; f(0)", 200, "stack-limit"),
	("local f(n) = [f(n + 1)]; std.length(std.toString(f(0)))", 50, "stack-limit"),
	("local o = { f(n): self.f(n + 1) + 1 }; o.f(0)", 512, "stack-limit"),
	("local a = b, b = a; a", 200, "infinite-recursion"),
	("{ a: self.b, b: self.a }.a", 200, "infinite-recursion"),
	("local arr = [arr[0]]; arr[0]", 200, "infinite-recursion"),
	("{ assert false : 'invariant', a: 1 }.a", 200, "assertion"),
	("{ assert self.a > 1, a: 1 }", 200, "assertion"),
	("local o = { assert self.x == 1, x: 1 }; [o.x, (o { x: 2 }).x]", 200, "assertion"),
	("import 'missing.libsonnet'", 200, "import"),
	("import 'broken.libsonnet'", 200, "import"),
	("import 'failing.libsonnet'", 200, "import"),
	("import 'cycle.libsonnet'", 200, "import"),
	("importstr 'missing.txt'", 200, "import"),
	("std.extVar('nope')", 200, "error"),
	("std.parseJson('{')", 200, "error"),
	("'%d' % 'x'", 200, "error"),
	("std.manifestIni(1)", 200, "error"),
	// recursion just below the frame limit: must keep working however many earlier evaluations hit the limit
	// (frame limit 0 = the thread's own default of 200 frames counted from depth zero, as in a one-shot run: a limit
	// set relative to the current depth would hide a frame leaked by an earlier stack-limit hit)
	("local f(n) = if n == 0 then 0 else 1 + f(n - 1); f(185)", 0, "near-limit"),
	("local f(n) = if n == 0 then 0 else 1 + f(n - 1); f(192)", 0, "near-limit"),
	("local f(n) = if n == 0 then 0 else 1 + f(n - 1); f(195)", 0, "near-limit"),
	("local f(n) = if n == 0 then 0 else 1 + f(n - 1); f(197)", 0, "near-limit"),
	("local f(n) = f(n + 1) + 1; f(0)", 0, "stack-limit"),
	("local f(n) = if n == 0 then 0 else 1 + f(n - 1); f(45)", 50, "near-limit"),
	("1 +", 200, "syntax"),
	("{ a: 1 } { b: }", 200, "syntax"),
];
const HISTORY_FILES: &[(&str, &str)] = &[
	("ok.libsonnet", "{ lib: 1 }"),
	("broken.libsonnet", "{ a: "),
	("failing.libsonnet", "error 'inside import'"),
	("cycle.libsonnet", "import 'cycle.libsonnet'"),
];

fn history_case(src: &mut Src) -> CaseOut {
	let n = src.range(5, 30) as usize;
	let items: Vec<&(&str, usize, &str)> = (0..n).map(|_| src.pick(HISTORY_ITEMS)).collect();
	let shared = src.chance(1, 2);
	let text = format!("{} state:\n{}", if shared { "one long-lived" } else { "a fresh" }, items.iter().map(|i| format!("  {} (frame limit {})", i.0, i.1)).collect::<Vec<_>>().join("\n"));
	ASKED.fetch_add(1, Ordering::SeqCst);
	let req = json!({"op": "history", "shared": shared, "items": items.iter().map(|i| json!([i.0, i.1])).collect::<Vec<_>>(),
		"files": HISTORY_FILES.iter().map(|(a, b)| json!([a, b])).collect::<Vec<_>>()});
	let (out, _, v) = reply_out(worker::ask(&req, 120));
	let mut problems = vec![];
	let mut classes: Vec<String> = items.iter().map(|i| format!("history:{}", i.2)).collect();
	classes.sort();
	classes.dedup();
	classes.push((if shared { "history:shared-state" } else { "history:fresh-states" }).to_owned());
	match &out {
		Out::Crash(..) | Out::Panic(_) => problems.push(format!("history: {}", out.short())),
		Out::Resource(w) => return CaseOut::discard(text, &format!("resource: {w}")),
		_ => {}
	}
	if v["o"].as_str() == Some("history") {
		let inside = v["inside"].as_array().cloned().unwrap_or_default();
		let alone = v["alone"].as_array().cloned().unwrap_or_default();
		for (i, (a, b)) in inside.iter().zip(&alone).enumerate() {
			let (oa, ob) = (out_of(a), out_of(b));
			if matches!(oa, Out::Panic(_)) {
				problems.push(format!("item {i} `{}` panicked inside the history: {}", items[i].0, oa.short()));
			}
			if oa != ob {
				problems.push(format!("item {i} `{}` behaves differently after the preceding evaluations on the same thread:\n    inside the history: {}\n    alone on a new thread: {}", items[i].0, oa.short(), ob.short()));
			}
			let want_value = items[i].2 == "value";
			// (whether a recursion that close to the limit fits is not pinned down; it must only not depend on history)
			if items[i].2 != "near-limit" && want_value != matches!(ob, Out::Val(_)) {
				problems.push(format!("item {i} `{}` alone gives {} (expected {})", items[i].0, ob.short(), if want_value { "a value" } else { "an error" }));
			}
		}
		if let Some(c) = v["canary"].as_str() {
			problems.push(format!("after the history the thread no longer evaluates a simple recursive program correctly: {c}"));
		}
	} else if problems.is_empty() {
		return CaseOut::discard(text, &format!("harness: {}", out.short()));
	}
	problems.truncate(4);
	if problems.is_empty() {
		CaseOut::pass(text, true).classes(classes)
	} else {
		CaseOut::fail(text, problems.join("\n")).classes(classes)
	}
}

// ================================================================================================ nesting depth

const NEST: &[(&str, &str, &str, &str)] = &[
	("brackets", "[", "1", "]"),
	("parentheses", "(", "1", ")"),
	("objects", "{a:", "1", "}"),
	("conditionals", "if true then ", "1", " else 0"),
	("locals", "local a = 1; ", "a", ""),
	("unary", "-", "1", ""),
	("functions", "function() ", "1", ""),
	("errors", "[error ", "1", "]"),
	("comprehensions", "[", "1", " for x in [1]]"),
	("index", "[", "0", "][0]"),
];
const CHAINS: &[(&str, &str, &str)] = &[("addition", "1", " + 1"), ("string-concat", "'a'", " + 'a'"), ("object-plus", "{ a: 1 }", " + { a+: 1 }"), ("array-plus", "[1]", " + [1]"), ("logical", "true", " && true"), ("comparison-mix", "1", " * 1 + 0")];

fn nest_text(i: usize, d: usize) -> String {
	let (_, open, mid, close) = NEST[i];
	format!("{}{}{}", open.repeat(d), mid, close.repeat(d))
}
/// nesting up to 150 levels and operator chains up to 30000 terms must be handled (value or error, no crash)
fn depth_points() -> Vec<(bool, usize, usize)> {
	let mut v = vec![];
	for i in 0..NEST.len() {
		for d in [10, 50, 100, 150] {
			v.push((true, i, d));
		}
	}
	for i in 0..CHAINS.len() {
		// concatenating arrays / objects is quadratic in the chain length (no crash, only time): shorter chains there
		let quadratic = matches!(CHAINS[i].0, "array-plus" | "object-plus");
		for d in if quadratic { [100, 300, 1000, 3000] } else { [100, 1000, 10000, 30000] } {
			v.push((false, i, d));
		}
	}
	v
}
fn depth_case(nest: bool, i: usize, d: usize) -> CaseOut {
	let (name, code) = if nest { (NEST[i].0, nest_text(i, d)) } else { (CHAINS[i].0, format!("{}{}", CHAINS[i].1, CHAINS[i].2.repeat(d))) };
	let text = format!("[{} {name} x {d}] {}", if nest { "nesting" } else { "chain" }, clipn(&code, 120));
	let mut problems = vec![];
	for parser in ["ir", "peg"] {
		// the legacy parser needs time exponential in the nesting depth of array comprehensions (about 5 s at depth 14):
		// a time problem, not a crash, so it is left out here and described in DESIGN.md
		if parser == "peg" && nest && NEST[i].0 == "comprehensions" && d > 10 {
			continue;
		}
		let (out, canary) = eval(&code, &Cfg { parser, max_stack: 200_000, ..Cfg::default() }, 300);
		crashes(&format!("parser {parser}"), &out, &canary, &mut problems);
		match &out {
			Out::Resource(w) => return CaseOut::discard(text, &format!("resource: {w}")),
			Out::Infra(w) => return CaseOut::discard(text, &format!("harness: {w}")),
			Out::Err(k, m) if !nest => problems.push(format!("a chain of {d} operators failed: [{k}] {}", clipn(m, 200))),
			_ => {}
		}
	}
	if problems.is_empty() {
		CaseOut::pass(text, true).class(if nest { "depth:nesting" } else { "depth:chain" })
	} else {
		CaseOut::fail(text, problems.join("\n")).class("depth:crash")
	}
}

/// reproducer text of the recorded finding: "<shape> <depth>"
fn known_case(run: &Run, replay: &str) -> CaseOut {
	if let Some(shape) = replay.trim().strip_prefix("drop ") {
		// reproducer of the drop finding: 150000 levels under a frame limit of 200000 (well below it: must give the value)
		if let Some(s) = SHAPES.iter().position(|s| s.0 == shape) {
			return sweep_case(run, s, 200_000, 150_000, true);
		}
	}
	if let Some(s) = SHAPES.iter().position(|s| s.0 == replay.trim()) {
		// reproducer of the recursion finding: that shape, 16 times deeper than a frame limit of 50
		return sweep_case(run, s, 50, 800, false);
	}
	let mut it = replay.split_whitespace();
	let shape = it.next().unwrap_or("brackets");
	let d: usize = it.next().and_then(|x| x.parse().ok()).unwrap_or(100_000);
	let code = match NEST.iter().position(|n| n.0 == shape) {
		Some(i) => nest_text(i, d),
		None => match CHAINS.iter().find(|c| c.0 == shape) {
			Some(c) => format!("{}{}", c.1, c.2.repeat(d)),
			None => return CaseOut::fail(replay.to_owned(), format!("unknown reproducer shape {shape}")),
		},
	};
	let text = format!("[{shape} x {d}]");
	let (out, _) = eval(&code, &Cfg { max_stack: 200_000, ..Cfg::default() }, 600);
	if out.stack_overflow_crash() && d >= 1000 && run.is_known(K_DEEP) {
		let mut c = CaseOut::pass(text, true);
		c.verdict = Verdict::Known(K_DEEP.to_owned());
		c
	} else {
		match out {
			Out::Crash(..) | Out::Panic(_) => CaseOut::fail(text, out.short()),
			_ => CaseOut::pass(text, true),
		}
	}
}

// ================================================================================================ driver

pub fn run(run: &Run) {
	run.set_rule("every case is evaluated in an isolated worker process on a thread with the 8 MiB stack of the real executable; outcome classes value / Jsonnet error are fine, a panic, a fatal signal, a native stack overflow or a damaged thread (canary program fails afterwards) is a violation, a memory or time limit is undecided. Non-trivial: source text accepted by a parser or of >= 5 tokens; a std call that reaches the function body (value or non-type error); every recursion-sweep, cycle, history and depth case.");
	run.assume("worker address-space limit 6 GiB and per-request time limits (20-600 s): cases that hit them are counted as undecided, never as violations");
	run.assume("frame sizes are those of this build profile (opt-level 1, debug assertions on); nesting depths asserted to work (150 levels) are far below what the pinned debug executable handles (300)");
	let fns = std_functions();
	if fns.len() < 100 {
		run.infra(format!("only {} std functions discovered", fns.len()));
	}
	run.note(format!("{} std functions read from the built library", fns.len()));

	let t0 = std::time::Instant::now();
	let mark = |s: &str| eprintln!("[C04] {s} done at {:.0}s", t0.elapsed().as_secs_f64());
	run.reproduce_known(|k| known_case(run, &k.replay));
	mark("known reproducers");

	let pts = depth_points();
	run.enumerate("nesting-depth", pts.len() as u64, |i| {
		let (nest, s, d) = pts[i as usize];
		depth_case(nest, s, d)
	});
	mark("nesting-depth");
	let sw = sweep_points(run);
	run.enumerate("recursion-sweep", sw.len() as u64, |i| {
		let (s, l, n, ok) = sw[i as usize];
		sweep_case(run, s, l, n, ok)
	});
	mark("recursion-sweep");
	let cs = cli_sweep_points();
	run.enumerate("cli-stack-options", cs.len() as u64, |i| {
		let (s, limit, os, n, ok) = cs[i as usize];
		cli_sweep_case(s, limit, os, n, ok)
	});
	mark("cli-stack-options");
	run.explore("self-dependent", run.tier.pick(6000, 100_000), 8..=40, cycle_case);
	mark("self-dependent");
	run.explore("histories", run.tier.pick(1500, 30_000), 8..=60, history_case);
	mark("histories");
	run.explore("configurations", run.tier.pick(6000, 100_000), 6..=30, config_case);
	mark("configurations");
	run.explore("source-text", run.tier.pick(40_000, 600_000), 20..=300, text_case);
	mark("source-text");
	run.explore("std-calls", run.tier.pick(400_000, 4_000_000), 6..=40, |src| std_case(src, &fns));
	mark("std-calls");

	let st = STD_STATS.lock().unwrap();
	let never_called: Vec<&str> = fns.iter().filter(|f| !st.contains_key(&f.name)).map(|f| f.name.as_str()).collect();
	let never_value: Vec<String> = st.iter().filter(|(_, v)| v.1 == 0).map(|(k, v)| format!("{k} ({} calls)", v.0)).collect();
	run.note(format!("std functions never called: {never_called:?}"));
	run.note(format!("std functions that never returned a value: {never_value:?}"));
	let min_calls = st.values().map(|v| v.0).min().unwrap_or(0);
	run.note(format!("calls per std function: min {min_calls}, functions covered {}", st.len()));
	if !never_called.is_empty() {
		run.infra(format!("std functions never called: {never_called:?}"));
	}
	drop(st);
	let (asked, res) = (ASKED.load(Ordering::SeqCst), RESOURCE.load(Ordering::SeqCst));
	run.note(format!("worker requests {asked}, undecided by resource limits {res}, worker processes started {}", worker::SPAWNED.load(Ordering::SeqCst)));
	if res * 100 > asked {
		run.infra(format!("{res} of {asked} requests hit a resource limit (> 1 %)"));
	}
	for c in ["text:value", "text:syntax-error", "text:runtime-error", "std:value", "std:error", "cycle:closed", "cycle:control", "history:stack-limit", "history:infinite-recursion", "history:assertion", "history:import", "config:value", "config:error"] {
		run.require_class(c, 30);
	}
	worker::retire();
}

pub fn replay(run: &Run, stage: &str, tape: Option<&[u16]>, v: &Value) -> Option<CaseOut> {
	let idx = v["extra"]["index"].as_u64();
	let out = match (stage, tape, idx) {
		("source-text", Some(t), _) => text_case(&mut Src::new(t)),
		("configurations", Some(t), _) => config_case(&mut Src::new(t)),
		("std-calls", Some(t), _) => std_case(&mut Src::new(t), &std_functions()),
		("self-dependent", Some(t), _) => cycle_case(&mut Src::new(t)),
		("histories", Some(t), _) => history_case(&mut Src::new(t)),
		("recursion-sweep", _, Some(i)) => {
			let (s, l, n, ok) = *sweep_points(run).get(i as usize)?;
			sweep_case(run, s, l, n, ok)
		}
		("cli-stack-options", _, Some(i)) => {
			let (s, limit, os, n, ok) = *cli_sweep_points().get(i as usize)?;
			cli_sweep_case(s, limit, os, n, ok)
		}
		("nesting-depth", _, Some(i)) => {
			let (nest, s, d) = *depth_points().get(i as usize)?;
			depth_case(nest, s, d)
		}
		("known-reproducers", _, _) => known_case(run, v["case"].as_str().unwrap_or("brackets 100000").trim_matches(|c| c == '[' || c == ']').replace(" x ", " ").as_str()),
		_ => return None,
	};
	worker::retire();
	Some(out)
}
