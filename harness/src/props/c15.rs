//! C15 — command line, Rust API, C API and dependency lister agree.
//!
//! Stages
//! * `cli`       generated configurations (ext vars / TLAs in every flavour the executable offers, -J / JSONNET_PATH with
//!               shadowing, input as file / -e / stdin, every output mode, --max-stack) run through the `jrsonnet` executable;
//!               the oracle is the Rust library API driven according to the documented meaning of every option.
//! * `capi-load` the shared library must be loadable with a plain `dlopen`.
//! * `capi`      the libjsonnet C ABI, called through `dlopen`/`dlsym` inside an isolated worker (`worker` op "capi"),
//!               compared with the library API for the same program and settings.
//! * `deps`      `jrsonnet-deps` on generated import graphs (layouts of C07, imports moved into many syntactic positions).
//!
//! Known findings (`Verdict::Known` only if listed in /verif/known_findings.jsonl, or — for development — named in the
//! environment variable `C15_ASSUME_KNOWN=id,id|all`).  Every finding is recognised by a narrow signature and the case is
//! re-decided with exactly that construct repaired / removed; anything else wrong still fails:
//! * `C15-capi-import-callback-kills-inline-code` — signature: jsonnet_import_callback is set and code is given with
//!   jsonnet_ext_code / jsonnet_tla_code; repaired by serving the same files from disk without the callback.
//! * `C15-deps-importstr-first-hides-imports`  — signature: a code file is the target of an importstr/importbin edge and of
//!   an import edge; repaired by turning exactly those text edges into imports (same set of reachable files).
//!
//! `replay` text of a recorded finding (field `replay` of the known_findings line):
//! * `builtin` (or empty)            — the built-in minimal reproducer of that finding id (see `builtin_reproducer`)
//! * `tape <stage> <n,n,n,...>`      — the case that the choice tape decodes to in that stage (`cli`, `capi`, `deps`)
use std::{
	cell::RefCell,
	collections::{BTreeMap, BTreeSet, HashMap},
	ffi::{c_char, c_int, c_uint, c_void, CStr, CString},
	io::Write as _,
	os::unix::process::ExitStatusExt,
	path::{Component, Path, PathBuf},
	process::{Command, Stdio},
	rc::Rc,
	sync::{
		atomic::{AtomicU64, Ordering},
		OnceLock,
	},
};

use jrsonnet_evaluator::{
	apply_tla,
	error::ErrorKind,
	function::builtin,
	manifest::{JsonFormat, ManifestFormat, StringFormat, ToStringFormat, YamlStreamFormat},
	stack::limit_stack_depth,
	tla::TlaArg,
	trace::PathResolver,
	val::NumValue,
	AsPathLike, Error, FileImportResolver, IStr, ImportResolver, State, Val,
};
use jrsonnet_gcmodule::Acyclic;
use jrsonnet_ir::{SourceDirectory, SourceFile, SourcePath};
use jrsonnet_stdlib::{ContextInitializer, IniFormat, TomlFormat, XmlJsonmlFormat, YamlFormat};
use serde_json::{json, Value};

use crate::{
	core::{guarded, CaseOut, Run, Src, Verdict},
	jr,
	props::c07,
	worker::{self, Reply},
};

/// the executables and the shared library built from /repo by `/verif/check --setup` (development aid: C15_BIN_DIR names
/// another directory holding them)
fn bin(name: &str) -> String {
	format!("{}/{name}", std::env::var("C15_BIN_DIR").unwrap_or_else(|_| "/verif/target/repo/debug".to_owned()))
}
const WORK: &str = "/verif/target/c15-work";

pub const K_CB_CODE: &str = "C15-capi-import-callback-kills-inline-code";
pub const K_DEPS: &str = "C15-deps-importstr-first-hides-imports";
/// `jrsonnet --os-stack N -f xml-jsonml` on a value with a child element prints the right text and then aborts while
/// the evaluation thread shuts down (glibc: "tcache_thread_shutdown(): unaligned tcache chunk detected")
pub const K_XML_OS: &str = "C15-os-stack-abort-at-thread-exit";
static XML_OS_LISTED: std::sync::atomic::AtomicBool = std::sync::atomic::AtomicBool::new(false);
const ALL_IDS: &[&str] = &[K_CB_CODE, K_DEPS, K_XML_OS];

fn assumed(id: &str) -> bool {
	match std::env::var("C15_ASSUME_KNOWN") {
		Ok(v) => v == "all" || v.split(',').any(|x| x.trim() == id),
		Err(_) => false,
	}
}
/// ids that may be answered with `Verdict::Known`
fn known_set(run: &Run) -> Vec<String> {
	ALL_IDS.iter().filter(|id| run.is_known(id) || assumed(id)).map(|s| (*s).to_owned()).collect()
}

// ------------------------------------------------------------------------------------------ scratch space

pub struct Scratch(pub PathBuf);
impl Drop for Scratch {
	fn drop(&mut self) {
		let _ = std::fs::remove_dir_all(&self.0);
	}
}
fn scratch(tag: &str) -> Scratch {
	static N: AtomicU64 = AtomicU64::new(0);
	let n = N.fetch_add(1, Ordering::SeqCst);
	let p = PathBuf::from(format!("{WORK}/{}-{tag}-{n}", std::process::id()));
	let _ = std::fs::create_dir_all(&p);
	Scratch(p.canonicalize().unwrap_or(p))
}

fn clip(s: &str, n: usize) -> String {
	if s.len() <= n {
		return s.to_owned();
	}
	let mut cut = n;
	while !s.is_char_boundary(cut) {
		cut -= 1;
	}
	format!("{}…({} bytes)", &s[..cut], s.len())
}
fn lossy(b: &[u8]) -> String {
	String::from_utf8_lossy(b).into_owned()
}
fn jstr(s: &str) -> String {
	serde_json::to_string(s).unwrap()
}
/// lexical normalisation (no disk access): drops `.` components and resolves `..`
fn norm(p: &Path) -> PathBuf {
	let mut out = PathBuf::new();
	for c in p.components() {
		match c {
			Component::CurDir => {}
			Component::ParentDir => {
				out.pop();
			}
			other => out.push(other.as_os_str()),
		}
	}
	out
}

// ------------------------------------------------------------------------------------------ generated material

#[derive(Clone, Copy, Debug, PartialEq, Eq)]
pub enum Flavour {
	Str,
	StrEnv,
	Code,
	CodeEnv,
	StrFile,
	CodeFile,
}
impl Flavour {
	fn is_code(self) -> bool {
		matches!(self, Flavour::Code | Flavour::CodeEnv | Flavour::CodeFile)
	}
	fn is_file(self) -> bool {
		matches!(self, Flavour::StrFile | Flavour::CodeFile)
	}
	fn is_env(self) -> bool {
		matches!(self, Flavour::StrEnv | Flavour::CodeEnv)
	}
	fn tag(self) -> &'static str {
		match self {
			Flavour::Str => "str",
			Flavour::StrEnv => "str-env",
			Flavour::Code => "code",
			Flavour::CodeEnv => "code-env",
			Flavour::StrFile => "str-file",
			Flavour::CodeFile => "code-file",
		}
	}
}

#[derive(Clone, Debug)]
pub enum CodeV {
	Expr(String),
	/// `import "<spelled>"` (resolved from the working directory, then the search path)
	Import(String),
}
impl CodeV {
	fn text(&self) -> String {
		match self {
			CodeV::Expr(s) => s.clone(),
			CodeV::Import(s) => format!("import {}", jstr(s)),
		}
	}
}

#[derive(Clone, Debug)]
pub struct Var {
	pub name: String,
	pub flavour: Flavour,
	pub sval: String,
	pub code: CodeV,
	/// 0 healthy, 1 environment variable missing, 2 file missing, 3 file is not UTF-8
	pub fault: u8,
	/// path of the value file as spelled on the command line (relative to the working directory, or `$W/...`)
	pub file: String,
	/// 0 `--opt value`, 1 `--opt=value`, 2 short option (-V / -A; string flavours only)
	pub form: u8,
}
impl Var {
	fn payload(&self) -> String {
		if self.flavour.is_code() {
			self.code.text()
		} else {
			self.sval.clone()
		}
	}
}

const STR_VALUES: &[&str] = &[
	"v",
	"",
	"a=b",
	"two words",
	"\"quoted\" 'single'",
	"ünï©ødé ✓",
	"line1\nline2",
	"-dash",
	"back\\slash",
	"$HOME %s {}",
	" lead and trail ",
	"=",
	"tab\there",
];
const CODE_EXPRS: &[&str] = &[
	"1 + 2",
	"\"s\"",
	"{ a: 1, b: [true, null] }",
	"[1, \"two\", 3.5]",
	"std.length(\"abc\") * 2",
	"local x = 21; x * 2",
	"null",
	"\"ü=✓\"",
	"{ k: \"a=b\" }",
	"error \"boom in code\"",
	"1 +",
	"function(a) a",
];
const EXT_NAMES: &[&str] = &["e0", "e1", "e2", "x y", "ünï", "E_3.k-4"];
const TLA_NAMES: &[&str] = &["t0", "t1", "t2", "_t3", "tLongName4"];
const LIT_ATOMS: &[&str] = &["1", "\"lit\"", "null", "true", "-0.5", "[1, [2]]", "{ k: \"v\" }", "\"q\\\"uo\\nte ü\"", "3.14159", "1e100"];
const FAIL_ATOMS: &[&str] = &["error \"boom\"", "assert false : \"nope\"; 1", "{}.missing", "[][1]", "std.extVar(\"undefined-var\")", "std.parseJson(\"{\")"];
const FIELD_NAMES: &[&str] = &["a", "b c", "ü.json", "x=y", "z.txt"];

pub const DIRS: &[&str] = &[".", "src", "j0", "j1", "j2", "p0", "p1"];
/// a search directory that is named but does not exist
const GHOST_DIR: usize = 99;
fn dir_name(d: usize) -> &'static str {
	if d == GHOST_DIR {
		"jx"
	} else {
		DIRS[d]
	}
}

#[derive(Clone, Debug)]
pub struct TFile {
	pub dir: usize,
	pub name: String,
	pub code: bool,
	/// content of a text file
	pub bytes: Vec<u8>,
	/// imports of a code file: (kind 0 import / 1 importstr / 2 importbin, field name, spelled path)
	pub imports: Vec<(u8, String, String)>,
	pub id: String,
}
#[derive(Clone, Debug, Default)]
pub struct Tree {
	pub files: Vec<TFile>,
}
impl Tree {
	fn rel(f: &TFile) -> PathBuf {
		norm(&Path::new(DIRS[f.dir]).join(&f.name))
	}
	/// model of the lookup (classification only: does an import of the program go through the search path?)
	fn resolve(&self, from_dir: usize, spelled: &str, search: &[usize]) -> Option<usize> {
		for d in std::iter::once(from_dir).chain(search.iter().copied()) {
			if d == GHOST_DIR {
				continue;
			}
			let full = norm(&Path::new(DIRS[d]).join(spelled));
			if let Some(i) = self.files.iter().position(|f| Self::rel(f) == full) {
				return Some(i);
			}
		}
		None
	}
	fn file_text(&self, i: usize) -> Vec<u8> {
		let f = &self.files[i];
		if !f.code {
			return f.bytes.clone();
		}
		let mut s = format!("{{ id: {}", jstr(&f.id));
		for (kind, field, spelled) in &f.imports {
			s.push_str(&format!(", {field}: {}", import_expr(*kind, spelled)));
		}
		s.push_str(" }\n");
		s.into_bytes()
	}
	fn materialise(&self, w: &Path) -> std::io::Result<()> {
		for d in DIRS {
			std::fs::create_dir_all(w.join(d))?;
		}
		for (i, f) in self.files.iter().enumerate() {
			std::fs::write(w.join(DIRS[f.dir]).join(&f.name), self.file_text(i))?;
		}
		Ok(())
	}
	fn describe(&self) -> String {
		let mut s = String::new();
		for (i, f) in self.files.iter().enumerate() {
			let t = self.file_text(i);
			s.push_str(&format!("  file {}/{}: {}\n", DIRS[f.dir], f.name, if f.code { lossy(&t).trim().to_owned() } else { format!("{:?}", lossy(&t)) }));
		}
		s
	}
}

fn import_expr(kind: u8, spelled: &str) -> String {
	format!("{} {}", ["import", "importstr", "importbin"][kind as usize], jstr(spelled))
}

#[derive(Clone, Debug)]
pub enum DefaultV {
	Lit(String),
	Ext(String),
	Param(String),
}
#[derive(Clone, Debug)]
pub struct Param {
	pub name: String,
	pub default: Option<DefaultV>,
}
#[derive(Clone, Debug)]
pub enum Atom {
	Lit(String),
	Ext(String),
	Param(String),
	Import(u8, String),
	Call(String),
	Recurse(u32),
	Fail(String),
}
#[derive(Clone, Copy, Debug, PartialEq, Eq)]
pub enum Shape {
	First,
	Num,
	Str,
	Arr,
	ArrObj,
	Obj,
	ObjStr,
	ObjArr,
	Ini,
	Xml,
}
#[derive(Clone, Debug)]
pub struct Prog {
	pub params: Option<Vec<Param>>,
	pub atoms: Vec<Atom>,
	pub shape: Shape,
	pub fields: Vec<String>,
	pub syntax_error: bool,
	/// directory of the file holding the program (index into DIRS; 0 for snippets)
	pub dir: usize,
}

fn ext_ref(name: &str) -> String {
	format!("std.extVar({})", jstr(name))
}

fn render_prog(p: &Prog) -> String {
	let mut s = String::new();
	if p.atoms.iter().any(|a| matches!(a, Atom::Recurse(_))) {
		s.push_str("local f(n) = if n == 0 then 0 else 1 + f(n - 1);\n");
	}
	s.push_str("local S(x) = if std.isString(x) then x else std.toString(x);\n");
	if let Some(ps) = &p.params {
		let ps: Vec<String> = ps
			.iter()
			.map(|q| match &q.default {
				None => q.name.clone(),
				Some(DefaultV::Lit(l)) => format!("{}={l}", q.name),
				Some(DefaultV::Ext(e)) => format!("{}={}", q.name, ext_ref(e)),
				Some(DefaultV::Param(o)) => format!("{}={o}", q.name),
			})
			.collect();
		s.push_str(&format!("function({})\n", ps.join(", ")));
	}
	let atoms: Vec<String> = p
		.atoms
		.iter()
		.map(|a| match a {
			Atom::Lit(l) | Atom::Call(l) | Atom::Fail(l) => l.clone(),
			Atom::Ext(n) => ext_ref(n),
			Atom::Param(n) => n.clone(),
			Atom::Import(k, sp) => import_expr(*k, sp),
			Atom::Recurse(d) => format!("f({d})"),
		})
		.collect();
	s.push_str(&format!("local A = [{}];\n", atoms.join(", ")));
	let n = p.atoms.len().max(1);
	let field = |j: usize, wrap: &dyn Fn(String) -> String| format!("{}: {}", jstr(&p.fields[j]), wrap(format!("A[{}]", j % n)));
	let fields = |wrap: &dyn Fn(String) -> String| (0..p.fields.len()).map(|j| field(j, wrap)).collect::<Vec<_>>().join(", ");
	s.push_str(&match p.shape {
		Shape::First => "A[0]".to_owned(),
		Shape::Num => "std.length(std.join(\"\", [S(x) for x in A]))".to_owned(),
		Shape::Str => "std.join(\"|\", [S(x) for x in A])".to_owned(),
		Shape::Arr => "A".to_owned(),
		Shape::ArrObj => "[{ i: i, v: A[i] } for i in std.range(0, std.length(A) - 1)]".to_owned(),
		Shape::Obj => format!("{{ {}, hidden:: \"h\" }}", fields(&|x| x)),
		Shape::ObjStr => format!("{{ {}, hidden:: \"h\" }}", fields(&|x| format!("S({x})"))),
		Shape::ObjArr => format!("{{ {} }}", fields(&|x| format!("[{x}, 1]"))),
		Shape::Ini => format!("{{ main: {{ k: S(A[0]) }}, sections: {{ s1: {{ k1: S(A[{}]), n: 1 }} }} }}", n - 1),
		Shape::Xml => format!("[\"root\", {{ attr: S(A[0]) }}, S(A[{}]), [\"child\"]]", n - 1),
	});
	if p.syntax_error {
		s.push_str("\n+");
	}
	s.push('\n');
	s
}

/// indices of the atoms whose value certainly reaches the output
fn forced_atoms(p: &Prog) -> BTreeSet<usize> {
	let n = p.atoms.len().max(1);
	match p.shape {
		Shape::First => [0].into_iter().collect(),
		Shape::Num | Shape::Str | Shape::Arr | Shape::ArrObj => (0..n).collect(),
		Shape::Obj | Shape::ObjStr | Shape::ObjArr => (0..p.fields.len()).map(|j| j % n).collect(),
		Shape::Ini | Shape::Xml => [0, n - 1].into_iter().collect(),
	}
}
/// the names of supplied variables whose value certainly reaches the output: (external variables, parameters)
fn forced_reads(p: &Prog) -> (BTreeSet<String>, BTreeSet<String>) {
	let mut ext = BTreeSet::new();
	let mut par = BTreeSet::new();
	for i in forced_atoms(p) {
		match p.atoms.get(i) {
			Some(Atom::Ext(n)) => {
				ext.insert(n.clone());
			}
			Some(Atom::Param(n)) => {
				par.insert(n.clone());
			}
			_ => {}
		}
	}
	(ext, par)
}

fn gen_var(src: &mut Src, name: &str, idx: usize, tla: bool, flavours: &[Flavour], import_names: &[String]) -> Var {
	let flavour = *src.pick(flavours);
	let sval = (*src.pick(STR_VALUES)).to_owned();
	let code = if !import_names.is_empty() && src.chance(1, 6) {
		CodeV::Import(src.pick(import_names).clone())
	} else if src.chance(1, 12) {
		// the last three: runtime error, syntax error, a function (cannot be manifested)
		CodeV::Expr((*src.pick(&CODE_EXPRS[CODE_EXPRS.len() - 3..])).to_owned())
	} else {
		CodeV::Expr((*src.pick(&CODE_EXPRS[..CODE_EXPRS.len() - 3])).to_owned())
	};
	let ext = if flavour.is_code() { "jsonnet" } else { "txt" };
	let base = format!("{}{idx}", if tla { "tv" } else { "ev" });
	let file = match src.below(4) {
		0 => format!("{base}.{ext}"),
		1 => format!("src/{base}.{ext}"),
		2 => format!("$W/{base}.{ext}"),
		_ => format!("{base}=eq.{ext}"),
	};
	let form = if flavour.is_code() || flavour.is_file() { src.below(2) as u8 } else { src.below(3) as u8 };
	Var { name: name.to_owned(), flavour, sval, code, fault: 0, file, form }
}

/// library files over the search directories, a text file, a file next to the program
fn gen_tree(src: &mut Src, main_dir: usize, search: &[usize]) -> Tree {
	let mut files = vec![];
	let names = ["la.libsonnet", "lb.libsonnet", "lc.libsonnet"];
	for (k, name) in names.iter().enumerate() {
		let copies = src.weighted(&[3, 4, 3, 1]);
		let mut used = vec![];
		for _ in 0..copies {
			let d = 2 + src.below(5);
			if used.contains(&d) {
				continue;
			}
			used.push(d);
			let mut imports = vec![];
			if k + 1 < names.len() && src.chance(1, 3) {
				imports.push((0u8, "sub".to_owned(), names[k + 1].to_owned()));
			}
			if src.chance(1, 6) {
				imports.push((1 + src.below(2) as u8, "txt".to_owned(), "t.txt".to_owned()));
			}
			files.push(TFile { dir: d, name: (*name).to_owned(), code: true, bytes: vec![], imports, id: format!("{}/{}", DIRS[d], &name[..2]) });
		}
	}
	let ntxt = src.weighted(&[2, 3, 1]);
	let mut used = vec![];
	for _ in 0..ntxt {
		let d = *src.pick(&[main_dir, 2, 3, 4, 5, 6]);
		if used.contains(&d) {
			continue;
		}
		used.push(d);
		let bytes = match src.below(5) {
			0 => format!("text in {}", DIRS[d]).into_bytes(),
			1 => "héllo\r\nwörld \"q\"\n".as_bytes().to_vec(),
			2 => vec![],
			3 => vec![0xef, 0xbb, 0xbf, b'x'],
			_ => vec![b'a', 0xff, 0xfe, b'z'],
		};
		files.push(TFile { dir: d, name: "t.txt".to_owned(), code: false, bytes, imports: vec![], id: String::new() });
	}
	files.push(TFile { dir: main_dir, name: "rel.libsonnet".to_owned(), code: true, bytes: vec![], imports: vec![], id: "rel".to_owned() });
	let mut tree = Tree { files };
	// imports inside library files that lead nowhere stay only now and then
	for i in 0..tree.files.len() {
		let from = tree.files[i].dir;
		let keep: Vec<bool> = tree.files[i].imports.iter().map(|(_, _, sp)| tree.resolve(from, sp, search).is_some()).collect();
		let mut k = 0;
		tree.files[i].imports.retain(|_| {
			k += 1;
			keep[k - 1] || src.chance(1, 8)
		});
	}
	tree
}

/// imports that resolve (lookup model) from the program's directory, and names of code files that resolve from the working
/// directory (for code given as a variable)
fn resolvable(tree: &Tree, main_dir: usize, search: &[usize]) -> (Vec<(u8, String)>, Vec<String>) {
	let mut prog = vec![];
	let mut code = vec![];
	for name in ["la.libsonnet", "lb.libsonnet", "lc.libsonnet", "rel.libsonnet", "t.txt"] {
		if let Some(i) = tree.resolve(main_dir, name, search) {
			if tree.files[i].code {
				prog.push((0u8, name.to_owned()));
				prog.push((0u8, name.to_owned()));
				prog.push((1u8, name.to_owned()));
			} else {
				prog.push((1u8, name.to_owned()));
				prog.push((2u8, name.to_owned()));
			}
		}
		if let Some(i) = tree.resolve(0, name, search) {
			if tree.files[i].code {
				code.push(name.to_owned());
			}
		}
	}
	(prog, code)
}

struct ProgWish {
	shape: Shape,
	allow_sub_field: bool,
	natives: bool,
	/// recursion depths to choose from (0 = none)
	depths: &'static [u32],
	/// imports that resolve from the program's place
	imports: Vec<(u8, String)>,
}

fn gen_prog(src: &mut Src, ext: &[Var], tla: &[Var], wish: &ProgWish, dir: usize) -> Prog {
	let is_fn = if tla.is_empty() { src.chance(1, 4) } else { src.chance(5, 6) };
	let mut atoms = vec![];
	let mut params = vec![];
	for v in ext {
		if src.chance(6, 7) {
			atoms.push(Atom::Ext(v.name.clone()));
		}
	}
	if is_fn {
		for v in tla {
			if src.chance(15, 16) {
				params.push(Param { name: v.name.clone(), default: if src.chance(1, 4) { Some(DefaultV::Lit("\"dflt\"".into())) } else { None } });
				if src.chance(8, 9) {
					atoms.push(Atom::Param(v.name.clone()));
				}
			}
		}
		match src.weighted(&[12, 6, 1]) {
			0 => {}
			1 => {
				let d = match src.below(3) {
					0 => DefaultV::Lit("\"own default\"".into()),
					1 if !ext.is_empty() => DefaultV::Ext(ext[0].name.clone()),
					2 if !params.is_empty() => DefaultV::Param(params[0].name.clone()),
					_ => DefaultV::Lit("[1, 2]".into()),
				};
				params.push(Param { name: "pd".into(), default: Some(d) });
				atoms.push(Atom::Param("pd".into()));
			}
			_ => {
				// required parameter nobody supplies
				params.push(Param { name: "required".into(), default: None });
				atoms.push(Atom::Param("required".into()));
			}
		}
	}
	for _ in 0..src.weighted(&[3, 4, 2]) {
		if !wish.imports.is_empty() && src.chance(7, 8) {
			let (k, sp) = src.pick(&wish.imports).clone();
			atoms.push(Atom::Import(k, sp));
			continue;
		}
		let spelled = *src.pick(&["la.libsonnet", "lb.libsonnet", "t.txt", "rel.libsonnet", "lc.libsonnet", "nope.libsonnet"]);
		let kind = if spelled == "t.txt" { 1 + src.below(2) as u8 } else { src.weighted(&[8, 1]) as u8 };
		atoms.push(Atom::Import(kind, spelled.to_owned()));
	}
	for _ in 0..src.weighted(&[3, 3, 1]) {
		atoms.push(Atom::Lit((*src.pick(LIT_ATOMS)).to_owned()));
	}
	if wish.natives {
		for _ in 0..src.range(1, 2) {
			let a = *src.pick(&["1", "2.5", "-3", "\"s\"", "\"ü ✓\"", "null", "true", "[1]", "{ o: 1 }"]);
			let b = *src.pick(&["2", "0.25", "\"t\"", "\"\"", "false"]);
			atoms.push(Atom::Call(match src.below(5) {
				0 => format!("std.native(\"nativeAdd\")({a}, {b})"),
				1 => format!("std.native(\"nativeConcat\")({a}, {b})"),
				2 => format!("std.native(\"nativeDescribe\")({a})"),
				3 => format!("std.native(\"nativeAdd\")(b={b}, a={a})"),
				_ => format!("std.native(\"nativeDescribe\")(std.native(\"nativeConcat\")(S({a}), S({b})))"),
			}));
		}
	}
	let depth = *src.pick(wish.depths);
	if depth > 0 {
		atoms.push(Atom::Recurse(depth));
	}
	if src.chance(1, 14) {
		atoms.push(Atom::Fail((*src.pick(FAIL_ATOMS)).to_owned()));
	}
	if atoms.is_empty() {
		atoms.push(Atom::Lit("\"only\"".into()));
	}
	// a little shuffling: rotate
	let r = src.below(atoms.len());
	atoms.rotate_left(r);
	let mut fields: Vec<String> = vec![];
	for _ in 0..src.range(1, 3) {
		let f = (*src.pick(FIELD_NAMES)).to_owned();
		if !fields.contains(&f) {
			fields.push(f);
		}
	}
	if wish.allow_sub_field && src.chance(1, 3) {
		fields.push("sub/n".to_owned());
	}
	Prog { params: if is_fn { Some(params) } else { None }, atoms, shape: wish.shape, fields, syntax_error: src.chance(1, 40), dir }
}

// ------------------------------------------------------------------------------------------ the library oracle

/// resolver of the oracle: the real FileImportResolver, with "the current directory" being the case's working directory
#[derive(Acyclic)]
struct CwdResolver {
	inner: FileImportResolver,
	cwd: PathBuf,
	loaded: Rc<RefCell<Vec<PathBuf>>>,
}
impl ImportResolver for CwdResolver {
	fn resolve_from(&self, from: &SourcePath, path: &dyn AsPathLike) -> jrsonnet_evaluator::Result<SourcePath> {
		if from.is_default() {
			self.inner.resolve_from(&SourcePath::new(SourceDirectory::new(self.cwd.clone())), path)
		} else {
			self.inner.resolve_from(from, path)
		}
	}
	fn resolve_from_default(&self, path: &dyn AsPathLike) -> jrsonnet_evaluator::Result<SourcePath> {
		self.resolve_from(&SourcePath::default(), path)
	}
	fn load_file_contents(&self, resolved: &SourcePath) -> jrsonnet_evaluator::Result<Vec<u8>> {
		if let Some(p) = resolved.path() {
			self.loaded.borrow_mut().push(p.to_owned());
		}
		self.inner.load_file_contents(resolved)
	}
}

/// resolver of the oracle for import-callback cases: an in-memory tree with the lookup rule of the harness's C callback
#[derive(Acyclic)]
struct MemTree {
	files: Rc<HashMap<PathBuf, Vec<u8>>>,
	cwd: PathBuf,
}
impl ImportResolver for MemTree {
	fn resolve_from(&self, from: &SourcePath, path: &dyn AsPathLike) -> jrsonnet_evaluator::Result<SourcePath> {
		let base = if let Some(f) = from.downcast_ref::<SourceFile>() {
			f.path().parent().map(|p| p.to_owned()).unwrap_or_default()
		} else {
			self.cwd.clone()
		};
		let rel = match path.as_path() {
			jrsonnet_evaluator::ResolvePath::Str(s) => PathBuf::from(s),
			jrsonnet_evaluator::ResolvePath::Path(p) => p.to_owned(),
		};
		let full = norm(&base.join(rel));
		if self.files.contains_key(&full) {
			Ok(SourcePath::new(SourceFile::new(full)))
		} else {
			Err(ErrorKind::ImportCallbackError(format!("{} not found", full.display())).into())
		}
	}
	fn resolve_from_default(&self, path: &dyn AsPathLike) -> jrsonnet_evaluator::Result<SourcePath> {
		self.resolve_from(&SourcePath::default(), path)
	}
	fn load_file_contents(&self, resolved: &SourcePath) -> jrsonnet_evaluator::Result<Vec<u8>> {
		// code given as ext var / TLA is no import: it is served whatever the import callback is
		if let Some(f) = resolved.downcast_ref::<jrsonnet_ir::SourceFifo>() {
			return Ok(f.1.to_vec());
		}
		match resolved.path().and_then(|p| self.files.get(p)) {
			Some(b) => Ok(b.clone()),
			None => Err(ErrorKind::ResolvedFileNotFound(resolved.clone()).into()),
		}
	}
}

fn rt_err(s: impl Into<String>) -> Error {
	let s: String = s.into();
	ErrorKind::RuntimeError(s.into()).into()
}

// the harness's natives, once more as library builtins (the C versions live in the worker part below)
#[builtin]
fn c15_native_add(a: Val, b: Val) -> Result<Val, Error> {
	match (&a, &b) {
		(Val::Num(x), Val::Num(y)) => NumValue::new(x.get() + y.get()).map(Val::Num).ok_or_else(|| rt_err("not finite")),
		_ => Err(rt_err("nativeAdd wants two numbers")),
	}
}
#[builtin]
fn c15_native_concat(a: Val, b: Val) -> Result<Val, Error> {
	match (a.as_str(), b.as_str()) {
		(Some(x), Some(y)) => Ok(Val::string(format!("{x}{y}"))),
		_ => Err(rt_err("nativeConcat wants two strings")),
	}
}
#[builtin]
fn c15_native_describe(x: Val) -> Result<Val, Error> {
	let (kind, v) = match &x {
		Val::Null => ("null", Val::Null),
		Val::Bool(b) => ("bool", Val::Bool(*b)),
		Val::Num(n) => ("number", Val::Num(NumValue::new(n.get() * 2.0).ok_or_else(|| rt_err("not finite"))?)),
		Val::Str(_) => ("string", Val::string(format!("{}!", x.as_str().unwrap()))),
		_ => ("other", Val::Null),
	};
	let mut b = jrsonnet_evaluator::ObjValueBuilder::new();
	b.field("kind").value(Val::string(kind));
	b.field("list").value(Val::Arr(jrsonnet_evaluator::val::ArrValue::eager(vec![v, Val::Bool(true)])));
	Ok(Val::Obj(b.build()))
}

#[derive(Clone, Debug)]
pub enum Supplied {
	Str(String),
	Code(String),
	Broken(String),
}
pub enum LibInput {
	File(PathBuf),
	Snippet(String, String),
}
pub struct LibCfg {
	pub cwd: PathBuf,
	pub search: Vec<PathBuf>,
	pub mem: Option<HashMap<PathBuf, Vec<u8>>>,
	pub ext: Vec<(String, Supplied)>,
	pub tla: Vec<(String, Supplied)>,
	pub max_stack: usize,
	pub input: LibInput,
	pub natives: bool,
}
pub enum LibOut<T> {
	Ok(T),
	Err(String),
	Panic(String),
}

/// evaluate with the library API; `then` runs with the state entered and the stack limit in force (values are lazy)
fn lib_eval<T>(cfg: &LibCfg, loaded: Option<Rc<RefCell<Vec<PathBuf>>>>, then: impl FnOnce(Val) -> Result<T, Error>) -> LibOut<T> {
	for (k, s) in cfg.ext.iter().chain(cfg.tla.iter()) {
		if let Supplied::Broken(why) = s {
			return LibOut::Err(format!("variable {k}: {why}"));
		}
	}
	let r = guarded(|| {
		let init = ContextInitializer::new(PathResolver::FileName);
		for (k, s) in &cfg.ext {
			match s {
				Supplied::Str(v) => init.add_ext_str(k.as_str().into(), v.as_str().into()),
				Supplied::Code(c) => init.add_ext_code(k, c).expect("add_ext_code"),
				Supplied::Broken(_) => {}
			}
		}
		if cfg.natives {
			init.add_native("nativeAdd", c15_native_add::INST);
			init.add_native("nativeConcat", c15_native_concat::INST);
			init.add_native("nativeDescribe", c15_native_describe::INST);
		}
		let mut b = State::builder();
		b.context_initializer(init);
		match &cfg.mem {
			Some(m) => {
				b.import_resolver(MemTree { files: Rc::new(m.clone()), cwd: cfg.cwd.clone() });
			}
			None => {
				b.import_resolver(CwdResolver { inner: FileImportResolver::new(cfg.search.clone()), cwd: cfg.cwd.clone(), loaded: loaded.unwrap_or_default() });
			}
		}
		let state = b.build();
		let _e = state.enter();
		let _l = limit_stack_depth(cfg.max_stack);
		let mut tla: HashMap<IStr, TlaArg> = HashMap::new();
		for (k, s) in &cfg.tla {
			match s {
				Supplied::Str(v) => tla.insert(k.as_str().into(), TlaArg::String(v.as_str().into())),
				Supplied::Code(c) => tla.insert(k.as_str().into(), TlaArg::InlineCode(c.clone())),
				Supplied::Broken(_) => None,
			};
		}
		let r = (|| -> Result<T, Error> {
			let v = match &cfg.input {
				LibInput::File(p) => state.import(p.as_path())?,
				LibInput::Snippet(n, c) => state.evaluate_snippet(n.as_str(), c.as_str())?,
			};
			let v = apply_tla(&tla, v)?;
			then(v)
		})();
		r.map_err(|e| format!("{}", e.error()))
	});
	jr::maybe_collect();
	match r {
		Ok(Ok(v)) => LibOut::Ok(v),
		Ok(Err(e)) => LibOut::Err(e),
		Err(p) => LibOut::Panic(p),
	}
}

// ------------------------------------------------------------------------------------------ running executables

pub struct ProcOut {
	pub code: Option<i32>,
	pub signal: Option<i32>,
	pub stdout: Vec<u8>,
	pub stderr: Vec<u8>,
}
impl ProcOut {
	fn ok(&self) -> bool {
		self.code == Some(0)
	}
	fn crashed(&self) -> Option<String> {
		if let Some(s) = self.signal {
			return Some(format!("killed by signal {s}"));
		}
		let e = lossy(&self.stderr);
		if self.code == Some(101) || e.contains("panicked at") {
			return Some(format!("panicked (exit {:?}): {}", self.code, clip(e.trim(), 300)));
		}
		None
	}
	fn status(&self) -> String {
		match (self.code, self.signal) {
			(Some(c), _) => format!("exit {c}"),
			(_, Some(s)) => format!("signal {s}"),
			_ => "unknown".into(),
		}
	}
}
fn run_proc(exe: &str, args: &[String], cwd: &Path, env: &[(String, String)], stdin: Option<&[u8]>) -> std::io::Result<ProcOut> {
	let mut cmd = Command::new(exe);
	cmd.args(args).current_dir(cwd).env_clear();
	for (k, v) in env {
		cmd.env(k, v);
	}
	cmd.stdin(if stdin.is_some() { Stdio::piped() } else { Stdio::null() }).stdout(Stdio::piped()).stderr(Stdio::piped());
	let mut child = cmd.spawn()?;
	if let (Some(data), Some(mut pipe)) = (stdin, child.stdin.take()) {
		let _ = pipe.write_all(data);
	}
	let o = child.wait_with_output()?;
	Ok(ProcOut { code: o.status.code(), signal: o.status.signal(), stdout: o.stdout, stderr: o.stderr })
}

// ------------------------------------------------------------------------------------------ stage: cli

#[derive(Clone, Debug)]
pub enum Sink {
	Stdout,
	File { path: String, c: bool },
	Multi { dir: String, c: bool },
}
#[derive(Clone, Debug)]
pub struct OutCfg {
	pub string: bool,
	pub yaml_stream: bool,
	pub format: Option<&'static str>,
	pub padding: Option<usize>,
	pub sink: Sink,
}
impl OutCfg {
	fn mode_tag(&self) -> String {
		let mut t = vec![];
		if self.string {
			t.push("-S".to_owned());
		}
		if self.yaml_stream {
			t.push("-y".to_owned());
		}
		if let Some(f) = self.format {
			t.push(format!("-f {f}"));
		}
		if t.is_empty() {
			t.push("default-json".to_owned());
		}
		t.join(" ")
	}
	/// the manifest format the options name, built from the library's own constructors
	fn make_format(&self) -> Box<dyn ManifestFormat> {
		let base: Box<dyn ManifestFormat> = if self.string {
			Box::new(StringFormat)
		} else {
			match self.format.unwrap_or(if self.yaml_stream { "yaml" } else { "json" }) {
				// `-f string` is documented "Expect string as output, and write them directly"; the library offers both a strict
				// (StringFormat, taken by -S) and a lenient (ToStringFormat) string format: the lenient one is taken here
				"string" => Box::new(ToStringFormat),
				"json" => Box::new(JsonFormat::cli(self.padding.unwrap_or(3))),
				"yaml" => Box::new(YamlFormat::cli(self.padding.unwrap_or(2))),
				"toml" => Box::new(TomlFormat::cli(self.padding.unwrap_or(2))),
				"xml-jsonml" => Box::new(XmlJsonmlFormat::cli()),
				_ => Box::new(IniFormat::cli()),
			}
		};
		if self.yaml_stream {
			Box::new(YamlStreamFormat::cli(base))
		} else {
			base
		}
	}
}
#[derive(Clone, Debug)]
pub enum Input {
	/// path as spelled (relative to the working directory or `$W/...`)
	File(String),
	Exec(bool),
	Stdin,
}
#[derive(Clone, Debug)]
pub struct CliCfg {
	pub tree: Tree,
	pub prog: Prog,
	pub ext: Vec<Var>,
	pub tla: Vec<Var>,
	/// -J options in command-line order: (dir, spelling 0 relative / 1 ./relative / 2 absolute, form 0 `-J d` / 1 `--jpath d` / 2 `--jpath=d` / 3 `-Jd`)
	pub jdirs: Vec<(usize, u8, u8)>,
	/// JSONNET_PATH entries in order: (dir, absolute?)
	pub envdirs: Vec<(usize, bool)>,
	pub input: Input,
	pub out: OutCfg,
	/// (limit, short option?)
	pub max_stack: Option<(usize, bool)>,
	/// `--os-stack <MiB>`: the evaluation runs on a thread of that stack size; every other setting means the same
	pub os_stack: Option<usize>,
	pub opts_first: bool,
}

const ALL_FLAVOURS: &[Flavour] = &[Flavour::Str, Flavour::StrEnv, Flavour::Code, Flavour::CodeEnv, Flavour::StrFile, Flavour::CodeFile];
const ALL_SHAPES: &[Shape] = &[Shape::First, Shape::Num, Shape::Str, Shape::Arr, Shape::ArrObj, Shape::Obj, Shape::ObjStr, Shape::ObjArr, Shape::Ini, Shape::Xml];

pub fn gen_cli(src: &mut Src) -> CliCfg {
	// --- output mode
	let (string, yaml_stream, format): (bool, bool, Option<&'static str>) = match src.weighted(&[5, 3, 3, 2, 2, 2, 3, 3, 2, 2, 2]) {
		0 => (false, false, None),
		1 => (true, false, None),
		2 => (false, true, None),
		3 => (false, false, Some("string")),
		4 => (false, false, Some("json")),
		5 => (false, true, Some("json")),
		6 => (false, false, Some("yaml")),
		7 => (false, false, Some("toml")),
		8 => (false, false, Some("xml-jsonml")),
		9 => (false, false, Some("ini")),
		_ => (false, true, Some("yaml")),
	};
	let padding = if src.chance(1, 4) { Some(src.range(0, 8) as usize) } else { None };
	let c = src.chance(1, 3);
	let sink = match src.weighted(&[5, 2, 3]) {
		0 => Sink::Stdout,
		1 => Sink::File { path: if c { (*src.pick(&["fresh/deep/r.txt", "out/new/r.json", "$W/fresh/abs.out"])).to_owned() } else { (*src.pick(&["out/result.json", "plain.out", "$W/out/abs.txt"])).to_owned() }, c },
		_ => Sink::Multi { dir: if c { (*src.pick(&["fresh/multi", "out", "$W/fresh/m"])).to_owned() } else { (*src.pick(&["out", "out/", "./out", "$W/out"])).to_owned() }, c },
	};
	let out = OutCfg { string, yaml_stream, format, padding, sink };
	let multi = matches!(out.sink, Sink::Multi { .. });
	let fitting: &[Shape] = if multi {
		if string {
			&[Shape::ObjStr]
		} else if yaml_stream {
			&[Shape::ObjArr]
		} else if matches!(format, Some("toml" | "ini" | "xml-jsonml")) {
			&[Shape::Obj, Shape::ObjArr]
		} else {
			&[Shape::Obj, Shape::ObjStr, Shape::ObjArr]
		}
	} else if string {
		&[Shape::Str]
	} else if yaml_stream {
		&[Shape::Arr, Shape::ArrObj]
	} else {
		match format {
			Some("string") => &[Shape::Str, Shape::Num, Shape::Obj],
			Some("toml") => &[Shape::Ini, Shape::ObjStr, Shape::ObjArr],
			Some("xml-jsonml") => &[Shape::Xml],
			Some("ini") => &[Shape::Ini],
			_ => ALL_SHAPES,
		}
	};
	let shape = if src.chance(1, 4) { *src.pick(ALL_SHAPES) } else { *src.pick(fitting) };
	// --- where the program lives and how it is given
	let (input, main_dir) = match src.weighted(&[4, 3, 2]) {
		0 => match src.below(4) {
			0 => (Input::File("main.jsonnet".into()), 0),
			1 => (Input::File("./main.jsonnet".into()), 0),
			2 => (Input::File("src/main.jsonnet".into()), 1),
			_ => (Input::File("$W/main.jsonnet".into()), 0),
		},
		1 => (Input::Exec(src.chance(1, 2)), 0),
		_ => (Input::Stdin, 0),
	};
	// --- search path
	let mut jdirs = vec![];
	for _ in 0..src.weighted(&[2, 3, 3, 2]) {
		let d = if src.chance(1, 12) { GHOST_DIR } else { 2 + src.below(3) };
		jdirs.push((d, src.below(3) as u8, src.below(4) as u8));
	}
	let mut envdirs = vec![];
	for _ in 0..src.weighted(&[3, 3, 2]) {
		envdirs.push((5 + src.below(2), src.chance(1, 2)));
	}
	let search: Vec<usize> = jdirs.iter().rev().map(|j: &(usize, u8, u8)| j.0).chain(envdirs.iter().map(|e: &(usize, bool)| e.0)).collect();
	let tree = gen_tree(src, main_dir, &search);
	let (prog_imports, code_imports) = resolvable(&tree, main_dir, &search);
	// --- variables
	let mut ext = vec![];
	for i in 0..src.weighted(&[2, 4, 3, 1]) {
		let name = EXT_NAMES[(i * 2 + src.below(2)) % EXT_NAMES.len()];
		ext.push(gen_var(src, name, i, false, ALL_FLAVOURS, &code_imports));
	}
	let mut tla = vec![];
	for i in 0..src.weighted(&[3, 4, 3, 1]) {
		let name = TLA_NAMES[(i + src.below(2) * 3) % TLA_NAMES.len()];
		tla.push(gen_var(src, name, i, true, ALL_FLAVOURS, &code_imports));
	}
	// whether imports of a code FILE are relative to that file or to the working directory is not documented: keep to
	// cases where both readings find the same file
	for v in ext.iter_mut().chain(tla.iter_mut()) {
		if let (Flavour::CodeFile, CodeV::Import(name)) = (v.flavour, &v.code) {
			if v.file.starts_with("src/") && tree.resolve(1, name, &search) != tree.resolve(0, name, &search) {
				v.file = v.file["src/".len()..].to_owned();
			}
		}
	}
	tla.dedup_by(|a, b| a.name == b.name);
	if tla.len() == 3 && tla[0].name == tla[2].name {
		tla.pop();
	}
	let max_stack = match src.weighted(&[4, 2, 2, 1]) {
		0 => None,
		1 => Some((20, src.chance(1, 2))),
		2 => Some((200, src.chance(1, 2))),
		_ => Some((1000, src.chance(1, 2))),
	};
	let depths: &'static [u32] = match max_stack {
		None => &[0, 0, 0, 300, 600],
		Some((20, _)) => &[0, 0, 8, 60],
		Some((200, _)) => &[0, 0, 100, 300],
		_ => &[0, 0, 600, 1300],
	};
	let allow_sub_field = !multi || c;
	let mut prog = gen_prog(src, &ext, &tla, &ProgWish { shape, allow_sub_field, natives: false, depths, imports: prog_imports }, main_dir);
	if !allow_sub_field {
		prog.fields.retain(|f| !f.contains('/'));
	}
	// --- faults in the supply of variables (file faults only where the value is certainly demanded: the executable may
	// read the file lazily)
	let (fe, fp) = forced_reads(&prog);
	let declared: BTreeSet<String> = prog.params.iter().flatten().map(|p| p.name.clone()).collect();
	for (v, is_tla) in ext.iter_mut().map(|v| (v, false)).chain(tla.iter_mut().map(|v| (v, true))) {
		if v.flavour.is_env() && src.chance(1, 10) {
			v.fault = 1;
		}
		let forced = if is_tla { fp.contains(&v.name) && declared.contains(&v.name) } else { fe.contains(&v.name) };
		if v.flavour.is_file() && forced && src.chance(1, 7) {
			v.fault = 2 + src.below(2) as u8;
		}
	}
	let os_stack = match src.below(5) {
		0 => Some(*src.pick(&[16usize, 64])),
		_ => None,
	};
	CliCfg { tree, prog, ext, tla, jdirs, envdirs, input, out, max_stack, os_stack, opts_first: src.chance(1, 2) }
}

impl CliCfg {
	fn search(&self) -> Vec<usize> {
		self.jdirs.iter().rev().map(|j| j.0).chain(self.envdirs.iter().map(|e| e.0)).collect()
	}
	fn program_text(&self) -> String {
		render_prog(&self.prog)
	}
	/// (arguments, environment, stdin); `$W` stands for the working directory
	fn command(&self) -> (Vec<String>, Vec<(String, String)>, Option<String>) {
		let mut opts: Vec<String> = vec![];
		let mut env = vec![];
		let push = |opts: &mut Vec<String>, long: &str, form: u8, val: String, short: Option<&str>| match (form, short) {
			(2, Some(s)) => {
				opts.push(s.to_owned());
				opts.push(val);
			}
			(1, _) => opts.push(format!("{long}={val}")),
			_ => {
				opts.push(long.to_owned());
				opts.push(val);
			}
		};
		for (v, tla) in self.ext.iter().map(|v| (v, false)).chain(self.tla.iter().map(|v| (v, true))) {
			let p = if tla { "--tla" } else { "--ext" };
			let short = if tla { "-A" } else { "-V" };
			match v.flavour {
				Flavour::Str => push(&mut opts, &format!("{p}-str"), v.form, format!("{}={}", v.name, v.sval), Some(short)),
				Flavour::StrEnv => {
					push(&mut opts, &format!("{p}-str"), v.form, v.name.clone(), Some(short));
					if v.fault != 1 {
						env.push((v.name.clone(), v.sval.clone()));
					}
				}
				Flavour::Code => push(&mut opts, &format!("{p}-code"), v.form, format!("{}={}", v.name, v.code.text()), None),
				Flavour::CodeEnv => {
					push(&mut opts, &format!("{p}-code"), v.form, v.name.clone(), None);
					if v.fault != 1 {
						env.push((v.name.clone(), v.code.text()));
					}
				}
				Flavour::StrFile => push(&mut opts, &format!("{p}-str-file"), v.form, format!("{}={}", v.name, v.file), None),
				Flavour::CodeFile => push(&mut opts, &format!("{p}-code-file"), v.form, format!("{}={}", v.name, v.file), None),
			}
		}
		for (d, spelling, form) in &self.jdirs {
			let dir = match spelling {
				0 => dir_name(*d).to_owned(),
				1 => format!("./{}", dir_name(*d)),
				_ => format!("$W/{}", dir_name(*d)),
			};
			match form {
				0 => {
					opts.push("-J".into());
					opts.push(dir);
				}
				1 => {
					opts.push("--jpath".into());
					opts.push(dir);
				}
				2 => opts.push(format!("--jpath={dir}")),
				_ => opts.push(format!("-J{dir}")),
			}
		}
		if !self.envdirs.is_empty() {
			let parts: Vec<String> = self.envdirs.iter().map(|(d, abs)| if *abs { format!("$W/{}", DIRS[*d]) } else { DIRS[*d].to_owned() }).collect();
			env.push(("JSONNET_PATH".to_owned(), parts.join(":")));
		}
		if let Some((n, short)) = self.max_stack {
			opts.push(if short { "-s".into() } else { "--max-stack".into() });
			opts.push(n.to_string());
		}
		if let Some(mib) = self.os_stack {
			opts.push("--os-stack".into());
			opts.push(mib.to_string());
		}
		let o = &self.out;
		if o.string {
			opts.push("-S".into());
		}
		if o.yaml_stream {
			opts.push("-y".into());
		}
		if let Some(f) = o.format {
			opts.push("-f".into());
			opts.push(f.into());
		}
		if let Some(p) = o.padding {
			opts.push("--line-padding".into());
			opts.push(p.to_string());
		}
		match &o.sink {
			Sink::Stdout => {}
			Sink::File { path, c } => {
				opts.push("-o".into());
				opts.push(path.clone());
				if *c {
					opts.push("-c".into());
				}
			}
			Sink::Multi { dir, c } => {
				opts.push("-m".into());
				opts.push(dir.clone());
				if *c {
					opts.push("-c".into());
				}
			}
		}
		let mut stdin = None;
		let input: Vec<String> = match &self.input {
			Input::File(p) => vec![p.clone()],
			Input::Exec(long) => vec![if *long { "--exec".into() } else { "-e".into() }, self.program_text()],
			Input::Stdin => {
				stdin = Some(self.program_text());
				vec!["-".into()]
			}
		};
		let args = if self.opts_first { opts.into_iter().chain(input).collect() } else { input.into_iter().chain(opts).collect() };
		(args, env, stdin)
	}
	fn describe(&self) -> String {
		let (args, env, stdin) = self.command();
		let mut s = String::new();
		for (k, v) in &env {
			s.push_str(&format!("{k}={v:?} "));
		}
		s.push_str("jrsonnet");
		for a in &args {
			s.push_str(&format!(" {a:?}"));
		}
		if stdin.is_some() {
			s.push_str(" < program");
		}
		s.push_str("   (cwd = $W)\n");
		if !matches!(self.input, Input::Exec(_)) {
			s.push_str(&format!("  program:\n{}", self.program_text().lines().map(|l| format!("    {l}\n")).collect::<String>()));
		}
		for v in self.ext.iter().chain(self.tla.iter()).filter(|v| v.flavour.is_file()) {
			s.push_str(&format!(
				"  value file {}: {}\n",
				v.file,
				match v.fault {
					2 => "(missing)".to_owned(),
					3 => "(bytes ff fe 78: not UTF-8)".to_owned(),
					_ => format!("{:?}", v.payload()),
				}
			));
		}
		s.push_str(&self.tree.describe());
		s
	}
	fn materialise(&self, w: &Path) -> std::io::Result<()> {
		self.tree.materialise(w)?;
		std::fs::create_dir_all(w.join("out"))?;
		if let Input::File(_) = &self.input {
			std::fs::write(w.join(DIRS[self.prog.dir]).join("main.jsonnet"), self.program_text())?;
		}
		for v in self.ext.iter().chain(self.tla.iter()).filter(|v| v.flavour.is_file()) {
			let p = w.join(v.file.trim_start_matches("$W/"));
			match v.fault {
				2 => {}
				3 => std::fs::write(p, [0xff, 0xfe, b'x'])?,
				_ => std::fs::write(p, v.payload())?,
			}
		}
		Ok(())
	}
}

fn supplied(v: &Var) -> Supplied {
	match v.fault {
		1 => Supplied::Broken("the environment variable is not set".into()),
		2 => Supplied::Broken("the file does not exist".into()),
		3 => Supplied::Broken("the file is not UTF-8".into()),
		_ if v.flavour.is_code() => Supplied::Code(v.code.text()),
		_ => Supplied::Str(v.sval.clone()),
	}
}

pub struct Expected {
	stdout: Vec<u8>,
	/// files that must exist afterwards (path relative to the working directory)
	files: BTreeMap<PathBuf, Vec<u8>>,
}

fn cli_expected(cfg: &CliCfg, w: &Path) -> LibOut<Expected> {
	let sub = |s: &str| s.replace("$W", &w.to_string_lossy());
	let lib = LibCfg {
		cwd: w.to_owned(),
		search: cfg.search().iter().map(|d| w.join(dir_name(*d))).collect(),
		mem: None,
		ext: cfg.ext.iter().map(|v| (v.name.clone(), supplied(v))).collect(),
		tla: cfg.tla.iter().map(|v| (v.name.clone(), supplied(v))).collect(),
		// documented default of --max-stack
		max_stack: cfg.max_stack.map(|m| m.0).unwrap_or(512),
		input: match &cfg.input {
			Input::File(p) => LibInput::File(w.join(sub(p))),
			Input::Exec(_) => LibInput::Snippet("<cmdline>".into(), cfg.program_text()),
			Input::Stdin => LibInput::Snippet("<stdin>".into(), cfg.program_text()),
		},
		natives: false,
	};
	let fmt = cfg.out.make_format();
	let sink = cfg.out.sink.clone();
	lib_eval(&lib, None, move |val| {
		let mut e = Expected { stdout: vec![], files: BTreeMap::new() };
		match &sink {
			Sink::Multi { dir, .. } => {
				let Val::Obj(obj) = val else {
					return Err(rt_err(format!("value should be object for --multi manifest, got {}", val.value_type())));
				};
				let dir = sub(dir);
				for f in obj.fields() {
					let v = obj.get(f.clone())?.expect("listed field exists");
					let mut text = v.manifest(&fmt)?.into_bytes();
					if fmt.file_trailing_newline() {
						text.push(b'\n');
					}
					let listed = Path::new(&dir).join(f.as_str());
					e.stdout.extend_from_slice(listed.to_string_lossy().as_bytes());
					e.stdout.push(b'\n');
					e.files.insert(norm(&w.join(listed)), text);
				}
			}
			Sink::File { path, .. } => {
				let mut text = val.manifest(&fmt)?.into_bytes();
				text.push(b'\n');
				e.files.insert(norm(&w.join(sub(path))), text);
			}
			Sink::Stdout => {
				let text = val.manifest(&fmt)?;
				if !text.is_empty() {
					e.stdout = text.into_bytes();
					e.stdout.push(b'\n');
				}
			}
		}
		Ok(e)
	})
}

fn walk(dir: &Path, out: &mut BTreeMap<PathBuf, Vec<u8>>) {
	if let Ok(rd) = std::fs::read_dir(dir) {
		for e in rd.flatten() {
			let p = e.path();
			if p.is_dir() {
				walk(&p, out);
			} else {
				out.insert(p.clone(), std::fs::read(&p).unwrap_or_default());
			}
		}
	}
}

/// run the executable once in a fresh working directory and compare with the oracle; Err = problems
fn cli_once(cfg: &CliCfg) -> Result<(LibOut<()>, Vec<String>), String> {
	let sc = scratch("cli");
	let w = sc.0.clone();
	cfg.materialise(&w).map_err(|e| format!("cannot lay out the case: {e}"))?;
	let want = cli_expected(cfg, &w);
	let ws = w.to_string_lossy().into_owned();
	let (args, env, stdin) = cfg.command();
	let args: Vec<String> = args.iter().map(|a| a.replace("$W", &ws)).collect();
	let env: Vec<(String, String)> = env.iter().map(|(k, v)| (k.clone(), v.replace("$W", &ws))).collect();
	let got = run_proc(&bin("jrsonnet"), &args, &w, &env, stdin.as_deref().map(|s| s.as_bytes())).map_err(|e| format!("cannot run the executable: {e}"))?;
	let mut problems = vec![];
	if let Some(c) = got.crashed() {
		problems.push(format!("the executable crashed: {c}"));
	}
	let summary = match &want {
		LibOut::Ok(exp) => {
			if !got.ok() {
				problems.push(format!("the library computes a value, the executable fails ({}): {}", got.status(), clip(lossy(&got.stderr).trim(), 400)));
			} else {
				if got.stdout != exp.stdout {
					problems.push(format!("stdout differs: expected {:?}, got {:?}", clip(&lossy(&exp.stdout), 400), clip(&lossy(&got.stdout), 400)));
				}
				for (p, content) in &exp.files {
					match std::fs::read(p) {
						Ok(c) if &c == content => {}
						Ok(c) => problems.push(format!("output file {} differs: expected {:?}, got {:?}", p.display().to_string().replace(&ws, "$W"), clip(&lossy(content), 300), clip(&lossy(&c), 300))),
						Err(e) => problems.push(format!("output file {} is missing: {e}", p.display().to_string().replace(&ws, "$W"))),
					}
				}
				if let Sink::Multi { dir, .. } = &cfg.out.sink {
					let mut have = BTreeMap::new();
					walk(&norm(&w.join(dir.replace("$W", &ws))), &mut have);
					for p in have.keys() {
						if !exp.files.contains_key(p) {
							problems.push(format!("-m wrote a file nobody asked for: {}", p.display().to_string().replace(&ws, "$W")));
						}
					}
				}
			}
			LibOut::Ok(())
		}
		LibOut::Err(e) => {
			if got.ok() {
				problems.push(format!("the library reports an error ({}), the executable exits 0 with stdout {:?}", clip(e, 200), clip(&lossy(&got.stdout), 300)));
			} else {
				if got.stderr.is_empty() {
					problems.push(format!("the executable fails ({}) without a message on stderr", got.status()));
				}
				// -m lists every file before it is written: a listing may precede the error
				if !got.stdout.is_empty() && !matches!(cfg.out.sink, Sink::Multi { .. }) {
					problems.push(format!("the executable fails but prints to stdout: {:?}", clip(&lossy(&got.stdout), 300)));
				}
			}
			LibOut::Err(e.clone())
		}
		LibOut::Panic(p) => LibOut::Panic(p.clone()),
	};
	Ok((summary, problems))
}

pub fn cli_decide(cfg: &CliCfg) -> CaseOut {
	let text = cfg.describe();
	let mut classes = vec![format!("cli:mode:{}", cfg.out.mode_tag())];
	for v in &cfg.ext {
		classes.push(format!("cli:ext:{}", v.flavour.tag()));
	}
	for v in &cfg.tla {
		classes.push(format!("cli:tla:{}", v.flavour.tag()));
	}
	for v in cfg.ext.iter().chain(cfg.tla.iter()) {
		if v.fault != 0 {
			classes.push(format!("cli:supply-fault:{}", ["", "env-missing", "file-missing", "file-not-utf8"][v.fault as usize]));
		}
		if v.form == 2 {
			classes.push("cli:short-option".into());
		}
	}
	classes.push(
		match &cfg.out.sink {
			Sink::Stdout => "cli:sink:stdout",
			Sink::File { c: false, .. } => "cli:sink:-o",
			Sink::File { c: true, .. } => "cli:sink:-o -c",
			Sink::Multi { c: false, .. } => "cli:sink:-m",
			Sink::Multi { c: true, .. } => "cli:sink:-m -c",
		}
		.to_owned(),
	);
	if cfg.out.padding.is_some() {
		classes.push("cli:--line-padding".into());
	}
	classes.push(
		match &cfg.input {
			Input::File(_) => "cli:input:file",
			Input::Exec(_) => "cli:input:-e",
			Input::Stdin => "cli:input:stdin",
		}
		.to_owned(),
	);
	classes.push(format!("cli:max-stack:{}", cfg.max_stack.map(|m| m.0.to_string()).unwrap_or("default".into())));
	if cfg.os_stack.is_some() {
		classes.push(format!("cli:--os-stack with max-stack {}", cfg.max_stack.map(|m| m.0.to_string()).unwrap_or("default".into())));
	}
	classes.push(format!("cli:-J x{}", cfg.jdirs.len()));
	classes.push(format!("cli:JSONNET_PATH x{}", cfg.envdirs.len()));
	let search = cfg.search();
	let shadowed = ["la.libsonnet", "lb.libsonnet", "lc.libsonnet", "t.txt"].iter().any(|n| cfg.tree.files.iter().filter(|f| f.name == *n && search.contains(&f.dir)).count() >= 2);
	if shadowed {
		classes.push("cli:shadowing".into());
	}
	let (fe, fp) = forced_reads(&cfg.prog);
	let read = cfg.ext.iter().filter(|v| fe.contains(&v.name)).count() + cfg.tla.iter().filter(|v| fp.contains(&v.name)).count();
	let via_search = cfg.prog.atoms.iter().any(|a| matches!(a, Atom::Import(_, sp) if cfg.tree.resolve(cfg.prog.dir, sp, &search).map(|i| cfg.tree.files[i].dir >= 2).unwrap_or(false)));
	if via_search {
		classes.push("cli:import-through-search-path".into());
	}
	let nontrivial = read >= 2 || via_search;
	let (want, problems) = match cli_once(cfg) {
		Ok(x) => x,
		Err(e) => return CaseOut::discard(text, &e).classes(classes),
	};
	match &want {
		LibOut::Ok(()) => classes.push("cli:lib:value".into()),
		LibOut::Err(e) => {
			classes.push("cli:lib:error".into());
			if e.contains("output should be") || e.contains("should be object") || e.contains("manifest") {
				classes.push("cli:error:mode-inapplicable".into());
			} else {
				classes.push("cli:error:program-or-options".into());
			}
		}
		LibOut::Panic(p) => return CaseOut::discard(text, &format!("the library API panicked: {}", clip(p, 120))).classes(classes),
	}
	if problems.is_empty() {
		return CaseOut::pass(text, nontrivial).classes(classes);
	}
	// recorded finding: signature = the executable is killed by a signal, the options contain --os-stack, and exactly
	// the same command line without --os-stack agrees with the library
	if XML_OS_LISTED.load(std::sync::atomic::Ordering::SeqCst) && cfg.os_stack.is_some() && problems.iter().any(|p| p.starts_with("the executable crashed: killed by signal")) {
		let r = CliCfg { os_stack: None, ..cfg.clone() };
		if matches!(cli_once(&r), Ok((_, p)) if p.is_empty()) {
			return CaseOut { verdict: Verdict::Known(K_XML_OS.into()), text, nontrivial, classes };
		}
	}
	CaseOut::fail(text, problems.join("\n")).classes(classes)
}

// ------------------------------------------------------------------------------------------ stage: capi (parent side)

#[derive(Clone, Debug)]
pub struct CapiCase {
	pub tree: Tree,
	/// files are served by jsonnet_import_callback from memory instead of lying on disk
	pub mem: bool,
	pub prog: Prog,
	pub ext: Vec<Var>,
	pub tla: Vec<Var>,
	/// jsonnet_jpath_add calls in order
	pub jpaths: Vec<usize>,
	pub max_stack: Option<u32>,
	pub string_output: Option<bool>,
	/// jsonnet_evaluate_file* instead of jsonnet_evaluate_snippet*
	pub file: bool,
	/// 0 single, 1 multi, 2 stream
	pub kind: u8,
	pub natives: bool,
	/// another VM with other settings (max_stack 20, string output, an ext var) is made, used and destroyed first
	pub other_vm: bool,
}

pub fn gen_capi(src: &mut Src) -> CapiCase {
	let kind = src.weighted(&[5, 3, 3]) as u8;
	let file = src.chance(2, 5);
	let mem = src.chance(1, 4);
	let string_output = match src.weighted(&[4, 1, 3]) {
		0 => None,
		1 => Some(false),
		_ => Some(true),
	};
	let fitting: &[Shape] = match (kind, string_output == Some(true)) {
		(0, true) => &[Shape::Str, Shape::Str, Shape::Num],
		(0, false) => ALL_SHAPES,
		(1, true) => &[Shape::ObjStr, Shape::ObjStr, Shape::Obj],
		(1, false) => &[Shape::Obj, Shape::ObjStr, Shape::ObjArr, Shape::Ini],
		(_, true) => &[Shape::First, Shape::Arr],
		_ => &[Shape::Arr, Shape::ArrObj, Shape::Xml],
	};
	let shape = if src.chance(1, 6) { *src.pick(ALL_SHAPES) } else { *src.pick(fitting) };
	let flavours = &[Flavour::Str, Flavour::Code];
	let main_dir = if file && src.chance(1, 3) { 1 } else { 0 };
	let mut jpaths = vec![];
	if !mem {
		for _ in 0..src.weighted(&[3, 2, 2, 1]) {
			jpaths.push(2 + src.below(5));
		}
	}
	let search: Vec<usize> = jpaths.iter().rev().copied().collect();
	let tree = gen_tree(src, main_dir, &search);
	let (prog_imports, code_imports) = resolvable(&tree, main_dir, &search);
	let mut ext = vec![];
	for i in 0..src.weighted(&[2, 4, 3]) {
		let name = EXT_NAMES[(i * 2 + src.below(2)) % EXT_NAMES.len()];
		ext.push(gen_var(src, name, i, false, flavours, &code_imports));
	}
	let mut tla = vec![];
	for i in 0..src.weighted(&[3, 4, 2]) {
		tla.push(gen_var(src, TLA_NAMES[i], i, true, flavours, &code_imports));
	}
	let other_vm = src.chance(1, 8);
	let max_stack = if other_vm {
		None
	} else {
		match src.weighted(&[3, 2, 1]) {
			0 => None,
			1 => Some(20),
			_ => Some(500),
		}
	};
	let depths: &'static [u32] = match (other_vm, max_stack) {
		(true, _) => &[100],
		(_, None) => &[0, 0, 0, 50],
		(_, Some(20)) => &[0, 8, 60],
		_ => &[0, 300, 700],
	};
	let natives = src.chance(2, 5);
	let mut prog = gen_prog(src, &ext, &tla, &ProgWish { shape, allow_sub_field: true, natives, depths, imports: prog_imports }, main_dir);
	if string_output == Some(true) && kind != 0 {
		// an empty string cannot be told from the end of a \0-separated list: keep such elements out of multi / stream
		for a in prog.atoms.iter_mut() {
			if matches!(a, Atom::Lit(l) if l == "\"\"") {
				*a = Atom::Lit("\"x\"".into());
			}
		}
	}
	CapiCase { tree, mem, prog, ext, tla, jpaths, max_stack, string_output, file, kind, natives, other_vm }
}

pub enum CRes {
	Text(String),
	Items(Vec<String>),
}
pub enum Obs {
	Died(String),
	Res { err: i64, text: String, items: Option<Vec<String>>, side: Vec<String> },
	Infra(String),
}

fn hex(b: &[u8]) -> String {
	b.iter().map(|x| format!("{x:02x}")).collect()
}
fn unhex(s: &str) -> Vec<u8> {
	(0..s.len() / 2).filter_map(|i| u8::from_str_radix(&s[2 * i..2 * i + 2], 16).ok()).collect()
}

impl CapiCase {
	fn search(&self) -> Vec<usize> {
		self.jpaths.iter().rev().copied().collect()
	}
	/// program text, ext vars and TLAs
	fn effective(&self) -> (String, Vec<(String, Supplied)>, Vec<(String, Supplied)>) {
		(render_prog(&self.prog), self.ext.iter().map(|v| (v.name.clone(), supplied(v))).collect(), self.tla.iter().map(|v| (v.name.clone(), supplied(v))).collect())
	}
	fn entry(&self) -> String {
		format!("jsonnet_evaluate_{}{}", if self.file { "file" } else { "snippet" }, ["", "_multi", "_stream"][self.kind as usize])
	}
	fn main_rel(&self) -> String {
		norm(&Path::new(DIRS[self.prog.dir]).join("main.jsonnet")).to_string_lossy().into_owned()
	}
	/// the call sequence (`vm` 0 is the optional other VM)
	fn script(&self) -> Vec<Value> {
		let (text, ext, tla) = self.effective();
		let mut s = vec![];
		let vm = if self.other_vm {
			s.extend([
				json!(["make", 0]),
				json!(["max_stack", 0, 20]),
				json!(["string_output", 0, 1]),
				json!(["ext_var", 0, "e0", "other vm"]),
				json!(["eval", 0, "jsonnet_evaluate_snippet", "other.jsonnet", "std.extVar(\"e0\")"]),
				json!(["destroy", 0]),
			]);
			s.push(json!(["make", 1]));
			1
		} else {
			s.push(json!(["make", 0]));
			0
		};
		if self.natives {
			s.push(json!(["natives", vm]));
		}
		if self.mem {
			s.push(json!(["import_callback", vm]));
		}
		for d in &self.jpaths {
			s.push(json!(["jpath_add", vm, DIRS[*d]]));
		}
		if let Some(m) = self.max_stack {
			s.push(json!(["max_stack", vm, m]));
		}
		if let Some(o) = self.string_output {
			s.push(json!(["string_output", vm, o as i32]));
		}
		for (k, v) in &ext {
			match v {
				Supplied::Str(x) => s.push(json!(["ext_var", vm, k, x])),
				Supplied::Code(x) => s.push(json!(["ext_code", vm, k, x])),
				Supplied::Broken(_) => {}
			}
		}
		for (k, v) in &tla {
			match v {
				Supplied::Str(x) => s.push(json!(["tla_var", vm, k, x])),
				Supplied::Code(x) => s.push(json!(["tla_code", vm, k, x])),
				Supplied::Broken(_) => {}
			}
		}
		if self.file {
			s.push(json!(["eval", vm, self.entry(), self.main_rel(), ""]));
		} else {
			s.push(json!(["eval", vm, self.entry(), "snip.jsonnet", text]));
		}
		s.push(json!(["destroy", vm]));
		s
	}
	fn describe(&self) -> String {
		let (text, _, _) = self.effective();
		let mut s = String::new();
		for op in self.script() {
			let a: Vec<String> = op.as_array().unwrap()[2..].iter().map(|x| x.to_string()).collect();
			let name = op[0].as_str().unwrap();
			let name = if name == "eval" { String::new() } else { format!("jsonnet_{name}") };
			s.push_str(&format!("  {name}(vm{}{}{})\n", op[1], if a.is_empty() { "" } else { ", " }, a.join(", ")));
		}
		if self.file {
			s.push_str(&format!("  {} ({}):\n{}", self.main_rel(), if self.mem { "served by the import callback" } else { "on disk" }, text.lines().map(|l| format!("    {l}\n")).collect::<String>()));
		}
		if self.mem {
			s.push_str("  files below are served by the import callback (0 = success, found_here = absolute path), not on disk\n");
		}
		s.push_str(&self.tree.describe());
		s
	}
	fn mem_files(&self, w: &Path, text: &str) -> HashMap<PathBuf, Vec<u8>> {
		let mut m = HashMap::new();
		for (i, f) in self.tree.files.iter().enumerate() {
			m.insert(norm(&w.join(DIRS[f.dir]).join(&f.name)), self.tree.file_text(i));
		}
		if self.file {
			m.insert(norm(&w.join(self.main_rel())), text.as_bytes().to_vec());
		}
		m
	}
}

fn capi_expected(c: &CapiCase, w: &Path) -> LibOut<CRes> {
	let (text, ext, tla) = c.effective();
	let lib = LibCfg {
		cwd: w.to_owned(),
		// libjsonnet.h: "The search order is last to first, so more recently appended paths take precedence."
		search: c.search().iter().map(|d| w.join(DIRS[*d])).collect(),
		mem: if c.mem { Some(c.mem_files(w, &text)) } else { None },
		ext,
		tla,
		// no jsonnet_max_stack call: the library's own default
		max_stack: c.max_stack.unwrap_or(200) as usize,
		input: if c.file { LibInput::File(w.join(c.main_rel())) } else { LibInput::Snippet("snip.jsonnet".into(), text) },
		natives: c.natives,
	};
	let strict_string = c.string_output == Some(true);
	let kind = c.kind;
	lib_eval(&lib, None, move |val| {
		// libjsonnet.h, jsonnet_string_output: "Expect a string as output and don't JSON encode it."
		let fmt: Box<dyn ManifestFormat> = if strict_string { Box::new(StringFormat) } else { Box::new(JsonFormat::default()) };
		Ok(match kind {
			0 => CRes::Text(val.manifest(&fmt)?),
			1 => {
				let Val::Obj(obj) = val else { return Err(rt_err("multi output wants an object")) };
				let mut items = vec![];
				for f in obj.fields() {
					items.push(f.to_string());
					items.push(obj.get(f.clone())?.expect("listed field").manifest(&fmt)?);
				}
				CRes::Items(items)
			}
			_ => {
				let Val::Arr(arr) = val else { return Err(rt_err("stream output wants an array")) };
				let mut items = vec![];
				for v in arr.iter() {
					items.push(v?.manifest(&fmt)?);
				}
				CRes::Items(items)
			}
		})
	})
}

fn capi_observe(c: &CapiCase, w: &Path) -> Obs {
	let (text, _, _) = c.effective();
	let mem: serde_json::Map<String, Value> = if c.mem { c.mem_files(w, &text).into_iter().map(|(k, v)| (k.to_string_lossy().into_owned(), json!(hex(&v)))).collect() } else { Default::default() };
	let req = json!({"op": "capi", "so": bin("libjsonnet.so"), "cwd": w.to_string_lossy(), "mem": mem, "script": c.script()});
	match worker::ask(&req, 60) {
		Reply::Ok(v) => match v["o"].as_str() {
			Some("capi") => {
				let Some(last) = v["results"].as_array().and_then(|a| a.last()) else { return Obs::Infra("no result".into()) };
				let mut side = vec![];
				if v["realloc_ok"].as_bool() != Some(true) {
					side.push("jsonnet_realloc: allocate 8 bytes / grow to 4096 (content kept) / free (returns NULL) misbehaved".to_owned());
				}
				if c.other_vm {
					let first = &v["results"][0];
					if first["err"].as_i64() != Some(0) || first["text"].as_str() != Some("other vm") {
						side.push(format!("the other VM (string output, ext var e0 = \"other vm\", program std.extVar(\"e0\")) gives {first}"));
					}
				}
				Obs::Res {
					side,
					err: last["err"].as_i64().unwrap_or(-1),
					text: last["text"].as_str().unwrap_or("").to_owned(),
					items: last["items"].as_array().map(|a| a.iter().map(|x| x.as_str().unwrap_or("").to_owned()).collect()),
				}
			}
			_ => Obs::Infra(clip(&v.to_string(), 300)),
		},
		Reply::Died { status, stderr } => {
			if status.starts_with("cannot start") {
				Obs::Infra(status)
			} else {
				let first = stderr.lines().find(|l| !l.trim().is_empty() && !l.starts_with("thread ")).unwrap_or("").to_owned();
				let at = stderr.lines().find(|l| l.contains("panicked at")).unwrap_or("").to_owned();
				Obs::Died(format!("{status}: {} {}", clip(at.trim(), 160), clip(first.trim(), 200)))
			}
		}
		Reply::Timeout => Obs::Died("no answer within 60 s".into()),
	}
}

/// one run in a fresh working directory; Ok((library outcome, disagreements))
fn capi_once(c: &CapiCase) -> Result<(LibOut<()>, Vec<String>), String> {
	let sc = scratch("capi");
	let w = sc.0.clone();
	let (text, _, _) = c.effective();
	if c.mem {
		for d in DIRS {
			std::fs::create_dir_all(w.join(d)).map_err(|e| e.to_string())?;
		}
	} else {
		c.tree.materialise(&w).map_err(|e| e.to_string())?;
		if c.file {
			std::fs::write(w.join(c.main_rel()), &text).map_err(|e| e.to_string())?;
		}
	}
	let want = capi_expected(c, &w);
	if matches!(&want, LibOut::Ok(CRes::Items(i)) if c.kind == 2 && i.iter().any(|x| x.is_empty())) {
		return Err("an empty element cannot be told from the end of a \\0-separated stream".into());
	}
	let got = capi_observe(c, &w);
	let mut problems = vec![];
	let entry = c.entry();
	let summary = match (&want, &got) {
		(_, Obs::Infra(e)) => return Err(format!("worker: {e}")),
		(LibOut::Panic(p), _) => LibOut::Panic(p.clone()),
		(w_, Obs::Died(how)) => {
			problems.push(format!("the process died inside the C library ({how}); the library API gives {}", match w_ {
				LibOut::Ok(_) => "a value".to_owned(),
				LibOut::Err(e) => format!("the error {}", clip(e, 120)),
				LibOut::Panic(_) => unreachable!(),
			}));
			match w_ {
				LibOut::Ok(_) => LibOut::Ok(()),
				LibOut::Err(e) => LibOut::Err(e.clone()),
				LibOut::Panic(p) => LibOut::Panic(p.clone()),
			}
		}
		(LibOut::Ok(exp), Obs::Res { err, text, items, side }) => {
			problems.extend(side.iter().cloned());
			if *err != 0 {
				problems.push(format!("{entry}: *error = {err} with {:?}; the library API computes a value", clip(text, 300)));
			} else {
				match (exp, items) {
					(CRes::Text(e), None) if e == text => {}
					(CRes::Text(e), _) => problems.push(format!("{entry}: text differs: expected {:?}, got {:?}", clip(e, 300), clip(text, 300))),
					(CRes::Items(e), Some(g)) if e == g => {}
					(CRes::Items(e), g) => problems.push(format!("{entry}: decoded \\0-separated list differs: expected {:?}, got {:?}", e, g)),
				}
			}
			LibOut::Ok(())
		}
		(LibOut::Err(e), Obs::Res { err, text, items, side }) => {
			problems.extend(side.iter().cloned());
			if *err == 0 {
				problems.push(format!("{entry}: *error = 0 with {:?}; the library API reports the error {}", items.as_ref().map(|i| format!("{i:?}")).unwrap_or(clip(text, 300)), clip(e, 200)));
			} else if text.is_empty() {
				problems.push(format!("{entry}: *error = {err} but the message is empty"));
			}
			LibOut::Err(e.clone())
		}
	};
	Ok((summary, problems))
}

pub fn capi_decide(c: &CapiCase, known: &[String]) -> CaseOut {
	let text = c.describe();
	let mut classes: Vec<String> = vec![];
	for op in c.script() {
		let n = op[0].as_str().unwrap();
		match n {
			"eval" => classes.push(format!("capi:{}", op[2].as_str().unwrap())),
			"natives" => classes.extend(["capi:jsonnet_native_callback".to_owned(), "capi:jsonnet_json_make/extract".to_owned()]),
			_ => classes.push(format!("capi:jsonnet_{n}")),
		}
	}
	classes.push("capi:jsonnet_realloc".into());
	if c.other_vm {
		classes.push("capi:two-vms".into());
	}
	classes.sort();
	classes.dedup();
	let nontrivial = c.ext.len() + c.tla.len() + c.natives as usize + c.mem as usize + (!c.jpaths.is_empty()) as usize >= 2;
	let (want, problems) = match capi_once(c) {
		Ok(x) => x,
		Err(e) => return CaseOut::discard(text, &e).classes(classes),
	};
	match &want {
		LibOut::Ok(()) => classes.push("capi:lib:value".into()),
		LibOut::Err(_) => classes.push("capi:lib:error".into()),
		LibOut::Panic(p) => return CaseOut::discard(text, &format!("the library API panicked: {}", clip(p, 120))).classes(classes),
	}
	if problems.is_empty() {
		return CaseOut::pass(text, nontrivial).classes(classes);
	}
	// recorded finding: with an import callback set, code given as ext var / TLA kills the process (the callback resolver is
	// asked to load "<inline code>").  Re-decide with exactly the callback taken away: the same files, on disk
	let inline_code = c.ext.iter().chain(c.tla.iter()).any(|v| v.flavour.is_code());
	if c.mem && inline_code && known.iter().any(|k| k == K_CB_CODE) {
		let r = CapiCase { mem: false, ..c.clone() };
		if matches!(capi_once(&r), Ok((_, p)) if p.is_empty()) {
			return CaseOut { verdict: Verdict::Known(K_CB_CODE.into()), text, nontrivial, classes };
		}
	}
	CaseOut::fail(text, problems.join("\n")).classes(classes)
}

fn capi_load_case() -> CaseOut {
	let text = "dlopen(\"libjsonnet.so\", RTLD_NOW | RTLD_LOCAL) in a fresh process".to_owned();
	worker::retire();
	let r = worker::ask(&json!({"op": "capi", "so": bin("libjsonnet.so"), "probe": true}), 60);
	worker::retire();
	match r {
		Reply::Ok(v) if v["o"] == "loaded" => CaseOut::pass(text, true).class("capi:dlopen"),
		Reply::Ok(v) if v["o"] == "load-failed" => {
			let why = v["t"].as_str().unwrap_or("").to_owned();
			CaseOut::fail(text, format!("the shared library cannot be loaded: {why}")).class("capi:dlopen")
		}
		Reply::Ok(v) => CaseOut::discard(text, &clip(&v.to_string(), 200)),
		Reply::Died { status, stderr } => CaseOut::fail(text, format!("loading the library killed the process: {status} {}", clip(&stderr, 300))),
		Reply::Timeout => CaseOut::discard(text, "timeout"),
	}
}

// ------------------------------------------------------------------------------------------ stage: capi (worker side)

type Vm = *mut c_void;
type JV = *mut c_void;
type ImportCb = unsafe extern "C" fn(*mut c_void, *const c_char, *const c_char, *mut *mut c_char, *mut *mut c_char, *mut usize) -> c_int;
type NativeCb = unsafe extern "C" fn(*mut c_void, *const *const c_void, *mut c_int) -> JV;
type EvalSnippet = unsafe extern "C" fn(Vm, *const c_char, *const c_char, *mut c_int) -> *mut c_char;
type EvalFile = unsafe extern "C" fn(Vm, *const c_char, *mut c_int) -> *mut c_char;
type SetKv = unsafe extern "C" fn(Vm, *const c_char, *const c_char);

struct Lib {
	handle: *mut c_void,
	make: unsafe extern "C" fn() -> Vm,
	destroy: unsafe extern "C" fn(Vm),
	max_stack: unsafe extern "C" fn(Vm, c_uint),
	string_output: unsafe extern "C" fn(Vm, c_int),
	ext_var: SetKv,
	ext_code: SetKv,
	tla_var: SetKv,
	tla_code: SetKv,
	jpath_add: unsafe extern "C" fn(Vm, *const c_char),
	import_callback: unsafe extern "C" fn(Vm, ImportCb, *mut c_void),
	native_callback: unsafe extern "C" fn(Vm, *const c_char, NativeCb, *mut c_void, *const *const c_char),
	realloc: unsafe extern "C" fn(Vm, *mut c_char, usize) -> *mut c_char,
	json_extract_string: unsafe extern "C" fn(Vm, *const c_void) -> *const c_char,
	json_extract_number: unsafe extern "C" fn(Vm, *const c_void, *mut f64) -> c_int,
	json_extract_bool: unsafe extern "C" fn(Vm, *const c_void) -> c_int,
	json_extract_null: unsafe extern "C" fn(Vm, *const c_void) -> c_int,
	json_make_string: unsafe extern "C" fn(Vm, *const c_char) -> JV,
	json_make_number: unsafe extern "C" fn(Vm, f64) -> JV,
	json_make_bool: unsafe extern "C" fn(Vm, c_int) -> JV,
	json_make_null: unsafe extern "C" fn(Vm) -> JV,
	json_make_array: unsafe extern "C" fn(Vm) -> JV,
	json_make_object: unsafe extern "C" fn(Vm) -> JV,
	json_array_append: unsafe extern "C" fn(Vm, JV, JV),
	json_object_append: unsafe extern "C" fn(Vm, JV, *const c_char, JV),
	json_destroy: unsafe extern "C" fn(Vm, JV),
}
unsafe impl Send for Lib {}
unsafe impl Sync for Lib {}
static LIB: OnceLock<Result<Lib, String>> = OnceLock::new();

unsafe fn dl_error() -> String {
	let e = libc::dlerror();
	if e.is_null() {
		"unknown dlopen error".into()
	} else {
		CStr::from_ptr(e).to_string_lossy().into_owned()
	}
}
unsafe fn sym<T: Copy>(h: *mut c_void, name: &str) -> Result<T, String> {
	let c = CString::new(name).unwrap();
	let p = libc::dlsym(h, c.as_ptr());
	if p.is_null() {
		return Err(format!("symbol {name} is missing"));
	}
	assert_eq!(std::mem::size_of::<T>(), std::mem::size_of::<*mut c_void>());
	Ok(std::mem::transmute_copy::<*mut c_void, T>(&p))
}
unsafe fn load_lib(so: &str) -> Result<Lib, String> {
	let cso = CString::new(so).unwrap();
	let h = libc::dlopen(cso.as_ptr(), libc::RTLD_NOW | libc::RTLD_LOCAL);
	if h.is_null() {
		return Err(dl_error());
	}
	Ok(Lib {
		handle: h,
		make: sym(h, "jsonnet_make")?,
		destroy: sym(h, "jsonnet_destroy")?,
		max_stack: sym(h, "jsonnet_max_stack")?,
		string_output: sym(h, "jsonnet_string_output")?,
		ext_var: sym(h, "jsonnet_ext_var")?,
		ext_code: sym(h, "jsonnet_ext_code")?,
		tla_var: sym(h, "jsonnet_tla_var")?,
		tla_code: sym(h, "jsonnet_tla_code")?,
		jpath_add: sym(h, "jsonnet_jpath_add")?,
		import_callback: sym(h, "jsonnet_import_callback")?,
		native_callback: sym(h, "jsonnet_native_callback")?,
		realloc: sym(h, "jsonnet_realloc")?,
		json_extract_string: sym(h, "jsonnet_json_extract_string")?,
		json_extract_number: sym(h, "jsonnet_json_extract_number")?,
		json_extract_bool: sym(h, "jsonnet_json_extract_bool")?,
		json_extract_null: sym(h, "jsonnet_json_extract_null")?,
		json_make_string: sym(h, "jsonnet_json_make_string")?,
		json_make_number: sym(h, "jsonnet_json_make_number")?,
		json_make_bool: sym(h, "jsonnet_json_make_bool")?,
		json_make_null: sym(h, "jsonnet_json_make_null")?,
		json_make_array: sym(h, "jsonnet_json_make_array")?,
		json_make_object: sym(h, "jsonnet_json_make_object")?,
		json_array_append: sym(h, "jsonnet_json_array_append")?,
		json_object_append: sym(h, "jsonnet_json_object_append")?,
		json_destroy: sym(h, "jsonnet_json_destroy")?,
	})
}

struct CbCtx {
	vm: Vm,
	files: HashMap<String, Vec<u8>>,
}
fn the_lib() -> &'static Lib {
	LIB.get().and_then(|r| r.as_ref().ok()).expect("library loaded")
}

unsafe fn c_alloc(vm: Vm, bytes: &[u8]) -> *mut c_char {
	let lib = the_lib();
	let p = (lib.realloc)(vm, std::ptr::null_mut(), bytes.len().max(1));
	if !p.is_null() && !bytes.is_empty() {
		std::ptr::copy_nonoverlapping(bytes.as_ptr(), p.cast::<u8>(), bytes.len());
	}
	p
}

/// JsonnetImportCallback as libjsonnet.h describes it: 0 = success (content in *buf, path in *found_here), 1 = failure
unsafe extern "C" fn import_cb(ctx: *mut c_void, base: *const c_char, rel: *const c_char, found_here: *mut *mut c_char, buf: *mut *mut c_char, buflen: *mut usize) -> c_int {
	let cx = &*(ctx as *const CbCtx);
	let base = CStr::from_ptr(base).to_string_lossy().into_owned();
	let rel = CStr::from_ptr(rel).to_string_lossy().into_owned();
	let full = norm(&Path::new(&base).join(&rel)).to_string_lossy().into_owned();
	match cx.files.get(&full) {
		Some(content) => {
			*buf = c_alloc(cx.vm, content);
			*buflen = content.len();
			let mut fh = full.into_bytes();
			fh.push(0);
			*found_here = c_alloc(cx.vm, &fh);
			0
		}
		None => {
			let msg = format!("{full} not found");
			*buf = c_alloc(cx.vm, msg.as_bytes());
			*buflen = msg.len();
			1
		}
	}
}

unsafe fn fail_with(cx: &CbCtx, success: *mut c_int, msg: &str) -> JV {
	*success = 0;
	let c = CString::new(msg).unwrap_or_default();
	(the_lib().json_make_string)(cx.vm, c.as_ptr())
}
unsafe extern "C" fn native_add(ctx: *mut c_void, argv: *const *const c_void, success: *mut c_int) -> JV {
	let cx = &*(ctx as *const CbCtx);
	let lib = the_lib();
	let (mut a, mut b) = (0f64, 0f64);
	if (lib.json_extract_number)(cx.vm, *argv, &mut a) == 1 && (lib.json_extract_number)(cx.vm, *argv.add(1), &mut b) == 1 {
		*success = 1;
		(lib.json_make_number)(cx.vm, a + b)
	} else {
		fail_with(cx, success, "nativeAdd wants two numbers")
	}
}
unsafe extern "C" fn native_concat(ctx: *mut c_void, argv: *const *const c_void, success: *mut c_int) -> JV {
	let cx = &*(ctx as *const CbCtx);
	let lib = the_lib();
	let a = (lib.json_extract_string)(cx.vm, *argv);
	let b = (lib.json_extract_string)(cx.vm, *argv.add(1));
	if a.is_null() || b.is_null() {
		return fail_with(cx, success, "nativeConcat wants two strings");
	}
	let mut s = CStr::from_ptr(a).to_bytes().to_vec();
	s.extend_from_slice(CStr::from_ptr(b).to_bytes());
	s.push(0);
	*success = 1;
	(lib.json_make_string)(cx.vm, s.as_ptr().cast())
}
unsafe extern "C" fn native_describe(ctx: *mut c_void, argv: *const *const c_void, success: *mut c_int) -> JV {
	let cx = &*(ctx as *const CbCtx);
	let lib = the_lib();
	let x = *argv;
	let mut n = 0f64;
	let s = (lib.json_extract_string)(cx.vm, x);
	let (kind, v): (&[u8], JV) = if (lib.json_extract_null)(cx.vm, x) == 1 {
		(b"null\0", (lib.json_make_null)(cx.vm))
	} else if (lib.json_extract_bool)(cx.vm, x) != 2 {
		(b"bool\0", (lib.json_make_bool)(cx.vm, (lib.json_extract_bool)(cx.vm, x)))
	} else if (lib.json_extract_number)(cx.vm, x, &mut n) == 1 {
		(b"number\0", (lib.json_make_number)(cx.vm, n * 2.0))
	} else if !s.is_null() {
		let mut t = CStr::from_ptr(s).to_bytes().to_vec();
		t.extend_from_slice(b"!\0");
		(b"string\0", (lib.json_make_string)(cx.vm, t.as_ptr().cast()))
	} else {
		(b"other\0", (lib.json_make_null)(cx.vm))
	};
	// a value that is built and thrown away again
	let scrap = (lib.json_make_array)(cx.vm);
	(lib.json_array_append)(cx.vm, scrap, (lib.json_make_number)(cx.vm, 1.0));
	(lib.json_destroy)(cx.vm, scrap);
	let obj = (lib.json_make_object)(cx.vm);
	(lib.json_object_append)(cx.vm, obj, b"kind\0".as_ptr().cast(), (lib.json_make_string)(cx.vm, kind.as_ptr().cast()));
	let arr = (lib.json_make_array)(cx.vm);
	(lib.json_array_append)(cx.vm, arr, v);
	(lib.json_array_append)(cx.vm, arr, (lib.json_make_bool)(cx.vm, 1));
	(lib.json_object_append)(cx.vm, obj, b"list\0".as_ptr().cast(), arr);
	*success = 1;
	obj
}

/// "a sequence of strings separated by \0, terminated with \0\0"; in a multi result (name, text pairs) only an empty
/// *name* can be the end
unsafe fn decode_list(p: *const c_char, pairs: bool) -> Vec<String> {
	let mut out = vec![];
	let mut q = p;
	while out.len() < 100_000 {
		let b = CStr::from_ptr(q).to_bytes();
		if b.is_empty() && !(pairs && out.len() % 2 == 1) {
			break;
		}
		out.push(lossy(b));
		q = q.add(b.len() + 1);
	}
	out
}

unsafe fn run_script(lib: &Lib, req: &Value) -> Value {
	let cs = |v: &Value| CString::new(v.as_str().unwrap_or("")).unwrap_or_default();
	let files: HashMap<String, Vec<u8>> = req["mem"].as_object().map(|m| m.iter().map(|(k, v)| (k.clone(), unhex(v.as_str().unwrap_or("")))).collect()).unwrap_or_default();
	// cases are independent: the stack limit is thread-global inside the library, put it back to the library default
	let tmp = (lib.make)();
	(lib.max_stack)(tmp, 200);
	(lib.destroy)(tmp);
	let mut vms: HashMap<u64, Vm> = HashMap::new();
	let mut keep: Vec<Box<CbCtx>> = vec![];
	let mut results = vec![];
	let mut realloc_ok = true;
	for op in req["script"].as_array().cloned().unwrap_or_default() {
		let name = op[0].as_str().unwrap_or("");
		let vi = op[1].as_u64().unwrap_or(0);
		if name == "make" {
			vms.insert(vi, (lib.make)());
			continue;
		}
		let Some(&vm) = vms.get(&vi) else { continue };
		match name {
			"destroy" => {
				(lib.destroy)(vm);
				vms.remove(&vi);
			}
			"max_stack" => (lib.max_stack)(vm, op[2].as_u64().unwrap_or(200) as c_uint),
			"string_output" => (lib.string_output)(vm, op[2].as_i64().unwrap_or(0) as c_int),
			"ext_var" => (lib.ext_var)(vm, cs(&op[2]).as_ptr(), cs(&op[3]).as_ptr()),
			"ext_code" => (lib.ext_code)(vm, cs(&op[2]).as_ptr(), cs(&op[3]).as_ptr()),
			"tla_var" => (lib.tla_var)(vm, cs(&op[2]).as_ptr(), cs(&op[3]).as_ptr()),
			"tla_code" => (lib.tla_code)(vm, cs(&op[2]).as_ptr(), cs(&op[3]).as_ptr()),
			"jpath_add" => (lib.jpath_add)(vm, cs(&op[2]).as_ptr()),
			"import_callback" => {
				let cx = Box::new(CbCtx { vm, files: files.clone() });
				(lib.import_callback)(vm, import_cb, (&*cx as *const CbCtx) as *mut c_void);
				keep.push(cx);
			}
			"natives" => {
				let cx = Box::new(CbCtx { vm, files: HashMap::new() });
				let ctx = (&*cx as *const CbCtx) as *mut c_void;
				let two: [*const c_char; 3] = [b"a\0".as_ptr().cast(), b"b\0".as_ptr().cast(), std::ptr::null()];
				let one: [*const c_char; 2] = [b"x\0".as_ptr().cast(), std::ptr::null()];
				(lib.native_callback)(vm, b"nativeAdd\0".as_ptr().cast(), native_add, ctx, two.as_ptr());
				(lib.native_callback)(vm, b"nativeConcat\0".as_ptr().cast(), native_concat, ctx, two.as_ptr());
				(lib.native_callback)(vm, b"nativeDescribe\0".as_ptr().cast(), native_describe, ctx, one.as_ptr());
				keep.push(cx);
			}
			"eval" => {
				// jsonnet_realloc: allocate, grow (content survives), free
				let p = (lib.realloc)(vm, std::ptr::null_mut(), 8);
				if p.is_null() {
					realloc_ok = false;
				} else {
					std::ptr::copy_nonoverlapping(b"abcdefg\0".as_ptr(), p.cast::<u8>(), 8);
					let q = (lib.realloc)(vm, p, 4096);
					if q.is_null() || CStr::from_ptr(q).to_bytes() != b"abcdefg" {
						realloc_ok = false;
					}
					if !(lib.realloc)(vm, q, 0).is_null() {
						realloc_ok = false;
					}
				}
				let entry = op[2].as_str().unwrap_or("");
				let fname = cs(&op[3]);
				let code = cs(&op[4]);
				let mut err: c_int = -7;
				let out = if entry.contains("_file") {
					match sym::<EvalFile>(lib.handle, entry) {
						Ok(f) => f(vm, fname.as_ptr(), &mut err),
						Err(e) => return json!({"o": "load-failed", "t": e}),
					}
				} else {
					match sym::<EvalSnippet>(lib.handle, entry) {
						Ok(f) => f(vm, fname.as_ptr(), code.as_ptr(), &mut err),
						Err(e) => return json!({"o": "load-failed", "t": e}),
					}
				};
				if out.is_null() {
					results.push(json!({"err": err, "text": "", "null": true}));
					continue;
				}
				if err == 0 && (entry.ends_with("_multi") || entry.ends_with("_stream")) {
					results.push(json!({"err": err, "text": "", "items": decode_list(out, entry.ends_with("_multi"))}));
				} else {
					results.push(json!({"err": err, "text": lossy(CStr::from_ptr(out).to_bytes())}));
				}
				// "The returned string should be cleaned up with jsonnet_realloc."
				(lib.realloc)(vm, out, 0);
			}
			_ => {}
		}
	}
	for (_, vm) in vms {
		(lib.destroy)(vm);
	}
	drop(keep);
	json!({"o": "capi", "results": results, "realloc_ok": realloc_ok})
}

/// worker op "capi": everything that touches the shared library happens here, in the isolated process
pub fn capi_worker(req: &Value) -> Value {
	let so = req["so"].as_str().unwrap_or("");
	if req["probe"].as_bool() == Some(true) {
		return match unsafe { load_lib(so) } {
			Ok(_) => json!({"o": "loaded"}),
			Err(e) => json!({"o": "load-failed", "t": e}),
		};
	}
	let lib = match LIB.get_or_init(|| unsafe { load_lib(so) }) {
		Ok(l) => l,
		Err(e) => return json!({"o": "load-failed", "t": e}),
	};
	if let Some(cwd) = req["cwd"].as_str() {
		if let Err(e) = std::env::set_current_dir(cwd) {
			return json!({"o": "bad-request", "t": format!("chdir {cwd}: {e}")});
		}
	}
	match guarded(|| unsafe { run_script(lib, req) }) {
		Ok(v) => v,
		Err(p) => json!({"o": "panic", "t": p}),
	}
}

// ------------------------------------------------------------------------------------------ stage: deps

const NPOS: usize = 16;
#[derive(Clone, Debug)]
pub struct DepsCase {
	pub layout: c07::Layout,
	/// syntactic position of every import (per node, per edge); 0 = evaluated element of `deps`, others are never evaluated
	pub positions: Vec<Vec<u8>>,
	/// (repaired case) importstr/importbin edges to code files that are imported as code elsewhere become plain imports
	pub upgrade: bool,
}
pub fn gen_deps(src: &mut Src) -> DepsCase {
	let layout = c07::gen_layout(src);
	let positions = layout
		.nodes
		.iter()
		.map(|n| {
			n.edges
				.iter()
				.map(|e| {
					let p = if src.chance(3, 5) { src.range(1, NPOS as i64 - 1) as u8 } else { 0 };
					if e.lazy && p == 0 {
						2
					} else {
						p
					}
				})
				.collect()
		})
		.collect();
	DepsCase { layout, positions, upgrade: false }
}
impl DepsCase {
	/// code files that are the target of an importstr/importbin edge and of an import edge
	fn both_ways(&self) -> BTreeSet<usize> {
		let l = &self.layout;
		let as_code: BTreeSet<usize> = l.nodes.iter().flat_map(|n| n.edges.iter()).filter(|e| e.kind == 0).map(|e| e.target).collect();
		l.nodes.iter().flat_map(|n| n.edges.iter()).filter(|e| e.kind != 0 && l.nodes[e.target].kind == c07::NodeKind::Code && as_code.contains(&e.target)).map(|e| e.target).collect()
	}
	fn kind_of(&self, e: &c07::Edge, both: &BTreeSet<usize>) -> u8 {
		if self.upgrade && both.contains(&e.target) {
			0
		} else {
			e.kind
		}
	}
	fn body(&self, i: usize) -> String {
		let both = self.both_ways();
		let n = &self.layout.nodes[i];
		let (mut pre, mut olocals, mut hidden, mut strict, mut dead) = (String::new(), String::new(), String::new(), vec![], vec![]);
		for (k, e) in n.edges.iter().enumerate() {
			// parenthesised: jrsonnet reads `import "x" == 1` as an import of the expression `"x" == 1`
			let imp = format!("({} {})", ["import", "importstr", "importbin"][self.kind_of(e, &both) as usize], jstr(&e.spelled));
			match self.positions[i].get(k).copied().unwrap_or(0) {
				0 => strict.push(imp),
				1 => dead.push(format!("if false then {imp} else null")),
				2 => hidden.push_str(&format!(", h{k}:: {imp}")),
				3 => pre.push_str(&format!("local g{k}(x = {imp}) = x;\n")),
				4 => olocals.push_str(&format!("local u{k} = {imp}, ")),
				5 => dead.push(format!("(assert true : std.toString({imp}); null)")),
				6 => dead.push(format!("[{imp} for q in []]")),
				7 => dead.push(format!("[0][if true then 0 else std.length({imp})]")),
				8 => dead.push(format!("true || {imp} == 1")),
				9 => dead.push(format!("if false then error std.toString({imp}) else null")),
				10 => dead.push(format!("{{ [k]: {imp} for k in [] }}")),
				11 => dead.push(format!("(function(a, b) a)(1, b={imp})")),
				12 => dead.push(format!("{{ a: 1 }} {{ y:: {imp} }}")),
				13 => dead.push(format!("{{ [if false then {imp} else \"k\"]: 1 }}")),
				14 => dead.push(format!("!(false && ({imp} == 1))")),
				_ => pre.push_str(&format!("local h{k}() = {imp};\n")),
			}
		}
		format!("{pre}{{ {olocals}id: {i}, deps: [{}], dead: [{}]{hidden} }}\n", strict.join(", "), dead.join(", "))
	}
	fn describe(&self) -> String {
		let l = &self.layout;
		let mut s = format!("jrsonnet-deps f0.libsonnet   (cwd = $W/main; library search order {:?})\n", l.lib_order.iter().map(|d| l.dirs[*d].as_str()).collect::<Vec<_>>());
		for (i, n) in l.nodes.iter().enumerate() {
			match &n.kind {
				c07::NodeKind::Code => s.push_str(&format!("  {}/{}:\n{}", l.dirs[n.dir], n.name, self.body(i).lines().map(|x| format!("      {x}\n")).collect::<String>())),
				c07::NodeKind::Text(b) => s.push_str(&format!("  {}/{}: {} bytes\n", l.dirs[n.dir], n.name, b.len())),
			}
		}
		if !l.decoys.is_empty() {
			s.push_str(&format!("  decoys: {:?}\n", l.decoys.iter().map(|(d, n, _)| format!("{}/{}", l.dirs[*d], n)).collect::<Vec<_>>()));
		}
		if !l.links.is_empty() {
			s.push_str(&format!("  symlinks: {:?}\n", l.links.iter().map(|(d, n, t)| format!("{}/{} -> f{}", l.dirs[*d], n, t)).collect::<Vec<_>>()));
		}
		if let Some((i, k)) = l.disk_fault {
			s.push_str(&format!("  disk fault: f{i} {}\n", ["is a directory", "deleted", "dangling symlink", "symlink loop"][k as usize]));
		}
		s
	}
}

fn deps_once(c: &DepsCase) -> Result<(Vec<String>, Vec<String>), String> {
	let l = &c.layout;
	let sc = scratch("deps");
	c07::materialise(l, &sc.0).map_err(|e| format!("cannot lay out the graph: {e}"))?;
	let root = sc.0.clone();
	let abs = root.to_string_lossy().into_owned();
	let mut by_path: HashMap<PathBuf, usize> = HashMap::new();
	for (i, n) in l.nodes.iter().enumerate() {
		if n.kind != c07::NodeKind::Code {
			continue;
		}
		let p = root.join(&l.dirs[n.dir]).join(&n.name);
		if std::fs::symlink_metadata(&p).map(|m| m.is_file()).unwrap_or(false) {
			std::fs::write(&p, c.body(i).replace("@ABS@", &abs)).map_err(|e| e.to_string())?;
			if let Ok(cp) = p.canonicalize() {
				by_path.insert(cp, i);
			}
		}
	}
	let libs: Vec<PathBuf> = l.lib_order.iter().map(|d| root.join(&l.dirs[*d])).collect();
	let main = root.join("main").join(&l.nodes[0].name);
	let Ok(main_c) = main.canonicalize() else { return Err("the root file is gone".into()) };
	// --- the harness's own scan of what it generated
	let both = c.both_ways();
	let mut want: BTreeSet<PathBuf> = BTreeSet::new();
	let mut unresolvable = false;
	let mut seen: BTreeSet<PathBuf> = BTreeSet::new();
	let mut queue = vec![main_c.clone()];
	while let Some(f) = queue.pop() {
		if !seen.insert(f.clone()) {
			continue;
		}
		let Some(&i) = by_path.get(&f) else { continue };
		let dir = f.parent().unwrap().to_owned();
		for e in &l.nodes[i].edges {
			match c07::model_resolve(&dir, &e.spelled.replace("@ABS@", &abs), &libs) {
				Ok(p) => {
					want.insert(p.clone());
					if c.kind_of(e, &both) == 0 {
						queue.push(p);
					}
				}
				Err(_) => unresolvable = true,
			}
		}
	}
	let mut classes = vec![format!("deps:shape:{}", l.shape)];
	for (i, n) in l.nodes.iter().enumerate() {
		for (k, e) in n.edges.iter().enumerate() {
			classes.push(format!("deps:edge:{}", ["import", "importstr", "importbin"][e.kind as usize]));
			classes.push(if c.positions[i][k] == 0 { "deps:import-evaluated".to_owned() } else { "deps:import-in-dead-code".to_owned() });
		}
	}
	if !l.lib_order.is_empty() {
		classes.push("deps:search-path".into());
	}
	if !both.is_empty() {
		classes.push("deps:file-reached-as-text-and-as-code".into());
	}
	if unresolvable {
		classes.push("deps:unresolvable-import".into());
	}
	classes.sort();
	classes.dedup();
	// --- the executable
	let split = libs.len().div_ceil(2);
	let (jdirs, envdirs) = libs.split_at(split);
	let mut args = vec![];
	for d in jdirs.iter().rev() {
		args.push("-J".to_owned());
		args.push(d.to_string_lossy().into_owned());
	}
	args.push(l.nodes[0].name.clone());
	let mut env = vec![];
	if !envdirs.is_empty() {
		env.push(("JSONNET_PATH".to_owned(), envdirs.iter().map(|d| d.to_string_lossy().into_owned()).collect::<Vec<_>>().join(":")));
	}
	let got = run_proc(&bin("jrsonnet-deps"), &args, &root.join("main"), &env, None).map_err(|e| format!("cannot run jrsonnet-deps: {e}"))?;
	let mut problems = vec![];
	if let Some(cr) = got.crashed() {
		problems.push(format!("jrsonnet-deps crashed: {cr}"));
	}
	let show = |p: &Path| p.to_string_lossy().replace(&abs, "$W");
	if got.ok() {
		let lines: Vec<String> = lossy(&got.stdout).lines().map(|x| x.to_owned()).collect();
		let set: BTreeSet<PathBuf> = lines.iter().map(PathBuf::from).collect();
		if set.len() != lines.len() {
			problems.push("a path is listed twice".to_owned());
		}
		for p in want.difference(&set) {
			problems.push(format!("statically reachable but not listed: {}", show(p)));
		}
		for p in set.difference(&want) {
			problems.push(format!("listed but not reachable through imports: {}", show(p)));
		}
	} else if !unresolvable {
		problems.push(format!("every import resolves, yet jrsonnet-deps fails ({}): {}", got.status(), clip(lossy(&got.stderr).trim(), 300)));
	} else if got.stderr.is_empty() {
		problems.push(format!("jrsonnet-deps fails ({}) without a message", got.status()));
	}
	// --- what a real evaluation loads is part of the static answer
	let loaded = Rc::new(RefCell::new(vec![]));
	let lib = LibCfg { cwd: root.join("main"), search: libs.clone(), mem: None, ext: vec![], tla: vec![], max_stack: 200, input: LibInput::File(main.clone()), natives: false };
	let _ = lib_eval(&lib, Some(loaded.clone()), |v| v.manifest(JsonFormat::minify()));
	if !unresolvable {
		for p in loaded.borrow().iter() {
			let p = p.canonicalize().unwrap_or(p.clone());
			if p != main_c && !want.contains(&p) {
				problems.push(format!("the evaluation loaded {} which is not statically reachable", show(&p)));
			}
		}
		if !loaded.borrow().is_empty() {
			classes.push("deps:evaluation-loads-checked".into());
		}
	}
	problems.truncate(8);
	Ok((problems, classes))
}

pub fn deps_decide(c: &DepsCase, known: &[String]) -> CaseOut {
	let text = c.describe();
	let (problems, classes) = match deps_once(c) {
		Ok(x) => x,
		Err(e) => return CaseOut::discard(text, &e),
	};
	let l = &c.layout;
	let nontrivial = !l.lib_order.is_empty() || c.positions.iter().flatten().any(|p| *p != 0) || l.nodes.len() >= 3;
	if problems.is_empty() {
		return CaseOut::pass(text, nontrivial).classes(classes);
	}
	// recorded finding: a code file met first through importstr/importbin is never scanned.  Re-decide with exactly those
	// edges turned into imports (the set of reachable files is the same)
	if !c.upgrade && !c.both_ways().is_empty() {
		let r = DepsCase { upgrade: true, ..c.clone() };
		if matches!(deps_once(&r), Ok((p, _)) if p.is_empty()) && known.iter().any(|k| k == K_DEPS) {
			return CaseOut { verdict: Verdict::Known(K_DEPS.into()), text, nontrivial, classes };
		}
	}
	CaseOut::fail(text, problems.join("\n")).classes(classes)
}

// ------------------------------------------------------------------------------------------ reproducers, run, replay

fn lit_prog(atoms: Vec<Atom>, params: Option<Vec<Param>>, shape: Shape) -> Prog {
	Prog { params, atoms, shape, fields: vec!["a".into()], syntax_error: false, dir: 0 }
}
fn base_capi(prog: Prog) -> CapiCase {
	let tree = Tree {
		files: vec![
			TFile { dir: 0, name: "rel.libsonnet".into(), code: true, bytes: vec![], imports: vec![], id: "rel".into() },
			TFile { dir: 2, name: "la.libsonnet".into(), code: true, bytes: vec![], imports: vec![], id: "j0/la".into() },
		],
	};
	CapiCase { tree, mem: false, prog, ext: vec![], tla: vec![], jpaths: vec![], max_stack: None, string_output: None, file: false, kind: 0, natives: false, other_vm: false }
}

/// the built-in minimal reproducer of every finding id
fn builtin_reproducer(id: &str, known: &[String]) -> Option<CaseOut> {
	Some(match id {
		K_XML_OS => {
			let text = "jrsonnet --os-stack 16 -f xml-jsonml -e '[\"root\", [\"child\"]]'".to_owned();
			let args: Vec<String> = ["--os-stack", "16", "-f", "xml-jsonml", "-e", "[\"root\", [\"child\"]]"].iter().map(|s| (*s).to_owned()).collect();
			match run_proc(&bin("jrsonnet"), &args, Path::new("/"), &[], None) {
				Ok(o) if o.signal.is_some() => CaseOut { verdict: Verdict::Known(K_XML_OS.into()), text, nontrivial: true, classes: vec![] },
				Ok(o) if o.ok() => CaseOut::pass(text, true),
				Ok(o) => CaseOut::fail(text, format!("fails in another way: {}", o.status())),
				Err(e) => CaseOut::discard(text, &format!("cannot run the executable: {e}")),
			}
		}
		K_CB_CODE => {
			let ext = vec![Var { name: "e0".into(), flavour: Flavour::Code, sval: String::new(), code: CodeV::Expr("1 + 2".into()), fault: 0, file: String::new(), form: 0 }];
			capi_decide(&CapiCase { mem: true, ext, ..base_capi(lit_prog(vec![Atom::Ext("e0".into())], None, Shape::First)) }, known)
		}
		K_DEPS => {
			let node = |name: &str, edges: Vec<c07::Edge>| c07::Node { kind: c07::NodeKind::Code, dir: 0, name: name.into(), edges };
			let e = |kind: u8, target: usize| c07::Edge { kind, target, spelled: format!("f{target}.libsonnet"), lazy: false };
			let layout = c07::Layout {
				dirs: vec!["main".into(), "main/sub".into()],
				lib_order: vec![],
				nodes: vec![node("f0.libsonnet", vec![e(1, 1), e(0, 1)]), node("f1.libsonnet", vec![e(0, 2)]), node("f2.libsonnet", vec![])],
				decoys: vec![],
				links: vec![],
				disk_fault: None,
				shape: "chain",
				forced: vec![],
			};
			deps_decide(&DepsCase { positions: vec![vec![0, 0], vec![0], vec![]], layout, upgrade: false }, known)
		}
		_ => return None,
	})
}

fn decide_tape(stage: &str, tape: &[u16], known: &[String]) -> Option<CaseOut> {
	let mut src = Src::new(tape);
	Some(match stage {
		"cli" => cli_decide(&gen_cli(&mut src)),
		"capi" => capi_decide(&gen_capi(&mut src), known),
		"deps" => deps_decide(&gen_deps(&mut src), known),
		"capi-load" => capi_load_case(),
		_ => return None,
	})
}

fn decide_known_text(id: &str, replay: &str, known: &[String]) -> CaseOut {
	let t = replay.trim();
	if let Some(rest) = t.strip_prefix("tape ") {
		let mut it = rest.splitn(2, ' ');
		let stage = it.next().unwrap_or("");
		let tape: Vec<u16> = it.next().unwrap_or("").split(',').filter_map(|x| x.trim().parse().ok()).collect();
		if let Some(o) = decide_tape(stage, &tape, known) {
			return o;
		}
	}
	builtin_reproducer(id, known).unwrap_or_else(|| CaseOut::discard(format!("{id}: {t}"), "no reproducer for this id"))
}

pub fn run(run: &Run) {
	run.set_rule("(cli) generated configurations: 0-3 external variables and 0-3 top-level arguments, each supplied in one of the six flavours of the executable (name=value, value from the environment, code, code from the environment, string file, code file; long / = / short option forms; values with =, spaces, quotes, newlines, non-ASCII, empty; missing environment variable / file, non-UTF-8 file), 0-3 -J directories and 0-2 JSONNET_PATH entries with shadowed library files, program given as file / -e / stdin, reading the variables, importing through the search path, recursing against --max-stack (also on the thread that --os-stack makes), shaped to fit or not fit the output mode (default, -S, -y, -f string|json|yaml|toml|xml-jsonml|ini, --line-padding, -o, -m, -c). Oracle: the Rust library API driven according to the documented meaning of every option (State + FileImportResolver over [reversed -J, JSONNET_PATH], stdlib ContextInitializer with the ext vars, apply_tla, Val::manifest with the named format): exit status 0 <=> Ok, stdout = manifestation + newline (nothing for an empty one), -o file content, -m one file per field + listing; on error non-zero exit, message on stderr, nothing on stdout. (capi) the same kind of program through libjsonnet.so loaded with dlopen in an isolated worker: jsonnet_make / ext_var / ext_code / tla_var / tla_code / jpath_add / max_stack / string_output / import_callback (in-memory tree) / native_callback (three natives built on json_make_* / json_extract_* / array_append / object_append / json_destroy) / realloc / evaluate_{snippet,file}{,_multi,_stream} (double-NUL lists decoded) / destroy, a second VM with other settings; text and error flag equal the library API with the same settings. (deps) C07 import graphs with every import moved into one of 16 syntactic positions (15 of them never evaluated): the output of jrsonnet-deps equals, as a set of canonical paths, the harness's own transitive scan of the graph it generated, and every file a recording resolver sees loaded by a real evaluation is in it. Non-trivial: (cli) at least two supplied variables reach the output or an import resolves through the search path; (capi) at least two of {ext var, TLA, natives, import callback, jpath}; (deps) a search path, an import in dead code, or >= 3 files.");
	run.assume("value files of --*-file options are only made faulty (missing / not UTF-8) where the program certainly demands the value: whether an unused file is read at all is not documented");
	run.assume("code given through --ext-code-file / --tla-code-file imports only through the search path or from the working directory: whether such imports are relative to the file or to the working directory is not documented");
	run.assume("`-f string` is compared with the library's ToStringFormat (the --help text 'Expect string as output' would also fit StringFormat, which -S uses)");
	run.assume("under -m a failing run may already have listed / written some files: only the exit status and stderr are required then");
	let known = known_set(run);
	XML_OS_LISTED.store(known.iter().any(|k| k == K_XML_OS), std::sync::atomic::Ordering::SeqCst);
	let _ = std::fs::create_dir_all(WORK);
	run.reproduce_known(|k| decide_known_text(&k.id, &k.replay, &known));
	// development aid: C15_SELFTEST=1 decides the built-in reproducer of every finding id this module knows
	if std::env::var_os("C15_SELFTEST").is_some() {
		run.enumerate("selftest-reproducers", ALL_IDS.len() as u64, |i| builtin_reproducer(ALL_IDS[i as usize], &known).expect("reproducer"));
	}
	// development aid: C15_STAGES=cli,capi,deps runs only the named stages (the class floors then report the others as missing)
	let stages = std::env::var("C15_STAGES").ok();
	let on = |s: &str| stages.as_ref().map(|v| v.split(',').any(|x| x.trim() == s)).unwrap_or(true);
	if on("cli") {
		run.explore("cli", run.tier.pick(1500, 30_000), 40..=260, |src| cli_decide(&gen_cli(src)));
	}
	if on("capi") {
		run.enumerate("capi-load", 1, |_| capi_load_case());
		run.explore("capi", run.tier.pick(600, 12_000), 40..=220, |src| capi_decide(&gen_capi(src), &known));
	}
	if on("deps") {
		run.explore("deps", run.tier.pick(250, 5_000), 20..=220, |src| deps_decide(&gen_deps(src), &known));
	}
	worker::retire();
	for f in ALL_FLAVOURS {
		run.require_class(&format!("cli:ext:{}", f.tag()), 60);
		run.require_class(&format!("cli:tla:{}", f.tag()), 60);
	}
	for m in ["default-json", "-S", "-y", "-y -f json", "-y -f yaml", "-f string", "-f json", "-f yaml", "-f toml", "-f xml-jsonml", "-f ini"] {
		run.require_class(&format!("cli:mode:{m}"), 60);
	}
	for c in ["cli:sink:stdout", "cli:sink:-o", "cli:sink:-o -c", "cli:sink:-m", "cli:sink:-m -c", "cli:--line-padding", "cli:input:file", "cli:input:-e", "cli:input:stdin", "cli:max-stack:default", "cli:max-stack:20", "cli:max-stack:200", "cli:max-stack:1000", "cli:shadowing", "cli:import-through-search-path", "cli:lib:value", "cli:lib:error", "cli:error:mode-inapplicable", "cli:error:program-or-options", "cli:short-option"] {
		run.require_class(c, 60);
	}
	for c in ["cli:supply-fault:env-missing", "cli:supply-fault:file-missing", "cli:supply-fault:file-not-utf8", "cli:--os-stack with max-stack default", "cli:--os-stack with max-stack 20", "cli:--os-stack with max-stack 1000"] {
		run.require_class(c, 15);
	}
	for c in [
		"jsonnet_make", "jsonnet_destroy", "jsonnet_ext_var", "jsonnet_ext_code", "jsonnet_tla_var", "jsonnet_tla_code", "jsonnet_jpath_add", "jsonnet_max_stack", "jsonnet_string_output", "jsonnet_import_callback",
		"jsonnet_native_callback", "jsonnet_json_make/extract", "jsonnet_realloc", "jsonnet_evaluate_snippet", "jsonnet_evaluate_file", "jsonnet_evaluate_snippet_multi", "jsonnet_evaluate_file_multi", "jsonnet_evaluate_snippet_stream",
		"jsonnet_evaluate_file_stream", "two-vms", "lib:value", "lib:error",
	] {
		run.require_class(&format!("capi:{c}"), 40);
	}
	run.require_class("capi:dlopen", 1);
	for c in ["deps:edge:import", "deps:edge:importstr", "deps:edge:importbin", "deps:import-in-dead-code", "deps:import-evaluated", "deps:search-path", "deps:evaluation-loads-checked", "deps:file-reached-as-text-and-as-code"] {
		run.require_class(c, 20);
	}
}

pub fn replay(run: &Run, stage: &str, tape: Option<&[u16]>, v: &Value) -> Option<CaseOut> {
	let known = known_set(run);
	let _ = std::fs::create_dir_all(WORK);
	let out = match (stage, tape) {
		("known-reproducers", _) => {
			// the case text of a reproducer does not name its id: try the recorded findings of this property in turn
			let text = v["case"].as_str().unwrap_or("");
			run.known_for_prop().iter().map(|k| decide_known_text(&k.id, &k.replay, &known)).find(|o| o.text == text)
		}
		("capi-load", _) => Some(capi_load_case()),
		(s, Some(t)) => decide_tape(s, t, &known),
		_ => None,
	};
	worker::retire();
	out
}
