use crate::core::{CaseOut, Run, Verdict};

pub mod c01;
pub mod c01x;
pub mod c02;
pub mod c03;
pub mod c04;
pub mod c05;
pub mod c09;
pub mod c06;
pub mod c07;
pub mod c08;
pub mod c10;
pub mod c11;
pub mod c12;
pub mod c13;
pub mod c14;
pub mod c15;
pub mod c16;
pub mod c17;
pub mod c18;
pub mod fmt;

pub fn run(run: &Run) -> bool {
	match run.prop.as_str() {
		"C01" => c01::run(run),
		"C02" => c02::run(run),
		"C03" => c03::run(run),
		"C04" => c04::run(run),
		"C05" => c05::run(run),
		"C09" => c09::run(run),
		"C06" => c06::run(run),
		"C07" => c07::run(run),
		"C08" => c08::run(run),
		"C10" => c10::run(run),
		"C11" => c11::run(run),
		"C12" => c12::run(run),
		"C13" => c13::run(run),
		"C14" => c14::run(run),
		"C15" => c15::run(run),
		"C16" => c16::run(run),
		"C17" => c17::run(run),
		"C18" => c18::run(run),
		"C19" => fmt::run_c19(run),
		"C20" => fmt::run_c20(run),
		_ => return false,
	}
	true
}

fn replay_case(run: &Run, prop: &str, stage: &str, tape: Option<&[u16]>, v: &serde_json::Value) -> Option<CaseOut> {
	match prop {
		"C01" => c01::replay(run, stage, tape, v),
		"C02" => c02::replay(run, stage, tape, v),
		"C03" => c03::replay(run, stage, tape, v),
		"C04" => c04::replay(run, stage, tape, v),
		"C05" => c05::replay(run, stage, tape, v),
		"C09" => c09::replay(run, stage, tape, v),
		"C06" => c06::replay(run, stage, tape, v),
		"C07" => c07::replay(run, stage, tape, v),
		"C08" => c08::replay(run, stage, tape, v),
		"C10" => c10::replay(run, stage, tape, v),
		"C11" => c11::replay(run, stage, tape, v),
		"C12" => c12::replay(run, stage, tape, v),
		"C13" => c13::replay(run, stage, tape, v),
		"C14" => c14::replay(run, stage, tape, v),
		"C15" => c15::replay(run, stage, tape, v),
		"C16" => c16::replay(run, stage, tape, v),
		"C17" => c17::replay(run, stage, tape, v),
		"C18" => c18::replay(run, stage, tape, v),
		"C19" | "C20" => fmt::replay(run, prop, stage, tape, v),
		_ => None,
	}
}

/// re-decide one saved case without any random generation
pub fn replay(path: &str) -> i32 {
	let Ok(s) = std::fs::read_to_string(path) else {
		eprintln!("cannot read {path}");
		return 2;
	};
	let v: serde_json::Value = serde_json::from_str(&s).expect("replay json");
	let prop = v["property"].as_str().unwrap_or("");
	let stage = v["stage"].as_str().unwrap_or("");
	let tape: Option<Vec<u16>> = v["tape"].as_array().map(|a| a.iter().map(|x| x.as_u64().unwrap_or(0) as u16).collect());
	let run = Run::new(prop, crate::core::Tier::Quick, v["seed"].as_u64().unwrap_or(1));
	let Some(out) = replay_case(&run, prop, stage, tape.as_deref(), &v) else {
		eprintln!("no replay routine for {prop}/{stage}");
		return 2;
	};
	println!("case:\n{}", out.text);
	match out.verdict {
		Verdict::Fail(why) => {
			println!("why: {why}");
			println!("VIOLATION property={prop} replay={path}");
			1
		}
		Verdict::Known(id) => {
			println!("KNOWN-FINDING: property={prop} {id}");
			0
		}
		Verdict::Discard(w) => {
			println!("discarded: {w}");
			0
		}
		Verdict::Pass => {
			println!("pass");
			0
		}
	}
}
