//! C14 — YAML, TOML, Python, XML and INI manifestation denote the same data.
//!
//! Generated JSON-like trees over a format-hostile alphabet are manifested by jrsonnet with every option
//! combination; the texts are read back by independent readers living in the Python sidecar
//! `/verif/harness/oracle_c14.py` (PyYAML, tomllib, ast, ElementTree, configparser) and compared with the tree.
//! One sidecar process serves thousands of texts (a small pool of long-lived processes, JSON lines over pipes).
use std::{
	cell::RefCell,
	collections::BTreeMap,
	io::{BufRead, BufReader, Write},
	process::{Child, ChildStdin, ChildStdout, Command, Stdio},
	sync::{
		atomic::{AtomicBool, Ordering},
		Mutex,
	},
};

use serde_json::{json, Value};

use jrsonnet_evaluator::{manifest::YamlStreamFormat, Val};
use jrsonnet_stdlib::{IniFormat, TomlFormat, XmlJsonmlFormat, YamlFormat};

use crate::{
	core::{guarded, CaseOut, Run, Src, Verdict},
	jr::{self, Opts, Outcome},
	json::J,
};

// ================================================================================================ sidecar

const ORACLE: &str = "/verif/harness/oracle_c14.py";
const PYTHON: &str = "/usr/bin/python3";

struct Sidecar {
	child: Child,
	tx: ChildStdin,
	rx: BufReader<ChildStdout>,
}
impl Drop for Sidecar {
	fn drop(&mut self) {
		let _ = self.child.kill();
		let _ = self.child.wait();
	}
}
static POOL: Mutex<Vec<Sidecar>> = Mutex::new(Vec::new());
static SIDECAR_REPORTED: AtomicBool = AtomicBool::new(false);

fn spawn_sidecar() -> Result<Sidecar, String> {
	let mut child = Command::new(PYTHON)
		.arg(ORACLE)
		.stdin(Stdio::piped())
		.stdout(Stdio::piped())
		.stderr(Stdio::inherit())
		.spawn()
		.map_err(|e| format!("cannot start {PYTHON} {ORACLE}: {e}"))?;
	let tx = child.stdin.take().ok_or("no stdin")?;
	let rx = BufReader::new(child.stdout.take().ok_or("no stdout")?);
	Ok(Sidecar { child, tx, rx })
}

/// one batch: every (format, text) is read by the sidecar; answer i is the decoded data or the reader's exception text
fn ask(items: &[(&str, String)]) -> Result<Vec<Result<R, String>>, String> {
	if items.is_empty() {
		return Ok(vec![]);
	}
	let req = json!({"items": items.iter().map(|(f, t)| json!({"f": f, "t": t})).collect::<Vec<_>>()});
	let mut line = serde_json::to_string(&req).map_err(|e| e.to_string())?;
	line.push('\n');
	let mut last_err = String::new();
	for _attempt in 0..2 {
		let taken = POOL.lock().unwrap().pop();
		let mut sc = match taken {
			Some(s) => s,
			None => spawn_sidecar()?,
		};
		let r = (|| -> Result<String, String> {
			sc.tx.write_all(line.as_bytes()).map_err(|e| format!("write: {e}"))?;
			sc.tx.flush().map_err(|e| format!("flush: {e}"))?;
			let mut resp = String::new();
			let n = sc.rx.read_line(&mut resp).map_err(|e| format!("read: {e}"))?;
			if n == 0 {
				return Err("sidecar closed its output".into());
			}
			Ok(resp)
		})();
		match r {
			Ok(resp) => {
				POOL.lock().unwrap().push(sc);
				let v: Value = serde_json::from_str(&resp).map_err(|e| format!("sidecar answer is not JSON: {e}"))?;
				let arr = v["r"].as_array().ok_or("sidecar answer has no result list")?;
				if arr.len() != items.len() {
					return Err(format!("sidecar answered {} of {} items", arr.len(), items.len()));
				}
				return Ok(arr
					.iter()
					.map(|x| if x["ok"] == Value::Bool(true) { Ok(decode(&x["v"])) } else { Err(x["e"].as_str().unwrap_or("?").to_owned()) })
					.collect());
			}
			Err(e) => {
				last_err = e;
				drop(sc);
			}
		}
	}
	Err(last_err)
}

// ================================================================================================ data read back

/// what a reader returned (see the encoding in oracle_c14.py)
#[derive(Clone, Debug)]
enum R {
	Null,
	Bool(bool),
	Int(String),
	Float(f64),
	Str(String),
	List(Vec<R>),
	Dict(Vec<(R, R)>),
	Other(String),
}

fn decode(v: &Value) -> R {
	match v {
		Value::Null => R::Null,
		Value::Bool(b) => R::Bool(*b),
		Value::Number(n) => R::Other(format!("bare json number {n}")),
		Value::String(s) => R::Str(s.clone()),
		Value::Array(a) => R::List(a.iter().map(decode).collect()),
		Value::Object(o) => {
			if o.len() == 1 {
				if let Some(Value::String(i)) = o.get("i") {
					return R::Int(i.clone());
				}
				if let Some(Value::String(f)) = o.get("f") {
					return match f.parse::<f64>() {
						Ok(x) => R::Float(x),
						Err(_) => R::Other(format!("float {f}")),
					};
				}
				if let Some(Value::Array(d)) = o.get("d") {
					return R::Dict(d.iter().map(|kv| (decode(&kv[0]), decode(&kv[1]))).collect());
				}
				if let Some(Value::String(t)) = o.get("o") {
					return R::Other(t.clone());
				}
			}
			R::Dict(o.iter().map(|(k, v)| (R::Str(k.clone()), decode(v))).collect())
		}
	}
}

fn clip(s: &str, n: usize) -> String {
	if s.chars().count() > n {
		format!("{}…", s.chars().take(n).collect::<String>())
	} else {
		s.to_owned()
	}
}
/// visible rendering of a text (escapes everything outside printable ASCII)
fn show(s: &str) -> String {
	let mut o = String::from("\"");
	for c in s.chars() {
		match c {
			'"' => o.push_str("\\\""),
			'\\' => o.push_str("\\\\"),
			'\n' => o.push_str("\\n"),
			'\t' => o.push_str("\\t"),
			' '..='~' => o.push(c),
			c if (c as u32) < 0x10000 => o.push_str(&format!("\\u{:04x}", c as u32)),
			c => o.push_str(&format!("\\U{:08x}", c as u32)),
		}
	}
	o.push('"');
	o
}
fn brief_r(r: &R) -> String {
	let t = match r {
		R::Null => "null".to_owned(),
		R::Bool(b) => format!("bool {b}"),
		R::Int(i) => format!("int {}", clip(i, 40)),
		R::Float(f) => format!("float {f:?}"),
		R::Str(s) => format!("string {}", show(&clip(s, 80))),
		R::List(a) => format!("sequence of {} [{}]", a.len(), a.iter().take(4).map(brief_r).collect::<Vec<_>>().join(", ")),
		R::Dict(d) => format!("mapping of {} {{{}}}", d.len(), d.iter().take(4).map(|(k, v)| format!("{}: {}", brief_r(k), brief_r(v))).collect::<Vec<_>>().join(", ")),
		R::Other(o) => format!("<{o}>"),
	};
	clip(&t, 300)
}
fn brief_j(j: &J) -> String {
	match j {
		J::Str(s) => format!("string {}", show(&clip(s, 80))),
		J::Num(n) => format!("number {n:?}"),
		other => clip(&other.to_text(), 200),
	}
}
fn kind_j(j: &J) -> &'static str {
	match j {
		J::Null => "null",
		J::Bool(_) => "bool",
		J::Num(_) => "number",
		J::Str(_) => "string",
		J::Arr(_) => "sequence",
		J::Obj(_) => "mapping",
	}
}
fn kind_r(r: &R) -> &'static str {
	match r {
		R::Null => "null",
		R::Bool(_) => "bool",
		R::Int(_) => "int",
		R::Float(_) => "float",
		R::Str(_) => "string",
		R::List(_) => "sequence",
		R::Dict(_) => "mapping",
		R::Other(_) => "other",
	}
}

/// Is the data read back the generated data?  `stringly`: the format has only strings (XML attributes, INI values),
/// numbers and booleans are then compared with the text the reader returned.
/// Returns (signature for classification, message) of the first difference.
fn diff(want: &J, got: &R, path: &str, stringly: bool) -> Option<(String, String)> {
	let mism = |w: &J, g: &R| Some((format!("{}-read-as-{}", kind_j(w), kind_r(g)), format!("at {path}: expected {}, the reader returns {}", brief_j(w), brief_r(g))));
	match (want, got) {
		(J::Null, R::Null) => None,
		(J::Bool(a), R::Bool(b)) if a == b => None,
		(J::Num(x), R::Int(s)) => match s.parse::<f64>() {
			Ok(v) if v == *x => None,
			_ => Some(("number-differs".into(), format!("at {path}: expected number {x:?}, the reader returns int {}", clip(s, 60)))),
		},
		(J::Num(x), R::Float(v)) => {
			if v == x {
				None
			} else {
				Some(("number-differs".into(), format!("at {path}: expected number {x:?}, the reader returns float {v:?}")))
			}
		}
		(J::Num(x), R::Str(s)) if stringly => {
			let numeric = !s.is_empty() && s.chars().all(|c| c.is_ascii_digit() || matches!(c, '-' | '+' | '.' | 'e' | 'E'));
			match s.parse::<f64>() {
				Ok(v) if numeric && v == *x => None,
				_ => Some(("number-text-differs".into(), format!("at {path}: expected the text of number {x:?}, the reader returns {}", show(s)))),
			}
		}
		(J::Bool(b), R::Str(s)) if stringly => {
			if s == if *b { "true" } else { "false" } {
				None
			} else {
				Some(("bool-text-differs".into(), format!("at {path}: expected the text of {b}, the reader returns {}", show(s))))
			}
		}
		(J::Null, R::Str(s)) if stringly => {
			if s == "null" {
				None
			} else {
				Some(("null-text-differs".into(), format!("at {path}: expected the text null, the reader returns {}", show(s))))
			}
		}
		(J::Str(a), R::Str(b)) => {
			if a == b {
				None
			} else {
				Some(("string-differs".into(), format!("at {path}: expected string {}, the reader returns string {}", show(&clip(a, 120)), show(&clip(b, 120)))))
			}
		}
		(J::Arr(a), R::List(b)) => {
			if a.len() != b.len() {
				return Some(("sequence-length".into(), format!("at {path}: expected a sequence of {} items, the reader returns {}", a.len(), brief_r(got))));
			}
			for (i, (x, y)) in a.iter().zip(b).enumerate() {
				if let Some(d) = diff(x, y, &format!("{path}[{i}]"), stringly) {
					return Some(d);
				}
			}
			None
		}
		(J::Obj(a), R::Dict(b)) => {
			// same key set (order of keys is not part of the data); a reader that met a duplicate key has fewer entries
			for (k, _) in b {
				match k {
					R::Str(k) if a.iter().any(|x| &x.0 == k) => {}
					other => {
						let expected: Vec<String> = a.iter().map(|x| show(&clip(&x.0, 40))).collect();
						return Some((format!("key-read-as-{}", kind_r(other)), format!("at {path}: the reader returns the key {} which is not among the expected keys [{}]", brief_r(other), clip(&expected.join(", "), 300))));
					}
				}
			}
			for (k, v) in a {
				let hits: Vec<&(R, R)> = b.iter().filter(|x| matches!(&x.0, R::Str(s) if s == k)).collect();
				match hits.len() {
					0 => return Some(("key-missing".into(), format!("at {path}: key {} is missing in what the reader returns: {}", show(k), brief_r(got)))),
					1 => {
						if let Some(d) = diff(v, &hits[0].1, &format!("{path}.{}", show(&clip(k, 30))), stringly) {
							return Some(d);
						}
					}
					_ => return Some(("key-duplicated".into(), format!("at {path}: key {} occurs {} times", show(k), hits.len()))),
				}
			}
			None
		}
		(w, g) => mism(w, g),
	}
}

// ================================================================================================ leniencies (recorded findings)

/// Recorded findings this module can recognise.  Each one is a *repair*: a normalisation of the generated tree or
/// of the way a text is read that makes exactly the recorded defect disappear; a failing case that passes after the
/// repairs of the findings listed as `known` is reported as KNOWN, anything left over stays a violation.
const FINDINGS: &[(&str, &str)] = &[
	("C14-yaml-nonprintable-raw", "YAML double-quoted scalars leave U+007F (and other non-printable characters) unescaped; YAML readers reject the document"),
	("C14-yaml-unicode-line-break-raw", "YAML double-quoted scalars leave U+0085, U+2028 and U+2029 raw; these are line breaks for YAML 1.1 readers (folded, or a syntax error inside a key)"),
	("C14-toml-empty-key-bare", "the empty key is written bare in TOML (` = 1`, `[]`, `[a.]`), which is not TOML"),
	("C14-ini-non-object-panics", "std.manifestIni of a value that is not an object panics instead of failing"),
	("C14-yaml-block-scalar-unescapable", "strings with a line break and a character that needs escaping (control, DEL, U+0085, U+2028, U+FEFF) are emitted as block scalars"),
	("C14-yaml-final-block-scalar-chomped", "a document that ends in a `|` block scalar has no final line break, so the scalar's trailing newline is lost"),
	("C14-yaml-cli-line-padding", "YamlFormat::cli(n) (jrsonnet -f yaml --line-padding n) indents the fields of an object that is an array element by n columns although `- ` is 2 wide: for n != 2 the output is not YAML"),
	("C14-yaml-cli-bare-document-end", "YamlFormat::cli (jrsonnet -f yaml, -y) writes the string `...` bare; at the start of a line that is the document-end marker"),
	("C14-toml-del-raw", "TOML basic strings leave U+007F unescaped; TOML forbids it"),
	("C14-xml-top-level-string", "std.manifestXmlJsonml accepts a bare string (not a JSONML element)"),
];

struct Lenient {
	ids: Vec<&'static str>,
	used: RefCell<Vec<&'static str>>,
}
impl Lenient {
	fn none() -> Self {
		Self { ids: vec![], used: RefCell::new(vec![]) }
	}
	fn known(run: &Run) -> Self {
		// C14_ASSUME_KNOWN=id1,id2 (development aid): treat these findings as recorded without editing known_findings.jsonl
		let all = survey();
		let assumed = std::env::var("C14_ASSUME_KNOWN").unwrap_or_default();
		let assumed: Vec<&str> = assumed.split(',').map(|x| x.trim()).collect();
		Self { ids: FINDINGS.iter().map(|f| f.0).filter(|id| all || assumed.contains(id) || assumed.contains(&"all") || run.is_known(id)).collect(), used: RefCell::new(vec![]) }
	}
	fn on(&self, id: &'static str) -> bool {
		self.ids.contains(&id)
	}
	fn mark(&self, id: &'static str) {
		let mut u = self.used.borrow_mut();
		if !u.contains(&id) {
			u.push(id);
		}
	}
}
fn survey() -> bool {
	std::env::var("C14_SURVEY").map(|v| v == "1").unwrap_or(false)
}
static SURVEY_SEEN: Mutex<BTreeMap<String, u32>> = Mutex::new(BTreeMap::new());
fn survey_print(sig: &str, text: &str, why: &str) {
	let mut m = SURVEY_SEEN.lock().unwrap();
	let n = m.entry(sig.to_owned()).or_default();
	*n += 1;
	if *n <= 3 {
		eprintln!("=== survey [{sig}] #{n}\n{}\n--- {}\n", clip(text, 1500), clip(why, 1500));
	}
}

struct Problem {
	sig: String,
	msg: String,
}
fn problem(sig: impl Into<String>, msg: impl Into<String>) -> Problem {
	Problem { sig: sig.into(), msg: msg.into() }
}

/// decide strictly; on failure decide again with the repairs of the recorded findings
fn settle(run: &Run, text: String, cls: Vec<String>, nontrivial: bool, decide: impl Fn(&Lenient) -> Result<Vec<Problem>, String>) -> CaseOut {
	let strict = Lenient::none();
	let problems = match decide(&strict) {
		Err(e) => {
			if !SIDECAR_REPORTED.swap(true, Ordering::SeqCst) {
				run.infra(format!("C14 sidecar unavailable: {e}"));
			}
			return CaseOut::discard(text, "sidecar unavailable").classes(cls);
		}
		Ok(p) => p,
	};
	if problems.is_empty() {
		return CaseOut::pass(text, nontrivial).classes(cls);
	}
	let known = Lenient::known(run);
	if !known.ids.is_empty() {
		if let Ok(p2) = decide(&known) {
			if p2.is_empty() {
				// attribute the failure: the first recorded finding whose repair alone is enough, else the first one used
				let used: Vec<&'static str> = known.used.borrow().clone();
				let mut id = used.first().copied().unwrap_or("C14-unattributed");
				if used.len() > 1 {
					for u in &used {
						let single = Lenient { ids: vec![*u], used: RefCell::new(vec![]) };
						if matches!(decide(&single), Ok(p) if p.is_empty()) {
							id = *u;
							break;
						}
					}
				}
				if survey() {
					survey_print(&format!("known:{id}"), &text, &problems.iter().map(|p| p.msg.clone()).collect::<Vec<_>>().join("\n"));
					return CaseOut::pass(text, nontrivial).classes(cls).class(format!("survey:known:{id}"));
				}
				let mut out = CaseOut::pass(text, nontrivial).classes(cls);
				out.verdict = Verdict::Known(id.to_owned());
				return out;
			}
		}
	}
	let mut msgs: Vec<String> = problems.iter().map(|p| p.msg.clone()).collect();
	msgs.truncate(8);
	let why = msgs.join("\n");
	if survey() {
		let sig = problems[0].sig.clone();
		survey_print(&format!("residual:{sig}"), &text, &why);
		return CaseOut::pass(text, nontrivial).classes(cls).class(format!("survey:residual:{sig}"));
	}
	CaseOut::fail(text, why).classes(cls)
}

// ================================================================================================ generator

/// the hostile whole words of the property text (floors are required for these)
const WORDS: &[&str] = &[
	"true", "false", "yes", "no", "on", "off", "y", "n", "null", "~", ".nan", ".inf", "-.inf", "0", "-1", "+1", "1_000", "0x1f", "0o17", "0b1", "1e3", ".5", "1.", "1:30", "2001-01-01", "<<",
];
/// further look-alikes (own additions)
const XWORDS: &[&str] = &[
	"=", "-", "---", "...", "?", "- a", "a: b", "a #b", "#a", "[a]", "{a}", "[", "]", "{", "}", ",", "!t", "!!str", "&a", "*a", "|", ">", "%a", "@a", "`a", "'", "\"", "''", "1e+21", "1.5", "+.inf", "NaN", "0.", "-0", "00", "0777", "-0777",
	"1_0", "_1", "1__0", "0x_1f", "0b_1", "0XFF", "0B1", "12:30:45", "1:2", "190:20:30.15", "2001-1-1", "2001-01-01T00:00:00Z", "2001-01-01 00:00:00", "1e5", "1E5", "1.0e+3", "-.5", "+.5", "1_000.5", "0o", "0x", "0b", "e", "E1",
	"----", "..", ".", "-a", "a-", "/", "a/b", "._", "-_", "None", "True", "False", "nil", "Off", "NO", "TRUE", "Null", "NULL", ".NaN", ".Inf", "-.INF", ".NAN", "Y", "N", "a:", ":a", "a :b", "a: ", " a", "a ", "<a>", "&amp;", "]]>", "<!--",
	"${a}", "%(a)s", "key = v", "[s]", ";c", "\\n", "\\", "\\\"", "a\\", "\\u0041", "\\x41",
];
const PLAIN: &[&str] = &["a", "b", "key", "x1", "name", "Z", "aa", "c"];
const PUNCT: &[char] = &['"', '\'', '\\', '#', ':', '-', '=', '[', ']', '{', '}', ',', '&', '*', '!', '|', '>', '%', '@', '`', '<', '?', '~', '.', '/', '+', '_', ';', '$', '(', ')'];
const NUMBERISH: &[char] = &['0', '1', '7', '9', '-', '_', '.', 'e', 'E', 'x', 'X', 'b', 'B', 'o', 'a', 'f', ':', '+', '/'];

#[derive(Default)]
struct Feat {
	classes: Vec<String>,
	hostile: usize,
}
impl Feat {
	fn add(&mut self, c: impl Into<String>) {
		let c = c.into();
		if !self.classes.contains(&c) {
			self.classes.push(c);
		}
	}
}

fn is_plain(s: &str) -> bool {
	let mut cs = s.chars();
	matches!(cs.next(), Some(c) if c.is_ascii_alphabetic()) && cs.all(|c| c.is_ascii_alphanumeric()) && !WORDS.iter().any(|w| w.eq_ignore_ascii_case(s)) && !XWORDS.iter().any(|w| w.eq_ignore_ascii_case(s))
}

/// one character of the hostile alphabet (never a line feed)
fn gen_char(src: &mut Src, f: &mut Feat, role: &str) -> char {
	let k = src.weighted(&[8, 10, 3, 1, 2, 1, 1, 1, 1, 1, 3, 1]);
	let (name, c) = match k {
		0 => ("alnum", *src.pick(&['a', 'b', 'z', 'A', 'Z', '0', '1', '9'])),
		1 => ("punct", *src.pick(PUNCT)),
		2 => ("space", ' '),
		3 => ("tab", '\t'),
		4 => ("c0", *src.pick(&['\u{1}', '\u{0}', '\u{7}', '\u{8}', '\u{b}', '\u{c}', '\r', '\u{1b}', '\u{1f}'])),
		5 => ("del", '\u{7f}'),
		6 => ("nel", '\u{85}'),
		7 => ("nbsp", '\u{a0}'),
		8 => ("ls", '\u{2028}'),
		9 => ("bom", '\u{feff}'),
		10 => ("bmp", *src.pick(&['é', 'ß', '漢', 'Ω', 'ж', '\u{301}', '\u{fffd}'])),
		_ => ("astral", *src.pick(&['😀', '𝄞', '\u{10000}', '\u{10ffff}'])),
	};
	f.add(format!("{role}-char:{name}"));
	c
}

fn gen_line(src: &mut Src, f: &mut Feat, role: &str) -> String {
	let n = src.range(1, 6) as usize;
	let mut s: String = (0..n).map(|_| gen_char(src, f, role)).collect();
	// block-scalar-safe: a line is not empty and neither starts nor ends with a space
	while s.starts_with(' ') {
		s.remove(0);
	}
	while s.ends_with(' ') {
		s.pop();
	}
	if s.is_empty() {
		s.push('x');
	}
	s
}

fn case_variant(src: &mut Src, w: &str) -> String {
	match src.weighted(&[6, 1, 1]) {
		0 => w.to_owned(),
		1 => w.to_ascii_uppercase(),
		_ => {
			let mut cs = w.chars();
			match cs.next() {
				Some(c) => c.to_ascii_uppercase().to_string() + cs.as_str(),
				None => String::new(),
			}
		}
	}
}

/// a key (`role` = "key") or string value (`role` = "val") of the hostile domain
fn gen_str(src: &mut Src, f: &mut Feat, role: &str) -> String {
	let kind = src.weighted(&[3, 6, 3, 5, 2, 2, 1, 2]);
	let s = match kind {
		0 => (*src.pick(PLAIN)).to_owned(),
		1 => {
			let w = *src.pick(WORDS);
			f.add(format!("{role}-word:{w}"));
			let v = case_variant(src, w);
			if v != w {
				f.add(format!("{role}-word-case-variant"));
			}
			v
		}
		2 => {
			f.add(format!("{role}-lookalike"));
			(*src.pick(XWORDS)).to_owned()
		}
		3 => {
			let n = if src.chance(1, 10) { src.range(20, 60) } else { src.range(1, 5) } as usize;
			(0..n).map(|_| gen_char(src, f, role)).collect()
		}
		4 => {
			f.add(format!("{role}-decorated"));
			let core = if src.chance(1, 2) { *src.pick(WORDS) } else { *src.pick(PLAIN) };
			let lead = *src.pick(&["", " ", "  ", "\t", ":", "#", "- ", ": ", "? ", "'", "\""]);
			let trail = *src.pick(&["", " ", "  ", "\t", ":", " #", ": x", " ", ",", "'", "\""]);
			format!("{lead}{core}{trail}")
		}
		5 => {
			f.add(format!("{role}-numberish"));
			let n = src.range(1, 6) as usize;
			(0..n).map(|_| *src.pick(NUMBERISH)).collect()
		}
		6 => {
			f.add(format!("{role}-empty"));
			String::new()
		}
		_ => {
			f.add(format!("{role}-multiline"));
			let n = src.range(1, 4) as usize;
			let mut lines: Vec<String> = (0..n).map(|_| gen_line(src, f, role)).collect();
			if n == 1 || src.chance(1, 2) {
				lines.push(String::new()); // exactly one final newline
				f.add(format!("{role}-multiline-final-newline"));
			}
			lines.join("\n")
		}
	};
	if !is_plain(&s) {
		f.hostile += 1;
	}
	s
}

fn gen_num(src: &mut Src, f: &mut Feat) -> f64 {
	match src.weighted(&[30, 15, 20, 20, 12, 3]) {
		0 => src.range(-20, 20) as f64,
		1 => *src.pick(&[0.5, -0.5, 0.1, 0.2, 0.30000000000000004, 1.0 / 3.0, 2.5, 1e-5, 123456789.125, 1e15, 0.001, 1.5e10, -1.25, -0.0, 1e-6, 1e-7]),
		2 => {
			// integers below 2^53
			let sh = 11 + src.below(50) as u32;
			let v = (src.u64() >> sh) as f64;
			if src.chance(1, 3) {
				-v
			} else {
				v
			}
		}
		3 => {
			let e = src.range(-6, 11);
			let m = src.range(1, 9999) as f64;
			let v = m * 10f64.powi(e as i32);
			if src.chance(1, 4) {
				-v
			} else {
				v
			}
		}
		4 => {
			// any double of moderate magnitude (17 significant digits)
			let bits = 0x3ff0000000000000u64 + (src.u32() as u64) * 1048577;
			let v = f64::from_bits(bits) * 10f64.powi(src.range(-3, 8) as i32);
			if src.chance(1, 4) {
				-v
			} else {
				v
			}
		}
		_ => {
			f.add("number:huge-or-tiny");
			*src.pick(&[1e21, 1e20, 9007199254740992.0, 9007199254740993.0, 1e16, 1e17, 1.2345678901234567e30, 1e300, f64::MAX, f64::MIN, -1e21, 1e-10, 1e-20, 5e-324, f64::MIN_POSITIVE, 1.5e-300, 18446744073709551615.0, 9223372036854775807.0, -9223372036854775808.0])
		}
	}
}

struct TreeCfg {
	null: bool,
	/// probability weight that an array is made of objects only (TOML arrays of tables)
	tables: u32,
}

fn gen_tree(src: &mut Src, depth: usize, width: usize, f: &mut Feat, cfg: &TreeCfg) -> J {
	let leaf = depth == 0 || src.exhausted();
	let c = if leaf { 0 } else { 5 };
	match src.weighted(&[6, 4, if cfg.null { 1 } else { 0 }, 1, c, c]) {
		0 => J::Str(gen_str(src, f, "val")),
		1 => J::Num(gen_num(src, f)),
		2 => J::Null,
		3 => J::Bool(src.chance(1, 2)),
		4 => gen_arr(src, depth, width, f, cfg),
		_ => gen_obj(src, depth, width, f, cfg),
	}
}
fn gen_arr(src: &mut Src, depth: usize, width: usize, f: &mut Feat, cfg: &TreeCfg) -> J {
	let n = src.below(width + 1);
	if cfg.tables > 0 && src.weighted(&[10, cfg.tables]) == 1 {
		return J::Arr((0..n.max(1)).map(|_| gen_obj(src, depth - 1, width, f, cfg)).collect());
	}
	J::Arr((0..n).map(|_| gen_tree(src, depth - 1, width, f, cfg)).collect())
}
fn gen_obj(src: &mut Src, depth: usize, width: usize, f: &mut Feat, cfg: &TreeCfg) -> J {
	let n = src.below(width + 1);
	let mut fields: Vec<(String, J)> = vec![];
	for _ in 0..n {
		let k = gen_str(src, f, "key");
		if fields.iter().any(|x| x.0 == k) {
			continue;
		}
		fields.push((k, gen_tree(src, depth.saturating_sub(1), width, f, cfg)));
	}
	J::Obj(fields)
}
/// a container at the top (so that there is at least one nesting level), occasionally a bare scalar
fn gen_top(src: &mut Src, depth: usize, width: usize, f: &mut Feat, cfg: &TreeCfg) -> J {
	match src.weighted(&[6, 4, 1]) {
		0 => gen_obj(src, depth, width, f, cfg),
		1 => gen_arr(src, depth, width, f, cfg),
		_ => gen_tree(src, 0, width, f, cfg),
	}
}

/// a narrow, deep value: every level is an object or an array with one nested member and optional scalar siblings
fn gen_chain(src: &mut Src, depth: usize, f: &mut Feat, cfg: &TreeCfg) -> J {
	if depth == 0 {
		return gen_tree(src, 0, 1, f, cfg);
	}
	if src.chance(1, 2) {
		let mut items = vec![];
		if src.chance(1, 2) {
			items.push(gen_tree(src, 0, 1, f, cfg));
		}
		items.push(gen_chain(src, depth - 1, f, cfg));
		if src.chance(1, 2) {
			items.push(gen_tree(src, 0, 1, f, cfg));
		}
		J::Arr(items)
	} else {
		let mut fields: Vec<(String, J)> = vec![];
		if src.chance(1, 2) {
			fields.push((gen_str(src, f, "key"), gen_tree(src, 0, 1, f, cfg)));
		}
		let k = gen_str(src, f, "key");
		if !fields.iter().any(|x| x.0 == k) {
			fields.push((k, gen_chain(src, depth - 1, f, cfg)));
		}
		if src.chance(1, 2) {
			let k = gen_str(src, f, "key");
			if !fields.iter().any(|x| x.0 == k) {
				fields.push((k, gen_tree(src, 0, 1, f, cfg)));
			}
		}
		J::Obj(fields)
	}
}

// ------------------------------------------------------------------------------------------------ source text

const HOLE: &str = "\u{0}\u{0}hole\u{0}\u{0}";

fn num_src(v: f64, out: &mut String) {
	if v.is_sign_negative() {
		out.push('-');
	}
	// Rust prints 1e21 as "1e21", 1e-7 as "1e-7", 0.1 as "0.1", 3.0 as "3.0": all valid Jsonnet numbers
	out.push_str(&format!("{:?}", v.abs()));
}
/// Jsonnet source of the value; a string equal to HOLE is replaced by `hole` (an arbitrary expression)
fn lit_into(j: &J, hole: &str, out: &mut String) {
	match j {
		J::Null => out.push_str("null"),
		J::Bool(b) => out.push_str(if *b { "true" } else { "false" }),
		J::Num(n) => num_src(*n, out),
		J::Str(s) if s == HOLE => {
			out.push('(');
			out.push_str(hole);
			out.push(')');
		}
		J::Str(s) => out.push_str(&jstr(s)),
		J::Arr(a) => {
			out.push('[');
			for (i, x) in a.iter().enumerate() {
				if i > 0 {
					out.push_str(", ");
				}
				lit_into(x, hole, out);
			}
			out.push(']');
		}
		J::Obj(f) => {
			out.push('{');
			for (i, (k, v)) in f.iter().enumerate() {
				if i > 0 {
					out.push_str(", ");
				}
				out.push_str(&jstr(k));
				out.push_str(": ");
				lit_into(v, hole, out);
			}
			out.push('}');
		}
	}
}
/// Jsonnet string literal that is readable in reports: everything outside printable ASCII is written as \\uXXXX
fn jstr(s: &str) -> String {
	let mut o = String::from("\"");
	let mut buf = [0u16; 2];
	for c in s.chars() {
		match c {
			'"' => o.push_str("\\\""),
			'\\' => o.push_str("\\\\"),
			'\n' => o.push_str("\\n"),
			'\t' => o.push_str("\\t"),
			' '..='~' => o.push(c),
			c => {
				for u in c.encode_utf16(&mut buf) {
					o.push_str(&format!("\\u{u:04x}"));
				}
			}
		}
	}
	o.push('"');
	o
}
fn lit(j: &J) -> String {
	let mut s = String::new();
	lit_into(j, "null", &mut s);
	s
}

/// evaluate `local v = <value>; [verif.try(call0), verif.try(call1), ...]`; answer i is Ok(text) or Err(error text);
/// an error text that starts with "PANIC" means that jrsonnet panicked in that call (the calls are then run one by one)
fn manifest_all(prelude: &str, calls: &[String]) -> Result<Vec<Result<String, String>>, String> {
	let program = |cs: &[String]| {
		let mut prog = String::from(prelude);
		prog.push_str("[\n");
		for c in cs {
			prog.push_str("  verif.try(");
			prog.push_str(c);
			prog.push_str("),\n");
		}
		prog.push_str("]\n");
		prog
	};
	match jr::eval(&program(calls), &Opts::default()) {
		Outcome::Val(out) => {
			let got: Value = serde_json::from_str(&out).map_err(|e| format!("result of the probe program is not JSON: {e}"))?;
			let arr = got.as_array().ok_or("result of the probe program is not an array")?;
			if arr.len() != calls.len() {
				return Err(format!("probe program returned {} of {} answers", arr.len(), calls.len()));
			}
			Ok(arr
				.iter()
				.map(|e| {
					if e[0] == Value::Bool(true) {
						match e[1].as_str() {
							Some(t) => Ok(t.to_owned()),
							None => Err(format!("[not a string] {}", e[1])),
						}
					} else {
						Err(format!("[{}] {}", e[1].as_str().unwrap_or(""), e[2].as_str().unwrap_or("")))
					}
				})
				.collect())
		}
		Outcome::Panic(_) if calls.len() > 1 => {
			let mut out = vec![];
			for c in calls {
				match manifest_all(prelude, std::slice::from_ref(c)) {
					Ok(mut v) => out.push(v.remove(0)),
					Err(e) => return Err(e),
				}
			}
			Ok(out)
		}
		Outcome::Panic(p) => Ok(vec![Err(format!("PANIC {p}"))]),
		o => Err(format!("probe program did not evaluate: {}", clip(&o.short(), 400))),
	}
}

/// the common part of all in-domain checks: manifest, read back, compare
struct Job {
	/// the Jsonnet call, or (for `api`) the description of the Rust-API path
	call: String,
	/// text produced through the Rust API with the format object the command line builds (value source, format)
	api: Option<(String, Api)>,
	format: &'static str,
	want: J,
	stringly: bool,
	/// classification prefix of problems of this job ("yaml", "toml" ...)
	family: &'static str,
}
/// an alternative reading of a text that repairs a recorded finding: (text to read instead, finding id)
type Alt = (String, &'static str);
fn run_jobs(prelude: &str, jobs: &[Job], len: &Lenient, tweak: &dyn Fn(&Job, &str, &Lenient) -> Vec<Alt>) -> Result<Vec<Problem>, String> {
	let calls: Vec<String> = jobs.iter().filter(|j| j.api.is_none()).map(|j| j.call.clone()).collect();
	let mut call_texts = match manifest_all(prelude, &calls) {
		Ok(t) => t.into_iter(),
		Err(e) => return Ok(vec![problem("probe-program", e)]),
	};
	let mut api_texts = api_manifest(jobs).into_iter();
	let texts: Vec<Result<String, String>> = jobs.iter().map(|j| if j.api.is_none() { call_texts.next().unwrap() } else { api_texts.next().unwrap() }).collect();
	let mut problems = vec![];
	// every text may be read in more than one way: the first is the strict one, the others are repairs of recorded findings
	let mut items: Vec<(&str, String)> = vec![];
	let mut index: Vec<(usize, Vec<&'static str>)> = vec![]; // (job, finding id of each alternative)
	for (i, (job, t)) in jobs.iter().zip(&texts).enumerate() {
		match t {
			Err(e) => problems.push(problem(format!("{}:rejected-in-domain", job.family), format!("{} failed for a value inside the format's domain: {}", job.call, clip(e, 300)))),
			Ok(text) => {
				items.push((job.format, text.clone()));
				let mut ids = vec![""];
				for (alt, id) in tweak(job, text, len) {
					items.push((job.format, alt));
					ids.push(id);
				}
				index.push((i, ids));
			}
		}
	}
	let answers = ask(&items)?;
	let mut pos = 0;
	for (ji, ids) in index {
		let job = &jobs[ji];
		let text = texts[ji].as_ref().unwrap();
		let mut first: Option<Problem> = None;
		let mut ok = false;
		for (k, id) in ids.iter().enumerate() {
			let p = match &answers[pos + k] {
				Err(e) => Some(problem(
					format!("{}:not-well-formed:{}", job.family, err_sig(e)),
					format!("{} produced text that the {} reader rejects: {}\n    text: {}", job.call, job.format, clip(&e.replace('\n', " "), 300), show(&clip(text, 400))),
				)),
				Ok(got) => {
					let got = if job.format == "pyvars" { pairs_to_dict(got) } else { got.clone() };
					diff(&job.want, &got, "$", job.stringly).map(|(sig, msg)| problem(format!("{}:{}", job.family, sig), format!("{} reads back as different data: {}\n    text: {}", job.call, msg, show(&clip(text, 400)))))
				}
			};
			match p {
				None => {
					ok = true;
					if k > 0 && !id.is_empty() {
						len.mark(id);
					}
					break;
				}
				Some(p) => {
					if first.is_none() {
						first = Some(p);
					}
				}
			}
		}
		if !ok {
			problems.push(first.unwrap());
		}
		pos += ids.len();
	}
	Ok(problems)
}
/// the format objects that the command line constructs (crates/jrsonnet-cli/src/manifest.rs); the command line prints
/// the manifested text followed by a line feed
#[derive(Clone, Copy, Debug)]
enum Api {
	Yaml(usize),
	YamlStream(usize),
	Toml(usize),
	Xml,
	Ini,
}
fn api_one(val: &Val, api: Api) -> Result<String, String> {
	let r = match api {
		Api::Yaml(p) => val.manifest(YamlFormat::cli(p)),
		Api::YamlStream(p) => val.manifest(YamlStreamFormat::cli(YamlFormat::cli(p))),
		Api::Toml(p) => val.manifest(TomlFormat::cli(p)),
		Api::Xml => val.manifest(XmlJsonmlFormat::cli()),
		Api::Ini => val.manifest(IniFormat::cli()),
	};
	r.map(|t| format!("{t}\n")).map_err(|e| format!("{}", e.error()))
}
/// texts of the jobs that go through the Rust API, in job order
fn api_manifest(jobs: &[Job]) -> Vec<Result<String, String>> {
	let mut out = vec![];
	for j in jobs {
		let Some((src, api)) = &j.api else { continue };
		let api = *api;
		let r = guarded(|| -> Result<String, String> {
			let (r, sess) = jr::eval_val(src, &Opts::default());
			let val = r.map_err(|e| format!("value expression failed: {}", e.error()))?;
			let _entered = sess.state.enter();
			api_one(&val, api)
		});
		out.push(match r {
			Ok(x) => x,
			Err(p) => Err(format!("PANIC {p}")),
		});
	}
	out
}
/// the assignments of a Python module ([[name, value], ...]) as a mapping
fn pairs_to_dict(r: &R) -> R {
	match r {
		R::List(l) => R::Dict(
			l.iter()
				.map(|kv| match kv {
					R::List(p) if p.len() == 2 => (p[0].clone(), p[1].clone()),
					other => (R::Other("not a pair".into()), other.clone()),
				})
				.collect(),
		),
		other => other.clone(),
	}
}
/// short stable signature of a reader's exception text
fn err_sig(e: &str) -> String {
	let first = e.lines().next().unwrap_or("");
	let s: String = first.chars().filter(|c| !c.is_ascii_digit()).take(70).collect();
	s.replace(['"', '\''], "")
}
fn no_tweak(_: &Job, _: &str, _: &Lenient) -> Vec<Alt> {
	vec![]
}

fn finish_classes(stage: &str, f: &Feat, extra: Vec<String>) -> Vec<String> {
	let mut cls: Vec<String> = f.classes.iter().map(|c| format!("{stage}:{c}")).collect();
	cls.extend(extra.into_iter().map(|c| format!("{stage}:{c}")));
	cls.sort();
	cls.dedup();
	cls
}

// ================================================================================================ YAML

fn yaml_printable(c: char) -> bool {
	matches!(c, '\t' | '\n' | '\r' | ' '..='~' | '\u{85}' | '\u{a0}'..='\u{d7ff}' | '\u{e000}'..='\u{fffd}' | '\u{10000}'..='\u{10ffff}')
}
/// tree-level repairs of the recorded YAML findings
fn yaml_repair(j: &J, len: &Lenient) -> J {
	let fix = |s: &str, is_key: bool| -> String {
		let mut t = s.to_owned();
		let multiline = !is_key && t.contains('\n');
		if multiline && len.on("C14-yaml-block-scalar-unescapable") {
			let bad = |c: char| c != '\n' && (!yaml_printable(c) || matches!(c, '\r' | '\u{85}' | '\u{2028}' | '\u{2029}' | '\u{feff}'));
			if t.chars().any(bad) {
				len.mark("C14-yaml-block-scalar-unescapable");
				t = t.chars().map(|c| if bad(c) { 'R' } else { c }).collect();
			}
		}
		if !is_key && t == "..." && len.on("C14-yaml-cli-bare-document-end") {
			len.mark("C14-yaml-cli-bare-document-end");
			t = "x...".to_owned();
		}
		if len.on("C14-yaml-nonprintable-raw") && t.chars().any(|c| !yaml_printable(c) && (c as u32) >= 0x20) {
			len.mark("C14-yaml-nonprintable-raw");
			t = t.chars().map(|c| if !yaml_printable(c) && (c as u32) >= 0x20 { 'D' } else { c }).collect();
		}
		if len.on("C14-yaml-unicode-line-break-raw") && t.contains(['\u{85}', '\u{2028}', '\u{2029}']) {
			len.mark("C14-yaml-unicode-line-break-raw");
			t = t.replace(['\u{85}', '\u{2028}', '\u{2029}'], "N");
		}
		t
	};
	fn go(j: &J, fix: &dyn Fn(&str, bool) -> String) -> J {
		match j {
			J::Str(s) => J::Str(fix(s, false)),
			J::Arr(a) => J::Arr(a.iter().map(|x| go(x, fix)).collect()),
			J::Obj(f) => {
				let mut out: Vec<(String, J)> = vec![];
				for (k, v) in f {
					let mut k2 = fix(k, true);
					while out.iter().any(|x| x.0 == k2) {
						k2.push('_');
					}
					out.push((k2, go(v, fix)));
				}
				J::Obj(out)
			}
			other => other.clone(),
		}
	}
	go(j, &fix)
}

const BOOLS: [bool; 2] = [false, true];
const CLI_PADDINGS: &[usize] = &[1, 2, 3, 8];

fn yaml_decide(tree: &J, len: &Lenient) -> Result<Vec<Problem>, String> {
	let tree = yaml_repair(tree, len);
	let docs: Vec<J> = match &tree {
		J::Arr(a) => a.clone(),
		other => vec![other.clone()],
	};
	let prelude = format!("local v = {};\nlocal s = {};\n", lit(&tree), lit(&J::Arr(docs.clone())));
	let mut jobs = vec![];
	for iao in BOOLS {
		for qk in BOOLS {
			jobs.push(Job { call: format!("std.manifestYamlDoc(v, {iao}, {qk})"), api: None, format: "yaml", want: tree.clone(), stringly: false, family: "yaml" });
			for cde in BOOLS {
				jobs.push(Job { call: format!("std.manifestYamlStream(s, {iao}, {cde}, {qk})"), api: None, format: "yamls", want: J::Arr(docs.clone()), stringly: false, family: "yaml-stream" });
			}
		}
	}
	// defaults and named arguments
	jobs.push(Job { call: "std.manifestYamlDoc(v)".into(), api: None, format: "yaml", want: tree.clone(), stringly: false, family: "yaml" });
	jobs.push(Job { call: "std.manifestYamlDoc(v, quote_keys=false)".into(), api: None, format: "yaml", want: tree.clone(), stringly: false, family: "yaml" });
	jobs.push(Job { call: "std.manifestYamlStream(s)".into(), api: None, format: "yamls", want: J::Arr(docs.clone()), stringly: false, family: "yaml-stream" });
	jobs.push(Job { call: "std.manifestYamlStream(s, quote_keys=false, c_document_end=false)".into(), api: None, format: "yamls", want: J::Arr(docs.clone()), stringly: false, family: "yaml-stream" });
	// the command line: `jrsonnet -f yaml [--line-padding p]`, `jrsonnet -y -f yaml`
	let pads: &[usize] = if len.on("C14-yaml-cli-line-padding") {
		len.mark("C14-yaml-cli-line-padding");
		&[2]
	} else {
		CLI_PADDINGS
	};
	for p in pads {
		jobs.push(Job { call: format!("YamlFormat::cli({p}) + line feed   [jrsonnet -f yaml --line-padding {p}]"), api: Some((lit(&tree), Api::Yaml(*p))), format: "yaml", want: tree.clone(), stringly: false, family: "yaml-cli" });
		jobs.push(Job {
			call: format!("YamlStreamFormat::cli(YamlFormat::cli({p})) + line feed   [jrsonnet -y -f yaml --line-padding {p}]"),
			api: Some((lit(&J::Arr(docs.clone())), Api::YamlStream(*p))),
			format: "yamls",
			want: J::Arr(docs.clone()),
			stringly: false,
			family: "yaml-stream-cli",
		});
	}
	let empty_stream = docs.is_empty();
	let tweak = move |job: &Job, text: &str, len: &Lenient| -> Vec<Alt> {
		let mut alts: Vec<Alt> = vec![];
		if job.format == "yaml" && len.on("C14-yaml-final-block-scalar-chomped") && !text.ends_with('\n') {
			alts.push((format!("{text}\n"), "C14-yaml-final-block-scalar-chomped"));
		}
		// Not a finding: blank lines followed by a lone `...` are a stream of zero documents under the YAML 1.2 grammar
		// (l-document-prefix* l-document-suffix); PyYAML implements YAML 1.1 and rejects it.  The property asks for
		// well-formed YAML that denotes the same data, which this text is, so it is read as the empty stream.
		if job.format == "yamls" && empty_stream && text.trim() == "..." {
			alts.push((String::new(), ""));
		}
		alts
	};
	run_jobs(&prelude, &jobs, len, &tweak)
}

fn yaml_case(run: &Run, src: &mut Src) -> CaseOut {
	let mut f = Feat::default();
	// mostly bushy trees, one in eight narrow and deep (indentation bookkeeping)
	let cfg = TreeCfg { null: true, tables: 0 };
	let tree = match src.weighted(&[12, 2, 1]) {
		0 => gen_top(src, 4, 4, &mut f, &cfg),
		1 => {
			let d = src.range(5, 12) as usize;
			gen_chain(src, d, &mut f, &cfg)
		}
		_ => {
			// scalars at the top: a stream of scalar documents / a bare scalar document
			let n = src.range(1, 4) as usize;
			f.add("scalar-documents");
			J::Arr((0..n).map(|_| gen_tree(src, 0, 1, &mut f, &cfg)).collect())
		}
	};
	let mut extra = vec![];
	if tree.depth() >= 6 {
		extra.push("deep".to_owned());
	}
	if matches!(&tree, J::Arr(a) if a.is_empty()) {
		extra.push("empty-stream".to_owned());
	}
	if matches!(&tree, J::Arr(a) if a.len() > 1) {
		extra.push("stream-of-several-documents".to_owned());
	}
	let nontrivial = tree.depth() >= 1 && f.hostile > 0;
	let cls = finish_classes("yaml", &f, extra);
	settle(run, format!("yaml: {}", lit(&tree)), cls, nontrivial, |len| yaml_decide(&tree, len))
}

// ================================================================================================ TOML

const TOML_INDENTS: &[&str] = &["", " ", "  ", "\t", "    "];

fn toml_repair(j: &J, len: &Lenient) -> J {
	let fix = |s: &str, is_key: bool| -> String {
		let mut t = s.to_owned();
		if len.on("C14-toml-del-raw") && t.contains('\u{7f}') {
			len.mark("C14-toml-del-raw");
			t = t.replace('\u{7f}', "D");
		}
		if is_key && t.is_empty() && len.on("C14-toml-empty-key-bare") {
			len.mark("C14-toml-empty-key-bare");
			t = "EMPTY".to_owned();
		}
		t
	};
	fn go(j: &J, fix: &dyn Fn(&str, bool) -> String) -> J {
		match j {
			J::Str(s) => J::Str(fix(s, false)),
			J::Arr(a) => J::Arr(a.iter().map(|x| go(x, fix)).collect()),
			J::Obj(f) => {
				let mut out: Vec<(String, J)> = vec![];
				for (k, v) in f {
					let mut k2 = fix(k, true);
					while out.iter().any(|x| x.0 == k2) {
						k2.push('_');
					}
					out.push((k2, go(v, fix)));
				}
				J::Obj(out)
			}
			other => other.clone(),
		}
	}
	go(j, &fix)
}

/// which TOML layouts does the writer have to use for this table?
fn toml_layouts(obj: &[(String, J)], in_aot: bool, out: &mut Vec<String>) {
	fn inline(j: &J, out: &mut Vec<String>) {
		match j {
			J::Obj(f) => {
				out.push("layout:inline-table".into());
				if f.is_empty() {
					out.push("layout:empty-inline-table".into());
				}
				f.iter().for_each(|x| inline(&x.1, out));
			}
			J::Arr(a) => {
				out.push("layout:inline-array".into());
				a.iter().for_each(|x| inline(x, out));
			}
			_ => {}
		}
	}
	for (_, v) in obj {
		match v {
			J::Obj(f) => {
				out.push(if in_aot { "layout:section-inside-array-of-tables" } else { "layout:section" }.into());
				if f.is_empty() {
					out.push("layout:empty-section".into());
				}
				toml_layouts(f, in_aot, out);
			}
			J::Arr(a) if !a.is_empty() && a.iter().all(|x| matches!(x, J::Obj(_))) => {
				out.push(if in_aot { "layout:nested-array-of-tables" } else { "layout:array-of-tables" }.into());
				for e in a {
					if let J::Obj(f) = e {
						if f.is_empty() {
							out.push("layout:empty-array-of-tables-element".into());
						}
						toml_layouts(f, true, out);
					}
				}
			}
			J::Arr(a) => {
				if a.is_empty() {
					out.push("layout:empty-array".into());
				} else {
					out.push("layout:multi-line-array".into());
					let kinds: Vec<&str> = a.iter().map(kind_j).collect();
					if kinds.windows(2).any(|w| w[0] != w[1]) {
						out.push("layout:heterogeneous-array".into());
					}
				}
				a.iter().for_each(|x| inline(x, out));
			}
			_ => {}
		}
	}
}

fn toml_decide(tree: &J, len: &Lenient) -> Result<Vec<Problem>, String> {
	let tree = toml_repair(tree, len);
	let prelude = format!("local v = {};\n", lit(&tree));
	let mut jobs = vec![Job { call: "std.manifestToml(v)".into(), api: None, format: "toml", want: tree.clone(), stringly: false, family: "toml" }];
	for ind in TOML_INDENTS {
		jobs.push(Job { call: format!("std.manifestTomlEx(v, {})", jstr(ind)), api: None, format: "toml", want: tree.clone(), stringly: false, family: "toml" });
	}
	for p in [0usize, 2, 4] {
		jobs.push(Job { call: format!("TomlFormat::cli({p}) + line feed   [jrsonnet -f toml --line-padding {p}]"), api: Some((lit(&tree), Api::Toml(p))), format: "toml", want: tree.clone(), stringly: false, family: "toml-cli" });
	}
	run_jobs(&prelude, &jobs, len, &no_tweak)
}

fn toml_case(run: &Run, src: &mut Src) -> CaseOut {
	let mut f = Feat::default();
	let cfg = TreeCfg { null: false, tables: 8 };
	let tree = if src.chance(1, 8) {
		let d = src.range(4, 10) as usize;
		J::Obj(vec![(gen_str(src, &mut f, "key"), gen_chain(src, d, &mut f, &cfg))])
	} else {
		gen_obj(src, 4, 4, &mut f, &cfg)
	};
	let mut extra = vec![];
	if tree.depth() >= 6 {
		extra.push("deep".to_owned());
	}
	if let J::Obj(o) = &tree {
		toml_layouts(o, false, &mut extra);
	}
	let nontrivial = tree.depth() >= 2 && f.hostile > 0;
	let cls = finish_classes("toml", &f, extra);
	settle(run, format!("toml: {}", lit(&tree)), cls, nontrivial, |len| toml_decide(&tree, len))
}

// ================================================================================================ Python

const IDENTS: &[&str] = &["a", "b", "_", "_x", "x1", "A", "Zz", "__init__", "match", "type", "self", "é", "漢字", "Ω", "a_b_c", "print", "true", "null", "none", "x" /* keywords are excluded: not identifiers for a Python reader */];

fn python_decide(tree: &J, vars: &J) -> Result<Vec<Problem>, String> {
	let prelude = format!("local v = {};\nlocal w = {};\n", lit(tree), lit(vars));
	let jobs = vec![
		Job { call: "std.manifestPython(v)".into(), api: None, format: "py", want: tree.clone(), stringly: false, family: "python" },
		Job { call: "std.manifestPython(w)".into(), api: None, format: "py", want: vars.clone(), stringly: false, family: "python" },
		Job { call: "std.manifestPythonVars(w)".into(), api: None, format: "pyvars", want: vars.clone(), stringly: false, family: "python-vars" },
	];
	run_jobs(&prelude, &jobs, &Lenient::none(), &no_tweak)
}

fn python_case(run: &Run, src: &mut Src) -> CaseOut {
	let mut f = Feat::default();
	let cfg = TreeCfg { null: true, tables: 0 };
	let tree = gen_top(src, 4, 4, &mut f, &cfg);
	let n = src.below(5);
	let mut fields: Vec<(String, J)> = vec![];
	for _ in 0..n {
		let k = (*src.pick(IDENTS)).to_owned();
		if fields.iter().any(|x| x.0 == k) {
			continue;
		}
		if !k.is_ascii() {
			f.add("vars-non-ascii-identifier");
		}
		fields.push((k, gen_tree(src, 2, 3, &mut f, &cfg)));
	}
	if fields.is_empty() {
		f.add("vars-empty");
	}
	let vars = J::Obj(fields);
	let nontrivial = tree.depth() >= 1 && f.hostile > 0;
	let cls = finish_classes("python", &f, vec![]);
	// the sidecar returns the assignments as a list of [name, value] pairs: present them as a mapping
	settle(run, format!("python: {}\npython-vars: {}", lit(&tree), lit(&vars)), cls, nontrivial, |_len| python_decide(&tree, &vars))
}

// ================================================================================================ XML (JSONML)

const XML_NAMES: &[&str] = &["a", "b", "div", "x-y", "_u", "t.1", "A1", "é", "漢", "a_b", "Ω1", "p"];

fn xml_char(src: &mut Src, f: &mut Feat, attr: bool) -> char {
	let k = src.weighted(&[8, 8, 3, if attr { 0 } else { 2 }, 1, 1, 1, 1, 1, 3, 1]);
	let (name, c) = match k {
		0 => ("alnum", *src.pick(&['a', 'b', 'z', 'A', '0', '9'])),
		1 => ("markup", *src.pick(&['<', '>', '&', '"', '\'', ';', '#', '=', '/', '!', '?', '-', ']', '[', '%', '\\'])),
		2 => ("space", ' '),
		3 => ("tab-or-newline", *src.pick(&['\n', '\t'])),
		4 => ("del", '\u{7f}'),
		5 => ("nel", '\u{85}'),
		6 => ("nbsp", '\u{a0}'),
		7 => ("ls", '\u{2028}'),
		8 => ("bom", '\u{feff}'),
		9 => ("bmp", *src.pick(&['é', 'ß', '漢', 'Ω', '\u{301}', '\u{fffd}'])),
		_ => ("astral", *src.pick(&['😀', '𝄞', '\u{10000}', '\u{10ffff}'])),
	};
	f.add(format!("char:{name}"));
	c
}
fn xml_text(src: &mut Src, f: &mut Feat, attr: bool) -> String {
	match src.weighted(&[2, 5, 2, 1, 1]) {
		0 => (*src.pick(PLAIN)).to_owned(),
		1 => {
			let n = src.range(1, 8) as usize;
			f.hostile += 1;
			(0..n).map(|_| xml_char(src, f, attr)).collect()
		}
		2 => {
			f.hostile += 1;
			f.add("text:markup-lookalike");
			(*src.pick(&["&amp;", "&lt;", "&#65;", "&#x41;", "<b>", "</a>", "]]>", "<![CDATA[x]]>", "<!-- c -->", "<?pi?>", "&", "<", ">", "\"", "'", "a&b<c>d\"e'f", "&nbsp;", "%s", "  ", " a ", "&&", "<<"])).to_owned()
		}
		3 => {
			f.add("text:empty");
			String::new()
		}
		_ => {
			f.add("text:word");
			(*src.pick(WORDS)).to_owned()
		}
	}
}
fn gen_jsonml(src: &mut Src, depth: usize, f: &mut Feat) -> J {
	let tag = (*src.pick(XML_NAMES)).to_owned();
	if !tag.is_ascii() {
		f.add("name:non-ascii");
	}
	let mut items = vec![J::Str(tag)];
	match src.weighted(&[3, 1, 5]) {
		0 => f.add("attrs:absent"),
		1 => {
			f.add("attrs:empty");
			items.push(J::Obj(vec![]));
		}
		_ => {
			let n = src.range(1, 3);
			let mut attrs: Vec<(String, J)> = vec![];
			for _ in 0..n {
				let k = (*src.pick(XML_NAMES)).to_owned();
				if attrs.iter().any(|x| x.0 == k) {
					continue;
				}
				let v = match src.weighted(&[8, 1, 1, 1]) {
					0 => J::Str(xml_text(src, f, true)),
					1 => {
						f.add("attrs:number-value");
						J::Num(gen_num(src, f))
					}
					2 => {
						f.add("attrs:bool-value");
						J::Bool(src.chance(1, 2))
					}
					_ => {
						f.add("attrs:null-value");
						J::Null
					}
				};
				attrs.push((k, v));
			}
			f.add("attrs:present");
			items.push(J::Obj(attrs));
		}
	}
	let n = if depth == 0 || src.exhausted() { src.below(2) } else { src.below(5) };
	if n == 0 {
		f.add("element:empty");
	}
	let mut prev_text = false;
	for _ in 0..n {
		if depth > 0 && src.chance(1, 2) {
			items.push(gen_jsonml(src, depth - 1, f));
			prev_text = false;
		} else {
			if prev_text {
				f.add("text:adjacent");
			}
			items.push(J::Str(xml_text(src, f, false)));
			prev_text = true;
		}
	}
	J::Arr(items)
}
/// canonical JSONML: attributes always present, adjacent text merged, empty text dropped
fn jsonml_canon(j: &J) -> J {
	let J::Arr(items) = j else { return j.clone() };
	let tag = items[0].clone();
	let mut rest = &items[1..];
	let attrs = if let Some(J::Obj(a)) = rest.first() {
		rest = &rest[1..];
		J::Obj(a.clone())
	} else {
		J::Obj(vec![])
	};
	let mut kids: Vec<J> = vec![];
	for c in rest {
		match c {
			J::Str(s) => {
				if s.is_empty() {
					continue;
				}
				if let Some(J::Str(prev)) = kids.last_mut() {
					prev.push_str(s);
				} else {
					kids.push(J::Str(s.clone()));
				}
			}
			other => kids.push(jsonml_canon(other)),
		}
	}
	let mut out = vec![tag, attrs];
	out.extend(kids);
	J::Arr(out)
}

fn xml_decide(tree: &J) -> Result<Vec<Problem>, String> {
	let prelude = format!("local v = {};\n", lit(tree));
	let jobs = vec![
		Job { call: "std.manifestXmlJsonml(v)".into(), api: None, format: "xml", want: jsonml_canon(tree), stringly: true, family: "xml" },
		Job { call: "XmlJsonmlFormat::cli() + line feed   [jrsonnet -f xml-jsonml]".into(), api: Some((lit(tree), Api::Xml)), format: "xml", want: jsonml_canon(tree), stringly: true, family: "xml-cli" },
	];
	run_jobs(&prelude, &jobs, &Lenient::none(), &no_tweak)
}
fn xml_case(run: &Run, src: &mut Src) -> CaseOut {
	let mut f = Feat::default();
	let tree = gen_jsonml(src, 3, &mut f);
	let nontrivial = tree.depth() >= 2 && f.hostile > 0;
	let cls = finish_classes("xml", &f, vec![]);
	settle(run, format!("xml: {}", lit(&tree)), cls, nontrivial, |_len| xml_decide(&tree))
}

// ================================================================================================ INI

fn ini_ws(c: char) -> bool {
	c.is_whitespace() || matches!(c, '\u{1c}'..='\u{1f}')
}
fn ini_char(src: &mut Src, f: &mut Feat, key: bool) -> char {
	let k = src.weighted(&[8, 8, 3, 1, 1, 1, 3, 1, 1]);
	let (name, c) = match k {
		0 => ("alnum", *src.pick(&['a', 'b', 'z', 'A', 'Z', '0', '1', '9'])),
		1 => {
			if key {
				("punct", *src.pick(&['"', '\'', '\\', '#', ':', '-', ';', ',', '&', '*', '!', '|', '>', '%', '@', '`', '<', '?', '~', '.', '/', '+', '_', '$', '(', ')', '{', '}']))
			} else {
				("punct", *src.pick(&['"', '\'', '\\', '#', ':', '-', ';', ',', '&', '*', '!', '|', '>', '%', '@', '`', '<', '?', '~', '.', '/', '+', '_', '$', '(', ')', '{', '}', '=', '[', ']']))
			}
		}
		2 => ("space", ' '),
		3 => ("tab", '\t'),
		4 => ("del", '\u{7f}'),
		5 => ("bom", '\u{feff}'),
		6 => ("bmp", *src.pick(&['é', 'ß', '漢', 'Ω', '\u{301}', '\u{fffd}'])),
		7 => ("nbsp", '\u{a0}'),
		_ => ("astral", *src.pick(&['😀', '𝄞', '\u{10ffff}'])),
	};
	f.add(format!("char:{name}"));
	c
}
/// INI names and values: one line, no white space at either end; names: non-empty, no `=`, `[`, `]`, no comment sign in front
fn ini_text(src: &mut Src, f: &mut Feat, key: bool) -> String {
	let mut s: String = match src.weighted(&[3, 5, 2, if key { 0 } else { 1 }]) {
		0 => (*src.pick(PLAIN)).to_owned(),
		1 => {
			f.hostile += 1;
			let n = src.range(1, 8) as usize;
			(0..n).map(|_| ini_char(src, f, key)).collect()
		}
		2 => {
			f.hostile += 1;
			f.add("text:word");
			let w = *src.pick(&["true", "false", "yes", "no", "on", "off", "null", "~", "0", "-1", "1e3", "1:30", "a b", "a: b", "a #b", "a ;b", "%(a)s", "${a}", "\"q\"", "'q'", "a\\", "\\n", "DEFAULT", "a.b", "a:b", "x y z", "%", "%%"]);
			w.to_owned()
		}
		_ => {
			f.add("value:empty");
			String::new()
		}
	};
	while s.chars().next().is_some_and(ini_ws) {
		s.remove(0);
	}
	while s.chars().last().is_some_and(ini_ws) {
		s.pop();
	}
	if key {
		while s.starts_with(['#', ';']) {
			s.remove(0);
			while s.chars().next().is_some_and(ini_ws) {
				s.remove(0);
			}
		}
		if s.is_empty() {
			s.push('k');
		}
	} else if s.starts_with(['#', ';']) {
		s.insert(0, 'v');
	}
	s
}
fn ini_scalar(src: &mut Src, f: &mut Feat) -> J {
	match src.weighted(&[6, 2, 1]) {
		0 => J::Str(ini_text(src, f, false)),
		1 => {
			f.add("value:number");
			J::Num(gen_num(src, f))
		}
		_ => {
			f.add("value:bool");
			J::Bool(src.chance(1, 2))
		}
	}
}
fn ini_body(src: &mut Src, f: &mut Feat) -> J {
	let n = src.below(5);
	let mut fields: Vec<(String, J)> = vec![];
	for _ in 0..n {
		let k = ini_text(src, f, true);
		if fields.iter().any(|x| x.0 == k) {
			continue;
		}
		let v = if src.chance(1, 4) {
			let m = src.below(4);
			f.add(match m {
				0 => "value:empty-array",
				1 => "value:array-of-one",
				_ => "value:array",
			});
			J::Arr((0..m).map(|_| ini_scalar(src, f)).collect())
		} else {
			ini_scalar(src, f)
		};
		fields.push((k, v));
	}
	if fields.is_empty() {
		f.add("body:empty");
	}
	J::Obj(fields)
}
fn gen_ini(src: &mut Src, f: &mut Feat) -> J {
	let mut top: Vec<(String, J)> = vec![];
	if src.chance(2, 3) {
		f.add("main:present");
		top.push(("main".into(), ini_body(src, f)));
	} else {
		f.add("main:absent");
	}
	let n = src.below(4);
	let mut secs: Vec<(String, J)> = vec![];
	for _ in 0..n {
		let k = ini_text(src, f, true);
		if secs.iter().any(|x| x.0 == k) {
			continue;
		}
		secs.push((k, ini_body(src, f)));
	}
	if secs.is_empty() {
		f.add("sections:none");
	}
	top.push(("sections".into(), J::Obj(secs)));
	J::Obj(top)
}
/// what an INI reader can see: every key with the list of its values (a key with an empty list does not appear)
fn ini_canon(tree: &J) -> J {
	fn body(b: &J) -> J {
		let J::Obj(f) = b else { return J::Obj(vec![]) };
		J::Obj(
			f.iter()
				.filter_map(|(k, v)| match v {
					J::Arr(a) if a.is_empty() => None,
					J::Arr(a) => Some((k.clone(), J::Arr(a.clone()))),
					other => Some((k.clone(), J::Arr(vec![other.clone()]))),
				})
				.collect(),
		)
	}
	let J::Obj(top) = tree else { return tree.clone() };
	let main = top.iter().find(|x| x.0 == "main").map(|x| body(&x.1)).unwrap_or(J::Obj(vec![]));
	let sections = match top.iter().find(|x| x.0 == "sections") {
		Some((_, J::Obj(s))) => J::Obj(s.iter().map(|(k, v)| (k.clone(), body(v))).collect()),
		_ => J::Obj(vec![]),
	};
	J::Obj(vec![("main".into(), main), ("sections".into(), sections)])
}
fn ini_decide(tree: &J) -> Result<Vec<Problem>, String> {
	let prelude = format!("local v = {};\n", lit(tree));
	let jobs = vec![
		Job { call: "std.manifestIni(v)".into(), api: None, format: "ini", want: ini_canon(tree), stringly: true, family: "ini" },
		Job { call: "IniFormat::cli() + line feed   [jrsonnet -f ini]".into(), api: Some((lit(tree), Api::Ini)), format: "ini", want: ini_canon(tree), stringly: true, family: "ini-cli" },
	];
	run_jobs(&prelude, &jobs, &Lenient::none(), &no_tweak)
}
fn ini_case(run: &Run, src: &mut Src) -> CaseOut {
	let mut f = Feat::default();
	let tree = gen_ini(src, &mut f);
	let nontrivial = f.hostile > 0;
	let cls = finish_classes("ini", &f, vec![]);
	settle(run, format!("ini: {}", lit(&tree)), cls, nontrivial, |_len| ini_decide(&tree))
}

// ================================================================================================ out-of-domain values are rejected

const FUNCTION: &str = "function(x) x";

/// put HOLE somewhere into a (TOML-shaped) tree; returns a description of the place
fn plant(src: &mut Src, base: J, toml: bool) -> (J, &'static str) {
	let hole = J::Str(HOLE.to_owned());
	let small = || J::Obj(vec![("k".into(), J::Num(1.0))]);
	let k = src.below(if toml { 7 } else { 6 });
	let (inner, place): (J, &'static str) = match k {
		0 => (hole, "field value"),
		1 => (J::Arr(vec![J::Num(1.0), hole]), "array element"),
		2 => (J::Obj(vec![("in".into(), hole)]), "field of a nested object"),
		3 => (J::Arr(vec![small(), J::Obj(vec![("in".into(), hole)])]), "field of an object in an array of objects"),
		4 => (J::Arr(vec![J::Num(1.0), J::Obj(vec![("in".into(), hole)])]), "field of an object in a mixed array"),
		5 => (J::Arr(vec![J::Arr(vec![hole])]), "element of a nested array"),
		_ => (J::Obj(vec![("t".into(), J::Arr(vec![J::Obj(vec![("u".into(), J::Arr(vec![J::Obj(vec![("in".into(), hole)])]))])]))]), "field in a nested array of tables"),
	};
	let mut fields = match base {
		J::Obj(f) => f,
		_ => vec![],
	};
	fields.retain(|x| x.0 != "zz");
	fields.push(("zz".into(), inner));
	(J::Obj(fields), place)
}

struct Reject {
	/// calls that must fail
	calls: Vec<String>,
	/// the value (`v`) with the offending part in place
	bad: String,
	/// the value with the offending part replaced by something harmless: every call must then succeed
	good: Option<String>,
	what: String,
	class: String,
}

fn gen_reject(src: &mut Src, f: &mut Feat) -> Reject {
	let yaml_calls = || vec!["std.manifestYamlDoc(v)".to_owned(), "std.manifestYamlDoc(v, true, false)".to_owned(), "std.manifestYamlStream([v])".to_owned(), "std.manifestYamlStream([1, v], true, false, false)".to_owned()];
	let toml_calls = || vec!["std.manifestToml(v)".to_owned(), "std.manifestTomlEx(v, '  ')".to_owned(), "std.manifestTomlEx(v, '')".to_owned()];
	let py_calls = || vec!["std.manifestPython(v)".to_owned(), "std.manifestPythonVars(v)".to_owned()];
	let with = |j: &J, hole: &str| {
		let mut s = String::new();
		lit_into(j, hole, &mut s);
		s
	};
	match src.below(9) {
		0 => {
			// a function somewhere in a YAML / Python value
			let base = gen_obj(src, 2, 3, f, &TreeCfg { null: true, tables: 0 });
			let base = J::Obj(match base {
				J::Obj(fl) => fl.into_iter().enumerate().map(|(i, (_, v))| (format!("k{i}"), v)).collect(),
				_ => vec![],
			});
			let (t, place) = plant(src, base, false);
			let mut calls = yaml_calls();
			calls.extend(py_calls());
			Reject { calls, bad: with(&t, FUNCTION), good: Some(with(&t, "1")), what: format!("function as {place}"), class: format!("function-in-yaml-python:{place}") }
		}
		1 => {
			let base = gen_obj(src, 2, 3, f, &TreeCfg { null: false, tables: 4 });
			let (t, place) = plant(src, base, true);
			Reject { calls: toml_calls(), bad: with(&t, FUNCTION), good: Some(with(&t, "1")), what: format!("function as {place} (TOML)"), class: format!("function-in-toml:{place}") }
		}
		2 => {
			let base = gen_obj(src, 2, 3, f, &TreeCfg { null: false, tables: 4 });
			let (t, place) = plant(src, base, true);
			Reject { calls: toml_calls(), bad: with(&t, "null"), good: Some(with(&t, "0")), what: format!("null as {place} (TOML)"), class: format!("null-in-toml:{place}") }
		}
		3 => {
			// top-level shapes
			let (v, what) = *src.pick(&[
				(FUNCTION, "function at the top"),
				("[function(x) x]", "function in a top-level array"),
				("{a: function(x) x}", "function in a top-level object"),
				("{a: [{b: function(x) x}]}", "function deep inside"),
			]);
			let mut calls = yaml_calls();
			calls.push("std.manifestPython(v)".into());
			if v.starts_with('{') {
				calls.extend(toml_calls());
				calls.push("std.manifestPythonVars(v)".into());
			}
			Reject { calls, bad: v.to_owned(), good: None, what: what.to_owned(), class: format!("fixed:{what}") }
		}
		4 => {
			let (v, what) = *src.pick(&[("[1, 2]", "array"), ("\"s\"", "string"), ("1", "number"), ("null", "null"), ("true", "boolean"), ("[{a: 1}]", "array of objects")]);
			let mut calls = toml_calls();
			calls.push("std.manifestPythonVars(v)".into());
			calls.push("std.manifestIni(v)".into());
			Reject { calls, bad: v.to_owned(), good: None, what: format!("top-level {what} for TOML / Python variables / INI"), class: format!("toml-pyvars-ini-top:{what}") }
		}
		5 => {
			let (v, what) = *src.pick(&[("{a: 1}", "object"), ("\"s\"", "string"), ("1", "number"), ("null", "null"), ("true", "boolean")]);
			Reject {
				calls: vec!["std.manifestYamlStream(v)".into(), "std.manifestYamlStream(v, true, false, false)".into()],
				bad: v.to_owned(),
				good: None,
				what: format!("top-level {what} for a YAML stream"),
				class: format!("yaml-stream-top:{what}"),
			}
		}
		6 | 7 => {
			// non-JSONML shapes
			let (v, what) = *src.pick(&[
				("1", "number at the top"),
				("null", "null at the top"),
				("true", "boolean at the top"),
				("{}", "object at the top"),
				("{tag: 'a'}", "object at the top"),
				("[]", "empty array (no tag)"),
				("[1]", "number as tag"),
				("[null]", "null as tag"),
				("[['a']]", "array as tag"),
				("[{}]", "object as tag"),
				("['a', 1]", "number as child"),
				("['a', null]", "null as child"),
				("['a', true]", "boolean as child"),
				("['a', {}, {}]", "second object (child position)"),
				("['a', 't', {}]", "object after a text child"),
				("['a', {}, 1]", "number as child after attributes"),
				("['a', []]", "empty array as child"),
				("['a', ['b', 3]]", "number as grandchild"),
				("['a', ['b', ['c', {}, null]]]", "null deep inside"),
				("['a', function(x) x]", "function as child"),
				("[function(x) x]", "function as tag"),
				("['a', {x: function(x) x}]", "function as attribute value"),
				("['a', ['b', {}, function(x) x]]", "function as grandchild"),
				("function(x) ['a']", "function at the top"),
				("'text'", "bare string at the top"),
				("''", "empty string at the top"),
			]);
			Reject { calls: vec!["std.manifestXmlJsonml(v)".into()], bad: v.to_owned(), good: None, what: format!("JSONML: {what}"), class: format!("jsonml:{what}") }
		}
		_ => {
			let (v, what) = *src.pick(&[
				("{sections: {s: 1}}", "number as section"),
				("{sections: {s: 'x'}}", "string as section"),
				("{sections: {s: [1]}}", "array as section"),
				("{sections: {s: null}}", "null as section"),
				("{sections: {s: true}}", "boolean as section"),
				("{sections: {a: {k: 1}, s: [{k: 1}]}}", "array of objects as section"),
				("{sections: [1]}", "array as sections"),
				("{sections: null}", "null as sections"),
				("{sections: 's'}", "string as sections"),
				("{main: 1, sections: {}}", "number as main"),
				("{main: [1], sections: {}}", "array as main"),
				("{main: 's', sections: {}}", "string as main"),
				("{main: {k: function(x) x}, sections: {}}", "function as value in main"),
				("{main: {k: [1, function(x) x]}, sections: {}}", "function in an array value"),
				("{sections: {s: {k: function(x) x}}}", "function as value in a section"),
				("{sections: {s: function(x) {}}}", "function as section"),
				("{sections: function(x) {}}", "function as sections"),
				("{main: function(x) {}, sections: {}}", "function as main"),
			]);
			Reject { calls: vec!["std.manifestIni(v)".into()], bad: v.to_owned(), good: None, what: format!("INI: {what}"), class: format!("ini:{what}") }
		}
	}
}

fn reject_case(run: &Run, src: &mut Src) -> CaseOut {
	let mut f = Feat::default();
	let r = gen_reject(src, &mut f);
	let text = format!("rejected: local v = {}; {}   // {}", r.bad, r.calls.join(" | "), r.what);
	let cls = vec![format!("rejected:{}", r.class)];
	settle(run, text, cls, true, |len| {
		let mut problems = vec![];
		match manifest_all(&format!("local v = {};\n", r.bad), &r.calls) {
			Err(e) => problems.push(problem("rejected:probe-program", e)),
			Ok(res) => {
				for (c, t) in r.calls.iter().zip(res) {
					if let Ok(t) = t {
						if c.contains("manifestXmlJsonml") && r.what.contains("string at the top") && len.on("C14-xml-top-level-string") {
							len.mark("C14-xml-top-level-string");
							continue;
						}
						problems.push(problem(format!("rejected:accepted:{}", r.class), format!("{c} accepted a value outside the format's domain ({}) and produced {}", r.what, show(&clip(&t, 200)))));
					} else if let Err(e) = t {
						if e.starts_with("PANIC") {
							if c.contains("manifestIni") && e.contains("shape is correct") && len.on("C14-ini-non-object-panics") {
								len.mark("C14-ini-non-object-panics");
								continue;
							}
							problems.push(problem(format!("rejected:panic:{}", r.class), format!("{c} panicked instead of rejecting the value ({}): {}", r.what, clip(&e, 300))));
						}
					}
				}
			}
		}
		if let Some(good) = &r.good {
			match manifest_all(&format!("local v = {good};\n"), &r.calls) {
				Err(e) => problems.push(problem("rejected:probe-program", e)),
				Ok(res) => {
					for (c, t) in r.calls.iter().zip(res) {
						if let Err(e) = t {
							if c.contains("manifestPythonVars") {
								continue; // keys of the control value need not be identifiers; only the rejection matters here
							}
							problems.push(problem("rejected:control-fails", format!("{c} also fails once the offending part is replaced by a number ({e}): the rejection above proves nothing")));
						}
					}
				}
			}
		}
		Ok(problems)
	})
}

// ================================================================================================ driver

const RULE: &str = "JSON-like trees whose keys and strings come from a format-hostile alphabet (quotes, backslash, # : - = [ ] { } , & * ! | > % @ ` <, leading/trailing/inner spaces, tab, C0 controls, U+007F, U+0085, U+00A0, U+2028, U+FEFF, astral, empty string, the YAML 1.1 keywords and number look-alikes of the property text in three letter cases, further look-alikes, number-ish strings, block-scalar-safe multi-line strings), numbers weighted to |x| < 2^53 (3 % huge/tiny); bushy trees (depth 4, width 4), narrow chains of depth 5-12 and streams of scalar documents; per format only its sub-domain (TOML: object at the top, no null, arrays of tables biased; Python vars: identifier keys; XML: JSONML with XML names, no C0 controls; INI: {main?, sections}, one-line names/values without edge white space). Every tree is manifested by every function/option combination of its format (manifestYamlDoc x4, manifestYamlStream x8 + defaults/named arguments, manifestToml, manifestTomlEx x5 indents, manifestPython, manifestPythonVars, manifestXmlJsonml, manifestIni) and, through the Rust API, by the format objects the command line builds followed by the line feed the command line prints (YamlFormat::cli(1|2|3|8), YamlStreamFormat::cli, TomlFormat::cli(0|2|4), XmlJsonmlFormat::cli, IniFormat::cli), and read back by the Python sidecar (PyYAML safe_load/safe_load_all, tomllib, ast.literal_eval/ast.parse, ElementTree, configparser); the data read must equal the tree (keys, strings code point for code point, numbers as doubles, sequence order, document count). Out-of-domain values (functions anywhere, null in TOML, wrong top-level shapes, non-JSONML shapes, non-object INI sections) must be rejected, and the same value without the offending part must be accepted. Non-trivial = at least one hostile key/string and one nesting level; distinct by value text.";

/// the readers and the comparison are exercised on fixed texts in every run: equal data must be accepted, different data detected
fn selftest(i: u64) -> CaseOut {
	let n = |x: f64| J::Num(x);
	let st = |x: &str| J::Str(x.to_owned());
	let o = |f: Vec<(&str, J)>| J::Obj(f.into_iter().map(|(k, v)| (k.to_owned(), v)).collect());
	let table: Vec<(&str, &str, J, bool, bool)> = vec![
		("yaml", "a: 1\nb: [x, 2.5, null, true]", o(vec![("a", n(1.0)), ("b", J::Arr(vec![st("x"), n(2.5), J::Null, J::Bool(true)]))]), false, true),
		("yaml", "a: yes", o(vec![("a", st("yes"))]), false, false),
		("yaml", "a: 0x1f", o(vec![("a", st("0x1f"))]), false, false),
		("yaml", "\"a\": \"b \\u00e9\"", o(vec![("a", st("b \u{e9}"))]), false, true),
		("yaml", "a: 1\na: 2", o(vec![("a", n(2.0))]), false, true), // PyYAML keeps the last of duplicate keys: known weakness of this reader
		("yaml", "a: [", o(vec![]), false, false),
		("yamls", "---\n1\n---\n2\n", J::Arr(vec![n(1.0), n(2.0)]), false, true),
		("yamls", "---\n1\n---\n2\n", J::Arr(vec![n(1.0)]), false, false),
		("yamls", "---\n2\n---\n1\n", J::Arr(vec![n(1.0), n(2.0)]), false, false),
		("toml", "a = 1\n[b]\nc = \"x\"\n[[d]]\n[[d]]\ne = 0.5", o(vec![("a", n(1.0)), ("b", o(vec![("c", st("x"))])), ("d", J::Arr(vec![o(vec![]), o(vec![("e", n(0.5))])]))]), false, true),
		("toml", "a = 1", o(vec![("a", st("1"))]), false, false),
		("toml", "a = 1\na = 2", o(vec![("a", n(2.0))]), false, false),
		("toml", "a = 100000000000000000000", o(vec![("a", n(1e20))]), false, true),
		("py", "{\"a\": [1, None, True, 1e+21, \"\\u00e9\"]}", o(vec![("a", J::Arr(vec![n(1.0), J::Null, J::Bool(true), n(1e21), st("\u{e9}")]))]), false, true),
		("py", "[1, 2]", J::Arr(vec![n(2.0), n(1.0)]), false, false),
		("py", "(1, 2)", J::Arr(vec![n(1.0), n(2.0)]), false, false),
		("pyvars", "a = 1\nb = [\"x\"]\n", o(vec![("a", n(1.0)), ("b", J::Arr(vec![st("x")]))]), false, true),
		("pyvars", "a = 1\na = 2\n", o(vec![("a", n(2.0))]), false, false),
		("pyvars", "a-b = 1\n", o(vec![("a-b", n(1.0))]), false, false),
		("xml", "<a x=\"1\">t&amp;<b></b>u<c/></a>", J::Arr(vec![st("a"), o(vec![("x", n(1.0))]), st("t&"), J::Arr(vec![st("b"), o(vec![])]), st("u"), J::Arr(vec![st("c"), o(vec![])])]), true, true),
		("xml", "<a>t</a>", J::Arr(vec![st("a"), o(vec![]), st("t ")]), true, false),
		("xml", "<a>t", J::Arr(vec![st("a"), o(vec![]), st("t")]), true, false),
		("ini", "k = 1\nk = x y\n[s]\na = \n[t]\n", o(vec![("main", o(vec![("k", J::Arr(vec![n(1.0), st("x y")]))])), ("sections", o(vec![("s", o(vec![("a", J::Arr(vec![st("")]))])), ("t", o(vec![]))]))]), true, true),
		("ini", "k = 1\n", o(vec![("main", o(vec![("k", J::Arr(vec![n(2.0)]))])), ("sections", o(vec![]))]), true, false),
		("ini", "[s]\nk = 1\n", o(vec![("main", o(vec![])), ("sections", o(vec![("t", o(vec![("k", J::Arr(vec![n(1.0)]))]))]))]), true, false),
	];
	let Some((fmt, text, want, stringly, same)) = table.into_iter().nth(i as usize) else {
		return CaseOut::discard(format!("selftest {i}"), "no such self-test");
	};
	let label = format!("selftest {i}: {fmt} {} against {}", show(text), want.to_text());
	match ask(&[(fmt, text.to_owned())]) {
		Err(e) => CaseOut::fail(label, format!("sidecar unavailable: {e}")),
		Ok(ans) => {
			let d = match &ans[0] {
				Err(e) => Some(format!("reader rejects: {e}")),
				Ok(got) => {
					let got = if fmt == "pyvars" { pairs_to_dict(got) } else { got.clone() };
					diff(&want, &got, "$", stringly).map(|x| x.1)
				}
			};
			match (d, same) {
				(None, true) | (Some(_), false) => CaseOut::pass(label, true).class("selftest"),
				(None, false) => CaseOut::fail(label, "the oracle accepted data that differs from the text".into()),
				(Some(m), true) => CaseOut::fail(label, format!("the oracle rejected matching data: {m}")),
			}
		}
	}
}
const SELFTESTS: u64 = 25;

/// Decide a case given as text (the `replay` field of a recorded finding):
///   `yaml: <jsonnet value>` | `toml: ...` | `python: ...` | `xml: ...` | `ini: ...`   the value goes through that stage's check
///   `rejected: <jsonnet call>`                                                         the call must fail with an error
fn decide_text(run: &Run, text: &str) -> CaseOut {
	let Some((stage, expr)) = text.split_once(':') else {
		return CaseOut::fail(text.to_owned(), "reproducer is not of the form `<stage>: <jsonnet>`".into());
	};
	let expr = expr.trim();
	let label = text.to_owned();
	if stage == "rejected" {
		let call = expr.to_owned();
		return settle(run, label, vec![], true, |len| {
			let mut problems = vec![];
			match manifest_all("", std::slice::from_ref(&call)) {
				Err(e) => problems.push(problem("rejected:probe-program", e)),
				Ok(res) => match &res[0] {
					Ok(t) => {
						if call.contains("manifestXmlJsonml") && len.on("C14-xml-top-level-string") {
							len.mark("C14-xml-top-level-string");
						} else {
							problems.push(problem("rejected:accepted", format!("{call} accepted a value outside the format's domain and produced {}", show(&clip(t, 200)))));
						}
					}
					Err(e) if e.starts_with("PANIC") => {
						if call.contains("manifestIni") && e.contains("shape is correct") && len.on("C14-ini-non-object-panics") {
							len.mark("C14-ini-non-object-panics");
						} else {
							problems.push(problem("rejected:panic", format!("{call} panicked instead of rejecting the value: {}", clip(e, 300))));
						}
					}
					Err(_) => {}
				},
			}
			Ok(problems)
		});
	}
	let tree = match jr::eval(expr, &Opts::default()) {
		Outcome::Val(j) => match crate::json::parse(&j) {
			Ok(t) => t,
			Err(e) => return CaseOut::fail(label, format!("value of the reproducer is not JSON: {} at {}", e.0, e.1)),
		},
		o => return CaseOut::fail(label, format!("value of the reproducer does not evaluate: {}", clip(&o.short(), 300))),
	};
	match stage {
		"yaml" => settle(run, label, vec![], true, |len| yaml_decide(&tree, len)),
		"toml" => settle(run, label, vec![], true, |len| toml_decide(&tree, len)),
		"python" => settle(run, label, vec![], true, |_| python_decide(&tree, &J::Obj(vec![]))),
		"xml" => settle(run, label, vec![], true, |_| xml_decide(&tree)),
		"ini" => settle(run, label, vec![], true, |_| ini_decide(&tree)),
		_ => CaseOut::fail(label, format!("unknown stage {stage}")),
	}
}

pub fn run(run: &Run) {
	run.set_rule(RULE);
	run.assume("the readers of /usr/bin/python3 (PyYAML 6.0 pure-Python SafeLoader = YAML 1.1, tomllib, ast, xml.etree/expat, configparser) implement their formats; PyYAML decides YAML questions");
	match ask(&[("py", "[1, 'probe']".to_owned())]) {
		Ok(v) if matches!(v.first(), Some(Ok(R::List(l))) if l.len() == 2) => {}
		Ok(v) => run.infra(format!("C14 sidecar self-test gave {:?}", v.first())),
		Err(e) => {
			run.infra(format!("C14 sidecar unavailable: {e}"));
			return;
		}
	}
	if let Ok(t) = std::env::var("C14_DECIDE") {
		// development aid: decide one case given as text (same form as the reproducers of recorded findings) and stop
		let out = decide_text(run, &t);
		run.record("decide", &out);
		match &out.verdict {
			Verdict::Fail(why) => run.add_violation("known-reproducers", &out.text, why, None, Value::Null),
			Verdict::Known(id) => eprintln!("KNOWN {id}"),
			Verdict::Pass => eprintln!("PASS"),
			Verdict::Discard(w) => eprintln!("DISCARD {w}"),
		}
		run.note("C14_DECIDE set: only that case was decided");
		return;
	}
	if survey() {
		run.note("C14_SURVEY=1: failures are counted as classes survey:* instead of being reported (development mode)");
	}
	run.enumerate("oracle-selftest", SELFTESTS, selftest);
	run.reproduce_known(|k| decide_text(run, &k.replay));
	let n = run.tier.pick(6_000, 60_000);
	run.explore("yaml", 2 * n, 20..=260, |src| yaml_case(run, src));
	run.explore("toml", n + n / 2, 20..=260, |src| toml_case(run, src));
	run.explore("python", n, 20..=260, |src| python_case(run, src));
	run.explore("xml", n, 20..=200, |src| xml_case(run, src));
	run.explore("ini", n, 20..=200, |src| ini_case(run, src));
	run.explore("rejected", run.tier.pick(4_500, 45_000), 10..=120, |src| reject_case(run, src));
	if survey() {
		let m = SURVEY_SEEN.lock().unwrap();
		for (k, v) in m.iter() {
			eprintln!("survey total {v:6}  {k}");
		}
	}
	// floors (generator-degenerate guard)
	let floor = run.tier.pick(30, 300);
	for w in WORDS {
		run.require_class(&format!("yaml:key-word:{w}"), floor);
		run.require_class(&format!("yaml:val-word:{w}"), floor);
	}
	for c in ["c0", "del", "nel", "nbsp", "ls", "bom", "astral", "tab", "punct"] {
		run.require_class(&format!("yaml:val-char:{c}"), floor);
		run.require_class(&format!("yaml:key-char:{c}"), floor);
	}
	for c in ["val-multiline", "val-multiline-final-newline", "val-empty", "key-empty", "val-numberish", "key-numberish", "number:huge-or-tiny", "stream-of-several-documents"] {
		run.require_class(&format!("yaml:{c}"), floor);
	}
	let lf = run.tier.pick(200, 3000);
	for c in ["inline-table", "section", "array-of-tables", "nested-array-of-tables", "section-inside-array-of-tables", "empty-section", "empty-array", "heterogeneous-array", "multi-line-array"] {
		run.require_class(&format!("toml:layout:{c}"), if c.starts_with("empty") || c.starts_with("nested") { lf / 2 } else { lf });
	}
	for c in ["attrs:present", "attrs:absent", "attrs:empty", "text:adjacent", "text:markup-lookalike", "element:empty", "char:markup"] {
		run.require_class(&format!("xml:{c}"), lf / 2);
	}
	for c in ["main:present", "main:absent", "value:array", "value:empty-array", "value:number", "char:punct"] {
		run.require_class(&format!("ini:{c}"), lf / 2);
	}
}

pub fn replay(run: &Run, stage: &str, tape: Option<&[u16]>, v: &Value) -> Option<CaseOut> {
	if stage == "oracle-selftest" {
		return v["extra"]["index"].as_u64().map(selftest);
	}
	if stage == "known-reproducers" {
		return v["case"].as_str().map(|c| decide_text(run, c));
	}
	let t = tape?;
	let mut src = Src::new(t);
	match stage {
		"yaml" => Some(yaml_case(run, &mut src)),
		"toml" => Some(toml_case(run, &mut src)),
		"python" => Some(python_case(run, &mut src)),
		"xml" => Some(xml_case(run, &mut src)),
		"ini" => Some(ini_case(run, &mut src)),
		"rejected" => Some(reject_case(run, &mut src)),
		_ => None,
	}
}
