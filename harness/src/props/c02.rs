//! C02 — object inheritance, late binding and visibility follow the object model.
//! Chains of object layers over a tiny field alphabet, decided probe by probe against the reference object model.
use serde_json::Value;

use crate::{
	ast::{self, bx, call, num, s, std_call, var, BinOp, Bind, Ex, FieldName, Member, Param, Vis},
	core::{CaseOut, Run, Src},
	jr::{self, Opts},
	model::{self, Interp, MOut},
	props::c01::{compare, Cmp},
};

const NAMES: [&str; 3] = ["a", "b", "c"];

/// member kind of one (layer, name)
#[derive(Clone, Copy, Debug, PartialEq, Eq)]
pub enum Kind {
	Absent,
	Plain(Vis),
	Plus(Vis),
	SelfOther,
	SuperSame,
	SuperGuarded,
	DollarOther,
	Method,
	NestedPlus,
	PlusNested,
	LocalRef,
	ErrorField,
}
pub const VIS: [Vis; 3] = [Vis::Normal, Vis::Hidden, Vis::Unhide];
pub fn all_kinds() -> Vec<Kind> {
	let mut v = vec![Kind::Absent];
	for vis in VIS {
		v.push(Kind::Plain(vis));
	}
	for vis in VIS {
		v.push(Kind::Plus(vis));
	}
	v.extend([Kind::SelfOther, Kind::SuperSame, Kind::SuperGuarded, Kind::DollarOther, Kind::Method, Kind::NestedPlus, Kind::PlusNested, Kind::LocalRef, Kind::ErrorField]);
	v
}

#[derive(Clone, Debug)]
pub struct LayerSpec {
	pub kinds: Vec<Kind>,
	/// 0 none, 1 `assert true`-like, 2 failing, 3 assertion reading self
	pub assertion: u8,
	/// value flavour: 0 strings, 1 arrays, 2 numbers
	pub flavour: u8,
	/// combined with the prefix by `+` (false) or by `prefix { ... }` (true)
	pub sugar: bool,
	/// apply std.objectRemoveKey(prefix, name) before adding this layer
	pub remove_before: Option<usize>,
}
#[derive(Clone, Debug)]
pub struct Chain {
	pub layers: Vec<LayerSpec>,
	pub remove_after: Option<usize>,
	pub names: usize,
	/// the whole chain (with its removed keys) is the *right* operand of `+` onto a one-layer base that defines every name
	pub under: bool,
}

fn value(flavour: u8, layer: usize, name: &str) -> Ex {
	match flavour {
		0 => s(&format!("L{layer}{name}")),
		1 => Ex::Arr(vec![s(&format!("L{layer}{name}"))]),
		_ => num((layer * 10 + name.len()) as f64 + (name.as_bytes()[0] - b'a') as f64),
	}
}

fn field(name: &str, plus: bool, vis: Vis, value: Ex) -> Member {
	Member::Field { name: FieldName::Id(name.to_owned()), plus, vis, params: None, value }
}

pub fn layer_ex(l: &LayerSpec, idx: usize, names: usize) -> Ex {
	let mut ms = vec![];
	let needs_local = l.kinds.iter().any(|k| *k == Kind::LocalRef);
	if needs_local {
		// an object-level local that sees self (late bound)
		ms.push(Member::Local(Bind::Var("loc".to_owned(), std_call("objectFieldsAll", vec![Ex::SelfE]))));
	}
	for (ni, k) in l.kinds.iter().enumerate().take(names) {
		let name = NAMES[ni];
		let other = NAMES[(ni + 1) % names.max(1)];
		let v = value(l.flavour, idx, name);
		match k {
			Kind::Absent => {}
			Kind::Plain(vis) => ms.push(field(name, false, *vis, v)),
			Kind::Plus(vis) => ms.push(field(name, true, *vis, v)),
			Kind::SelfOther => ms.push(field(name, false, Vis::Normal, Ex::Dot(bx(Ex::SelfE), other.to_owned()))),
			Kind::SuperSame => ms.push(field(name, false, Vis::Normal, Ex::SuperDot(name.to_owned()))),
			Kind::SuperGuarded => ms.push(field(name, false, Vis::Normal, Ex::If(bx(Ex::InSuper(bx(s(name)))), bx(Ex::SuperDot(name.to_owned())), Some(bx(v))))),
			Kind::DollarOther => ms.push(field(name, false, Vis::Normal, Ex::Dot(bx(Ex::Dollar), other.to_owned()))),
			Kind::Method => ms.push(Member::Field {
				name: FieldName::Id(name.to_owned()),
				plus: false,
				vis: Vis::Normal,
				params: Some(vec![Param { name: "x".to_owned(), default: Some(num(idx as f64)) }]),
				value: Ex::Arr(vec![var("x"), std_call("objectHasAll", vec![Ex::SelfE, s(other)])]),
			}),
			Kind::NestedPlus => ms.push(field(name, false, Vis::Normal, Ex::Obj(vec![field("n", true, Vis::Normal, v), field(&format!("m{idx}"), false, Vis::Normal, num(idx as f64))]))),
			Kind::PlusNested => ms.push(field(name, true, Vis::Normal, Ex::Obj(vec![field("n", false, Vis::Normal, v), field(&format!("p{idx}"), false, Vis::Hidden, num(idx as f64))]))),
			Kind::LocalRef => ms.push(field(name, false, Vis::Normal, var("loc"))),
			Kind::ErrorField => ms.push(field(name, false, Vis::Normal, Ex::Error(bx(s(&format!("E{idx}{name}")))))),
		}
	}
	match l.assertion {
		1 => ms.push(Member::Assert(Ex::True, None)),
		2 => ms.push(Member::Assert(Ex::False, Some(s(&format!("A{idx}"))))),
		3 => ms.push(Member::Assert(
			Ex::Bin(BinOp::Ge, bx(std_call("length", vec![std_call("objectFieldsAll", vec![Ex::SelfE])])), bx(num(0.0))),
			None,
		)),
		// an invariant over a field that a later layer may override: `a`, when present, is not a boolean
		4 => ms.push(Member::Assert(
			Ex::If(
				bx(std_call("objectHasAll", vec![Ex::SelfE, s(NAMES[0])])),
				bx(Ex::Bin(BinOp::Ne, bx(std_call("type", vec![Ex::Dot(bx(Ex::SelfE), NAMES[0].to_owned())])), bx(s("boolean")))),
				Some(bx(Ex::True)),
			),
			Some(s(&format!("I{idx}"))),
		)),
		_ => {}
	}
	Ex::Obj(ms)
}

pub fn chain_ex(c: &Chain) -> Ex {
	let mut cur: Option<Ex> = None;
	for (i, l) in c.layers.iter().enumerate() {
		let lit = layer_ex(l, i + 1, c.names);
		cur = Some(match cur {
			None => lit,
			Some(mut prefix) => {
				if let Some(r) = l.remove_before {
					prefix = std_call("objectRemoveKey", vec![prefix, s(NAMES[r % c.names])]);
				}
				if l.sugar {
					// `e { }` needs a postfix-level left operand; the printer parenthesises as needed
					Ex::ObjExt(bx(prefix), bx(lit))
				} else {
					Ex::Bin(BinOp::Add, bx(prefix), bx(lit))
				}
			}
		});
	}
	let mut e = cur.unwrap_or(Ex::Obj(vec![]));
	if let Some(r) = c.remove_after {
		e = std_call("objectRemoveKey", vec![e, s(NAMES[r % c.names])]);
	}
	if c.under {
		let base = Ex::Obj((0..c.names).map(|i| Member::Field { name: FieldName::Id(NAMES[i].to_owned()), plus: false, vis: Vis::Normal, params: None, value: s(&format!("U-{}", NAMES[i])) }).collect());
		e = Ex::Bin(BinOp::Add, bx(base), bx(e));
	}
	e
}

/// the probes: each maps the chain expression (a fresh copy) to an expression to evaluate
pub fn probes(names: usize) -> Vec<(String, Box<dyn Fn(Ex) -> Ex>)> {
	let mut v: Vec<(String, Box<dyn Fn(Ex) -> Ex>)> = vec![];
	for ni in 0..names {
		let n = NAMES[ni];
		v.push((format!("o.{n}"), Box::new(move |o| Ex::Dot(bx(o), n.to_owned()))));
		v.push((format!("o['{n}']"), Box::new(move |o| Ex::Index(bx(o), bx(s(n))))));
		// (std.get is C13's business: it runs object assertions even when the field is absent)
		v.push((format!("'{n}' in o"), Box::new(move |o| Ex::Bin(BinOp::In, bx(s(n)), bx(o)))));
		v.push((format!("objectHas {n}"), Box::new(move |o| std_call("objectHas", vec![o, s(n)]))));
		v.push((format!("objectHasAll {n}"), Box::new(move |o| std_call("objectHasAll", vec![o, s(n)]))));
		// a later layer reading through self / super / in super
		v.push((
			format!("(o+{{p: self.{n}}}).p"),
			Box::new(move |o| Ex::Dot(bx(Ex::Bin(BinOp::Add, bx(o), bx(Ex::Obj(vec![field("p", false, Vis::Normal, Ex::Dot(bx(Ex::SelfE), n.to_owned()))])))), "p".to_owned())),
		));
		v.push((
			format!("(o+{{p: super.{n}}}).p"),
			Box::new(move |o| Ex::Dot(bx(Ex::Bin(BinOp::Add, bx(o), bx(Ex::Obj(vec![field("p", false, Vis::Normal, Ex::SuperDot(n.to_owned()))])))), "p".to_owned())),
		));
		v.push((
			format!("(o+{{p: '{n}' in super}}).p"),
			Box::new(move |o| Ex::Dot(bx(Ex::Bin(BinOp::Add, bx(o), bx(Ex::Obj(vec![field("p", false, Vis::Normal, Ex::InSuper(bx(s(n))))])))), "p".to_owned())),
		));
		v.push((
			format!("(o+{{{n}+: 'X'}}).{n}"),
			Box::new(move |o| Ex::Dot(bx(Ex::Bin(BinOp::Add, bx(o), bx(Ex::Obj(vec![field(n, true, Vis::Normal, s("X"))])))), n.to_owned())),
		));
		v.push((format!("o.{n}() if function"), Box::new(move |o| {
			let f = Ex::Dot(bx(o), n.to_owned());
			Ex::Local(vec![Bind::Var("fv".into(), f)], bx(Ex::If(bx(Ex::Bin(BinOp::Eq, bx(std_call("type", vec![var("fv")])), bx(s("function")))), bx(call(var("fv"), vec![])), Some(bx(s("not a function"))))))
		})));
	}
	// equality against a twin in which one field is hidden and another visible field takes its place: same number of
	// visible fields, every visible field of the one side readable (hidden) in the other
	for ni in 0..names.min(2) {
		let n = NAMES[ni];
		for flip in [false, true] {
			v.push((
				format!("twin-hidden {n} {}", if flip { "twin == o" } else { "o == twin" }),
				Box::new(move |o| {
					let twin = Ex::Bin(
						BinOp::Add,
						bx(o.clone()),
						bx(Ex::Obj(vec![field(n, false, Vis::Hidden, Ex::SuperDot(n.to_owned())), field("zzq", false, Vis::Normal, num(0.0))])),
					);
					if flip {
						Ex::Bin(BinOp::Eq, bx(twin), bx(o))
					} else {
						Ex::Bin(BinOp::Eq, bx(o), bx(twin))
					}
				}),
			));
		}
	}
	v.push(("objectFields".into(), Box::new(|o| std_call("objectFields", vec![o]))));
	v.push(("objectFieldsAll".into(), Box::new(|o| std_call("objectFieldsAll", vec![o]))));
	v.push(("objectValues".into(), Box::new(|o| std_call("objectValues", vec![o]))));
	v.push(("length".into(), Box::new(|o| std_call("length", vec![o]))));
	v.push(("manifest".into(), Box::new(|o| o)));
	v.push(("toString".into(), Box::new(|o| std_call("toString", vec![o]))));
	v.push(("manifestJsonMinified".into(), Box::new(|o| std_call("manifestJsonMinified", vec![o]))));
	v.push(("o == o (two copies)".into(), Box::new(|o| Ex::Bin(BinOp::Eq, bx(o.clone()), bx(o)))));
	v.push(("o + {} manifest".into(), Box::new(|o| Ex::Bin(BinOp::Add, bx(o), bx(Ex::Obj(vec![]))))));
	v.push(("{} + o manifest".into(), Box::new(|o| Ex::Bin(BinOp::Add, bx(Ex::Obj(vec![])), bx(o)))));
	v.push(("type".into(), Box::new(|o| std_call("type", vec![o]))));
	// history: the object is read first (which runs and remembers its assertions) and extended afterwards; the
	// extension overrides `a` with a boolean, which the invariant of assertion kind 4 forbids
	// (one probe per way of extending: a failure of one would hide a wrong value of the other)
	for sugar in [false, true] {
		v.push((
			format!("local b = o; [type of b.a if present, {}]", if sugar { "(b {a: true}).a" } else { "(b + {a: true}).a" }),
			Box::new(move |o| {
				let a = NAMES[0];
				let b = || var("b");
				let pre = Ex::If(bx(std_call("objectHasAll", vec![b(), s(a)])), bx(std_call("type", vec![Ex::Dot(bx(b()), a.to_owned())])), Some(bx(s("absent"))));
				let over = Ex::Obj(vec![field(a, false, Vis::Normal, Ex::True)]);
				let extended = if sugar { Ex::ObjExt(bx(b()), bx(over)) } else { Ex::Bin(BinOp::Add, bx(b()), bx(over)) };
				Ex::Local(vec![Bind::Var("b".into(), o)], bx(Ex::Arr(vec![pre, Ex::Dot(bx(extended), a.to_owned())])))
			}),
		));
	}
	// one mixin value (with an object-level local and a super reference) applied twice in one chain
	v.push((
		"local m = {local l = 1, p: (if 'p' in super then super.p else 0) + l}; (o + m + m).p".into(),
		Box::new(|o| {
			let body = Ex::Bin(BinOp::Add, bx(Ex::If(bx(Ex::InSuper(bx(s("p")))), bx(Ex::SuperDot("p".into())), Some(bx(num(0.0))))), bx(var("l")));
			let m = Ex::Obj(vec![Member::Local(Bind::Var("l".into(), num(1.0))), field("p", false, Vis::Normal, body)]);
			let sum = Ex::Bin(BinOp::Add, bx(Ex::Bin(BinOp::Add, bx(o), bx(var("m")))), bx(var("m")));
			Ex::Local(vec![Bind::Var("m".into(), m)], bx(Ex::Dot(bx(sum), "p".into())))
		}),
	));
	v.push((
		"local m = {local l = ['M'], q+: l}; (o + {q: []} + m + m + m).q".into(),
		Box::new(|o| {
			let m = Ex::Obj(vec![Member::Local(Bind::Var("l".into(), Ex::Arr(vec![s("M")]))), field("q", true, Vis::Normal, var("l"))]);
			let base = Ex::Bin(BinOp::Add, bx(o), bx(Ex::Obj(vec![field("q", false, Vis::Normal, Ex::Arr(vec![]))])));
			let sum = Ex::Bin(BinOp::Add, bx(Ex::Bin(BinOp::Add, bx(Ex::Bin(BinOp::Add, bx(base), bx(var("m")))), bx(var("m")))), bx(var("m")));
			Ex::Local(vec![Bind::Var("m".into(), m)], bx(Ex::Dot(bx(sum), "q".into())))
		}),
	));
	v
}

pub const K_PTR_EQ: &str = "C02-same-reference-equality-shortcut";

pub fn check(run: &Run, chain: &Chain) -> CaseOut {
	let ce = chain_ex(chain);
	let text = ast::print_eval(&ce);
	let ps = probes(chain.names);
	// reference: every probe on its own fresh copy
	let mut want: Vec<MOut> = vec![];
	for (_, p) in &ps {
		let e = p(ce.clone());
		let it = Interp::new(200_000);
		want.push(model::run_expr(&e, &it));
	}
	// jrsonnet: one program; every probe on the *shared* object `o` and on a fresh copy `mk()`, in two orders
	let mut prog = format!("local o = {text};\nlocal mk() = {text};\n{{\n");
	for (i, (_, p)) in ps.iter().enumerate() {
		let shared = ast::print_eval(&p(var("o")));
		let fresh = ast::print_eval(&p(call(var("mk"), vec![])));
		prog.push_str(&format!("  s{i}: verif.tryj({shared}),\n  f{i}: verif.tryj({fresh}),\n"));
	}
	// the shared copy read again in reverse order (a stale per-(field,layer) cache would show here)
	prog.push_str("  rev: [\n");
	for (_, p) in ps.iter().rev() {
		prog.push_str(&format!("    verif.tryj({}),\n", ast::print_eval(&p(var("o")))));
	}
	prog.push_str("  ],\n}\n");
	let out = jr::eval(&prog, &Opts::default());
	let mut classes = vec![format!("layers:{}", chain.layers.len())];
	for l in &chain.layers {
		for k in &l.kinds {
			classes.push(format!("kind:{k:?}"));
		}
		if l.remove_before.is_some() {
			classes.push("removeKey:between".into());
		}
		if l.assertion == 2 {
			classes.push("assert:failing".into());
		}
	}
	if chain.remove_after.is_some() {
		classes.push("removeKey:outer".into());
	}
	if chain.under {
		classes.push("chain-as-right-operand".into());
		if chain.remove_after.is_some() || chain.layers.iter().any(|l| l.remove_before.is_some()) {
			classes.push("removeKey:in-right-operand".into());
		}
	}
	classes.sort();
	classes.dedup();
	let multi = (0..chain.names).any(|n| chain.layers.iter().filter(|l| l.kinds.get(n).is_some_and(|k| *k != Kind::Absent)).count() >= 2);
	let refs = chain.layers.iter().any(|l| l.kinds.iter().any(|k| matches!(k, Kind::SelfOther | Kind::SuperSame | Kind::SuperGuarded | Kind::DollarOther | Kind::LocalRef)));
	let nontrivial = (chain.layers.len() >= 2 && multi) || refs || chain.remove_after.is_some() || chain.layers.iter().any(|l| l.remove_before.is_some());
	let got: Value = match &out {
		jr::Outcome::Val(v) => match serde_json::from_str(v) {
			Ok(v) => v,
			Err(e) => return CaseOut::fail(text, format!("probe program output is not JSON: {e}")).classes(classes),
		},
		o => return CaseOut::fail(text, format!("probe program did not evaluate: {}", o.short())).classes(classes),
	};
	let as_outcome = |v: &Value| -> jr::Outcome {
		if v[0] == Value::Bool(true) {
			jr::Outcome::Val(v[1].as_str().unwrap_or("").to_owned())
		} else {
			jr::Outcome::Err(v[1].as_str().unwrap_or("").to_owned(), v[2].as_str().unwrap_or("").to_owned())
		}
	};
	let mut problems = vec![];
	let mut known = false;
	let mut undecided = 0;
	let n = ps.len();
	for (i, (name, _)) in ps.iter().enumerate() {
		for (label, v) in [("shared object", &got[format!("s{i}")]), ("fresh copy", &got[format!("f{i}")]), ("shared object, reverse order", &got["rev"][n - 1 - i])] {
			match compare(&want[i], &as_outcome(v)) {
				Cmp::Agree => {}
				Cmp::Undecided(_) => undecided += 1,
				Cmp::Disagree(w) => {
					// recorded finding: `x == x` on one and the same object is `true` without reading any field
					let shortcut = name.starts_with("o == o") && label != "fresh copy" && run.is_known(K_PTR_EQ) && matches!(&want[i], MOut::Err(_)) && v[0] == Value::Bool(true) && v[1] == Value::String("true".into());
					if shortcut {
						known = true;
					} else {
						problems.push(format!("probe {name} on {label}: {w}"))
					}
				}
			}
		}
	}
	if undecided > 0 {
		classes.push("some-probes-undecided".into());
	}
	if problems.is_empty() && known {
		CaseOut { verdict: crate::core::Verdict::Known(K_PTR_EQ.to_owned()), text, nontrivial, classes }
	} else if problems.is_empty() {
		CaseOut::pass(text, nontrivial).classes(classes)
	} else {
		problems.truncate(12);
		CaseOut::fail(text, problems.join("\n")).classes(classes)
	}
}

fn gen_layer(src: &mut Src, names: usize, first: bool, kinds: &[Kind]) -> LayerSpec {
	LayerSpec {
		kinds: (0..names).map(|_| kinds[src.weighted(&vec![1u32; kinds.len()])]).collect(),
		assertion: src.weighted(&[8, 1, 1, 2, 3]) as u8,
		flavour: src.weighted(&[4, 2, 1]) as u8,
		sugar: !first && src.chance(1, 3),
		remove_before: if !first && src.chance(1, 6) { Some(src.below(names)) } else { None },
	}
}
pub fn gen_chain(src: &mut Src) -> Chain {
	let names = 2 + src.below(2);
	let n = 3 + src.below(4);
	let kinds = all_kinds();
	let layers = (0..n).map(|i| gen_layer(src, names, i == 0, &kinds)).collect();
	let remove_after = if src.chance(1, 6) { Some(src.below(names)) } else { None };
	Chain { layers, remove_after, names, under: src.chance(1, 3) }
}

/// exhaustive: 2 layers x 2 names x all kinds (+ flavour 0, no asserts), with an optional removed key
fn enum_chain(mut i: u64) -> Chain {
	let kinds = all_kinds();
	let k = kinds.len() as u64;
	let mut pick = |n: u64| {
		let r = i % n;
		i /= n;
		r as usize
	};
	let l1 = vec![kinds[pick(k)], kinds[pick(k)]];
	let l2 = vec![kinds[pick(k)], kinds[pick(k)]];
	let rem = pick(4); // 0 none, 1 between(a), 2 outer(a), 3 outer(b)
	let sugar = pick(2) == 1;
	Chain {
		layers: vec![
			LayerSpec { kinds: l1, assertion: 0, flavour: 0, sugar: false, remove_before: None },
			LayerSpec { kinds: l2, assertion: 0, flavour: 0, sugar, remove_before: if rem == 1 { Some(0) } else { None } },
		],
		remove_after: match rem {
			2 => Some(0),
			3 => Some(1),
			_ => None,
		},
		names: 2,
		under: false,
	}
}
fn enum_count() -> u64 {
	let k = all_kinds().len() as u64;
	k * k * k * k * 4 * 2
}

pub fn run(run: &Run) {
	run.set_rule("inheritance chains over the field alphabet {a,b,c}: every (layer, name) gets a member kind (absent, : :: :::, +: +:: +:::, self.g, super.f, guarded super, $.g, method, nested +:, +: nested, object-local reference, error), layers optionally carry assertions (true / failing / reading self), are combined by + or by e{...}, and std.objectRemoveKey may be applied between layers or outside. ~40 probes per chain (reads through o.f, o['f'], std.get, a later layer's self/super/in super/+:, in, objectHas*, objectFields*, objectValues, length, manifest, toString, ==), each on a fresh copy, on one shared copy and again in reverse order, compared with the reference object model. Non-trivial = a name defined in >=2 layers, a self/super/$ reference or a removed key; distinct by chain text.");
	run.assume("reference object model in harness/src/model.rs (layers searched right to left, +: as guarded super.f + e, three-valued visibility fold, removed key = mask for lookups that start above it)");
	run.reproduce_known(|k| {
		// reproducer: a two-field object whose second field fails, compared with itself
		let chain = Chain {
			layers: vec![LayerSpec { kinds: vec![Kind::Plain(Vis::Normal), Kind::ErrorField], assertion: 0, flavour: 0, sugar: false, remove_before: None }],
			remove_after: None,
			names: 2,
			under: false,
		};
		let _ = k;
		check(run, &chain)
	});
	let total = enum_count();
	let stride = run.tier.pick(37u64, 1);
	let n = total.div_ceil(stride);
	run.enumerate("exhaustive-2layers-2names", n, |i| check(run, &enum_chain((i * stride) % total)));
	if stride == 1 {
		run.exhaustive.store(true, std::sync::atomic::Ordering::SeqCst);
		run.note("thorough: the 2-layer x 2-name x all-kinds x removed-key space is enumerated completely");
	} else {
		run.note(format!("quick: every {stride}th chain of the 2-layer x 2-name x all-kinds x removed-key space (total {total}); thorough enumerates it completely"));
	}
	let n = run.tier.pick(12_000, 150_000);
	run.explore("random-deep-chains", n, 20..=120, |src| check(run, &gen_chain(src)));
	for k in all_kinds() {
		run.require_class(&format!("kind:{k:?}"), 100);
	}
	run.require_class("removeKey:between", 100);
	run.require_class("removeKey:outer", 100);
	run.require_class("removeKey:in-right-operand", 50);
	run.require_class("assert:failing", 50);
}

pub fn replay(run: &Run, stage: &str, tape: Option<&[u16]>, v: &Value) -> Option<CaseOut> {
	match (stage, tape) {
		("random-deep-chains", Some(t)) => Some(check(run, &gen_chain(&mut Src::new(t)))),
		("exhaustive-2layers-2names", _) => {
			let i = v["extra"]["index"].as_u64()?;
			// the stage index is scaled by the tier's stride; try both strides
			let total = enum_count();
			let c1 = check(run, &enum_chain((i * 37) % total));
			if c1.text == v["case"].as_str().unwrap_or("") {
				return Some(c1);
			}
			Some(check(run, &enum_chain(i % total)))
		}
		_ => None,
	}
}
