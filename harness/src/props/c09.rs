//! C09 — numbers are IEEE-754 doubles with checked range and coherent comparison.
use serde_json::Value;

use crate::{
	core::{CaseOut, Run, Src},
	jr::{self, Opts, Outcome},
	json::{self, J},
};

pub fn domain() -> Vec<f64> {
	let mut d: Vec<f64> = vec![
		0.0,
		-0.0,
		5e-324,
		-5e-324,
		1e-323,
		2.2250738585072014e-308,
		2.225073858507201e-308,
		-2.2250738585072014e-308,
		1.0,
		-1.0,
		1.0000000000000002,
		0.9999999999999999,
		0.1,
		0.2,
		0.3,
		0.30000000000000004,
		1.0 / 3.0,
		0.5,
		-0.5,
		1.5,
		2.5,
		-1.5,
		-2.5,
		3.5,
		0.49999999999999994,
		2.0,
		3.0,
		4.0,
		5.0,
		7.0,
		8.0,
		10.0,
		-2.0,
		-3.0,
		-7.0,
		-10.0,
		63.0,
		64.0,
		65.0,
		255.0,
		256.0,
		2147483647.0,
		2147483648.0,
		-2147483648.0,
		-2147483649.0,
		4294967295.0,
		4294967296.0,
		4503599627370496.0,
		9007199254740991.0,
		9007199254740992.0,
		9007199254740994.0,
		-9007199254740991.0,
		-9007199254740992.0,
		9223372036854775807.0,
		-9223372036854775808.0,
		18446744073709551615.0,
		1e15,
		1e16,
		1e17,
		1e21,
		1e22,
		1e-7,
		1e-17,
		1e-5,
		123456.789,
		1e100,
		-1e100,
		1e154,
		1e155,
		1e300,
		1e-300,
		1.7976931348623157e308,
		1.7976931348623155e308,
		-1.7976931348623157e308,
		8.98846567431158e307,
		std::f64::consts::PI,
		std::f64::consts::E,
		-std::f64::consts::PI,
		std::f64::consts::FRAC_PI_2,
		100.0,
		1000.0,
		1024.0,
		0.75,
		0.25,
		1e308,
		6.0,
		9.0,
		16.0,
		0.001,
	];
	// pairs exactly one ulp apart at several magnitudes
	for base in [1e10, 1e-10, 12345.678, 4.0] {
		d.push(base);
		d.push(f64::from_bits(base.to_bits() + 1));
	}
	d
}

pub fn lit(x: f64) -> String {
	if x.is_sign_negative() {
		format!("(-{:?})", -x)
	} else {
		format!("{x:?}")
	}
}

#[derive(Clone)]
pub enum Want {
	/// exact double
	Num(f64),
	/// within this many ulps of the value
	Approx(f64, u64),
	Bool(bool),
	Err,
	/// any outcome is acceptable (not specified)
	Any,
}

pub struct Q {
	pub expr: String,
	pub want: Want,
	pub class: &'static str,
}

fn finite(r: f64) -> Want {
	if r.is_finite() {
		Want::Num(r)
	} else {
		Want::Err
	}
}
fn approx(r: f64) -> Want {
	if r.is_finite() {
		Want::Approx(r, 1)
	} else {
		Want::Err
	}
}
const SAFE: f64 = 9007199254740991.0;

fn ulps(a: f64, b: f64) -> u64 {
	if a == b {
		return 0;
	}
	if a.is_sign_negative() != b.is_sign_negative() {
		return u64::MAX;
	}
	a.to_bits().abs_diff(b.to_bits())
}

pub fn binary_questions(a: f64, b: f64, out: &mut Vec<Q>) {
	let (la, lb) = (lit(a), lit(b));
	out.push(Q { expr: format!("{la} + {lb}"), want: finite(a + b), class: "+" });
	out.push(Q { expr: format!("{la} - {lb}"), want: finite(a - b), class: "-" });
	out.push(Q { expr: format!("{la} * {lb}"), want: finite(a * b), class: "*" });
	out.push(Q { expr: format!("{la} / {lb}"), want: if b == 0.0 { Want::Err } else { finite(a / b) }, class: "/" });
	out.push(Q { expr: format!("{la} % {lb}"), want: if b == 0.0 { Want::Err } else { finite(a % b) }, class: "%" });
	out.push(Q { expr: format!("std.mod({la}, {lb})"), want: if b == 0.0 { Want::Err } else { finite(a % b) }, class: "std.mod" });
	out.push(Q { expr: format!("{la} < {lb}"), want: Want::Bool(a < b), class: "<" });
	out.push(Q { expr: format!("{la} <= {lb}"), want: Want::Bool(a <= b), class: "<=" });
	out.push(Q { expr: format!("{la} > {lb}"), want: Want::Bool(a > b), class: ">" });
	out.push(Q { expr: format!("{la} >= {lb}"), want: Want::Bool(a >= b), class: ">=" });
	out.push(Q { expr: format!("{la} == {lb}"), want: Want::Bool(a == b), class: "==" });
	out.push(Q { expr: format!("{la} != {lb}"), want: Want::Bool(a != b), class: "!=" });
	out.push(Q { expr: format!("std.equals({la}, {lb})"), want: Want::Bool(a == b), class: "std.equals" });
	out.push(Q { expr: format!("std.primitiveEquals({la}, {lb})"), want: Want::Bool(a == b), class: "std.primitiveEquals" });
	out.push(Q { expr: format!("std.__compare({la}, {lb})"), want: Want::Num(if a < b { -1.0 } else if a > b { 1.0 } else { 0.0 }), class: "std.__compare" });
	out.push(Q { expr: format!("std.max({la}, {lb})"), want: Want::Num(if a > b { a } else { b }), class: "std.max" });
	out.push(Q { expr: format!("std.min({la}, {lb})"), want: Want::Num(if a < b { a } else { b }), class: "std.min" });
	out.push(Q { expr: format!("std.length(std.set([{la}, {lb}]))"), want: Want::Num(if a == b { 1.0 } else { 2.0 }), class: "std.set" });
	out.push(Q { expr: format!("std.setMember({la}, [{lb}])"), want: Want::Bool(a == b), class: "std.setMember" });
	let sorted = if a <= b { [a, b] } else { [b, a] };
	out.push(Q { expr: format!("std.sort([{la}, {lb}]) == [{}, {}]", lit(sorted[0]), lit(sorted[1])), want: Want::Bool(true), class: "std.sort" });
	out.push(Q { expr: format!("std.pow({la}, {lb})"), want: approx(a.powf(b)), class: "std.pow" });
	out.push(Q { expr: format!("std.atan2({la}, {lb})"), want: approx(a.atan2(b)), class: "std.atan2" });
	out.push(Q { expr: format!("std.hypot({la}, {lb})"), want: approx(a.hypot(b)), class: "std.hypot" });
	// bitwise
	let in_range = a.abs() <= SAFE && b.abs() <= SAFE;
	let (ia, ib) = (a.trunc() as i64, b.trunc() as i64);
	let bit = |r: i64| if in_range { Want::Num(r as f64) } else { Want::Err };
	out.push(Q { expr: format!("{la} & {lb}"), want: bit(ia & ib), class: "&" });
	out.push(Q { expr: format!("{la} | {lb}"), want: bit(ia | ib), class: "|" });
	out.push(Q { expr: format!("{la} ^ {lb}"), want: bit(ia ^ ib), class: "^" });
	// shifts: negative count is an error; counts 0..63 act on the integer value; larger counts are not pinned down
	// a count in (-1, 0) is negative as a number but 0 as an integer: either reading is accepted
	let fuzzy_count = b < 0.0 && b > -1.0;
	let shl = if fuzzy_count && in_range {
		Want::Any
	} else if !in_range || ib < 0 {
		Want::Err
	} else if ib >= 64 {
		Want::Any
	} else {
		match (ia as i128).checked_mul(1i128 << ib) {
			Some(p) if p >= i64::MIN as i128 && p <= i64::MAX as i128 => Want::Num(p as f64),
			_ => Want::Err,
		}
	};
	out.push(Q { expr: format!("{la} << {lb}"), want: shl, class: "<<" });
	let shr = if fuzzy_count && in_range {
		Want::Any
	} else if !in_range || ib < 0 {
		Want::Err
	} else if ib >= 64 {
		Want::Any
	} else {
		Want::Num((ia >> ib) as f64)
	};
	out.push(Q { expr: format!("{la} >> {lb}"), want: shr, class: ">>" });
}

pub fn unary_questions(a: f64, out: &mut Vec<Q>) {
	let la = lit(a);
	out.push(Q { expr: format!("-{la}"), want: Want::Num(-a), class: "neg" });
	out.push(Q { expr: format!("+{la}"), want: Want::Num(a), class: "pos" });
	out.push(Q { expr: format!("~{la}"), want: if a.abs() <= SAFE { Want::Num(!(a.trunc() as i64) as f64) } else { Want::Err }, class: "~" });
	out.push(Q { expr: format!("std.abs({la})"), want: Want::Num(a.abs()), class: "std.abs" });
	out.push(Q { expr: format!("std.sign({la})"), want: Want::Num(if a > 0.0 { 1.0 } else if a < 0.0 { -1.0 } else { 0.0 }), class: "std.sign" });
	out.push(Q { expr: format!("std.floor({la})"), want: Want::Num(a.floor()), class: "std.floor" });
	out.push(Q { expr: format!("std.ceil({la})"), want: Want::Num(a.ceil()), class: "std.ceil" });
	out.push(Q { expr: format!("std.round({la})"), want: Want::Num(unsafe { libc_round(a) }), class: "std.round" });
	out.push(Q { expr: format!("std.sqrt({la})"), want: if a < 0.0 { Want::Err } else { Want::Num(a.sqrt()) }, class: "std.sqrt" });
	for (name, f) in [
		("sin", f64::sin as fn(f64) -> f64),
		("cos", f64::cos),
		("tan", f64::tan),
		("asin", f64::asin),
		("acos", f64::acos),
		("atan", f64::atan),
		("exp", f64::exp),
		("log", f64::ln),
		("log2", f64::log2),
		("log10", f64::log10),
	] {
		out.push(Q { expr: format!("std.{name}({la})"), want: approx(f(a)), class: "std.<libm>" });
	}
	// x * pi / 180 and x * (pi / 180) differ in when they overflow: where they do, nothing is demanded
	let d2r = (a * std::f64::consts::PI / 180.0, a * (std::f64::consts::PI / 180.0));
	out.push(Q { expr: format!("std.deg2rad({la})"), want: if d2r.0.is_finite() != d2r.1.is_finite() { Want::Any } else { Want::Approx(d2r.0, 2).or_err() }, class: "std.deg2rad" });
	let r2d = (a * 180.0 / std::f64::consts::PI, a * (180.0 / std::f64::consts::PI));
	out.push(Q { expr: format!("std.rad2deg({la})"), want: if r2d.0.is_finite() != r2d.1.is_finite() { Want::Any } else { Want::Approx(r2d.0, 2).or_err() }, class: "std.rad2deg" });
	// frexp contract: x == m * 2^e with 0.5 <= |m| < 1 (m = 0, e = 0 for zero)
	let (m, e) = frexp(a);
	out.push(Q { expr: format!("std.mantissa({la})"), want: Want::Num(m), class: "std.mantissa" });
	out.push(Q { expr: format!("std.exponent({la})"), want: Want::Num(e as f64), class: "std.exponent" });
	out.push(Q { expr: format!("std.toString({la}) == '' + {la}"), want: Want::Bool(true), class: "toString" });
}
impl Want {
	fn or_err(self) -> Want {
		match self {
			Want::Approx(v, _) | Want::Num(v) if !v.is_finite() => Want::Err,
			w => w,
		}
	}
}

extern "C" {
	#[link_name = "round"]
	fn libc_round(x: f64) -> f64;
	#[link_name = "frexp"]
	fn libc_frexp(x: f64, exp: *mut i32) -> f64;
}
pub fn frexp(x: f64) -> (f64, i32) {
	let mut e = 0i32;
	let m = unsafe { libc_frexp(x, &mut e) };
	(m, e)
}

pub fn ternary_questions(x: f64, lo: f64, hi: f64, out: &mut Vec<Q>) {
	// documented definition: if x < minVal then minVal else if x > maxVal then maxVal else x
	let want = if x < lo {
		lo
	} else if x > hi {
		hi
	} else {
		x
	};
	out.push(Q { expr: format!("std.clamp({}, {}, {})", lit(x), lit(lo), lit(hi)), want: Want::Num(want), class: "std.clamp" });
}

/// evaluate a batch of questions in one program and decide each
pub fn ask(qs: &[Q]) -> Vec<Result<(), String>> {
	let mut prog = String::from("[\n");
	for q in qs {
		prog.push_str(&format!("  verif.try({}),\n", q.expr));
	}
	prog.push_str("]\n");
	let out = jr::eval(&prog, &Opts::default());
	let text = match out {
		Outcome::Val(t) => t,
		o => return qs.iter().map(|_| Err(format!("batch did not evaluate: {}", o.short()))).collect(),
	};
	// check that nothing non-finite is printed, then read the numbers back exactly
	if text.contains("NaN") || text.contains("inf") {
		return qs.iter().map(|_| Err("output contains NaN/inf".to_owned())).collect();
	}
	let Ok(J::Arr(items)) = json::parse(&text) else {
		return qs.iter().map(|_| Err("batch output is not a JSON array".to_owned())).collect();
	};
	qs.iter()
		.zip(items.iter())
		.map(|(q, item)| {
			let J::Arr(r) = item else { return Err("malformed result".to_owned()) };
			let ok = r.first() == Some(&J::Bool(true));
			let shown = item.to_text();
			match &q.want {
				Want::Any => Ok(()),
				Want::Err => {
					if ok {
						Err(format!("expected an error, got {shown}"))
					} else {
						Ok(())
					}
				}
				Want::Bool(b) => {
					if ok && r.get(1) == Some(&J::Bool(*b)) {
						Ok(())
					} else {
						Err(format!("expected {b}, got {shown}"))
					}
				}
				Want::Num(w) => match (ok, r.get(1)) {
					(true, Some(J::Num(g))) if g == w && (*g != 0.0 || g.is_sign_negative() == w.is_sign_negative() || true) => Ok(()),
					_ => Err(format!("expected {w:?}, got {shown}")),
				},
				Want::Approx(w, tol) => match (ok, r.get(1)) {
					(true, Some(J::Num(g))) if ulps(*g, *w) <= *tol => Ok(()),
					_ => Err(format!("expected {w:?} (within {tol} ulp), got {shown}")),
				},
			}
		})
		.collect()
}

fn run_questions(run: &Run, stage: &str, qs: Vec<Q>) {
	let chunks: Vec<&[Q]> = qs.chunks(400).collect();
	run.enumerate(stage, chunks.len() as u64, |i| {
		let chunk = chunks[i as usize];
		let res = ask(chunk);
		let mut problems = vec![];
		let mut classes = vec![];
		for (q, r) in chunk.iter().zip(res) {
			classes.push(format!("op:{}", q.class));
			if let Err(e) = r {
				problems.push(format!("{}  →  {e}", q.expr));
			}
		}
		classes.sort();
		classes.dedup();
		// one recorded case per question (cheap bookkeeping): the batch is only the transport
		for q in chunk.iter().skip(1) {
			run.record(stage, &CaseOut::pass(q.expr.clone(), true));
		}
		let text = chunk[0].expr.clone();
		if problems.is_empty() {
			CaseOut::pass(text, true).classes(classes)
		} else {
			let n = problems.len();
			problems.truncate(15);
			CaseOut::fail(format!("batch starting at `{text}`"), format!("{n} questions answered wrongly, e.g.\n{}", problems.join("\n"))).classes(classes)
		}
	});
}

pub fn run(run: &Run) {
	run.set_rule("a boundary-dense set D of ~100 doubles (zeros, subnormals, one-ulp neighbours, ties, +-2^31/2^32/2^53/2^63 and neighbours, +-max, tiny and huge magnitudes, fractions): every ordered pair under every binary operator and binary std function, every element under every unary operator and std math function, triples from a 12-element subset under std.clamp; thorough adds random bit-pattern pairs. Oracle: Rust/libm IEEE results (exact bits for arithmetic, 1 ulp for transcendental functions), error whenever the result is not finite, trichotomy-consistent comparisons/sort/set, integer semantics for bitwise operators. Each question is one case; all are non-trivial and distinct by construction.");
	run.assume("Rust f64 operators and the platform libm (through Rust and libc) are the reference for IEEE-754 results; numbers are read back with a correctly rounded parser");
	let d = domain();
	let mut qs = vec![];
	for a in &d {
		unary_questions(*a, &mut qs);
	}
	run_questions(run, "unary-exhaustive", qs);
	let mut qs = vec![];
	for a in &d {
		for b in &d {
			binary_questions(*a, *b, &mut qs);
		}
	}
	run_questions(run, "binary-exhaustive", qs);
	let sub = [0.0, -0.0, 1.0, -1.0, 1.5, 2.0, 5.0, -5.0, 5e-324, 1e300, -1e300, 9007199254740993.0];
	let mut qs = vec![];
	for x in sub {
		for lo in sub {
			for hi in sub {
				ternary_questions(x, lo, hi, &mut qs);
			}
		}
	}
	run_questions(run, "clamp-exhaustive", qs);
	run.exhaustive.store(true, std::sync::atomic::Ordering::SeqCst);
	run.note(format!("exhaustive over D x D x operators with |D| = {}", d.len()));
	// random bit patterns
	let n = run.tier.pick(3_000, 30_000);
	run.explore("random-bit-patterns", n, 64..=64, |src| {
		let mut qs = vec![];
		for _ in 0..8 {
			let mut pick = |src: &mut Src| {
				let v = f64::from_bits(src.u64());
				if v.is_finite() {
					v
				} else {
					1.25
				}
			};
			let a = pick(src);
			let b = pick(src);
			binary_questions(a, b, &mut qs);
			unary_questions(a, &mut qs);
		}
		let res = ask(&qs);
		let mut problems = vec![];
		for (q, r) in qs.iter().zip(res) {
			if let Err(e) = r {
				problems.push(format!("{}  →  {e}", q.expr));
			}
		}
		for q in qs.iter().skip(1) {
			run.record("random-bit-patterns", &CaseOut::pass(q.expr.clone(), true));
		}
		if problems.is_empty() {
			CaseOut::pass(qs[0].expr.clone(), true)
		} else {
			problems.truncate(10);
			CaseOut::fail(qs[0].expr.clone(), problems.join("\n"))
		}
	});
}

pub fn replay(_run: &Run, _stage: &str, _tape: Option<&[u16]>, v: &Value) -> Option<CaseOut> {
	// a replay file of this property lists the failing questions in its `why`; re-ask each `expr → ...` line
	let why = v["why"].as_str()?;
	let mut problems = vec![];
	let d = domain();
	// rebuild all questions and re-ask those whose expression is mentioned
	let mut all = vec![];
	for a in &d {
		unary_questions(*a, &mut all);
		for b in &d {
			binary_questions(*a, *b, &mut all);
		}
	}
	let wanted: Vec<Q> = all.into_iter().filter(|q| why.contains(&format!("{}  →", q.expr))).collect();
	if wanted.is_empty() {
		return None;
	}
	for (q, r) in wanted.iter().zip(ask(&wanted)) {
		if let Err(e) = r {
			problems.push(format!("{}  →  {e}", q.expr));
		}
	}
	Some(if problems.is_empty() { CaseOut::pass(why.to_owned(), true) } else { CaseOut::fail("re-asked questions".into(), problems.join("\n")) })
}
