//! C07 — imports resolve, load and evaluate as specified (level: fault enumeration).
//! Import graphs are laid out on disk; a 40-line resolution model gives the expected file for every edge;
//! a recording/faulting wrapper around the real FileImportResolver observes loads and injects failures at every step.
use std::{
	cell::{Cell, RefCell},
	collections::{BTreeMap, HashMap},
	path::{Path, PathBuf},
	rc::Rc,
};

use jrsonnet_evaluator::{
	error::ErrorKind,
	manifest::JsonFormat,
	parser::SourcePath,
	AsPathLike, FileImportResolver, ImportResolver,
};
use jrsonnet_gcmodule::Acyclic;
use serde_json::{json, Value};

use crate::{
	core::{guarded, CaseOut, Run, Src},
	jr::{self, Outcome},
};

// ------------------------------------------------------------------------------------------ graphs

#[derive(Clone, Debug, PartialEq)]
pub enum NodeKind {
	Code,
	Text(Vec<u8>),
}
#[derive(Clone, Debug)]
pub struct Edge {
	pub kind: u8, // 0 import, 1 importstr, 2 importbin
	pub target: usize,
	/// spelling of the path in the source
	pub spelled: String,
	/// sits in a hidden field that nobody reads
	pub lazy: bool,
}
#[derive(Clone, Debug)]
pub struct Node {
	pub kind: NodeKind,
	/// directory index (see Layout.dirs) and file name
	pub dir: usize,
	pub name: String,
	pub edges: Vec<Edge>,
}
#[derive(Clone, Debug)]
pub struct Layout {
	/// 0 = main dir, 1 = main/sub, 2.. = library dirs
	pub dirs: Vec<String>,
	/// library search order as passed to FileImportResolver (first = highest priority)
	pub lib_order: Vec<usize>,
	pub nodes: Vec<Node>,
	/// decoy files (dir, name, id): same name as a real target but in a lower-priority place
	pub decoys: Vec<(usize, String, usize)>,
	/// symlinks: (dir, link name, target node)
	pub links: Vec<(usize, String, usize)>,
	/// disk-level faults: (node index, kind) 0 = make it a directory, 1 = delete it, 2 = dangling symlink, 3 = symlink loop
	pub disk_fault: Option<(usize, u8)>,
	pub shape: &'static str,
	/// per node: the file forces its first eager import while its own body is being evaluated (a failure of that import
	/// is then a failure *inside* the evaluation of the importing file, not in a thunk read later)
	pub forced: Vec<bool>,
}

fn body_of(l: &Layout, i: usize) -> String {
	let n = &l.nodes[i];
	let mut deps = vec![];
	let mut lazies = vec![];
	for e in &n.edges {
		let kw = ["import", "importstr", "importbin"][e.kind as usize];
		let t = format!("{kw} {}", serde_json::to_string(&e.spelled).unwrap());
		if e.lazy {
			lazies.push(t);
		} else {
			deps.push(t);
		}
	}
	let mut s = format!("std.trace(\"F{i}\", {{ id: {i}, deps: [{}]", deps.join(", "));
	for (k, t) in lazies.iter().enumerate() {
		s.push_str(&format!(", lazy{k}:: {t}"));
	}
	s.push_str(" })\n");
	if l.forced.get(i).copied().unwrap_or(false) && !deps.is_empty() {
		// the value is the same; the first eager import is evaluated while this file's own body is
		s = format!("local forced = std.type({});\nif forced == \"function\" then null else {s}", deps[0]);
	}
	s
}

pub fn gen_layout(src: &mut Src) -> Layout {
	let nlibs = src.range(0, 3) as usize;
	let mut dirs = vec!["main".to_owned(), "main/sub".to_owned()];
	for k in 0..nlibs {
		dirs.push(format!("lib{k}"));
	}
	// search order: a permutation of the library dirs
	let mut lib_order: Vec<usize> = (2..2 + nlibs).collect();
	if nlibs >= 2 && src.chance(1, 2) {
		lib_order.reverse();
	}
	let n = src.range(2, 7) as usize;
	let shape = *src.pick(&["tree", "diamond", "chain", "strict-cycle", "lazy-cycle"]);
	let mut nodes: Vec<Node> = vec![];
	for i in 0..n {
		let is_code = i == 0 || src.chance(2, 3);
		let kind = if is_code {
			NodeKind::Code
		} else {
			let len = src.range(0, 12);
			let bytes: Vec<u8> = match src.below(4) {
				0 => (0..len).map(|_| src.below(256) as u8).collect(), // arbitrary bytes, often invalid UTF-8
				1 => "héllo\r\nwörld\0".as_bytes().to_vec(),
				2 => vec![0xef, 0xbb, 0xbf, b'x'],
				_ => (0..len).map(|_| b'a' + src.below(26) as u8).collect(),
			};
			NodeKind::Text(bytes)
		};
		let dir = if i == 0 { 0 } else { src.below(dirs.len()) };
		let ext = if is_code { "libsonnet" } else if src.chance(1, 2) { "txt" } else { "bin" };
		nodes.push(Node { kind, dir, name: format!("f{i}.{ext}"), edges: vec![] });
	}
	let mut links = vec![];
	let mut decoys = vec![];
	// edges
	let code_nodes: Vec<usize> = (0..n).filter(|i| nodes[*i].kind == NodeKind::Code).collect();
	for &i in &code_nodes {
		let later: Vec<usize> = (i + 1..n).collect();
		if later.is_empty() {
			continue;
		}
		let k = match shape {
			"chain" => 1,
			_ => src.range(1, 3) as usize,
		};
		for _ in 0..k {
			let j = match shape {
				"chain" => i + 1,
				"diamond" => *src.pick(&later),
				_ => *src.pick(&later),
			};
			let kind = match &nodes[j].kind {
				NodeKind::Code => src.weighted(&[6, 1, 1]) as u8,
				NodeKind::Text(_) => 1 + src.below(2) as u8,
			};
			// spelling relative to the importer
			let (di, dj) = (nodes[i].dir, nodes[j].dir);
			let name = nodes[j].name.clone();
			let abs = src.chance(1, 10);
			let spelled = if abs {
				format!("@ABS@/{}/{}", dirs[dj], name)
			} else if di == dj {
				match src.below(4) {
					0 => name.clone(),
					1 => format!("./{name}"),
					2 if di == 0 => format!("sub/../{name}"),
					_ => {
						// through a symlink placed next to the importer
						let ln = format!("ln{}_{}", links.len(), name);
						links.push((di, ln.clone(), j));
						ln
					}
				}
			} else if di == 0 && dj == 1 {
				format!("sub/{name}")
			} else if dj >= 2 {
				// found through the search path; maybe shadowed by a decoy in a lower-priority library
				if src.chance(1, 2) {
					let pos = lib_order.iter().position(|d| *d == dj).unwrap();
					if pos + 1 < lib_order.len() {
						decoys.push((lib_order[pos + 1], name.clone(), 1000 + j));
					}
				}
				name.clone()
			} else {
				// not reachable by a relative spelling: use the absolute path
				format!("@ABS@/{}/{}", dirs[dj], name)
			};
			nodes[i].edges.push(Edge { kind, target: j, spelled, lazy: false });
		}
	}
	// importer-relative beats the search path: a decoy in the highest-priority library for a same-dir import
	if let Some(&i) = code_nodes.first() {
		if let Some(e) = nodes[i].edges.iter().find(|e| !e.spelled.contains('/') && nodes[e.target].dir == nodes[i].dir) {
			if let Some(&l) = lib_order.first() {
				if src.chance(1, 2) {
					decoys.push((l, e.spelled.clone(), 2000 + e.target));
				}
			}
		}
	}
	match shape {
		"strict-cycle" | "lazy-cycle" => {
			// back edge from the last code node to the root (or to itself)
			if let Some(&last) = code_nodes.last() {
				let target = if src.chance(1, 3) { last } else { 0 };
				let spelled = format!("@ABS@/{}/{}", dirs[nodes[target].dir], nodes[target].name);
				nodes[last].edges.push(Edge { kind: 0, target, spelled, lazy: shape == "lazy-cycle" });
			}
		}
		_ => {}
	}
	let disk_fault = if src.chance(1, 4) && n > 1 { Some((src.range(1, n as i64 - 1) as usize, src.below(4) as u8)) } else { None };
	// drawn last, so that earlier draws (and recorded tapes) keep their meaning
	let forced: Vec<bool> = (0..nodes.len()).map(|_| src.chance(1, 3)).collect();
	Layout { dirs, lib_order, nodes, decoys, links, disk_fault, shape, forced }
}

pub struct OnDisk {
	pub root: PathBuf,
}
impl Drop for OnDisk {
	fn drop(&mut self) {
		let _ = std::fs::remove_dir_all(&self.root);
	}
}

pub fn materialise(l: &Layout, root: &Path) -> std::io::Result<()> {
	for d in &l.dirs {
		std::fs::create_dir_all(root.join(d))?;
	}
	let abs = root.to_string_lossy().into_owned();
	for (i, n) in l.nodes.iter().enumerate() {
		let p = root.join(&l.dirs[n.dir]).join(&n.name);
		match &n.kind {
			NodeKind::Code => std::fs::write(&p, body_of(l, i).replace("@ABS@", &abs))?,
			NodeKind::Text(b) => std::fs::write(&p, b)?,
		}
	}
	for (d, name, id) in &l.decoys {
		let p = root.join(&l.dirs[*d]).join(name);
		if !p.exists() {
			std::fs::write(&p, format!("{{ id: {id}, deps: [] }}\n"))?;
		}
	}
	for (d, name, target) in &l.links {
		let p = root.join(&l.dirs[*d]).join(name);
		let t = root.join(&l.dirs[l.nodes[*target].dir]).join(&l.nodes[*target].name);
		let _ = std::os::unix::fs::symlink(t, p);
	}
	if let Some((i, kind)) = l.disk_fault {
		let p = root.join(&l.dirs[l.nodes[i].dir]).join(&l.nodes[i].name);
		let _ = std::fs::remove_file(&p);
		match kind {
			0 => std::fs::create_dir_all(&p)?,
			1 => {}
			2 => {
				let _ = std::os::unix::fs::symlink(root.join("does-not-exist"), &p);
			}
			_ => {
				let q = root.join(&l.dirs[l.nodes[i].dir]).join(format!("loop_{}", l.nodes[i].name));
				let _ = std::os::unix::fs::symlink(&q, &p);
				let _ = std::os::unix::fs::symlink(&p, &q);
			}
		}
	}
	Ok(())
}

// ------------------------------------------------------------------------------------------ the resolution model

/// first existing regular file among [importer dir, library dirs in order]
pub fn model_resolve(importer_dir: &Path, spelled: &str, libs: &[PathBuf]) -> Result<PathBuf, String> {
	let mut candidates = vec![importer_dir.join(spelled)];
	for l in libs {
		candidates.push(l.join(spelled));
	}
	for c in candidates {
		match std::fs::metadata(&c) {
			Ok(m) if m.is_file() => return c.canonicalize().map_err(|e| e.to_string()),
			Ok(m) if m.is_dir() => return Err(format!("{} is a directory", c.display())),
			Ok(_) => return Err("special file".into()),
			Err(e) if e.kind() == std::io::ErrorKind::NotFound => continue,
			Err(e) => return Err(e.to_string()),
		}
	}
	Err(format!("{spelled} not found"))
}

/// expected JSON of a code file (by canonical path), or an error
fn model_value(path: &Path, libs: &[PathBuf], stack: &mut Vec<PathBuf>, texts: &HashMap<PathBuf, ParsedBody>) -> Result<Value, String> {
	if stack.iter().any(|p| p == path) {
		return Err("import cycle".into());
	}
	let Some(body) = texts.get(path) else { return Err(format!("{} is not a generated code file", path.display())) };
	stack.push(path.to_owned());
	let dir = path.parent().unwrap().to_owned();
	let mut deps = vec![];
	for (kind, spelled) in &body.deps {
		let target = model_resolve(&dir, spelled, libs)?;
		let bytes = std::fs::read(&target).map_err(|e| e.to_string())?;
		deps.push(match kind {
			0 => model_value(&target, libs, stack, texts)?,
			1 => Value::String(String::from_utf8(bytes).map_err(|_| "importstr of invalid utf-8".to_owned())?),
			_ => Value::Array(bytes.iter().map(|b| json!(b)).collect()),
		});
	}
	stack.pop();
	Ok(json!({"deps": deps, "id": body.id}))
}
pub struct ParsedBody {
	id: usize,
	deps: Vec<(u8, String)>,
}

// ------------------------------------------------------------------------------------------ recording / faulting resolver

#[derive(Acyclic)]
pub struct Recording {
	inner: FileImportResolver,
	pub log: Rc<RefCell<Vec<String>>>,
	resolves: Rc<Cell<usize>>,
	loads: Rc<Cell<usize>>,
	/// fail the k-th resolve (kind 1) or load (kind 2); 0 = healthy
	fault_kind: Rc<Cell<u8>>,
	fault_at: Rc<Cell<usize>>,
}
impl ImportResolver for Recording {
	fn resolve_from(&self, from: &SourcePath, path: &dyn AsPathLike) -> jrsonnet_evaluator::Result<SourcePath> {
		let k = self.resolves.get();
		self.resolves.set(k + 1);
		if self.fault_kind.get() == 1 && self.fault_at.get() == k {
			// one-shot: the fault clears as soon as it has fired
			self.fault_kind.set(0);
			return Err(ErrorKind::ImportIo("injected resolver failure".into()).into());
		}
		let r = self.inner.resolve_from(from, path)?;
		self.log.borrow_mut().push(format!("resolve {r}"));
		Ok(r)
	}
	fn resolve_from_default(&self, path: &dyn AsPathLike) -> jrsonnet_evaluator::Result<SourcePath> {
		self.resolve_from(&SourcePath::default(), path)
	}
	fn load_file_contents(&self, resolved: &SourcePath) -> jrsonnet_evaluator::Result<Vec<u8>> {
		let k = self.loads.get();
		self.loads.set(k + 1);
		if self.fault_kind.get() == 2 && self.fault_at.get() == k {
			self.fault_kind.set(0);
			return Err(ErrorKind::ImportIo("injected load failure".into()).into());
		}
		self.log.borrow_mut().push(format!("load {resolved}"));
		self.inner.load_file_contents(resolved)
	}
}

struct Harnessed {
	sess: jr::Session,
	log: Rc<RefCell<Vec<String>>>,
	resolves: Rc<Cell<usize>>,
	loads: Rc<Cell<usize>>,
	fault_kind: Rc<Cell<u8>>,
	fault_at: Rc<Cell<usize>>,
}
fn new_state(libs: &[PathBuf]) -> Harnessed {
	let log = Rc::new(RefCell::new(vec![]));
	let resolves = Rc::new(Cell::new(0));
	let loads = Rc::new(Cell::new(0));
	let fault_kind = Rc::new(Cell::new(0u8));
	let fault_at = Rc::new(Cell::new(0usize));
	let rec = Recording {
		inner: FileImportResolver::new(libs.to_vec()),
		log: log.clone(),
		resolves: resolves.clone(),
		loads: loads.clone(),
		fault_kind: fault_kind.clone(),
		fault_at: fault_at.clone(),
	};
	Harnessed { sess: jr::session_with_resolver(&[], rec), log, resolves, loads, fault_kind, fault_at }
}
fn import_root(h: &Harnessed, root: &Path) -> Outcome {
	let state = h.sess.state.clone();
	let r = guarded(|| {
		let _e = state.enter();
		match state.import(root.to_string_lossy().as_ref()).and_then(|v| v.manifest(JsonFormat::minify())) {
			Ok(v) => Outcome::Val(v),
			Err(e) => jr::outcome_of_err(&e),
		}
	});
	match r {
		Ok(o) => o,
		Err(p) => Outcome::Panic(p),
	}
}

// ------------------------------------------------------------------------------------------ the check

fn scratch(tag: &str) -> PathBuf {
	static N: std::sync::atomic::AtomicU64 = std::sync::atomic::AtomicU64::new(0);
	let n = N.fetch_add(1, std::sync::atomic::Ordering::SeqCst);
	PathBuf::from(format!("/verif/target/tmp/c07-{}-{tag}-{n}", std::process::id()))
}

pub const K_POISONED: &str = "C07-failed-nested-import-stays-memoized";
thread_local! {
	/// is the finding above listed as known? (set per thread by run())
	static KNOWN_POISON: Cell<bool> = const { Cell::new(false) };
}

pub fn check(l: &Layout, with_cli: bool) -> CaseOut {
	let root = scratch("g");
	let _cleanup = OnDisk { root: root.clone() };
	if let Err(e) = materialise(l, &root) {
		return CaseOut::discard(format!("{l:?}"), &format!("cannot lay out the graph: {e}"));
	}
	let root = root.canonicalize().unwrap_or(root);
	let libs: Vec<PathBuf> = l.lib_order.iter().map(|d| root.join(&l.dirs[*d])).collect();
	let abs = root.to_string_lossy().into_owned();
	// what the model knows about every generated code file (by canonical path)
	let mut texts: HashMap<PathBuf, ParsedBody> = HashMap::new();
	for (i, n) in l.nodes.iter().enumerate() {
		if n.kind == NodeKind::Code {
			let p = root.join(&l.dirs[n.dir]).join(&n.name);
			if let Ok(c) = p.canonicalize() {
				if c.is_file() {
					texts.insert(c, ParsedBody { id: i, deps: n.edges.iter().filter(|e| !e.lazy).map(|e| (e.kind, e.spelled.replace("@ABS@", &abs))).collect() });
				}
			}
		}
	}
	for (d, name, id) in &l.decoys {
		if let Ok(c) = root.join(&l.dirs[*d]).join(name).canonicalize() {
			texts.entry(c).or_insert(ParsedBody { id: *id, deps: vec![] });
		}
	}
	let main = root.join("main").join(&l.nodes[0].name);
	let text = describe(l);
	let mut classes = vec![format!("shape:{}", l.shape)];
	if !l.decoys.is_empty() {
		classes.push("shadowing".into());
	}
	if !l.links.is_empty() {
		classes.push("symlink".into());
	}
	if let Some((_, k)) = l.disk_fault {
		classes.push(format!("disk-fault:{}", ["directory", "deleted", "dangling-symlink", "symlink-loop"][k as usize]));
	}
	for n in &l.nodes {
		for e in &n.edges {
			classes.push(format!("edge:{}", ["import", "importstr", "importbin"][e.kind as usize]));
			if e.spelled.starts_with("@ABS@") {
				classes.push("spelling:absolute".into());
			} else if e.spelled.contains("..") {
				classes.push("spelling:dotdot".into());
			}
		}
	}
	classes.sort();
	classes.dedup();
	let want = match main.canonicalize() {
		Ok(c) => model_value(&c, &libs, &mut vec![], &texts),
		Err(e) => Err(e.to_string()),
	};
	let mut problems = vec![];
	// --- fault-free run on a fresh state
	let h = new_state(&libs);
	let got = import_root(&h, &main);
	let agree = |got: &Outcome, label: &str, problems: &mut Vec<String>| match (&want, got) {
		(Ok(w), Outcome::Val(g)) => match serde_json::from_str::<Value>(g) {
			Ok(g) if &g == w => {}
			_ => problems.push(format!("{label}: expected {w}, got {g}")),
		},
		(Err(_), Outcome::Err(..)) => {}
		(Ok(w), o) => problems.push(format!("{label}: expected {w}, got {}", o.short())),
		(Err(e), o) => problems.push(format!("{label}: expected an error ({e}), got {}", o.short())),
	};
	agree(&got, "fresh state", &mut problems);
	// each file loaded at most once, each body evaluated at most once
	let mut loads: BTreeMap<String, usize> = BTreeMap::new();
	for e in h.log.borrow().iter() {
		if let Some(p) = e.strip_prefix("load ") {
			*loads.entry(p.to_owned()).or_default() += 1;
		}
	}
	for (p, c) in &loads {
		if *c > 1 {
			problems.push(format!("{p} was loaded {c} times in one evaluation state"));
		}
	}
	let mut evals: BTreeMap<String, usize> = BTreeMap::new();
	for (_, msg) in h.sess.traces.0.borrow().iter() {
		*evals.entry(msg.clone()).or_default() += 1;
	}
	for (f, c) in &evals {
		if *c > 1 {
			problems.push(format!("file body {f} was evaluated {c} times in one evaluation state"));
		}
	}
	// number of resolver calls of ONE fault-free import of the root
	let (nres, nload) = (h.resolves.get().min(40), h.loads.get().min(40));
	// second import on the same state: same answer, nothing loaded again
	let loads_before = h.loads.get();
	let again = import_root(&h, &main);
	agree(&again, "second import on the same state", &mut problems);
	if want.is_ok() && h.loads.get() != loads_before {
		problems.push(format!("importing the same root again loaded {} more file(s)", h.loads.get() - loads_before));
	}
	// --- fault enumeration: fail (once) the k-th resolve / load, for every k the fault-free run performed
	let mut injected = 0;
	let mut known: Option<String> = None;
	if want.is_ok() {
		let other = root.join("main").join("unrelated.jsonnet");
		let _ = std::fs::write(&other, "{ unrelated: true }\n");
		for (kind, count) in [(1u8, nres), (2u8, nload)] {
			let what = if kind == 1 { "resolve" } else { "load" };
			for k in 0..count {
				let hf = new_state(&libs);
				hf.fault_kind.set(kind);
				hf.fault_at.set(k);
				let failed = import_root(&hf, &main);
				injected += 1;
				match &failed {
					Outcome::Err(..) => {}
					Outcome::Val(v) => problems.push(format!("injected {what} failure #{k} was swallowed: evaluation still produced {v}")),
					Outcome::Panic(p) => problems.push(format!("injected {what} failure #{k}: panic {p}")),
				}
				// the fault has fired and cleared.  The state stays usable: an unrelated file imports fine ...
				let unrelated = import_root(&hf, &other);
				if unrelated != Outcome::Val("{\"unrelated\":true}".into()) {
					problems.push(format!("after injected {what} failure #{k} an unrelated import gives {}", unrelated.short()));
				}
				// ... and the retry equals the fresh-state result
				let retry = import_root(&hf, &main);
				let mut local = vec![];
				agree(&retry, &format!("retry after injected {what} failure #{k} has cleared"), &mut local);
				if !local.is_empty() {
					// recorded finding: the failure of a *nested* import (k > 0) stays memoized in the importing file's thunks
					let poisoned = k > 0 && matches!(&retry, Outcome::Err(_, m) if m.contains("injected"));
					if poisoned && KNOWN_POISON.with(|c| c.get()) {
						known = Some(K_POISONED.to_owned());
					} else {
						problems.extend(local);
					}
				}
			}
		}
		classes.push("injected-faults".into());
	}
	// --- the executable assembles the same search path: -J given in reverse priority, JSONNET_PATH after -J
	if with_cli {
		let split = if libs.is_empty() { 0 } else { libs.len() / 2 + libs.len() % 2 };
		let (jdirs, envdirs) = libs.split_at(split);
		// the directories spelled absolutely, and relative to the working directory
		for relative in [false, true] {
			let spell = |d: &std::path::PathBuf| -> std::path::PathBuf {
				match (relative, d.strip_prefix(&root)) {
					(true, Ok(r)) => r.to_path_buf(),
					_ => d.clone(),
				}
			};
			let mut cmd = std::process::Command::new("/verif/target/repo/debug/jrsonnet");
			// right-most -J wins: pass them in reverse priority order
			for d in jdirs.iter().rev() {
				cmd.arg("-J").arg(spell(d));
			}
			if !envdirs.is_empty() {
				cmd.env("JSONNET_PATH", std::env::join_paths(envdirs.iter().map(spell)).unwrap());
			} else {
				cmd.env_remove("JSONNET_PATH");
			}
			cmd.arg("--line-padding").arg("0").arg(&main).current_dir(&root);
			match cmd.output() {
				Ok(o) => {
					let out = String::from_utf8_lossy(&o.stdout).trim().to_owned();
					let got = if o.status.success() { Outcome::Val(out) } else { Outcome::Err("cli".into(), String::from_utf8_lossy(&o.stderr).into_owned()) };
					let label = if relative { "jrsonnet executable (-J / JSONNET_PATH, relative directories)" } else { "jrsonnet executable (-J / JSONNET_PATH)" };
					agree(&got, label, &mut problems);
					classes.push(if relative { "cli-relative-dirs".into() } else { "cli".into() });
				}
				Err(e) => problems.push(format!("cannot run the executable: {e}")),
			}
		}
	}
	let nontrivial = !l.decoys.is_empty() || !l.links.is_empty() || l.shape.contains("cycle") || l.disk_fault.is_some() || injected > 0;
	if problems.is_empty() && known.is_some() {
		CaseOut { verdict: crate::core::Verdict::Known(known.unwrap()), text, nontrivial, classes }
	} else if problems.is_empty() {
		CaseOut::pass(text, nontrivial).classes(classes)
	} else {
		problems.truncate(8);
		CaseOut::fail(text, problems.join("\n")).classes(classes)
	}
}

fn describe(l: &Layout) -> String {
	let mut s = format!("shape={} libs(search order)={:?}\n", l.shape, l.lib_order.iter().map(|d| l.dirs[*d].as_str()).collect::<Vec<_>>());
	for (i, n) in l.nodes.iter().enumerate() {
		s.push_str(&format!(
			"  {}/{} [{}]: {}\n",
			l.dirs[n.dir],
			n.name,
			match &n.kind {
				NodeKind::Code => "code".to_owned(),
				NodeKind::Text(b) => format!("{} bytes", b.len()),
			},
			if n.kind == NodeKind::Code { body_of(l, i).trim().to_owned() } else { String::new() }
		));
	}
	if !l.decoys.is_empty() {
		s.push_str(&format!("  decoys: {:?}\n", l.decoys.iter().map(|(d, n, id)| format!("{}/{} id {}", l.dirs[*d], n, id)).collect::<Vec<_>>()));
	}
	if !l.links.is_empty() {
		s.push_str(&format!("  symlinks: {:?}\n", l.links.iter().map(|(d, n, t)| format!("{}/{} -> f{}", l.dirs[*d], n, t)).collect::<Vec<_>>()));
	}
	if let Some((i, k)) = l.disk_fault {
		s.push_str(&format!("  disk fault: f{i} {}\n", ["is a directory", "deleted", "dangling symlink", "symlink loop"][k as usize]));
	}
	s
}

pub fn run(run: &Run) {
	run.set_level("fault_enumeration");
	run.set_rule("import graphs of 2-7 files (code / text / binary; import, importstr, importbin; tree, diamond, chain, strict and lazy cycles) laid out over the importer's directory, a sub-directory and 0-3 library directories with shadowing decoys, path spellings (plain, ./, sub/../, absolute, through symlinks) and disk faults (target is a directory, deleted, dangling symlink, symlink loop, invalid UTF-8). Oracle: a resolution model (importer directory first, then the search path in order) gives the expected value or failure; a recording wrapper around the real FileImportResolver shows every file loaded and evaluated at most once per state; then EVERY resolve call and EVERY load call of the fault-free run is failed in turn (fault enumeration): the evaluation fails, an unrelated file still imports, and once the fault has cleared the same state gives the fresh-state result. A sample goes through the executable (-J order, JSONNET_PATH). Non-trivial = shadowing, symlink, cycle, disk fault or injected faults.");
	run.assume("file permission faults cannot be produced on disk (the sandbox runs as root): they are represented by the injected ImportIo failures");
	let n = run.tier.pick(8_000, 80_000);
	let counter = std::sync::atomic::AtomicU64::new(0);
	let poison_known = run.is_known(K_POISONED);
	run.reproduce_known(|k| {
		KNOWN_POISON.with(|c| c.set(poison_known));
		// the reproducer is the smallest graph with one nested import: root -> f1
		let l = Layout {
			dirs: vec!["main".into(), "main/sub".into()],
			lib_order: vec![],
			nodes: vec![
				Node { kind: NodeKind::Code, dir: 0, name: "f0.libsonnet".into(), edges: vec![Edge { kind: 0, target: 1, spelled: "f1.libsonnet".into(), lazy: false }] },
				Node { kind: NodeKind::Code, dir: 0, name: "f1.libsonnet".into(), edges: vec![] },
			],
			decoys: vec![],
			links: vec![],
			disk_fault: None,
			shape: "chain",
			forced: vec![],
		};
		let _ = k;
		check(&l, false)
	});
	run.explore("graphs", n, 20..=200, |src| {
		KNOWN_POISON.with(|c| c.set(poison_known));
		let l = gen_layout(src);
		let k = counter.fetch_add(1, std::sync::atomic::Ordering::SeqCst);
		check(&l, k % 8 == 0)
	});
	for c in ["shape:tree", "shape:diamond", "shape:chain", "shape:strict-cycle", "shape:lazy-cycle", "edge:import", "edge:importstr", "edge:importbin", "shadowing", "symlink", "injected-faults", "cli"] {
		run.require_class(c, 20);
	}
}

pub fn replay(_run: &Run, stage: &str, tape: Option<&[u16]>, _v: &Value) -> Option<CaseOut> {
	match (stage, tape) {
		("graphs", Some(t)) => {
			KNOWN_POISON.with(|c| c.set(_run.is_known(K_POISONED)));
			Some(check(&gen_layout(&mut Src::new(t)), true))
		}
		_ => None,
	}
}
