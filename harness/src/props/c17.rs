//! C17 — source text is never lost and reported positions are accurate.
use jrsonnet_ir as ir;
use serde_json::Value;

use crate::{
	ast::{canon_ir, CanonOpts, Printer},
	core::{guarded, CaseOut, Run, Src},
	gen_syn::{self, RandTrivia, SynCfg},
	jr::{self, Opts},
	props::c06,
};

// ------------------------------------------------------------------------------------------ (a) tiling

pub fn tiling_case(text: &str) -> CaseOut {
	let mut problems = vec![];
	let r = guarded(|| {
		let mut problems = vec![];
		let mut pos = 0u32;
		let mut trivia = 0;
		for l in jrsonnet_lexer::Lexer::new(text) {
			if l.range.0 != pos {
				problems.push(format!("token {:?} starts at {} but the previous one ended at {pos}", l.text, l.range.0));
				break;
			}
			if l.range.1 < l.range.0 || l.range.1 as usize > text.len() {
				problems.push(format!("token range {}..{} is outside the text (len {})", l.range.0, l.range.1, text.len()));
				break;
			}
			match text.get(l.range.0 as usize..l.range.1 as usize) {
				Some(t) if t == l.text => {}
				other => {
					problems.push(format!("token text {:?} differs from the input slice {:?}", l.text, other));
					break;
				}
			}
			if format!("{:?}", l.kind).contains("COMMENT") || format!("{:?}", l.kind) == "WHITESPACE" {
				trivia += 1;
			}
			pos = l.range.1;
		}
		if problems.is_empty() && pos as usize != text.len() {
			problems.push(format!("tokens end at {pos} but the text has {} bytes", text.len()));
		}
		(problems, trivia)
	});
	let mut trivia = 0;
	match r {
		Ok((p, t)) => {
			problems.extend(p);
			trivia = t;
		}
		Err(p) => problems.push(format!("lexer panicked: {p}")),
	}
	match guarded(|| jrsonnet_rowan_parser::parse(text).0) {
		Ok(tree) => {
			use jrsonnet_rowan_parser::AstNode;
			let back = tree.syntax().to_string();
			if back != text {
				problems.push(format!("the formatter's syntax tree does not reproduce the input: {:?}", clip(&back)));
			}
		}
		Err(p) => problems.push(format!("the formatter's parser panicked: {p}")),
	}
	let nontrivial = trivia >= 1 && !text.is_ascii();
	if problems.is_empty() {
		CaseOut::pass(text.to_owned(), nontrivial)
	} else {
		CaseOut::fail(text.to_owned(), problems.join("\n"))
	}
}
fn clip(s: &str) -> String {
	s.chars().take(200).collect()
}

// ------------------------------------------------------------------------------------------ (b) spans

#[derive(Debug)]
enum SpanKind {
	Var(String),
	FieldName(Option<String>),
	/// span of an expression: its text must parse to this canonical tree
	Expr(String),
	Keyword(&'static [&'static str]),
	Args,
	DotIndex(String),
}
struct Collected {
	kind: SpanKind,
	start: u32,
	end: u32,
}

fn c(e: &ir::Expr) -> String {
	canon_ir(e, CanonOpts::default())
}
fn collect_bind(b: &ir::BindSpec, out: &mut Vec<Collected>) {
	match b {
		ir::BindSpec::Field { value, .. } => collect(value, out),
		ir::BindSpec::Function { params, value, .. } => {
			collect_params(params, out);
			collect(value, out);
		}
	}
}
fn collect_params(ps: &ir::ExprParams, out: &mut Vec<Collected>) {
	for p in ps.exprs.iter() {
		if let Some(d) = &p.default {
			collect(d, out);
		}
	}
}
fn collect_assert(a: &ir::AssertStmt, out: &mut Vec<Collected>) {
	out.push(Collected { kind: SpanKind::Expr(c(&a.0.value)), start: a.0.span.1, end: a.0.span.2 });
	collect(&a.0.value, out);
	if let Some(m) = &a.1 {
		out.push(Collected { kind: SpanKind::Expr(c(&m.value)), start: m.span.1, end: m.span.2 });
		collect(&m.value, out);
	}
}
fn collect_specs(cs: &[ir::CompSpec], out: &mut Vec<Collected>) {
	for s in cs {
		match s {
			ir::CompSpec::ForSpec(f) => collect(&f.over, out),
			ir::CompSpec::IfSpec(i) => {
				out.push(Collected { kind: SpanKind::Keyword(&["if"]), start: i.span.1, end: i.span.2 });
				collect(&i.cond, out);
			}
		}
	}
}
fn collect_field(f: &ir::FieldMember, out: &mut Vec<Collected>) {
	let name = match &f.name.value {
		ir::FieldName::Fixed(n) => Some(n.to_string()),
		ir::FieldName::Dyn(e) => {
			collect(e, out);
			None
		}
	};
	out.push(Collected { kind: SpanKind::FieldName(name), start: f.name.span.1, end: f.name.span.2 });
	if let Some(ps) = &f.params {
		collect_params(ps, out);
	}
	collect(&f.value, out);
}
fn collect_obj(b: &ir::ObjBody, out: &mut Vec<Collected>) {
	match b {
		ir::ObjBody::MemberList(m) => {
			m.locals.iter().for_each(|l| collect_bind(l, out));
			m.asserts.iter().for_each(|a| collect_assert(a, out));
			m.fields.iter().for_each(|f| collect_field(f, out));
		}
		ir::ObjBody::ObjComp(oc) => {
			oc.locals.iter().for_each(|l| collect_bind(l, out));
			collect_field(&oc.field, out);
			collect_specs(&oc.compspecs, out);
		}
	}
}
fn collect(e: &ir::Expr, out: &mut Vec<Collected>) {
	use ir::Expr::*;
	match e {
		Literal(_) | Str(_) | Num(_) => {}
		Var(n) => out.push(Collected { kind: SpanKind::Var(n.value.to_string()), start: n.span.1, end: n.span.2 }),
		Arr(v) => v.iter().for_each(|x| collect(x, out)),
		ArrComp(x, cs) => {
			collect(x, out);
			collect_specs(cs, out);
		}
		Obj(b) => collect_obj(b, out),
		ObjExtend(a, b) => {
			collect(a, out);
			collect_obj(b, out);
		}
		UnaryOp(_, x) => collect(x, out),
		BinaryOp(b) => {
			collect(&b.lhs, out);
			collect(&b.rhs, out);
		}
		AssertExpr(a) => {
			collect_assert(&a.assert, out);
			collect(&a.rest, out);
		}
		LocalExpr(bs, b) => {
			bs.iter().for_each(|x| collect_bind(x, out));
			collect(b, out);
		}
		Import(k, p) => {
			out.push(Collected { kind: SpanKind::Keyword(&["import", "importstr", "importbin"]), start: k.span.1, end: k.span.2 });
			collect(p, out);
		}
		ErrorStmt(s, x) => {
			out.push(Collected { kind: SpanKind::Keyword(&["error"]), start: s.1, end: s.2 });
			collect(x, out);
		}
		Apply(f, args, _) => {
			collect(f, out);
			out.push(Collected { kind: SpanKind::Args, start: args.span.1, end: args.span.2 });
			args.value.unnamed.iter().for_each(|a| collect(a, out));
			args.value.named.iter().for_each(|(_, a)| collect(a, out));
		}
		Index { indexable, parts } => {
			collect(indexable, out);
			for p in parts {
				collect(&p.value, out);
				match &p.value {
					// `.name` and `["name"]` both carry a string: decided by looking at the text
					Str(s) => out.push(Collected { kind: SpanKind::DotIndex(s.to_string()), start: p.span.1, end: p.span.2 }),
					v => out.push(Collected { kind: SpanKind::Expr(c(v)), start: p.span.1, end: p.span.2 }),
				}
			}
		}
		Function(ps, b) => {
			collect_params(ps, out);
			collect(b, out);
		}
		IfElse(i) => {
			out.push(Collected { kind: SpanKind::Keyword(&["if"]), start: i.cond.span.1, end: i.cond.span.2 });
			collect(&i.cond.cond, out);
			collect(&i.cond_then, out);
			if let Some(e) = &i.cond_else {
				collect(e, out);
			}
		}
		Slice(s) => {
			collect(&s.value, out);
			for p in [&s.slice.start, &s.slice.end, &s.slice.step].into_iter().flatten() {
				out.push(Collected { kind: SpanKind::Expr(c(&p.value)), start: p.span.1, end: p.span.2 });
				collect(&p.value, out);
			}
		}
	}
}

fn reparse(text: &str) -> Option<String> {
	jrsonnet_ir_parser::parse(text, &jrsonnet_ir_parser::ParserSettings { source: c06::src_of(text) }).ok().map(|e| c(&e))
}

fn check_spans(code: &str, tree: &ir::Expr, parser: &str, problems: &mut Vec<String>) -> usize {
	let mut spans = vec![];
	collect(tree, &mut spans);
	for s in &spans {
		let (a, b) = (s.start as usize, s.end as usize);
		if a > b || b > code.len() {
			problems.push(format!("{parser}: span {a}..{b} of {:?} is outside the text (len {})", s.kind, code.len()));
			continue;
		}
		if !code.is_char_boundary(a) || !code.is_char_boundary(b) {
			problems.push(format!("{parser}: span {a}..{b} of {:?} is not on character boundaries", s.kind));
			continue;
		}
		let t = code[a..b].trim();
		let ok = match &s.kind {
			SpanKind::Var(n) => t == n,
			SpanKind::Keyword(ks) => ks.iter().any(|k| t == *k || (t.starts_with(k) && ks.len() == 1 && *k == "if")),
			SpanKind::Args => t.starts_with('(') && (t.ends_with(')') || t.ends_with("tailstrict")),
			SpanKind::Expr(want) => reparse(t).as_deref() == Some(want) || (t.starts_with('[') && t.ends_with(']') && reparse(&t[1..t.len() - 1]).as_deref() == Some(want)),
			SpanKind::DotIndex(n) => t == n || reparse(t) == Some(format!("s{n:?}")) || (t.starts_with('[') && t.ends_with(']') && reparse(&t[1..t.len() - 1]) == Some(format!("s{n:?}"))),
			SpanKind::FieldName(Some(n)) => t == n || reparse(t) == Some(format!("s{n:?}")),
			SpanKind::FieldName(None) => t.starts_with('['),
		};
		if !ok {
			problems.push(format!("{parser}: span {a}..{b} labelled {:?} covers the text {:?}", s.kind, clip(&code[a..b])));
		}
	}
	spans.len()
}

pub fn span_case(src: &mut Src) -> CaseOut {
	let cfg = SynCfg { imports: true, ..SynCfg::default() };
	let tree = gen_syn::expr(src, &cfg, 4);
	let code = {
		let mut tr = RandTrivia { src, comments: true, counter: 0, emitted: vec![], items_only: false };
		let mut p = Printer::new(&mut tr);
		p.paren_unary_in_mul = true;
		p.expr(&tree, 0, true);
		p.out
	};
	// decorate with non-ASCII so that byte and character offsets differ
	let code = format!("/* é😀 */ {code}");
	let mut problems = vec![];
	let mut n = 0;
	let source = c06::src_of(&code);
	match guarded(|| jrsonnet_ir_parser::parse(&code, &jrsonnet_ir_parser::ParserSettings { source: source.clone() })) {
		Ok(Ok(t)) => n += check_spans(&code, &t, "default parser", &mut problems),
		Ok(Err(_)) => return CaseOut::discard(code, "rejected by the default parser (C06's business)"),
		Err(p) => problems.push(format!("default parser panicked: {p}")),
	}
	match guarded(|| jrsonnet_peg_parser::parse(&code, &jrsonnet_peg_parser::ParserSettings { source })) {
		Ok(Ok(t)) => n += check_spans(&code, &t, "legacy parser", &mut problems),
		Ok(Err(_)) => {}
		Err(p) => problems.push(format!("legacy parser panicked: {p}")),
	}
	if problems.is_empty() {
		CaseOut::pass(code, n >= 3).class("spans")
	} else {
		problems.truncate(8);
		CaseOut::fail(code, problems.join("\n"))
	}
}

// ------------------------------------------------------------------------------------------ (c) planted positions

#[derive(Clone, Copy, Debug)]
enum Plant {
	Error,
	Assert,
	MissingField,
	UnknownVar,
	Syntax,
	Trace,
	Lexical,
}

fn line_col(text: &str, offset: usize) -> (usize, usize) {
	let before = &text[..offset];
	let line = before.matches('\n').count() + 1;
	let line_start = before.rfind('\n').map(|p| p + 1).unwrap_or(0);
	(line, text[line_start..offset].chars().count() + 1)
}

struct Planted {
	code: String,
	offset: usize,
	plant: Plant,
	ascii_before_on_line: bool,
	nonascii_before: bool,
	multiline: bool,
}

fn gen_planted(src: &mut Src) -> Planted {
	let mut code = String::new();
	let nl = if src.chance(1, 4) { "\r\n" } else { "\n" };
	let deco = src.range(0, 6);
	let mut k = 0;
	for _ in 0..deco {
		match src.weighted(&[2, 3, 2, 2, 2, 1]) {
			0 => code.push_str(nl),
			1 => code.push_str(&format!("// é😀 comment ünï{nl}")),
			2 => code.push_str(&format!("# plain ascii comment{nl}")),
			3 => {
				k += 1;
				code.push_str(&format!("local d{k} = \"é漢😀\";{nl}"));
			}
			4 => code.push_str(&format!("/* block é{nl}   second line 😀 */{nl}")),
			_ => {
				k += 1;
				code.push_str(&format!("local d{k} = |||{nl}  text é{nl}  more{nl}|||;{nl}"));
			}
		}
	}
	let indent = " ".repeat(src.range(0, 6) as usize);
	code.push_str(&indent);
	let prefix = *src.pick(&["", "[1, 2] + ", "1 + ", "\"é\" + ", "/* é */ ", "{ a: 1 }.a + ", "\t"]);
	code.push_str(prefix);
	let mut ascii_before_on_line = prefix.is_ascii();
	let plant = *src.pick(&[Plant::Error, Plant::Assert, Plant::MissingField, Plant::UnknownVar, Plant::Syntax, Plant::Trace, Plant::Lexical]);
	let multiline = src.chance(1, 4);
	let brk = if multiline { nl } else { " " };
	let offset;
	match plant {
		Plant::Error => {
			offset = code.len();
			code.push_str(&format!("error{brk}\"boom é\""));
		}
		Plant::Assert => {
			code.push_str("(assert ");
			offset = code.len();
			code.push_str(&format!("1 =={brk}2 : \"msg\"; 1)"));
		}
		Plant::MissingField => {
			code.push_str("{ b: 1 }.");
			offset = code.len();
			code.push_str("nope");
		}
		Plant::UnknownVar => {
			offset = code.len();
			code.push_str("undefined_variable_x");
		}
		Plant::Syntax => {
			code.push_str("1 ");
			offset = code.len();
			code.push_str(") 2");
		}
		Plant::Trace => {
			code.push_str("std.trace(\"planted\", 1)");
			offset = code.len() - "std.trace(\"planted\", 1)".len();
		}
		Plant::Lexical => {
			// a token the lexer itself rejects; only the line is demanded (which column of such a token is named is
			// not pinned down)
			offset = code.len();
			ascii_before_on_line = false;
			code.push_str(*src.pick(&["\"unterminated é", "'unterminated", "1.e5 + 2", "/* never closed", "1 + 2e + 3", "@\"verbatim"]));
		}
	}
	let trailer = src.range(0, 2);
	for _ in 0..trailer {
		code.push_str(&format!("{nl}// trailing é"));
	}
	let nonascii_before = !code[..offset].is_ascii();
	Planted { code, offset, plant, ascii_before_on_line, nonascii_before, multiline }
}

/// first `line:col` after the file name in a CompactFormat trace
fn first_location(out: &str, file: &str) -> Option<(usize, usize)> {
	for l in out.lines() {
		let l = l.trim();
		// (in-memory sources are shown as `virtual:<name>`, files by their file name)
		let needle = format!("{file}:");
		if let Some(rest) = l.find(&needle).map(|p| &l[p + needle.len()..]) {
			let mut it = rest.split(|c: char| !c.is_ascii_digit());
			let line = it.next()?.parse().ok()?;
			let col = it.next()?.parse().ok()?;
			return Some((line, col));
		}
	}
	None
}

/// end of the first reported range (`L:C-C2` or `L:C-L2:C2`), if the location is a range
fn first_range_end(out: &str, file: &str) -> Option<(usize, usize)> {
	for l in out.lines() {
		let needle = format!("{file}:");
		let Some(rest) = l.find(&needle).map(|p| &l[p + needle.len()..]) else { continue };
		let loc: String = rest.chars().take_while(|c| c.is_ascii_digit() || *c == ':' || *c == '-').collect();
		let (start, end) = loc.split_once('-')?;
		let start_line: usize = start.split(':').next()?.parse().ok()?;
		let mut it = end.trim_end_matches(':').split(':');
		let a: usize = it.next()?.parse().ok()?;
		return Some(match it.next().and_then(|b| b.parse::<usize>().ok()) {
			Some(b) => (a, b),
			None => (start_line, a),
		});
	}
	None
}

pub fn planted_case(src: &mut Src) -> CaseOut {
	let p = gen_planted(src);
	let (want_line, want_col) = line_col(&p.code, p.offset);
	let mut problems = vec![];
	let mut classes = vec![format!("plant:{:?}", p.plant)];
	if p.nonascii_before {
		classes.push("nonascii-before".into());
	}
	if p.multiline {
		classes.push("multiline".into());
	}
	let opts = Opts { name: "t.jsonnet".to_owned(), ..Opts::default() };
	match p.plant {
		Plant::Trace => {
			let (_o, traces) = jr::eval_traced(&p.code, &opts);
			match traces.first() {
				Some((loc, msg)) if msg == "planted" => {
					let line: Option<usize> = loc.rsplit(':').next().and_then(|l| l.parse().ok());
					if line != Some(want_line) {
						problems.push(format!("std.trace on line {want_line} was reported at {loc}"));
					}
				}
				other => problems.push(format!("no trace event for the planted std.trace: {other:?}")),
			}
		}
		_ => match jr::eval_error_text(&p.code, &opts) {
			Ok(text) => match first_location(&text, "t.jsonnet") {
				Some((l, c)) => {
					if l != want_line {
						problems.push(format!("{:?} planted at line {want_line} column {want_col} is reported at line {l}:\n{text}", p.plant));
					} else if p.ascii_before_on_line && c != want_col {
						problems.push(format!("{:?} planted at line {want_line} column {want_col} is reported at column {c}:\n{text}", p.plant));
					}
					// when a range is printed its end lies at or after its start (a construct that ends with the text,
					// without a final line feed, is the boundary case)
					if let Some((el, ec)) = first_range_end(&text, "t.jsonnet") {
						if el < l || (el == l && ec < c) {
							problems.push(format!("{:?} planted at {want_line}:{want_col}: the reported range ends at {el}:{ec}, before its start {l}:{c}:\n{text}", p.plant));
						}
					}
				}
				None => problems.push(format!("no location in the error text:\n{text}")),
			},
			Err(pn) => problems.push(format!("formatting the error panicked: {pn}")),
		},
	}
	let nontrivial = p.nonascii_before || p.multiline;
	if problems.is_empty() {
		CaseOut::pass(p.code, nontrivial).classes(classes)
	} else {
		CaseOut::fail(p.code, problems.join("\n")).classes(classes)
	}
}

/// the same through the real executable: stderr of `jrsonnet file`
fn cli_planted_case(src: &mut Src, dir: &std::path::Path, idx: u64) -> CaseOut {
	let p = gen_planted(src);
	let (want_line, want_col) = line_col(&p.code, p.offset);
	let path = dir.join(format!("p{idx}.jsonnet"));
	if std::fs::write(&path, &p.code).is_err() {
		return CaseOut::discard(p.code, "cannot write scratch file");
	}
	let out = std::process::Command::new("/verif/target/repo/debug/jrsonnet").arg(&path).current_dir(dir).output();
	let _ = std::fs::remove_file(&path);
	let Ok(out) = out else { return CaseOut::discard(p.code, "cannot run jrsonnet") };
	let err = String::from_utf8_lossy(&out.stderr).into_owned();
	let fname = format!("p{idx}.jsonnet");
	let mut problems = vec![];
	match p.plant {
		Plant::Trace => {
			let want = format!("TRACE: {fname}:{want_line} planted");
			if !err.lines().any(|l| l.trim() == want) {
				problems.push(format!("expected stderr line {want:?}, got:\n{err}"));
			}
		}
		_ => match first_location(&err, &fname) {
			Some((l, c)) => {
				if l != want_line || (p.ascii_before_on_line && c != want_col) {
					problems.push(format!("{:?} planted at {want_line}:{want_col} is reported at {l}:{c}:\n{err}", p.plant));
				}
			}
			None => problems.push(format!("no location on stderr:\n{err}")),
		},
	}
	if problems.is_empty() {
		CaseOut::pass(p.code, true).class("cli")
	} else {
		CaseOut::fail(p.code, problems.join("\n"))
	}
}

pub fn run(run: &Run) {
	run.set_rule("(a) tiling: all token sequences up to a length bound, random token sequences and random Unicode text (CR, CRLF, NUL, BOM, unterminated strings/comments/text blocks): lexer ranges tile the input and the formatter's syntax tree prints back byte for byte. (b) spans: generated valid programs with comments and a non-ASCII prefix: every span of both evaluator parsers is in bounds, on character boundaries and covers its construct (identifier text, keyword, argument list, or — for expression spans — text that re-parses to the same tree). (c) positions: programs with an error / failing assert / missing field / unknown variable / syntax error / std.trace planted at a known line and column behind comments, strings, text blocks and blank lines with multi-byte characters and CRLF: reported line always exact, column exact when the text before the construct on its line is ASCII (in-process CompactFormat and a sample through the executable's stderr). Non-trivial: (a) trivia + non-ASCII, (b) >= 3 spans, (c) non-ASCII before the construct or a multi-line construct.");
	run.assume("line/column expected values are computed by the harness from the byte offset (lines split at \\n, columns counted in code points, 1-based)");
	let regs = ["// é\nlocal a = \"é\";\n  error \"boom\"\n", "é", "\"\\", "|||\n a", "/* é"];
	run.enumerate("regressions-tiling", regs.len() as u64, |i| tiling_case(regs[i as usize]));
	let k = c06::ALPHABET.len() as u64;
	let maxlen = run.tier.pick(3u32, 4);
	for len in 1..=maxlen {
		run.enumerate(&format!("tiling-exhaustive-tokens-len{len}"), k.pow(len), |mut i| {
			let mut toks = vec![];
			for _ in 0..len {
				toks.push(c06::ALPHABET[(i % k) as usize]);
				i /= k;
			}
			tiling_case(&toks.join(" "))
		});
	}
	let n = run.tier.pick(400_000, 4_000_000);
	run.explore("tiling-unicode", n, 4..=80, |src| tiling_case(&crate::props::fmt::unicode_text(src)));
	let n = run.tier.pick(100_000, 1_000_000);
	run.explore("spans", n, 10..=200, span_case);
	let n = run.tier.pick(80_000, 800_000);
	run.explore("planted-positions", n, 8..=40, planted_case);
	// through the executable
	let dir = std::path::PathBuf::from(format!("/verif/target/tmp/c17-{}", std::process::id()));
	let _ = std::fs::create_dir_all(&dir);
	let n = run.tier.pick(600, 6_000);
	let counter = std::sync::atomic::AtomicU64::new(0);
	run.explore("planted-positions-cli", n, 8..=40, |src| {
		let i = counter.fetch_add(1, std::sync::atomic::Ordering::SeqCst);
		cli_planted_case(src, &dir, i)
	});
	let _ = std::fs::remove_dir_all(&dir);
	for p in ["Error", "Assert", "MissingField", "UnknownVar", "Syntax", "Trace", "Lexical"] {
		run.require_class(&format!("plant:{p}"), 300);
	}
	run.require_class("nonascii-before", 2000);
}

pub fn replay(_run: &Run, stage: &str, tape: Option<&[u16]>, v: &Value) -> Option<CaseOut> {
	match (stage, tape) {
		("spans", Some(t)) => Some(span_case(&mut Src::new(t))),
		("planted-positions", Some(t)) => Some(planted_case(&mut Src::new(t))),
		("planted-positions-cli", Some(t)) => {
			let dir = std::path::PathBuf::from(format!("/verif/target/tmp/c17-replay-{}", std::process::id()));
			let _ = std::fs::create_dir_all(&dir);
			let out = cli_planted_case(&mut Src::new(t), &dir, 0);
			let _ = std::fs::remove_dir_all(&dir);
			Some(out)
		}
		_ => Some(tiling_case(v["case"].as_str()?)),
	}
}
