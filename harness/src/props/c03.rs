//! C03 — evaluation is call-by-need: nothing unneeded runs, nothing shared runs twice.
use std::collections::{BTreeMap, BTreeSet};

use serde_json::Value;

use crate::{
	ast::{self, bx, call, num, s, std_call, var, BinOp, Bind, Comp, Ex, FieldName, Member, Param},
	core::{CaseOut, Run, Src, Verdict},
	gen_eval,
	jr::{self, Opts, Outcome},
	model::{self, Interp, MOut},
	props::c01::{compare, Cmp},
};

#[derive(Clone, Copy, PartialEq, Eq, Debug)]
pub enum Pos {
	LocalRhs,
	Arg,
	Default,
	Branch,
	ShortCircuitRhs,
	Element,
	Field,
	ObjLocal,
}

pub enum Mode<'a> {
	/// wrap every position as std.trace("L<k>", e)
	Trace,
	/// replace the positions in the set by `error "bomb<k>"`, leave the others untouched
	Bomb(&'a BTreeSet<usize>),
	/// replace the positions in the set by a runaway recursion
	Diverge(&'a BTreeSet<usize>),
}

pub struct Instr<'a> {
	pub mode: Mode<'a>,
	pub counter: usize,
	pub positions: Vec<Pos>,
}
impl Instr<'_> {
	fn wrap(&mut self, pos: Pos, e: Ex) -> Ex {
		let k = self.counter;
		self.counter += 1;
		self.positions.push(pos);
		match &self.mode {
			Mode::Trace => std_call("trace", vec![s(&format!("L{k}")), e]),
			Mode::Bomb(set) => {
				if set.contains(&k) {
					Ex::Error(bx(s(&format!("bomb{k}"))))
				} else {
					e
				}
			}
			Mode::Diverge(set) => {
				if set.contains(&k) {
					// (local r(x) = r(x + 1); r(0)) : stopped by the frame limit if — and only if — it is forced
					Ex::Local(
						vec![Bind::Func("r".into(), vec![Param { name: "x".into(), default: None }], call(var("r"), vec![Ex::Bin(BinOp::Add, bx(var("x")), bx(num(1.0)))]))],
						bx(call(var("r"), vec![num(0.0)])),
					)
				} else {
					e
				}
			}
		}
	}
	fn params(&mut self, ps: &[Param]) -> Vec<Param> {
		ps.iter()
			.map(|p| Param {
				name: p.name.clone(),
				default: p.default.as_ref().map(|d| {
					let inner = self.go(d);
					self.wrap(Pos::Default, inner)
				}),
			})
			.collect()
	}
	fn bind(&mut self, b: &Bind, pos: Pos) -> Bind {
		match b {
			Bind::Var(n, e) => {
				let inner = self.go(e);
				// function values are not interesting as "evaluated once" objects; keep them bare
				if matches!(e, Ex::Func(..)) {
					Bind::Var(n.clone(), inner)
				} else {
					Bind::Var(n.clone(), self.wrap(pos, inner))
				}
			}
			Bind::Func(n, ps, e) => {
				let ps = self.params(ps);
				Bind::Func(n.clone(), ps, self.go(e))
			}
		}
	}
	fn comps(&mut self, cs: &[Comp]) -> Vec<Comp> {
		cs.iter()
			.map(|c| match c {
				Comp::For(v, e) => Comp::For(v.clone(), self.go(e)),
				Comp::If(e) => Comp::If(self.go(e)),
			})
			.collect()
	}
	pub fn go(&mut self, e: &Ex) -> Ex {
		use Ex::*;
		match e {
			Arr(v) => Arr(v
				.iter()
				.map(|x| {
					let inner = self.go(x);
					self.wrap(Pos::Element, inner)
				})
				.collect()),
			ArrComp(x, cs) => {
				let cs = self.comps(cs);
				let inner = self.go(x);
				ArrComp(bx(self.wrap(Pos::Element, inner)), cs)
			}
			Obj(ms) => Obj(ms
				.iter()
				.map(|m| match m {
					Member::Field { name, plus, vis, params, value } => {
						let name = match name {
							FieldName::Dyn(n) => FieldName::Dyn(self.go(n)),
							n => n.clone(),
						};
						match params {
							Some(ps) => {
								let ps = self.params(ps);
								Member::Field { name, plus: *plus, vis: *vis, params: Some(ps), value: self.go(value) }
							}
							None => {
								let inner = self.go(value);
								Member::Field { name, plus: *plus, vis: *vis, params: None, value: self.wrap(Pos::Field, inner) }
							}
						}
					}
					Member::Local(b) => Member::Local(self.bind(b, Pos::ObjLocal)),
					Member::Assert(c, m) => Member::Assert(self.go(c), m.as_ref().map(|m| self.go(m))),
				})
				.collect()),
			ObjComp { pre, name, plus, vis, value, post, specs } => {
				let pre = pre.iter().map(|b| self.bind(b, Pos::ObjLocal)).collect();
				let name = bx(self.go(name));
				let inner = self.go(value);
				let value = bx(self.wrap(Pos::Field, inner));
				let post = post.iter().map(|b| self.bind(b, Pos::ObjLocal)).collect();
				let specs = self.comps(specs);
				ObjComp { pre, name, plus: *plus, vis: *vis, value, post, specs }
			}
			ObjExt(a, b) => ObjExt(bx(self.go(a)), bx(self.go(b))),
			Index(a, i) => Index(bx(self.go(a)), bx(self.go(i))),
			Dot(a, f) => Dot(bx(self.go(a)), f.clone()),
			SuperIndex(i) => SuperIndex(bx(self.go(i))),
			InSuper(x) => InSuper(bx(self.go(x))),
			Slice(a, x, y, z) => Slice(bx(self.go(a)), x.as_ref().map(|v| bx(self.go(v))), y.as_ref().map(|v| bx(self.go(v))), z.as_ref().map(|v| bx(self.go(v)))),
			Call(f, args, named, ts) => {
				let f2 = self.go(f);
				// arguments of std functions are left alone (their strictness is the library's business: C10/C13)
				let is_std = matches!(&**f, Dot(o, _) if matches!(&**o, Var(n) if n == "std"));
				let args = args
					.iter()
					.map(|a| {
						let inner = self.go(a);
						if is_std {
							inner
						} else {
							self.wrap(Pos::Arg, inner)
						}
					})
					.collect();
				let named = named
					.iter()
					.map(|(n, a)| {
						let inner = self.go(a);
						(n.clone(), if is_std { inner } else { self.wrap(Pos::Arg, inner) })
					})
					.collect();
				Call(bx(f2), args, named, *ts)
			}
			Func(ps, b) => {
				let ps = self.params(ps);
				Func(ps, bx(self.go(b)))
			}
			Local(bs, b) => {
				let bs = bs.iter().map(|x| self.bind(x, Pos::LocalRhs)).collect();
				Local(bs, bx(self.go(b)))
			}
			If(c, t, el) => {
				let c = self.go(c);
				let ti = self.go(t);
				let t = self.wrap(Pos::Branch, ti);
				let el = el.as_ref().map(|x| {
					let xi = self.go(x);
					bx(self.wrap(Pos::Branch, xi))
				});
				If(bx(c), bx(t), el)
			}
			Un(op, x) => Un(*op, bx(self.go(x))),
			Bin(op, a, b) => {
				let a2 = self.go(a);
				let bi = self.go(b);
				let b2 = if matches!(op, BinOp::And | BinOp::Or) { self.wrap(Pos::ShortCircuitRhs, bi) } else { bi };
				Bin(*op, bx(a2), bx(b2))
			}
			Error(x) => Error(bx(self.go(x))),
			Assert(c, m, r) => Assert(bx(self.go(c)), m.as_ref().map(|v| bx(self.go(v))), bx(self.go(r))),
			Paren(x) => Paren(bx(self.go(x))),
			other => other.clone(),
		}
	}
}

fn counts(labels: impl Iterator<Item = String>) -> BTreeMap<String, usize> {
	let mut m = BTreeMap::new();
	for l in labels {
		*m.entry(l).or_insert(0) += 1;
	}
	m
}

pub const K_PTR_EQ: &str = "C02-same-reference-equality-shortcut";

pub fn check(run: &Run, base: &Ex) -> CaseOut {
	let mut tr = Instr { mode: Mode::Trace, counter: 0, positions: vec![] };
	let traced = tr.go(base);
	let positions = tr.positions.clone();
	let n_labels = tr.counter;
	let text = ast::print_eval(&traced);
	// reference run: value, trace multiset, never-forced labels
	let it = Interp::new(600_000);
	let m = model::run(&traced, &it);
	let MOut::Val(_) = &m else {
		return CaseOut::discard(text, "program does not evaluate to a value in the reference (C03 uses successful programs)");
	};
	let model_counts = counts(it.traces.borrow().iter().cloned());
	let unneeded: BTreeSet<usize> = (0..n_labels).filter(|k| !model_counts.contains_key(&format!("L{k}"))).collect();
	let mut classes: Vec<String> = vec![];
	for k in &unneeded {
		classes.push(format!("unneeded:{:?}", positions[*k]));
	}
	let shared_once = model_counts.values().any(|c| *c == 1);
	classes.sort();
	classes.dedup();
	let mut problems = vec![];
	// (1)+(2): traces of the instrumented program
	let (out, traces) = jr::eval_traced(&text, &Opts::default());
	match compare(&m, &out) {
		Cmp::Agree => {}
		Cmp::Undecided(w) => return CaseOut::discard(text, &w),
		Cmp::Disagree(w) => problems.push(format!("instrumented program: {w}")),
	}
	let jr_counts = counts(traces.iter().map(|t| t.1.clone()));
	for (l, c) in &jr_counts {
		let mc = model_counts.get(l).copied().unwrap_or(0);
		if mc == 0 {
			problems.push(format!("{l} was evaluated {c} time(s) although its value is not needed (the reference never forces it)"));
		} else if *c > mc {
			problems.push(format!("{l} was evaluated {c} times, the reference (which shares exactly locals, arguments, array elements and object fields) evaluates it {mc} time(s)"));
		}
	}
	// (1) metamorphic: bombs / divergence in the unneeded positions are unobservable
	if !unneeded.is_empty() {
		let bombed = Instr { mode: Mode::Bomb(&unneeded), counter: 0, positions: vec![] }.go(base);
		let o2 = jr::eval(&ast::print_eval(&bombed), &Opts::default());
		if let Cmp::Disagree(w) = compare(&m, &o2) {
			problems.push(format!("with `error` planted in the {} unneeded positions {:?}: {w}\n    program: {}", unneeded.len(), unneeded, ast::print_eval(&bombed)));
		}
		let div = Instr { mode: Mode::Diverge(&unneeded), counter: 0, positions: vec![] }.go(base);
		let o3 = jr::eval(&ast::print_eval(&div), &Opts::default());
		if let Cmp::Disagree(w) = compare(&m, &o3) {
			problems.push(format!("with a runaway recursion planted in the unneeded positions: {w}\n    program: {}", ast::print_eval(&div)));
		}
	}
	let nontrivial = !unneeded.is_empty() && shared_once;
	let _ = run;
	if problems.is_empty() {
		CaseOut::pass(text, nontrivial).classes(classes)
	} else {
		problems.truncate(8);
		CaseOut::fail(text, problems.join("\n")).classes(classes)
	}
}

/// tailstrict only forces arguments earlier
fn tailstrict_case(_run: &Run, src: &mut Src) -> CaseOut {
	let p = gen_eval::program(src, 5, 50, 3, 0, 0);
	let base = p.closed();
	let mut n = 0;
	let mut with_ts = base.clone();
	add_tailstrict(&mut with_ts, src, &mut n);
	let text = ast::print_eval(&with_ts);
	if n == 0 {
		return CaseOut::discard(text, "no call to mark tailstrict");
	}
	let m_plain = model::run(&base, &Interp::new(400_000));
	let m_ts = model::run(&with_ts, &Interp::new(400_000));
	let o_ts = jr::eval(&text, &Opts::default());
	let mut problems = vec![];
	match compare(&m_ts, &o_ts) {
		Cmp::Agree => {}
		Cmp::Undecided(w) => return CaseOut::discard(text, &w),
		Cmp::Disagree(w) => problems.push(format!("tailstrict program: {w}")),
	}
	// "never changes a result that exists": if the tailstrict program yields a value it is the plain program's value
	if let (Outcome::Val(v), MOut::Val(pv)) = (&o_ts, &m_plain) {
		let (Ok(a), Ok(b)) = (serde_json::from_str::<Value>(v), serde_json::from_str::<Value>(pv)) else { return CaseOut::discard(text, "not json") };
		if !crate::props::c01::json_eq(&a, &b) {
			problems.push(format!("tailstrict changed an existing result: plain program yields {pv}, tailstrict yields {v}"));
		}
	}
	let cls = vec![format!("tailstrict:{}", if matches!(m_ts, MOut::Val(_)) { "value" } else { "error" })];
	if problems.is_empty() {
		CaseOut::pass(text, true).classes(cls)
	} else {
		CaseOut::fail(text, problems.join("\n")).classes(cls)
	}
}
fn add_tailstrict(e: &mut Ex, src: &mut Src, n: &mut usize) {
	if let Ex::Call(f, _, _, ts) = e {
		let is_std = matches!(&**f, Ex::Dot(o, _) if matches!(&**o, Ex::Var(v) if v == "std"));
		if !is_std && src.chance(1, 2) {
			*ts = true;
			*n += 1;
		}
	}
	crate::props::fmt::map_children(e, &mut |c| add_tailstrict(c, src, n));
}

/// hand-built sharing families: a lost memo cell shows up as an exponential or k-fold trace count
fn sharing_family(i: u64) -> (String, Ex) {
	let t = |label: &str, e: Ex| std_call("trace", vec![s(label), e]);
	match i {
		0 => {
			// doubling: a0 traced once although used 2^16 times
			let mut binds = vec![Bind::Var("a0".into(), t("D", num(1.0)))];
			for k in 1..=16 {
				binds.push(Bind::Var(format!("a{k}"), Ex::Bin(BinOp::Add, bx(var(&format!("a{}", k - 1))), bx(var(&format!("a{}", k - 1))))));
			}
			("doubling-locals".into(), Ex::Local(binds, bx(var("a16"))))
		}
		1 => {
			// one argument thunk used many times in the callee
			let body = Ex::Arr((0..6).map(|_| var("x")).collect());
			("argument-used-6-times".into(), call(Ex::Func(vec![Param { name: "x".into(), default: None }], bx(body)), vec![t("D", num(2.0))]))
		}
		2 => {
			// array element read at several indices / iterations
			let arr = Ex::Arr(vec![t("D", num(3.0)), num(4.0)]);
			let body = Ex::ArrComp(bx(Ex::Index(bx(var("arr")), bx(num(0.0)))), vec![Comp::For("i".into(), std_call("range", vec![num(1.0), num(5.0)]))]);
			("element-read-5-times".into(), Ex::Local(vec![Bind::Var("arr".into(), arr)], bx(body)))
		}
		3 => {
			// object field read through obj.f and self.f repeatedly
			let obj = Ex::Obj(vec![
				Member::Field { name: FieldName::Id("f".into()), plus: false, vis: ast::Vis::Normal, params: None, value: t("D", num(5.0)) },
				Member::Field { name: FieldName::Id("g".into()), plus: false, vis: ast::Vis::Normal, params: None, value: Ex::Arr(vec![Ex::Dot(bx(Ex::SelfE), "f".into()), Ex::Dot(bx(Ex::SelfE), "f".into())]) },
			]);
			let body = Ex::Arr(vec![Ex::Dot(bx(var("o")), "f".into()), Ex::Dot(bx(var("o")), "f".into()), Ex::Dot(bx(var("o")), "g".into())]);
			("field-read-via-obj-and-self".into(), Ex::Local(vec![Bind::Var("o".into(), obj)], bx(body)))
		}
		4 => {
			// super.f read twice from the same layer
			let base = Ex::Obj(vec![Member::Field { name: FieldName::Id("f".into()), plus: false, vis: ast::Vis::Normal, params: None, value: t("D", num(6.0)) }]);
			let layer = Ex::Obj(vec![Member::Field { name: FieldName::Id("g".into()), plus: false, vis: ast::Vis::Normal, params: None, value: Ex::Arr(vec![Ex::SuperDot("f".into()), Ex::SuperDot("f".into())]) }]);
			("super-read-twice".into(), Ex::Dot(bx(Ex::Bin(BinOp::Add, bx(base), bx(layer))), "g".into()))
		}
		5 => {
			// object-level local shared by two fields
			let obj = Ex::Obj(vec![
				Member::Local(Bind::Var("l".into(), t("D", num(7.0)))),
				Member::Field { name: FieldName::Id("a".into()), plus: false, vis: ast::Vis::Normal, params: None, value: var("l") },
				Member::Field { name: FieldName::Id("b".into()), plus: false, vis: ast::Vis::Normal, params: None, value: var("l") },
			]);
			("object-local-shared".into(), obj)
		}
		6 => {
			// a function applied to the same thunk in a loop
			let f = Ex::Func(vec![Param { name: "x".into(), default: None }], bx(Ex::Bin(BinOp::Add, bx(var("x")), bx(num(1.0)))));
			let body = Ex::ArrComp(bx(call(var("f"), vec![var("v")])), vec![Comp::For("i".into(), std_call("range", vec![num(1.0), num(4.0)]))]);
			("same-thunk-in-loop".into(), Ex::Local(vec![Bind::Var("v".into(), t("D", num(8.0))), Bind::Var("f".into(), f)], bx(body)))
		}
		_ => {
			// default parameter used twice
			let f = Ex::Func(vec![Param { name: "x".into(), default: Some(t("D", num(9.0))) }], bx(Ex::Arr(vec![var("x"), var("x")])));
			("default-used-twice".into(), call(f, vec![]))
		}
	}
}

fn sharing_case(i: u64) -> CaseOut {
	let (name, e) = sharing_family(i);
	let text = ast::print_eval(&e);
	let mut it = Interp::new(20_000_000);
	it.max_depth = 400;
	let m = model::run(&e, &it);
	let (out, traces) = jr::eval_traced(&text, &Opts::default());
	let mut problems = vec![];
	if let Cmp::Disagree(w) = compare(&m, &out) {
		problems.push(w);
	}
	let n = traces.iter().filter(|t| t.1 == "D").count();
	let mn = it.traces.borrow().iter().filter(|t| *t == "D").count();
	if n > mn {
		problems.push(format!("the shared expression was evaluated {n} times (reference: {mn})"));
	}
	if problems.is_empty() {
		CaseOut::pass(format!("{name}: {text}"), true).class("sharing-family")
	} else {
		CaseOut::fail(format!("{name}: {text}"), problems.join("\n"))
	}
}

/// A default of an omitted parameter is an argument like any other: evaluated at most once per call however often the
/// body (or another default) uses it — also when the function is called by the library (std.map & co. bind the
/// parameters by another route than a call expression).  (program, value, number of `D` traces = number of calls)
const NATIVE_CALL_DEFAULTS: &[(&str, &str, usize)] = &[
	("std.map(function(x, d=std.trace('D', 10)) d + d + x, [1, 2, 3])", "[21,22,23]", 3),
	("std.map(function(x, d=std.trace('D', 1), e=d + d) e + d, [0])", "[3]", 1),
	("std.makeArray(2, function(i, d=std.trace('D', 1)) [d, d, d])", "[[1,1,1],[1,1,1]]", 2),
	("std.filter(function(x, d=std.trace('D', 1)) d == d && x > 0, [1, 2])", "[1,2]", 2),
	("std.foldl(function(a, b, d=std.trace('D', 0)) a + b + d + d, [1, 2], 0)", "3", 2),
	("std.foldr(function(a, b, d=std.trace('D', 0)) a + b + d + d, [1, 2], 0)", "3", 2),
	("std.mapWithKey(function(k, v, d=std.trace('D', 1)) d + d + v, { a: 1, b: 2 })", "{\"a\":3,\"b\":4}", 2),
	("std.flatMap(function(x, d=std.trace('D', 1)) [d, d], [1, 2])", "[1,1,1,1]", 2),
	("std.mapWithIndex(function(i, x, d=std.trace('D', 5)) [d, d, i], ['a'])", "[[5,5,0]]", 1),
	("std.filterMap(function(x, d=std.trace('D', true)) d && d, function(x, d=std.trace('D', 1)) d + d, [7])", "[2]", 2),
	("local f(x, d=std.trace('D', 1)) = d + d + x; [f(1), std.map(f, [1])[0]]", "[3,3]", 2),
];
fn native_default_case(i: u64) -> CaseOut {
	let (code, want, calls) = NATIVE_CALL_DEFAULTS[i as usize];
	let (out, traces) = jr::eval_traced(code, &Opts::default());
	let n = traces.iter().filter(|t| t.1 == "D").count();
	let mut problems = vec![];
	if !matches!(&out, jr::Outcome::Val(v) if v == want) {
		problems.push(format!("expected {want}, got {}", out.short()));
	}
	if n > calls {
		problems.push(format!("the default was evaluated {n} times in {calls} calls"));
	}
	if problems.is_empty() {
		CaseOut::pass(code.to_owned(), true).class("native-call-default")
	} else {
		CaseOut::fail(code.to_owned(), problems.join("\n"))
	}
}

pub fn run(run: &Run) {
	run.set_rule("type-directed programs that evaluate to a value, with every local right-hand side, argument, default, if-branch, &&/|| right operand, array element, object field body and object local wrapped as std.trace(\"L<k>\", e). Oracles: (1) labels the reference never forces are never traced by jrsonnet, and planting `error` or a runaway recursion there leaves the result unchanged; (2) no label is traced more often than by the reference, which shares exactly locals, arguments, array elements and object fields per (object, name, layer); (3) adding tailstrict to calls never changes an existing result; plus eight hand-built sharing families (a lost memo cell shows as 2^16 or k-fold traces). Non-trivial = at least one unneeded labelled sub-term and one label evaluated exactly once; distinct by program text.");
	run.assume("reference interpreter harness/src/model.rs defines what is needed and what is shared; arguments of std.* calls are not instrumented (library strictness is C10/C13)");
	run.reproduce_known(|k| {
		// reproducers are plain programs: "still failing" = jrsonnet fails although the reference yields a value
		let out = jr::eval(&k.replay, &Opts::default());
		if out.is_err() {
			CaseOut { verdict: Verdict::Known(k.id.clone()), text: k.replay.clone(), nontrivial: true, classes: vec![] }
		} else {
			CaseOut::pass(k.replay.clone(), true)
		}
	});
	run.enumerate("sharing-families", 8, sharing_case);
	run.enumerate("native-call-defaults", NATIVE_CALL_DEFAULTS.len() as u64, native_default_case);
	let n = run.tier.pick(240_000, 2_400_000);
	run.explore("programs", n, 20..=400, |src| {
		let p = gen_eval::program(src, 5, 60, 2, 0, 0);
		check(run, &p.closed())
	});
	let n = run.tier.pick(60_000, 600_000);
	run.explore("programs-large", n, 100..=900, |src| {
		let p = gen_eval::program(src, 7, 150, 1, 0, 0);
		check(run, &p.closed())
	});
	let n = run.tier.pick(8_000, 100_000);
	run.explore("tailstrict", n, 20..=400, |src| tailstrict_case(run, src));
	for p in ["LocalRhs", "Arg", "Default", "Branch", "ShortCircuitRhs", "Element", "Field", "ObjLocal"] {
		run.require_class(&format!("unneeded:{p}"), 40);
	}
}

pub fn replay(run: &Run, stage: &str, tape: Option<&[u16]>, v: &Value) -> Option<CaseOut> {
	match (stage, tape) {
		("programs", Some(t)) => Some(check(run, &gen_eval::program(&mut Src::new(t), 5, 60, 2, 0, 0).closed())),
		("programs-large", Some(t)) => Some(check(run, &gen_eval::program(&mut Src::new(t), 7, 150, 1, 0, 0).closed())),
		("tailstrict", Some(t)) => Some(tailstrict_case(run, &mut Src::new(t))),
		("sharing-families", _) => Some(sharing_case(v["extra"]["index"].as_u64()?)),
		("native-call-defaults", _) => Some(native_default_case(v["extra"]["index"].as_u64()?)),
		_ => None,
	}
}
