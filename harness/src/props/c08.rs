//! C08 — arrays behave identically whatever their internal representation.
//! Oracle: a model that evaluates the same composition on plain vectors of JSON values.
use serde_json::{json, Value};

use crate::{
	core::{CaseOut, Run, Src},
	jr::{self, Outcome},
};

#[derive(Clone, Debug)]
pub enum Op {
	Lit(Vec<Value>),
	Range(i64, i64),
	MakeIdx(u32),
	MakeConst(u32),
	Chars(String),
	Split(String, String),
	Bytes(String),
	ObjValues(Vec<(String, Value)>, bool),
	ObjKV(Vec<(String, Value)>),
	ImportBin(Vec<u8>),
	Comp(Box<Op>),
	CompIf(Box<Op>),
	Repeat(Box<Op>, u32),
	Concat(Box<Op>, Box<Op>),
	Slice(Box<Op>, Option<i64>, Option<i64>, Option<u32>, bool),
	Reverse(Box<Op>),
	Map(Box<Op>),
	MapIdx(Box<Op>),
	Filter(Box<Op>),
	FilterMap(Box<Op>),
	FlatMap(Box<Op>),
	Flatten(Vec<Op>),
	RemoveAt(Box<Op>, u32),
	Prune(Box<Op>),
	LocalAlias(Box<Op>),
}

fn is_num(v: &Value) -> bool {
	v.is_number()
}

impl Op {
	/// model: contents of the array this expression denotes
	pub fn model(&self) -> Vec<Value> {
		use Op::*;
		match self {
			Lit(v) => v.clone(),
			Range(a, b) => (*a..=*b).map(Value::from).collect(),
			MakeIdx(n) => (0..*n as i64).map(|i| Value::from(i * 2)).collect(),
			MakeConst(n) => (0..*n).map(|_| Value::from("c")).collect(),
			Chars(s) => s.chars().map(|c| Value::from(c.to_string())).collect(),
			Split(s, sep) => s.split(sep.as_str()).map(Value::from).collect(),
			Bytes(s) => s.bytes().map(Value::from).collect(),
			ObjValues(f, _) => {
				let mut f = f.clone();
				f.sort_by(|a, b| a.0.cmp(&b.0));
				f.into_iter().map(|(_, v)| v).collect()
			}
			ObjKV(f) => {
				let mut f = f.clone();
				f.sort_by(|a, b| a.0.cmp(&b.0));
				f.into_iter().map(|(k, v)| json!({"key": k, "value": v})).collect()
			}
			ImportBin(b) => b.iter().map(|b| Value::from(*b)).collect(),
			Comp(a) | LocalAlias(a) => a.model(),
			CompIf(a) | Filter(a) => a.model().into_iter().filter(is_num).collect(),
			Repeat(a, n) => {
				let m = a.model();
				let mut out = vec![];
				for _ in 0..*n {
					out.extend(m.iter().cloned());
				}
				out
			}
			Concat(a, b) => {
				let mut m = a.model();
				m.extend(b.model());
				m
			}
			Slice(a, s, e, t, _) => {
				let m = a.model();
				let len = m.len() as i64;
				let fix = |p: Option<i64>, d: i64| match p {
					None => d,
					Some(v) if v < 0 => (len + v).max(0),
					Some(v) => v.min(len),
				};
				let s = fix(*s, 0);
				let e = fix(*e, len);
				let t = t.unwrap_or(1) as usize;
				if s >= e {
					vec![]
				} else {
					m[s as usize..e as usize].iter().step_by(t).cloned().collect()
				}
			}
			Reverse(a) => {
				let mut m = a.model();
				m.reverse();
				m
			}
			Map(a) => a.model().into_iter().map(|v| json!([v])).collect(),
			MapIdx(a) => a.model().into_iter().enumerate().map(|(i, v)| json!([i, v])).collect(),
			FilterMap(a) => a.model().into_iter().filter(is_num).map(|v| json!([v])).collect(),
			FlatMap(a) => a.model().into_iter().flat_map(|v| vec![v.clone(), v]).collect(),
			Flatten(ops) => ops.iter().flat_map(|o| o.model()).collect(),
			RemoveAt(a, i) => {
				let mut m = a.model();
				if (*i as usize) < m.len() {
					m.remove(*i as usize);
				}
				m
			}
			Prune(a) => a.model().into_iter().filter_map(prune).collect(),
		}
	}
	pub fn text(&self) -> String {
		use Op::*;
		let opt = |o: &Option<i64>| o.map(|v| v.to_string()).unwrap_or_default();
		let optn = |o: &Option<i64>| o.map(|v| v.to_string()).unwrap_or("null".into());
		match self {
			Lit(v) => Value::Array(v.clone()).to_string(),
			Range(a, b) => format!("std.range({a}, {b})"),
			MakeIdx(n) => format!("std.makeArray({n}, function(i) i * 2)"),
			MakeConst(n) => format!("std.makeArray({n}, function(i) 'c')"),
			Chars(s) => format!("std.stringChars({})", Value::from(s.as_str())),
			Split(s, sep) => format!("std.split({}, {})", Value::from(s.as_str()), Value::from(sep.as_str())),
			Bytes(s) => format!("std.encodeUTF8({})", Value::from(s.as_str())),
			ObjValues(f, all) => format!("std.objectValues{}({})", if *all { "All" } else { "" }, obj_text(f)),
			ObjKV(f) => format!("std.objectKeysValues({})", obj_text(f)),
			ImportBin(b) => format!("(importbin '{}')", blob_name(b)),
			Comp(a) => format!("[x for x in {}]", a.text()),
			CompIf(a) => format!("[x for x in {} if std.type(x) == 'number']", a.text()),
			Repeat(a, n) => format!("std.repeat({}, {n})", a.text()),
			Concat(a, b) => format!("({} + {})", a.text(), b.text()),
			Slice(a, s, e, t, sugar) => {
				if *sugar {
					let t = t.map(|t| format!(":{t}")).unwrap_or_default();
					format!("{}[{}:{}{}]", a.text_postfix(), opt(s), opt(e), t)
				} else {
					format!(
						"std.slice({}, {}, {}, {})",
						a.text(),
						optn(s),
						optn(e),
						t.map(|t| t.to_string()).unwrap_or("null".into())
					)
				}
			}
			Reverse(a) => format!("std.reverse({})", a.text()),
			Map(a) => format!("std.map(function(x) [x], {})", a.text()),
			MapIdx(a) => format!("std.mapWithIndex(function(i, x) [i, x], {})", a.text()),
			Filter(a) => format!("std.filter(function(x) std.type(x) == 'number', {})", a.text()),
			FilterMap(a) => format!("std.filterMap(function(x) std.type(x) == 'number', function(x) [x], {})", a.text()),
			FlatMap(a) => format!("std.flatMap(function(x) [x, x], {})", a.text()),
			Flatten(ops) => format!("std.flattenArrays([{}])", ops.iter().map(|o| o.text()).collect::<Vec<_>>().join(", ")),
			RemoveAt(a, i) => format!("std.removeAt({}, {i})", a.text()),
			Prune(a) => format!("std.prune({})", a.text()),
			LocalAlias(a) => format!("(local a = {}; a)", a.text()),
		}
	}
	fn text_postfix(&self) -> String {
		let t = self.text();
		match self {
			Op::Lit(_) | Op::Concat(..) | Op::LocalAlias(_) | Op::ImportBin(_) | Op::Comp(_) | Op::CompIf(_) => {
				if t.starts_with('(') || t.starts_with('[') {
					t
				} else {
					format!("({t})")
				}
			}
			_ => t,
		}
	}
	pub fn depth(&self) -> usize {
		use Op::*;
		match self {
			Comp(a) | CompIf(a) | Repeat(a, _) | Slice(a, ..) | Reverse(a) | Map(a) | MapIdx(a) | Filter(a) | FilterMap(a)
			| FlatMap(a) | RemoveAt(a, _) | Prune(a) | LocalAlias(a) => 1 + a.depth(),
			Concat(a, b) => 1 + a.depth().max(b.depth()),
			Flatten(ops) => 1 + ops.iter().map(|o| o.depth()).max().unwrap_or(0),
			_ => 1,
		}
	}
	pub fn kind(&self) -> &'static str {
		use Op::*;
		match self {
			Lit(_) => "lit",
			Range(..) => "range",
			MakeIdx(_) | MakeConst(_) => "makeArray",
			Chars(_) => "chars",
			Split(..) => "split",
			Bytes(_) => "bytes",
			ObjValues(..) => "objectValues",
			ObjKV(_) => "objectKeysValues",
			ImportBin(_) => "importbin",
			Comp(_) | CompIf(_) => "comprehension",
			Repeat(..) => "repeat",
			Concat(..) => "concat",
			Slice(..) => "slice",
			Reverse(_) => "reverse",
			Map(_) => "map",
			MapIdx(_) => "mapWithIndex",
			Filter(_) => "filter",
			FilterMap(_) => "filterMap",
			FlatMap(_) => "flatMap",
			Flatten(_) => "flattenArrays",
			RemoveAt(..) => "removeAt",
			Prune(_) => "prune",
			LocalAlias(_) => "alias",
		}
	}
	fn inner_kinds(&self, out: &mut Vec<&'static str>) {
		use Op::*;
		match self {
			Comp(a) | CompIf(a) | Repeat(a, _) | Slice(a, ..) | Reverse(a) | Map(a) | MapIdx(a) | Filter(a) | FilterMap(a)
			| FlatMap(a) | RemoveAt(a, _) | Prune(a) | LocalAlias(a) => {
				out.push(a.kind());
				a.inner_kinds(out);
			}
			Concat(a, b) => {
				out.push(a.kind());
				out.push(b.kind());
				a.inner_kinds(out);
				b.inner_kinds(out);
			}
			Flatten(ops) => {
				for o in ops {
					out.push(o.kind());
					o.inner_kinds(out);
				}
			}
			_ => {}
		}
	}
	fn blobs(&self, out: &mut Vec<(String, Vec<u8>)>) {
		use Op::*;
		match self {
			ImportBin(b) => out.push((blob_name(b), b.clone())),
			Comp(a) | CompIf(a) | Repeat(a, _) | Slice(a, ..) | Reverse(a) | Map(a) | MapIdx(a) | Filter(a) | FilterMap(a)
			| FlatMap(a) | RemoveAt(a, _) | Prune(a) | LocalAlias(a) => a.blobs(out),
			Concat(a, b) => {
				a.blobs(out);
				b.blobs(out);
			}
			Flatten(ops) => ops.iter().for_each(|o| o.blobs(out)),
			_ => {}
		}
	}
}

fn blob_name(b: &[u8]) -> String {
	format!("b{}.bin", b.iter().map(|x| format!("{x:02x}")).collect::<String>())
}

fn prune(v: Value) -> Option<Value> {
	match v {
		Value::Null => None,
		Value::Array(a) => {
			let a: Vec<Value> = a.into_iter().filter_map(prune).collect();
			if a.is_empty() {
				None
			} else {
				Some(Value::Array(a))
			}
		}
		Value::Object(o) => {
			let o: serde_json::Map<String, Value> = o.into_iter().filter_map(|(k, v)| prune(v).map(|v| (k, v))).collect();
			if o.is_empty() {
				None
			} else {
				Some(Value::Object(o))
			}
		}
		v => Some(v),
	}
}

fn obj_text(f: &[(String, Value)]) -> String {
	let mut s = String::from("{");
	for (k, v) in f {
		s.push_str(&format!("{}: {}, ", Value::from(k.as_str()), v));
	}
	s.push('}');
	s
}

const NON_COPYING: &[&str] = &["slice", "reverse", "repeat", "range", "map", "mapWithIndex", "concat", "objectValues", "objectKeysValues", "chars", "bytes", "importbin", "makeArray"];

// ---------- generators ----------

fn elem(src: &mut Src) -> Value {
	match src.weighted(&[5, 2, 1, 1, 1]) {
		0 => Value::from(src.range(0, 9)),
		1 => Value::from(*src.pick(&["a", "b", "é", "", "😀"])),
		2 => json!([src.range(0, 3)]),
		3 => Value::Null,
		_ => json!({"k": src.range(0, 3)}),
	}
}

fn base(src: &mut Src, allow_big: bool) -> Op {
	let w_big = if allow_big { 2 } else { 0 };
	match src.weighted(&[6, 3, 2, 2, 2, 2, 2, 2, 1, w_big]) {
		0 => {
			let n = *src.pick(&[0usize, 1, 2, 3, 5]);
			Op::Lit((0..n).map(|_| elem(src)).collect())
		}
		1 => {
			let a = src.range(-3, 4);
			let b = a + src.range(-2, 6);
			Op::Range(a, b)
		}
		2 => {
			if src.chance(1, 2) {
				Op::MakeIdx(src.range(0, 5) as u32)
			} else {
				Op::MakeConst(src.range(0, 5) as u32)
			}
		}
		3 => Op::Chars((*src.pick(&["", "a", "abc", "aé😀b", "hello"])).to_owned()),
		4 => Op::Split((*src.pick(&["a,b,c", "", ",", "a", "é,,😀", "a,b,"])).to_owned(), ",".to_owned()),
		5 => Op::Bytes((*src.pick(&["", "a", "abc", "é😀", "hello"])).to_owned()),
		6 => {
			let n = src.range(0, 4) as usize;
			let keys = ["b", "a", "d", "c"];
			Op::ObjValues((0..n).map(|i| (keys[i].to_owned(), elem(src))).collect(), src.chance(1, 2))
		}
		7 => {
			let n = src.range(0, 3) as usize;
			let keys = ["z", "y", "x"];
			Op::ObjKV((0..n).map(|i| (keys[i].to_owned(), elem(src))).collect())
		}
		8 => {
			let n = src.range(0, 5) as usize;
			Op::ImportBin((0..n).map(|_| src.below(256) as u8).collect())
		}
		_ => match src.below(4) {
			0 => Op::Range(1, *src.pick(&[998i64, 999, 1000, 1001])),
			1 => Op::MakeIdx(*src.pick(&[998u32, 999, 1000, 1001])),
			2 => Op::Lit((0..*src.pick(&[999usize, 1000, 1001])).map(|i| Value::from(i as i64)).collect()),
			_ => Op::Repeat(Box::new(Op::Lit(vec![json!(1), json!("a")])), *src.pick(&[499u32, 500, 501])),
		},
	}
}

fn slice_bound(src: &mut Src) -> Option<i64> {
	if src.chance(3, 4) {
		Some(src.range(-7, 7))
	} else {
		None
	}
}

fn unary(src: &mut Src, inner: Op) -> Op {
	let b = Box::new(inner);
	match src.weighted(&[8, 4, 3, 2, 2, 2, 1, 1, 2, 1, 1, 1, 1]) {
		0 => {
			let s = slice_bound(src);
			let e = slice_bound(src);
			let t = if src.chance(1, 2) { Some(src.range(1, 3) as u32) } else { None };
			Op::Slice(b, s, e, t, src.chance(2, 3))
		}
		1 => Op::Reverse(b),
		2 => Op::Repeat(b, src.range(0, 3) as u32),
		3 => Op::Map(b),
		4 => Op::MapIdx(b),
		5 => Op::Comp(b),
		6 => Op::CompIf(b),
		7 => Op::Filter(b),
		8 => Op::FlatMap(b),
		9 => Op::FilterMap(b),
		10 => {
			let n = b.model().len();
			if n == 0 {
				Op::LocalAlias(b)
			} else {
				let i = src.below(n) as u32;
				Op::RemoveAt(b, i)
			}
		}
		11 => Op::Prune(b),
		_ => Op::LocalAlias(b),
	}
}

pub fn gen(src: &mut Src, depth: usize, allow_big: bool) -> Op {
	if depth <= 1 {
		return base(src, allow_big);
	}
	match src.weighted(&[1, 6, 2, 1]) {
		0 => base(src, allow_big),
		1 => {
			let inner = gen(src, depth - 1, allow_big);
			unary(src, inner)
		}
		2 => {
			let a = gen(src, depth - 1, allow_big);
			let b = gen(src, depth - 1, allow_big);
			Op::Concat(Box::new(a), Box::new(b))
		}
		_ => {
			let n = src.range(0, 3) as usize;
			Op::Flatten((0..n).map(|_| gen(src, depth - 1, false)).collect())
		}
	}
}

// ---------- exhaustive small scope ----------

fn enum_bases() -> Vec<Op> {
	vec![
		Op::Lit(vec![]),
		Op::Lit(vec![json!(7)]),
		Op::Lit(vec![json!(1), json!("a")]),
		Op::Lit(vec![json!(1), json!(2), json!(3)]),
		Op::Lit(vec![json!(0), json!("b"), json!(null), json!([1]), json!(4)]),
		Op::Range(2, 5),
		Op::Range(3, 2),
		Op::MakeIdx(3),
		Op::Chars("aé😀".to_owned()),
		Op::Bytes("hé".to_owned()),
		Op::ObjValues(vec![("b".to_owned(), json!(1)), ("a".to_owned(), json!("x"))], false),
		Op::ObjKV(vec![("k".to_owned(), json!(1))]),
		Op::Split("a,b,c".to_owned(), ",".to_owned()),
	]
}
fn enum_unaries() -> Vec<Box<dyn Fn(Op) -> Op + Sync + Send>> {
	let mut v: Vec<Box<dyn Fn(Op) -> Op + Sync + Send>> = vec![];
	let bounds = [None, Some(-2i64), Some(-1), Some(0), Some(1), Some(2), Some(4)];
	for s in bounds {
		for e in bounds {
			for t in [None, Some(2u32)] {
				for sugar in [true, false] {
					// std.slice form only for a subset, to keep the enumeration bounded
					if !sugar && (t.is_some() || s.is_none()) {
						continue;
					}
					v.push(Box::new(move |a| Op::Slice(Box::new(a), s, e, t, sugar)));
				}
			}
		}
	}
	v.push(Box::new(|a| Op::Slice(Box::new(a), Some(1), None, Some(3), true)));
	v.push(Box::new(|a| Op::Reverse(Box::new(a))));
	for n in 0..3 {
		v.push(Box::new(move |a| Op::Repeat(Box::new(a), n)));
	}
	v.push(Box::new(|a| Op::Map(Box::new(a))));
	v.push(Box::new(|a| Op::MapIdx(Box::new(a))));
	v.push(Box::new(|a| Op::Comp(Box::new(a))));
	v.push(Box::new(|a| Op::CompIf(Box::new(a))));
	v.push(Box::new(|a| Op::Filter(Box::new(a))));
	v.push(Box::new(|a| Op::FlatMap(Box::new(a))));
	v.push(Box::new(|a| Op::Concat(Box::new(a), Box::new(Op::Lit(vec![json!(9)])))));
	v.push(Box::new(|a| Op::Concat(Box::new(Op::Range(8, 9)), Box::new(a))));
	v.push(Box::new(|a| Op::Flatten(vec![a.clone(), a])));
	v.push(Box::new(|a| Op::LocalAlias(Box::new(a))));
	v
}

// ---------- the check ----------

fn probe_indices(len: usize) -> Vec<i64> {
	let l = len as i64;
	let mut v: Vec<i64> = if len <= 12 {
		(-2..=l + 2).collect()
	} else {
		let mut v: Vec<i64> = (-2..=2).collect();
		v.extend(l - 2..=l + 2);
		v.extend(997..=1002);
		v.push(l / 2);
		v
	};
	v.sort();
	v.dedup();
	v
}

fn has_obj(v: &Value) -> bool {
	match v {
		Value::Object(_) => true,
		Value::Array(a) => a.iter().any(has_obj),
		_ => false,
	}
}
fn has_null_or_bool(v: &Value) -> bool {
	match v {
		Value::Null | Value::Bool(_) => true,
		Value::Array(a) => a.iter().any(has_null_or_bool),
		_ => false,
	}
}

pub fn check(op: &Op) -> CaseOut {
	let m = op.model();
	let len = m.len();
	let expr = op.text();
	let lit = Value::Array(m.clone()).to_string();
	let idx = probe_indices(len);
	let comparable = !m.iter().any(|v| has_obj(v) || has_null_or_bool(v));
	let sub = [(0i64, 1i64), (1, 3), (-2, 100), (2, 1)];
	let mut prog = String::new();
	prog.push_str(&format!("local v = {expr};\nlocal lit = {lit};\n{{\n"));
	prog.push_str("  len: verif.try(std.length(v)),\n");
	prog.push_str(&format!(
		"  idx: [verif.tryj(v[i]) for i in {}],\n",
		Value::Array(idx.iter().map(|i| Value::from(*i)).collect()).to_string()
	));
	prog.push_str("  whole: verif.tryj(v),\n");
	prog.push_str("  eq1: verif.try(v == lit),\n  eq2: verif.try(lit == v),\n  ne: verif.try(v != lit),\n");
	if comparable {
		prog.push_str("  lt: verif.try(v < lit),\n  le: verif.try(v <= lit),\n  cmp: verif.try(std.__compare(lit, v)),\n");
	}
	prog.push_str("  cat: verif.tryj(v + []),\n  cat2: verif.tryj([] + v + [0]),\n");
	prog.push_str("  ts: verif.try(std.toString(v) == std.toString(lit)),\n");
	prog.push_str("  tsc: verif.try('' + v == '' + lit),\n");
	prog.push_str("  comp: verif.tryj([x for x in v]),\n");
	prog.push_str("  fold: verif.tryj(std.foldl(function(a, x) a + [x], v, [])),\n");
	prog.push_str("  foldr: verif.tryj(std.foldr(function(x, a) a + [x], v, [])),\n");
	prog.push_str("  sl: verif.tryj(v[::]),\n");
	prog.push_str("  rev: verif.tryj(std.reverse(v)),\n");
	prog.push_str("  rr: verif.tryj(std.reverse(std.reverse(v))),\n");
	prog.push_str("  map: verif.tryj(std.map(function(x) x, v)),\n");
	prog.push_str("  mj: verif.try(std.manifestJsonMinified(v) == std.manifestJsonMinified(lit)),\n");
	prog.push_str("  type: verif.try(std.type(v)),\n  isarr: verif.try(std.isArray(v)),\n");
	if len > 0 {
		prog.push_str("  count: verif.try(std.count(v, lit[0])),\n  member: verif.try(std.member(v, lit[0])),\n  find: verif.tryj(std.find(lit[0], v)),\n");
		prog.push_str("  last: verif.tryj(v[std.length(v) - 1]),\n");
	}
	prog.push_str(&format!(
		"  sub: [verif.try(std.length(v[p[0]:p[1]])) for p in {}],\n",
		Value::Array(sub.iter().map(|(a, b)| json!([a, b])).collect()).to_string()
	));
	prog.push_str("  sub2: verif.tryj(v[1:][0:2]),\n");
	prog.push_str("}\n");

	let mut kinds = vec![];
	op.inner_kinds(&mut kinds);
	let mut classes: Vec<String> = vec![format!("outer:{}", op.kind())];
	for k in &kinds {
		classes.push(format!("inner:{k}"));
	}
	let nontrivial = op.depth() >= 2 && (NON_COPYING.contains(&op.kind()) || kinds.iter().any(|k| NON_COPYING.contains(k)));

	let mut opts = jr::Opts::default();
	op.blobs(&mut opts.files);
	let out = jr::eval(&prog, &opts);
	let text = format!("{expr}   // model: {}", if len <= 12 { lit.clone() } else { format!("<{len} elements>") });
	let got: Value = match &out {
		Outcome::Val(s) => match serde_json::from_str(s) {
			Ok(v) => v,
			Err(e) => return CaseOut::fail(text, format!("probe program output is not JSON: {e}")).classes(classes),
		},
		o => return CaseOut::fail(text, format!("probe program did not evaluate: {}", o.short())).classes(classes),
	};
	let problems: std::cell::RefCell<Vec<String>> = std::cell::RefCell::new(vec![]);
	let ok_val = |v: &Value| -> Option<Value> {
		if v[0] == json!(true) {
			Some(v[1].clone())
		} else {
			None
		}
	};
	let okj = |v: &Value| -> Option<Value> {
		if v[0] == json!(true) {
			v[1].as_str().and_then(|s| serde_json::from_str(s).ok())
		} else {
			None
		}
	};
	let expect = |name: &str, got: Option<Value>, want: Value, raw: &Value| {
		if got.as_ref() != Some(&want) {
			problems.borrow_mut().push(format!("{name}: expected {want}, got {raw}"));
		}
	};
	expect("std.length(v)", ok_val(&got["len"]), json!(len), &got["len"]);
	for (k, i) in idx.iter().enumerate() {
		let g = &got["idx"][k];
		if *i >= 0 && (*i as usize) < len {
			expect(&format!("v[{i}]"), okj(g), m[*i as usize].clone(), g);
		} else {
			if g[0] != json!(false) {
				problems.borrow_mut().push(format!("v[{i}] with length {len}: expected an error, got {g}"));
			}
			classes.push(format!("oob:{}", if *i < 0 { "neg" } else if *i as usize == len { "len" } else { "beyond" }));
		}
	}
	let whole = Value::Array(m.clone());
	for name in ["whole", "cat", "comp", "fold", "sl", "rr", "map"] {
		expect(name, okj(&got[name]), whole.clone(), &got[name]);
	}
	let mut cat2 = m.clone();
	cat2.push(json!(0));
	expect("[] + v + [0]", okj(&got["cat2"]), Value::Array(cat2), &got["cat2"]);
	let mut rev = m.clone();
	rev.reverse();
	expect("std.reverse(v)", okj(&got["rev"]), Value::Array(rev.clone()), &got["rev"]);
	expect("foldr", okj(&got["foldr"]), Value::Array(rev), &got["foldr"]);
	for name in ["eq1", "eq2", "ts", "tsc", "mj", "isarr"] {
		expect(name, ok_val(&got[name]), json!(true), &got[name]);
	}
	expect("v != lit", ok_val(&got["ne"]), json!(false), &got["ne"]);
	if comparable {
		expect("v < lit", ok_val(&got["lt"]), json!(false), &got["lt"]);
		expect("v <= lit", ok_val(&got["le"]), json!(true), &got["le"]);
		expect("std.__compare(lit, v)", ok_val(&got["cmp"]), json!(0), &got["cmp"]);
	}
	expect("std.type(v)", ok_val(&got["type"]), json!("array"), &got["type"]);
	if len > 0 {
		let c = m.iter().filter(|x| **x == m[0]).count();
		expect("std.count(v, lit[0])", ok_val(&got["count"]), json!(c), &got["count"]);
		expect("std.member(v, lit[0])", ok_val(&got["member"]), json!(true), &got["member"]);
		let f: Vec<Value> = m.iter().enumerate().filter(|(_, x)| **x == m[0]).map(|(i, _)| json!(i)).collect();
		expect("std.find(lit[0], v)", okj(&got["find"]), Value::Array(f), &got["find"]);
		expect("v[std.length(v)-1]", okj(&got["last"]), m[len - 1].clone(), &got["last"]);
	}
	for (k, (a, b)) in sub.iter().enumerate() {
		let want = Op::Slice(Box::new(Op::Lit(m.clone())), Some(*a), Some(*b), None, true).model().len();
		expect(&format!("std.length(v[{a}:{b}])"), ok_val(&got["sub"][k]), json!(want), &got["sub"][k]);
	}
	let s1 = Op::Slice(Box::new(Op::Slice(Box::new(Op::Lit(m.clone())), Some(1), None, None, true)), Some(0), Some(2), None, true).model();
	expect("v[1:][0:2]", okj(&got["sub2"]), Value::Array(s1), &got["sub2"]);

	let problems = problems.into_inner();
	if problems.is_empty() {
		let mut c = CaseOut::pass(text, nontrivial);
		c.classes = classes;
		c
	} else {
		CaseOut::fail(text, problems.join("\n")).classes(classes)
	}
}

/// Arrays with one element that fails when evaluated: an operation that does not need the elements keeps the length
/// and the positions of the plain array; the healthy elements are readable, the failing one fails at *its* index.
/// (operation with `@A` for the array, mapping from the plain contents to the expected contents)
type Remap = fn(Vec<Option<i64>>) -> Vec<Option<i64>>;
const LAZY_ELEMENT_OPS: &[(&str, Remap)] = &[
	("@A", |v| v),
	("std.filter(function(x) true, @A)", |v| v),
	("std.filter(function(x) true, @A)[1:]", |v| v[1..].to_vec()),
	("std.filterMap(function(x) true, function(x) x, @A)", |v| v),
	("@A + []", |v| v),
	("[] + @A + [40]", |v| [v, vec![Some(40)]].concat()),
	("@A[0:3]", |v| v),
	("@A[::1]", |v| v),
	("@A[::2]", |v| vec![v[0], v[2]]),
	("std.slice(@A, 1, 3, 1)", |v| v[1..].to_vec()),
	("std.reverse(@A)", |v| v.into_iter().rev().collect()),
	("std.repeat(@A, 2)", |v| [v.clone(), v].concat()),
	("[x for x in @A]", |v| v),
	("[x for x in @A if true]", |v| v),
	("std.makeArray(3, function(i) @A[i])", |v| v),
	("std.mapWithIndex(function(i, x) x, @A)", |v| v),
	("std.map(function(x) x, @A)", |v| v),
	("std.flattenArrays([@A, [40]])", |v| [v, vec![Some(40)]].concat()),
	// (std.flatMap evaluates the elements it is given: recorded under C10 as the eager-library-functions finding)
	("std.removeAt(@A, 0)", |v| v[1..].to_vec()),
	("std.objectValues({ a: @A[0], b: @A[1], c: @A[2] })", |v| v),
	("std.reverse(std.filter(function(x) true, std.reverse(@A)))", |v| v),
];
fn lazy_element_case(i: u64) -> CaseOut {
	let (op, remap) = LAZY_ELEMENT_OPS[(i / 3) as usize];
	let bad = (i % 3) as usize;
	let plain: Vec<Option<i64>> = (0..3).map(|k| if k == bad { None } else { Some(10 * (k as i64 + 1)) }).collect();
	let arr = format!("[{}]", plain.iter().map(|x| x.map(|v| v.to_string()).unwrap_or("error 'boom'".to_owned())).collect::<Vec<_>>().join(", "));
	let expr = op.replace("@A", &arr);
	let want = remap(plain);
	let mut problems = vec![];
	match jr::eval(&format!("std.length({expr})"), &jr::Opts::default()) {
		Outcome::Val(v) if v == want.len().to_string() => {}
		other => problems.push(format!("std.length: expected {}, got {}", want.len(), other.short())),
	}
	for (k, w) in want.iter().enumerate() {
		let got = jr::eval(&format!("({expr})[{k}]"), &jr::Opts::default());
		match (w, &got) {
			(Some(v), Outcome::Val(g)) if *g == v.to_string() => {}
			(None, Outcome::Err(_, m)) if m.contains("boom") => {}
			_ => problems.push(format!("[{k}]: expected {}, got {}", w.map(|v| v.to_string()).unwrap_or("the element's own error".into()), got.short())),
		}
	}
	match jr::eval(&format!("({expr})[{}]", want.len()), &jr::Opts::default()) {
		Outcome::Err(_, m) if !m.contains("boom") => {}
		other => problems.push(format!("[{}] (one past the end): expected an index error, got {}", want.len(), other.short())),
	}
	if problems.is_empty() {
		CaseOut::pass(expr, true).class("failing-element")
	} else {
		CaseOut::fail(expr, problems.join("\n"))
	}
}

pub fn run(run: &Run) {
	run.set_rule("compositions of array-producing operations (literal, comprehension, range, makeArray, repeat, +, slices in both syntaxes, reverse, map, mapWithIndex, filter, filterMap, flatMap, flattenArrays, objectValues[All], objectKeysValues, stringChars, split, encodeUTF8, importbin, removeAt, prune) decided against a plain-vector model; each case probes length, every index from -2 to len+2 (value or error), ==, <, +, toString, manifest, iteration, fold, reverse, count/member/find, sub-slices. Non-trivial = depth>=2 containing at least one non-copying view; distinct by expression text.");
	run.assume("the model (harness/src/props/c08.rs) transcribes the documented meaning of each operation on plain vectors; negative slice bounds count from the end (jrsonnet/go-jsonnet behaviour)");
	// stage 0: regression seeds, one per repaired defect (known_findings.jsonl, status "fixed")
	let regs = regressions();
	run.enumerate("regressions", regs.len() as u64, |i| check(&regs[i as usize]));
	run.enumerate("failing-elements", 3 * LAZY_ELEMENT_OPS.len() as u64, lazy_element_case);
	// stage 1: exhaustive depth 2 (+ base) over a fixed parameter grid
	let bases = enum_bases();
	let un = enum_unaries();
	let nb = bases.len() as u64;
	let nu = un.len() as u64;
	run.enumerate("exhaustive-depth2", nb * nu, |i| {
		let b = bases[(i % nb) as usize].clone();
		let u = &un[(i / nb) as usize];
		check(&u(b))
	});
	run.enumerate("exhaustive-depth3", nb * nu * nu, |i| {
		let b = bases[(i % nb) as usize].clone();
		let u1 = &un[((i / nb) % nu) as usize];
		let u2 = &un[(i / nb / nu) as usize];
		check(&u2(u1(b)))
	});
	run.exhaustive.store(true, std::sync::atomic::Ordering::SeqCst);
	run.note("exhaustive stages enumerate bases x unary-op grid completely (depth 2 and 3); random stages are sampled");
	// stage 2: random deeper trees
	let n = run.tier.pick(160_000, 1_500_000);
	run.explore("random-depth4", n, 8..=60, |src| {
		let op = gen(src, 4, false);
		check(&op)
	});
	let n = run.tier.pick(8_000, 80_000);
	run.explore("random-threshold", n, 8..=40, |src| {
		let op = gen(src, 3, true);
		check(&op)
	});
	for k in ["slice", "reverse", "repeat", "range", "map", "mapWithIndex", "concat", "objectValues", "chars", "bytes", "comprehension", "flatMap"] {
		run.require_class(&format!("outer:{k}"), 30);
		run.require_class(&format!("inner:{k}"), 50);
	}
	run.require_class("oob:len", 100);
	run.require_class("oob:beyond", 100);
}

fn regressions() -> Vec<Op> {
	let l = |v: Vec<i64>| Op::Lit(v.into_iter().map(Value::from).collect());
	vec![
		Op::Slice(Box::new(l(vec![0, 1, 2, 3, 4])), Some(1), Some(3), None, true),
		Op::Slice(Box::new(Op::Range(0, 9)), Some(2), Some(8), Some(3), false),
		Op::Reverse(Box::new(l(vec![1]))),
		Op::Reverse(Box::new(l(vec![]))),
		Op::Repeat(Box::new(l(vec![1, 2])), 2),
		Op::Repeat(Box::new(l(vec![])), 3),
		Op::Slice(Box::new(Op::Reverse(Box::new(l(vec![0, 0, 0, 0, 0])))), None, None, None, false),
	]
}

pub fn replay(_run: &Run, stage: &str, tape: Option<&[u16]>, v: &Value) -> Option<CaseOut> {
	match (stage, tape) {
		("random-depth4", Some(t)) => Some(check(&gen(&mut Src::new(t), 4, false))),
		("random-threshold", Some(t)) => Some(check(&gen(&mut Src::new(t), 3, true))),
		("regressions", _) => {
			let i = v["extra"]["index"].as_u64()?;
			Some(check(regressions().get(i as usize)?))
		}
		("failing-elements", _) => Some(lazy_element_case(v["extra"]["index"].as_u64()?)),
		("exhaustive-depth2", _) => {
			let i = v["extra"]["index"].as_u64()?;
			let bases = enum_bases();
			let un = enum_unaries();
			let nb = bases.len() as u64;
			Some(check(&un[(i / nb) as usize](bases[(i % nb) as usize].clone())))
		}
		("exhaustive-depth3", _) => {
			let i = v["extra"]["index"].as_u64()?;
			let bases = enum_bases();
			let un = enum_unaries();
			let nb = bases.len() as u64;
			let nu = un.len() as u64;
			Some(check(&un[(i / nb / nu) as usize](un[((i / nb) % nu) as usize](bases[(i % nb) as usize].clone()))))
		}
		_ => None,
	}
}
