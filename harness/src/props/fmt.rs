//! C19 — formatting preserves the program; C20 — formatting is idempotent and never crashes.
use jrsonnet_formatter::{format, FormatOptions};

use crate::{
	ast::{self, canon_ir, CanonOpts, Ex, Printer},
	core::{guarded, CaseOut, Run, Src, Verdict},
	gen_syn::{self, RandTrivia, SynCfg},
	jr,
	props::c06,
};

pub const INDENTS: [u8; 3] = [0, 2, 4];

#[derive(Debug, Clone, PartialEq)]
pub enum FmtOut {
	Ok(String),
	/// declined with a diagnostic (rendered text)
	Declined(String),
	Panic(String),
}

/// library call, exactly as cmds/jrsonnet-fmt drives it: on error the diagnostic is built and rendered
pub fn fmt_once(input: &str, indent: u8) -> FmtOut {
	let r = guarded(|| match format(input, &FormatOptions { indent }) {
		Ok(v) => Ok(v),
		Err(e) => {
			let snippet = e.build();
			Err(hi_doc::source_to_ansi(&snippet))
		}
	});
	match r {
		Ok(Ok(v)) => FmtOut::Ok(v),
		Ok(Err(d)) => FmtOut::Declined(d),
		Err(p) => FmtOut::Panic(p),
	}
}
/// what `jrsonnet-fmt` prints: trimmed output plus one newline
pub fn cli_form(s: &str) -> String {
	let mut t = s.trim().to_owned();
	t.push('\n');
	t
}

// ---------------------------------------------------------------- known findings

pub const K20_HIDOC: &str = "C20-hi-doc-anomaly-fixer-panic";
pub const K20_DPRINT_DEBUG: &str = "C20-debug-build-panic-on-newline-or-tab-in-token";
pub const K19_TAILSTRICT: &str = "C19-tailstrict-dropped";
pub const K19_COMMENTS: &str = "C19-comments-inside-expressions-dropped";
pub const K19_OBJCOMP_SPECS: &str = "C19-object-comprehension-specs-glued";

fn panic_known(run: &Run, p: &str) -> Option<String> {
	for (id, needle) in PANIC_SIGS {
		if run.known_listed(id) && p.contains(needle) {
			return Some((*id).to_owned());
		}
	}
	None
}
/// (id, panic location / message) — a recorded panic is identified by where it is raised
const PANIC_SIGS: &[(&str, &str)] = &[
	(K20_HIDOC, "hi-doc-0.3.0/src/anomaly_fixer.rs"),
	(K20_HIDOC_ROPE, "annotated-string-0.3.0/src/annotated_range.rs"),
	(K20_DPRINT_DEBUG, "Debug panic! Found a"),
];
pub const K20_HIDOC_ROPE: &str = "C20-hi-doc-annotation-splice-panic";

/// run the repository's own (debug-profile) jrsonnet-fmt on a text; used for the recorded debug-only panic
pub fn cli_fmt(text: &str) -> (Option<i32>, String, String) {
	let out = std::process::Command::new("/verif/target/repo/debug/jrsonnet-fmt").arg("-e").arg("--").arg(text).output();
	match out {
		Ok(o) => (o.status.code(), String::from_utf8_lossy(&o.stdout).into_owned(), String::from_utf8_lossy(&o.stderr).into_owned()),
		Err(e) => (None, String::new(), format!("spawn failed: {e}")),
	}
}
fn cli_crash_case(run: &Run, text: &str) -> CaseOut {
	let (code, _out, err) = cli_fmt(text);
	match code {
		Some(0) | Some(1) => CaseOut::pass(format!("jrsonnet-fmt -e {text:?}"), true),
		Some(101) => match panic_known(run, &err) {
			Some(k) => CaseOut { verdict: Verdict::Known(k), text: format!("jrsonnet-fmt -e {text:?}"), nontrivial: true, classes: vec![] },
			None => CaseOut::fail(format!("jrsonnet-fmt -e {text:?}"), format!("jrsonnet-fmt panicked: {}", err.lines().rev().take(4).collect::<Vec<_>>().join(" | "))),
		},
		other => CaseOut::fail(format!("jrsonnet-fmt -e {text:?}"), format!("jrsonnet-fmt ended abnormally: {other:?} {err}")),
	}
}

// ---------------------------------------------------------------- C20 (a): crash freedom on arbitrary text

fn crash_case(run: &Run, text: &str, classes: Vec<String>) -> CaseOut {
	let mut problems = vec![];
	let mut known = None;
	let rowan_errs = c06::parse_rowan(text);
	let mut nontrivial = text.split_whitespace().count() >= 3;
	for indent in INDENTS {
		match fmt_once(text, indent) {
			FmtOut::Ok(_) => {
				if let Ok(n) = rowan_errs {
					if n > 0 {
						problems.push(format!("indent {indent}: formatter produced output although its own parser reports {n} errors"));
					}
				}
				nontrivial = true;
			}
			FmtOut::Declined(d) => {
				if d.trim().is_empty() {
					problems.push(format!("indent {indent}: declined without any diagnostic text"));
				}
			}
			FmtOut::Panic(p) => match panic_known(run, &p) {
				Some(k) => known = Some(k),
				None => problems.push(format!("indent {indent}: formatter panicked: {p}")),
			},
		}
	}
	let mut out = if !problems.is_empty() {
		CaseOut::fail(text.to_owned(), problems.join("\n"))
	} else if let Some(k) = known {
		CaseOut { verdict: Verdict::Known(k), text: text.to_owned(), nontrivial, classes: vec![] }
	} else {
		CaseOut::pass(text.to_owned(), nontrivial)
	};
	out.classes = classes;
	out
}

pub fn unicode_text(src: &mut Src) -> String {
	let n = src.range(0, 24);
	let mut s = String::new();
	for _ in 0..n {
		match src.weighted(&[6, 3, 2, 2, 1]) {
			0 => s.push_str(*src.pick(c06::FULL_ALPHABET)),
			1 => s.push(*src.pick(&[' ', '\n', '\t', '\r'])),
			2 => s.push(*src.pick(&['é', '😀', '\u{0}', '\u{feff}', '\u{2028}', '"', '\'', '\\', '@', '|', '/', '*', '#'])),
			3 => s.push_str(*src.pick(&["/*", "*/", "//", "|||", "|||\n", "\"abc", "'abc", "@\"", "1e", "1.", "0x", "/* c */", "# c\n"])),
			_ => s.push(char::from_u32(src.range(1, 0x2fff) as u32).unwrap_or('x')),
		}
		if src.chance(1, 2) {
			s.push(' ');
		}
	}
	s
}

pub fn repo_fmt_inputs() -> Vec<(String, String)> {
	let mut v = vec![];
	for dir in ["/repo/crates/jrsonnet-formatter/src/tests", "/repo/crates/jrsonnet-peg-parser/src/tests"] {
		if let Ok(rd) = std::fs::read_dir(dir) {
			let mut files: Vec<_> = rd.filter_map(|e| e.ok()).map(|e| e.path()).filter(|p| p.extension().is_some_and(|x| x == "jsonnet")).collect();
			files.sort();
			for f in files {
				if let Ok(s) = std::fs::read_to_string(&f) {
					v.push((f.file_name().unwrap().to_string_lossy().into_owned(), s));
				}
			}
		}
	}
	v
}

// ---------------------------------------------------------------- generated valid programs (shared by C19, C20(b))

pub struct Prog {
	pub tree: Ex,
	pub text: String,
	pub comments: Vec<String>,
	pub decorated: bool,
	/// comments may sit at arbitrary token boundaries (a failure that disappears when all comments are removed is
	/// then attributed to the recorded comment-handling findings)
	pub anywhere: bool,
}
impl Prog {
	fn without_comments(&self) -> Option<Prog> {
		if comment_payloads(&self.text).is_empty() {
			return None;
		}
		let text = c06::lex_tokens(&self.text).iter().map(|t| t.1.as_str()).collect::<Vec<_>>().join(" ");
		Some(Prog { tree: self.tree.clone(), text, comments: vec![], decorated: false, anywhere: false })
	}
}

/// Exclusion by construction: the constructs of recorded findings are rewritten out of generated programs (each
/// rewrite is counted), but only while the finding is listed in known_findings.jsonl.
fn strip_unsupported(run: &Run, e: &mut Ex) {
	match e {
		Ex::Un(op, _) if *op == ast::UnOp::Plus && run.known_listed(c06::K_ROWAN_PLUS) => {
			*op = ast::UnOp::Neg;
			run.count_excluded(c06::K_ROWAN_PLUS);
		}
		Ex::ObjComp { specs, .. } if specs.len() > 1 && run.known_listed(K19_OBJCOMP_SPECS) => {
			specs.truncate(1);
			run.count_excluded(K19_OBJCOMP_SPECS);
		}
		Ex::Call(_, _, _, ts) if *ts && run.known_listed(K19_TAILSTRICT) => {
			*ts = false;
			run.count_excluded(K19_TAILSTRICT);
		}
		_ => {}
	}
	map_children(e, &mut |c| strip_unsupported(run, c));
}

pub fn map_children(e: &mut Ex, f: &mut dyn FnMut(&mut Ex)) {
	use Ex::*;
	fn params(ps: &mut Vec<ast::Param>, f: &mut dyn FnMut(&mut Ex)) {
		for p in ps {
			if let Some(d) = &mut p.default {
				f(d);
			}
		}
	}
	fn bind(b: &mut ast::Bind, f: &mut dyn FnMut(&mut Ex)) {
		match b {
			ast::Bind::Var(_, e) => f(e),
			ast::Bind::Func(_, ps, e) => {
				params(ps, f);
				f(e);
			}
		}
	}
	fn comps(cs: &mut Vec<ast::Comp>, f: &mut dyn FnMut(&mut Ex)) {
		for c in cs {
			match c {
				ast::Comp::For(_, e) | ast::Comp::If(e) => f(e),
			}
		}
	}
	match e {
		Arr(v) => v.iter_mut().for_each(|x| f(x)),
		ArrComp(x, cs) => {
			f(x);
			comps(cs, f);
		}
		Obj(ms) => {
			for m in ms {
				match m {
					ast::Member::Field { name, params: ps, value, .. } => {
						if let ast::FieldName::Dyn(n) = name {
							f(n);
						}
						if let Some(ps) = ps {
							params(ps, f);
						}
						f(value);
					}
					ast::Member::Local(b) => bind(b, f),
					ast::Member::Assert(c, m) => {
						f(c);
						if let Some(m) = m {
							f(m);
						}
					}
				}
			}
		}
		ObjComp { pre, name, value, post, specs, .. } => {
			pre.iter_mut().for_each(|b| bind(b, f));
			f(name);
			f(value);
			post.iter_mut().for_each(|b| bind(b, f));
			comps(specs, f);
		}
		ObjExt(a, b) | Index(a, b) | Bin(_, a, b) => {
			f(a);
			f(b);
		}
		Dot(a, _) | SuperIndex(a) | InSuper(a) | Un(_, a) | Error(a) | Paren(a) => f(a),
		Slice(a, x, y, z) => {
			f(a);
			for o in [x, y, z].into_iter().flatten() {
				f(o);
			}
		}
		Call(fun, args, named, _) => {
			f(fun);
			args.iter_mut().for_each(|x| f(x));
			named.iter_mut().for_each(|(_, x)| f(x));
		}
		Func(ps, b) => {
			params(ps, f);
			f(b);
		}
		Local(bs, b) => {
			bs.iter_mut().for_each(|x| bind(x, f));
			f(b);
		}
		If(c, t, el) => {
			f(c);
			f(t);
			if let Some(el) = el {
				f(el);
			}
		}
		Assert(c, m, r) => {
			f(c);
			if let Some(m) = m {
				f(m);
			}
			f(r);
		}
		_ => {}
	}
}

/// deco: 0 = no comments, 1 = comments at any token boundary, 2 = comments only where list items start
pub fn gen_prog(run: &Run, src: &mut Src, depth: usize, deco: u8) -> Prog {
	let decorate = deco != 0;
	let cfg = SynCfg { max_depth: depth, ..SynCfg::default() };
	let mut tree = gen_syn::expr(src, &cfg, depth);
	strip_unsupported(run, &mut tree);
	let trailing = src.chance(1, 3);
	let (text, comments) = {
		let mut tr = RandTrivia { src, comments: decorate, counter: 0, emitted: vec![], items_only: deco == 2 };
		let mut p = Printer::new(&mut tr);
		p.trailing_commas = trailing;
		p.expr(&tree, 0, true);
		let out = p.out;
		(out, tr.emitted)
	};
	Prog { tree, text, comments, decorated: decorate, anywhere: deco == 1 }
}

/// Comments where the formatter documents support for them: the program is first laid out by the formatter itself,
/// then own-line comments are inserted in front of items of groups that are already spread over several lines.
pub fn item_comment_prog(run: &Run, src: &mut Src, depth: usize) -> Option<Prog> {
	let base = gen_prog(run, src, depth, 0);
	let FmtOut::Ok(laid_out) = fmt_once(&base.text, 2) else { return None };
	let mut out = String::new();
	let mut in_block = false;
	let mut prev_trim = String::new();
	let mut n = 0;
	let mut comments = vec![];
	for line in laid_out.lines() {
		let t = line.trim();
		let starts_item = !in_block
			&& !prev_trim.is_empty()
			&& (prev_trim.ends_with('(') || prev_trim.ends_with('[') || prev_trim.ends_with('{') || prev_trim.ends_with(','))
			&& !t.is_empty()
			&& !t.starts_with("for ")
			&& !t.starts_with("if ");
		if starts_item && src.chance(1, 3) {
			n += 1;
			let indent: String = line.chars().take_while(|c| *c == ' ' || *c == '\t').collect();
			let w = format!("c{n} note");
			let c = match src.below(9) {
				0 | 1 => format!("// {w}"),
				2 => format!("# {w}"),
				3 => format!("/* {w} */"),
				// comment texts that begin or end with further copies of their own marker
				4 => format!("## {w}"),
				5 => format!("//// {w} ////"),
				6 => format!("/// {w}"),
				7 => format!("#{w}#"),
				_ => format!("//{w}"),
			};
			out.push_str(&indent);
			out.push_str(&c);
			out.push('\n');
			comments.push(w);
		}
		out.push_str(line);
		out.push('\n');
		// text blocks: from a line ending in ||| (or |||-) to the line that is just |||
		if !in_block && (t.ends_with("|||") || t.ends_with("|||-")) && !t.starts_with("|||") {
			in_block = true;
		} else if in_block && t.starts_with("|||") {
			in_block = false;
		}
		prev_trim = if in_block { String::new() } else { t.to_owned() };
	}
	if comments.is_empty() {
		return None;
	}
	Some(Prog { tree: base.tree, text: out, comments, decorated: true, anywhere: false })
}

/// `//` / `#` comments at the end of a line, after the comma of a non-last member of an array or object that is
/// otherwise written on one line (the line feed that ends the comment is the only line break near the member)
pub fn inline_comment_prog(run: &Run, src: &mut Src, depth: usize) -> Option<Prog> {
	let base = gen_prog(run, src, depth, 0);
	let toks = c06::lex_tokens(&base.text);
	let mut out = String::new();
	let mut stack: Vec<char> = vec![];
	let mut comments = vec![];
	for (i, t) in toks.iter().enumerate() {
		let s = t.1.as_str();
		match s {
			"(" | "[" | "{" => stack.push(s.chars().next().unwrap()),
			")" | "]" | "}" => {
				stack.pop();
			}
			_ => {}
		}
		out.push_str(s);
		let next = toks.get(i + 1).map(|x| x.1.as_str()).unwrap_or("");
		let member_separator = s == "," && matches!(stack.last(), Some('[') | Some('{')) && !matches!(next, "]" | "}" | "" | "for" | "if");
		if member_separator && src.chance(1, 3) {
			let w = format!("c{} note", comments.len() + 1);
			match src.below(5) {
				0 | 1 => {
					out.push_str(" // ");
					out.push_str(&w);
					out.push('\n');
					comments.push(w);
				}
				2 | 3 => {
					out.push_str(" # ");
					out.push_str(&w);
					out.push('\n');
					comments.push(w);
				}
				_ => {
					// a block comment that starts on the member's line and ends on a later one
					out.push_str(" /* ");
					out.push_str(&w);
					out.push_str("\n   tail */\n");
					comments.push(format!("{w} tail"));
				}
			}
		} else {
			out.push(' ');
		}
	}
	if comments.is_empty() {
		return None;
	}
	Some(Prog { tree: base.tree, text: out, comments, decorated: true, anywhere: false })
}

/// A generated program (no comments) whose tokens are separated by a drawn mixture of blanks, line feeds and *empty
/// lines* — also directly inside brackets of empty arrays / objects / argument lists.
pub fn blank_line_prog(run: &Run, src: &mut Src, depth: usize) -> Prog {
	let base = gen_prog(run, src, depth, 0);
	let toks = c06::lex_tokens(&base.text);
	let mut out = String::new();
	for (i, t) in toks.iter().enumerate() {
		if i > 0 {
			out.push_str(match src.weighted(&[6, 2, 2, 1]) {
				0 => " ",
				1 => "\n",
				2 => "\n\n",
				_ => "\n\n\n",
			});
		}
		out.push_str(&t.1);
	}
	out.push('\n');
	Prog { tree: base.tree, text: out, comments: vec![], decorated: false, anywhere: false }
}

/// payloads of the comments of a text, in order (delimiters stripped, white space collapsed)
pub fn comment_payloads(text: &str) -> Vec<String> {
	use jrsonnet_lexer::SyntaxKind::*;
	let mut out = vec![];
	for l in jrsonnet_lexer::Lexer::new(text) {
		let t = l.text;
		let payload = match l.kind {
			// exactly the delimiter is stripped: `## heading`, `//// banner ////` keep the rest of their markers as text
			SINGLE_LINE_SLASH_COMMENT => t.strip_prefix("//").unwrap_or(t),
			SINGLE_LINE_HASH_COMMENT => t.strip_prefix('#').unwrap_or(t),
			MULTI_LINE_COMMENT => {
				let b = t.strip_prefix("/*").unwrap_or(t);
				b.strip_suffix("*/").unwrap_or(b)
			}
			_ => continue,
		};
		let words: Vec<&str> = payload.split_whitespace().filter(|w| !w.chars().all(|c| c == '*')).collect();
		out.push(words.join(" "));
	}
	out
}

fn canon_of(code: &str) -> Result<String, String> {
	jrsonnet_ir_parser::parse(code, &jrsonnet_ir_parser::ParserSettings { source: c06::src_of(code) })
		.map(|e| canon_ir(&e, CanonOpts { merge_function_sugar: true, ..CanonOpts::default() }))
		.map_err(|e| format!("{} @{}", e.message, e.location.offset))
}

// ---------------------------------------------------------------- C19

/// repair-based signature: remove the construct a recorded finding is about from the *input* and re-decide
fn c19_known(run: &Run, text: &str, indent: u8, problems_kind: &[&str]) -> Option<String> {
	// tailstrict dropped: with every `tailstrict` token removed from the input, the tree problem disappears
	if problems_kind.contains(&"tree") && run.is_known(K19_TAILSTRICT) && text.contains("tailstrict") {
		let toks = c06::lex_tokens(text);
		let stripped: String = toks.iter().filter(|t| t.1 != "tailstrict").map(|t| t.1.as_str()).collect::<Vec<_>>().join(" ");
		if let (Ok(a), FmtOut::Ok(out)) = (canon_of(&stripped), fmt_once(&stripped, indent)) {
			if canon_of(&out).as_ref() == Ok(&a) {
				return Some(K19_TAILSTRICT.to_owned());
			}
		}
	}
	None
}

pub fn preserve_case(run: &Run, p: &Prog) -> CaseOut {
	let text = &p.text;
	let mut classes: Vec<String> = vec![];
	let mut kinds = vec![];
	p.tree.walk(&mut |e| kinds.push(c06::kind_of(e)));
	kinds.sort();
	kinds.dedup();
	for k in &kinds {
		classes.push(format!("node:{k}"));
	}
	let nontrivial = kinds.len() >= 3;
	let before = match canon_of(text) {
		Ok(c) => c,
		Err(e) => {
			// the evaluator's parser rejects what the generator printed: C06's business, not decided here
			return CaseOut::discard(text.clone(), &format!("input rejected by the default parser: {e}")).classes(classes);
		}
	};
	let want_comments = comment_payloads(text);
	let mut problems: Vec<String> = vec![];
	let mut kinds_of_problem: Vec<&str> = vec![];
	let mut known: Option<String> = None;
	let mut declined = 0;
	for indent in INDENTS {
		match fmt_once(text, indent) {
			FmtOut::Declined(_) => declined += 1,
			FmtOut::Panic(pn) => match panic_known(run, &pn) {
				Some(k) => known = Some(k),
				None => problems.push(format!("indent {indent}: formatter panicked on a valid program: {pn}")),
			},
			FmtOut::Ok(out) => {
				let mut local_problems: Vec<(&str, String)> = vec![];
				match canon_of(&out) {
					Err(e) => local_problems.push(("reject", format!("indent {indent}: the evaluator's parser rejects the formatter's output: {e}\n--- output:\n{out}"))),
					Ok(after) => {
						if after != before {
							local_problems.push(("tree", format!("indent {indent}: formatted text denotes a different program\n  before: {before}\n  after:  {after}\n--- output:\n{out}")));
						}
					}
				}
				let got_comments = comment_payloads(&out);
				if got_comments != want_comments {
					local_problems.push(("comments", format!("indent {indent}: comments changed: input has {want_comments:?}, output has {got_comments:?}\n--- output:\n{out}")));
				}
				if !local_problems.is_empty() {
					let ks: Vec<&str> = local_problems.iter().map(|p| p.0).collect();
					let mut explained = false;
					if ks == ["comments"] && run.is_known(K19_COMMENTS) && comments_subsequence(&got_comments, &want_comments) {
						// recorded finding: comments are lost (never invented, reordered or altered)
						known = Some(K19_COMMENTS.to_owned());
						explained = true;
					} else if let Some(k) = c19_known(run, text, indent, &ks) {
						if !ks.contains(&"comments") || (run.is_known(K19_COMMENTS) && comments_subsequence(&got_comments, &want_comments)) {
							known = Some(k);
							explained = true;
						}
					}
					if !explained {
						for (k, m) in local_problems {
							kinds_of_problem.push(k);
							problems.push(m);
						}
					}
				}
			}
		}
	}
	if declined == 3 {
		classes.push("declined".to_owned());
	}
	// recorded finding: comments away from list-item boundaries are mishandled.  Signature: the same program
	// without any comment is handled correctly.
	if !problems.is_empty() && p.anywhere && run.is_known(K19_COMMENTS) {
		if let Some(bare) = p.without_comments() {
			if matches!(preserve_case(run, &bare).verdict, Verdict::Pass | Verdict::Known(_)) {
				return CaseOut { verdict: Verdict::Known(K19_COMMENTS.to_owned()), text: text.clone(), nontrivial, classes };
			}
		}
	}
	let mut out = if !problems.is_empty() {
		CaseOut::fail(text.clone(), problems.join("\n"))
	} else if let Some(k) = known {
		CaseOut { verdict: Verdict::Known(k), text: text.clone(), nontrivial, classes: vec![] }
	} else {
		CaseOut::pass(text.clone(), nontrivial)
	};
	out.classes = classes;
	out
}

fn comments_subsequence(got: &[String], want: &[String]) -> bool {
	let mut it = want.iter();
	got.iter().all(|g| it.any(|w| w == g))
}

// ---------------------------------------------------------------- C20 (b): fixed point

pub const K20_LAYOUT: &str = "C20-second-pass-changes-layout";

/// same tokens (ignoring commas directly before a closing bracket) and same comments: the two texts differ in
/// white space, line breaks and trailing commas only
fn layout_only_difference(a: &str, b: &str) -> bool {
	layout_tokens(a) == layout_tokens(b) && comment_payloads(a) == comment_payloads(b)
}
/// Narrowing of the recorded layout finding: it is about groups *with items* whose line breaking follows the previous
/// pass.  When the only places where the two passes differ in "line break or not" lie between an opening bracket and
/// the closing bracket that directly follows it (an empty array / object), the difference is not that finding: the
/// unchanged tree prints `[ ]` / `{ }` the same way on every pass.  (An empty *argument or parameter list* written
/// over two lines, `f(⏎)`, does re-flow to `f()` on the unchanged tree and stays under the recorded finding.)
/// Decided only for comment-free texts whose tokens can be located literally.
fn only_empty_groups_reflowed(a: &str, b: &str) -> bool {
	if !comment_payloads(a).is_empty() {
		return false;
	}
	let (ta, tb) = (layout_tokens(a), layout_tokens(b));
	if ta != tb {
		return false;
	}
	let gaps = |text: &str, toks: &[String]| -> Option<Vec<bool>> {
		let mut pos = 0;
		let mut out = vec![];
		for t in toks {
			let i = text[pos..].find(t.as_str())?;
			out.push(text[pos..pos + i].contains('\n'));
			pos += i + t.len();
		}
		Some(out)
	};
	let (Some(ga), Some(gb)) = (gaps(a, &ta), gaps(b, &tb)) else { return false };
	let diff: Vec<usize> = (0..ga.len()).filter(|i| ga[*i] != gb[*i]).collect();
	!diff.is_empty() && diff.iter().all(|i| *i > 0 && matches!((ta[*i - 1].as_str(), ta[*i].as_str()), ("[", "]") | ("{", "}")))
}
fn layout_tokens(s: &str) -> Vec<String> {
	{
		let t: Vec<String> = c06::lex_tokens(s).into_iter().map(|t| t.1).collect();
		let mut out = vec![];
		for (i, x) in t.iter().enumerate() {
			if x == "," && t.get(i + 1).is_some_and(|n| matches!(n.as_str(), ")" | "]" | "}")) {
				continue;
			}
			if x.starts_with("|||") {
				// a text block re-indented with its surroundings denotes the same string: compare it without the
				// indentation that its first content line fixes
				let mut lines = x.split('\n');
				let head = lines.next().unwrap_or("").to_owned();
				let rest: Vec<&str> = lines.collect();
				let ind: String = rest.iter().find(|l| !l.trim().is_empty()).map(|l| l.chars().take_while(|c| *c == ' ' || *c == '\t').collect()).unwrap_or_default();
				let mut norm = head;
				for (k, l) in rest.iter().enumerate() {
					norm.push('\n');
					if k + 1 == rest.len() {
						norm.push_str(l.trim_start());
					} else {
						norm.push_str(l.strip_prefix(ind.as_str()).unwrap_or(l));
					}
				}
				out.push(norm);
				continue;
			}
			out.push(x.clone());
		}
		out
	}
}
/// does repeated formatting reach a fixed point within `n` more passes?
fn converges(start: &str, indent: u8, n: usize) -> bool {
	let mut cur = start.to_owned();
	for _ in 0..n {
		match fmt_once(&cur, indent) {
			FmtOut::Ok(o) => {
				let next = cli_form(&o);
				if next == cur {
					return true;
				}
				cur = next;
			}
			_ => return false,
		}
	}
	false
}

pub fn fixpoint_case(run: &Run, p: &Prog) -> CaseOut {
	let text = &p.text;
	let mut problems = vec![];
	let mut known = None;
	let mut nontrivial = false;
	for indent in INDENTS {
		match fmt_once(text, indent) {
			FmtOut::Declined(_) => {}
			FmtOut::Panic(pn) => match panic_known(run, &pn) {
				Some(k) => known = Some(k),
				None => problems.push(format!("indent {indent}: formatter panicked on a valid program: {pn}")),
			},
			FmtOut::Ok(out1) => {
				let f1 = cli_form(&out1);
				if f1.lines().count() >= 3 || p.decorated {
					nontrivial = true;
				}
				match fmt_once(&f1, indent) {
					FmtOut::Ok(out2) => {
						let f2 = cli_form(&out2);
						if f2 != f1 {
							// the recorded finding is about re-flowed groups; a second pass that only adds or drops
							// empty lines (every non-empty line unchanged) is not it
							let non_empty = |s: &str| -> Vec<String> { s.lines().filter(|l| !l.trim().is_empty()).map(str::to_owned).collect() };
							let blank_lines_only = non_empty(&f1) == non_empty(&f2);
							if run.is_known(K20_LAYOUT) && !blank_lines_only && !only_empty_groups_reflowed(&f1, &f2) && layout_only_difference(&f1, &f2) && converges(&f2, indent, 4) {
								known = Some(K20_LAYOUT.to_owned());
							} else {
								problems.push(format!("indent {indent}: formatting the formatter's output changed it\n--- first:\n{f1}--- second:\n{f2}"));
							}
						}
					}
					FmtOut::Declined(d) => problems.push(format!("indent {indent}: the formatter declines its own output:\n{f1}--- diagnostic:\n{d}")),
					FmtOut::Panic(pn) => problems.push(format!("indent {indent}: the formatter panics on its own output: {pn}\n{f1}")),
				}
			}
		}
	}
	if !problems.is_empty() && p.anywhere && run.is_known(K20_COMMENTS) {
		if let Some(bare) = p.without_comments() {
			let bare_out = fixpoint_case(run, &bare);
			if std::env::var_os("C20_DEBUG").is_some() {
				let v = match &bare_out.verdict {
					Verdict::Pass => "pass".to_owned(),
					Verdict::Known(k) => format!("known {k}"),
					Verdict::Discard(w) => format!("discard {w}"),
					Verdict::Fail(w) => format!("FAIL {w}"),
				};
				eprintln!("[C20] same program without comments:\n{}\n[C20] verdict: {v}", bare.text);
			}
			if matches!(bare_out.verdict, Verdict::Pass | Verdict::Known(_)) {
				return CaseOut { verdict: Verdict::Known(K20_COMMENTS.to_owned()), text: text.clone(), nontrivial, classes: vec![] };
			}
		}
	}
	if !problems.is_empty() {
		CaseOut::fail(text.clone(), problems.join("\n"))
	} else if let Some(k) = known {
		CaseOut { verdict: Verdict::Known(k), text: text.clone(), nontrivial, classes: vec![] }
	} else {
		CaseOut::pass(text.clone(), nontrivial)
	}
}
pub const K20_COMMENTS: &str = "C20-comments-away-from-item-boundaries";

// ---------------------------------------------------------------- drivers

pub fn run_c20(run: &Run) {
	run.set_rule("(a) crash freedom: token sequences (exhaustive to a length bound, random longer), single-token mutations of valid programs, random Unicode text with comment/string/number fragments, and every prefix of the repository's formatter test inputs; each through format() for indent tabs/2/4 with the diagnostic rendered as the CLI does; panic = violation. (b) fixed point: generated valid programs (plain and comment-decorated) x 3 indents, g(g(x)) == g(x) where g = format + trim + newline (what jrsonnet-fmt prints and --test compares). Non-trivial: (a) >=3 tokens or formatted successfully, (b) output of >=3 lines or with comments.");
	run.assume("'invalid input' is decided by the formatter's own parser; texts where it disagrees with the evaluator's parser are C06's third oracle");
	run.reproduce_known(|k| match k.replay.strip_prefix("cli:") {
		Some(t) => cli_crash_case(run, t),
		None => match k.replay.strip_prefix("fixpoint:") {
			Some(t) => fixpoint_case(run, &Prog { tree: Ex::Null, text: t.to_owned(), comments: vec![], decorated: true, anywhere: true }),
			None => crash_case(run, &k.replay, vec![]),
		},
	});
	let regs = C20_REGRESSIONS;
	run.enumerate("regressions", regs.len() as u64, |i| crash_case(run, regs[i as usize], vec![]));
	let k = c06::ALPHABET.len() as u64;
	let maxlen = run.tier.pick(3u32, 4);
	for len in 1..=maxlen {
		run.enumerate(&format!("crash-exhaustive-tokens-len{len}"), k.pow(len), |mut i| {
			let mut toks = vec![];
			for _ in 0..len {
				toks.push(c06::ALPHABET[(i % k) as usize]);
				i /= k;
			}
			crash_case(run, &toks.join(" "), vec![])
		});
	}
	run.exhaustive.store(true, std::sync::atomic::Ordering::SeqCst);
	run.note(format!("exhaustive: all token sequences of length 0..={maxlen} over {k} tokens and every prefix of the repository's formatter/parser test inputs; other stages sampled"));
	run.enumerate("crash-empty", 3, |i| crash_case(run, ["", " ", "\n"][i as usize], vec!["empty".to_owned()]));
	let inputs = repo_fmt_inputs();
	let mut prefixes: Vec<String> = vec![];
	for (_, s) in &inputs {
		for (i, _) in s.char_indices() {
			prefixes.push(s[..i].to_owned());
		}
		prefixes.push(s.clone());
	}
	run.enumerate("crash-repo-prefixes", prefixes.len() as u64, |i| crash_case(run, &prefixes[i as usize], vec!["repo-prefix".to_owned()]));
	let n = run.tier.pick(400_000, 4_000_000);
	run.explore("crash-random-tokens", n, 5..=16, |src| {
		let len = src.range(4, 16) as usize;
		let toks: Vec<&str> = (0..len).map(|_| *src.pick(c06::FULL_ALPHABET)).collect();
		crash_case(run, &toks.join(" "), vec![])
	});
	let n = run.tier.pick(200_000, 2_000_000);
	run.explore("crash-unicode", n, 4..=60, |src| crash_case(run, &unicode_text(src), vec![]));
	let n = run.tier.pick(200_000, 2_000_000);
	run.explore("crash-mutations", n, 10..=120, |src| {
		let p = gen_prog(run, src, 3, 0);
		let mut toks: Vec<String> = c06::lex_tokens(&p.text).into_iter().map(|t| t.1).collect();
		if toks.is_empty() {
			return CaseOut::discard(p.text, "empty");
		}
		let i = src.below(toks.len());
		match src.below(4) {
			0 => {
				toks.remove(i);
			}
			1 => toks.insert(i, (*src.pick(c06::FULL_ALPHABET)).to_owned()),
			2 => {
				let t = toks[i].clone();
				toks.insert(i, t);
			}
			_ => {
				toks.truncate(i);
			}
		}
		crash_case(run, &toks.join(" "), vec!["mutation".to_owned()])
	});
	let n = run.tier.pick(60_000, 600_000);
	run.explore("fixpoint-plain", n, 10..=250, |src| fixpoint_case(run, &gen_prog(run, src, 4, 0)));
	run.explore("fixpoint-decorated", n, 10..=250, |src| fixpoint_case(run, &gen_prog(run, src, 4, 1)));
	run.explore("fixpoint-blank-lines", n, 10..=250, |src| fixpoint_case(run, &blank_line_prog(run, src, 4)).class("blank-lines"));
	run.explore("fixpoint-item-comments", n, 10..=250, |src| match item_comment_prog(run, src, 4) {
		Some(p) => fixpoint_case(run, &p).class("item-comments"),
		None => CaseOut::discard(String::new(), "no multi-line group to decorate"),
	});
	run.explore("fixpoint-inline-comments", n, 10..=250, |src| match inline_comment_prog(run, src, 4) {
		Some(p) => fixpoint_case(run, &p).class("inline-comments"),
		None => CaseOut::discard(String::new(), "no member separator to decorate"),
	});
	for (name, text) in &inputs {
		let p = Prog { tree: Ex::Null, text: text.clone(), comments: vec![], decorated: true, anywhere: true };
		let out = fixpoint_case(run, &p);
		run.record("fixpoint-repo-inputs", &out);
		if let Verdict::Fail(why) = &out.verdict {
			run.add_violation("fixpoint-repo-inputs", text, &format!("{name}: {why}"), None, serde_json::Value::Null);
		}
	}
}

pub fn run_c19(run: &Run) {
	run.set_rule("generated valid programs covering every construct of the grammar (plain, and decorated with // # /* */ comments at random token boundaries), formatted with indent tabs/2/4. Oracle: declined, or the default parser accepts the output, the span-erased tree (modulo the two documented function-sugar equivalences) is unchanged, and the ordered list of comment payloads is unchanged; a sample is also evaluated before/after. Non-trivial = >=3 distinct construct kinds; distinct by text.");
	run.assume("canonical tree dump in harness/src/ast.rs; comment payload = comment text without delimiters, white space collapsed");
	run.reproduce_known(|k| {
		let p = Prog { tree: Ex::Null, text: k.replay.clone(), comments: vec![], decorated: true, anywhere: true };
		let mut out = preserve_case(run, &p);
		// findings that are excluded by construction have no in-search signature: their own reproducer failing in the
		// recorded way (the glued `xif` clause) is the recorded finding, anything else is a different failure
		if k.id == K19_OBJCOMP_SPECS {
			if let Verdict::Fail(why) = &out.verdict {
				if why.contains("for k in xif k") {
					out.verdict = Verdict::Known(k.id.clone());
				}
			}
		}
		out
	});
	let inputs = repo_fmt_inputs();
	for (name, text) in &inputs {
		let p = Prog { tree: Ex::Null, text: text.clone(), comments: vec![], decorated: true, anywhere: true };
		let out = preserve_case(run, &p);
		run.record("repo-inputs", &out);
		if let Verdict::Fail(why) = &out.verdict {
			run.add_violation("repo-inputs", text, &format!("{name}: {why}"), None, serde_json::Value::Null);
		}
	}
	let n = run.tier.pick(120_000, 1_200_000);
	run.explore("plain", n, 10..=250, |src| preserve_case(run, &gen_prog(run, src, 4, 0)));
	run.explore("decorated", n, 10..=250, |src| preserve_case(run, &gen_prog(run, src, 4, 1)));
	run.explore("item-comments", n, 10..=250, |src| match item_comment_prog(run, src, 4) {
		Some(p) => preserve_case(run, &p).class("item-comments"),
		None => CaseOut::discard(String::new(), "no multi-line group to decorate"),
	});
	run.explore("inline-comments", n, 10..=250, |src| match inline_comment_prog(run, src, 4) {
		Some(p) => preserve_case(run, &p).class("inline-comments"),
		None => CaseOut::discard(String::new(), "no member separator to decorate"),
	});
	let n = run.tier.pick(8_000, 80_000);
	run.explore("evaluated", n, 10..=200, |src| eval_case(run, src));
	for k in [
		"node:binary", "node:unary", "node:call", "node:call-named", "node:call-tailstrict", "node:slice", "node:arrcomp", "node:objcomp", "node:objext",
		"node:str-block", "node:str-verbatim", "node:local", "node:assert", "node:function", "node:if", "node:ifelse", "node:import", "node:super",
		"node:insuper", "node:error", "node:index", "node:dot",
	] {
		run.require_class(k, 100);
	}
}

/// evaluation before/after formatting on closed, evaluable programs
fn eval_case(run: &Run, src: &mut Src) -> CaseOut {
	let e = crate::gen_eval::closed_expr(src, 4);
	let text = ast::print(&e);
	let before = jr::eval_default(&text);
	let mut problems = vec![];
	for indent in INDENTS {
		if let FmtOut::Ok(out) = fmt_once(&text, indent) {
			let after = jr::eval_default(&out);
			if after != before {
				problems.push(format!("indent {indent}: evaluation changed: before {} after {}\n--- output:\n{out}", before.short(), after.short()));
			}
		}
	}
	let _ = run;
	if problems.is_empty() {
		CaseOut::pass(text, true).class("evaluated")
	} else {
		CaseOut::fail(text, problems.join("\n"))
	}
}

const C20_REGRESSIONS: &[&str] = &[];

pub fn replay(run: &Run, prop: &str, stage: &str, tape: Option<&[u16]>, v: &serde_json::Value) -> Option<CaseOut> {
	match (prop, stage, tape) {
		("C20", "fixpoint-plain", Some(t)) => Some(fixpoint_case(run, &gen_prog(run, &mut Src::new(t), 4, 0))),
		("C20", "fixpoint-blank-lines", Some(t)) => Some(fixpoint_case(run, &blank_line_prog(run, &mut Src::new(t), 4))),
		("C20", "fixpoint-item-comments", Some(t)) => item_comment_prog(run, &mut Src::new(t), 4).map(|p| fixpoint_case(run, &p)),
		("C20", "fixpoint-decorated", Some(t)) => Some(fixpoint_case(run, &gen_prog(run, &mut Src::new(t), 4, 1))),
		("C20", "fixpoint-inline-comments", Some(t)) => inline_comment_prog(run, &mut Src::new(t), 4).map(|p| fixpoint_case(run, &p)),
		("C20", "fixpoint-repo-inputs", _) => {
			let p = Prog { tree: Ex::Null, text: v["case"].as_str()?.to_owned(), comments: vec![], decorated: true, anywhere: true };
			Some(fixpoint_case(run, &p))
		}
		("C20", _, _) => Some(crash_case(run, v["case"].as_str()?, vec![])),
		("C19", "plain", Some(t)) => Some(preserve_case(run, &gen_prog(run, &mut Src::new(t), 4, 0))),
		("C19", "item-comments", Some(t)) => item_comment_prog(run, &mut Src::new(t), 4).map(|p| preserve_case(run, &p)),
		("C19", "decorated", Some(t)) => Some(preserve_case(run, &gen_prog(run, &mut Src::new(t), 4, 1))),
		("C19", "inline-comments", Some(t)) => inline_comment_prog(run, &mut Src::new(t), 4).map(|p| preserve_case(run, &p)),
		("C19", "evaluated", Some(t)) => Some(eval_case(run, &mut Src::new(t))),
		("C19", _, _) => {
			let p = Prog { tree: Ex::Null, text: v["case"].as_str()?.to_owned(), comments: vec![], decorated: true, anywhere: true };
			Some(preserve_case(run, &p))
		}
		_ => None,
	}
}
