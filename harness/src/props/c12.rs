//! C12 — std.format and the % operator implement printf-style formatting.
//!
//! Two references that must first agree with each other:
//!  R1  a transcription of the documented `std.format` algorithm of Jsonnet's std.jsonnet (`r1`, below),
//!  R2  CPython's own `%` operator, reached through the sidecar `/verif/harness/oracle_c12.py` (one process per
//!      batch of thousands of cases).
//! A case on which they disagree is discarded and counted.  Outside the part of the mini-language that Jsonnet took
//! over from Python unchanged (`#o`, `%s` of non-strings, `%%` with width/flags, booleans, object argument without
//! mapping keys) R1 decides those codes alone, while Python still checks every other code of the same string (see
//! `Case::for_python`).  Fractions under o/x/X/c, negative, fractional or null `*` arguments and std.toString of
//! numbers that implementations print differently are discarded.  jrsonnet has to produce the agreed text through
//! both surface forms (`fmt % v`, `std.format(fmt, v)`), an error where the references report one, never a panic.
//!
//! A failing case is attributed to the smallest set of separately describable deviations (QUIRKS, PANICS) under which
//! the documented algorithm reproduces jrsonnet's answer exactly; such a failure is downgraded to a known finding only
//! if every id of the set is listed with status "known" for C12 in /verif/known_findings.jsonl (reproducer format of
//! such an entry: `{"fmt": "...", "arg": <value encoding of V::enc>}`).
use std::{
	collections::BTreeMap,
	io::Write as _,
	process::{Command, Stdio},
	sync::{
		atomic::{AtomicUsize, Ordering},
		Mutex,
	},
	time::Instant,
};

use serde_json::{json, Value};

use crate::{
	ast,
	core::{hash64, CaseOut, Run, Src, Verdict},
	jr::{self, Opts, Outcome},
	json::{self, J},
};

const SIDECAR: &str = "/verif/harness/oracle_c12.py";
const PYTHON: &str = "/usr/bin/python3";

// ---------------------------------------------------------------------------------------------------------------
// values
// ---------------------------------------------------------------------------------------------------------------

#[derive(Clone, Debug, PartialEq)]
pub enum V {
	Num(f64),
	Str(String),
	Null,
	Bool(bool),
	Arr(Vec<V>),
	Obj(Vec<(String, V)>),
}

fn num_lit(x: f64) -> String {
	if x.is_sign_negative() {
		format!("(-{:?})", -x)
	} else {
		format!("{x:?}")
	}
}
fn str_lit(s: &str) -> String {
	ast::string_literal(s, ast::StrStyle::Double, "")
}

impl V {
	/// Jsonnet source text of the value
	pub fn lit(&self) -> String {
		match self {
			V::Num(x) => num_lit(*x),
			V::Str(s) => str_lit(s),
			V::Null => "null".into(),
			V::Bool(b) => b.to_string(),
			V::Arr(a) => format!("[{}]", a.iter().map(|v| v.lit()).collect::<Vec<_>>().join(", ")),
			V::Obj(f) => {
				if f.is_empty() {
					"{}".into()
				} else {
					format!("{{ {} }}", f.iter().map(|(k, v)| format!("{}: {}", str_lit(k), v.lit())).collect::<Vec<_>>().join(", "))
				}
			}
		}
	}
	/// encoding understood by the sidecar (also used in replay files)
	pub fn enc(&self) -> Value {
		match self {
			V::Num(x) => {
				if x.fract() == 0.0 && !(*x == 0.0 && x.is_sign_negative()) {
					// exact decimal expansion of the double (Rust prints floats exactly)
					json!({ "n": format!("{x:.0}") })
				} else {
					json!({ "d": format!("{x:?}") })
				}
			}
			V::Str(s) => json!({ "s": s }),
			V::Null => Value::Null,
			V::Bool(b) => Value::Bool(*b),
			V::Arr(a) => json!({ "a": a.iter().map(|v| v.enc()).collect::<Vec<_>>() }),
			V::Obj(f) => json!({ "o": f.iter().map(|(k, v)| json!([k, v.enc()])).collect::<Vec<_>>() }),
		}
	}
	pub fn dec(v: &Value) -> Option<V> {
		Some(match v {
			Value::Null => V::Null,
			Value::Bool(b) => V::Bool(*b),
			Value::Object(m) => {
				if let Some(n) = m.get("n") {
					V::Num(n.as_str()?.parse().ok()?)
				} else if let Some(d) = m.get("d") {
					V::Num(d.as_str()?.parse().ok()?)
				} else if let Some(s) = m.get("s") {
					V::Str(s.as_str()?.to_owned())
				} else if let Some(a) = m.get("a") {
					V::Arr(a.as_array()?.iter().map(V::dec).collect::<Option<Vec<_>>>()?)
				} else if let Some(o) = m.get("o") {
					let mut f = vec![];
					for kv in o.as_array()? {
						f.push((kv.get(0)?.as_str()?.to_owned(), V::dec(kv.get(1)?)?));
					}
					V::Obj(f)
				} else {
					return None;
				}
			}
			_ => return None,
		})
	}
}

// ---------------------------------------------------------------------------------------------------------------
// R1: the documented algorithm (std.jsonnet, function `format`)
// ---------------------------------------------------------------------------------------------------------------

/// why R1 stops without a text
#[derive(Clone, Debug, PartialEq)]
pub enum Stop {
	/// the documented algorithm raises an error (category)
	Err(&'static str),
	/// the documented algorithm's answer depends on things this property does not pin down (discard)
	Unspec(&'static str),
}
type R<T> = Result<T, Stop>;

#[derive(Clone, Debug)]
enum Fw {
	Num(f64),
	Star,
}
#[derive(Clone, Debug)]
enum Pr {
	None,
	Num(f64),
	Star,
}
#[derive(Clone, Debug)]
struct PCode {
	mkey: Option<String>,
	alt: bool,
	zero: bool,
	left: bool,
	blank: bool,
	plus: bool,
	fw: Fw,
	prec: Pr,
	/// normalised conversion: d o x e f g c s %
	ctype: char,
	caps: bool,
	/// the letter as written
	letter: char,
	/// position of the code in the format string (code points): index of `%`, index after the conversion letter
	start: usize,
	end: usize,
}
#[derive(Clone, Debug)]
enum Piece {
	Lit(String),
	Code(PCode),
}

const TRUNC: Stop = Stop::Err("truncated format code");

// Deviation models.  R1 is the documented algorithm; with one of these switches on it reproduces one specific,
// separately describable deviation of jrsonnet.  They are used only AFTER a case has failed, to say which recorded
// finding(s) explain the observed answer exactly ("repair-based signature"); they never change an expectation.
const Q_PAD_BYTES: u32 = 1 << 0;
const Q_HEX_ZERO: u32 = 1 << 1;
const Q_I64_SAT: u32 = 1 << 2;
const Q_LENMODS: u32 = 1 << 3;
const Q_EMPTY_KEY: u32 = 1 << 4;
const Q_CHAR_SAT: u32 = 1 << 5;
const Q_STAR_U16: u32 = 1 << 6;
const Q_FMA: u32 = 1 << 7;
const Q_POWI: u32 = 1 << 8;
const QUIRKS: &[(u32, &str, &str)] = &[
	(Q_PAD_BYTES, "C12-width-counts-bytes", "field width padding counts UTF-8 bytes instead of code points (`\"%5s\" % \"é\"` gives 3 spaces)"),
	(Q_HEX_ZERO, "C12-alt-hex-of-zero-loses-prefix", "`%#x` / `%#X` of 0 prints `0` instead of `0x0`, while still reserving room for the prefix"),
	(Q_I64_SAT, "C12-digits-saturate-at-i64", "integer digits are produced through `as i64`: values (and fraction digit blocks) beyond 2^63 print as 9223372036854775807"),
	(Q_LENMODS, "C12-several-length-modifiers-accepted", "any run of h/l/L is skipped (`%lld`), the documented parser and Python skip one"),
	(Q_EMPTY_KEY, "C12-empty-mapping-key-rejected", "`%()s` with a field named \"\" raises 'mapping keys required'"),
	(Q_CHAR_SAT, "C12-char-of-negative-number", "`%c` of a negative number prints U+0000 (saturating `as u32`) instead of raising"),
	(Q_STAR_U16, "C12-width-limited-to-65535", "a width or precision above 65535 (written with digits or given through `*`) raises an error instead of producing the padded text"),
	(Q_POWI, "C12-powi-instead-of-pow", "render_float takes 10^precision from repeated multiplication (`powi`), which is not the correctly rounded power for precisions above 22: the digit block after the point is garbage (`\"%.255g\" % 10`)"),
	(Q_FMA, "C12-fused-multiply-add-rounding", "render_float computes |n| * 10^prec + 0.5 with a fused multiply-add, so the last digit differs from the documented two-step computation (`\"%.17f\" % 0.05` ends in 1)"),];
// Seeded mutants of R1 (plausible implementation mistakes).  After a case has been decided, each mutant is run on it:
// if its answer differs from the agreed expectation, an implementation with that mistake would have failed this case.
// The counts are reported and floored, as a standing measurement of the discriminating power of the generated cases.
const M_ZERO_WITH_LEFT: u32 = 1 << 16;
const M_BLANK_OVER_PLUS: u32 = 1 << 17;
const M_HEX_PREFIX_TWICE: u32 = 1 << 18;
const M_D_PRECISION_IGNORED: u32 = 1 << 19;
const M_EXPONENT_ONE_DIGIT: u32 = 1 << 20;
const M_G_THRESHOLD: u32 = 1 << 21;
const M_RIGHT_TO_LEFT: u32 = 1 << 22;
const M_NO_TOO_MANY_CHECK: u32 = 1 << 23;
const M_CHAR_ANY_LENGTH: u32 = 1 << 24;
const MUTANTS: &[(u32, &str)] = &[
	(M_ZERO_WITH_LEFT, "zero flag honoured together with left"),
	(M_BLANK_OVER_PLUS, "blank flag wins over +"),
	(M_HEX_PREFIX_TWICE, "#x prefix counted twice in the zero padding"),
	(M_D_PRECISION_IGNORED, "precision ignored for %d"),
	(M_EXPONENT_ONE_DIGIT, "exponent of %e printed with one digit minimum"),
	(M_G_THRESHOLD, "%g switches to scientific at exponent > precision instead of >="),
	(M_RIGHT_TO_LEFT, "values consumed right to left"),
	(M_NO_TOO_MANY_CHECK, "'too many values' check removed"),
	(M_CHAR_ANY_LENGTH, "%c accepts strings of any length"),
	(Q_PAD_BYTES, "width measured in bytes"),
];
static KILLS: Mutex<[u64; 10]> = Mutex::new([0; 10]);

thread_local! {
	static ACTIVE_QUIRKS: std::cell::Cell<u32> = const { std::cell::Cell::new(0) };
}
fn quirk(q: u32) -> bool {
	ACTIVE_QUIRKS.with(|c| c.get() & q != 0)
}

fn parse_code(s: &[char], mut i: usize) -> R<(usize, PCode)> {
	// try_parse_mapping_key
	if i >= s.len() {
		return Err(TRUNC);
	}
	let mut mkey = None;
	if s[i] == '(' {
		let mut j = i + 1;
		let mut v = String::new();
		loop {
			if j >= s.len() {
				return Err(TRUNC);
			}
			if s[j] != ')' {
				v.push(s[j]);
				j += 1;
			} else {
				break;
			}
		}
		mkey = Some(v);
		i = j + 1;
	}
	// try_parse_cflags
	let (mut alt, mut zero, mut left, mut blank, mut plus) = (false, false, false, false, false);
	loop {
		if i >= s.len() {
			return Err(TRUNC);
		}
		match s[i] {
			'#' => alt = true,
			'0' => zero = true,
			'-' => left = true,
			' ' => blank = true,
			'+' => plus = true,
			_ => break,
		}
		i += 1;
	}
	// try_parse_field_width
	let field = |mut i: usize| -> R<(usize, Fw)> {
		if i < s.len() && s[i] == '*' {
			return Ok((i + 1, Fw::Star));
		}
		let mut v = 0.0f64;
		loop {
			if i >= s.len() {
				return Err(TRUNC);
			}
			match s[i].to_digit(10) {
				Some(d) if s[i].is_ascii_digit() => {
					v = v * 10.0 + d as f64;
					i += 1;
					if quirk(Q_STAR_U16) && v > 65535.0 {
						return Err(Stop::Err("field width or precision is too large"));
					}
				}
				_ => return Ok((i, Fw::Num(v))),
			}
		}
	};
	let (ni, fw) = field(i)?;
	i = ni;
	// try_parse_precision
	if i >= s.len() {
		return Err(TRUNC);
	}
	let mut prec = Pr::None;
	if s[i] == '.' {
		let (ni, p) = field(i + 1)?;
		i = ni;
		prec = match p {
			Fw::Star => Pr::Star,
			Fw::Num(n) => Pr::Num(n),
		};
	}
	// try_parse_length_modifier: a single h, l or L is skipped
	if i >= s.len() {
		return Err(TRUNC);
	}
	if quirk(Q_LENMODS) {
		while matches!(s[i], 'h' | 'l' | 'L') {
			i += 1;
			if i >= s.len() {
				return Err(TRUNC);
			}
		}
	} else if matches!(s[i], 'h' | 'l' | 'L') {
		i += 1;
	}
	// parse_conv_type
	if i >= s.len() {
		return Err(TRUNC);
	}
	let c = s[i];
	let (ctype, caps) = match c {
		'd' | 'i' | 'u' => ('d', false),
		'o' => ('o', false),
		'x' => ('x', false),
		'X' => ('x', true),
		'e' => ('e', false),
		'E' => ('e', true),
		'f' => ('f', false),
		'F' => ('f', true),
		'g' => ('g', false),
		'G' => ('g', true),
		'c' => ('c', false),
		's' => ('s', false),
		'%' => ('%', false),
		_ => return Err(Stop::Err("unrecognised conversion type")),
	};
	Ok((i + 1, PCode { mkey, alt, zero, left, blank, plus, fw, prec, ctype, caps, letter: c, start: 0, end: i + 1 }))
}

fn parse_codes(fmt: &str) -> R<Vec<Piece>> {
	let s: Vec<char> = fmt.chars().collect();
	let mut out = vec![];
	let mut cur = String::new();
	let mut i = 0;
	while i < s.len() {
		if s[i] == '%' {
			let (ni, mut code) = parse_code(&s, i + 1)?;
			code.start = i;
			out.push(Piece::Lit(std::mem::take(&mut cur)));
			out.push(Piece::Code(code));
			i = ni;
		} else {
			cur.push(s[i]);
			i += 1;
		}
	}
	out.push(Piece::Lit(cur));
	Ok(out)
}

/// every arithmetic result of Jsonnet must be finite
fn ck(x: f64) -> R<f64> {
	if x.is_finite() {
		Ok(x)
	} else {
		Err(Stop::Err("arithmetic overflow"))
	}
}
fn jmod(a: f64, b: f64) -> R<f64> {
	if b == 0.0 {
		return Err(Stop::Err("division by zero"));
	}
	ck(a % b)
}
fn jdiv(a: f64, b: f64) -> R<f64> {
	if b == 0.0 {
		return Err(Stop::Err("division by zero"));
	}
	ck(a / b)
}
fn clen(s: &str) -> usize {
	s.chars().count()
}
const PAD_LIMIT: f64 = 300_000.0;
/// `padding(w, s)`: s repeated while the counter is positive
fn padding(w: f64, ch: char) -> R<String> {
	if w <= 0.0 {
		return Ok(String::new());
	}
	let n = w.ceil();
	if n > PAD_LIMIT {
		return Err(Stop::Unspec("padding beyond the harness limit"));
	}
	Ok(std::iter::repeat(ch).take(n as usize).collect())
}
fn pad_left(s: &str, w: f64, ch: char) -> R<String> {
	Ok(padding(w - clen(s) as f64, ch)? + s)
}

fn sign_str(neg: bool, blank: bool, plus: bool) -> &'static str {
	if neg {
		"-"
	} else if quirk(M_BLANK_OVER_PLUS) && blank {
		" "
	} else if plus {
		"+"
	} else if blank {
		" "
	} else {
		""
	}
}

fn render_int(neg: bool, n: f64, min_chars: f64, min_digits: f64, blank: bool, plus: bool, radix: f64, zero_prefix: &str) -> R<String> {
	let n_ = n.abs();
	let dec = if n_.floor() == 0.0 {
		"0".to_owned()
	} else {
		// aux(n) = if n == 0 then zero_prefix else aux(floor(n / radix)) + (n % radix)
		let mut digits = vec![];
		if quirk(Q_I64_SAT) {
			let mut m = n_.floor() as i64; // saturating
			while m != 0 {
				digits.push((m % radix as i64) as u8);
				m /= radix as i64;
			}
		} else {
			let mut m = n_.floor();
			while m != 0.0 {
				digits.push(jmod(m, radix)? as u8);
				m = jdiv(m, radix)?.floor();
			}
		}
		let mut d = zero_prefix.to_owned();
		for x in digits.iter().rev() {
			d.push((b'0' + *x) as char);
		}
		d
	};
	let zp = min_chars - if neg || blank || plus { 1.0 } else { 0.0 };
	let zp2 = zp.max(min_digits);
	let dec2 = pad_left(&dec, zp2, '0')?;
	Ok(format!("{}{}", sign_str(neg, blank, plus), dec2))
}

fn render_hex(n: f64, min_chars: f64, min_digits: f64, blank: bool, plus: bool, add_zerox: bool, capitals: bool) -> R<String> {
	let numerals: &[u8] = if capitals { b"0123456789ABCDEF" } else { b"0123456789abcdef" };
	let n_ = n.abs();
	let hex = if n_.floor() == 0.0 {
		"0".to_owned()
	} else {
		let mut digits = vec![];
		if quirk(Q_I64_SAT) {
			let mut m = n_.floor() as i64; // saturating
			while m != 0 {
				digits.push(numerals[(m % 16) as usize] as char);
				m /= 16;
			}
		} else {
			let mut m = n_.floor();
			while m != 0.0 {
				digits.push(numerals[jmod(m, 16.0)? as usize] as char);
				m = jdiv(m, 16.0)?.floor();
			}
		}
		digits.iter().rev().collect()
	};
	let show_prefix = add_zerox && !(quirk(Q_HEX_ZERO) && n_.floor() == 0.0);
	let neg = n < 0.0;
	let zp = min_chars - if neg || blank || plus { 1.0 } else { 0.0 } - if add_zerox { if quirk(M_HEX_PREFIX_TWICE) { 4.0 } else { 2.0 } } else { 0.0 };
	let zp2 = zp.max(min_digits);
	let hex2 = format!("{}{}", if show_prefix { if capitals { "0X" } else { "0x" } } else { "" }, pad_left(&hex, zp2, '0')?);
	Ok(format!("{}{}", sign_str(neg, blank, plus), hex2))
}

fn strip_trailing_zero(s: &str) -> String {
	s.trim_end_matches('0').to_owned()
}

fn jsign(x: f64) -> f64 {
	if x > 0.0 {
		1.0
	} else if x < 0.0 {
		-1.0
	} else {
		0.0
	}
}

fn render_float_dec(n: f64, zero_pad: f64, blank: bool, plus: bool, ensure_pt: bool, trailing: bool, prec: f64) -> R<String> {
	let denominator = if quirk(Q_POWI) && prec.fract() == 0.0 && prec.abs() < 100_000.0 { ck(10f64.powi(prec as i32))? } else { ck(10f64.powf(prec))? };
	let numerator = if quirk(Q_FMA) { ck(n.abs().mul_add(denominator, 0.5))? } else { ck(ck(n.abs() * denominator)? + 0.5)? };
	let whole = ck(jsign(n) * jdiv(numerator, denominator)?.floor())?;
	let frac = jmod(numerator.floor(), denominator)?;
	let dot_size = if prec == 0.0 && !ensure_pt { 0.0 } else { 1.0 };
	let zp = zero_pad - prec - dot_size;
	let s = render_int(n < 0.0, whole, zp, 0.0, blank, plus, 10.0, "")?;
	if prec == 0.0 {
		Ok(s + if ensure_pt { "." } else { "" })
	} else if trailing || frac > 0.0 {
		let frac_str = render_int(false, frac, prec, 0.0, false, false, 10.0, "")?;
		Ok(format!("{s}.{}", if !trailing { strip_trailing_zero(&frac_str) } else { frac_str }))
	} else {
		Ok(s)
	}
}

fn exponent_of(n: f64) -> R<f64> {
	if n == 0.0 {
		Ok(0.0)
	} else {
		Ok(jdiv(ck(n.abs().ln())?, 10f64.ln())?.floor())
	}
}

fn render_float_sci(n: f64, zero_pad: f64, blank: bool, plus: bool, ensure_pt: bool, trailing: bool, caps: bool, prec: f64) -> R<String> {
	let exponent = exponent_of(n)?;
	let suff = format!("{}{}", if caps { 'E' } else { 'e' }, render_int(exponent < 0.0, exponent.abs(), if quirk(M_EXPONENT_ONE_DIGIT) { 2.0 } else { 3.0 }, 0.0, false, true, 10.0, "")?);
	let mantissa = if exponent == -324.0 { jdiv(ck(n * 10.0)?, ck(10f64.powf(exponent + 1.0))?)? } else { jdiv(n, ck(10f64.powf(exponent))?)? };
	let zp2 = zero_pad - clen(&suff) as f64;
	Ok(render_float_dec(mantissa, zp2, blank, plus, ensure_pt, trailing, prec)? + &suff)
}

/// std.toString for the values of the domain; numbers only where every Jsonnet implementation prints the same text
fn to_string(v: &V) -> R<String> {
	match v {
		V::Str(s) => Ok(s.clone()),
		_ => manifest(v),
	}
}
fn manifest(v: &V) -> R<String> {
	Ok(match v {
		V::Null => "null".into(),
		V::Bool(b) => b.to_string(),
		V::Num(x) => {
			if x.fract() == 0.0 && x.abs() < 9007199254740992.0 {
				if *x == 0.0 && x.is_sign_negative() {
					"-0".into()
				} else {
					format!("{x:.0}")
				}
			} else if x.abs() < 1e6 && (x * 1024.0).fract() == 0.0 {
				// small dyadic fractions: shortest and 17-digit renderings coincide
				format!("{x}")
			} else {
				return Err(Stop::Unspec("std.toString of this number is not pinned down by C12"));
			}
		}
		V::Str(s) => {
			let mut o = String::new();
			json::write_str(s, &mut o);
			o
		}
		V::Arr(a) => {
			if a.is_empty() {
				"[ ]".into()
			} else {
				let mut parts = vec![];
				for x in a {
					parts.push(manifest(x)?);
				}
				format!("[{}]", parts.join(", "))
			}
		}
		V::Obj(f) => {
			if f.is_empty() {
				"{ }".into()
			} else {
				let mut f: Vec<&(String, V)> = f.iter().collect();
				f.sort_by(|a, b| a.0.cmp(&b.0));
				let mut parts = vec![];
				for (k, x) in f {
					let mut o = String::new();
					json::write_str(k, &mut o);
					parts.push(format!("{o}: {}", manifest(x)?));
				}
				format!("{{{}}}", parts.join(", "))
			}
		}
	})
}

/// lazily evaluated precision argument
#[derive(Clone, Debug)]
enum PrecTh {
	Val(Option<f64>),
	Dyn(V),
	Bad(Stop),
}
impl PrecTh {
	/// `prec_or_null`
	fn force(&self) -> R<Option<f64>> {
		match self {
			PrecTh::Val(v) => Ok(*v),
			PrecTh::Bad(s) => Err(s.clone()),
			PrecTh::Dyn(V::Null) => Ok(None),
			PrecTh::Dyn(V::Num(x)) => {
				if x.fract() != 0.0 || *x < 0.0 {
					Err(Stop::Unspec("fractional or negative * precision"))
				} else {
					Ok(Some(*x))
				}
			}
			PrecTh::Dyn(_) => Err(Stop::Err("precision is not a number")),
		}
	}
}

/// facts collected while R1 walks the codes (classification, applicability of R2)
#[derive(Default, Clone, Debug)]
pub struct Meta {
	pub parsed: bool,
	/// (letter, flags present, width kind, precision kind)
	pub codes: Vec<(char, String, &'static str, &'static str)>,
	/// reason why CPython's operator is not a reference for this case
	pub r2_na: Option<&'static str>,
	/// some flag/width/precision changed the rendered text of its value
	pub matters: bool,
	pub mode: &'static str,
	/// a `*` consumed a number beyond 200000 (the sidecar is told not to allocate that)
	pub star_huge: bool,
	/// per code, in order: where it stands, what it consumed, what R1 rendered, whether R2 is applicable to it
	pub spans: Vec<Span>,
	cur_na: bool,
}
#[derive(Clone, Debug)]
pub struct Span {
	pub start: usize,
	pub end: usize,
	pub text: String,
	pub na: bool,
	/// values consumed from a list argument
	pub vals: Vec<V>,
}
impl Meta {
	fn mark_na(&mut self, why: &'static str) {
		self.r2_na = Some(why);
		self.cur_na = true;
	}
}

fn need_num(val: &V, meta: &mut Meta) -> R<f64> {
	match val {
		V::Num(x) => Ok(*x),
		other => {
			if matches!(other, V::Bool(_)) {
				meta.mark_na("boolean given to a numeric conversion (Python's bool-is-int is not adopted)");
			}
			Err(Stop::Err("format required number"))
		}
	}
}

fn format_code(val: &V, code: &PCode, fw: f64, prec: &PrecTh, meta: &mut Meta) -> R<String> {
	let zp = if code.zero && (!code.left || quirk(M_ZERO_WITH_LEFT)) { fw } else { 0.0 };
	let fpprec = |p: Option<f64>| p.unwrap_or(6.0);
	let iprec = |p: Option<f64>| p.unwrap_or(0.0);
	match code.ctype {
		's' => {
			if !matches!(val, V::Str(_)) {
				meta.mark_na("%s of a non-string (std.toString, not Python's str)");
			}
			to_string(val)
		}
		'd' => {
			let v = need_num(val, meta)?;
			let p = iprec(prec.force()?);
			render_int(v <= -1.0, v.abs().floor(), zp, if quirk(M_D_PRECISION_IGNORED) { 0.0 } else { p }, code.blank, code.plus, 10.0, "")
		}
		'o' => {
			if code.alt {
				meta.mark_na("#o (prefix 0 in Jsonnet, 0o in Python 3)");
			}
			let v = need_num(val, meta)?;
			if v.fract() != 0.0 {
				return Err(Stop::Unspec("fractional number under an integer-radix conversion (o, x, X)"));
			}
			render_int(v <= -1.0, v.abs().floor(), zp, iprec(prec.force()?), code.blank, code.plus, 8.0, if code.alt { "0" } else { "" })
		}
		'x' => {
			let v = need_num(val, meta)?;
			if v.fract() != 0.0 {
				return Err(Stop::Unspec("fractional number under an integer-radix conversion (o, x, X)"));
			}
			render_hex(v.floor(), zp, iprec(prec.force()?), code.blank, code.plus, code.alt, code.caps)
		}
		'f' => {
			let v = need_num(val, meta)?;
			render_float_dec(v, zp, code.blank, code.plus, code.alt, true, fpprec(prec.force()?))
		}
		'e' => {
			let v = need_num(val, meta)?;
			render_float_sci(v, zp, code.blank, code.plus, code.alt, true, code.caps, fpprec(prec.force()?))
		}
		'g' => {
			let v = need_num(val, meta)?;
			let fpprec = fpprec(prec.force()?);
			let exponent = exponent_of(v)?;
			if exponent < -4.0 || (if quirk(M_G_THRESHOLD) { exponent > fpprec } else { exponent >= fpprec }) {
				render_float_sci(v, zp, code.blank, code.plus, code.alt, code.alt, code.caps, fpprec - 1.0)
			} else {
				let digits_before_pt = 1f64.max(exponent + 1.0);
				render_float_dec(v, zp, code.blank, code.plus, code.alt, code.alt, fpprec - digits_before_pt)
			}
		}
		'c' => match val {
			V::Num(x) => {
				if x.fract() != 0.0 {
					return Err(Stop::Unspec("%c of a fractional code point"));
				}
				if quirk(Q_CHAR_SAT) && *x < 0.0 {
					return Ok("\0".to_owned());
				}
				if *x < 0.0 || *x > 1114111.0 {
					return Err(Stop::Err("code point out of range"));
				}
				match char::from_u32(*x as u32) {
					Some(c) => Ok(c.to_string()),
					None => Err(Stop::Unspec("%c of a surrogate code point")),
				}
			}
			V::Str(s) => {
				if clen(s) == 1 || (quirk(M_CHAR_ANY_LENGTH) && clen(s) > 1) {
					Ok(s.clone())
				} else {
					Err(Stop::Err("%c expected 1-sized string"))
				}
			}
			other => {
				if matches!(other, V::Bool(_)) {
					meta.mark_na("boolean given to %c (Python's bool-is-int is not adopted)");
				}
				Err(Stop::Err("%c expected number / string"))
			}
		},
		_ => Err(Stop::Err("unknown code")),
	}
}

/// the field width as used by pad_left/pad_right (`w - std.length(str)` must be a number)
fn force_fw(fw: &Result<V, Stop>) -> R<f64> {
	match fw {
		Err(s) => Err(s.clone()),
		Ok(V::Num(x)) => {
			if x.fract() != 0.0 {
				Err(Stop::Unspec("fractional * width"))
			} else {
				Ok(*x)
			}
		}
		Ok(_) => Err(Stop::Err("field width is not a number")),
	}
}

fn note_code(code: &PCode, meta: &mut Meta) {
	let mut flags = String::new();
	for (on, c) in [(code.alt, '#'), (code.zero, '0'), (code.left, '-'), (code.blank, ' '), (code.plus, '+')] {
		if on {
			flags.push(c);
		}
	}
	let w = match code.fw {
		Fw::Star => "star",
		Fw::Num(x) if x > 0.0 => "fixed",
		Fw::Num(_) => "none-or-0",
	};
	let p = match code.prec {
		Pr::None => "none",
		Pr::Star => "star",
		Pr::Num(_) => "fixed",
	};
	meta.codes.push((code.letter, flags, w, p));
}

/// does the decoration of `code` change the text of `val`?
fn decoration_matters(val: &V, code: &PCode, fw: f64, prec: &PrecTh, padded: &str) -> bool {
	let plain = PCode { alt: false, zero: false, left: false, blank: false, plus: false, fw: Fw::Num(0.0), prec: Pr::None, ..code.clone() };
	let decorated = code.alt || code.zero || code.left || code.blank || code.plus || fw != 0.0 || !matches!(prec, PrecTh::Val(None));
	if !decorated {
		return false;
	}
	let mut scratch = Meta::default();
	match format_code(val, &plain, 0.0, &PrecTh::Val(None), &mut scratch) {
		Ok(t) => t != padded,
		Err(_) => true,
	}
}

/// the padding of the finished field (`pad_left` / `pad_right` with a blank)
fn final_pad(s: &str, w: f64, left: bool) -> R<String> {
	let len = if quirk(Q_PAD_BYTES) { s.len() } else { clen(s) };
	let p = padding(w - len as f64, ' ')?;
	Ok(if left { format!("{s}{p}") } else { format!("{p}{s}") })
}

/// bookkeeping for a value consumed by `*`
fn star_check(r: &Result<V, Stop>, is_prec: bool, meta: &mut Meta) -> R<()> {
	match r {
		Ok(V::Num(x)) => {
			if x.abs() > 200_000.0 {
				meta.star_huge = true;
			}
			// Python reads a negative width as "left-justify" and clamps a negative precision to 0, the documented
			// algorithm just pads nothing / computes 10^-n; fractions: Python raises, the documented loop rounds up
			if *x < 0.0 || x.fract() != 0.0 {
				return Err(Stop::Unspec("negative or fractional * width / precision"));
			}
			if quirk(Q_STAR_U16) && *x > 65535.0 {
				return Err(Stop::Err("number out of bounds"));
			}
		}
		// `prec_or_null != null`: a null precision counts as "no precision" in the documented code, Python raises
		Ok(V::Null) if is_prec => return Err(Stop::Unspec("null given to a * precision")),
		_ => {}
	}
	Ok(())
}

/// `%%` with flags, width, precision or key: Python 3 rejects it, the documented algorithm pads it like any field and
/// the property text lists `%%` among the conversions that honour width: R1 decides alone
fn decorated_percent(code: &PCode, meta: &mut Meta) {
	let plain = !(code.alt || code.zero || code.left || code.blank || code.plus) && matches!(code.fw, Fw::Num(w) if w == 0.0) && matches!(code.prec, Pr::None) && code.mkey.is_none();
	if !plain {
		meta.mark_na("%% with flags, width, precision or key (rejected by Python 3, padded like any field by the documented algorithm)");
	}
}

/// The documented algorithm never reads the precision of %s, %c and %%, so a `*` precision of the wrong type (or a
/// missing one) goes unnoticed there; Python and common sense raise.  Not pinned down: discard.
fn unused_precision(code: &PCode, prec: &PrecTh) -> R<()> {
	if !matches!(code.ctype, 's' | 'c' | '%') {
		return Ok(());
	}
	match prec {
		PrecTh::Val(_) => Ok(()),
		PrecTh::Dyn(V::Num(x)) if x.fract() == 0.0 && *x >= 0.0 => Ok(()),
		_ => Err(Stop::Unspec("a * precision that the documented algorithm never reads is missing or of the wrong type")),
	}
}

fn format_codes_arr(codes: &[Piece], arr: &[V], meta: &mut Meta) -> R<String> {
	let reversed: Vec<V>;
	let arr = if quirk(M_RIGHT_TO_LEFT) {
		reversed = arr.iter().rev().cloned().collect();
		&reversed[..]
	} else {
		arr
	};
	let mut j = 0usize;
	let mut v = String::new();
	for piece in codes {
		let code = match piece {
			Piece::Lit(s) => {
				v.push_str(s);
				continue;
			}
			Piece::Code(c) => c,
		};
		note_code(code, meta);
		meta.cur_na = false;
		let j_start = j;
		let fw: Result<V, Stop> = match code.fw {
			Fw::Star => {
				let r = arr.get(j).cloned().ok_or(Stop::Err("not enough values"));
				j += 1;
				star_check(&r, false, meta)?;
				r
			}
			Fw::Num(n) => Ok(V::Num(n)),
		};
		let prec = match code.prec {
			Pr::Star => {
				let r = match arr.get(j) {
					Some(x) => {
						star_check(&Ok(x.clone()), true, meta)?;
						PrecTh::Dyn(x.clone())
					}
					None => PrecTh::Bad(Stop::Err("not enough values")),
				};
				j += 1;
				r
			}
			Pr::Num(n) => PrecTh::Val(Some(n)),
			Pr::None => PrecTh::Val(None),
		};
		let j2 = j;
		let s = if code.ctype == '%' {
			decorated_percent(code, meta);
			"%".to_owned()
		} else {
			let val = arr.get(j2).ok_or(Stop::Err("not enough values"))?;
			// the documented code computes the text first and pads afterwards: an error of the value wins
			let fw_for_zp = match &fw {
				Ok(V::Num(x)) => *x,
				_ => 0.0,
			};
			if code.zero && !code.left && !matches!(code.ctype, 's' | 'c') {
				// zero padding reads the width inside the renderer
				force_fw(&fw)?;
			}
			format_code(val, code, fw_for_zp, &prec, meta)?
		};
		let w = force_fw(&fw)?;
		let padded = final_pad(&s, w, code.left)?;
		unused_precision(code, &prec)?;
		if code.ctype != '%' {
			if let Some(val) = arr.get(j2) {
				if decoration_matters(val, code, w, &prec, &padded) {
					meta.matters = true;
				}
			}
			j = j2 + 1;
		}
		meta.spans.push(Span { start: code.start, end: code.end, text: padded.clone(), na: meta.cur_na, vals: arr[j_start.min(arr.len())..j.min(arr.len())].to_vec() });
		v.push_str(&padded);
	}
	if j < arr.len() && !quirk(M_NO_TOO_MANY_CHECK) {
		return Err(Stop::Err("too many values"));
	}
	Ok(v)
}

fn format_codes_obj(codes: &[Piece], obj: &[(String, V)], meta: &mut Meta) -> R<String> {
	let mut v = String::new();
	for piece in codes {
		let code = match piece {
			Piece::Lit(s) => {
				v.push_str(s);
				continue;
			}
			Piece::Code(c) => c,
		};
		note_code(code, meta);
		meta.cur_na = false;
		let fw: Result<V, Stop> = match code.fw {
			Fw::Star => Err(Stop::Err("cannot use * field width with object")),
			Fw::Num(n) => Ok(V::Num(n)),
		};
		let prec = match code.prec {
			Pr::Star => PrecTh::Bad(Stop::Err("cannot use * precision with object")),
			Pr::Num(n) => PrecTh::Val(Some(n)),
			Pr::None => PrecTh::Val(None),
		};
		let mut the_val = None;
		let s = if code.ctype == '%' {
			decorated_percent(code, meta);
			"%".to_owned()
		} else {
			let Some(f) = &code.mkey else {
				meta.mark_na("object argument without mapping key (Python formats the dict itself)");
				return Err(Stop::Err("mapping keys required"));
			};
			if quirk(Q_EMPTY_KEY) && f.is_empty() {
				return Err(Stop::Err("mapping keys required"));
			}
			let val = obj.iter().find(|(k, _)| k == f).map(|(_, x)| x).ok_or(Stop::Err("no such field"))?;
			the_val = Some(val);
			let fw_for_zp = match &fw {
				Ok(V::Num(x)) => *x,
				_ => 0.0,
			};
			if code.zero && !code.left && !matches!(code.ctype, 's' | 'c') {
				force_fw(&fw)?;
			}
			format_code(val, code, fw_for_zp, &prec, meta)?
		};
		let w = force_fw(&fw)?;
		let padded = final_pad(&s, w, code.left)?;
		unused_precision(code, &prec)?;
		if let Some(val) = the_val {
			if decoration_matters(val, code, w, &prec, &padded) {
				meta.matters = true;
			}
		}
		meta.spans.push(Span { start: code.start, end: code.end, text: padded.clone(), na: meta.cur_na, vals: vec![] });
		v.push_str(&padded);
	}
	Ok(v)
}

/// R1 under a deviation model (see QUIRKS); used only to attribute failures
fn r1_with(quirks: u32, fmt: &str, arg: &V) -> R<String> {
	ACTIVE_QUIRKS.with(|c| c.set(quirks));
	let r = r1(fmt, arg).0;
	ACTIVE_QUIRKS.with(|c| c.set(0));
	r
}

pub fn r1(fmt: &str, arg: &V) -> (R<String>, Meta) {
	let mut meta = Meta::default();
	meta.mode = match arg {
		V::Arr(_) => "list",
		V::Obj(_) => "map",
		_ => "single",
	};
	let codes = match parse_codes(fmt) {
		Ok(c) => c,
		Err(e) => return (Err(e), meta),
	};
	meta.parsed = true;
	let r = match arg {
		V::Arr(a) => format_codes_arr(&codes, a, &mut meta),
		V::Obj(f) => format_codes_obj(&codes, f, &mut meta),
		other => format_codes_arr(&codes, std::slice::from_ref(other), &mut meta),
	};
	(r, meta)
}

// ---------------------------------------------------------------------------------------------------------------
// R2: CPython through the sidecar
// ---------------------------------------------------------------------------------------------------------------

#[derive(Clone, Debug, PartialEq)]
pub enum Py {
	Text(String),
	Exc(String, String),
	/// the sidecar did not answer (infrastructure problem)
	Missing(String),
}

#[derive(Clone, Debug)]
pub struct Case {
	pub fmt: String,
	pub arg: V,
	/// generator's label (stage-internal kind)
	pub kind: &'static str,
}
impl Case {
	pub fn text(&self) -> String {
		format!("{} % {}", str_lit(&self.fmt), self.arg.lit())
	}
	pub fn text_std(&self) -> String {
		format!("std.format({}, {})", str_lit(&self.fmt), self.arg.lit())
	}
	/// The question put to Python.  Normally the case itself.  When R1 rendered every code but some of them lie
	/// outside what Jsonnet shares with Python (`#o`, `%s` of a non-string, decorated `%%`), those codes are replaced
	/// by `%s` fed with R1's own text for them, so that Python still cross-checks all the other codes, the literal
	/// text and the order of consumption.
	fn for_python(&self, r: &R<String>, meta: &Meta) -> (String, V) {
		if r.is_err() || meta.r2_na.is_none() || !meta.spans.iter().any(|s| s.na) {
			return (self.fmt.clone(), self.arg.clone());
		}
		let chars: Vec<char> = self.fmt.chars().collect();
		let mut fmt = String::new();
		let mut pos = 0;
		let map_mode = matches!(self.arg, V::Obj(_));
		let mut list = vec![];
		let mut extra_fields = vec![];
		for (k, s) in meta.spans.iter().enumerate() {
			fmt.extend(&chars[pos..s.start]);
			if s.na {
				if map_mode {
					let key = format!("c12~{k}");
					fmt.push_str(&format!("%({key})s"));
					extra_fields.push((key, V::Str(s.text.clone())));
				} else {
					fmt.push_str("%s");
					list.push(V::Str(s.text.clone()));
				}
			} else {
				fmt.extend(&chars[s.start..s.end]);
				list.extend(s.vals.iter().cloned());
			}
			pos = s.end;
		}
		fmt.extend(&chars[pos..]);
		let arg = match &self.arg {
			V::Obj(f) => {
				let mut f = f.clone();
				f.extend(extra_fields);
				V::Obj(f)
			}
			_ => V::Arr(list),
		};
		(fmt, arg)
	}
	fn request(&self) -> String {
		let (r, meta) = r1(&self.fmt, &self.arg);
		let (pfmt, parg) = self.for_python(&r, &meta);
		let (m, v) = match &parg {
			V::Obj(_) => (1, parg.enc()),
			V::Arr(a) => (0, Value::Array(a.iter().map(|x| x.enc()).collect())),
			other => (0, Value::Array(vec![other.enc()])),
		};
		// resource guard: Python must not be asked to build gigabytes of padding
		let risky = match &self.arg {
			V::Arr(a) => star_gets_huge(&self.fmt, a),
			V::Obj(_) => false,
			other => star_gets_huge(&self.fmt, std::slice::from_ref(other)),
		};
		let guard = meta.star_huge || (r.is_err() && risky);
		serde_json::to_string(&json!({ "f": pfmt, "m": m, "v": v, "g": guard })).unwrap()
	}
	fn extra(&self) -> Value {
		json!({ "fmt": self.fmt, "arg": self.arg.enc(), "kind": self.kind })
	}
}

/// Would a `*` receive a huge number if the values were consumed the way Python consumes them?  Lenient scan used
/// only for the resource guard when R1 stopped before it had seen every code (Python may get further than R1).
fn star_gets_huge(fmt: &str, vals: &[V]) -> bool {
	let s: Vec<char> = fmt.chars().collect();
	let huge = |k: usize| matches!(vals.get(k), Some(V::Num(n)) if n.abs() > 200_000.0);
	let mut idx = 0;
	let mut i = 0;
	while i < s.len() {
		if s[i] != '%' {
			i += 1;
			continue;
		}
		let mut j = i + 1;
		if j < s.len() && s[j] == '(' {
			while j < s.len() && s[j] != ')' {
				j += 1;
			}
			j += 1;
		}
		while j < s.len() && "#0- +".contains(s[j]) {
			j += 1;
		}
		if j < s.len() && s[j] == '*' {
			if huge(idx) {
				return true;
			}
			idx += 1;
			j += 1;
		} else {
			while j < s.len() && s[j].is_ascii_digit() {
				j += 1;
			}
		}
		if j < s.len() && s[j] == '.' {
			j += 1;
			if j < s.len() && s[j] == '*' {
				if huge(idx) {
					return true;
				}
				idx += 1;
				j += 1;
			} else {
				while j < s.len() && s[j].is_ascii_digit() {
					j += 1;
				}
			}
		}
		if j < s.len() && matches!(s[j], 'h' | 'l' | 'L') {
			j += 1;
		}
		if j < s.len() && s[j] != '%' {
			idx += 1;
		}
		i = j + 1;
	}
	false
}

/// one sidecar process answers all cases of the slice
pub fn ask_python(cases: &[Case]) -> Vec<Py> {
	let fail = |why: String| -> Vec<Py> { cases.iter().map(|_| Py::Missing(why.clone())).collect() };
	let mut input = String::new();
	for c in cases {
		input.push_str(&c.request());
		input.push('\n');
	}
	let child = Command::new(PYTHON).arg(SIDECAR).stdin(Stdio::piped()).stdout(Stdio::piped()).stderr(Stdio::piped()).spawn();
	let mut child = match child {
		Ok(c) => c,
		Err(e) => return fail(format!("cannot start the sidecar: {e}")),
	};
	let mut stdin = child.stdin.take().unwrap();
	let writer = std::thread::spawn(move || {
		let _ = stdin.write_all(input.as_bytes());
	});
	let out = child.wait_with_output();
	let _ = writer.join();
	let out = match out {
		Ok(o) => o,
		Err(e) => return fail(format!("sidecar failed: {e}")),
	};
	let text = String::from_utf8_lossy(&out.stdout);
	let lines: Vec<&str> = text.lines().collect();
	if lines.len() != cases.len() {
		return fail(format!("sidecar answered {} lines for {} cases: {}", lines.len(), cases.len(), String::from_utf8_lossy(&out.stderr).chars().take(300).collect::<String>()));
	}
	lines
		.iter()
		.map(|l| match json::parse(l) {
			Ok(J::Obj(f)) => {
				let get = |k: &str| f.iter().find(|(n, _)| n == k).map(|(_, v)| v.clone());
				match (get("t"), get("e")) {
					(Some(J::Str(t)), _) => Py::Text(t),
					(_, Some(J::Str(e))) => {
						if e == "ProtocolError" || e == "MemoryError" || e == "ResourceGuard" {
							Py::Missing(e)
						} else {
							let m = match get("m") {
								Some(J::Str(m)) => m,
								_ => String::new(),
							};
							Py::Exc(e, m)
						}
					}
					_ => Py::Missing("malformed sidecar line".into()),
				}
			}
			_ => Py::Missing("unparsable sidecar line".into()),
		})
		.collect()
}

// ---------------------------------------------------------------------------------------------------------------
// the agreed expectation
// ---------------------------------------------------------------------------------------------------------------

#[derive(Clone, Debug, PartialEq)]
pub enum Expect {
	Text(String),
	Err(&'static str),
	Discard(String),
}

fn conv_list(meta: &Meta) -> String {
	let mut c: Vec<char> = meta.codes.iter().map(|x| x.0).collect();
	c.sort();
	c.dedup();
	c.into_iter().collect()
}

pub fn agree(r1: &R<String>, meta: &Meta, py: &Py) -> Expect {
	match r1 {
		Err(Stop::Unspec(why)) => return Expect::Discard(format!("R1 gives no answer: {why}")),
		_ => {}
	}
	if meta.r2_na.is_some() {
		// R1 decides the codes outside the shared sub-domain alone; when it rendered everything, Python was asked the
		// patched question (see Case::for_python) and still has to confirm all the other codes
		return match (r1, py) {
			(Ok(t), Py::Text(p)) if t == p => Expect::Text(t.clone()),
			(Ok(_), Py::Missing(why)) => Expect::Discard(format!("sidecar gave no answer: {why}")),
			(Ok(_), _) => Expect::Discard(format!("references disagree on the codes they share (conversions {})", conv_list(meta))),
			(Err(Stop::Err(c)), _) => Expect::Err(c),
			(Err(Stop::Unspec(_)), _) => unreachable!(),
		};
	}
	match (r1, py) {
		(_, Py::Missing(why)) => Expect::Discard(format!("sidecar gave no answer: {why}")),
		(Ok(a), Py::Text(b)) if a == b => Expect::Text(a.clone()),
		(Err(Stop::Err(c)), Py::Exc(..)) => Expect::Err(c),
		(Ok(_), Py::Text(_)) => Expect::Discard(format!("references disagree on the text (conversions {})", conv_list(meta))),
		(Ok(_), Py::Exc(..)) => Expect::Discard(format!("R1 gives text, Python raises (conversions {})", conv_list(meta))),
		(Err(_), Py::Text(_)) => Expect::Discard(format!("R1 raises, Python gives text (conversions {})", if meta.parsed { conv_list(meta) } else { "unparsed".into() })),
		(Err(Stop::Unspec(_)), _) => unreachable!(),
	}
}

// ---------------------------------------------------------------------------------------------------------------
// jrsonnet's answers
// ---------------------------------------------------------------------------------------------------------------

#[derive(Clone, Debug, PartialEq)]
pub enum Got {
	Text(String),
	Err(String, String),
	Panic(String),
	/// not a string value / transport problem
	Other(String),
}
impl Got {
	fn show(&self) -> String {
		match self {
			Got::Text(t) => format!("text {}", clip(&format!("{t:?}"), 160)),
			Got::Err(k, m) => format!("error [{k}] {}", clip(m, 120)),
			Got::Panic(p) => format!("PANIC {}", clip(p, 200)),
			Got::Other(o) => format!("unexpected {}", clip(o, 120)),
		}
	}
}
fn clip(s: &str, n: usize) -> String {
	if s.chars().count() <= n {
		s.to_owned()
	} else {
		let head: String = s.chars().take(n / 2).collect();
		let tail: String = s.chars().rev().take(n / 3).collect::<Vec<_>>().into_iter().rev().collect();
		format!("{head}…({} chars)…{tail}", s.chars().count())
	}
}

fn got_of_item(item: &J) -> Got {
	let J::Arr(r) = item else { return Got::Other(item.to_text()) };
	match (r.first(), r.get(1), r.get(2)) {
		(Some(J::Bool(true)), Some(J::Str(t)), _) => Got::Text(t.clone()),
		(Some(J::Bool(false)), Some(J::Str(k)), Some(J::Str(m))) => Got::Err(k.clone(), m.clone()),
		_ => Got::Other(item.to_text()),
	}
}

fn eval_exprs(exprs: &[String]) -> Result<Vec<Got>, Outcome> {
	let mut prog = String::from("[\n");
	for e in exprs {
		prog.push_str("  verif.try(");
		prog.push_str(e);
		prog.push_str("),\n");
	}
	prog.push_str("]\n");
	match jr::eval(&prog, &Opts::default()) {
		Outcome::Val(t) => match json::parse(&t) {
			Ok(J::Arr(items)) if items.len() == exprs.len() => Ok(items.iter().map(got_of_item).collect()),
			_ => Err(Outcome::Err("Harness".into(), "batch output is not a JSON array of the right length".into())),
		},
		o => Err(o),
	}
}

/// both surface forms of every case; a batch that does not evaluate (panic) is re-asked question by question
pub fn ask_jrsonnet(cases: &[Case]) -> Vec<(Got, Got)> {
	let mut exprs = vec![];
	for c in cases {
		exprs.push(c.text());
		exprs.push(c.text_std());
	}
	let flat = match eval_exprs(&exprs) {
		Ok(v) => v,
		// verif.try does not catch panics: the batch is lost, every question is put again on its own
		Err(_) => {
			let mut v = vec![];
			for e in &exprs {
				v.push(match eval_exprs(std::slice::from_ref(e)) {
					Ok(mut g) => g.remove(0),
					Err(Outcome::Panic(p)) => Got::Panic(p),
					Err(o) => Got::Other(o.short()),
				});
			}
			v
		}
	};
	flat.chunks(2).map(|p| (p[0].clone(), p[1].clone())).collect()
}

// ---------------------------------------------------------------------------------------------------------------
// decision
// ---------------------------------------------------------------------------------------------------------------

pub struct Decided {
	pub out: CaseOut,
	/// failure signature (groups violations), if failed
	pub sig: Option<String>,
	/// ids of the findings that together reproduce the observed answer exactly (empty: unexplained)
	pub ids: Vec<&'static str>,
}

fn classes_of(case: &Case, meta: &Meta, exp: &Expect) -> Vec<String> {
	let mut cl = vec![format!("mode:{}", meta.mode), format!("kind:{}", case.kind)];
	match exp {
		Expect::Text(_) => cl.push("expect:text".into()),
		Expect::Err(c) => {
			cl.push("expect:error".into());
			cl.push(format!("error:{c}"));
		}
		Expect::Discard(_) => {}
	}
	if !meta.parsed {
		cl.push("format:malformed".into());
	}
	for (letter, flags, w, p) in &meta.codes {
		cl.push(format!("conv:{letter}"));
		if flags.is_empty() {
			cl.push("flag:none".into());
		}
		for f in flags.chars() {
			cl.push(format!("flag:{f}"));
			cl.push(format!("conv-flag:{letter}{f}"));
		}
		cl.push(format!("width:{w}"));
		cl.push(format!("precision:{p}"));
	}
	if meta.r2_na.is_some() {
		cl.push("reference:R1-alone".into());
	} else {
		cl.push("reference:R1=R2".into());
	}
	cl.sort();
	cl.dedup();
	cl
}

/// panic locations inside the formatter that belong to one describable defect each
const PANICS: &[(&str, &[&str], &str, &str)] = &[
	("format.rs", &[":153:", ":154:"], "C12-panic-width-digits-overflow-u16", "a width or precision written with digits above 65535 overflows the u16 accumulator of the code parser (panic in debug builds, wrap-around otherwise)"),
	("format.rs", &[":451:"], "C12-panic-precision-65535", "precision 65535 overflows `dot_size + precision` in render_float"),
	("format.rs", &[":621:", ":634:", ":629:"], "C12-panic-g-precision-zero", "%g / %G with precision 0 underflows `fpprec - 1` / `fpprec - digits_before_pt`"),
	("format.rs", &[":314:"], "C12-panic-float-nonfinite", "%f / %e / %g of a number whose scaled value overflows to infinity reaches render_integer with NaN (debug assertion; garbage digits otherwise)"),
];

/// Which recorded deviations explain the observed answer exactly?  Returns (signature, ids).
/// A failure is only excused when every id is listed with status "known" for C12 in /verif/known_findings.jsonl.
fn attribute(case: &Case, meta: &Meta, exp: &Expect, a: &Got, b: &Got) -> (String, Vec<&'static str>) {
	for g in [a, b] {
		if let Got::Panic(p) = g {
			let loc = p.rsplit(" @ ").next().unwrap_or(p);
			for (file, lines, id, _) in PANICS {
				if loc.contains(file) && lines.iter().any(|l| loc.contains(l)) {
					return ((*id).to_owned(), vec![id]);
				}
			}
			return (format!("panic at {loc}"), vec![]);
		}
	}
	if a != b && !matches!((a, b), (Got::Err(..), Got::Err(..))) {
		return ("surface forms differ".into(), vec![]);
	}
	// smallest set of deviation models under which the documented algorithm gives exactly the observed answer
	let n = QUIRKS.len();
	let mut masks: Vec<u32> = (1u32..(1 << n)).filter(|m| m.count_ones() <= 4 || *m == (1 << n) - 1).collect();
	masks.sort_by_key(|m| (m.count_ones(), *m));
	let ids_of = |bits: u32| -> Vec<&'static str> { QUIRKS.iter().filter(|q| bits & q.0 != 0).map(|q| q.1).collect() };
	// (for an expected error answered with text) smallest set that makes the documented algorithm stop raising
	let mut unraised: Option<u32> = None;
	for mask in masks {
		let bits: u32 = QUIRKS.iter().enumerate().filter(|(i, _)| mask & (1 << i) != 0).map(|(_, q)| q.0).sum();
		let r = r1_with(bits, &case.fmt, &case.arg);
		let same = match (&r, a) {
			(Ok(t), Got::Text(g)) => t == g,
			(Err(Stop::Err(_)), Got::Err(..)) => true,
			_ => false,
		};
		if same {
			let ids = ids_of(bits);
			return (ids.join(" + "), ids);
		}
		// only the two deviations that remove an error qualify; the walk is left to right, so stopping for another
		// reason than the expected one means the site of the expected error has been passed
		if let (Expect::Err(c), Got::Text(_), None) = (exp, a, unraised) {
			if bits & !(Q_LENMODS | Q_CHAR_SAT) == 0 && r != Err(Stop::Err(c)) {
				unraised = Some(bits);
			}
		}
	}
	// The references raise, jrsonnet answers with text, and under these deviations the documented algorithm does not
	// raise either (its text may still differ in another code for reasons of its own, e.g. its logarithm-based
	// exponent; there is no expected text to compare with).
	if let Some(bits) = unraised {
		let ids = ids_of(bits);
		return (format!("{} (explains the missing error)", ids.join(" + ")), ids);
	}
	// the documented parser rejects the string only because of a second length modifier, jrsonnet goes on and formats
	if matches!(exp, Expect::Err(_)) && !meta.parsed && matches!(a, Got::Text(_)) {
		ACTIVE_QUIRKS.with(|c| c.set(Q_LENMODS));
		let lenient = parse_codes(&case.fmt).is_ok();
		ACTIVE_QUIRKS.with(|c| c.set(0));
		if lenient {
			let id = QUIRKS.iter().find(|q| q.0 == Q_LENMODS).unwrap().1;
			return (format!("{id} (format string only parses with that deviation)"), vec![id]);
		}
	}
	let convs = conv_list(meta);
	let sig = match (exp, a) {
		(Expect::Text(_), Got::Err(k, _)) => format!("unexplained: error [{k}] where text is defined (conversions {convs})"),
		(Expect::Err(c), Got::Text(_)) => format!("unexplained: text where the references raise '{c}' (conversions {})", if meta.parsed { convs } else { "unparsed".into() }),
		(Expect::Text(w), Got::Text(g)) => {
			let kind = if w.trim() == g.trim() || w.replace(' ', "") == g.replace(' ', "") {
				"padding differs"
			} else if w.len() != g.len() {
				"different length"
			} else {
				"different characters"
			};
			format!("unexplained: wrong text, {kind} (conversions {convs})")
		}
		_ => format!("unexplained answer (conversions {convs})"),
	};
	(sig, vec![])
}

/// which seeded mutants of R1 would have failed this (passed) case?
fn count_kills(case: &Case, exp: &Expect) {
	if case.kind == "replay" {
		return;
	}
	let mut hit = [false; 10];
	for (k, (bit, _)) in MUTANTS.iter().enumerate() {
		let r = r1_with(*bit, &case.fmt, &case.arg);
		hit[k] = match (exp, &r) {
			(Expect::Text(t), Ok(m)) => t != m,
			(Expect::Text(_), Err(Stop::Err(_))) => true,
			(Expect::Err(_), Ok(_)) => true,
			_ => false,
		};
	}
	if hit.iter().any(|h| *h) {
		let mut k = KILLS.lock().unwrap();
		for i in 0..10 {
			if hit[i] {
				k[i] += 1;
			}
		}
	}
}

pub fn decide(case: &Case, py: &Py, got: &(Got, Got)) -> Decided {
	let (r1res, meta) = r1(&case.fmt, &case.arg);
	let exp = agree(&r1res, &meta, py);
	if !matches!(exp, Expect::Discard(_)) {
		count_kills(case, &exp);
	}
	let text = case.text();
	let (a, b) = got;
	let classes = classes_of(case, &meta, &exp);
	let refs = || {
		format!(
			"R1 = {}; R2 = {}",
			match &r1res {
				Ok(t) => format!("text {}", clip(&format!("{t:?}"), 160)),
				Err(Stop::Err(c)) => format!("error ({c})"),
				Err(Stop::Unspec(c)) => format!("no answer ({c})"),
			},
			match (&meta.r2_na, py) {
				(Some(why), Py::Text(t)) if r1res.is_ok() => format!("R1 alone for: {why}; the other codes through Python: text {}", clip(&format!("{t:?}"), 160)),
				(Some(why), _) => format!("not applicable: {why}"),
				(_, Py::Text(t)) => format!("text {}", clip(&format!("{t:?}"), 160)),
				(_, Py::Exc(e, m)) => format!("{e}: {}", clip(m, 80)),
				(_, Py::Missing(m)) => format!("missing ({m})"),
			}
		)
	};
	let failed = |why: String| -> Decided {
		let (sig, ids) = attribute(case, &meta, &exp, a, b);
		Decided { out: CaseOut::fail(text.clone(), format!("{why}\n  `%` operator: {}\n  std.format:   {}\n  {}", a.show(), b.show(), refs())).classes(classes.clone()), sig: Some(sig), ids }
	};
	// a panic is a failure whatever the references say
	if matches!(a, Got::Panic(_)) || matches!(b, Got::Panic(_)) {
		return failed("jrsonnet panicked".into());
	}
	if matches!(a, Got::Other(_)) || matches!(b, Got::Other(_)) {
		return failed("jrsonnet produced neither a string nor an error".into());
	}
	if a != b {
		let same_err = matches!((a, b), (Got::Err(..), Got::Err(..)));
		if !same_err {
			return failed("the two surface forms give different answers".into());
		}
	}
	match &exp {
		Expect::Discard(why) => {
			if std::env::var_os("C12_DEBUG").is_some() {
				eprintln!("DISCARD {text}  [{why}]  {}  jrsonnet: {}", refs(), a.show());
			}
			Decided { out: CaseOut::discard(text, why), sig: None, ids: vec![] }
		}
		Expect::Text(want) => match a {
			Got::Text(g) if g == want => {
				let nontrivial = meta.matters || meta.codes.len() > 1;
				Decided { out: CaseOut::pass(text, nontrivial).classes(classes), sig: None, ids: vec![] }
			}
			_ => failed(format!("expected the text {}", clip(&format!("{want:?}"), 200))),
		},
		Expect::Err(c) => match a {
			Got::Err(..) => Decided { out: CaseOut::pass(text, true).classes(classes), sig: None, ids: vec![] },
			_ => failed(format!("expected an error ({c})")),
		},
	}
}

// ---------------------------------------------------------------------------------------------------------------
// generators
// ---------------------------------------------------------------------------------------------------------------

const CONVS: &[char] = &['d', 'i', 'u', 'o', 'x', 'X', 'e', 'E', 'f', 'F', 'g', 'G', 'c', 's', '%'];
const FLAGS: &[char] = &['#', '0', '-', ' ', '+'];
const WIDTHS: &[&str] = &["", "0", "1", "5", "12", "*"];
const PRECS: &[&str] = &["", ".", ".0", ".1", ".3", ".10", ".*"];

pub fn numbers() -> Vec<f64> {
	vec![
		0.0,
		1.0,
		-1.0,
		-0.0,
		7.0,
		8.0,
		15.0,
		16.0,
		255.0,
		-255.0,
		0.5,
		-0.5,
		1.5,
		2.5,
		0.05,
		0.15,
		9.995,
		99.5,
		1e-5,
		1e-4,
		123456.0,
		1e6,
		1e15,
		1e16,
		9007199254740992.0,
		1e21,
		1e100,
		1e-100,
		1e308,
		// a few more that exercise carries and the %g switch
		-1.5,
		0.1,
		-123456.0,
		3.0,
		10.0,
		100.0,
		0.001,
		12345.678,
		-2.5,
		4294967296.0,
		999999.5,
	]
}
fn strings() -> Vec<&'static str> {
	vec!["a", "", "é", "😀", "ab cd", "日本", "x%y"]
}
fn s_values() -> Vec<V> {
	let mut v: Vec<V> = strings().into_iter().map(|s| V::Str(s.into())).collect();
	v.extend([
		V::Null,
		V::Bool(true),
		V::Bool(false),
		V::Arr(vec![]),
		V::Arr(vec![V::Num(1.0), V::Str("a".into())]),
		V::Obj(vec![]),
		V::Obj(vec![("a".into(), V::Num(1.0))]),
		V::Arr(vec![V::Null, V::Arr(vec![V::Bool(true)]), V::Obj(vec![("k".into(), V::Str("é".into()))])]),
		V::Num(0.0),
		V::Num(1.0),
		V::Num(-1.0),
		V::Num(255.0),
		V::Num(0.5),
		V::Num(-2.5),
		V::Num(123456.0),
	]);
	v
}
fn c_values() -> Vec<V> {
	vec![
		V::Num(65.0),
		V::Str("a".into()),
		V::Num(233.0),
		V::Str("é".into()),
		V::Num(128512.0),
		V::Str("😀".into()),
		V::Num(20013.0),
		V::Num(48.0),
		V::Num(1114111.0),
		V::Str("".into()),
		V::Str("ab".into()),
		V::Str("😀😀".into()),
		V::Num(1114112.0),
		V::Num(-1.0),
		V::Num(65.5),
		V::Null,
		V::Bool(true),
		V::Arr(vec![V::Num(65.0)]),
	]
}
fn wrong_for_number() -> Vec<V> {
	vec![V::Str("a".into()), V::Str("12".into()), V::Null, V::Bool(true), V::Arr(vec![V::Num(1.0)]), V::Obj(vec![("a".into(), V::Num(1.0))]), V::Str("".into())]
}

fn is_numeric_conv(c: char) -> bool {
	matches!(c, 'd' | 'i' | 'u' | 'o' | 'x' | 'X' | 'e' | 'E' | 'f' | 'F' | 'g' | 'G')
}

/// a value suitable for conversion `c` (index 0 = simplest)
fn value_for(c: char, src: &mut Src) -> V {
	if is_numeric_conv(c) {
		if src.chance(1, 14) {
			return src.pick(&wrong_for_number()).clone();
		}
		let nums = numbers();
		let mut x = *src.pick(&nums);
		if matches!(c, 'o' | 'x' | 'X') && x.fract() != 0.0 && !src.chance(1, 6) {
			// mostly integers for the integer radices (fractions are outside the sub-domain shared with Python)
			x = x.trunc() + if src.chance(1, 2) { 17.0 } else { 0.0 };
		}
		V::Num(x)
	} else if c == 'c' {
		src.pick(&c_values()).clone()
	} else {
		src.pick(&s_values()).clone()
	}
}

fn pick_str<'b>(src: &mut Src, items: &'b [&'b str]) -> &'b str {
	items[src.below(items.len())]
}

fn star_value(src: &mut Src, precision: bool) -> V {
	match src.weighted(&[150, 3, 3, 4, 3]) {
		0 => V::Num(*src.pick(if precision { &[0.0, 1.0, 3.0, 10.0, 2.0, 6.0] } else { &[0.0, 1.0, 5.0, 12.0, 3.0, 8.0] })),
		1 => V::Num(-5.0),
		2 => V::Num(2.5),
		3 => V::Str("a".into()),
		_ => V::Null,
	}
}

/// deterministic tape for case `i` of a stage (all choices of a case are read from it through `Src`)
fn tape(seed: u64, stage: &str, i: u64, len: usize) -> Vec<u16> {
	let mut s = hash64(&format!("{seed}|C12|{stage}|{i}"));
	let mut out = Vec::with_capacity(len);
	while out.len() < len {
		// splitmix64
		s = s.wrapping_add(0x9e3779b97f4a7c15);
		let mut z = s;
		z = (z ^ (z >> 30)).wrapping_mul(0xbf58476d1ce4e5b9);
		z = (z ^ (z >> 27)).wrapping_mul(0x94d049bb133111eb);
		z ^= z >> 31;
		for k in 0..4 {
			out.push((z >> (16 * k)) as u16);
		}
	}
	out.truncate(len);
	out
}

/// the full cross product of single codes: conversion x flag subset x width x precision
fn grid_case(idx: u64, rep: u64, seed: u64) -> Case {
	let mut i = idx;
	let conv = CONVS[(i % CONVS.len() as u64) as usize];
	i /= CONVS.len() as u64;
	let mask = (i % 32) as usize;
	i /= 32;
	let w = WIDTHS[(i % WIDTHS.len() as u64) as usize];
	i /= WIDTHS.len() as u64;
	let p = PRECS[(i % PRECS.len() as u64) as usize];
	let t = tape(seed, "grid", idx * 1000 + rep, 12);
	let mut src = Src::new(&t);
	let mut fmt = String::from("%");
	for (k, f) in FLAGS.iter().enumerate() {
		if mask & (1 << k) != 0 {
			fmt.push(*f);
		}
	}
	fmt.push_str(w);
	fmt.push_str(p);
	fmt.push(conv);
	let mut vals = vec![];
	if w == "*" {
		vals.push(star_value(&mut src, false));
	}
	if p == ".*" {
		vals.push(star_value(&mut src, true));
	}
	if conv != '%' {
		vals.push(value_for(conv, &mut src));
	}
	Case { fmt, arg: V::Arr(vals), kind: "grid" }
}
fn grid_size() -> u64 {
	(CONVS.len() * 32 * WIDTHS.len() * PRECS.len()) as u64
}

const DECOR: &[&str] = &["", "5", "-5", "05", "+", " ", "#", ".0", ".1", ".3", "12.3", "+.10", "#.0", "-12.1", "0+12.3", " 05.1", "#012", "+-5.3", ".", "#+.3"];

/// every number of the domain under every numeric conversion and a fixed set of decorations
fn values_cases() -> Vec<Case> {
	let mut out = vec![];
	for conv in CONVS.iter().filter(|c| is_numeric_conv(**c)) {
		for x in numbers() {
			for (k, d) in DECOR.iter().enumerate() {
				// fractions under o, x, X are outside what the two references share: two probes each are enough
				if matches!(conv, 'o' | 'x' | 'X') && x.fract() != 0.0 && k >= 2 {
					continue;
				}
				out.push(Case { fmt: format!("%{d}{conv}"), arg: V::Arr(vec![V::Num(x)]), kind: "values" });
			}
		}
	}
	for v in s_values() {
		for d in ["", "5", "-5", "05", "12", "-12", ".1", "+", "#", " "] {
			out.push(Case { fmt: format!("%{d}s"), arg: V::Arr(vec![v.clone()]), kind: "values" });
			// a non-array value is wrapped
			if !matches!(v, V::Arr(_) | V::Obj(_)) {
				out.push(Case { fmt: format!("%{d}s"), arg: v.clone(), kind: "values" });
			}
		}
	}
	for v in c_values() {
		for d in ["", "5", "-5", "05", "12", ".1", "+", "#"] {
			out.push(Case { fmt: format!("%{d}c"), arg: V::Arr(vec![v.clone()]), kind: "values" });
		}
	}
	out
}

const LITERALS: &[&str] = &["", "x", " ", "%%", "é=", "😀", "a b", "100%% ", "\n", "(", ")", "日本語", "%%%%", "-", "0", "*", ".", "l", "\"q\"", "\\"];
const KEYS: &[&str] = &["a", "b", "k", "a.b", "é", "key with space", "0", ""];
const MALFORMED: &[&str] = &["%", "%(", "%(k", "%5", "%.", "%l", "%z", "%(k)", "%-", "%5.", "%.3", "%*", "%#0- +", "%(k)5", "%ll", "%h", "%.*", "%(", "%5.3l", "% "];
// (`r` and `a` are conversions of Python, not of Jsonnet: the references would disagree)
const UNKNOWN_CONVS: &[char] = &['z', 'b', 'n', 'p', 'q', 't', 'v', 'w', 'y', 'A', 'C', 'D', 'H', 'I', 'S', '!', '@', '$', '&', 'é', ')', 'j', 'k', 'm'];
const LENMODS: &[&str] = &["", "h", "l", "L", "ll", "hh", "lL"];

/// one random code; returns the text of the code and pushes the values it consumes
fn random_code(src: &mut Src, key: Option<&str>, vals: &mut Vec<V>) -> (String, char) {
	let conv = *src.pick(CONVS);
	let mut s = String::from("%");
	if let Some(k) = key {
		s.push('(');
		s.push_str(k);
		s.push(')');
	}
	let nflags = src.weighted(&[30, 30, 20, 10, 5, 5]);
	for _ in 0..nflags {
		s.push(*src.pick(FLAGS));
	}
	let w = match src.weighted(&[40, 40, 8, 6]) {
		0 => String::new(),
		1 => src.pick(&["5", "1", "0", "12", "3", "8", "20", "007"]).to_string(),
		2 => "*".to_owned(),
		_ => src.range(2, 40).to_string(),
	};
	if w == "*" {
		vals.push(star_value(src, false));
	}
	s.push_str(&w);
	let p = match src.weighted(&[45, 35, 8, 6]) {
		0 => String::new(),
		1 => src.pick(&[".3", ".0", ".1", ".", ".10", ".2", ".6", ".17"]).to_string(),
		2 => ".*".to_owned(),
		_ => format!(".{}", src.range(0, 25)),
	};
	if p == ".*" {
		vals.push(star_value(src, true));
	}
	s.push_str(&p);
	s.push_str(LENMODS[src.weighted(&[70, 8, 8, 8, 3, 2, 1])]);
	s.push(conv);
	if conv != '%' {
		vals.push(value_for(conv, src));
	}
	(s, conv)
}

fn mix_case(i: u64, seed: u64) -> Case {
	let t = tape(seed, "mix", i, 96);
	let mut src = Src::new(&t);
	match src.weighted(&[50, 12, 22, 12, 4]) {
		// list argument, 1..4 codes with literal text around them, sometimes the wrong number of values
		0 => {
			let n = 1 + src.weighted(&[40, 35, 20, 5]);
			let mut fmt = String::new();
			let mut vals = vec![];
			for _ in 0..n {
				fmt.push_str(pick_str(&mut src, LITERALS));
				let (c, _) = random_code(&mut src, None, &mut vals);
				fmt.push_str(&c);
			}
			fmt.push_str(pick_str(&mut src, LITERALS));
			let kind = match src.weighted(&[76, 8, 8, 8]) {
				0 => "mix",
				1 => {
					vals.pop();
					"arity-short"
				}
				2 => {
					let extra = value_for(*src.pick(CONVS), &mut src);
					vals.push(extra);
					"arity-long"
				}
				_ => {
					// literal-only tail or a reversed list: consumption order matters
					vals.reverse();
					"order"
				}
			};
			Case { fmt, arg: V::Arr(vals), kind }
		}
		// a single non-array value is wrapped
		1 => {
			let mut vals = vec![];
			let mut fmt = src.pick(LITERALS).to_string();
			let (c, _) = random_code(&mut src, None, &mut vals);
			fmt.push_str(&c);
			fmt.push_str(pick_str(&mut src, LITERALS));
			let arg = match vals.len() {
				1 if !matches!(vals[0], V::Arr(_)) => vals.remove(0),
				0 => V::Str("unused".into()),
				_ => V::Arr(vals),
			};
			Case { fmt, arg, kind: "single" }
		}
		// object argument
		2 => {
			let n = 1 + src.weighted(&[45, 35, 20]);
			let mut fmt = String::new();
			let mut fields: Vec<(String, V)> = vec![];
			let mut kind = "map";
			for _ in 0..n {
				fmt.push_str(pick_str(&mut src, LITERALS));
				let key = *src.pick(KEYS);
				let mut vals = vec![];
				let with_key = !src.chance(1, 12);
				let (c, _) = random_code(&mut src, if with_key { Some(key) } else { None }, &mut vals);
				if !with_key {
					kind = "map-no-key";
				}
				fmt.push_str(&c);
				// `*` values cannot be supplied in mapping mode (error expected); the last pushed value is the operand
				if let Some(v) = vals.pop() {
					if src.chance(1, 10) {
						kind = "map-missing-key";
					} else if !fields.iter().any(|(k, _)| k == key) {
						fields.push((key.to_owned(), v));
					}
				}
			}
			fmt.push_str(pick_str(&mut src, LITERALS));
			if src.chance(1, 3) {
				fields.push(("unused".into(), V::Num(1.0)));
			}
			Case { fmt, arg: V::Obj(fields), kind }
		}
		// malformed and truncated format strings, unknown conversions
		3 => {
			let mut vals = vec![];
			let mut fmt = src.pick(LITERALS).to_string();
			if src.chance(1, 2) {
				let (c, _) = random_code(&mut src, None, &mut vals);
				fmt.push_str(&c);
			}
			let kind;
			if src.chance(1, 2) {
				fmt.push_str(pick_str(&mut src, MALFORMED));
				kind = "malformed-truncated";
				if src.chance(1, 3) {
					// text after the fragment turns most of them into another code
					fmt.push_str(pick_str(&mut src, &[" ", "x", "d", "%d", ")s"]));
					vals.push(V::Num(1.0));
				}
			} else {
				let u = *src.pick(UNKNOWN_CONVS);
				let mut scratch = vec![];
				let (c, _) = random_code(&mut src, None, &mut scratch);
				let mut c: Vec<char> = c.chars().collect();
				c.pop();
				c.push(u);
				fmt.extend(c);
				vals.extend(scratch);
				if vals.is_empty() {
					vals.push(V::Num(1.0));
				}
				kind = "malformed-unknown-conversion";
			}
			if src.chance(1, 4) {
				return Case { fmt, arg: V::Obj(vec![("k".into(), V::Num(1.0))]), kind };
			}
			Case { fmt, arg: V::Arr(vals), kind }
		}
		// literal text only
		_ => {
			let mut fmt = String::new();
			for _ in 0..src.range(0, 4) {
				fmt.push_str(pick_str(&mut src, LITERALS));
			}
			let arg = match src.weighted(&[50, 25, 25]) {
				0 => V::Arr(vec![]),
				1 => V::Arr(vec![V::Num(1.0)]),
				_ => V::Obj(vec![("a".into(), V::Num(1.0))]),
			};
			Case { fmt, arg, kind: "literal-only" }
		}
	}
}

const BIG: &[u32] = &[255, 256, 1000, 65535, 65536, 70000];
fn large_cases(n: u64, seed: u64) -> Vec<Case> {
	let mut out = vec![];
	for i in 0..n {
		let t = tape(seed, "large", i, 16);
		let mut src = Src::new(&t);
		let big = *src.pick(BIG);
		let conv = *src.pick(&['d', 's', 'x', 'f', 'e', 'g', 'c', 'o', '%', 'i']);
		let flag = *src.pick(&["", "-", "0", "+", "#", "0-"]);
		let mut vals = vec![];
		let spec = match src.weighted(&[40, 25, 15, 10, 10]) {
			0 => format!("{big}"),
			1 => format!(".{big}"),
			2 => {
				vals.push(V::Num(big as f64));
				"*".to_owned()
			}
			3 => {
				vals.push(V::Num(big as f64));
				".*".to_owned()
			}
			_ => format!("{big}.{}", src.pick(BIG)),
		};
		if conv != '%' {
			vals.push(match conv {
				's' => V::Str(src.pick(&["a", "é", ""]).to_string()),
				'c' => V::Num(233.0),
				_ => V::Num(*src.pick(&[1.0, -1.0, 255.0, 1.5, 0.0, 1e15])),
			});
		}
		out.push(Case { fmt: format!("%{flag}{spec}{conv}"), arg: V::Arr(vals), kind: "large" });
	}
	out
}

// ---------------------------------------------------------------------------------------------------------------
// driver
// ---------------------------------------------------------------------------------------------------------------

struct Failure {
	size: usize,
	text: String,
	why: String,
	extra: Value,
}

/// fixed regression seeds: one reproducer per failure family found while building this check
fn seeds() -> Vec<Case> {
	let l = |fmt: &str, vals: Vec<V>| Case { fmt: fmt.to_owned(), arg: V::Arr(vals), kind: "seed" };
	vec![
		l("%5s", vec![V::Str("é".into())]),
		l("%-5s|", vec![V::Str("😀".into())]),
		l("%5c", vec![V::Num(233.0)]),
		l("%.0g", vec![V::Num(1.5)]),
		l("%99999d", vec![V::Num(1.0)]),
		l("%70000s", vec![V::Str("a".into())]),
		l("%*d", vec![V::Num(70000.0), V::Num(1.0)]),
		l("%d", vec![V::Num(1e21)]),
		l("%x", vec![V::Num(1e21)]),
		l("%#x", vec![V::Num(0.0)]),
		l("%#X", vec![V::Num(0.0)]),
		l("%lld", vec![V::Num(1.0)]),
		l("%#o", vec![V::Num(8.0)]),
		l("%#5.4o", vec![V::Num(8.0)]),
		l("%c", vec![V::Str("ab".into())]),
		l("%c", vec![V::Num(-1.0)]),
		l("%.17f", vec![V::Num(0.05)]),
		l("%f", vec![V::Num(1e308)]),
		l("%.255g", vec![V::Num(10.0)]),
		l("%.22e", vec![V::Num(1.5)]),
		l("%.65535f", vec![V::Num(1.0)]),
		l("%5%|%-3%|", vec![]),
		l("%*%", vec![V::Num(3.0)]),
		l("%-5d|%05d|%-05d|% d|%+ d", vec![V::Num(-3.0), V::Num(-3.0), V::Num(-3.0), V::Num(3.0), V::Num(3.0)]),
		l("%#x %#X %#o %x", vec![V::Num(255.0), V::Num(255.0), V::Num(8.0), V::Num(-255.0)]),
		l("%.3g|%.2g|%g|%g", vec![V::Num(100.0), V::Num(100.0), V::Num(0.001), V::Num(1e-5)]),
		l("%d %d", vec![V::Num(1.0)]),
		l("%d", vec![V::Num(1.0), V::Num(2.0)]),
		l("%5.3d|%-+5d|% 05d", vec![V::Num(7.0), V::Num(7.0), V::Num(7.0)]),
		l("%e|%.0e|%#.0e|%G", vec![V::Num(123456.0), V::Num(1.5), V::Num(1.0), V::Num(1e-5)]),
		Case { fmt: "%()s".into(), arg: V::Obj(vec![("".into(), V::Num(1.0))]), kind: "seed" },
		Case { fmt: "%(a)s %(b)05.1f %%".into(), arg: V::Obj(vec![("a".into(), V::Str("é".into())), ("b".into(), V::Num(2.25))]), kind: "seed" },
		Case { fmt: "%s".into(), arg: V::Obj(vec![("a".into(), V::Num(1.0))]), kind: "seed" },
	]
}

static KNOWN_SEEN: Mutex<std::collections::BTreeSet<&'static str>> = Mutex::new(std::collections::BTreeSet::new());

/// a failure whose deviations are all recorded as known findings of C12 is downgraded to Verdict::Known
fn apply_known(run: &Run, d: &mut Decided) {
	if d.sig.is_some() && !d.ids.is_empty() && d.ids.iter().all(|id| run.is_known(id)) {
		d.out.verdict = Verdict::Known(d.ids[0].to_owned());
		let mut seen = KNOWN_SEEN.lock().unwrap();
		for id in &d.ids {
			seen.insert(id);
		}
		d.sig = None;
	}
}

fn run_stage(run: &Run, stage: &str, cases: Vec<Case>, batch: usize) {
	let t0 = Instant::now();
	// R2: one sidecar process per 100 000 cases
	let mut py: Vec<Py> = Vec::with_capacity(cases.len());
	let mut sidecar_runs = 0;
	for chunk in cases.chunks(100_000) {
		py.extend(ask_python(chunk));
		sidecar_runs += 1;
	}
	if let Some(Py::Missing(why)) = py.iter().find(|p| matches!(p, Py::Missing(w) if w != "MemoryError" && w != "ResourceGuard")) {
		run.infra(format!("stage {stage}: sidecar problem: {why}"));
	}
	let t_py = t0.elapsed().as_secs_f64();
	let failures: Mutex<BTreeMap<String, (u64, Vec<Failure>)>> = Mutex::new(BTreeMap::new());
	let next = AtomicUsize::new(0);
	let nbatches = cases.len().div_ceil(batch);
	std::thread::scope(|scope| {
		for _ in 0..run.threads.max(1) {
			let (cases, py, failures, next) = (&cases, &py, &failures, &next);
			std::thread::Builder::new()
				.stack_size(256 << 20)
				.spawn_scoped(scope, move || loop {
					let b = next.fetch_add(1, Ordering::SeqCst);
					if b >= nbatches {
						break;
					}
					let lo = b * batch;
					let hi = (lo + batch).min(cases.len());
					let got = ask_jrsonnet(&cases[lo..hi]);
					for k in lo..hi {
						let mut d = decide(&cases[k], &py[k], &got[k - lo]);
						apply_known(run, &mut d);
						if let (Some(sig), Verdict::Fail(why)) = (d.sig.take(), &d.out.verdict) {
							let mut f = failures.lock().unwrap();
							let entry = f.entry(sig).or_default();
							entry.0 += 1;
							entry.1.push(Failure { size: cases[k].fmt.len() + cases[k].arg.lit().len(), text: d.out.text.clone(), why: why.clone(), extra: cases[k].extra() });
							if entry.1.len() > 64 {
								entry.1.sort_by(|a, b| a.size.cmp(&b.size).then(a.text.cmp(&b.text)));
								entry.1.truncate(8);
							}
						}
						run.record(stage, &d.out);
					}
				})
				.unwrap();
		}
	});
	let failures = failures.into_inner().unwrap();
	let mut families = serde_json::Map::new();
	for (sig, (count, mut list)) in failures {
		list.sort_by(|a, b| a.size.cmp(&b.size).then(a.text.cmp(&b.text)));
		families.insert(sig.clone(), json!(count));
		// the two smallest cases of every failure family become replay files
		for f in list.iter().take(2) {
			run.add_violation(stage, &f.text, &format!("[{sig}] ({count} cases of this family in stage {stage}) {}", f.why), None, f.extra.clone());
		}
	}
	run.stage_info(json!({"stage": stage, "kind": "generated-batch", "cases": cases.len(), "sidecar_runs": sidecar_runs,
		"failing_cases_by_family": families, "sidecar_s": t_py, "wall_s": t0.elapsed().as_secs_f64()}));
}

pub fn run(run: &Run) {
	run.set_rule("a decided case has a format code with a flag, width or precision that changes the text of its value (the same conversion without decoration renders differently), or several codes, or is an error case (arity, type, malformed); codes come from the full cross product conversion x flag subset x width {none,0,1,5,12,*} x precision {none,.,.0,.1,.3,.10,.*}, every number of the value domain meets every numeric conversion under 20 decorations, random multi-code strings with literal text (non-ASCII, %%), object arguments, wrong arity, wrong types, truncated codes, unknown conversions, widths/precisions up to 70000; expected answer = agreement of the documented std.format algorithm (own transcription) with CPython's % operator, disagreement => discarded");
	run.assume("CPython's % operator (/usr/bin/python3) is the second reference on the part of the mini-language that Jsonnet took over unchanged; the transcription of std.jsonnet's format (R1) alone decides #o, %s of non-strings, booleans, decorated %% and object arguments without mapping keys");
	run.assume("std.toString of containers, null, booleans, strings and small dyadic numbers is as documented ([1, \"a\"], {\"a\": 1}, [ ], { }); other numbers under %s are discarded");
	let quick = run.tier == crate::core::Tier::Quick;
	// stage 0: regression seeds
	run_stage(run, "seeds", seeds(), 1);
	// stage 1: the cross product of single codes
	let reps: u64 = run.tier.pick(1, 20);
	let mut cases = vec![];
	for rep in 0..reps {
		for i in 0..grid_size() {
			cases.push(grid_case(i, rep, run.seed));
		}
	}
	run_stage(run, "grid", cases, 120);
	// stage 2: value domain x numeric conversions x decorations
	run_stage(run, "values", values_cases(), 120);
	// stage 3: random compositions
	let n: u64 = run.tier.pick(60_000, 600_000);
	let cases: Vec<Case> = (0..n).map(|i| mix_case(i, run.seed)).collect();
	run_stage(run, "mix", cases, 120);
	// stage 4: large widths and precisions
	run_stage(run, "large", large_cases(run.tier.pick(160, 480), run.seed), 4);

	// discard rate and floors
	let (evals, discards, by_reason) = {
		let st = run.stats.lock().unwrap();
		let d: u64 = st.discarded.values().sum();
		let mut reasons: Vec<(String, u64)> = st.discarded.iter().map(|(k, v)| (k.clone(), *v)).collect();
		reasons.sort_by(|a, b| b.1.cmp(&a.1));
		(st.evaluations, d, reasons)
	};
	let rate = discards as f64 / evals.max(1) as f64;
	run.note(format!("discarded {discards} of {evals} cases ({:.1} %): references disagree or R1 gives no answer; top reasons: {}", rate * 100.0, by_reason.iter().take(6).map(|(k, v)| format!("{k} = {v}")).collect::<Vec<_>>().join("; ")));
	if rate > 0.25 {
		run.infra(format!("discard rate {:.1} % exceeds 25 %", rate * 100.0));
	}
	let floor = if quick { 200 } else { 4000 };
	for c in CONVS {
		run.require_class(&format!("conv:{c}"), floor);
	}
	for f in FLAGS {
		run.require_class(&format!("flag:{f}"), floor);
	}
	for c in CONVS.iter().filter(|c| **c != '%') {
		for f in FLAGS {
			run.require_class(&format!("conv-flag:{c}{f}"), if quick { 50 } else { 1000 });
		}
	}
	for k in ["expect:error", "expect:text", "mode:map", "mode:single", "format:malformed", "error:too many values", "error:not enough values", "error:truncated format code", "error:unrecognised conversion type", "error:format required number", "error:no such field", "width:star", "precision:star", "reference:R1-alone"] {
		run.require_class(k, if quick { 100 } else { 2000 });
	}
	// discriminating power: decided cases on which each seeded mutant of R1 answers differently from the expectation
	let kills = *KILLS.lock().unwrap();
	run.note(format!("decided cases that would fail an implementation with a seeded mistake: {}", MUTANTS.iter().zip(kills.iter()).map(|((_, what), n)| format!("{what} = {n}")).collect::<Vec<_>>().join("; ")));
	for ((_, what), n) in MUTANTS.iter().zip(kills.iter()) {
		if *n < if quick { 20 } else { 400 } {
			run.infra(format!("generator degenerate: only {n} decided cases distinguish the mistake '{what}'"));
		}
	}
	// recorded findings: run each one's own reproducer (`replay` = JSON {"fmt": .., "arg": <encoded value>}, the same
	// shape as the "extra" of a replay file); the ones met during the search but without reproducer are reported too
	let reproduced: Mutex<Vec<String>> = Mutex::new(vec![]);
	run.reproduce_known(|k| {
		let parsed = serde_json::from_str::<Value>(&k.replay).ok().and_then(|v| Some(Case { fmt: v["fmt"].as_str()?.to_owned(), arg: V::dec(&v["arg"])?, kind: "known-reproducer" }));
		let Some(case) = parsed else {
			return CaseOut::fail(k.replay.clone(), format!("reproducer of {} is not of the form {{\"fmt\": .., \"arg\": ..}}", k.id));
		};
		let py = ask_python(std::slice::from_ref(&case)).remove(0);
		let got = ask_jrsonnet(std::slice::from_ref(&case)).remove(0);
		let mut d = decide(&case, &py, &got);
		apply_known(run, &mut d);
		if let Verdict::Known(_) = &d.out.verdict {
			// the reproducer counts for the finding it belongs to if that finding is among the explanations
			if d.ids.contains(&k.id.as_str()) {
				d.out.verdict = Verdict::Known(k.id.clone());
			}
			reproduced.lock().unwrap().extend(d.ids.iter().map(|s| s.to_string()));
		}
		d.out
	});
	let reproduced = reproduced.into_inner().unwrap();
	for id in KNOWN_SEEN.lock().unwrap().iter() {
		if !reproduced.iter().any(|r| r == id) {
			run.report_known(id);
		}
	}
}

pub fn replay(run: &Run, _stage: &str, _tape: Option<&[u16]>, v: &Value) -> Option<CaseOut> {
	let e = &v["extra"];
	let fmt = e["fmt"].as_str()?.to_owned();
	let arg = V::dec(&e["arg"])?;
	let case = Case { fmt, arg, kind: "replay" };
	let py = ask_python(std::slice::from_ref(&case)).remove(0);
	let got = ask_jrsonnet(std::slice::from_ref(&case)).remove(0);
	let mut d = decide(&case, &py, &got);
	apply_known(run, &mut d);
	if let (Some(sig), Verdict::Fail(why)) = (&d.sig, &d.out.verdict) {
		d.out.verdict = Verdict::Fail(format!("[{sig}] {why}"));
	}
	Some(d.out)
}
