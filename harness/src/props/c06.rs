//! C06 — the bundled parsers accept the same language and build the same tree.
use jrsonnet_ir::Source;

use crate::{
	ast::{self, canon_ex, canon_ir, CanonOpts, Ex, Printer},
	core::{guarded, CaseOut, Run, Src},
	gen_syn::{self, RandTrivia, SynCfg},
};

pub fn src_of(code: &str) -> Source {
	Source::new_virtual("t.jsonnet".into(), code.into())
}

/// canonical tree or rejection, for each of the two evaluator parsers; Err(panic) if a parser panicked
pub fn parse_ir(code: &str) -> Result<Result<String, String>, String> {
	guarded(|| {
		jrsonnet_ir_parser::parse(code, &jrsonnet_ir_parser::ParserSettings { source: src_of(code) })
			.map(|e| canon_ir(&e, CanonOpts::default()))
			.map_err(|e| format!("{} @{}", e.message, e.location.offset))
	})
}
pub fn parse_peg(code: &str) -> Result<Result<String, String>, String> {
	guarded(|| {
		jrsonnet_peg_parser::parse(code, &jrsonnet_peg_parser::ParserSettings { source: src_of(code) })
			.map(|e| canon_ir(&e, CanonOpts::default()))
			.map_err(|e| format!("expected {} @{}", e.expected, e.location.offset))
	})
}
/// number of errors the formatter's syntax-tree parser reports
pub fn parse_rowan(code: &str) -> Result<usize, String> {
	guarded(|| {
		let (_f, errs) = jrsonnet_rowan_parser::parse(code);
		errs.len()
	})
}

pub const ALPHABET: &[&str] = &[
	"x", "1", "\"s\"", "(", ")", "[", "]", "{", "}", ",", ":", "::", ";", ".", "=", "+", "-", "*", "!", "==", "<", "&&", "in", "if", "then",
	"else", "local", "function", "for", "error", "assert", "self", "super", "$", "import", "tailstrict", "null",
];
pub const FULL_ALPHABET: &[&str] = &[
	"x", "y", "f", "1", "0", "1.5", "1e3", "\"s\"", "'t'", "@\"v\"", "(", ")", "[", "]", "{", "}", ",", ":", "::", ":::", "+:", "+::", ";", ".",
	"=", "+", "-", "*", "/", "%", "!", "~", "==", "!=", "<", ">", "<=", ">=", "<<", ">>", "&", "|", "^", "&&", "||", "in", "if", "then", "else",
	"local", "function", "for", "error", "assert", "self", "super", "$", "import", "importstr", "importbin", "tailstrict", "null", "true",
	"false", "|||\n  t\n|||",
];

#[derive(Default)]
struct Decision {
	problems: Vec<String>,
	known: Option<String>,
}

/// the differential oracle on arbitrary text
fn decide_text(run: &Run, code: &str, check_rowan: bool) -> (Decision, bool, bool) {
	let mut d = Decision::default();
	let ir = parse_ir(code);
	let peg = parse_peg(code);
	let (ir, peg) = match (ir, peg) {
		(Ok(a), Ok(b)) => (a, b),
		(a, b) => {
			if let Err(p) = a {
				d.problems.push(format!("default parser panicked: {p}"));
			}
			if let Err(p) = b {
				d.problems.push(format!("legacy parser panicked: {p}"));
			}
			return (d, false, false);
		}
	};
	match (&ir, &peg) {
		(Ok(a), Ok(b)) => {
			if a != b {
				d.problems.push(format!("both parsers accept but build different trees:\n  default: {a}\n  legacy:  {b}"));
			}
		}
		(Err(_), Err(_)) => {}
		(Ok(a), Err(e)) => d.problems.push(format!("default parser accepts ({a}) but legacy parser rejects ({e})")),
		(Err(e), Ok(b)) => d.problems.push(format!("legacy parser accepts ({b}) but default parser rejects ({e})")),
	}
	if check_rowan {
		match parse_rowan(code) {
			Ok(n) => {
				if (n == 0) != ir.is_ok() {
					d.problems.push(format!(
						"formatter's parser reports {n} errors but the evaluator's default parser {}",
						match &ir {
							Ok(t) => format!("accepts: {t}"),
							Err(e) => format!("rejects: {e}"),
						}
					));
				}
			}
			// a panic of the formatter's parser is C20's business; here it counts as "does not accept"
			Err(p) => {
				if let Ok(t) = &ir {
					d.problems.push(format!("formatter's parser panicked ({p}) on text the evaluator's parser accepts: {t}"));
				}
			}
		}
	}
	if !d.problems.is_empty() {
		d.known = known_signature(run, code, &ir, &peg);
	}
	(d, ir.is_ok(), peg.is_ok())
}

/// Narrow signatures of recorded findings (active only while listed with status "known" in known_findings.jsonl).
///
/// A failing text matches a finding iff *repairing exactly that finding's construct* in the text (a token-level
/// normalisation) or in the comparison (the documented tree rewrite) makes all three parsers agree again.
/// Anything else that is wrong with the same text survives the repair and is reported as a VIOLATION.
pub const K_ROWAN_COMP: &str = "C06-formatter-parser-comprehension-laxity";
/// The formatter's parser accepts a comma after the specs of a comprehension (`[x for a in b, ]`,
/// `{[k]: 1 for k in x, for j in y}`) and an `if` spec before the first `for`; both evaluator parsers reject.
/// Signature: the default parser stops at exactly such a token ("expected ']' / '}', got ',' / 'if' @N"), a `for` spec
/// of the same bracket stands before (comma) or after (if) it, and — for the comma — the text with that one comma
/// removed has no disagreement left.
fn rowan_comprehension_laxity(run: &Run, code: &str, ir: &Result<String, String>, peg: &Result<String, String>) -> bool {
	let (Err(msg), Err(_)) = (ir, peg) else { return false };
	if !(msg.starts_with("expected ']'") || msg.starts_with("expected '}'")) {
		return false;
	}
	let comma = msg.contains("got ','");
	if !comma && !msg.contains("got 'if'") {
		return false;
	}
	let Some(off) = msg.rsplit('@').next().and_then(|n| n.trim().parse::<usize>().ok()) else { return false };
	if off >= code.len() || !code.is_char_boundary(off) {
		return false;
	}
	if !matches!(parse_rowan(code), Ok(0)) {
		return false;
	}
	// tokens of the enclosing bracket before / after the offending token, at its own nesting depth
	let same_depth_has_for = |toks: Vec<Tok>, backwards: bool| -> bool {
		let it: Box<dyn Iterator<Item = &Tok>> = if backwards { Box::new(toks.iter().rev()) } else { Box::new(toks.iter()) };
		let mut depth = 0i32;
		for t in it {
			let (open, close) = if backwards { (["]", "}", ")"], ["[", "{", "("]) } else { (["[", "{", "("], ["]", "}", ")"]) };
			if open.contains(&t.1.as_str()) {
				depth += 1;
			} else if close.contains(&t.1.as_str()) {
				if depth == 0 {
					return false;
				}
				depth -= 1;
			} else if depth == 0 && t.1 == "for" {
				return true;
			}
		}
		false
	};
	if comma {
		if !same_depth_has_for(lex_tokens(&code[..off]), true) {
			return false;
		}
		let mut repaired = code.to_owned();
		repaired.replace_range(off..off + 1, " ");
		if residual_problems(&repaired, false, false).is_empty() {
			return true;
		}
		// what is left may be another recorded finding (decided by its own signature on the repaired text)
		match (parse_ir(&repaired), parse_peg(&repaired)) {
			(Ok(i), Ok(p)) => known_signature_inner(run, &repaired, &i, &p).is_some(),
			_ => false,
		}
	} else {
		// an `if` spec where the element of an array / the field of an object has just ended (with or without a
		// `for` spec after it): the token before it must end an operand, so it is not the `if` of a conditional
		let _ = &same_depth_has_for;
		lex_tokens(&code[..off]).last().is_some_and(ends_operand)
	}
}

fn known_signature(run: &Run, code: &str, ir: &Result<String, String>, peg: &Result<String, String>) -> Option<String> {
	if run.is_known(K_ROWAN_COMP) && rowan_comprehension_laxity(run, code, ir, peg) {
		return Some(K_ROWAN_COMP.to_owned());
	}
	known_signature_inner(run, code, ir, peg)
}
fn known_signature_inner(run: &Run, code: &str, _ir: &Result<String, String>, _peg: &Result<String, String>) -> Option<String> {
	let toks = lex_tokens(code);
	let mut cur = toks.clone();
	let mut applied: Vec<&str> = vec![];
	for (id, norm) in NORMALISERS {
		if !run.is_known(id) {
			continue;
		}
		if let Some(n) = norm(&cur) {
			cur = n;
			applied.push(id);
		}
	}
	let unary_known = false;
	let text: String = if applied.is_empty() { code.to_owned() } else { cur.iter().map(|t| t.1.as_str()).collect::<Vec<_>>().join(" ") };
	let residual = residual_problems(&text, unary_known, false);
	// legacy-only acceptance of malformed numbers: 01 (leading zero) and 1.e5 (read as the field e5 of 1)
	if !residual.is_empty() && run.is_known(K_PEG_NUM) && legacy_number_laxity(code) && residual_problems(&text, unary_known, true).is_empty() {
		return Some(K_PEG_NUM.to_owned());
	}
	if residual.is_empty() {
		if let Some(first) = applied.first() {
			return Some((*first).to_owned());
		}
	}
	None
}

pub const K_UNARY: &str = "C06-default-parser-unary-binds-looser-than-mul";
pub const K_ROWAN_PLUS: &str = "C06-formatter-parser-lacks-unary-plus";
pub const K_IMPORT: &str = "C06-computed-import-accepted";
pub const K_PEG_COMMA: &str = "C06-legacy-parser-lone-commas-and-empty-local";
pub const K_PEG_NUM: &str = "C06-legacy-parser-number-laxity";

type Tok = (jrsonnet_lexer::SyntaxKind, String);
type Normaliser = fn(&[Tok]) -> Option<Vec<Tok>>;
const NORMALISERS: &[(&str, Normaliser)] = &[
	(K_UNARY, norm_paren_unary),
	(K_ROWAN_PLUS, norm_unary_plus),
	(K_IMPORT, norm_computed_import),
	(K_PEG_COMMA, norm_lone_commas),
	(K_ROWAN_ESCAPE, norm_bad_escape),
	(K_SPLIT_COLONS, norm_split_colons),
	(K_ROWAN_TAIL, norm_paren_tail_local),
	(K_ROWAN_NUM, norm_bad_number),
];
pub const K_SPLIT_COLONS: &str = "C06-default-parser-accepts-split-colons";
pub const K_ROWAN_TAIL: &str = "C06-formatter-parser-rejects-local-as-operand";
pub const K_ROWAN_NUM: &str = "C06-formatter-parser-accepts-malformed-numbers";
pub const K_ROWAN_ESCAPE: &str = "C06-formatter-parser-ignores-string-escapes";

pub fn lex_tokens(code: &str) -> Vec<Tok> {
	use jrsonnet_lexer::SyntaxKind::*;
	let mut out: Vec<Tok> = vec![];
	let mut last_end = u32::MAX;
	for l in jrsonnet_lexer::Lexer::new(code) {
		if matches!(l.kind, WHITESPACE | SINGLE_LINE_SLASH_COMMENT | SINGLE_LINE_HASH_COMMENT | MULTI_LINE_COMMENT) {
			continue;
		}
		// the lexer yields `::` / `:::` as separate adjacent colons: keep them glued so that re-joining with spaces is faithful
		if l.text == ":" && last_end == l.range.0 && out.last().is_some_and(|p| p.1.chars().all(|c| c == ':')) {
			out.last_mut().unwrap().1.push(':');
		} else {
			out.push((l.kind, l.text.to_owned()));
		}
		last_end = l.range.1;
	}
	out
}
fn ends_operand(t: &Tok) -> bool {
	use jrsonnet_lexer::SyntaxKind::*;
	matches!(
		t.0,
		IDENT | FLOAT | STRING_DOUBLE | STRING_SINGLE | STRING_DOUBLE_VERBATIM | STRING_SINGLE_VERBATIM | STRING_BLOCK | R_PAREN | R_BRACK | R_BRACE
	) && !matches!(t.1.as_str(), "if" | "then" | "else" | "in" | "error" | "assert" | "local" | "function" | "for" | "import" | "importstr" | "importbin" | "tailstrict")
		// (`f(x) tailstrict` ends an operand: an operator after it is infix)
		|| matches!(t.1.as_str(), "self" | "super" | "$" | "null" | "true" | "false" | "tailstrict")
}
/// the formatter's parser has no unary plus: turn every prefix `+` into `-`
fn norm_unary_plus(t: &[Tok]) -> Option<Vec<Tok>> {
	let mut out = t.to_vec();
	let mut changed = false;
	for i in 0..out.len() {
		if out[i].1 == "+" && prefix_position(&out, i) {
			// `+:` field syntax is `+` directly before a colon: not a prefix operator
			if i + 1 < out.len() && out[i + 1].1.starts_with(':') {
				continue;
			}
			out[i] = (jrsonnet_lexer::SyntaxKind::MINUS, "-".to_owned());
			changed = true;
		}
	}
	changed.then_some(out)
}
/// the evaluator's parsers accept `import <any expression>` (rejected only at run time): turn such an import into `error`
fn norm_computed_import(t: &[Tok]) -> Option<Vec<Tok>> {
	use jrsonnet_lexer::SyntaxKind::*;
	let mut out = t.to_vec();
	let mut changed = false;
	for i in 0..out.len() {
		if matches!(out[i].1.as_str(), "import" | "importstr" | "importbin") {
			let next_is_string = out.get(i + 1).is_some_and(|n| {
				matches!(n.0, STRING_DOUBLE | STRING_SINGLE | STRING_DOUBLE_VERBATIM | STRING_SINGLE_VERBATIM | STRING_BLOCK)
			});
			// a string literal followed by more of an expression (import "a" + "b") is computed too
			let next_next_continues = out.get(i + 2).is_some_and(|n| {
				matches!(n.1.as_str(), "+" | "-" | "*" | "/" | "%" | "." | "[" | "(" | "{" | "==" | "!=" | "<" | ">" | "<=" | ">=" | "<<" | ">>" | "&" | "|" | "^" | "&&" | "||" | "in")
			});
			if !next_is_string || next_next_continues {
				out[i] = (ERROR_KW, "error".to_owned());
				changed = true;
			}
		}
	}
	changed.then_some(out)
}
/// the legacy parser accepts a lone comma inside empty brackets, a trailing comma after the last `local` binding and an
/// empty binding list: remove those tokens
fn norm_lone_commas(t: &[Tok]) -> Option<Vec<Tok>> {
	let mut out: Vec<Tok> = vec![];
	let mut changed = false;
	let mut i = 0;
	while i < t.len() {
		let cur = t[i].1.as_str();
		let prev = out.last().map(|p| p.1.as_str()).unwrap_or("");
		let next = t.get(i + 1).map(|n| n.1.as_str()).unwrap_or("");
		if cur == "," && matches!((prev, next), ("(", ")") | ("[", "]") | ("{", "}")) {
			changed = true;
			i += 1;
			continue;
		}
		if cur == "," && next == ";" {
			changed = true;
			i += 1;
			continue;
		}
		if cur == "local" && next == ";" {
			changed = true;
			i += 2;
			continue;
		}
		// `local , ; x`: a lone comma as the whole binding list (the legacy grammar's `x ** comma() comma()?`)
		if cur == "local" && next == "," && t.get(i + 2).is_some_and(|n| n.1 == ";") {
			changed = true;
			i += 3;
			continue;
		}
		out.push(t[i].clone());
		i += 1;
	}
	changed.then_some(out)
}

fn matching_close(t: &[Tok], open: usize) -> Option<usize> {
	let mut depth = 0i32;
	for (k, tok) in t.iter().enumerate().skip(open) {
		match tok.1.as_str() {
			"(" | "[" | "{" => depth += 1,
			")" | "]" | "}" => {
				depth -= 1;
				if depth == 0 {
					return Some(k);
				}
				if depth < 0 {
					return None;
				}
			}
			_ => {}
		}
	}
	None
}
fn is_prefix_op(t: &[Tok], i: usize) -> bool {
	matches!(t[i].1.as_str(), "-" | "+" | "!" | "~") && prefix_position(t, i) && !(t[i].1 == "+" && t.get(i + 1).is_some_and(|n| n.1.starts_with(':')))
}
/// is token `i` where an operand is expected?  (the `)` closing `function(...)` parameters does not end an operand)
fn prefix_position(t: &[Tok], i: usize) -> bool {
	if i == 0 {
		return true;
	}
	if t[i - 1].1 == ")" {
		let mut depth = 0i32;
		for k in (0..i).rev() {
			match t[k].1.as_str() {
				")" | "]" | "}" => depth += 1,
				"(" | "[" | "{" => {
					depth -= 1;
					if depth == 0 {
						return k > 0 && t[k - 1].1 == "function";
					}
				}
				_ => {}
			}
		}
		return false;
	}
	!ends_operand(&t[i - 1])
}
/// the default parser lets a prefix operator swallow a following `* / %` chain: put explicit parentheses around
/// every `<prefix ops> <postfix expression>` that is directly followed by `*`, `/` or `%`
fn norm_paren_unary(t: &[Tok]) -> Option<Vec<Tok>> {
	use jrsonnet_lexer::SyntaxKind::*;
	let mut out = t.to_vec();
	let mut changed = false;
	let mut i = out.len();
	while i > 0 {
		i -= 1;
		if !is_prefix_op(&out, i) {
			continue;
		}
		// only the outermost operator of a run of prefix operators
		if i > 0 && is_prefix_op(&out, i - 1) {
			continue;
		}
		let mut k = i + 1;
		while k < out.len() && matches!(out[k].1.as_str(), "-" | "+" | "!" | "~") {
			k += 1;
		}
		if k >= out.len() {
			continue;
		}
		match out[k].1.as_str() {
			"(" | "[" | "{" => match matching_close(&out, k) {
				Some(c) => k = c + 1,
				None => continue,
			},
			"if" | "local" | "function" | "error" | "assert" | "import" | "importstr" | "importbin" | "then" | "else" | "for" | "in" | "tailstrict" => continue,
			_ => {
				if ends_operand(&out[k]) {
					k += 1;
				} else {
					continue;
				}
			}
		}
		loop {
			if k + 1 < out.len() && out[k].1 == "." && out[k + 1].0 == IDENT {
				k += 2;
			} else if k < out.len() && matches!(out[k].1.as_str(), "(" | "[" | "{") {
				match matching_close(&out, k) {
					Some(c) => {
						k = c + 1;
						if k < out.len() && out[k].1 == "tailstrict" {
							k += 1;
						}
					}
					None => break,
				}
			} else {
				break;
			}
		}
		if k < out.len() && matches!(out[k].1.as_str(), "*" | "/" | "%") {
			out.insert(k, (R_PAREN, ")".to_owned()));
			out.insert(i, (L_PAREN, "(".to_owned()));
			changed = true;
		}
	}
	changed.then_some(out)
}

/// the default parser (and the formatter's) read `: :` / `: : :` separated by white space as `::` / `:::`: glue them
fn norm_split_colons(t: &[Tok]) -> Option<Vec<Tok>> {
	let mut out: Vec<Tok> = vec![];
	let mut changed = false;
	for tok in t {
		let is_colons = |s: &str| !s.is_empty() && s.chars().all(|c| c == ':');
		if is_colons(&tok.1) && out.last().is_some_and(|p| is_colons(&p.1)) {
			out.last_mut().unwrap().1.push_str(&tok.1);
			changed = true;
		} else {
			out.push(tok.clone());
		}
	}
	changed.then_some(out)
}
/// the formatter's parser only knows `local`/`assert` at the start of an expression, not as an operand
/// (`1 + local a = 2; a`): parenthesise such operands up to the end of their enclosing group
fn norm_paren_tail_local(t: &[Tok]) -> Option<Vec<Tok>> {
	use jrsonnet_lexer::SyntaxKind::*;
	let mut out = t.to_vec();
	let mut changed = false;
	let mut i = out.len();
	while i > 0 {
		i -= 1;
		if !matches!(out[i].1.as_str(), "local" | "assert") || i == 0 {
			continue;
		}
		let prev = out[i - 1].1.as_str();
		let after_op = matches!(
			prev,
			"+" | "-" | "*" | "/" | "%" | "!" | "~" | "==" | "!=" | "<" | ">" | "<=" | ">=" | "<<" | ">>" | "&" | "|" | "^" | "&&" | "||" | "in"
		);
		if !after_op {
			continue;
		}
		// find the `;` that ends the bindings / the assertion, then the end of the body
		let mut depth = 0i32;
		let mut seen_semi = false;
		let mut end = out.len();
		let mut ok = true;
		for k in i + 1..out.len() {
			match out[k].1.as_str() {
				"(" | "[" | "{" => depth += 1,
				")" | "]" | "}" => {
					if depth == 0 {
						end = k;
						break;
					}
					depth -= 1;
				}
				";" if depth == 0 && !seen_semi => seen_semi = true,
				"," | ";" | "then" | "else" | "for" | ":" | "::" | ":::" if depth == 0 && seen_semi => {
					end = k;
					break;
				}
				_ => {}
			}
		}
		if !seen_semi {
			ok = false;
		}
		if ok {
			out.insert(end, (R_PAREN, ")".to_owned()));
			out.insert(i, (L_PAREN, "(".to_owned()));
			changed = true;
		}
	}
	changed.then_some(out)
}
/// the formatter's parser treats the lexer's malformed-number tokens (`1.5e`, `1.`) as numbers: replace each by `1`,
/// which shows that the rest of the text is agreed upon
fn norm_bad_number(t: &[Tok]) -> Option<Vec<Tok>> {
	let mut out = t.to_vec();
	let mut changed = false;
	for tok in out.iter_mut() {
		let overflows = tok.0 == jrsonnet_lexer::SyntaxKind::FLOAT && tok.1.replace('_', "").parse::<f64>().is_ok_and(|v| !v.is_finite());
		if format!("{:?}", tok.0).starts_with("ERROR_FLOAT") || overflows {
			*tok = (jrsonnet_lexer::SyntaxKind::FLOAT, "1".to_owned());
			changed = true;
		}
	}
	changed.then_some(out)
}

/// escapes of the Jsonnet string grammar (own transcription)
pub fn escapes_valid(lit: &str) -> bool {
	if lit.len() < 2 {
		return false;
	}
	let inner: Vec<char> = lit[1..lit.len() - 1].chars().collect();
	let hex4 = |s: &[char]| -> Option<u32> {
		if s.len() < 4 {
			return None;
		}
		let mut v = 0;
		for c in &s[..4] {
			v = v * 16 + c.to_digit(16)?;
		}
		Some(v)
	};
	let mut i = 0;
	while i < inner.len() {
		if inner[i] != '\\' {
			i += 1;
			continue;
		}
		let Some(c) = inner.get(i + 1) else { return false };
		match c {
			'"' | '\'' | '\\' | '/' | 'b' | 'f' | 'n' | 'r' | 't' => i += 2,
			'u' => {
				let Some(v) = hex4(&inner[i + 2..]) else { return false };
				if (0xdc00..=0xdfff).contains(&v) {
					return false;
				}
				if (0xd800..=0xdbff).contains(&v) {
					if inner.get(i + 6) != Some(&'\\') || inner.get(i + 7) != Some(&'u') {
						return false;
					}
					let Some(lo) = inner.get(i + 8..).and_then(hex4) else { return false };
					if !(0xdc00..=0xdfff).contains(&lo) {
						return false;
					}
					i += 12;
				} else {
					i += 6;
				}
			}
			_ => return false,
		}
	}
	true
}
/// the formatter's parser does not look inside string literals: replace literals with invalid escapes by "s"
fn norm_bad_escape(t: &[Tok]) -> Option<Vec<Tok>> {
	use jrsonnet_lexer::SyntaxKind::*;
	let mut out = t.to_vec();
	let mut changed = false;
	for tok in out.iter_mut() {
		if matches!(tok.0, STRING_DOUBLE | STRING_SINGLE) && !escapes_valid(&tok.1) {
			tok.1 = "\"s\"".to_owned();
			changed = true;
		}
	}
	changed.then_some(out)
}

/// does the text contain a digit run with a leading zero, or `<digit>.<letter>`?
fn legacy_number_laxity(code: &str) -> bool {
	let b = code.as_bytes();
	for i in 0..b.len() {
		let prev_digit_or_word = i > 0 && (b[i - 1].is_ascii_alphanumeric() || b[i - 1] == b'_' || b[i - 1] == b'.');
		if b[i] == b'0' && !prev_digit_or_word && i + 1 < b.len() && (b[i + 1].is_ascii_digit() || b[i + 1] == b'_') {
			return true;
		}
		if b[i] == b'.' && i > 0 && b[i - 1].is_ascii_digit() && i + 1 < b.len() && (b[i + 1].is_ascii_alphabetic() || b[i + 1] == b'_') {
			return true;
		}
	}
	false
}

/// re-decide a (normalised) text; `fix_unary` applies the documented tree rewrite to the default parser's tree
fn residual_problems(code: &str, fix_unary: bool, ignore_legacy_accept: bool) -> Vec<String> {
	let mut problems = vec![];
	let ir = guarded(|| {
		jrsonnet_ir_parser::parse(code, &jrsonnet_ir_parser::ParserSettings { source: src_of(code) })
			.map(|e| canon_ir(&e, CanonOpts { spec_unary_precedence: fix_unary, ..CanonOpts::default() }))
			.map_err(|e| e.message)
	});
	let (Ok(ir), Ok(peg)) = (ir, parse_peg(code)) else {
		return vec!["panic".to_owned()];
	};
	match (&ir, &peg) {
		(Ok(a), Ok(b)) if a != b => problems.push("trees differ".to_owned()),
		(Err(_), Ok(_)) if ignore_legacy_accept => {}
		(Ok(_), Err(_)) | (Err(_), Ok(_)) => problems.push("acceptance differs".to_owned()),
		_ => {}
	}
	match parse_rowan(code) {
		Ok(n) => {
			if (n == 0) != ir.is_ok() {
				problems.push("formatter's parser differs".to_owned());
			}
		}
		Err(_) => {
			if ir.is_ok() {
				problems.push("formatter's parser panics".to_owned());
			}
		}
	}
	problems
}

fn out_of(d: Decision, text: String, nontrivial: bool, classes: Vec<String>) -> CaseOut {
	let mut c = if d.problems.is_empty() {
		CaseOut::pass(text, nontrivial)
	} else if let Some(k) = d.known {
		CaseOut { verdict: crate::core::Verdict::Known(k), text, nontrivial, classes: vec![] }
	} else {
		CaseOut::fail(text, d.problems.join("\n"))
	};
	c.classes = classes;
	c
}

fn token_seq_case(run: &Run, toks: &[&str]) -> CaseOut {
	let code = toks.join(" ");
	let (d, a, b) = decide_text(run, &code, true);
	let nontrivial = a || b || toks.len() >= 3;
	let cls = vec![if a { "accepted".to_owned() } else { "rejected".to_owned() }];
	out_of(d, code, nontrivial, cls)
}

/// stage 2: tree -> text -> tree
pub fn tree_case(run: &Run, src: &mut Src, depth: usize) -> CaseOut {
	let cfg = SynCfg { max_depth: depth, ..SynCfg::default() };
	let tree = gen_syn::expr(src, &cfg, depth);
	let trailing = src.chance(1, 3);
	let bare_tail = src.chance(1, 3);
	let comments = src.chance(1, 2);
	let code = {
		let mut tr = RandTrivia { src, comments, counter: 0, emitted: vec![], items_only: false };
		let mut p = Printer::new(&mut tr);
		p.trailing_commas = trailing;
		p.bare_tail = bare_tail;
		p.expr(&tree, 0, true);
		p.out
	};
	let want = canon_ex(&tree, CanonOpts::default());
	let mut classes = vec![];
	tree.walk(&mut |e| {
		classes.push(format!("node:{}", kind_of(e)));
		if let Ex::Bin(op, a, b) = e {
			if let Ex::Bin(l, ..) = &**a {
				classes.push(format!("pair:{}-left-of-{}", l.sym(), op.sym()));
			}
			if let Ex::Bin(r, ..) = &**b {
				classes.push(format!("pair:{}-right-of-{}", r.sym(), op.sym()));
			}
		}
	});
	classes.sort();
	classes.dedup();
	let (mut d, _, _) = decide_text(run, &code, true);
	let mut unexplained: Vec<String> = vec![];
	let mut abs_known: Option<String> = None;
	for (name, r) in [("default", parse_ir(&code)), ("legacy", parse_peg(&code))] {
		match r {
			Ok(Ok(t)) => {
				if t != want {
					// recorded finding: the default parser binds prefix operators looser than * / %
					if name == "default" && run.is_known(K_UNARY) {
						if let Some(n) = norm_paren_unary(&lex_tokens(&code)) {
							let text: String = n.iter().map(|t| t.1.as_str()).collect::<Vec<_>>().join(" ");
							if parse_ir(&text) == Ok(Ok(want.clone())) {
								abs_known = Some(K_UNARY.to_owned());
								continue;
							}
						}
					}
					unexplained.push(format!("{name} parser built a different tree than the one printed:\n  expected: {want}\n  got:      {t}"));
				}
			}
			Ok(Err(e)) => unexplained.push(format!("{name} parser rejects a valid program: {e}")),
			Err(_) => {}
		}
	}
	if !unexplained.is_empty() {
		d.problems.extend(unexplained);
		d.known = None;
	} else if d.problems.is_empty() {
		if let Some(k) = abs_known {
			d.problems.push("default parser's tree differs from the printed tree only by the recorded unary-precedence finding".to_owned());
			d.known = Some(k);
		}
	}
	let nontrivial = tree.size() >= 4;
	out_of(d, code, nontrivial, classes)
}

fn known_tree_signature(_run: &Run, _tree: &Ex) -> Option<String> {
	None
}

pub fn kind_of(e: &Ex) -> &'static str {
	use Ex::*;
	match e {
		Null | True | False => "literal",
		SelfE => "self",
		Dollar => "dollar",
		Num(..) => "num",
		Str(_, st) => match st {
			ast::StrStyle::Double => "str-double",
			ast::StrStyle::Single => "str-single",
			ast::StrStyle::VerbDouble | ast::StrStyle::VerbSingle => "str-verbatim",
			ast::StrStyle::Block => "str-block",
		},
		Var(_) => "var",
		Arr(_) => "array",
		ArrComp(..) => "arrcomp",
		Obj(_) => "object",
		ObjComp { .. } => "objcomp",
		ObjExt(..) => "objext",
		Index(..) => "index",
		Dot(..) => "dot",
		SuperDot(_) | SuperIndex(_) => "super",
		InSuper(_) => "insuper",
		Slice(..) => "slice",
		Call(_, _, named, ts) => {
			if *ts {
				"call-tailstrict"
			} else if !named.is_empty() {
				"call-named"
			} else {
				"call"
			}
		}
		Func(..) => "function",
		Local(..) => "local",
		If(_, _, None) => "if",
		If(..) => "ifelse",
		Un(..) => "unary",
		Bin(..) => "binary",
		Error(_) => "error",
		Assert(..) => "assert",
		Import(_) | ImportStr(_) | ImportBin(_) => "import",
		Paren(_) => "paren",
	}
}

// ---- stage 3: literals with a known decoding ----

struct Lit {
	text: String,
	/// expected canonical decoding, or None = must be rejected
	want: Option<String>,
}

fn string_lits(src: &mut Src) -> Lit {
	// build a string literal piece by piece together with its decoding
	let quote = *src.pick(&['"', '\'']);
	let verbatim = src.chance(1, 5);
	let mut text = String::new();
	let mut val = String::new();
	let mut valid = true;
	if verbatim {
		text.push('@');
	}
	text.push(quote);
	let n = src.range(0, 6);
	for _ in 0..n {
		if verbatim {
			match src.weighted(&[4, 2, 1, 1, 1]) {
				0 => {
					let c = *src.pick(&['a', 'é', '😀', ' ', '%']);
					text.push(c);
					val.push(c);
				}
				1 => {
					text.push(quote);
					text.push(quote);
					val.push(quote);
				}
				2 => {
					text.push('\\');
					val.push('\\');
				}
				3 => {
					text.push('\n');
					val.push('\n');
				}
				_ => {
					let other = if quote == '"' { '\'' } else { '"' };
					text.push(other);
					val.push(other);
				}
			}
			continue;
		}
		match src.weighted(&[5, 4, 2, 2, 1, 1]) {
			0 => {
				let c = *src.pick(&['a', 'é', '😀', ' ', '%', '/', '\t']);
				text.push(c);
				val.push(c);
			}
			1 => {
				let (e, v) = *src.pick(&[
					("\\\"", '"'),
					("\\'", '\''),
					("\\\\", '\\'),
					("\\/", '/'),
					("\\b", '\u{8}'),
					("\\f", '\u{c}'),
					("\\n", '\n'),
					("\\r", '\r'),
					("\\t", '\t'),
				]);
				text.push_str(e);
				val.push(v);
			}
			2 => {
				let cp = *src.pick(&[0x41u32, 0xe9, 0x0, 0x7f, 0x2028, 0xffff, 0xd7ff, 0xe000]);
				let upper = src.chance(1, 2);
				if upper {
					text.push_str(&format!("\\u{cp:04X}"));
				} else {
					text.push_str(&format!("\\u{cp:04x}"));
				}
				val.push(char::from_u32(cp).unwrap());
			}
			3 => {
				// surrogate pair
				let c = *src.pick(&['😀', '𝄞', '\u{10000}', '\u{10ffff}']);
				let v = c as u32 - 0x10000;
				text.push_str(&format!("\\u{:04x}\\u{:04x}", 0xd800 + (v >> 10), 0xdc00 + (v & 0x3ff)));
				val.push(c);
			}
			4 => {
				// invalid escapes: must be rejected
				let e = *src.pick(&["\\q", "\\u12", "\\u12g4", "\\ud800", "\\udc00", "\\ud800\\u0041", "\\a", "\\0"]);
				text.push_str(e);
				valid = false;
				// nothing may follow: a later piece could complete the escape into a valid one
				break;
			}
			_ => {
				let other = if quote == '"' { '\'' } else { '"' };
				text.push(other);
				val.push(other);
			}
		}
	}
	text.push(quote);
	Lit { text, want: if valid { Some(format!("s{val:?}")) } else { None } }
}

fn number_lits(src: &mut Src) -> Lit {
	// digit groups with optional underscores, fraction, exponent; plus malformed forms
	if src.chance(1, 4) {
		let bad = *src.pick(&["01", "1.", "1e", "1e+", "1__0", "1_", "1._5", "1e_5", "1.5e", "00", "0x10", "1_e3", "1.e5"]);
		return Lit { text: bad.to_owned(), want: None };
	}
	let mut text = String::new();
	let mut clean = String::new();
	let int = *src.pick(&["0", "1", "7", "10", "123", "1_000", "1_0", "9_9_9", "12345678901234567890", "4_2"]);
	text.push_str(int);
	clean.push_str(&int.replace('_', ""));
	if src.chance(1, 2) {
		let fr = *src.pick(&["0", "5", "25", "0_1", "000", "1_2_3", "999999999999"]);
		text.push('.');
		text.push_str(fr);
		clean.push('.');
		clean.push_str(&fr.replace('_', ""));
	}
	if src.chance(1, 3) {
		let e = *src.pick(&["e0", "e3", "E3", "e+3", "e-3", "E+10", "e1_0", "e-1_0", "e300"]);
		text.push_str(e);
		clean.push_str(&e.replace('_', ""));
	}
	let v: f64 = clean.parse().unwrap();
	if v.is_finite() {
		Lit { text, want: Some(format!("n{v:?}")) }
	} else {
		Lit { text, want: None }
	}
}

fn block_lits(src: &mut Src) -> Lit {
	// text block with known decoding
	let indent = *src.pick(&["  ", "\t", " ", "    ", " \t"]);
	let chomp = src.chance(1, 4);
	let nlines = src.range(1, 4);
	let mut text = String::from(if chomp { "|||-\n" } else { "|||\n" });
	let mut val = String::new();
	// blank lines before the first indented line belong to the content
	for _ in 0..src.weighted(&[6, 2, 1]) {
		text.push('\n');
		val.push('\n');
	}
	for i in 0..nlines {
		match src.weighted(&[5, if i > 0 { 2 } else { 0 }, if i > 0 { 2 } else { 0 }]) {
			0 => {
				let l = if i == 0 {
					*src.pick(&["a", "é x", "||| not end", "\"q\" 'q' \\n", "a\tb", "|||"])
				} else {
					*src.pick(&["a", "é x", "||| not end", "  ", "\"q\" 'q' \\n", "a\tb", "|||"])
				};
				// a first-column ||| can only appear after the indentation, which is the case here
				text.push_str(indent);
				text.push_str(l);
				text.push('\n');
				val.push_str(l);
				val.push('\n');
			}
			1 => {
				text.push('\n');
				val.push('\n');
			}
			_ => {
				let l = *src.pick(&["deeper", "x"]);
				text.push_str(indent);
				text.push_str("  ");
				text.push_str(l);
				text.push('\n');
				val.push_str("  ");
				val.push_str(l);
				val.push('\n');
			}
		}
	}
	let term_indent = *src.pick(&["", " ", ""]);
	// the terminator may be indented less than the block
	let term_indent = if indent.starts_with(term_indent) && term_indent.len() < indent.len() { term_indent } else { "" };
	text.push_str(term_indent);
	text.push_str("|||");
	if chomp {
		val.pop();
	}
	Lit { text, want: Some(format!("s{val:?}")) }
}

fn literal_case(run: &Run, src: &mut Src) -> CaseOut {
	let (kind, lit) = match src.weighted(&[3, 2, 2]) {
		0 => ("string", string_lits(src)),
		1 => ("number", number_lits(src)),
		_ => ("textblock", block_lits(src)),
	};
	let wrap = src.below(3);
	let (code, want) = match wrap {
		0 => (lit.text.clone(), lit.want.clone()),
		1 => (format!("[{}]", lit.text), lit.want.clone().map(|w| format!("[{w}]"))),
		_ => (format!("{} + x", lit.text), lit.want.clone().map(|w| format!("(bin + {w} v:x)"))),
	};
	let (mut d, _, _) = decide_text(run, &code, true);
	let mut unexplained = vec![];
	for (name, r) in [("default", parse_ir(&code)), ("legacy", parse_peg(&code))] {
		match (r, &want) {
			(Ok(Ok(t)), Some(w)) => {
				if &t != w {
					unexplained.push(format!("{name} parser decoded the literal differently: expected {w}, got {t}"));
				}
			}
			(Ok(Err(e)), Some(w)) => unexplained.push(format!("{name} parser rejects a valid literal (expected {w}): {e}")),
			(Ok(Ok(t)), None) => {
				// the recorded legacy-parser number laxity explains a legacy-only acceptance
				if !(name == "legacy" && run.is_known(K_PEG_NUM) && legacy_number_laxity(&code) && d.known.is_some()) {
					unexplained.push(format!("{name} parser accepts an ill-formed literal as {t}"));
				}
			}
			_ => {}
		}
	}
	if !unexplained.is_empty() {
		d.problems.extend(unexplained);
		d.known = None;
	}
	let cls = vec![format!("literal:{kind}"), format!("literal:{kind}:{}", if want.is_some() { "valid" } else { "invalid" })];
	out_of(d, code, true, cls)
}

// ---- stage 4: single-token mutations of valid programs ----

fn mutation_case(run: &Run, src: &mut Src) -> CaseOut {
	let cfg = SynCfg::default();
	let tree = gen_syn::expr(src, &cfg, 3);
	let code = ast::print(&tree);
	let mut toks: Vec<String> = jrsonnet_lexer::Lexer::new(&code)
		.filter(|l| !matches!(l.kind, jrsonnet_lexer::SyntaxKind::WHITESPACE))
		.map(|l| l.text.to_owned())
		.collect();
	if toks.is_empty() {
		return CaseOut::discard(code, "empty");
	}
	let i = src.below(toks.len());
	let kind = match src.below(4) {
		0 => {
			toks.remove(i);
			"delete"
		}
		1 => {
			let t = (*src.pick(FULL_ALPHABET)).to_owned();
			toks.insert(i, t);
			"insert"
		}
		2 => {
			let t = toks[i].clone();
			toks.insert(i, t);
			"duplicate"
		}
		_ => {
			if i + 1 < toks.len() {
				toks.swap(i, i + 1);
			}
			"swap"
		}
	};
	let mutated = toks.join(" ");
	let (d, a, _) = decide_text(run, &mutated, true);
	let cls = vec![format!("mutation:{kind}"), format!("mutation:{}", if a { "accepted" } else { "rejected" })];
	out_of(d, mutated, true, cls)
}

pub fn run(run: &Run) {
	run.set_rule("token sequences (exhaustive up to a length bound over a reduced alphabet; random longer ones over the full alphabet), generated syntax trees printed with minimal parentheses and random trivia, literals with a known decoding, and single-token mutations of valid programs. Oracles: both evaluator parsers agree (accept/reject, span-erased tree), each equals the tree/decoding the generator started from, formatter's parser error-free iff accepted. Non-trivial = accepted by a parser or >=3 tokens; distinct by text.");
	run.assume("precedence/associativity and literal decoding tables in harness/src/ast.rs and c06.rs are transcribed from the Jsonnet specification");
	// recorded findings: each one's own reproducer
	run.reproduce_known(|k| {
		let (d, _, _) = decide_text(run, &k.replay, true);
		out_of(d, k.replay.clone(), true, vec![])
	});
	// regression seeds
	let regs: Vec<&str> = REGRESSIONS.to_vec();
	run.enumerate("regressions", regs.len() as u64, |i| {
		let code = regs[i as usize];
		let (d, _, _) = decide_text(run, code, true);
		out_of(d, code.to_owned(), true, vec![])
	});
	// stage 1: exhaustive token sequences
	let k = ALPHABET.len() as u64;
	let maxlen = run.tier.pick(3u32, 4);
	for len in 1..=maxlen {
		let n = k.pow(len);
		run.enumerate(&format!("exhaustive-tokens-len{len}"), n, |mut i| {
			let mut toks = vec![];
			for _ in 0..len {
				toks.push(ALPHABET[(i % k) as usize]);
				i /= k;
			}
			token_seq_case(run, &toks)
		});
	}
	run.exhaustive.store(true, std::sync::atomic::Ordering::SeqCst);
	run.note(format!("exhaustive: all token sequences of length 1..={maxlen} over {k} tokens; other stages sampled"));
	let n = run.tier.pick(600_000, 6_000_000);
	run.explore("random-tokens", n, 5..=14, |src| {
		let len = src.range(5, 14) as usize;
		let toks: Vec<&str> = (0..len).map(|_| *src.pick(FULL_ALPHABET)).collect();
		token_seq_case(run, &toks)
	});
	let n = run.tier.pick(300_000, 3_000_000);
	run.explore("trees", n, 10..=200, |src| tree_case(run, src, 4));
	let n = run.tier.pick(100_000, 1_000_000);
	run.explore("literals", n, 4..=40, |src| literal_case(run, src));
	let n = run.tier.pick(300_000, 3_000_000);
	run.explore("mutations", n, 10..=120, |src| mutation_case(run, src));
	for c in ["literal:string:valid", "literal:string:invalid", "literal:number:valid", "literal:number:invalid", "literal:textblock"] {
		run.require_class(c, 20);
	}
}

/// one seed per repaired defect (known_findings.jsonl, status "fixed") plus hand-picked probes
const REGRESSIONS: &[&str] = &["a ^ b ^ c", "a ^ b ^ c ^ d | e", "\"\\/\"", "'a\\/b'", "[1, 2][0:1]", "{ a: 1 } { b: 2 }", "local f(x, y=1) = x + y; f(2, y=3)"];

pub fn replay(run: &Run, stage: &str, tape: Option<&[u16]>, v: &serde_json::Value) -> Option<CaseOut> {
	match (stage, tape) {
		("trees", Some(t)) => Some(tree_case(run, &mut Src::new(t), 4)),
		("literals", Some(t)) => Some(literal_case(run, &mut Src::new(t))),
		("mutations", Some(t)) => Some(mutation_case(run, &mut Src::new(t))),
		_ => {
			// every other stage is decided on the text alone
			let code = v["case"].as_str()?;
			let (d, _, _) = decide_text(run, code, true);
			Some(out_of(d, code.to_owned(), true, vec![]))
		}
	}
}

pub fn debug(code: &str) {
	println!("default: {:?}", parse_ir(code));
	println!("legacy:  {:?}", parse_peg(code));
	println!("rowan errors: {:?}", parse_rowan(code));
	let run = Run::new("C06", crate::core::Tier::Quick, 1);
	let toks = lex_tokens(code);
	println!("tokens: {:?}", toks.iter().map(|t| t.1.as_str()).collect::<Vec<_>>());
	for (id, n) in NORMALISERS {
		println!("normaliser {id} (active {}): {:?}", run.is_known(id), n(&toks).map(|t| t.iter().map(|t| t.1.clone()).collect::<Vec<_>>().join(" ")));
	}
	println!("known signature: {:?}", known_signature(&run, code, &Ok(String::new()), &Ok(String::new())));
}
