//! C10 — stdlib array, set and higher-order functions match their reference definitions.
//!
//! Every case is one call `std.f(args)` with generated arguments.  The expected result comes from a Rust
//! transcription of the documented definition (std.jsonnet) over a small lazy value model: array elements are
//! `Result<V, Er>` ("a thunk that evaluates to a value or raises"), so the model also says which elements and which
//! user-function calls the definition needs.  Each call is observed twice: full manifestation and `std.length` only.
use std::cmp::Ordering;

use serde_json::Value;

use crate::{
	core::{CaseOut, Run, Src, Tier, Verdict},
	jr::{self, Opts, Outcome},
	json::{self, J},
};

// ───────────────────────────── value model ─────────────────────────────

/// why a thunk failed: `elem` = an `error "el"` element of the *input* was forced (jrsonnet may legitimately be lazier
/// or use another order, so such an expectation is not enforced); otherwise a documented argument error or the error
/// of a user function that the definition must call.
#[derive(Clone, Debug)]
pub struct Er {
	elem: bool,
	msg: String,
}
pub type R = Result<V, Er>;

#[derive(Clone, Debug)]
pub enum V {
	Null,
	Bool(bool),
	Num(f64),
	Str(String),
	Arr(Vec<R>),
	Obj(Vec<(String, V)>),
}

fn arg(msg: &str) -> Er {
	Er { elem: false, msg: msg.to_owned() }
}
fn el_err() -> R {
	Err(Er { elem: true, msg: "el".to_owned() })
}
fn num(x: f64) -> R {
	Ok(V::Num(x))
}
fn st(s: &str) -> R {
	Ok(V::Str(s.to_owned()))
}
fn arr_of(v: Vec<V>) -> V {
	V::Arr(v.into_iter().map(Ok).collect())
}
fn obj_k(x: f64) -> V {
	V::Obj(vec![("k".to_owned(), V::Num(x))])
}

fn tname(v: &V) -> &'static str {
	match v {
		V::Null => "null",
		V::Bool(_) => "boolean",
		V::Num(_) => "number",
		V::Str(_) => "string",
		V::Arr(_) => "array",
		V::Obj(_) => "object",
	}
}

fn num_text(x: f64) -> String {
	if x == 0.0 && x.is_sign_negative() {
		return "-0".to_owned();
	}
	if x.fract() == 0.0 && x.abs() < 1e15 {
		format!("{}", x as i64)
	} else {
		format!("{x}")
	}
}

/// Jsonnet source text of a (lazy) value
fn lit(r: &R) -> String {
	match r {
		Err(e) => format!("error \"{}\"", e.msg),
		Ok(v) => lit_v(v),
	}
}
fn lit_v(v: &V) -> String {
	match v {
		V::Null => "null".to_owned(),
		V::Bool(b) => b.to_string(),
		V::Num(x) => num_text(*x),
		V::Str(s) => {
			let mut o = String::new();
			json::write_str(s, &mut o);
			o
		}
		V::Arr(a) => format!("[{}]", a.iter().map(lit).collect::<Vec<_>>().join(", ")),
		V::Obj(f) => format!(
			"{{{}}}",
			f.iter()
				.map(|(k, v)| {
					let mut o = String::new();
					json::write_str(k, &mut o);
					format!("{o}: {}", lit_v(v))
				})
				.collect::<Vec<_>>()
				.join(", ")
		),
	}
}

/// deep forcing = manifestation
fn deep(r: &R) -> Result<J, Er> {
	Ok(match r.clone()? {
		V::Null => J::Null,
		V::Bool(b) => J::Bool(b),
		V::Num(x) => J::Num(x),
		V::Str(s) => J::Str(s),
		V::Arr(a) => J::Arr(a.iter().map(deep).collect::<Result<Vec<_>, _>>()?),
		V::Obj(f) => {
			let mut f = f;
			f.sort_by(|a, b| a.0.cmp(&b.0));
			J::Obj(f.into_iter().map(|(k, v)| Ok((k, deep(&Ok(v))?))).collect::<Result<Vec<_>, Er>>()?)
		}
	})
}

/// equal JSON, with the sign of zero told apart (`-0` and `0` are different JSON texts; this is what makes ties
/// between equal keys visible)
fn exact_same(a: &J, b: &J) -> bool {
	match (a, b) {
		(J::Num(x), J::Num(y)) => x == y && x.is_sign_negative() == y.is_sign_negative(),
		(J::Arr(x), J::Arr(y)) => x.len() == y.len() && x.iter().zip(y).all(|(p, q)| exact_same(p, q)),
		(J::Obj(x), J::Obj(y)) => x.len() == y.len() && x.iter().zip(y).all(|((k1, v1), (k2, v2))| k1 == k2 && exact_same(v1, v2)),
		(x, y) => x == y,
	}
}

/// `==`
fn equals(a: &V, b: &V) -> Result<bool, Er> {
	Ok(match (a, b) {
		(V::Null, V::Null) => true,
		(V::Bool(x), V::Bool(y)) => x == y,
		(V::Num(x), V::Num(y)) => x == y,
		(V::Str(x), V::Str(y)) => x == y,
		(V::Arr(x), V::Arr(y)) => {
			if x.len() != y.len() {
				return Ok(false);
			}
			for (p, q) in x.iter().zip(y) {
				if !equals(&p.clone()?, &q.clone()?)? {
					return Ok(false);
				}
			}
			true
		}
		(V::Obj(x), V::Obj(y)) => {
			if x.len() != y.len() {
				return Ok(false);
			}
			for (k, v) in x {
				match y.iter().find(|f| &f.0 == k) {
					Some((_, w)) => {
						if !equals(v, w)? {
							return Ok(false);
						}
					}
					None => return Ok(false),
				}
			}
			true
		}
		_ => false,
	})
}

/// the ordering behind `<`, `<=`, `>`, `>=` and `std.__compare`: numbers, strings (code points) and arrays
/// (lexicographic); everything else and mixed types are errors
fn compare(a: &V, b: &V) -> Result<Ordering, Er> {
	match (a, b) {
		(V::Num(x), V::Num(y)) => Ok(x.partial_cmp(y).unwrap_or(Ordering::Equal)),
		(V::Str(x), V::Str(y)) => Ok(x.cmp(y)),
		(V::Arr(x), V::Arr(y)) => {
			for (p, q) in x.iter().zip(y) {
				let o = compare(&p.clone()?, &q.clone()?)?;
				if o != Ordering::Equal {
					return Ok(o);
				}
			}
			Ok(x.len().cmp(&y.len()))
		}
		_ if tname(a) != tname(b) => Err(arg("comparison of different types")),
		_ => Err(arg("values of this type are not comparable")),
	}
}

/// std.toString / string coercion of `+`
fn to_string(v: &V, top: bool) -> Result<String, Er> {
	Ok(match v {
		V::Null => "null".to_owned(),
		V::Bool(b) => b.to_string(),
		V::Num(x) => num_text(*x),
		V::Str(s) => {
			if top {
				s.clone()
			} else {
				let mut o = String::new();
				json::write_str(s, &mut o);
				o
			}
		}
		V::Arr(a) => {
			if a.is_empty() {
				"[ ]".to_owned()
			} else {
				let mut parts = vec![];
				for e in a {
					parts.push(to_string(&e.clone()?, false)?);
				}
				format!("[{}]", parts.join(", "))
			}
		}
		V::Obj(f) => {
			if f.is_empty() {
				"{ }".to_owned()
			} else {
				let mut f = f.clone();
				f.sort_by(|a, b| a.0.cmp(&b.0));
				let mut parts = vec![];
				for (k, v) in &f {
					let mut o = String::new();
					json::write_str(k, &mut o);
					parts.push(format!("{o}: {}", to_string(v, false)?));
				}
				format!("{{{}}}", parts.join(", "))
			}
		}
	})
}

/// binary `+`
fn plus(a: &R, b: &R) -> R {
	let a = a.clone()?;
	let b = b.clone()?;
	match (&a, &b) {
		(V::Str(_), _) | (_, V::Str(_)) => Ok(V::Str(format!("{}{}", to_string(&a, true)?, to_string(&b, true)?))),
		(V::Num(x), V::Num(y)) => Ok(V::Num(x + y)),
		(V::Arr(x), V::Arr(y)) => Ok(V::Arr(x.iter().chain(y.iter()).cloned().collect())),
		(V::Obj(x), V::Obj(y)) => {
			let mut out = x.clone();
			for (k, v) in y {
				match out.iter_mut().find(|f| &f.0 == k) {
					Some(f) => f.1 = v.clone(),
					None => out.push((k.clone(), v.clone())),
				}
			}
			Ok(V::Obj(out))
		}
		_ => Err(arg("binary + on these types")),
	}
}

fn std_length(v: &V) -> R {
	match v {
		V::Str(s) => num(s.chars().count() as f64),
		V::Arr(a) => num(a.len() as f64),
		V::Obj(f) => num(f.len() as f64),
		_ => Err(arg("std.length of this type")),
	}
}

// ───────────────────────────── function pool ─────────────────────────────

#[derive(Clone, Copy, PartialEq, Eq, Debug)]
enum Kind {
	Num,
	Str,
	Bool,
	Arr,
	Obj,
	Mixed,
}

pub struct Fun {
	text: &'static str,
	m: fn(&[R]) -> R,
	/// element kinds on which the function is total and gives mutually comparable keys (used to build sets)
	dom: &'static [Kind],
	/// does the function look at its (element) argument?  (lazy stages prefer functions that do not)
	forcing: bool,
}

fn boom() -> Er {
	arg("boom")
}
fn m_id(a: &[R]) -> R {
	a[0].clone()
}
fn m_neg(a: &[R]) -> R {
	match a[0].clone()? {
		V::Num(x) => num(-x),
		_ => Err(arg("unary minus on a non-number")),
	}
}
fn m_mod2(a: &[R]) -> R {
	match a[0].clone()? {
		V::Num(x) => num(x % 2.0),
		_ => Err(arg("% on a non-number")),
	}
}
fn m_const0(_a: &[R]) -> R {
	num(0.0)
}
fn m_wrap(a: &[R]) -> R {
	Ok(V::Arr(vec![a[0].clone()]))
}
fn m_str(a: &[R]) -> R {
	Ok(V::Str(to_string(&a[0].clone()?, true)?))
}
fn m_k(a: &[R]) -> R {
	match a[0].clone()? {
		V::Obj(f) => f.iter().find(|f| f.0 == "k").map(|f| f.1.clone()).ok_or_else(|| arg("no field k")),
		_ => Err(arg("field access on a non-object")),
	}
}
fn m_len(a: &[R]) -> R {
	std_length(&a[0].clone()?)
}
fn m_partial1(a: &[R]) -> R {
	let v = a[0].clone()?;
	if equals(&v, &V::Num(1.0))? {
		Err(boom())
	} else {
		Ok(v)
	}
}
fn m_typechg(a: &[R]) -> R {
	let v = a[0].clone()?;
	match v {
		V::Num(x) if x % 2.0 == 0.0 => Ok(v),
		_ => Ok(V::Str(to_string(&v, true)?)),
	}
}
fn m_bad_arity(_a: &[R]) -> R {
	Err(arg("function called with the wrong number of arguments"))
}

const ALLK: &[Kind] = &[Kind::Num, Kind::Str, Kind::Bool, Kind::Arr, Kind::Obj, Kind::Mixed];
const ORD: &[Kind] = &[Kind::Num, Kind::Str, Kind::Arr];

/// one-argument functions used as keyF / map functions (index 0 = simplest)
static KEYS: &[Fun] = &[
	Fun { text: "function(x) x", m: m_id, dom: ORD, forcing: true },
	Fun { text: "function(x) -x", m: m_neg, dom: &[Kind::Num], forcing: true },
	Fun { text: "function(x) x % 2", m: m_mod2, dom: &[Kind::Num], forcing: true },
	Fun { text: "function(x) 0", m: m_const0, dom: ALLK, forcing: false },
	Fun { text: "function(x) [x]", m: m_wrap, dom: ORD, forcing: false },
	Fun { text: "function(x) \"\" + x", m: m_str, dom: ALLK, forcing: true },
	Fun { text: "function(x) x.k", m: m_k, dom: &[Kind::Obj], forcing: true },
	Fun { text: "std.length", m: m_len, dom: &[Kind::Str, Kind::Arr, Kind::Obj], forcing: true },
	Fun { text: "function(x, y=0) x", m: m_id, dom: ORD, forcing: true },
	Fun { text: "function(x) if x == 1 then error \"boom\" else x", m: m_partial1, dom: ORD, forcing: true },
	Fun { text: "function(x) if std.isNumber(x) && x % 2 == 0 then x else std.toString(x)", m: m_typechg, dom: &[Kind::Str, Kind::Bool, Kind::Obj], forcing: true },
	Fun { text: "function(x, y) x", m: m_bad_arity, dom: &[], forcing: false },
	Fun { text: "function() 0", m: m_bad_arity, dom: &[], forcing: false },
];

fn m_eq1(a: &[R]) -> R {
	Ok(V::Bool(equals(&a[0].clone()?, &V::Num(1.0))?))
}
fn m_isnum(a: &[R]) -> R {
	Ok(V::Bool(matches!(a[0].clone()?, V::Num(_))))
}
fn m_isstr(a: &[R]) -> R {
	Ok(V::Bool(matches!(a[0].clone()?, V::Str(_))))
}
fn m_true(_a: &[R]) -> R {
	Ok(V::Bool(true))
}
fn m_false(_a: &[R]) -> R {
	Ok(V::Bool(false))
}
fn m_gt0(a: &[R]) -> R {
	Ok(V::Bool(compare(&a[0].clone()?, &V::Num(0.0))? == Ordering::Greater))
}
fn m_yes2(a: &[R]) -> R {
	if equals(&a[0].clone()?, &V::Num(2.0))? {
		st("yes")
	} else {
		Ok(V::Bool(true))
	}
}
fn m_one(_a: &[R]) -> R {
	num(1.0)
}
fn m_null(_a: &[R]) -> R {
	Ok(V::Null)
}
fn m_boom1_true(a: &[R]) -> R {
	if equals(&a[0].clone()?, &V::Num(1.0))? {
		Err(boom())
	} else {
		Ok(V::Bool(true))
	}
}
fn m_ne_a(a: &[R]) -> R {
	Ok(V::Bool(!equals(&a[0].clone()?, &V::Str("a".into()))?))
}

/// predicates (index 0 = simplest)
static PREDS: &[Fun] = &[
	Fun { text: "function(x) true", m: m_true, dom: ALLK, forcing: false },
	Fun { text: "function(x) false", m: m_false, dom: ALLK, forcing: false },
	Fun { text: "function(x) x == 1", m: m_eq1, dom: ALLK, forcing: true },
	Fun { text: "function(x) x != \"a\"", m: m_ne_a, dom: ALLK, forcing: true },
	Fun { text: "function(x) std.isNumber(x)", m: m_isnum, dom: ALLK, forcing: true },
	Fun { text: "function(x) std.isString(x)", m: m_isstr, dom: ALLK, forcing: true },
	Fun { text: "function(x) x > 0", m: m_gt0, dom: &[Kind::Num], forcing: true },
	Fun { text: "function(x) x", m: m_id, dom: &[Kind::Bool], forcing: true },
	Fun { text: "function(x) if x == 2 then \"yes\" else true", m: m_yes2, dom: ALLK, forcing: true },
	Fun { text: "function(x) 1", m: m_one, dom: ALLK, forcing: false },
	Fun { text: "function(x) null", m: m_null, dom: ALLK, forcing: false },
	Fun { text: "function(x) if x == 1 then error \"boom\" else true", m: m_boom1_true, dom: ALLK, forcing: true },
	Fun { text: "function(x, y) true", m: m_bad_arity, dom: &[], forcing: false },
];

fn m2_pair(a: &[R]) -> R {
	Ok(V::Arr(vec![a[0].clone(), a[1].clone()]))
}
fn m2_plus(a: &[R]) -> R {
	plus(&a[0], &a[1])
}
fn m2_cat(a: &[R]) -> R {
	// "<" + p + "," + q + ">"
	let s = plus(&st("<"), &a[0]);
	let s = plus(&s, &st(","));
	let s = plus(&s, &a[1]);
	plus(&s, &st(">"))
}
fn m2_fst(a: &[R]) -> R {
	a[0].clone()
}
fn m2_snd(a: &[R]) -> R {
	a[1].clone()
}
fn m2_boom(a: &[R]) -> R {
	let p = a[0].clone()?;
	if equals(&p, &V::Num(1.0))? {
		return Err(boom());
	}
	let q = a[1].clone()?;
	if equals(&q, &V::Num(1.0))? {
		return Err(boom());
	}
	Ok(V::Arr(vec![Ok(p), Ok(q)]))
}

/// two-argument functions (folds, mapWithIndex)
static FOLDS: &[Fun] = &[
	Fun { text: "function(p, q) [p, q]", m: m2_pair, dom: ALLK, forcing: false },
	Fun { text: "function(p, q) p + q", m: m2_plus, dom: ALLK, forcing: true },
	Fun { text: "function(p, q) \"<\" + p + \",\" + q + \">\"", m: m2_cat, dom: ALLK, forcing: true },
	Fun { text: "function(p, q) p", m: m2_fst, dom: ALLK, forcing: false },
	Fun { text: "function(p, q) q", m: m2_snd, dom: ALLK, forcing: false },
	Fun { text: "function(p, q) 0", m: m_const0, dom: ALLK, forcing: false },
	Fun { text: "function(p, q) if p == 1 || q == 1 then error \"boom\" else [p, q]", m: m2_boom, dom: ALLK, forcing: true },
	Fun { text: "function(p) p", m: m_bad_arity, dom: &[], forcing: false },
	Fun { text: "function(p, q, r) p", m: m_bad_arity, dom: &[], forcing: false },
];

fn m_dup(a: &[R]) -> R {
	Ok(V::Arr(vec![a[0].clone(), a[0].clone()]))
}
fn m_empty_arr(_a: &[R]) -> R {
	Ok(V::Arr(vec![]))
}
fn m_null_on1(a: &[R]) -> R {
	let v = a[0].clone()?;
	if equals(&v, &V::Num(1.0))? {
		Ok(V::Null)
	} else {
		Ok(V::Arr(vec![Ok(v)]))
	}
}
fn m_seven_on1(a: &[R]) -> R {
	let v = a[0].clone()?;
	if equals(&v, &V::Num(1.0))? {
		num(7.0)
	} else {
		Ok(V::Arr(vec![Ok(v)]))
	}
}
fn m_boom_on1_wrap(a: &[R]) -> R {
	let v = a[0].clone()?;
	if equals(&v, &V::Num(1.0))? {
		Err(boom())
	} else {
		Ok(V::Arr(vec![Ok(v)]))
	}
}
/// functions for std.flatMap over arrays
static FLATS: &[Fun] = &[
	Fun { text: "function(x) [x]", m: m_wrap, dom: ALLK, forcing: false },
	Fun { text: "function(x) [x, x]", m: m_dup, dom: ALLK, forcing: false },
	Fun { text: "function(x) []", m: m_empty_arr, dom: ALLK, forcing: false },
	Fun { text: "function(x) x", m: m_id, dom: &[Kind::Arr], forcing: true },
	Fun { text: "function(x) if x == 1 then null else [x]", m: m_null_on1, dom: ALLK, forcing: true },
	Fun { text: "function(x) if x == 1 then 7 else [x]", m: m_seven_on1, dom: ALLK, forcing: true },
	Fun { text: "function(x) if x == 1 then error \"boom\" else [x]", m: m_boom_on1_wrap, dom: ALLK, forcing: true },
	Fun { text: "function(x, y) [x]", m: m_bad_arity, dom: &[], forcing: false },
];

fn m_cc(a: &[R]) -> R {
	plus(&a[0], &a[0])
}
fn m_empty_str(_a: &[R]) -> R {
	st("")
}
fn m_one_on_a(a: &[R]) -> R {
	let v = a[0].clone()?;
	if equals(&v, &V::Str("a".into()))? {
		num(1.0)
	} else {
		Ok(v)
	}
}
fn m_boom_on_a(a: &[R]) -> R {
	let v = a[0].clone()?;
	if equals(&v, &V::Str("a".into()))? {
		Err(boom())
	} else {
		Ok(v)
	}
}
/// functions for std.flatMap over strings
static FLATS_STR: &[Fun] = &[
	Fun { text: "function(c) c", m: m_id, dom: ALLK, forcing: true },
	Fun { text: "function(c) c + c", m: m_cc, dom: ALLK, forcing: true },
	Fun { text: "function(c) \"\"", m: m_empty_str, dom: ALLK, forcing: false },
	Fun { text: "function(c) if c == \"a\" then 1 else c", m: m_one_on_a, dom: ALLK, forcing: true },
	Fun { text: "function(c) [c]", m: m_wrap, dom: ALLK, forcing: false },
	Fun { text: "function(c) if c == \"a\" then error \"boom\" else c", m: m_boom_on_a, dom: ALLK, forcing: true },
];

fn m_times2(a: &[R]) -> R {
	match a[0].clone()? {
		V::Num(x) => num(x * 2.0),
		_ => Err(arg("* on a non-number")),
	}
}
fn m_s_plus(a: &[R]) -> R {
	plus(&st("s"), &a[0])
}
fn m_boom_always(_a: &[R]) -> R {
	Err(boom())
}
/// functions for std.makeArray
static MAKERS: &[Fun] = &[
	Fun { text: "function(i) i", m: m_id, dom: ALLK, forcing: true },
	Fun { text: "function(i) i * 2", m: m_times2, dom: ALLK, forcing: true },
	Fun { text: "function(i) [i]", m: m_wrap, dom: ALLK, forcing: false },
	Fun { text: "function(i) \"s\" + i", m: m_s_plus, dom: ALLK, forcing: true },
	Fun { text: "function(i) 0", m: m_const0, dom: ALLK, forcing: false },
	Fun { text: "function(i) if i == 1 then error \"boom\" else i", m: m_partial1, dom: ALLK, forcing: true },
	Fun { text: "function(i) error \"boom\"", m: m_boom_always, dom: ALLK, forcing: true },
	Fun { text: "function(i, j) i", m: m_bad_arity, dom: &[], forcing: false },
];

fn ftext(f: &Fun) -> String {
	if f.text.starts_with("std.") {
		f.text.to_owned()
	} else {
		format!("({})", f.text)
	}
}
fn key(f: Option<&Fun>, x: &R) -> R {
	match f {
		None => x.clone(),
		Some(f) => (f.m)(std::slice::from_ref(x)),
	}
}

// ───────────────────────────── reference definitions ─────────────────────────────

/// expected result of a call: a (lazy) result, or "the documentation leaves this open" (only crashes are failures)
pub enum M {
	Is(R),
	Open(&'static str),
}
macro_rules! t {
	($e:expr) => {
		match $e {
			Ok(v) => v,
			Err(e) => return M::Is(Err(e)),
		}
	};
}
fn is_arr(v: Vec<R>) -> M {
	M::Is(Ok(V::Arr(v)))
}

/// sort(arr, keyF): stable, keys compared with `<`.  With fewer than two elements nothing is compared (and keyF is not
/// called).  Which pairs a sorting routine compares is not fixed: when *no* pair of keys is incomparable the result is
/// the stable sort; when the "comparable" relation does not even connect the keys (mixed types, booleans, ...) every
/// routine must hit an error; in between nothing is demanded.
fn m_sort(a: &[R], f: Option<&Fun>) -> M {
	if a.len() <= 1 {
		return is_arr(a.to_vec());
	}
	let mut keys = vec![];
	let mut first_err: Option<Er> = None;
	for x in a {
		match key(f, x) {
			Ok(k) => keys.push(k),
			Err(e) => {
				// every key is needed; an error of the key function (or documented type error) wins over an input thunk
				match &first_err {
					Some(p) if !p.elem || e.elem => {}
					_ => first_err = Some(e),
				}
			}
		}
	}
	if let Some(e) = first_err {
		return M::Is(Err(e));
	}
	let n = keys.len();
	let mut ok = vec![vec![true; n]; n];
	let mut any_bad = false;
	for i in 0..n {
		for j in (i + 1)..n {
			match compare(&keys[i], &keys[j]) {
				Ok(_) => {}
				Err(e) => {
					if e.elem {
						return M::Open("sort key contains an erroring element");
					}
					ok[i][j] = false;
					ok[j][i] = false;
					any_bad = true;
				}
			}
		}
	}
	if any_bad {
		// connected?
		let mut seen = vec![false; n];
		let mut stack = vec![0usize];
		seen[0] = true;
		while let Some(i) = stack.pop() {
			for j in 0..n {
				if i != j && ok[i][j] && !seen[j] {
					seen[j] = true;
					stack.push(j);
				}
			}
		}
		return if seen.iter().all(|s| *s) { M::Open("only some pairs of sort keys are incomparable") } else { M::Is(Err(arg("sort keys are not comparable"))) };
	}
	// stable insertion sort on `<`
	let mut idx: Vec<usize> = (0..n).collect();
	for i in 1..n {
		let mut j = i;
		while j > 0 && compare(&keys[idx[j]], &keys[idx[j - 1]]).unwrap() == Ordering::Less {
			idx.swap(j, j - 1);
			j -= 1;
		}
	}
	is_arr(idx.into_iter().map(|i| a[i].clone()).collect())
}

/// uniq(arr, keyF) = foldl(f, arr, []) with f(a, b) = if a == [] then [b] else if keyF(a[last]) == keyF(b) then a else a + [b]
fn m_uniq(a: &[R], f: Option<&Fun>) -> M {
	let mut acc: Vec<R> = vec![];
	for b in a {
		if acc.is_empty() {
			acc.push(b.clone());
			continue;
		}
		let ka = t!(key(f, acc.last().unwrap()));
		let kb = t!(key(f, b));
		if !t!(equals(&ka, &kb)) {
			acc.push(b.clone());
		}
	}
	is_arr(acc)
}

fn m_set(a: &[R], f: Option<&Fun>) -> M {
	match m_sort(a, f) {
		M::Is(Ok(V::Arr(s))) => m_uniq(&s, f),
		other => other,
	}
}

fn m_set_union(a: &[R], b: &[R], f: Option<&Fun>) -> R {
	let (mut i, mut j) = (0, 0);
	let mut acc = vec![];
	loop {
		if i >= a.len() {
			acc.extend(b[j..].iter().cloned());
			break;
		}
		if j >= b.len() {
			acc.extend(a[i..].iter().cloned());
			break;
		}
		let ak = key(f, &a[i])?;
		let bk = key(f, &b[j])?;
		if equals(&ak, &bk)? {
			acc.push(a[i].clone());
			i += 1;
			j += 1;
		} else if compare(&ak, &bk)? == Ordering::Less {
			acc.push(a[i].clone());
			i += 1;
		} else {
			acc.push(b[j].clone());
			j += 1;
		}
	}
	Ok(V::Arr(acc))
}
fn m_set_inter(a: &[R], b: &[R], f: Option<&Fun>) -> R {
	let (mut i, mut j) = (0, 0);
	let mut acc = vec![];
	while i < a.len() && j < b.len() {
		let ak = key(f, &a[i])?;
		let bk = key(f, &b[j])?;
		if equals(&ak, &bk)? {
			acc.push(a[i].clone());
			i += 1;
			j += 1;
		} else if compare(&ak, &bk)? == Ordering::Less {
			i += 1;
		} else {
			j += 1;
		}
	}
	Ok(V::Arr(acc))
}
fn m_set_diff(a: &[R], b: &[R], f: Option<&Fun>) -> R {
	let (mut i, mut j) = (0, 0);
	let mut acc = vec![];
	loop {
		if i >= a.len() {
			break;
		}
		if j >= b.len() {
			acc.extend(a[i..].iter().cloned());
			break;
		}
		let ak = key(f, &a[i])?;
		let bk = key(f, &b[j])?;
		if equals(&ak, &bk)? {
			i += 1;
			j += 1;
		} else if compare(&ak, &bk)? == Ordering::Less {
			acc.push(a[i].clone());
			i += 1;
		} else {
			j += 1;
		}
	}
	Ok(V::Arr(acc))
}
fn m_set_member(x: &R, a: &[R], f: Option<&Fun>) -> R {
	match m_set_inter(std::slice::from_ref(x), a, f)? {
		V::Arr(v) => Ok(V::Bool(!v.is_empty())),
		_ => unreachable!(),
	}
}

/// find(value, arr) = indexes i with arr[i] == value (every element is compared)
fn m_find(x: &V, a: &[R]) -> Result<Vec<usize>, Er> {
	let mut out = vec![];
	for (i, e) in a.iter().enumerate() {
		if equals(&e.clone()?, x)? {
			out.push(i);
		}
	}
	Ok(out)
}
/// removeAt(arr, at) = [arr[i] for i in range(0, len - 1) if i != at]
fn m_remove_at(a: &[R], at: i64) -> Vec<R> {
	a.iter().enumerate().filter(|(i, _)| *i as i64 != at).map(|(_, e)| e.clone()).collect()
}
/// contains(arr, elem) = any([e == elem for e in arr]) (stops at the first hit)
fn m_contains(a: &[R], x: &V) -> R {
	for e in a {
		if equals(&e.clone()?, x)? {
			return Ok(V::Bool(true));
		}
	}
	Ok(V::Bool(false))
}

/// flattenArrays(arrs) = foldl(function(a, b) a + b, arrs, [])
fn m_flatten_arrays(arrs: &[R]) -> M {
	let mut acc: Vec<R> = vec![];
	for e in arrs {
		match t!(e.clone()) {
			V::Arr(v) => acc.extend(v),
			V::Str(_) => return M::Open("string element in flattenArrays (array + string is string concatenation in the definition)"),
			_ => return M::Is(Err(arg("flattenArrays element is not an array"))),
		}
	}
	is_arr(acc)
}
fn m_flatten_deep(v: &R, out: &mut Vec<R>) -> Result<(), Er> {
	match v.clone()? {
		V::Arr(a) => {
			for e in &a {
				m_flatten_deep(e, out)?;
			}
		}
		_ => out.push(v.clone()),
	}
	Ok(())
}

fn m_foldl(f: &Fun, items: &[R], init: R) -> R {
	let mut run = init;
	for it in items {
		run = Ok((f.m)(&[run, it.clone()])?);
	}
	run
}
fn m_foldr(f: &Fun, items: &[R], init: R) -> R {
	let mut run = init;
	for it in items.iter().rev() {
		run = Ok((f.m)(&[it.clone(), run])?);
	}
	run
}
fn chars_of(s: &str) -> Vec<R> {
	s.chars().map(|c| Ok(V::Str(c.to_string()))).collect()
}

fn m_map(f: &Fun, a: &[R]) -> Vec<R> {
	a.iter().map(|e| (f.m)(std::slice::from_ref(e))).collect()
}
/// filter: the predicate is called on every element and must return a boolean
fn m_filter(f: &Fun, a: &[R]) -> Result<Vec<R>, Er> {
	let mut out = vec![];
	for e in a {
		match (f.m)(std::slice::from_ref(e))? {
			V::Bool(true) => out.push(e.clone()),
			V::Bool(false) => {}
			_ => return Err(arg("filter function must return a boolean")),
		}
	}
	Ok(out)
}

/// join(sep, arr): null skipped, separator only between emitted elements, type errors
fn m_join(sep: &V, a: &[R]) -> R {
	let is_str = match sep {
		V::Str(_) => true,
		V::Arr(_) => false,
		_ => return Err(arg("join first parameter should be string or array")),
	};
	let mut first = true;
	let mut s = String::new();
	let mut v: Vec<R> = vec![];
	for e in a {
		match (e.clone()?, sep) {
			(V::Null, _) => {}
			(V::Str(x), V::Str(sp)) => {
				if !first {
					s.push_str(sp);
				}
				first = false;
				s.push_str(&x);
			}
			(V::Arr(x), V::Arr(sp)) => {
				if !first {
					v.extend(sp.iter().cloned());
				}
				first = false;
				v.extend(x);
			}
			_ => return Err(arg("join element has the wrong type")),
		}
	}
	Ok(if is_str { V::Str(s) } else { V::Arr(v) })
}
fn m_deep_join(x: &R) -> R {
	match x.clone()? {
		V::Str(s) => Ok(V::Str(s)),
		V::Arr(a) => {
			let mut parts = vec![];
			for e in &a {
				parts.push(m_deep_join(e));
			}
			// join('', [...]) looks at the elements in order
			m_join(&V::Str(String::new()), &parts)
		}
		_ => Err(arg("deepJoin: expected string or array")),
	}
}

/// any / all with the documented short cut; a non-boolean after the deciding element is left open
fn m_any_all(a: &[R], all: bool) -> M {
	for (i, e) in a.iter().enumerate() {
		match t!(e.clone()) {
			V::Bool(b) => {
				if b != all {
					let later_bad = a[i + 1..].iter().any(|x| !matches!(x, Ok(V::Bool(_))));
					return if later_bad { M::Open("non-boolean after the deciding element of any/all") } else { M::Is(Ok(V::Bool(b))) };
				}
			}
			_ => return M::Is(Err(arg("any/all element is not a boolean"))),
		}
	}
	M::Is(Ok(V::Bool(all)))
}

/// sum = foldl(a + b, arr, 0): only numeric elements are meaningful; strings would concatenate (left open)
fn m_sum(a: &[R]) -> M {
	let mut acc = 0.0f64;
	let mut open = false;
	for e in a {
		match t!(e.clone()) {
			V::Num(x) => acc += x,
			V::Str(_) => open = true,
			_ => return if open { M::Open("string element in sum/avg") } else { M::Is(Err(arg("sum element is not a number"))) },
		}
	}
	if open {
		return M::Open("string element in sum/avg");
	}
	M::Is(num(acc))
}

/// minArray / maxArray = foldl(minFn, arr, arr[0]) with std.__compare on keys; the first extreme element wins
fn m_top(a: &[R], f: Option<&Fun>, on_empty: Option<&R>, max: bool) -> M {
	if a.is_empty() {
		return M::Is(match on_empty {
			Some(r) => r.clone(),
			None => Err(arg("expected at least one element")),
		});
	}
	let mut cur = a[0].clone();
	for b in a {
		let ka = t!(key(f, &cur));
		let kb = t!(key(f, b));
		match compare(&ka, &kb) {
			Err(e) => {
				if a.len() == 1 && !e.elem {
					return M::Open("minArray/maxArray of one element of a type without an order");
				}
				return M::Is(Err(e));
			}
			Ok(o) => {
				if (!max && o == Ordering::Greater) || (max && o == Ordering::Less) {
					cur = b.clone();
				}
			}
		}
	}
	M::Is(cur)
}

/// slice(indexable, index, end, step) with Python-style negative index/end
fn m_slice(items: &[R], index: Option<i64>, end: Option<i64>, step: Option<i64>) -> Result<Vec<R>, Er> {
	let len = items.len() as i64;
	let index = match index {
		None => 0,
		Some(i) if i < 0 => (len + i).max(0),
		Some(i) => i,
	};
	let end = match end {
		None => len,
		Some(e) if e < 0 => len + e,
		Some(e) => e,
	};
	let step = step.unwrap_or(1);
	if step <= 0 {
		return Err(arg("slice step must be positive"));
	}
	let mut out = vec![];
	let mut cur = index;
	while cur < end && cur < len {
		out.push(items[cur as usize].clone());
		cur += step;
	}
	Ok(out)
}

// ───────────────────────────── generators ─────────────────────────────

#[derive(Clone, Copy)]
pub struct Cfg {
	/// thorough tier: arrays of up to 40 elements
	long: bool,
	/// inputs may contain `error "el"` elements and functions that ignore their argument are preferred
	lazy: bool,
}

pub struct Q {
	class: &'static str,
	expr: String,
	model: M,
	nontrivial: bool,
}

const NUMS: [f64; 6] = [0.0, -0.0, 1.0, 2.0, -1.0, 1.5];
const STRS: [&str; 4] = ["", "a", "b", "ab"];

fn alphabet(kind: Kind) -> Vec<V> {
	match kind {
		Kind::Num => NUMS.iter().map(|x| V::Num(*x)).collect(),
		Kind::Str => STRS.iter().map(|s| V::Str((*s).to_owned())).collect(),
		Kind::Bool => vec![V::Bool(true), V::Bool(false), V::Null],
		Kind::Arr => vec![arr_of(vec![]), arr_of(vec![V::Num(1.0)]), arr_of(vec![V::Num(1.0), V::Num(2.0)]), arr_of(vec![V::Num(0.0)]), arr_of(vec![V::Num(-0.0)])],
		Kind::Obj => vec![obj_k(1.0), obj_k(2.0)],
		Kind::Mixed => {
			let mut v = vec![];
			for k in [Kind::Num, Kind::Str, Kind::Bool, Kind::Arr, Kind::Obj] {
				v.extend(alphabet(k));
			}
			v
		}
	}
}
fn gen_kind(src: &mut Src) -> Kind {
	[Kind::Num, Kind::Str, Kind::Mixed, Kind::Arr, Kind::Bool, Kind::Obj][src.weighted(&[32, 20, 30, 7, 5, 6])]
}
fn gen_len(src: &mut Src, cfg: Cfg) -> usize {
	if cfg.long && src.chance(1, 3) {
		src.range(9, 40) as usize
	} else {
		src.range(0, 8) as usize
	}
}
fn gen_val(src: &mut Src, kind: Kind) -> V {
	let a = alphabet(kind);
	a[src.below(a.len())].clone()
}
fn gen_arr_kind(src: &mut Src, cfg: Cfg, kind: Kind, len: usize) -> Vec<R> {
	let a = alphabet(kind);
	// a narrow window of the alphabet forces duplicates and ties
	let (off, width) = if src.chance(1, 2) { (src.below(a.len()), 2 + src.below(2)) } else { (0, a.len()) };
	(0..len)
		.map(|_| {
			if cfg.lazy && src.chance(1, 5) {
				return el_err();
			}
			Ok(a[(off + src.below(width)) % a.len()].clone())
		})
		.collect()
}
fn gen_arr(src: &mut Src, cfg: Cfg) -> Vec<R> {
	let kind = gen_kind(src);
	let len = gen_len(src, cfg);
	gen_arr_kind(src, cfg, kind, len)
}
fn arr_lit(a: &[R]) -> String {
	format!("[{}]", a.iter().map(lit).collect::<Vec<_>>().join(", "))
}
fn pick_fun<'a>(src: &mut Src, cfg: Cfg, pool: &'a [Fun]) -> &'a Fun {
	if cfg.lazy && src.chance(2, 3) {
		let lazy: Vec<&Fun> = pool.iter().filter(|f| !f.forcing && !f.dom.is_empty()).collect();
		if !lazy.is_empty() {
			return lazy[src.below(lazy.len())];
		}
	}
	&pool[src.below(pool.len())]
}
/// optional key function: None = argument omitted
fn pick_key(src: &mut Src, cfg: Cfg) -> Option<&'static Fun> {
	if src.chance(3, 4) {
		Some(pick_fun(src, cfg, KEYS))
	} else {
		None
	}
}
fn has_tie(a: &[R], f: Option<&Fun>) -> bool {
	let keys: Vec<V> = a.iter().filter_map(|x| key(f, x).ok()).collect();
	for i in 0..keys.len() {
		for j in (i + 1)..keys.len() {
			if equals(&keys[i], &keys[j]).unwrap_or(false) {
				return true;
			}
		}
	}
	false
}
/// a value of a type that no array/string parameter accepts
fn wrong_arg(src: &mut Src) -> &'static str {
	["5", "true", "null"][src.below(3)]
}
const WRONG: usize = 16;

/// A function of the wrong arity violates the documented expectation about `func`; whether that is noticed before the
/// first call is not specified.  Demanded: an error whenever the definition must call it right away.
fn arity_open(fs: &[Option<&Fun>], m: M) -> M {
	let bad = fs.iter().any(|f| matches!(f, Some(f) if f.dom.is_empty()));
	match m {
		M::Is(Ok(_)) if bad => M::Open("wrong-arity function that the definition does not call (or calls lazily)"),
		m => m,
	}
}

fn call(name: &str, args: &[String]) -> String {
	format!("std.{name}({})", args.join(", "))
}
/// `f(arr)`, `f(arr, keyF)`, `f(arr, keyF=keyF)`
fn with_key(src: &mut Src, name: &str, mut args: Vec<String>, f: Option<&Fun>) -> String {
	if let Some(f) = f {
		if src.chance(1, 3) {
			args.push(format!("keyF={}", ftext(f)));
		} else {
			args.push(ftext(f));
		}
	}
	call(name, &args)
}

fn q_sort(src: &mut Src, cfg: Cfg) -> Q {
	let a = gen_arr(src, cfg);
	let f = pick_key(src, cfg);
	if src.chance(1, WRONG) {
		let w = wrong_arg(src);
		return Q { class: "sort", expr: with_key(src, "sort", vec![w.to_owned()], f), model: M::Is(Err(arg("not an array"))), nontrivial: true };
	}
	Q { class: "sort", expr: with_key(src, "sort", vec![arr_lit(&a)], f), model: arity_open(&[f], m_sort(&a, f)), nontrivial: a.len() >= 2 && has_tie(&a, f) }
}
fn q_uniq(src: &mut Src, cfg: Cfg) -> Q {
	let mut a = gen_arr(src, cfg);
	let f = pick_key(src, cfg);
	// uniq is meant for sorted input: sort half of the inputs (when possible)
	if src.chance(1, 2) {
		if let M::Is(Ok(V::Arr(s))) = m_sort(&a, f) {
			a = s;
		}
	}
	if src.chance(1, WRONG) {
		let w = wrong_arg(src);
		return Q { class: "uniq", expr: with_key(src, "uniq", vec![w.to_owned()], f), model: M::Is(Err(arg("not an array"))), nontrivial: true };
	}
	Q { class: "uniq", expr: with_key(src, "uniq", vec![arr_lit(&a)], f), model: arity_open(&[f], m_uniq(&a, f)), nontrivial: a.len() >= 2 && has_tie(&a, f) }
}
fn q_set(src: &mut Src, cfg: Cfg) -> Q {
	let a = gen_arr(src, cfg);
	let f = pick_key(src, cfg);
	if src.chance(1, WRONG) {
		let w = wrong_arg(src);
		return Q { class: "set", expr: with_key(src, "set", vec![w.to_owned()], f), model: M::Is(Err(arg("not an array"))), nontrivial: true };
	}
	Q { class: "set", expr: with_key(src, "set", vec![arr_lit(&a)], f), model: arity_open(&[f], m_set(&a, f)), nontrivial: a.len() >= 2 && has_tie(&a, f) }
}

/// a genuine set under `f`, built by the reference `set`; every key is defined and of an ordered type
fn gen_set(src: &mut Src, cfg: Cfg, f: Option<&Fun>, kind: Kind) -> Vec<R> {
	for _ in 0..4 {
		let len = gen_len(src, cfg);
		let a = gen_arr_kind(src, Cfg { lazy: false, ..cfg }, kind, len);
		if let M::Is(Ok(V::Arr(s))) = m_set(&a, f) {
			let fine = s.iter().all(|e| matches!(key(f, e), Ok(V::Num(_) | V::Str(_) | V::Arr(_))));
			if fine {
				return s;
			}
		}
	}
	vec![]
}
/// key function usable for sets, and an element kind on which it is defined
fn gen_set_key(src: &mut Src) -> (Option<&'static Fun>, Kind) {
	if src.chance(1, 4) {
		return (None, ORD[src.below(ORD.len())]);
	}
	let usable: Vec<&Fun> = KEYS.iter().filter(|f| !f.dom.is_empty()).collect();
	let f = usable[src.below(usable.len())];
	(Some(f), f.dom[src.below(f.dom.len())])
}
fn other_kind(src: &mut Src, f: Option<&Fun>, kind: Kind) -> Kind {
	// rarely the second operand has keys of another type
	if src.chance(1, 10) {
		let dom = f.map(|f| f.dom).unwrap_or(ORD);
		dom[src.below(dom.len())]
	} else {
		kind
	}
}
fn q_set_bin(src: &mut Src, cfg: Cfg, name: &'static str) -> Q {
	let (f, kind) = gen_set_key(src);
	let a = gen_set(src, cfg, f, kind);
	let k2 = other_kind(src, f, kind);
	let b = gen_set(src, cfg, f, k2);
	if src.chance(1, WRONG) {
		let w = wrong_arg(src).to_owned();
		let args = if src.chance(1, 2) { vec![w, arr_lit(&b)] } else { vec![arr_lit(&a), w] };
		return Q { class: name, expr: with_key(src, name, args, f), model: M::Is(Err(arg("not an array"))), nontrivial: true };
	}
	let model = match name {
		"setUnion" => m_set_union(&a, &b, f),
		"setInter" => m_set_inter(&a, &b, f),
		_ => m_set_diff(&a, &b, f),
	};
	Q { class: name, expr: with_key(src, name, vec![arr_lit(&a), arr_lit(&b)], f), model: M::Is(model), nontrivial: !a.is_empty() || !b.is_empty() }
}
fn q_set_union(src: &mut Src, cfg: Cfg) -> Q {
	q_set_bin(src, cfg, "setUnion")
}
fn q_set_inter(src: &mut Src, cfg: Cfg) -> Q {
	q_set_bin(src, cfg, "setInter")
}
fn q_set_diff(src: &mut Src, cfg: Cfg) -> Q {
	q_set_bin(src, cfg, "setDiff")
}
fn q_set_member(src: &mut Src, cfg: Cfg) -> Q {
	let (f, kind) = gen_set_key(src);
	let a = gen_set(src, cfg, f, kind);
	let x: R = if !a.is_empty() && src.chance(1, 2) {
		a[src.below(a.len())].clone()
	} else if src.chance(1, 8) {
		Ok(gen_val(src, Kind::Mixed))
	} else {
		Ok(gen_val(src, kind))
	};
	if src.chance(1, WRONG) {
		let w = wrong_arg(src).to_owned();
		return Q { class: "setMember", expr: with_key(src, "setMember", vec![lit(&x), w], f), model: M::Is(Err(arg("not an array"))), nontrivial: true };
	}
	Q { class: "setMember", expr: with_key(src, "setMember", vec![lit(&x), arr_lit(&a)], f), model: M::Is(m_set_member(&x, &a, f)), nontrivial: a.len() >= 2 }
}

/// an element of `a` (when possible) or another value of the alphabet
fn gen_needle(src: &mut Src, a: &[R]) -> V {
	let present: Vec<&V> = a.iter().filter_map(|e| e.as_ref().ok()).collect();
	if !present.is_empty() && src.chance(2, 3) {
		present[src.below(present.len())].clone()
	} else {
		gen_val(src, Kind::Mixed)
	}
}
const HAY: [&str; 6] = ["", "a", "ab", "abab", "ba", "aé😀"];
fn q_member(src: &mut Src, cfg: Cfg) -> Q {
	if src.chance(1, 4) {
		// string haystack
		let s = HAY[src.below(HAY.len())];
		let x = if src.chance(1, 6) { gen_val(src, Kind::Mixed) } else { V::Str(["a", "", "b", "ab", "ba", "é", "😀", "abc"][src.below(8)].to_owned()) };
		let model = match &x {
			V::Str(p) => Ok(V::Bool(!p.is_empty() && s.contains(p.as_str()))),
			_ => Err(arg("member of a string needs a string")),
		};
		return Q { class: "member", expr: call("member", &[lit_v(&V::Str(s.to_owned())), lit_v(&x)]), model: M::Is(model), nontrivial: true };
	}
	let a = gen_arr(src, cfg);
	let x = gen_needle(src, &a);
	if src.chance(1, WRONG) {
		let w = wrong_arg(src).to_owned();
		return Q { class: "member", expr: call("member", &[w, lit_v(&x)]), model: M::Is(Err(arg("not an array or string"))), nontrivial: true };
	}
	let model = m_find(&x, &a).map(|v| V::Bool(!v.is_empty()));
	Q { class: "member", expr: call("member", &[arr_lit(&a), lit_v(&x)]), model: M::Is(model), nontrivial: a.len() >= 2 }
}
fn q_contains(src: &mut Src, cfg: Cfg) -> Q {
	let a = gen_arr(src, cfg);
	let x = gen_needle(src, &a);
	if src.chance(1, WRONG) {
		let w = wrong_arg(src).to_owned();
		return Q { class: "contains", expr: call("contains", &[w, lit_v(&x)]), model: M::Is(Err(arg("not an array"))), nontrivial: true };
	}
	Q { class: "contains", expr: call("contains", &[arr_lit(&a), lit_v(&x)]), model: M::Is(m_contains(&a, &x)), nontrivial: a.len() >= 2 }
}
fn q_find(src: &mut Src, cfg: Cfg) -> Q {
	let a = gen_arr(src, cfg);
	let x = gen_needle(src, &a);
	if src.chance(1, WRONG) {
		let w = ["5", "true", "null", "\"ab\"", "{k: 1}"][src.below(5)].to_owned();
		return Q { class: "find", expr: call("find", &[lit_v(&x), w]), model: M::Is(Err(arg("not an array"))), nontrivial: true };
	}
	let model = m_find(&x, &a).map(|v| arr_of(v.into_iter().map(|i| V::Num(i as f64)).collect()));
	Q { class: "find", expr: call("find", &[lit_v(&x), arr_lit(&a)]), model: M::Is(model), nontrivial: a.len() >= 2 }
}
fn q_count(src: &mut Src, cfg: Cfg) -> Q {
	let a = gen_arr(src, cfg);
	let x = gen_needle(src, &a);
	if src.chance(1, WRONG) {
		let w = wrong_arg(src).to_owned();
		return Q { class: "count", expr: call("count", &[w, lit_v(&x)]), model: M::Is(Err(arg("not an array"))), nontrivial: true };
	}
	let model = m_find(&x, &a).map(|v| V::Num(v.len() as f64));
	Q { class: "count", expr: call("count", &[arr_lit(&a), lit_v(&x)]), model: M::Is(model), nontrivial: a.len() >= 2 }
}
fn q_remove(src: &mut Src, cfg: Cfg) -> Q {
	let a = gen_arr(src, cfg);
	let x = gen_needle(src, &a);
	if src.chance(1, WRONG) {
		let w = wrong_arg(src).to_owned();
		return Q { class: "remove", expr: call("remove", &[w, lit_v(&x)]), model: M::Is(Err(arg("not an array"))), nontrivial: true };
	}
	let model = m_find(&x, &a).map(|v| match v.first() {
		None => V::Arr(a.clone()),
		Some(i) => V::Arr(m_remove_at(&a, *i as i64)),
	});
	Q { class: "remove", expr: call("remove", &[arr_lit(&a), lit_v(&x)]), model: M::Is(model), nontrivial: a.len() >= 2 }
}
fn q_remove_at(src: &mut Src, cfg: Cfg) -> Q {
	let a = gen_arr(src, cfg);
	let n = a.len() as i64;
	let at = if src.chance(1, 2) { src.range(0, n.max(1) - 1) } else { src.range(-3, n + 3) };
	if src.chance(1, WRONG) {
		let w = wrong_arg(src).to_owned();
		return Q { class: "removeAt", expr: call("removeAt", &[w, num_text(at as f64)]), model: M::Is(Err(arg("not an array"))), nontrivial: true };
	}
	let boundary = at <= 0 || at >= n - 1;
	Q { class: "removeAt", expr: call("removeAt", &[arr_lit(&a), num_text(at as f64)]), model: is_arr(m_remove_at(&a, at)), nontrivial: boundary || a.len() >= 2 }
}

fn q_flatten_arrays(src: &mut Src, cfg: Cfg) -> Q {
	if src.chance(1, WRONG) {
		let w = wrong_arg(src).to_owned();
		return Q { class: "flattenArrays", expr: call("flattenArrays", &[w]), model: M::Is(Err(arg("not an array"))), nontrivial: true };
	}
	let n = src.range(0, 5) as usize;
	let mut outer: Vec<R> = vec![];
	for _ in 0..n {
		if cfg.lazy && src.chance(1, 8) {
			outer.push(el_err());
		} else if src.chance(1, 12) {
			outer.push(Ok(gen_val(src, Kind::Mixed)));
		} else {
			let kind = gen_kind(src);
			let len = src.range(0, if cfg.long { 12 } else { 4 }) as usize;
			outer.push(Ok(V::Arr(gen_arr_kind(src, cfg, kind, len))));
		}
	}
	Q { class: "flattenArrays", expr: call("flattenArrays", &[arr_lit(&outer)]), model: m_flatten_arrays(&outer), nontrivial: n >= 2 }
}
fn gen_nested(src: &mut Src, cfg: Cfg, depth: usize, leaf: Kind) -> R {
	if cfg.lazy && src.chance(1, 10) {
		return el_err();
	}
	if depth == 0 || src.chance(2, 5) {
		return Ok(gen_val(src, leaf));
	}
	let n = src.range(0, 3) as usize;
	Ok(V::Arr((0..n).map(|_| gen_nested(src, cfg, depth - 1, leaf)).collect()))
}
fn q_flatten_deep(src: &mut Src, cfg: Cfg) -> Q {
	let leaf = if src.chance(1, 2) { Kind::Mixed } else { Kind::Num };
	let v = if src.chance(1, 10) {
		gen_nested(src, cfg, 0, leaf)
	} else {
		let n = src.range(0, 4) as usize;
		Ok(V::Arr((0..n).map(|_| gen_nested(src, cfg, 3, leaf)).collect()))
	};
	let mut out = vec![];
	let model = m_flatten_deep(&v, &mut out).map(|_| V::Arr(out));
	Q { class: "flattenDeepArray", expr: call("flattenDeepArray", &[lit(&v)]), model: M::Is(model), nontrivial: true }
}

const FOLD_STRS: [&str; 6] = ["", "a", "ab", "aab", "é😀", "a€b"];
fn q_fold(src: &mut Src, cfg: Cfg, left: bool) -> Q {
	let name = if left { "foldl" } else { "foldr" };
	let f = pick_fun(src, cfg, FOLDS);
	let init = Ok(gen_val(src, Kind::Mixed));
	if src.chance(1, WRONG) {
		let w = wrong_arg(src).to_owned();
		return Q { class: name, expr: call(name, &[ftext(f), w, lit(&init)]), model: M::Is(Err(arg("not an array or string"))), nontrivial: true };
	}
	let (items, text) = if src.chance(1, 5) {
		let s = FOLD_STRS[src.below(FOLD_STRS.len())];
		(chars_of(s), lit_v(&V::Str(s.to_owned())))
	} else {
		let a = gen_arr(src, cfg);
		let t = arr_lit(&a);
		(a, t)
	};
	let model = if left { m_foldl(f, &items, init.clone()) } else { m_foldr(f, &items, init.clone()) };
	Q { class: name, expr: call(name, &[ftext(f), text, lit(&init)]), model: arity_open(&[Some(f)], M::Is(model)), nontrivial: items.len() >= 2 }
}
fn q_foldl(src: &mut Src, cfg: Cfg) -> Q {
	q_fold(src, cfg, true)
}
fn q_foldr(src: &mut Src, cfg: Cfg) -> Q {
	q_fold(src, cfg, false)
}

const WRONG_ARR: [&str; 4] = ["5", "true", "null", "{k: 1}"];
fn q_map(src: &mut Src, cfg: Cfg) -> Q {
	let f = pick_fun(src, cfg, KEYS);
	if src.chance(1, WRONG) {
		let w = WRONG_ARR[src.below(4)].to_owned();
		return Q { class: "map", expr: call("map", &[ftext(f), w]), model: M::Is(Err(arg("not an array"))), nontrivial: true };
	}
	let a = gen_arr(src, cfg);
	Q { class: "map", expr: call("map", &[ftext(f), arr_lit(&a)]), model: arity_open(&[Some(f)], is_arr(m_map(f, &a))), nontrivial: a.len() >= 2 }
}
fn m_idx_first(a: &[R]) -> R {
	a[0].clone()
}
static INDEXED: &[Fun] = &[
	Fun { text: "function(i, x) [i, x]", m: m2_pair, dom: ALLK, forcing: false },
	Fun { text: "function(i, x) i", m: m_idx_first, dom: ALLK, forcing: false },
	Fun { text: "function(i, x) x", m: m2_snd, dom: ALLK, forcing: true },
	Fun { text: "function(i, x) i + x", m: m2_plus, dom: ALLK, forcing: true },
	Fun { text: "function(i, x) if i == 1 || x == 1 then error \"boom\" else [i, x]", m: m2_boom, dom: ALLK, forcing: true },
	Fun { text: "function(x) x", m: m_bad_arity, dom: &[], forcing: false },
];
fn q_map_with_index(src: &mut Src, cfg: Cfg) -> Q {
	let f = pick_fun(src, cfg, INDEXED);
	if src.chance(1, WRONG) {
		let w = WRONG_ARR[src.below(4)].to_owned();
		return Q { class: "mapWithIndex", expr: call("mapWithIndex", &[ftext(f), w]), model: M::Is(Err(arg("not an array"))), nontrivial: true };
	}
	let a = gen_arr(src, cfg);
	let out: Vec<R> = a.iter().enumerate().map(|(i, e)| (f.m)(&[num(i as f64), e.clone()])).collect();
	Q { class: "mapWithIndex", expr: call("mapWithIndex", &[ftext(f), arr_lit(&a)]), model: arity_open(&[Some(f)], is_arr(out)), nontrivial: a.len() >= 2 }
}
const WRONG_ARR_S: [&str; 5] = ["5", "true", "null", "{k: 1}", "\"ab\""];
fn q_filter(src: &mut Src, cfg: Cfg) -> Q {
	let f = pick_fun(src, cfg, PREDS);
	if src.chance(1, WRONG) {
		let w = WRONG_ARR_S[src.below(5)].to_owned();
		return Q { class: "filter", expr: call("filter", &[ftext(f), w]), model: M::Is(Err(arg("not an array"))), nontrivial: true };
	}
	let a = gen_arr(src, cfg);
	Q { class: "filter", expr: call("filter", &[ftext(f), arr_lit(&a)]), model: arity_open(&[Some(f)], M::Is(m_filter(f, &a).map(V::Arr))), nontrivial: a.len() >= 2 }
}
fn q_filter_map(src: &mut Src, cfg: Cfg) -> Q {
	let p = pick_fun(src, cfg, PREDS);
	let f = pick_fun(src, cfg, KEYS);
	if src.chance(1, WRONG) {
		let w = WRONG_ARR_S[src.below(5)].to_owned();
		return Q { class: "filterMap", expr: call("filterMap", &[ftext(p), ftext(f), w]), model: M::Is(Err(arg("not an array"))), nontrivial: true };
	}
	let a = gen_arr(src, cfg);
	let model = m_filter(p, &a).map(|kept| V::Arr(m_map(f, &kept)));
	Q { class: "filterMap", expr: call("filterMap", &[ftext(p), ftext(f), arr_lit(&a)]), model: arity_open(&[Some(p), Some(f)], M::Is(model)), nontrivial: a.len() >= 2 }
}
fn q_flat_map(src: &mut Src, cfg: Cfg) -> Q {
	if src.chance(1, WRONG) {
		let f = pick_fun(src, cfg, FLATS);
		let w = WRONG_ARR[src.below(4)].to_owned();
		return Q { class: "flatMap", expr: call("flatMap", &[ftext(f), w]), model: M::Is(Err(arg("not an array or string"))), nontrivial: true };
	}
	if src.chance(1, 4) {
		let f = pick_fun(src, cfg, FLATS_STR);
		let s = FOLD_STRS[src.below(FOLD_STRS.len())];
		// join('', [f(c) for c in s])
		let parts: Vec<R> = chars_of(s).iter().map(|c| (f.m)(std::slice::from_ref(c))).collect();
		let model = m_join(&V::Str(String::new()), &parts);
		return Q { class: "flatMap", expr: call("flatMap", &[ftext(f), lit_v(&V::Str(s.to_owned()))]), model: M::Is(model), nontrivial: s.chars().count() >= 2 };
	}
	let f = pick_fun(src, cfg, FLATS);
	let a = if f.dom.len() == 1 && f.dom[0] == Kind::Arr {
		let len = gen_len(src, cfg).min(8);
		let kind = if src.chance(1, 6) { Kind::Mixed } else { Kind::Arr };
		gen_arr_kind(src, cfg, kind, len)
	} else {
		gen_arr(src, cfg)
	};
	let parts: Vec<R> = m_map(f, &a);
	// flattenArrays(parts): every f(x) must be an array (a string result is left open: array + string concatenates)
	let model = m_flatten_arrays(&parts);
	Q { class: "flatMap", expr: call("flatMap", &[ftext(f), arr_lit(&a)]), model: arity_open(&[Some(f)], model), nontrivial: a.len() >= 2 }
}

fn q_join(src: &mut Src, cfg: Cfg) -> Q {
	let n = gen_len(src, cfg).min(10);
	let strings = src.chance(1, 2);
	let sep: V = if src.chance(1, WRONG) {
		[V::Num(5.0), V::Null, V::Bool(true)][src.below(3)].clone()
	} else if strings {
		V::Str(["", ",", "ab"][src.below(3)].to_owned())
	} else {
		[arr_of(vec![]), arr_of(vec![V::Num(0.0)]), arr_of(vec![V::Num(1.0), V::Num(2.0)])][src.below(3)].clone()
	};
	if src.chance(1, WRONG) {
		let w = WRONG_ARR_S[src.below(5)].to_owned();
		return Q { class: "join", expr: call("join", &[lit_v(&sep), w]), model: M::Is(Err(arg("not an array"))), nontrivial: true };
	}
	let a: Vec<R> = (0..n)
		.map(|_| {
			if cfg.lazy && src.chance(1, 6) {
				return el_err();
			}
			match src.weighted(&[14, 4, 1]) {
				0 if !strings && cfg.lazy => {
					// the joined arrays' own elements are not needed for the length of the result
					let len = src.range(0, 3) as usize;
					Ok(V::Arr(gen_arr_kind(src, cfg, Kind::Num, len)))
				}
				0 => Ok(gen_val(src, if strings { Kind::Str } else { Kind::Arr })),
				1 => Ok(V::Null),
				_ => Ok(gen_val(src, Kind::Mixed)),
			}
		})
		.collect();
	Q { class: "join", expr: call("join", &[lit_v(&sep), arr_lit(&a)]), model: M::Is(m_join(&sep, &a)), nontrivial: n >= 2 }
}
fn q_lines(src: &mut Src, cfg: Cfg) -> Q {
	if src.chance(1, WRONG) {
		let w = WRONG_ARR_S[src.below(5)].to_owned();
		return Q { class: "lines", expr: call("lines", &[w]), model: M::Is(Err(arg("not an array"))), nontrivial: true };
	}
	let n = gen_len(src, cfg).min(10);
	let mut a: Vec<R> = (0..n)
		.map(|_| match src.weighted(&[14, 3, 1]) {
			0 => Ok(gen_val(src, Kind::Str)),
			1 => Ok(V::Null),
			_ => Ok(gen_val(src, Kind::Mixed)),
		})
		.collect();
	let expr = call("lines", &[arr_lit(&a)]);
	a.push(st(""));
	Q { class: "lines", expr, model: M::Is(m_join(&V::Str("\n".to_owned()), &a)), nontrivial: n >= 2 }
}
fn q_deep_join(src: &mut Src, cfg: Cfg) -> Q {
	let leaf = if src.chance(1, 5) { Kind::Mixed } else { Kind::Str };
	let v = if src.chance(1, 10) {
		gen_nested(src, cfg, 0, leaf)
	} else {
		let n = src.range(0, 4) as usize;
		Ok(V::Arr((0..n).map(|_| gen_nested(src, cfg, 3, leaf)).collect()))
	};
	Q { class: "deepJoin", expr: call("deepJoin", &[lit(&v)]), model: M::Is(m_deep_join(&v)), nontrivial: true }
}

fn q_any_all(src: &mut Src, cfg: Cfg, all: bool) -> Q {
	let name = if all { "all" } else { "any" };
	if src.chance(1, WRONG) {
		let w = WRONG_ARR_S[src.below(5)].to_owned();
		return Q { class: name, expr: call(name, &[w]), model: M::Is(Err(arg("not an array"))), nontrivial: true };
	}
	let n = gen_len(src, cfg);
	// mostly the non-deciding value so that long prefixes are read
	let a: Vec<R> = (0..n)
		.map(|_| {
			if cfg.lazy && src.chance(1, 8) {
				return el_err();
			}
			match src.weighted(&[10, 3, 1]) {
				0 => Ok(V::Bool(all)),
				1 => Ok(V::Bool(!all)),
				_ => Ok(gen_val(src, Kind::Mixed)),
			}
		})
		.collect();
	Q { class: name, expr: call(name, &[arr_lit(&a)]), model: m_any_all(&a, all), nontrivial: n >= 2 }
}
fn q_any(src: &mut Src, cfg: Cfg) -> Q {
	q_any_all(src, cfg, false)
}
fn q_all(src: &mut Src, cfg: Cfg) -> Q {
	q_any_all(src, cfg, true)
}
fn gen_nums(src: &mut Src, cfg: Cfg) -> Vec<R> {
	let n = gen_len(src, cfg);
	(0..n)
		.map(|_| {
			if cfg.lazy && src.chance(1, 8) {
				return el_err();
			}
			if src.chance(1, 30) {
				Ok(gen_val(src, Kind::Mixed))
			} else {
				Ok(gen_val(src, Kind::Num))
			}
		})
		.collect()
}
fn q_sum(src: &mut Src, cfg: Cfg) -> Q {
	if src.chance(1, WRONG) {
		let w = wrong_arg(src).to_owned();
		return Q { class: "sum", expr: call("sum", &[w]), model: M::Is(Err(arg("not an array"))), nontrivial: true };
	}
	let a = gen_nums(src, cfg);
	Q { class: "sum", expr: call("sum", &[arr_lit(&a)]), model: m_sum(&a), nontrivial: a.len() >= 2 }
}
fn q_avg(src: &mut Src, cfg: Cfg) -> Q {
	if src.chance(1, WRONG) {
		let w = wrong_arg(src).to_owned();
		return Q { class: "avg", expr: call("avg", &[w]), model: M::Is(Err(arg("not an array"))), nontrivial: true };
	}
	let a = gen_nums(src, cfg);
	let model = if a.is_empty() {
		M::Is(Err(arg("average of an empty array")))
	} else {
		match m_sum(&a) {
			M::Is(Ok(V::Num(s))) => M::Is(num(s / a.len() as f64)),
			o => o,
		}
	};
	Q { class: "avg", expr: call("avg", &[arr_lit(&a)]), model, nontrivial: a.len() >= 2 || a.is_empty() }
}
fn q_top(src: &mut Src, cfg: Cfg, max: bool) -> Q {
	let name = if max { "maxArray" } else { "minArray" };
	let f = pick_key(src, cfg);
	let a = if src.chance(1, 8) { vec![] } else { gen_arr(src, cfg) };
	let on_empty: Option<R> = match src.weighted(&[3, 2, 1]) {
		0 => None,
		1 => Some(st("E")),
		_ => Some(Err(arg("oe"))),
	};
	let mut args = vec![if src.chance(1, WRONG) { wrong_arg(src).to_owned() } else { arr_lit(&a) }];
	let wrong = !args[0].starts_with('[');
	let named_key = src.chance(1, 3);
	match (f, &on_empty) {
		(Some(f), Some(oe)) => {
			if named_key {
				args.push(format!("keyF={}", ftext(f)));
				args.push(format!("onEmpty={}", lit(oe)));
			} else {
				args.push(ftext(f));
				args.push(lit(oe));
			}
		}
		(Some(f), None) => args.push(if named_key { format!("keyF={}", ftext(f)) } else { ftext(f) }),
		(None, Some(oe)) => args.push(format!("onEmpty={}", lit(oe))),
		(None, None) => {}
	}
	let model = if wrong { M::Is(Err(arg("not an array"))) } else { arity_open(&[f], m_top(&a, f, on_empty.as_ref(), max)) };
	Q { class: name, expr: call(name, &args), model, nontrivial: a.is_empty() || (a.len() >= 2 && has_tie(&a, f)) || wrong }
}
fn q_min_array(src: &mut Src, cfg: Cfg) -> Q {
	q_top(src, cfg, false)
}
fn q_max_array(src: &mut Src, cfg: Cfg) -> Q {
	q_top(src, cfg, true)
}

fn q_range(src: &mut Src, cfg: Cfg) -> Q {
	if src.chance(1, WRONG) {
		let w = ["\"a\"", "true", "null", "[1]"][src.below(4)].to_owned();
		let args = if src.chance(1, 2) { vec![w, "3".to_owned()] } else { vec!["0".to_owned(), w] };
		return Q { class: "range", expr: call("range", &args), model: M::Is(Err(arg("not a number"))), nontrivial: true };
	}
	let from = src.range(-3, 5);
	let to = if src.chance(1, 3) { from + src.range(-1, 1) } else { src.range(-3, if cfg.long { 40 } else { 9 }) };
	let model = if to - from + 1 < 0 {
		M::Open("std.range with to < from - 1 (the definition asks makeArray for a negative size)")
	} else {
		is_arr((from..=to).map(|i| num(i as f64)).collect())
	};
	Q { class: "range", expr: call("range", &[num_text(from as f64), num_text(to as f64)]), model, nontrivial: (to - from).abs() <= 1 || from < 0 }
}
fn q_repeat(src: &mut Src, cfg: Cfg) -> Q {
	let count = src.range(-2, if cfg.long { 12 } else { 4 });
	if src.chance(1, WRONG) {
		let w = WRONG_ARR[src.below(4)].to_owned();
		return Q { class: "repeat", expr: call("repeat", &[w, num_text(count as f64)]), model: M::Is(Err(arg("not an array or string"))), nontrivial: true };
	}
	let (what, model): (String, R) = if src.chance(1, 3) {
		let s = ["", "a", "ab", "é😀"][src.below(4)];
		(lit_v(&V::Str(s.to_owned())), if count < 0 { Err(arg("negative count")) } else { Ok(V::Str(s.repeat(count as usize))) })
	} else {
		let kind = gen_kind(src);
		let len = src.range(0, 4) as usize;
		let a = gen_arr_kind(src, cfg, kind, len);
		let model = if count < 0 {
			Err(arg("negative count"))
		} else {
			Ok(V::Arr((0..count).flat_map(|_| a.iter().cloned()).collect()))
		};
		(arr_lit(&a), model)
	};
	Q { class: "repeat", expr: call("repeat", &[what, num_text(count as f64)]), model: M::Is(model), nontrivial: count <= 1 || count >= 2 }
}
const SLICE_STRS: [&str; 5] = ["", "a", "ab", "abcdé😀", "héllo wörld"];
fn q_slice(src: &mut Src, cfg: Cfg) -> Q {
	let (items, text, is_str) = if src.chance(1, 3) {
		let s = SLICE_STRS[src.below(SLICE_STRS.len())];
		(chars_of(s), lit_v(&V::Str(s.to_owned())), true)
	} else {
		let a = gen_arr(src, cfg);
		let t = arr_lit(&a);
		(a, t, false)
	};
	let n = items.len() as i64;
	let bound = |src: &mut Src| -> Option<i64> {
		if src.chance(1, 5) {
			None
		} else {
			Some(src.range(-3, n + 3))
		}
	};
	let index = bound(src);
	let end = bound(src);
	let step = match src.weighted(&[4, 6, 1, 1]) {
		0 => None,
		1 => Some(src.range(1, 3)),
		2 => Some(0),
		_ => Some(-1),
	};
	let show = |o: Option<i64>| o.map(|v| num_text(v as f64)).unwrap_or_else(|| "null".to_owned());
	let target = if src.chance(1, WRONG) { WRONG_ARR[src.below(4)].to_owned() } else { text };
	let wrong = !(target.starts_with('[') || target.starts_with('"'));
	let expr = call("slice", &[target, show(index), show(end), show(step)]);
	let model: R = if wrong {
		Err(arg("not an array or string"))
	} else {
		m_slice(&items, index, end, step).and_then(|v| {
			if is_str {
				let mut s = String::new();
				for c in v {
					if let V::Str(c) = c? {
						s.push_str(&c);
					}
				}
				Ok(V::Str(s))
			} else {
				Ok(V::Arr(v))
			}
		})
	};
	let at = |o: Option<i64>| matches!(o, Some(v) if v <= 0 || v >= n - 1);
	Q { class: "slice", expr, model: M::Is(model), nontrivial: at(index) || at(end) || n >= 2 }
}
fn q_make_array(src: &mut Src, cfg: Cfg) -> Q {
	let f = pick_fun(src, cfg, MAKERS);
	if src.chance(1, WRONG) {
		let (a, b) = if src.chance(1, 2) { (["\"a\"", "null", "[1]", "true"][src.below(4)].to_owned(), ftext(f)) } else { ("2".to_owned(), ["1", "null", "[1]", "\"a\""][src.below(4)].to_owned()) };
		return Q { class: "makeArray", expr: call("makeArray", &[a, b]), model: M::Is(Err(arg("wrong argument type"))), nontrivial: true };
	}
	let sz = src.range(-2, if cfg.long { 40 } else { 8 });
	let model: R = if sz < 0 { Err(arg("negative size")) } else { Ok(V::Arr((0..sz).map(|i| (f.m)(&[num(i as f64)])).collect())) };
	Q { class: "makeArray", expr: call("makeArray", &[num_text(sz as f64), ftext(f)]), model: arity_open(&[Some(f)], M::Is(model)), nontrivial: sz <= 1 || sz >= 2 }
}

type Gen = fn(&mut Src, Cfg) -> Q;
pub static FNS: &[(&str, Gen)] = &[
	("sort", q_sort),
	("uniq", q_uniq),
	("set", q_set),
	("setMember", q_set_member),
	("setUnion", q_set_union),
	("setInter", q_set_inter),
	("setDiff", q_set_diff),
	("member", q_member),
	("contains", q_contains),
	("find", q_find),
	("count", q_count),
	("remove", q_remove),
	("removeAt", q_remove_at),
	("flattenArrays", q_flatten_arrays),
	("flattenDeepArray", q_flatten_deep),
	("foldl", q_foldl),
	("foldr", q_foldr),
	("map", q_map),
	("mapWithIndex", q_map_with_index),
	("filter", q_filter),
	("filterMap", q_filter_map),
	("flatMap", q_flat_map),
	("join", q_join),
	("lines", q_lines),
	("deepJoin", q_deep_join),
	("any", q_any),
	("all", q_all),
	("sum", q_sum),
	("avg", q_avg),
	("minArray", q_min_array),
	("maxArray", q_max_array),
	("range", q_range),
	("repeat", q_repeat),
	("slice", q_slice),
	("makeArray", q_make_array),
];

// ───────────────────────────── deciding a call ─────────────────────────────

/// what jrsonnet answered for one observation: Ok(value) or Err((kind, message))
type Obs = Result<J, (String, String)>;

fn read_try(item: &J, json_text: bool) -> Result<Obs, String> {
	let J::Arr(r) = item else { return Err("malformed verif.try result".to_owned()) };
	match r.first() {
		Some(J::Bool(true)) => {
			let v = r.get(1).ok_or("malformed verif.try result")?;
			if json_text {
				let J::Str(t) = v else { return Err("verif.tryj did not return text".to_owned()) };
				json::parse(t).map(Ok).map_err(|e| format!("manifested text is not JSON ({}): {t}", e.0))
			} else {
				Ok(Ok(v.clone()))
			}
		}
		Some(J::Bool(false)) => {
			let s = |i: usize| match r.get(i) {
				Some(J::Str(s)) => s.clone(),
				_ => String::new(),
			};
			Ok(Err((s(1), s(2))))
		}
		_ => Err("malformed verif.try result".to_owned()),
	}
}
fn show_obs(o: &Obs) -> String {
	match o {
		Ok(j) => format!("VALUE {}", j.to_text()),
		Err((k, m)) => format!("ERROR[{k}] {m}"),
	}
}

/// evaluate `[verif.tryj(e), verif.try(std.length(e))]`
fn observe(expr: &str) -> Result<(Obs, Obs), String> {
	let expr = &mutate(expr);
	let prog = format!("[verif.tryj({expr}), verif.try(std.length({expr}))]");
	match jr::eval(&prog, &Opts::default()) {
		Outcome::Val(t) => {
			let Ok(J::Arr(items)) = json::parse(&t) else { return Err(format!("harness program did not return an array: {t}")) };
			if items.len() != 2 {
				return Err("harness program returned a wrong number of items".to_owned());
			}
			Ok((read_try(&items[0], true)?, read_try(&items[1], false)?))
		}
		o => Err(o.short()),
	}
}

fn strictness_note(o: &Obs) -> &'static str {
	match o {
		Err((_, m)) if m.ends_with(": el") || m == "el" => "STRICTNESS (an input element is evaluated that the definition does not evaluate): ",
		Err((_, m)) if m.ends_with(": boom") => "STRICTNESS (the user function is called where the definition does not call it, or its result is forced): ",
		_ => "",
	}
}

/// Signatures of the disagreements found so far.  A failure that matches one is reported as that finding
/// (`Verdict::Known`) when the id is listed with status "known" in known_findings.jsonl for C10 — the search then goes on
/// behind it.  `VERIF_C10_TRIAGE=1` treats all of them as listed (triage aid: shows what else fails).
fn known_signature(q: &Q, why: &str) -> Option<&'static str> {
	let eager_elem = why.contains("STRICTNESS (an input element");
	let args_end = q.expr.rfind(", ").map(|i| &q.expr[i + 2..]).unwrap_or("");
	match q.class {
		"map" | "mapWithIndex" | "filterMap" | "foldl" | "foldr" | "flatMap" | "minArray" | "maxArray" | "join" if eager_elem => Some("C10-eager-elements"),
		"setMember" if q.expr.contains(", []") && why.contains("expected VALUE false, got ERROR") => Some("C10-setmember-empty-set-calls-keyf"),
		"flatMap" if q.expr.contains("null") && why.contains("expected ERROR (flattenArrays element is not an array), got VALUE") => Some("C10-flatmap-null-accepted"),
		"sort" | "set" if unstable_identity_sort(&q.expr) && why.starts_with("manifestation: expected VALUE") && !why.contains("std.length") => Some("C10-sort-identity-unstable"),
		"sum" | "avg" if why.contains("expected VALUE 0.0, got VALUE -0.0") => Some("C10-sum-negative-zero"),
		"removeAt" if args_end.starts_with('-') => Some("C10-removeat-negative-index"),
		_ => None,
	}
}
/// number of elements of the first array literal in `expr`
fn first_array_len(expr: &str) -> usize {
	let Some(start) = expr.find('[') else { return 0 };
	let (mut depth, mut commas, mut any) = (0usize, 0usize, false);
	for c in expr[start..].chars() {
		match c {
			'[' | '{' | '(' => depth += 1,
			']' | '}' | ')' => {
				depth -= 1;
				if depth == 0 {
					break;
				}
			}
			',' if depth == 1 => commas += 1,
			c if !c.is_whitespace() && depth >= 1 => any = true,
			_ => {}
		}
	}
	if any {
		commas + 1
	} else {
		0
	}
}
/// more than 20 elements, no key function, and a negative zero among the elements
fn unstable_identity_sort(expr: &str) -> bool {
	let no_key = expr.ends_with("])") || expr.ends_with("(function(x) x))");
	no_key && first_array_len(expr) > 20 && expr.contains("-0")
}
fn listed(run: &Run, id: &str) -> bool {
	run.is_known(id) || std::env::var_os("VERIF_C10_TRIAGE").is_some()
}

pub fn decide(run: &Run, q: &Q) -> CaseOut {
	let text = q.expr.clone();
	let obs = observe(&q.expr);
	let r = match &q.model {
		M::Open(why) => {
			// nothing is demanded except that the evaluator survives
			return match obs {
				Err(e) => CaseOut::fail(text, format!("evaluation broke down: {e}")).class(format!("open:{}", q.class)),
				Ok(_) => CaseOut::pass(text, false).class(format!("open:{}", q.class)).class(format!("open-reason:{why}")),
			};
		}
		M::Is(r) => r,
	};
	let classes = vec![format!("fn:{}", q.class), format!("expect:{}", if r.is_ok() { "value" } else { "error" })];
	let (man, len) = match obs {
		Ok(x) => x,
		Err(e) => return CaseOut::fail(text, format!("evaluation broke down: {e}")).classes(classes),
	};
	let mut problems: Vec<String> = vec![];
	// full manifestation
	match deep(r) {
		Ok(want) => match &man {
			Ok(got) if exact_same(got, &want) => {}
			other => problems.push(format!("{}manifestation: expected VALUE {}, got {}", strictness_note(other), want.to_text(), show_obs(other))),
		},
		Err(e) if e.elem => {}
		Err(e) => {
			if let Ok(got) = &man {
				problems.push(format!("manifestation: expected ERROR ({}), got VALUE {}", e.msg, got.to_text()));
			}
		}
	}
	// length only: must not need the elements
	match r {
		Ok(V::Arr(_) | V::Str(_)) => {
			let want = match r {
				Ok(V::Arr(v)) => v.len(),
				Ok(V::Str(s)) => s.chars().count(),
				_ => unreachable!(),
			};
			match &len {
				Ok(J::Num(n)) if *n == want as f64 => {}
				other => problems.push(format!("{}std.length of the result: expected {want}, got {}", strictness_note(other), show_obs(other))),
			}
		}
		Ok(_) => {}
		Err(e) if e.elem => {}
		Err(e) => {
			if let Ok(got) = &len {
				problems.push(format!("std.length of the result: expected ERROR ({}), got VALUE {}", e.msg, got.to_text()));
			}
		}
	}
	if problems.is_empty() {
		return CaseOut::pass(text, q.nontrivial).classes(classes);
	}
	let why = problems.join("\n");
	if let Some(id) = known_signature(q, &why) {
		if listed(run, id) {
			let mut c = CaseOut::fail(text, why).classes(classes);
			c.verdict = Verdict::Known(id.to_owned());
			return c;
		}
	}
	CaseOut::fail(text, why).classes(classes)
}

// ───────────────────────────── model-free relations ─────────────────────────────

fn from_j(j: &J) -> V {
	match j {
		J::Null => V::Null,
		J::Bool(b) => V::Bool(*b),
		J::Num(x) => V::Num(*x),
		J::Str(s) => V::Str(s.clone()),
		J::Arr(a) => V::Arr(a.iter().map(|x| Ok(from_j(x))).collect()),
		J::Obj(f) => V::Obj(f.iter().map(|(k, v)| (k.clone(), from_j(v))).collect()),
	}
}

/// std.sort's own output must be ordered by the keys and keep elements with equal keys in input order
fn rel_sort(run: &Run, src: &mut Src, cfg: Cfg) -> CaseOut {
	let (f, kind) = gen_set_key(src);
	let len = gen_len(src, cfg);
	let a = gen_arr_kind(src, Cfg { lazy: false, ..cfg }, kind, len);
	let expr = {
		let mut args = vec![arr_lit(&a)];
		if let Some(f) = f {
			args.push(ftext(f));
		}
		call("sort", &args)
	};
	let keys_in: Vec<R> = a.iter().map(|x| key(f, x)).collect();
	if keys_in.iter().any(|k| !matches!(k, Ok(V::Num(_) | V::Str(_) | V::Arr(_)))) {
		return CaseOut::discard(expr, "key function undefined on an element");
	}
	let (man, _) = match observe(&expr) {
		Ok(x) => x,
		Err(e) => return CaseOut::fail(expr, format!("evaluation broke down: {e}")),
	};
	let out = match man {
		Ok(J::Arr(v)) => v,
		other => return CaseOut::fail(expr, format!("all keys are mutually comparable, expected an array, got {}", show_obs(&other))),
	};
	let out_v: Vec<V> = out.iter().map(from_j).collect();
	let keys_out: Vec<R> = out_v.iter().map(|x| key(f, &Ok(x.clone()))).collect();
	let fail = |why: String| CaseOut::fail(expr.clone(), format!("{why}\noutput: {}", J::Arr(out.clone()).to_text())).class("rel:sort");
	if out.len() != a.len() {
		return fail("output length differs from input length".to_owned());
	}
	for w in keys_out.windows(2) {
		match (&w[0], &w[1]) {
			(Ok(x), Ok(y)) => {
				if compare(x, y).map(|o| o == Ordering::Greater).unwrap_or(true) {
					return fail("output is not ordered by the keys".to_owned());
				}
			}
			_ => return fail("output contains an element that was not in the input".to_owned()),
		}
	}
	// stability + permutation: per class of equal keys the same sequence of elements
	let mut reps: Vec<V> = vec![];
	let mut class_of = |k: &V| -> usize {
		for (i, r) in reps.iter().enumerate() {
			if equals(r, k).unwrap_or(false) {
				return i;
			}
		}
		reps.push(k.clone());
		reps.len() - 1
	};
	let mut seq_in: Vec<Vec<String>> = vec![];
	let mut seq_out: Vec<Vec<String>> = vec![];
	for (e, k) in a.iter().zip(&keys_in) {
		let c = class_of(k.as_ref().unwrap());
		seq_in.resize(seq_in.len().max(c + 1), vec![]);
		seq_in[c].push(lit(e));
	}
	for (e, k) in out_v.iter().zip(&keys_out) {
		let c = class_of(k.as_ref().unwrap());
		seq_out.resize(seq_out.len().max(c + 1), vec![]);
		seq_out[c].push(lit_v(e));
	}
	seq_in.resize(seq_in.len().max(seq_out.len()), vec![]);
	seq_out.resize(seq_in.len(), vec![]);
	if seq_in != seq_out {
		if unstable_identity_sort(&expr) && listed(run, "C10-sort-identity-unstable") {
			let mut c = fail("output is not a stable permutation of the input".to_owned());
			c.verdict = Verdict::Known("C10-sort-identity-unstable".to_owned());
			return c;
		}
		return fail("output is not a stable permutation of the input (elements with equal keys changed order or content)".to_owned());
	}
	CaseOut::pass(expr, a.len() >= 2 && has_tie(&a, f)).class("rel:sort")
}

/// setUnion / setInter / setDiff agree with setMember, evaluated by jrsonnet itself on genuine sets
fn rel_sets(src: &mut Src, cfg: Cfg) -> CaseOut {
	let (f, kind) = gen_set_key(src);
	let a = gen_set(src, cfg, f, kind);
	let b = gen_set(src, cfg, f, kind);
	let extra: Vec<R> = alphabet(kind).into_iter().map(Ok).filter(|x| matches!(key(f, x), Ok(V::Num(_) | V::Str(_) | V::Arr(_)))).collect();
	let fa = f.map(|f| format!(", {}", ftext(f))).unwrap_or_default();
	let expr = format!(
		"local a = {}, b = {}, xs = a + b + {};\nlocal u = std.setUnion(a, b{fa}), n = std.setInter(a, b{fa}), d = std.setDiff(a, b{fa});\n{{ u: u, n: n, d: d, m: [[std.setMember(x, a{fa}), std.setMember(x, b{fa}), std.setMember(x, u{fa}), std.setMember(x, n{fa}), std.setMember(x, d{fa})] for x in xs] }}",
		arr_lit(&a),
		arr_lit(&b),
		arr_lit(&extra)
	);
	let out = match jr::eval(&format!("verif.tryj({})", mutate(&expr)), &Opts::default()) {
		Outcome::Val(t) => match json::parse(&t).map_err(|e| e.0).and_then(|j| read_try(&j, true)) {
			Ok(Ok(j)) => j,
			Ok(Err(e)) => return CaseOut::fail(expr, format!("set operations on genuine sets with comparable keys failed: {}", show_obs(&Err(e)))).class("rel:sets"),
			Err(e) => return CaseOut::fail(expr, e).class("rel:sets"),
		},
		o => return CaseOut::fail(expr, format!("evaluation broke down: {}", o.short())).class("rel:sets"),
	};
	let J::Obj(fields) = &out else { return CaseOut::fail(expr, "result is not an object".to_owned()) };
	let get = |k: &str| fields.iter().find(|x| x.0 == k).map(|x| x.1.clone()).unwrap_or(J::Null);
	let xs: Vec<R> = a.iter().chain(b.iter()).chain(extra.iter()).cloned().collect();
	let member = |x: &R, s: &[R]| -> bool {
		let kx = key(f, x).unwrap();
		s.iter().any(|e| equals(&key(f, e).unwrap(), &kx).unwrap_or(false))
	};
	let mut problems = vec![];
	// the three results are sets (strictly ascending keys)
	for name in ["u", "n", "d"] {
		let J::Arr(v) = get(name) else {
			problems.push(format!("{name} is not an array"));
			continue;
		};
		let ks: Vec<R> = v.iter().map(|e| key(f, &Ok(from_j(e)))).collect();
		for w in ks.windows(2) {
			let asc = matches!((&w[0], &w[1]), (Ok(x), Ok(y)) if compare(x, y).map(|o| o == Ordering::Less).unwrap_or(false));
			if !asc {
				problems.push(format!("{name} = {} is not strictly ascending by key", J::Arr(v.clone()).to_text()));
				break;
			}
		}
	}
	let J::Arr(rows) = get("m") else { return CaseOut::fail(expr, "membership table missing".to_owned()) };
	for (x, row) in xs.iter().zip(rows.iter()) {
		let J::Arr(r) = row else { continue };
		let bit = |i: usize| r.get(i) == Some(&J::Bool(true));
		let (ia, ib, iu, inn, id) = (bit(0), bit(1), bit(2), bit(3), bit(4));
		if ia != member(x, &a) || ib != member(x, &b) {
			problems.push(format!("setMember({}, a/b) = {ia}/{ib}, but key equality says {}/{}", lit(x), member(x, &a), member(x, &b)));
		}
		if iu != (ia || ib) {
			problems.push(format!("x = {}: in union = {iu}, in a = {ia}, in b = {ib}", lit(x)));
		}
		if inn != (ia && ib) {
			problems.push(format!("x = {}: in intersection = {inn}, in a = {ia}, in b = {ib}", lit(x)));
		}
		if id != (ia && !ib) {
			problems.push(format!("x = {}: in difference = {id}, in a = {ia}, in b = {ib}", lit(x)));
		}
	}
	if problems.is_empty() {
		CaseOut::pass(expr, !a.is_empty() && !b.is_empty()).class("rel:sets")
	} else {
		problems.truncate(6);
		CaseOut::fail(expr, format!("{}\nresults: {}", problems.join("\n"), out.to_text())).class("rel:sets")
	}
}

// ───────────────────────────── fixed probes ─────────────────────────────

/// (expression, expected JSON or "ERROR"): consequences of the documented definitions that are easy to state by hand
const SEEDS: &[(&str, &str)] = &[
	("std.length(std.map(function(x) error \"f\", [1, 2]))", "2"),
	("std.map(function(x) 0, [error \"el\"])", "[0]"),
	("std.length(std.mapWithIndex(function(i, x) error \"f\", [1, 2]))", "2"),
	("std.length(std.makeArray(3, function(i) error \"f\"))", "3"),
	("std.length(std.filter(function(x) true, [error \"el\"]))", "1"),
	("std.length(std.filterMap(function(x) true, function(x) error \"f\", [1]))", "1"),
	("std.minArray([1], onEmpty=error \"oe\")", "1"),
	("std.maxArray([], onEmpty=7)", "7"),
	("std.foldl(function(a, b) 0, [error \"el\"], 1)", "0"),
	("std.foldr(function(a, b) 0, [error \"el\"], 1)", "0"),
	("std.foldl(function(a, b) [a, b], [1, 2, 3], 0)", "[[[0,1],2],3]"),
	("std.foldr(function(a, b) [a, b], [1, 2, 3], 0)", "[1,[2,[3,0]]]"),
	("std.foldl(function(a, b) a + b, \"a\u{e9}\u{1f600}\", \"<\")", "\"<a\u{e9}\u{1f600}\""),
	("std.foldr(function(a, b) a + b, \"abc\", \">\")", "\"abc>\""),
	("std.length(std.sort([error \"el\", error \"el\"], function(x) 0))", "2"),
	("std.length(std.repeat([error \"el\"], 2))", "2"),
	("std.length(std.removeAt([error \"el\", error \"el\"], 0))", "1"),
	("std.length(std.slice([error \"el\", error \"el\"], 0, 1, 1))", "1"),
	("std.length(std.flattenArrays([[error \"el\"], [error \"el\"]]))", "2"),
	("std.length(std.join([error \"el\"], [[error \"el\"], [error \"el\"]]))", "3"),
	("std.removeAt([1, 2, 3], -1)", "[1,2,3]"),
	("std.removeAt([1, 2, 3], 3)", "[1,2,3]"),
	("std.removeAt([1, 2, 3], 1)", "[1,3]"),
	("std.remove([1, 2, 1], 1)", "[2,1]"),
	("std.sort([[2, \"b\"], [1, \"a\"], [2, \"a\"], [1, \"b\"]], function(p) p[0])", "[[1,\"a\"],[1,\"b\"],[2,\"b\"],[2,\"a\"]]"),
	("std.uniq([1, 1, 2, 1])", "[1,2,1]"),
	("std.set([{k: 2, v: 1}, {k: 1, v: 2}, {k: 2, v: 3}], function(o) o.k)", "[{\"k\":1,\"v\":2},{\"k\":2,\"v\":1}]"),
	("std.setUnion([{k: 1, v: \"a\"}], [{k: 1, v: \"b\"}], function(o) o.k)", "[{\"k\":1,\"v\":\"a\"}]"),
	("std.setInter([{k: 1, v: \"a\"}], [{k: 1, v: \"b\"}], function(o) o.k)", "[{\"k\":1,\"v\":\"a\"}]"),
	("std.setDiff([1, 2, 3, 4], [2])", "[1,3,4]"),
	("std.join(\",\", [null, \"a\", null, \"b\", null])", "\"a,b\""),
	("std.join(\",\", [\"\", \"a\"])", "\",a\""),
	("std.join([0], [null, [1], [2]])", "[1,0,2]"),
	("std.join(\",\", [\"a\", 1])", "ERROR"),
	("std.lines([\"a\", \"b\"])", "\"a\\nb\\n\""),
	("std.lines([])", "\"\""),
	("std.deepJoin([[\"a\", [\"b\"]], \"c\"])", "\"abc\""),
	("std.deepJoin([\"a\", 1])", "ERROR"),
	("std.find(1, [1, 2, 1])", "[0,2]"),
	("std.count([1, 2, 1], 1)", "2"),
	("std.member(\"abc\", \"\")", "false"),
	("std.flattenDeepArray([[1, [2, [3]]], 4])", "[1,2,3,4]"),
	("std.flattenArrays([[1], [], [2, 3]])", "[1,2,3]"),
	("std.avg([1, 2, 6])", "3"),
	("std.avg([])", "ERROR"),
	("std.sum([])", "0"),
	("std.minArray([])", "ERROR"),
	("std.maxArray([1, 3, 3, 2], function(x) -x)", "1"),
	("std.maxArray([[1, \"a\"], [2, \"b\"], [2, \"c\"]], function(p) p[0])", "[2,\"b\"]"),
	("std.minArray([[1, \"a\"], [1, \"b\"]], function(p) p[0])", "[1,\"a\"]"),
	("std.any([false, true, error \"el\"])", "true"),
	("std.all([])", "true"),
	("std.range(1, 0)", "[]"),
	("std.range(-1, 1)", "[-1,0,1]"),
	("std.repeat(\"ab\", 0)", "\"\""),
	("std.repeat([1], -1)", "ERROR"),
	("std.makeArray(-1, function(i) i)", "ERROR"),
	("std.slice(\"jsonnet\", -3, null, null)", "\"net\""),
	("std.slice([1, 2, 3, 4, 5, 6], 1, 6, 2)", "[2,4,6]"),
	("std.slice([1, 2, 3], 0, 2, 0)", "ERROR"),
	("std.flatMap(function(x) [x, x], [1, 2])", "[1,1,2,2]"),
	("std.flatMap(function(c) c + c, \"ab\")", "\"aabb\""),
	("std.flatMap(function(x) 1, [1])", "ERROR"),
	("std.filter(function(x) 1, [1])", "ERROR"),
];

fn seed_known(expr: &str, note: &str) -> Option<&'static str> {
	if expr == "std.sum([])" {
		Some("C10-sum-negative-zero")
	} else if expr == "std.removeAt([1, 2, 3], -1)" {
		Some("C10-removeat-negative-index")
	} else if note.starts_with("STRICTNESS (an input element") {
		Some("C10-eager-elements")
	} else {
		None
	}
}
fn decide_seed(run: &Run, i: usize) -> CaseOut {
	let (expr, want) = SEEDS[i];
	let text = expr.to_owned();
	let (man, _) = match observe(expr) {
		Ok(x) => x,
		Err(e) => return CaseOut::fail(text, format!("evaluation broke down: {e}")),
	};
	let ok = match (&man, want) {
		(Err(_), "ERROR") => true,
		(Ok(_), "ERROR") => false,
		(Ok(got), w) => json::parse(w).map(|w| exact_same(got, &w)).unwrap_or(false),
		(Err(_), _) => false,
	};
	if ok {
		CaseOut::pass(text, true).class("seed")
	} else {
		let mut c = CaseOut::fail(text, format!("{}expected {want}, got {}", strictness_note(&man), show_obs(&man))).class("seed");
		if let Some(id) = seed_known(expr, strictness_note(&man)) {
			if listed(run, id) {
				c.verdict = Verdict::Known(id.to_owned());
			}
		}
		c
	}
}

// ───────────────────────────── driver ─────────────────────────────

fn tape_len(cfg: Cfg) -> std::ops::RangeInclusive<usize> {
	if cfg.long {
		12..=200
	} else {
		12..=90
	}
}

pub fn run(run: &Run) {
	run.set_rule("one case = one call of one of the 35 listed std functions with generated arguments: arrays of length 0..8 (thorough: up to 40) over {0,-0,1,2,-1,1.5,\"\",\"a\",\"b\",\"ab\",true,false,null,[],[1],[1,2],{k:1},{k:2}} (70% uniformly typed, 30% mixed, narrow alphabet windows force duplicates and ties), strings where the documentation accepts them (incl. non-ASCII), index/count arguments from -3 to len+3, key/predicate/fold functions from a pool of total, partial (error on the element 1), type-changing, non-boolean and wrong-arity functions, wrong argument types (1 in 16), default / positional / named keyF and onEmpty; set functions receive sets built by the reference set(). Expected result: Rust transcription of the std.jsonnet definition over lazy values; observed by full manifestation and by std.length alone. Stages `lazy:*` put `error \"el\"` elements into the inputs and prefer functions that ignore their argument. Stages rel:sort / rel:sets check jrsonnet's own outputs against model-free relations. Non-trivial: length >= 2 with a tie between keys, or a boundary index, or an argument error; distinct by call text.");
	run.assume("the definitions in std.jsonnet of the documented release (0.21) are the meaning of the functions; negative index/end of std.slice count from the end; '<' orders numbers, strings (code points) and arrays (lexicographic) and fails on other or mixed types");
	run.assume("not demanded (left open): string elements in flattenArrays/sum/avg and string results of flatMap functions over arrays (the definition concatenates text), null results of flatMap functions over strings, std.range(a, b) with b < a - 1, minArray/maxArray of a single element of an unordered type, sorting when only some key pairs are incomparable, strings passed to map/mapWithIndex/contains/sort/uniq, fractional sizes and indexes, std.avg(onEmpty=)");
	if std::env::var_os("VERIF_C10_SELFTEST").is_some() {
		selftest(run);
		return;
	}
	let thorough = run.tier == Tier::Thorough;
	run.enumerate("seeds", SEEDS.len() as u64, |i| decide_seed(run, i as usize));
	run.enumerate("any-all", any_all_size(), any_all_case);
	let cfg = Cfg { long: thorough, lazy: false };
	let n = run.tier.pick(25_000, 250_000);
	for (name, g) in FNS {
		run.explore(name, n, tape_len(cfg), |src| decide(run, &g(src, cfg)));
	}
	let lcfg = Cfg { long: thorough, lazy: true };
	let n = run.tier.pick(7_500, 75_000);
	for (name, g) in FNS {
		run.explore(&format!("lazy:{name}"), n, tape_len(lcfg), |src| decide(run, &g(src, lcfg)));
	}
	let n = run.tier.pick(60_000, 600_000);
	run.explore("rel:sort", n, tape_len(cfg), |src| rel_sort(run, src, cfg));
	run.explore("rel:sets", n, tape_len(cfg), |src| rel_sets(src, cfg));
	// arrays of up to 40 elements leave the small-slice code paths of sorting routines: a short look in every tier
	let big = Cfg { long: true, lazy: false };
	let n = run.tier.pick(10_000, 100_000);
	for name in LONG_STAGES {
		let g = FNS.iter().find(|f| f.0 == *name).unwrap().1;
		run.explore(&format!("long:{name}"), n, tape_len(big), |src| decide(run, &g(src, big)));
	}
	run.explore("long:rel:sort", n, tape_len(big), |src| rel_sort(run, src, big));
	for (name, _) in FNS {
		run.require_class(&format!("fn:{name}"), 100);
	}
	run.require_class("rel:sort", 100);
	run.require_class("rel:sets", 100);
	run.require_class("expect:error", 300);
}
const LONG_STAGES: &[&str] = &["sort", "set", "uniq", "setUnion", "setInter", "setDiff", "setMember", "minArray", "maxArray"];

/// std.any / std.all over every array of length <= 4 on {true, false, 1, "x", error}: the definition in std.jsonnet walks
/// the array from the left, asserts that the element it looks at is a boolean, and stops at the deciding element —
/// whatever comes after it (other types, failing elements) is never looked at.
const ANY_ALL_ELEMS: &[&str] = &["true", "false", "1", "'x'", "error 'el'"];
fn any_all_size() -> u64 {
	let k = ANY_ALL_ELEMS.len() as u64;
	2 * (1 + k + k * k + k * k * k + k * k * k * k)
}
fn any_all_case(i: u64) -> CaseOut {
	let k = ANY_ALL_ELEMS.len() as u64;
	let all = i % 2 == 1;
	let mut rest = i / 2;
	let mut len = 0usize;
	let mut count = 1u64;
	while rest >= count {
		rest -= count;
		count *= k;
		len += 1;
	}
	let mut elems = vec![];
	for _ in 0..len {
		elems.push((rest % k) as usize);
		rest /= k;
	}
	let text = format!("std.{}([{}])", if all { "all" } else { "any" }, elems.iter().map(|e| ANY_ALL_ELEMS[*e]).collect::<Vec<_>>().join(", "));
	// the definition, transcribed: Some(bool) or None = error
	let mut want: Option<bool> = Some(all);
	for e in &elems {
		match *e {
			0 | 1 => {
				let b = *e == 0;
				if b != all {
					want = Some(b);
					break;
				}
			}
			_ => {
				want = None;
				break;
			}
		}
	}
	let got = jr::eval(&text, &Opts::default());
	let ok = match (&want, &got) {
		(Some(b), Outcome::Val(v)) => v.trim() == b.to_string(),
		(None, Outcome::Err(..)) => true,
		_ => false,
	};
	if ok {
		CaseOut::pass(text, len >= 2).class("any-all")
	} else {
		CaseOut::fail(text, format!("the definition gives {}, jrsonnet {}", want.map(|b| b.to_string()).unwrap_or_else(|| "an error".into()), got.short()))
	}
}

pub fn replay(run: &Run, stage: &str, tape: Option<&[u16]>, v: &Value) -> Option<CaseOut> {
	let mut long = v["tier"].as_str() == Some("thorough");
	if stage == "seeds" {
		let i = v["extra"]["index"].as_u64()? as usize;
		return (i < SEEDS.len()).then(|| decide_seed(run, i));
	}
	if stage == "any-all" {
		return v["extra"]["index"].as_u64().map(any_all_case);
	}
	let tape = tape?;
	let mut src = Src::new(tape);
	let mut stage = stage;
	if let Some(rest) = stage.strip_prefix("long:") {
		long = true;
		stage = rest;
	}
	let cfg = Cfg { long, lazy: false };
	match stage {
		"rel:sort" => return Some(rel_sort(run, &mut src, cfg)),
		"rel:sets" => return Some(rel_sets(&mut src, cfg)),
		_ => {}
	}
	let (name, lazy) = match stage.strip_prefix("lazy:") {
		Some(n) => (n, true),
		None => (stage, false),
	};
	let g = FNS.iter().find(|f| f.0 == name)?.1;
	Some(decide(run, &g(&mut src, Cfg { long, lazy })))
}

// ───────────────────────────── self-test of the oracle ─────────────────────────────

thread_local! {
	/// (function name, Jsonnet definition of a deliberately wrong replacement); only set by `selftest`
	static MUTANT: std::cell::RefCell<Option<(&'static str, &'static str)>> = const { std::cell::RefCell::new(None) };
}
fn mutate(expr: &str) -> String {
	MUTANT.with(|m| match &*m.borrow() {
		None => expr.to_owned(),
		Some((name, def)) => format!("(local mut = {{ {def} }}; {})", expr.replace(&format!("std.{name}("), &format!("mut.{name}("))),
	})
}

/// wrong implementations written in Jsonnet; each must be caught by the stage of its function
const MUTANTS: &[(&str, &str, &str)] = &[
	("sort", "sort", "sort(arr, keyF=function(x) x):: std.reverse(std.sort(std.reverse(arr), keyF))"),
	("rel:sort", "sort", "sort(arr, keyF=function(x) x):: std.reverse(std.sort(std.reverse(arr), keyF))"),
	("uniq", "uniq", "uniq(arr, keyF=function(x) x):: std.foldl(function(acc, x) if std.length([1 for y in acc if keyF(y) == keyF(x)]) > 0 then acc else acc + [x], arr, [])"),
	("set", "set", "set(arr, keyF=function(x) x):: std.uniq(std.sort(arr, keyF))"),
	("setUnion", "setUnion", "setUnion(a, b, keyF=function(x) x):: std.setUnion(b, a, keyF)"),
	("setInter", "setInter", "setInter(a, b, keyF=function(x) x):: std.setInter(b, a, keyF)"),
	("setDiff", "setDiff", "setDiff(a, b, keyF=function(x) x):: local d = std.setDiff(a, b, keyF); if std.length(b) > 0 then [x for x in d if keyF(x) <= keyF(b[std.length(b) - 1])] else d"),
	("rel:sets", "setDiff", "setDiff(a, b, keyF=function(x) x):: local d = std.setDiff(a, b, keyF); if std.length(b) > 0 then [x for x in d if keyF(x) <= keyF(b[std.length(b) - 1])] else d"),
	("rel:sets", "setInter", "setInter(a, b, keyF=function(x) x):: local r = std.setInter(a, b, keyF); r[1:]"),
	("rel:sets", "setUnion", "setUnion(a, b, keyF=function(x) x):: if std.length(a) == 0 then b else if std.length(b) == 0 then a else std.setUnion(a, b[:std.length(b) - 1], keyF)"),
	("setMember", "setMember", "setMember(x, arr, keyF=function(x) x):: std.length(arr) > 0 && std.setMember(x, arr[1:], keyF)"),
	("member", "member", "member(arr, x):: if std.isArray(arr) then std.member(arr[1:], x) else std.member(arr, x)"),
	("contains", "contains", "contains(arr, x):: std.contains(arr[:std.length(arr) - 1], x)"),
	("find", "find", "find(v, arr):: [arr[i] for i in std.find(v, arr)]"),
	("count", "count", "count(arr, x):: if std.member(arr, x) then 1 else 0"),
	("remove", "remove", "remove(arr, x):: [e for e in arr if e != x]"),
	("removeAt", "removeAt", "removeAt(arr, at):: if at == std.length(arr) - 1 then arr else std.removeAt(arr, at)"),
	("flattenArrays", "flattenArrays", "flattenArrays(arrs):: std.flattenArrays(std.reverse(arrs))"),
	("flattenDeepArray", "flattenDeepArray", "flattenDeepArray(v):: if std.isArray(v) then std.flattenArrays([if std.isArray(x) then x else [x] for x in v]) else [v]"),
	("foldl", "foldl", "foldl(f, arr, init):: std.foldr(function(a, b) f(b, a), arr, init)"),
	("foldr", "foldr", "foldr(f, arr, init):: std.foldl(function(a, b) f(b, a), arr, init)"),
	("map", "map", "map(f, arr):: std.reverse(std.map(f, std.reverse(arr)))[:std.length(arr) - 1] + [f(arr[0])][:std.length(arr)]"),
	("mapWithIndex", "mapWithIndex", "mapWithIndex(f, arr):: std.mapWithIndex(function(i, x) f(i + 1, x), arr)"),
	("filter", "filter", "filter(f, arr):: std.filter(function(x) !f(x), arr)"),
	("filterMap", "filterMap", "filterMap(ff, mf, arr):: std.filter(ff, std.map(mf, arr))"),
	("flatMap", "flatMap", "flatMap(f, arr):: if std.isString(arr) then std.flatMap(f, arr) else std.flattenArrays(std.reverse(std.map(f, arr)))"),
	("join", "join", "join(sep, arr):: local r = std.join(sep, arr); if std.length(arr) > 0 && arr[0] == null && std.length(r) > 0 then sep + r else r"),
	("lines", "lines", "lines(arr):: std.join(\"\\n\", arr)"),
	("deepJoin", "deepJoin", "deepJoin(x):: if std.isArray(x) then std.join(\"\", [std.deepJoin(e) for e in std.reverse(x)]) else std.deepJoin(x)"),
	("any", "any", "any(arr):: std.any(arr[1:])"),
	("all", "all", "all(arr):: std.all(arr[:std.length(arr) - 1])"),
	("sum", "sum", "sum(arr):: std.sum(arr[1:])"),
	("avg", "avg", "avg(arr):: std.sum(arr) / (std.length(arr) - 1)"),
	("minArray", "minArray", "minArray(arr, keyF=function(x) x, onEmpty=error \"none\"):: if std.length(arr) == 0 then onEmpty else std.minArray(std.reverse(arr), keyF)"),
	("maxArray", "maxArray", "maxArray(arr, keyF=function(x) x, onEmpty=error \"none\"):: if std.length(arr) == 0 then onEmpty else std.maxArray(std.reverse(arr), keyF)"),
	("range", "range", "range(a, b):: std.range(a, b - 1)"),
	("repeat", "repeat", "repeat(w, n):: std.repeat(w, if n > 1 then n - 1 else n)"),
	("slice", "slice", "slice(a, i, e, s):: std.slice(a, i, if e == null || e < 0 then e else e + 1, s)"),
	("makeArray", "makeArray", "makeArray(n, f):: std.makeArray(n, function(i) f(n - 1 - i))"),
];

/// `VERIF_C10_SELFTEST=1 jv run C10 quick`: every mutant must turn a passing case of its stage into a failing one
fn selftest(run: &Run) {
	let cfg = Cfg { long: false, lazy: false };
	let mut state = 0x2545f4914f6cdd1du64;
	for (stage, name, def) in MUTANTS {
		let mut killed_after = None;
		for i in 0..4000u32 {
			let tape: Vec<u16> = (0..90)
				.map(|_| {
					state ^= state << 13;
					state ^= state >> 7;
					state ^= state << 17;
					(state >> 24) as u16
				})
				.collect();
			let go = |mutant: bool| -> CaseOut {
				MUTANT.with(|m| *m.borrow_mut() = if mutant { Some((*name, *def)) } else { None });
				let mut src = Src::new(&tape);
				let out = match *stage {
					"rel:sort" => rel_sort(run, &mut src, cfg),
					"rel:sets" => rel_sets(&mut src, cfg),
					s => {
						let g = FNS.iter().find(|f| f.0 == s).unwrap().1;
						decide(run, &g(&mut src, cfg))
					}
				};
				MUTANT.with(|m| *m.borrow_mut() = None);
				out
			};
			if !matches!(go(false).verdict, Verdict::Pass) {
				continue;
			}
			let out = go(true);
			if matches!(out.verdict, Verdict::Fail(_) | Verdict::Known(_)) {
				run.record("selftest", &CaseOut::pass(format!("{stage}/{name}: {}", out.text), true).class("selftest:killed"));
				killed_after = Some(i + 1);
				break;
			}
		}
		match killed_after {
			Some(n) => run.note(format!("selftest: mutant of std.{name} caught by stage {stage} after {n} cases")),
			None => run.infra(format!("selftest: mutant of std.{name} NOT caught by stage {stage}: {def}")),
		}
	}
}
