//! C11 — placeholder, replaced by the real check.
use crate::core::{CaseOut, Run};
pub fn run(run: &Run) {
	run.infra("C11 is not built yet");
}
pub fn replay(_run: &Run, _stage: &str, _tape: Option<&[u16]>, _v: &serde_json::Value) -> Option<CaseOut> {
	None
}
