//! C11 — stdlib string, encoding, parsing and hashing functions match their documented definitions.
//!
//! Reference implementations over `Vec<char>` (code-point semantics by construction) transcribed from the documented
//! definitions; second references (hashes, base64, UTF-8) through the Python sidecar; model-free inverse laws.
//! Where the documentation leaves an outcome open the question is asked with `Want::Any` (only a crash fails).
use std::{
	cell::Cell,
	io::Write as _,
	process::{Command, Stdio},
};

use serde_json::{json, Value};

use crate::{
	ast::{self, StrStyle},
	core::{hash128, CaseOut, Run, Src, Verdict},
	jr::{self, Opts, Outcome},
	json::{self, J},
};

const ORACLE: &str = "/verif/harness/oracle_c11.py";
/// questions per tape-generated case
const PER_CASE: usize = 8;
/// questions per batch program in the sidecar stages
const CHUNK: usize = 50;

// ---------------------------------------------------------------------------------------------------------------
// questions and their decision
// ---------------------------------------------------------------------------------------------------------------

#[derive(Clone, Debug)]
pub enum Want {
	/// succeeds with exactly this value (object fields in any order)
	Is(J),
	/// succeeds with one of these values
	OneOf(Vec<J>),
	/// must be an error
	Err,
	/// an error, or one of these values
	ErrOr(Vec<J>),
	/// not pinned down by the documentation: any outcome but a crash
	Any,
	/// a number within so many ulps
	Approx(f64, u64),
	/// a string that is a JSON string literal denoting exactly this text
	JsonLit(String),
}

pub struct Q {
	pub expr: String,
	pub want: Want,
	pub func: &'static str,
	pub nontrivial: bool,
	/// for string functions: does the subject contain a non-ASCII code point in its first half?
	pub early: Option<bool>,
	/// identity of the input in batch stages (for replay)
	pub key: String,
	/// signature of a recorded finding: if the question is answered wrongly, but in exactly this way, and the finding
	/// is listed with status `known`, the failure counts as that finding
	pub alt: Option<(&'static str, Want)>,
}

fn q(func: &'static str, expr: String, want: Want, nontrivial: bool, subject: Option<&[char]>) -> Q {
	Q { expr, want, func, nontrivial, early: subject.filter(|s| !s.is_empty()).map(early), key: String::new(), alt: None }
}
impl Q {
	fn or_known(mut self, id: &'static str, alt: Want) -> Q {
		self.alt = Some((id, alt));
		self
	}
}

/// std.base64 of a string encodes its UTF-8 bytes instead of one byte per code point (documented domain 0..255)
pub const K_BASE64_STR: &str = "C11-base64-string-encodes-utf8";
/// std.base64Decode decodes the bytes as UTF-8 (error when ill-formed) instead of one code point per byte
pub const K_BASE64_DECODE: &str = "C11-base64Decode-decodes-utf8";
/// std.parseHex takes the characters `:;<=>?` for the digits a..f
pub const K_PARSE_HEX: &str = "C11-parseHex-punctuation-digits";

pub enum Ans {
	Ok,
	Known(&'static str),
	Bad(String),
}

enum Got {
	Val(J),
	Err(String),
	Broken(String),
}

fn clip(mut t: String) -> String {
	if t.len() > 400 {
		let mut cut = 400;
		while !t.is_char_boundary(cut) {
			cut -= 1;
		}
		t.truncate(cut);
		t.push('…');
	}
	t
}

fn sorted(v: &J) -> J {
	let mut v = v.clone();
	v.sort_keys();
	v
}

fn ulps(a: f64, b: f64) -> u64 {
	if a == b {
		return 0;
	}
	if a.is_sign_negative() != b.is_sign_negative() {
		return u64::MAX;
	}
	a.to_bits().abs_diff(b.to_bits())
}

fn decide(want: &Want, got: &Got) -> Result<(), String> {
	let shown = match got {
		Got::Broken(m) => return Err(m.clone()),
		Got::Val(v) => clip(v.to_text()),
		Got::Err(m) => clip(format!("error: {m}")),
	};
	let val = match got {
		Got::Val(v) => Some(sorted(v)),
		_ => None,
	};
	let among = |ws: &[J]| val.as_ref().is_some_and(|g| ws.iter().any(|w| sorted(w).same(g)));
	let list = |ws: &[J]| ws.iter().map(|w| clip(w.to_text())).collect::<Vec<_>>().join(" or ");
	match want {
		Want::Any => Ok(()),
		Want::Err => {
			if val.is_some() {
				Err(format!("expected an error, got {shown}"))
			} else {
				Ok(())
			}
		}
		Want::Is(w) => {
			if among(std::slice::from_ref(w)) {
				Ok(())
			} else {
				Err(format!("expected {}, got {shown}", clip(w.to_text())))
			}
		}
		Want::OneOf(ws) => {
			if among(ws) {
				Ok(())
			} else {
				Err(format!("expected {}, got {shown}", list(ws)))
			}
		}
		Want::ErrOr(ws) => {
			if val.is_none() || among(ws) {
				Ok(())
			} else {
				Err(format!("expected an error or {}, got {shown}", list(ws)))
			}
		}
		Want::Approx(w, tol) => match &val {
			Some(J::Num(g)) if ulps(*g, *w) <= *tol => Ok(()),
			_ => Err(format!("expected {w:?} (within {tol} ulp), got {shown}")),
		},
		Want::JsonLit(text) => match &val {
			Some(J::Str(r)) => match json::parse(r) {
				Ok(J::Str(back)) if back == *text => Ok(()),
				Ok(other) => Err(format!("result {shown} read as JSON denotes {} instead of the argument", clip(other.to_text()))),
				Err(e) => Err(format!("result {shown} is not a JSON string literal ({} at {})", e.0, e.1)),
			},
			_ => Err(format!("expected a JSON string literal, got {shown}")),
		},
	}
}

fn eval_items(exprs: &[&str]) -> Result<Vec<Got>, String> {
	let mut prog = String::from("[\n");
	for e in exprs {
		prog.push_str("  verif.tryj((");
		prog.push_str(e);
		prog.push_str(")),\n");
	}
	prog.push_str("]\n");
	let text = match jr::eval(&prog, &Opts::default()) {
		Outcome::Val(t) => t,
		o => return Err(format!("did not evaluate: {}", clip(o.short()))),
	};
	let Ok(J::Arr(items)) = json::parse(&text) else { return Err("batch output is not a JSON array".to_owned()) };
	if items.len() != exprs.len() {
		return Err("batch output has the wrong length".to_owned());
	}
	Ok(items
		.iter()
		.map(|item| {
			let J::Arr(r) = item else { return Got::Broken("malformed result".to_owned()) };
			match (r.first(), r.get(1), r.get(2)) {
				(Some(J::Bool(true)), Some(J::Str(t)), _) => match json::parse(t) {
					Ok(v) => Got::Val(v),
					Err(e) => Got::Broken(format!("result is not valid JSON ({} at {}): {}", e.0, e.1, clip(t.clone()))),
				},
				(Some(J::Bool(false)), Some(J::Str(k)), Some(J::Str(m))) => Got::Err(format!("[{k}] {m}")),
				_ => Got::Broken("malformed result".to_owned()),
			}
		})
		.collect())
}

/// evaluate the questions in one program (falling back to one program per question if the batch as a whole breaks,
/// so that a crash is pinned on the question that causes it) and decide each
pub fn ask(run: &Run, qs: &[Q]) -> Vec<Ans> {
	if qs.is_empty() {
		return vec![];
	}
	let answer = |q: &Q, g: &Got| match decide(&q.want, g) {
		Ok(()) => Ans::Ok,
		Err(e) => match &q.alt {
			Some((id, alt)) if run.is_known(id) && decide(alt, g).is_ok() => Ans::Known(id),
			_ => Ans::Bad(e),
		},
	};
	let exprs: Vec<&str> = qs.iter().map(|q| q.expr.as_str()).collect();
	match eval_items(&exprs) {
		Ok(gots) => qs.iter().zip(gots.iter()).map(|(q, g)| answer(q, g)).collect(),
		Err(e) if qs.len() == 1 => vec![answer(&qs[0], &Got::Broken(e))],
		Err(_) => qs.iter().flat_map(|q| ask(run, std::slice::from_ref(q))).collect(),
	}
}

/// verdict of a group of questions asked together
fn verdict_of(text_ok: String, first: &Q, problems: Vec<String>, known: Option<&'static str>, text_bad: String) -> CaseOut {
	if !problems.is_empty() {
		let n = problems.len();
		let mut shown = problems;
		shown.truncate(12);
		let head = if n > 1 { format!("{n} questions answered wrongly:\n") } else { String::new() };
		CaseOut::fail(text_bad, format!("{head}{}", shown.join("\n"))).classes(classes_of(first))
	} else if let Some(id) = known {
		CaseOut { verdict: Verdict::Known(id.to_owned()), text: text_ok, nontrivial: true, classes: classes_of(first) }
	} else {
		CaseOut::pass(text_ok, first.nontrivial).classes(classes_of(first))
	}
}

fn classes_of(qu: &Q) -> Vec<String> {
	let mut c = vec![format!("fn:{}", qu.func)];
	if let Some(e) = qu.early {
		c.push("subject:string".to_owned());
		if e {
			c.push("subject:nonascii-early".to_owned());
		}
	}
	if matches!(qu.want, Want::Any) {
		c.push("want:any".to_owned());
	}
	if matches!(qu.want, Want::Err) {
		c.push("want:error".to_owned());
	}
	c
}

// ---------------------------------------------------------------------------------------------------------------
// literals
// ---------------------------------------------------------------------------------------------------------------

fn lit(s: &str) -> String {
	ast::string_literal(s, StrStyle::Double, "")
}
fn litc(s: &[char]) -> String {
	lit(&s.iter().collect::<String>())
}
fn st(s: &[char]) -> String {
	s.iter().collect()
}
fn jstr(s: &[char]) -> J {
	J::Str(st(s))
}
fn jstrs(v: &[Vec<char>]) -> J {
	J::Arr(v.iter().map(|x| jstr(x)).collect())
}
fn jnum(n: usize) -> J {
	J::Num(n as f64)
}

#[derive(Clone, Copy)]
enum NumArg {
	Int(i64),
	Frac(f64),
}
impl NumArg {
	fn lit(self) -> String {
		match self {
			NumArg::Int(i) if i < 0 => format!("(-{})", -i),
			NumArg::Int(i) => format!("{i}"),
			NumArg::Frac(f) if f < 0.0 => format!("(-{:?})", -f),
			NumArg::Frac(f) => format!("{f:?}"),
		}
	}
	fn nat(self) -> Option<usize> {
		match self {
			NumArg::Int(i) if i >= 0 => Some(i as usize),
			_ => None,
		}
	}
}

// ---------------------------------------------------------------------------------------------------------------
// reference implementations (documented definitions, code-point semantics)
// ---------------------------------------------------------------------------------------------------------------

fn is_wide(s: &[char]) -> bool {
	s.iter().any(|c| (*c as u32) > 127)
}
fn early(s: &[char]) -> bool {
	s.iter().take(s.len().div_ceil(2)).any(|c| (*c as u32) > 127)
}

/// "the part of s that starts at offset from and is len codepoints long; if s is shorter than from+len, the suffix
/// starting at position from"
fn r_substr(s: &[char], from: usize, len: usize) -> Vec<char> {
	let a = from.min(s.len());
	let b = from.saturating_add(len).min(s.len());
	s[a..b].to_vec()
}

/// split at the occurrences of `c`, found left to right, at most `max` times (None: unlimited); `c` non-empty
fn r_split(s: &[char], c: &[char], max: Option<usize>) -> Vec<Vec<char>> {
	let mut out = vec![];
	let mut cur = vec![];
	let mut i = 0;
	let mut splits = 0;
	while i < s.len() {
		if max.is_none_or(|m| splits < m) && i + c.len() <= s.len() && s[i..i + c.len()] == *c {
			out.push(std::mem::take(&mut cur));
			i += c.len();
			splits += 1;
		} else {
			cur.push(s[i]);
			i += 1;
		}
	}
	out.push(cur);
	out
}

/// the same, scanning from right to left
fn r_split_r(s: &[char], c: &[char], max: Option<usize>) -> Vec<Vec<char>> {
	let rs: Vec<char> = s.iter().rev().copied().collect();
	let rc: Vec<char> = c.iter().rev().copied().collect();
	let mut parts = r_split(&rs, &rc, max);
	parts.reverse();
	parts.into_iter().map(|p| p.into_iter().rev().collect()).collect()
}

/// all (left to right, non-overlapping) occurrences of `from` replaced by `to`; `from` non-empty
fn r_replace(s: &[char], from: &[char], to: &[char]) -> Vec<char> {
	let mut out = vec![];
	let mut i = 0;
	while i < s.len() {
		if i + from.len() <= s.len() && s[i..i + from.len()] == *from {
			out.extend_from_slice(to);
			i += from.len();
		} else {
			out.push(s[i]);
			i += 1;
		}
	}
	out
}

/// indexes of all occurrences (overlapping ones included) of `pat` in `s`; `pat` non-empty
fn r_find(pat: &[char], s: &[char]) -> Vec<usize> {
	if pat.len() > s.len() {
		return vec![];
	}
	(0..=s.len() - pat.len()).filter(|i| s[*i..*i + pat.len()] == *pat).collect()
}

fn r_strip(s: &[char], set: &[char], left: bool, right: bool) -> Vec<char> {
	let mut a = 0;
	let mut b = s.len();
	if left {
		while a < b && set.contains(&s[a]) {
			a += 1;
		}
	}
	if right {
		while b > a && set.contains(&s[b - 1]) {
			b -= 1;
		}
	}
	s[a..b].to_vec()
}

const TRIM_SET: &[char] = &[' ', '\t', '\n', '\u{c}', '\r', '\u{85}', '\u{a0}'];

fn r_upper(s: &[char]) -> Vec<char> {
	s.iter().map(|c| if ('a'..='z').contains(c) { (*c as u8 - 32) as char } else { *c }).collect()
}
fn r_lower(s: &[char]) -> Vec<char> {
	s.iter().map(|c| if ('A'..='Z').contains(c) { (*c as u8 + 32) as char } else { *c }).collect()
}

fn r_escape_bash(s: &[char]) -> String {
	let mut o = String::from("'");
	for c in s {
		if *c == '\'' {
			o.push_str("'\"'\"'");
		} else {
			o.push(*c);
		}
	}
	o.push('\'');
	o
}
fn r_escape_dollars(s: &[char]) -> String {
	let mut o = String::new();
	for c in s {
		if *c == '$' {
			o.push_str("$$");
		} else {
			o.push(*c);
		}
	}
	o
}
fn r_escape_xml(s: &[char]) -> String {
	let mut o = String::new();
	for c in s {
		match c {
			'<' => o.push_str("&lt;"),
			'>' => o.push_str("&gt;"),
			'&' => o.push_str("&amp;"),
			'"' => o.push_str("&quot;"),
			'\'' => o.push_str("&apos;"),
			c => o.push(*c),
		}
	}
	o
}

/// documented number parsers: optional single '-' (decimal only), then one or more digits of the base
/// Ok(None): outcome left open by the documentation
fn r_parse_num(s: &str, base: u32) -> Result<Option<(bool, u128)>, ()> {
	let (neg, digits) = match s.strip_prefix('-') {
		Some(rest) if base == 10 => (true, rest),
		_ => (false, s),
	};
	if base == 10 && s.starts_with('+') && s.len() > 1 && s[1..].chars().all(|c| c.is_ascii_digit()) {
		// "signed decimal integer": an explicit plus sign is neither promised nor excluded
		return Ok(None);
	}
	if digits.is_empty() {
		return Err(());
	}
	let mut v: u128 = 0;
	for c in digits.chars() {
		let d = match c {
			'0'..='9' => c as u32 - '0' as u32,
			'a'..='f' => c as u32 - 'a' as u32 + 10,
			'A'..='F' => c as u32 - 'A' as u32 + 10,
			_ => return Err(()),
		};
		if d >= base {
			return Err(());
		}
		v = v.checked_mul(base as u128).and_then(|x| x.checked_add(d as u128)).ok_or(())?;
	}
	Ok(Some((neg, v)))
}

fn want_num(s: &str, base: u32) -> Want {
	match r_parse_num(s, base) {
		Err(()) => Want::Err,
		Ok(None) => Want::Any,
		Ok(Some((neg, v))) => {
			let f = if neg { -(v as f64) } else { v as f64 };
			if v <= 1u128 << 53 {
				Want::Is(J::Num(f))
			} else {
				// beyond 2^53 the documentation does not say how the integer is rounded: a few ulps are tolerated
				Want::Approx(f, 8)
			}
		}
	}
}

/// own base64 encoder (RFC 4648, padded)
fn my_b64(b: &[u8]) -> String {
	const T: &[u8; 64] = b"ABCDEFGHIJKLMNOPQRSTUVWXYZabcdefghijklmnopqrstuvwxyz0123456789+/";
	let mut o = String::new();
	for ch in b.chunks(3) {
		let n = (ch[0] as u32) << 16 | (*ch.get(1).unwrap_or(&0) as u32) << 8 | *ch.get(2).unwrap_or(&0) as u32;
		o.push(T[(n >> 18) as usize & 63] as char);
		o.push(T[(n >> 12) as usize & 63] as char);
		o.push(if ch.len() > 1 { T[(n >> 6) as usize & 63] as char } else { '=' });
		o.push(if ch.len() > 2 { T[n as usize & 63] as char } else { '=' });
	}
	o
}

/// strict decoder of one UTF-8 encoded scalar (no overlong forms, no surrogates, at most U+10FFFF)
fn utf8_one(b: &[u8]) -> Option<(char, usize)> {
	let cont = |i: usize, lo: u8, hi: u8| b.get(i).copied().filter(|x| (lo..=hi).contains(x)).map(|x| (x & 0x3f) as u32);
	let b0 = *b.first()?;
	let (cp, n) = match b0 {
		0..=0x7f => (b0 as u32, 1),
		0xc2..=0xdf => ((b0 as u32 & 0x1f) << 6 | cont(1, 0x80, 0xbf)?, 2),
		0xe0..=0xef => {
			let (lo, hi) = match b0 {
				0xe0 => (0xa0, 0xbf),
				0xed => (0x80, 0x9f),
				_ => (0x80, 0xbf),
			};
			((b0 as u32 & 0x0f) << 12 | cont(1, lo, hi)? << 6 | cont(2, 0x80, 0xbf)?, 3)
		}
		0xf0..=0xf4 => {
			let (lo, hi) = match b0 {
				0xf0 => (0x90, 0xbf),
				0xf4 => (0x80, 0x8f),
				_ => (0x80, 0xbf),
			};
			((b0 as u32 & 0x07) << 18 | cont(1, lo, hi)? << 12 | cont(2, 0x80, 0xbf)? << 6 | cont(3, 0x80, 0xbf)?, 4)
		}
		_ => return None,
	};
	char::from_u32(cp).map(|c| (c, n))
}
/// decoding that substitutes U+FFFD for every byte that does not start a valid sequence (the reference
/// implementations' convention; the sidecar supplies the "maximal subpart" convention)
fn utf8_per_byte_replace(b: &[u8]) -> String {
	let mut o = String::new();
	let mut i = 0;
	while i < b.len() {
		match utf8_one(&b[i..]) {
			Some((c, n)) => {
				o.push(c);
				i += n;
			}
			None => {
				o.push('\u{fffd}');
				i += 1;
			}
		}
	}
	o
}

// ---------------------------------------------------------------------------------------------------------------
// generators of arguments
// ---------------------------------------------------------------------------------------------------------------

pub struct Cfg {
	/// longest generated string (code points)
	maxlen: usize,
}

const ASCII: &[char] = &['a', 'b', 'A', 'z', ' ', ',', '%', '\n', '\t', '\'', '"', '$', '<', '&', '>', '\\', 'Z', '0', '/'];
const WIDE: &[char] = &['é', 'ß', '漢', '😀', '\u{301}', '\u{a0}', '\u{85}', 'É'];
const CTL: &[char] = &['\r', '\u{8}', '\u{c}', '\u{1}', '\u{1f}', '\u{7f}', '\u{0}'];
const EDGE: &[char] = &['@', '[', '`', '{', 'Z', 'z', 'A', 'a', 'm', 'M'];

fn gen_char(src: &mut Src) -> char {
	if src.chance(1, 2) {
		*src.pick(WIDE)
	} else {
		*src.pick(ASCII)
	}
}

fn gen_len(cfg: &Cfg, src: &mut Src, max: usize) -> usize {
	let max = max.min(cfg.maxlen);
	if cfg.maxlen > 12 && max > 12 && !src.chance(1, 5) {
		src.below(13)
	} else {
		src.below(max + 1)
	}
}

/// string of up to `max` code points; either over the whole alphabet or over a tiny one (repeating, overlapping)
fn gen_str_x(cfg: &Cfg, src: &mut Src, max: usize, extra: &[char]) -> Vec<char> {
	let n = gen_len(cfg, src, max);
	let one = |src: &mut Src| {
		if !extra.is_empty() && src.chance(1, 4) {
			*src.pick(extra)
		} else {
			gen_char(src)
		}
	};
	if src.chance(2, 5) {
		let k = 1 + src.below(2);
		let small: Vec<char> = (0..k).map(|_| one(src)).collect();
		(0..n).map(|_| *src.pick(&small)).collect()
	} else {
		(0..n)
			.map(|i| {
				if i == 0 && src.chance(1, 2) {
					*src.pick(WIDE)
				} else {
					one(src)
				}
			})
			.collect()
	}
}
fn gen_str(cfg: &Cfg, src: &mut Src, max: usize) -> Vec<char> {
	gen_str_x(cfg, src, max, &[])
}

/// pattern / separator related to the subject: substring, altered substring, the subject, longer than the subject,
/// short random, empty
fn gen_pat(src: &mut Src, s: &[char]) -> Vec<char> {
	let n = s.len();
	match src.weighted(&[6, 3, 1, 1, 1, 2]) {
		0 | 5 if n == 0 => vec![gen_char(src)],
		0 => {
			let a = src.below(n);
			let l = 1 + src.below((n - a).min(3));
			s[a..a + l].to_vec()
		}
		1 => (0..1 + src.below(2)).map(|_| gen_char(src)).collect(),
		2 => vec![],
		3 => s.to_vec(),
		4 => {
			let mut v = s.to_vec();
			v.push(gen_char(src));
			v
		}
		_ => {
			let a = src.below(n);
			let l = 1 + src.below((n - a).min(3));
			let mut v = s[a..a + l].to_vec();
			*v.last_mut().unwrap() = gen_char(src);
			v
		}
	}
}

/// offset / count: 0..n+3, rarely -1 or fractional
fn gen_off(src: &mut Src, n: usize) -> NumArg {
	match src.weighted(&[14, 1, 1]) {
		0 => NumArg::Int(src.below(n + 4) as i64),
		1 => NumArg::Int(-1),
		_ => NumArg::Frac(src.below(n + 2) as f64 + 0.5),
	}
}

/// maxsplits in {-1, 0, 1, 2, len, len+1}, rarely -2 or fractional
fn gen_maxsplits(src: &mut Src, n: usize) -> NumArg {
	match src.weighted(&[3, 3, 3, 3, 2, 2, 1, 1]) {
		0 => NumArg::Int(-1),
		1 => NumArg::Int(0),
		2 => NumArg::Int(1),
		3 => NumArg::Int(2),
		4 => NumArg::Int(n as i64),
		5 => NumArg::Int(n as i64 + 1),
		6 => NumArg::Int(-2),
		_ => NumArg::Frac(1.5),
	}
}

// ---------------------------------------------------------------------------------------------------------------
// generators of questions, one per function
// ---------------------------------------------------------------------------------------------------------------

type Gen = fn(&Cfg, &mut Src, &mut Vec<Q>);

fn g_length(cfg: &Cfg, src: &mut Src, out: &mut Vec<Q>) {
	let s = gen_str(cfg, src, 64);
	out.push(q("length", format!("std.length({})", litc(&s)), Want::Is(jnum(s.len())), is_wide(&s), Some(&s)));
}

fn g_substr(cfg: &Cfg, src: &mut Src, out: &mut Vec<Q>) {
	let s = gen_str(cfg, src, 64);
	let from = gen_off(src, s.len());
	let len = gen_off(src, s.len());
	let want = match (from.nat(), len.nat()) {
		(Some(f), Some(l)) => Want::Is(jstr(&r_substr(&s, f, l))),
		// negative and fractional offsets / lengths are not documented
		_ => Want::Any,
	};
	let beyond = from.nat().zip(len.nat()).is_some_and(|(f, l)| f + l >= s.len());
	out.push(q("substr", format!("std.substr({}, {}, {})", litc(&s), from.lit(), len.lit()), want, is_wide(&s) || beyond, Some(&s)));
}

fn g_split(cfg: &Cfg, src: &mut Src, out: &mut Vec<Q>) {
	let s = gen_str(cfg, src, 64);
	let c = gen_pat(src, &s);
	let want = if c.is_empty() { Want::Any } else { Want::Is(jstrs(&r_split(&s, &c, None))) };
	out.push(q("split", format!("std.split({}, {})", litc(&s), litc(&c)), want, is_wide(&s) || is_wide(&c), Some(&s)));
}

fn split_limit_q(cfg: &Cfg, src: &mut Src, out: &mut Vec<Q>, right: bool) {
	let s = gen_str(cfg, src, 64);
	let c = gen_pat(src, &s);
	let m = gen_maxsplits(src, s.len());
	let want = if c.is_empty() {
		Want::Any
	} else {
		match m {
			NumArg::Int(-1) if right => {
				// "-1 means unlimited" and "from right to left": with overlapping separators the two scanning
				// directions differ and the documentation does not say which one an unlimited split uses
				let a = jstrs(&r_split(&s, &c, None));
				let b = jstrs(&r_split_r(&s, &c, None));
				if a.same(&b) {
					Want::Is(a)
				} else {
					Want::OneOf(vec![a, b])
				}
			}
			NumArg::Int(-1) => Want::Is(jstrs(&r_split(&s, &c, None))),
			NumArg::Int(k) if k >= 0 => Want::Is(jstrs(&if right { r_split_r(&s, &c, Some(k as usize)) } else { r_split(&s, &c, Some(k as usize)) })),
			_ => Want::Any,
		}
	};
	let (name, f): (&'static str, &str) = if right { ("splitLimitR", "std.splitLimitR") } else { ("splitLimit", "std.splitLimit") };
	out.push(q(name, format!("{f}({}, {}, {})", litc(&s), litc(&c), m.lit()), want, is_wide(&s) || is_wide(&c), Some(&s)));
}
fn g_split_limit(cfg: &Cfg, src: &mut Src, out: &mut Vec<Q>) {
	split_limit_q(cfg, src, out, false)
}
fn g_split_limit_r(cfg: &Cfg, src: &mut Src, out: &mut Vec<Q>) {
	split_limit_q(cfg, src, out, true)
}

fn g_str_replace(cfg: &Cfg, src: &mut Src, out: &mut Vec<Q>) {
	let s = gen_str(cfg, src, 64);
	let from = gen_pat(src, &s);
	let to = match src.weighted(&[3, 1, 1, 1]) {
		0 => gen_str(cfg, src, 3),
		1 => vec![],
		// replacement that contains the pattern: must not be scanned again
		2 => [from.clone(), from.clone()].concat(),
		_ => [vec![gen_char(src)], from.clone()].concat(),
	};
	let want = if from.is_empty() { Want::Any } else { Want::Is(jstr(&r_replace(&s, &from, &to))) };
	out.push(q("strReplace", format!("std.strReplace({}, {}, {})", litc(&s), litc(&from), litc(&to)), want, is_wide(&s) || is_wide(&from) || is_wide(&to), Some(&s)));
}

fn g_find_substr(cfg: &Cfg, src: &mut Src, out: &mut Vec<Q>) {
	let s = gen_str(cfg, src, 64);
	let pat = gen_pat(src, &s);
	let want = if pat.is_empty() { Want::Any } else { Want::Is(J::Arr(r_find(&pat, &s).into_iter().map(jnum).collect())) };
	out.push(q("findSubstr", format!("std.findSubstr({}, {})", litc(&pat), litc(&s)), want, is_wide(&s) || pat.len() >= s.len(), Some(&s)));
}

fn affix_q(cfg: &Cfg, src: &mut Src, out: &mut Vec<Q>, end: bool) {
	let a = gen_str(cfg, src, 64);
	let n = a.len();
	let b = match src.weighted(&[4, 2, 1, 1]) {
		0 => {
			let l = src.below(n + 1);
			if end {
				a[n - l..].to_vec()
			} else {
				a[..l].to_vec()
			}
		}
		1 => gen_pat(src, &a),
		2 => {
			// longer than the subject
			let mut v = a.clone();
			if end {
				v.insert(0, gen_char(src));
			} else {
				v.push(gen_char(src));
			}
			v
		}
		_ => {
			// an affix of the other end
			let l = src.below(n + 1);
			if end {
				a[..l].to_vec()
			} else {
				a[n - l..].to_vec()
			}
		}
	};
	let r = if end { a.len() >= b.len() && a[a.len() - b.len()..] == b[..] } else { a.len() >= b.len() && a[..b.len()] == b[..] };
	let (name, f): (&'static str, &str) = if end { ("endsWith", "std.endsWith") } else { ("startsWith", "std.startsWith") };
	out.push(q(name, format!("{f}({}, {})", litc(&a), litc(&b)), Want::Is(J::Bool(r)), is_wide(&a) || is_wide(&b) || b.len() >= a.len(), Some(&a)));
}
fn g_starts_with(cfg: &Cfg, src: &mut Src, out: &mut Vec<Q>) {
	affix_q(cfg, src, out, false)
}
fn g_ends_with(cfg: &Cfg, src: &mut Src, out: &mut Vec<Q>) {
	affix_q(cfg, src, out, true)
}

fn strip_q(cfg: &Cfg, src: &mut Src, out: &mut Vec<Q>, which: u8) {
	let s = gen_str(cfg, src, 64);
	let n = s.len();
	let mut set: Vec<char> = vec![];
	match src.weighted(&[5, 2, 1]) {
		0 if n > 0 => {
			// characters taken from the ends of the subject (so that something is stripped) plus maybe a stranger
			for _ in 0..1 + src.below(3) {
				let c = match src.below(4) {
					0 => s[0],
					1 => s[n - 1],
					2 => s[src.below(n)],
					_ => gen_char(src),
				};
				set.push(c);
			}
		}
		0 | 1 => {
			for _ in 0..1 + src.below(3) {
				set.push(gen_char(src));
			}
		}
		_ => {}
	}
	let (name, f, l, r): (&'static str, &str, bool, bool) = match which {
		0 => ("stripChars", "std.stripChars", true, true),
		1 => ("lstripChars", "std.lstripChars", true, false),
		_ => ("rstripChars", "std.rstripChars", false, true),
	};
	let want = Want::Is(jstr(&r_strip(&s, &set, l, r)));
	out.push(q(name, format!("{f}({}, {})", litc(&s), litc(&set)), want, is_wide(&s) || is_wide(&set), Some(&s)));
}
fn g_strip_chars(cfg: &Cfg, src: &mut Src, out: &mut Vec<Q>) {
	strip_q(cfg, src, out, 0)
}
fn g_lstrip_chars(cfg: &Cfg, src: &mut Src, out: &mut Vec<Q>) {
	strip_q(cfg, src, out, 1)
}
fn g_rstrip_chars(cfg: &Cfg, src: &mut Src, out: &mut Vec<Q>) {
	strip_q(cfg, src, out, 2)
}

fn g_trim(cfg: &Cfg, src: &mut Src, out: &mut Vec<Q>) {
	let ws = |src: &mut Src| -> Vec<char> { (0..src.below(4)).map(|_| *src.pick(TRIM_SET)).collect() };
	let mut s = ws(src);
	let mut core = gen_str(cfg, src, 8);
	if src.chance(1, 3) && !core.is_empty() {
		// white space inside stays
		let at = src.below(core.len());
		core.insert(at, *src.pick(TRIM_SET));
	}
	s.extend(core);
	s.extend(ws(src));
	let want = Want::Is(jstr(&r_strip(&s, TRIM_SET, true, true)));
	out.push(q("trim", format!("std.trim({})", litc(&s)), want, is_wide(&s), Some(&s)));
}

fn g_ascii_upper(cfg: &Cfg, src: &mut Src, out: &mut Vec<Q>) {
	let s = gen_str_x(cfg, src, 64, EDGE);
	out.push(q("asciiUpper", format!("std.asciiUpper({})", litc(&s)), Want::Is(jstr(&r_upper(&s))), is_wide(&s), Some(&s)));
}
fn g_ascii_lower(cfg: &Cfg, src: &mut Src, out: &mut Vec<Q>) {
	let s = gen_str_x(cfg, src, 64, EDGE);
	out.push(q("asciiLower", format!("std.asciiLower({})", litc(&s)), Want::Is(jstr(&r_lower(&s))), is_wide(&s), Some(&s)));
}

fn g_string_chars(cfg: &Cfg, src: &mut Src, out: &mut Vec<Q>) {
	let s = gen_str(cfg, src, 64);
	let want = Want::Is(J::Arr(s.iter().map(|c| J::Str(c.to_string())).collect()));
	out.push(q("stringChars", format!("std.stringChars({})", litc(&s)), want, is_wide(&s), Some(&s)));
}

const CODEPOINTS: &[u32] = &[0x61, 0, 0x7f, 0x80, 0xff, 0x100, 0x7ff, 0x800, 0xd7ff, 0xe000, 0xfffd, 0xffff, 0x10000, 0x1f600, 0x10ffff];

fn gen_scalar(src: &mut Src) -> char {
	match src.weighted(&[2, 3, 1]) {
		0 => gen_char(src),
		1 => char::from_u32(*src.pick(CODEPOINTS)).unwrap(),
		_ => char::from_u32(src.below(0x110000) as u32).unwrap_or('\u{e000}'),
	}
}

fn g_codepoint(_cfg: &Cfg, src: &mut Src, out: &mut Vec<Q>) {
	if src.chance(1, 10) {
		// "the given single-character string": other lengths are not documented
		let s: Vec<char> = if src.chance(1, 2) { vec![] } else { vec![gen_char(src), gen_char(src)] };
		out.push(q("codepoint", format!("std.codepoint({})", litc(&s)), Want::Any, false, None));
		return;
	}
	let c = gen_scalar(src);
	out.push(q("codepoint", format!("std.codepoint({})", litc(&[c])), Want::Is(J::Num(c as u32 as f64)), (c as u32) > 127, None));
}

fn g_char(_cfg: &Cfg, src: &mut Src, out: &mut Vec<Q>) {
	let (arg, want, nt): (String, Want, bool) = match src.weighted(&[6, 3, 2, 1]) {
		0 => {
			let c = gen_scalar(src);
			(format!("{}", c as u32), Want::Is(J::Str(c.to_string())), (c as u32) > 127)
		}
		1 => {
			// no string consists of one surrogate code point: an error (or the replacement character) is all that fits
			let n = *src.pick(&[0xd800u32, 0xdbff, 0xdc00, 0xdfff, 0xd912]);
			(format!("{n}"), Want::ErrOr(vec![J::Str("\u{fffd}".to_owned())]), true)
		}
		2 => {
			// there is no such code point
			let a = *src.pick(&["1114112", "1114113", "4294967295", "4294967296", "4294967393", "(-1)", "(-97)", "1e15"]);
			(a.to_owned(), Want::Err, true)
		}
		_ => {
			let a = *src.pick(&["1.5", "97.5", "(-0.5)", "0.25"]);
			(a.to_owned(), Want::Any, false)
		}
	};
	out.push(q("char", format!("std.char({arg})"), want, nt, None));
}

fn g_equals_ignore_case(cfg: &Cfg, src: &mut Src, out: &mut Vec<Q>) {
	let a = gen_str_x(cfg, src, 64, EDGE);
	let mut b = a.clone();
	match src.weighted(&[4, 2, 2, 1, 1]) {
		0 => {
			// flip the case of some ASCII letters
			for c in b.iter_mut() {
				if src.chance(1, 2) {
					if c.is_ascii_lowercase() {
						*c = c.to_ascii_uppercase();
					} else if c.is_ascii_uppercase() {
						*c = c.to_ascii_lowercase();
					}
				}
			}
		}
		1 if !b.is_empty() => {
			let i = src.below(b.len());
			b[i] = if src.chance(1, 2) { *src.pick(EDGE) } else { gen_char(src) };
		}
		2 if !b.is_empty() => {
			// neighbours of letters at distance 32 that are not letters: '@'/'`', '['/'{'
			let i = src.below(b.len());
			b[i] = match b[i] {
				'@' => '`',
				'`' => '@',
				'[' => '{',
				'{' => '[',
				'é' => 'É',
				'É' => 'é',
				c => c,
			};
		}
		3 => b.push(gen_char(src)),
		1 | 2 => {}
		_ => b = gen_str_x(cfg, src, 64, EDGE),
	}
	let ascii_eq = r_lower(&a) == r_lower(&b);
	// the definition in std.jsonnet is `std.asciiLower(str1) == std.asciiLower(str2)`: only A-Z / a-z are folded
	// (until round 3 of the seeded changes the folding of other letters was left open here)
	let want = Want::Is(J::Bool(ascii_eq));
	out.push(q("equalsIgnoreCase", format!("std.equalsIgnoreCase({}, {})", litc(&a), litc(&b)), want, is_wide(&a) || is_wide(&b), Some(&a)));
}

fn g_is_empty(cfg: &Cfg, src: &mut Src, out: &mut Vec<Q>) {
	let s = match src.weighted(&[2, 2, 3]) {
		0 => vec![],
		1 => vec![*src.pick(&[' ', '\u{301}', '\u{0}', '\n', '\u{a0}', '😀', 'a'])],
		_ => gen_str(cfg, src, 4),
	};
	out.push(q("isEmpty", format!("std.isEmpty({})", litc(&s)), Want::Is(J::Bool(s.is_empty())), is_wide(&s) || s.is_empty(), None));
}

fn g_escape_json(cfg: &Cfg, src: &mut Src, out: &mut Vec<Q>) {
	let s = gen_str_x(cfg, src, 64, CTL);
	out.push(q("escapeStringJson", format!("std.escapeStringJson({})", litc(&s)), Want::JsonLit(st(&s)), true, Some(&s)));
}
fn g_escape_python(cfg: &Cfg, src: &mut Src, out: &mut Vec<Q>) {
	let s = gen_str_x(cfg, src, 64, CTL);
	out.push(q("escapeStringPython", format!("std.escapeStringPython({})", litc(&s)), Want::JsonLit(st(&s)), true, Some(&s)));
	// "This is an alias for std.escapeStringJson"
	out.push(q("escapeStringPython", format!("std.escapeStringPython({0}) == std.escapeStringJson({0})", litc(&s)), Want::Is(J::Bool(true)), true, Some(&s)));
}
fn g_escape_bash(cfg: &Cfg, src: &mut Src, out: &mut Vec<Q>) {
	let s = gen_str_x(cfg, src, 64, &['\'', '\'', '"', '\\']);
	out.push(q("escapeStringBash", format!("std.escapeStringBash({})", litc(&s)), Want::Is(J::Str(r_escape_bash(&s))), true, Some(&s)));
}
fn g_escape_dollars(cfg: &Cfg, src: &mut Src, out: &mut Vec<Q>) {
	let s = gen_str_x(cfg, src, 64, &['$', '$', '%']);
	out.push(q("escapeStringDollars", format!("std.escapeStringDollars({})", litc(&s)), Want::Is(J::Str(r_escape_dollars(&s))), true, Some(&s)));
}
fn g_escape_xml(cfg: &Cfg, src: &mut Src, out: &mut Vec<Q>) {
	let s = gen_str_x(cfg, src, 64, &['<', '>', '&', '"', '\'', ';']);
	out.push(q("escapeStringXML", format!("std.escapeStringXML({})", litc(&s)), Want::Is(J::Str(r_escape_xml(&s))), true, Some(&s)));
}

// ---- number parsers -------------------------------------------------------------------------------------------

fn to_base(mut v: u128, base: u32, upper: bool) -> String {
	if v == 0 {
		return "0".to_owned();
	}
	let mut d = vec![];
	while v > 0 {
		let c = char::from_digit((v % base as u128) as u32, base).unwrap();
		d.push(if upper { c.to_ascii_uppercase() } else { c });
		v /= base as u128;
	}
	d.iter().rev().collect()
}

fn gen_digit(src: &mut Src, base: u32) -> char {
	let c = char::from_digit(src.below(base as usize) as u32, base).unwrap();
	if src.chance(1, 2) {
		c.to_ascii_uppercase()
	} else {
		c
	}
}

const BOUNDARY: &[u128] = &[
	(1 << 53) - 1,
	1 << 53,
	(1 << 53) + 1,
	(1 << 53) + 2,
	(1 << 53) + 3,
	(1 << 54) + 2,
	(1 << 63) - 1,
	1 << 63,
	(1 << 64) - 1,
	1 << 64,
	(1 << 64) + 1,
	1_000_000_000_000_000,
	9_999_999_999_999_999,
	99_999_999_999_999_999_999,
	(1 << 31) - 1,
	1 << 32,
];

fn gen_numstr(src: &mut Src, base: u32) -> (String, bool) {
	let invalid: &[char] = match base {
		8 => &['8', '9', 'a', '-', ' ', ':', '/', '٣', '+', '.'],
		10 => &['a', ':', '/', ' ', '+', '.', 'e', '٣', '５', '-', 'A', '\n'],
		_ => &['g', 'G', ':', ';', '?', '@', '/', '`', 'x', ' ', '-', '٣', '+', '.'],
	};
	let digits = |src: &mut Src, n: usize| -> String { (0..n).map(|_| gen_digit(src, base)).collect() };
	let mut nontrivial = false;
	let mut s = match src.weighted(&[5, 5, 1, 1, 2, 4, 3, 1]) {
		0 => {
			let n = 1 + src.below(6);
			digits(src, n)
		}
		1 => {
			// one character that is not a digit of the base, at any position
			nontrivial = true;
			let n = src.below(5);
			let mut v: Vec<char> = digits(src, n).chars().collect();
			let at = src.below(v.len() + 1);
			v.insert(at, *src.pick(invalid));
			v.into_iter().collect()
		}
		2 => String::new(),
		3 => "-".to_owned(),
		4 => {
			let z = 1 + src.below(3);
			let n = src.below(4);
			format!("{}{}", "0".repeat(z), digits(src, n))
		}
		5 => {
			nontrivial = true;
			to_base(*src.pick(BOUNDARY), base, src.chance(1, 2))
		}
		6 => {
			nontrivial = true;
			let n = match base {
				8 => 17 + src.below(5),
				10 => 15 + src.below(6),
				_ => 12 + src.below(6),
			};
			digits(src, n)
		}
		_ => {
			nontrivial = true;
			(*src.pick(&["--1", "-+1", "+1", "+", " 1", "1 ", "0x1F", "0o17", "1_000", "1.0", "1e3", "-0", "١٢", "1-"])).to_owned()
		}
	};
	if src.chance(1, 4) && !s.starts_with('-') {
		s.insert(0, '-');
	}
	(s, nontrivial)
}

fn parse_q(src: &mut Src, out: &mut Vec<Q>, base: u32) {
	let (s, nt) = gen_numstr(src, base);
	let (name, f): (&'static str, &str) = match base {
		8 => ("parseOctal", "std.parseOctal"),
		10 => ("parseInt", "std.parseInt"),
		_ => ("parseHex", "std.parseHex"),
	};
	let want = want_num(&s, base);
	let nt = nt || matches!(want, Want::Err);
	let mut qu = q(name, format!("{f}({})", lit(&s)), want, nt, None);
	if base == 16 && matches!(qu.want, Want::Err) && s.chars().any(|c| (':'..='?').contains(&c)) {
		// signature of the recorded finding: the six characters after '9' read as the digits a..f
		let mapped: String = s.chars().map(|c| if (':'..='?').contains(&c) { (b'a' + (c as u8 - b':')) as char } else { c }).collect();
		let alt = want_num(&mapped, 16);
		if !matches!(alt, Want::Err) {
			qu = qu.or_known(K_PARSE_HEX, alt);
		}
	}
	out.push(qu);
}
fn g_parse_int(_cfg: &Cfg, src: &mut Src, out: &mut Vec<Q>) {
	parse_q(src, out, 10)
}
fn g_parse_octal(_cfg: &Cfg, src: &mut Src, out: &mut Vec<Q>) {
	parse_q(src, out, 8)
}
fn g_parse_hex(_cfg: &Cfg, src: &mut Src, out: &mut Vec<Q>) {
	parse_q(src, out, 16)
}

// ---- JSON / YAML ----------------------------------------------------------------------------------------------

fn json_ws(src: &mut Src, yaml: bool, o: &mut String) {
	match src.weighted(&[8, 3, 1, 1]) {
		0 => {}
		1 => o.push(' '),
		2 if !yaml => o.push('\n'),
		3 if !yaml => o.push_str("\t\r\n "),
		_ => o.push(' '),
	}
}

fn json_string(cfg: &Cfg, src: &mut Src, yaml: bool, o: &mut String) {
	let s = gen_str_x(cfg, src, 6, CTL);
	o.push('"');
	for c in s {
		let cp = c as u32;
		let must = c == '"' || c == '\\' || cp < 0x20 || (yaml && cp == 0x7f);
		let short = match c {
			'"' => Some("\\\""),
			'\\' => Some("\\\\"),
			'\n' => Some("\\n"),
			'\t' => Some("\\t"),
			'\r' => Some("\\r"),
			'\u{8}' => Some("\\b"),
			'\u{c}' => Some("\\f"),
			'/' => Some("\\/"),
			_ => None,
		};
		let mode = src.below(4);
		if let (Some(e), true) = (short, must || mode == 1) {
			if mode != 2 {
				o.push_str(e);
				continue;
			}
		}
		if must || mode == 3 {
			if cp < 0x10000 {
				let h = format!("{cp:04x}");
				o.push_str("\\u");
				o.push_str(&if src.chance(1, 2) { h.to_uppercase() } else { h });
				continue;
			} else if !yaml {
				let v = cp - 0x10000;
				o.push_str(&format!("\\u{:04x}\\u{:04X}", 0xd800 + (v >> 10), 0xdc00 + (v & 0x3ff)));
				continue;
			}
		}
		o.push(c);
	}
	o.push('"');
}

fn json_number(src: &mut Src, o: &mut String) {
	o.push_str(*src.pick(&["0", "1", "-0", "7", "12", "-3", "100", "9007199254740993", "-1", "255", "123456789"]));
	if src.chance(1, 3) {
		o.push_str(*src.pick(&[".5", ".0", ".25", ".10", ".000001", ".9999999999999999"]));
	}
	if src.chance(1, 4) {
		o.push_str(*src.pick(&["e0", "E2", "e+2", "e-2", "e10", "E-7", "e+0"]));
	}
}

fn json_value(cfg: &Cfg, src: &mut Src, yaml: bool, depth: usize, o: &mut String) {
	let kind = if depth >= 3 { src.weighted(&[1, 1, 1, 3, 3]) } else { src.weighted(&[1, 1, 1, 3, 3, 3, 3]) };
	match kind {
		0 => o.push_str("null"),
		1 => o.push_str("true"),
		2 => o.push_str("false"),
		3 => json_number(src, o),
		4 => json_string(cfg, src, yaml, o),
		5 => {
			o.push('[');
			let n = src.below(4);
			json_ws(src, yaml, o);
			for i in 0..n {
				if i > 0 {
					o.push(',');
					json_ws(src, yaml, o);
				}
				json_value(cfg, src, yaml, depth + 1, o);
				json_ws(src, yaml, o);
			}
			o.push(']');
		}
		_ => {
			o.push('{');
			let n = src.below(4);
			json_ws(src, yaml, o);
			let mut keys: Vec<String> = vec![];
			for i in 0..n {
				if i > 0 {
					o.push(',');
					json_ws(src, yaml, o);
				}
				let mut k = String::new();
				json_string(cfg, src, yaml, &mut k);
				// distinct keys: what a duplicate means is not documented
				let dup = |k: &str, keys: &[String]| {
					let v = json::parse(k).ok();
					keys.iter().any(|x| json::parse(x).ok() == v)
				};
				while dup(&k, &keys) {
					k.insert(k.len() - 1, char::from(b'0' + i as u8));
				}
				o.push_str(&k);
				keys.push(k);
				json_ws(src, yaml, o);
				o.push(':');
				json_ws(src, yaml, o);
				json_value(cfg, src, yaml, depth + 1, o);
				json_ws(src, yaml, o);
			}
			o.push('}');
		}
	}
}

fn has_dup_keys(v: &J) -> bool {
	let mut dup = false;
	v.walk(&mut |x| {
		if let J::Obj(f) = x {
			for (i, (k, _)) in f.iter().enumerate() {
				if f[..i].iter().any(|(k2, _)| k2 == k) {
					dup = true;
				}
			}
		}
	});
	dup
}

/// what the strict RFC 8259 reading of the text gives
fn want_json(text: &str) -> Want {
	match json::parse(text) {
		Ok(v) if has_dup_keys(&v) => Want::Any,
		Ok(v) => Want::Is(v),
		// representable range and unpaired surrogate escapes: left open
		Err(e) if e.0.contains("out of range") || e.0.contains("surrogate") => Want::Any,
		Err(_) => Want::Err,
	}
}

fn g_parse_json(cfg: &Cfg, src: &mut Src, out: &mut Vec<Q>) {
	let mut text = String::new();
	json_ws(src, false, &mut text);
	json_value(cfg, src, false, 0, &mut text);
	json_ws(src, false, &mut text);
	let mut nt = !text.is_ascii();
	if src.chance(1, 3) {
		// one mutation: delete, insert or replace a character
		nt = true;
		let mut v: Vec<char> = text.chars().collect();
		let ins = *src.pick(&['{', '}', '[', ']', '"', ',', ':', '\\', '0', '1', '-', '.', 'e', 't', 'n', 'x', ' ', '\n', '\u{1}', '+', 'é', '\'']);
		match src.below(3) {
			0 if !v.is_empty() => {
				let at = src.below(v.len());
				v.remove(at);
			}
			1 if !v.is_empty() => {
				let at = src.below(v.len());
				v[at] = ins;
			}
			_ => {
				let at = src.below(v.len() + 1);
				v.insert(at, ins);
			}
		}
		text = v.into_iter().collect();
	}
	out.push(q("parseJson", format!("std.parseJson({})", lit(&text)), want_json(&text), nt, None));
}

fn g_parse_yaml(cfg: &Cfg, src: &mut Src, out: &mut Vec<Q>) {
	// JSON-compatible input only: valid JSON, single line, no raw DEL (not a printable character for YAML)
	let mut text = String::new();
	json_value(cfg, src, true, 0, &mut text);
	let want = match want_json(&text) {
		Want::Is(v) => Want::Is(v),
		_ => Want::Any,
	};
	out.push(q("parseYaml", format!("std.parseYaml({})", lit(&text)), want, !text.is_ascii() || text.len() > 6, None));
}

// ---- model-free laws ------------------------------------------------------------------------------------------

fn yes() -> Want {
	Want::Is(J::Bool(true))
}

fn g_law_utf8(cfg: &Cfg, src: &mut Src, out: &mut Vec<Q>) {
	let s = gen_str_x(cfg, src, 64, CTL);
	out.push(q("law:decodeUTF8-encodeUTF8", format!("std.decodeUTF8(std.encodeUTF8({0})) == {0}", litc(&s)), yes(), is_wide(&s), Some(&s)));
}
fn g_law_b64_str(cfg: &Cfg, src: &mut Src, out: &mut Vec<Q>) {
	let s = gen_str_x(cfg, src, 64, &['\u{e9}', '\u{ff}', '\u{80}', 'a']);
	// std.base64 is documented for code points 0..255 only: where it refuses, nothing is asked
	let want = Want::OneOf(vec![J::Bool(true), J::Str("n/a".to_owned())]);
	out.push(q("law:base64Decode-base64", format!("local e = verif.try(std.base64({0})); if e[0] then std.base64Decode(e[1]) == {0} else \"n/a\"", litc(&s)), want, is_wide(&s), Some(&s)));
}
fn gen_plain_bytes(src: &mut Src) -> Vec<u8> {
	let n = src.below(13);
	(0..n).map(|_| if src.chance(1, 3) { *src.pick(&[0u8, 255, 128, 127, 61, 43, 47]) } else { src.below(256) as u8 }).collect()
}
fn bytes_lit(b: &[u8]) -> String {
	format!("[{}]", b.iter().map(|x| x.to_string()).collect::<Vec<_>>().join(", "))
}
fn g_law_b64_bytes(_cfg: &Cfg, src: &mut Src, out: &mut Vec<Q>) {
	let b = gen_plain_bytes(src);
	out.push(q("law:base64DecodeBytes-base64", format!("std.base64DecodeBytes(std.base64({0})) == {0}", bytes_lit(&b)), yes(), b.iter().any(|x| *x > 127), None));
}
fn g_law_char_codepoint(_cfg: &Cfg, src: &mut Src, out: &mut Vec<Q>) {
	let c = gen_scalar(src);
	if src.chance(1, 2) {
		out.push(q("law:char-codepoint", format!("std.char(std.codepoint({0})) == {0}", litc(&[c])), yes(), (c as u32) > 127, None));
	} else {
		out.push(q("law:char-codepoint", format!("std.codepoint(std.char({0})) == {0}", c as u32), yes(), (c as u32) > 127, None));
	}
}
fn g_law_join_split(cfg: &Cfg, src: &mut Src, out: &mut Vec<Q>) {
	let s = gen_str(cfg, src, 64);
	let mut c = gen_pat(src, &s);
	if c.is_empty() {
		c.push(gen_char(src));
	}
	let expr = match src.below(3) {
		0 => format!("std.join({1}, std.split({0}, {1})) == {0}", litc(&s), litc(&c)),
		1 => format!("std.join({1}, std.splitLimit({0}, {1}, {2})) == {0}", litc(&s), litc(&c), src.below(4) as i64 - 1),
		_ => format!("std.join({1}, std.splitLimitR({0}, {1}, {2})) == {0}", litc(&s), litc(&c), src.below(4) as i64 - 1),
	};
	out.push(q("law:join-split", expr, yes(), is_wide(&s) || is_wide(&c), Some(&s)));
}
fn g_law_length_chars(cfg: &Cfg, src: &mut Src, out: &mut Vec<Q>) {
	let s = gen_str(cfg, src, 64);
	let expr = if src.chance(1, 2) {
		format!("std.length(std.stringChars({0})) == std.length({0})", litc(&s))
	} else {
		format!("std.join(\"\", std.stringChars({0})) == {0}", litc(&s))
	};
	out.push(q("law:length-stringChars", expr, yes(), is_wide(&s), Some(&s)));
}

/// (stage, question class, generator)
const SPECS: &[(&str, &str, Gen)] = &[
	("fn-length", "length", g_length),
	("fn-substr", "substr", g_substr),
	("fn-split", "split", g_split),
	("fn-splitLimit", "splitLimit", g_split_limit),
	("fn-splitLimitR", "splitLimitR", g_split_limit_r),
	("fn-strReplace", "strReplace", g_str_replace),
	("fn-findSubstr", "findSubstr", g_find_substr),
	("fn-startsWith", "startsWith", g_starts_with),
	("fn-endsWith", "endsWith", g_ends_with),
	("fn-stripChars", "stripChars", g_strip_chars),
	("fn-lstripChars", "lstripChars", g_lstrip_chars),
	("fn-rstripChars", "rstripChars", g_rstrip_chars),
	("fn-trim", "trim", g_trim),
	("fn-asciiUpper", "asciiUpper", g_ascii_upper),
	("fn-asciiLower", "asciiLower", g_ascii_lower),
	("fn-stringChars", "stringChars", g_string_chars),
	("fn-codepoint", "codepoint", g_codepoint),
	("fn-char", "char", g_char),
	("fn-equalsIgnoreCase", "equalsIgnoreCase", g_equals_ignore_case),
	("fn-isEmpty", "isEmpty", g_is_empty),
	("fn-escapeStringJson", "escapeStringJson", g_escape_json),
	("fn-escapeStringPython", "escapeStringPython", g_escape_python),
	("fn-escapeStringBash", "escapeStringBash", g_escape_bash),
	("fn-escapeStringDollars", "escapeStringDollars", g_escape_dollars),
	("fn-escapeStringXML", "escapeStringXML", g_escape_xml),
	("fn-parseInt", "parseInt", g_parse_int),
	("fn-parseOctal", "parseOctal", g_parse_octal),
	("fn-parseHex", "parseHex", g_parse_hex),
	("fn-parseJson", "parseJson", g_parse_json),
	("fn-parseYaml", "parseYaml", g_parse_yaml),
	("law-decodeUTF8-encodeUTF8", "law:decodeUTF8-encodeUTF8", g_law_utf8),
	("law-base64Decode-base64", "law:base64Decode-base64", g_law_b64_str),
	("law-base64DecodeBytes-base64", "law:base64DecodeBytes-base64", g_law_b64_bytes),
	("law-char-codepoint", "law:char-codepoint", g_law_char_codepoint),
	("law-join-split", "law:join-split", g_law_join_split),
	("law-length-stringChars", "law:length-stringChars", g_law_length_chars),
];

thread_local! {
	/// set once a case failed on this shard thread: everything after that is shrinking and is not recorded
	static SHRINKING: Cell<bool> = const { Cell::new(false) };
}

fn tape_case(run: &Run, cfg: &Cfg, stage: &str, gen: Gen, src: &mut Src) -> CaseOut {
	let mut qs = vec![];
	while qs.len() < PER_CASE {
		gen(cfg, src, &mut qs);
	}
	let res = ask(run, &qs);
	let mut problems = vec![];
	let mut bad_exprs = vec![];
	let mut known = None;
	for (qu, r) in qs.iter().zip(res) {
		match r {
			Ans::Ok => {}
			Ans::Known(id) => known = known.or(Some(id)),
			Ans::Bad(e) => {
				problems.push(format!("{}  →  {e}", qu.expr));
				bad_exprs.push(qu.expr.clone());
			}
		}
	}
	if problems.is_empty() {
		if !SHRINKING.with(|s| s.get()) {
			for qu in qs.iter().skip(1) {
				run.record(stage, &CaseOut::pass(qu.expr.clone(), qu.nontrivial).classes(classes_of(qu)));
			}
		}
	} else {
		SHRINKING.with(|s| s.set(true));
	}
	verdict_of(qs[0].expr.clone(), &qs[0], problems, known, bad_exprs.join("\n"))
}

// ---------------------------------------------------------------------------------------------------------------
// batch stages decided with the Python sidecar (hashes, base64, UTF-8)
// ---------------------------------------------------------------------------------------------------------------

/// deterministic tape for input `i` of a batch stage (a pure function of seed, stage and index, so that a replay
/// regenerates the same input)
fn derived_tape(seed: u64, stage: &str, i: u64, len: usize) -> Vec<u16> {
	let mut out = Vec::with_capacity(len + 8);
	let mut k = 0u64;
	while out.len() < len {
		let h = hash128(&format!("{seed}|C11|{stage}|{i}|{k}"));
		for j in 0..8 {
			out.push((h >> (16 * j)) as u16);
		}
		k += 1;
	}
	out
}

/// byte array of 0..12 bytes assembled from valid sequences and every shape of invalid UTF-8
fn gen_bytes(src: &mut Src) -> Vec<u8> {
	let mut b: Vec<u8> = vec![];
	for _ in 0..src.below(7) {
		match src.weighted(&[2, 3, 2, 2, 1, 1, 1, 2]) {
			0 => b.push(*src.pick(b"ab z,%\n")),
			1 => {
				let mut buf = [0u8; 4];
				b.extend_from_slice(src.pick(WIDE).encode_utf8(&mut buf).as_bytes());
			}
			2 => b.push(0x80 | src.below(64) as u8),
			3 => {
				// truncated sequence
				let mut buf = [0u8; 4];
				let e = src.pick(&['é', '漢', '😀', '\u{10ffff}', '\u{800}']).encode_utf8(&mut buf).as_bytes().to_vec();
				let keep = 1 + src.below(e.len() - 1);
				b.extend_from_slice(&e[..keep]);
			}
			4 => b.extend_from_slice(*src.pick(&[&[0xc0u8, 0x80][..], &[0xc1, 0xbf], &[0xe0, 0x80, 0x80], &[0xe0, 0x9f, 0xbf], &[0xf0, 0x80, 0x80, 0x80], &[0xf0, 0x8f, 0xbf, 0xbf]])),
			5 => b.extend_from_slice(*src.pick(&[&[0xedu8, 0xa0, 0x80][..], &[0xed, 0xbf, 0xbf], &[0xed, 0xad, 0xbf, 0xed, 0xbe, 0x80]])),
			6 => b.extend_from_slice(*src.pick(&[&[0xf4u8, 0x90, 0x80, 0x80][..], &[0xf5, 0x80, 0x80, 0x80], &[0xf8, 0x88, 0x80, 0x80, 0x80], &[0xff], &[0xfe]])),
			_ => b.push(src.below(256) as u8),
		}
	}
	b.truncate(12);
	b
}

/// base64 text: (text, Some(bytes) when it is the padded encoding of these bytes)
fn gen_b64_text(src: &mut Src) -> (String, Option<Vec<u8>>) {
	let bytes = if src.chance(1, 2) { gen_bytes(src) } else { gen_plain_bytes(src) };
	let good = my_b64(&bytes);
	let mut v: Vec<char> = good.chars().collect();
	match src.weighted(&[8, 1, 1, 1, 1, 1]) {
		0 => return (good, Some(bytes)),
		1 => {
			// padding removed
			while v.last() == Some(&'=') {
				v.pop();
			}
			if v.len() % 4 == 0 && !v.is_empty() {
				v.pop();
			}
		}
		2 => {
			// character outside the alphabet
			let at = src.below(v.len() + 1);
			v.insert(at, *src.pick(&['$', '-', '_', 'é', '.', '😀']));
		}
		3 => {
			// white space / line break
			let at = src.below(v.len() + 1);
			v.insert(at, *src.pick(&[' ', '\n', '\r', '\t']));
		}
		4 => {
			// padding in the wrong place or too much of it
			let at = src.below(v.len() + 1);
			v.insert(at, '=');
		}
		_ => {
			// non-zero bits after the last byte
			if v.last() == Some(&'=') {
				let i = v.iter().position(|c| *c == '=').unwrap() - 1;
				v[i] = if v[i] == 'B' { 'C' } else { 'B' };
			} else {
				v.push('A');
			}
		}
	}
	(v.into_iter().collect(), None)
}

fn call_oracle(run: &Run, strings: &[String], bytes: &[Vec<u8>], b64: &[String]) -> Option<Value> {
	let req = json!({"strings": strings, "bytes": bytes, "b64": b64}).to_string();
	let fail = |m: String| {
		run.infra(format!("python sidecar: {m}"));
		None
	};
	let mut child = match Command::new("/usr/bin/python3").arg(ORACLE).stdin(Stdio::piped()).stdout(Stdio::piped()).stderr(Stdio::piped()).spawn() {
		Ok(c) => c,
		Err(e) => return fail(format!("cannot start: {e}")),
	};
	let mut stdin = child.stdin.take().unwrap();
	let writer = std::thread::spawn(move || {
		let _ = stdin.write_all(req.as_bytes());
	});
	let out = match child.wait_with_output() {
		Ok(o) => o,
		Err(e) => return fail(format!("no output: {e}")),
	};
	let _ = writer.join();
	if !out.status.success() {
		return fail(format!("exit {:?}: {}", out.status.code(), String::from_utf8_lossy(&out.stderr)));
	}
	match serde_json::from_slice::<Value>(&out.stdout) {
		Ok(v) if v["strings"].as_array().map(|a| a.len()) == Some(strings.len()) && v["bytes"].as_array().map(|a| a.len()) == Some(bytes.len()) && v["b64"].as_array().map(|a| a.len()) == Some(b64.len()) => Some(v),
		Ok(_) => fail("answer has the wrong shape".to_owned()),
		Err(e) => fail(format!("answer is not JSON: {e}")),
	}
}

fn sc_string(cfg: &Cfg, seed: u64, i: u64) -> Vec<char> {
	let tape = derived_tape(seed, "sc-str", i, 160);
	gen_str_x(cfg, &mut Src::new(&tape), 64, &['\u{e9}', '\u{ff}', '\u{80}', '\u{7f}', '\u{0}'])
}
fn sc_bytes(seed: u64, i: u64) -> Vec<u8> {
	let tape = derived_tape(seed, "sc-bytes", i, 64);
	gen_bytes(&mut Src::new(&tape))
}
fn sc_b64(seed: u64, i: u64) -> (String, Option<Vec<u8>>) {
	let tape = derived_tape(seed, "sc-b64", i, 96);
	gen_b64_text(&mut Src::new(&tape))
}

const SC_FUNCS: &[&str] = &["encodeUTF8", "decodeUTF8", "base64", "base64Decode", "base64DecodeBytes", "md5", "sha1", "sha256", "sha512", "sha3"];

/// out-of-domain arguments of the byte-array functions: nothing is promised, they must just not crash
const DOMAIN_EXTRAS: &[(&str, &str)] = &[
	("decodeUTF8", "std.decodeUTF8([256])"),
	("decodeUTF8", "std.decodeUTF8([-1])"),
	("decodeUTF8", "std.decodeUTF8([97, 1.5])"),
	("decodeUTF8", "std.decodeUTF8([\"a\"])"),
	("decodeUTF8", "std.decodeUTF8([97, null])"),
	("base64", "std.base64([256])"),
	("base64", "std.base64([-1])"),
	("base64", "std.base64([1.5])"),
	("base64", "std.base64([\"a\"])"),
	("base64DecodeBytes", "std.base64DecodeBytes(\"=\")"),
	("base64DecodeBytes", "std.base64DecodeBytes(\"====\")"),
	("base64Decode", "std.base64Decode(\"=\")"),
];

/// an expression whose value is the array `b`, built as a view of natively produced byte arrays (variant by index)
fn view_of_bytes(b: &[u8], i: u64) -> String {
	let native = |x: &[u8]| format!("std.base64DecodeBytes(\"{}\")", my_b64(x));
	match i % 6 {
		0 => {
			let x: Vec<u8> = b.iter().flat_map(|v| [*v, 0xAA]).collect();
			format!("{}[::2]", native(&x))
		}
		1 => {
			let mut x = vec![1u8, 2];
			x.extend_from_slice(b);
			x.push(3);
			format!("{}[2:{}]", native(&x), 2 + b.len())
		}
		2 => {
			let x: Vec<u8> = b.iter().rev().copied().collect();
			format!("std.reverse({})", native(&x))
		}
		3 => format!("std.map(function(x) x, {})", bytes_lit(b)),
		4 => native(b),
		_ => {
			let x: Vec<u8> = b.iter().flat_map(|v| [0x55, *v, 0xAA]).collect();
			format!("{}[1::3]", native(&x))
		}
	}
}

/// all questions of the batch stages about the given inputs (keys s<i>, b<i>, t<i>, x<i>)
fn sidecar_questions(run: &Run, cfg: &Cfg, si: &[u64], bi: &[u64], ti: &[u64], xi: &[u64]) -> Vec<Q> {
	let strings: Vec<Vec<char>> = si.iter().map(|i| sc_string(cfg, run.seed, *i)).collect();
	let bytes: Vec<Vec<u8>> = bi.iter().map(|i| sc_bytes(run.seed, *i)).collect();
	let texts: Vec<(String, Option<Vec<u8>>)> = ti.iter().map(|i| sc_b64(run.seed, *i)).collect();
	let Some(ans) = call_oracle(run, &strings.iter().map(|s| st(s)).collect::<Vec<_>>(), &bytes, &texts.iter().map(|t| t.0.clone()).collect::<Vec<_>>()) else {
		return vec![];
	};
	let mut out = vec![];
	let mut push = |mut qu: Q, key: String| {
		qu.key = key;
		out.push(qu);
	};
	for ((i, s), a) in si.iter().zip(&strings).zip(ans["strings"].as_array().unwrap()) {
		let key = format!("s{i}");
		let l = litc(s);
		let wide = is_wide(s);
		let utf8: Vec<J> = a["utf8"].as_array().unwrap().iter().map(|x| J::Num(x.as_f64().unwrap())).collect();
		push(q("encodeUTF8", format!("std.encodeUTF8({l})"), Want::Is(J::Arr(utf8)), wide, Some(s)), key.clone());
		for h in ["md5", "sha1", "sha256", "sha512", "sha3"] {
			let name: &'static str = SC_FUNCS.iter().find(|f| **f == h).unwrap();
			push(q(name, format!("std.{h}({l})"), Want::Is(J::Str(a[h].as_str().unwrap().to_owned())), true, Some(s)), key.clone());
		}
		// "the codepoints / numbers must be in the 0 to 255 range": one code point is one byte; strings with larger
		// code points are outside the documented domain
		let want = if !wide {
			let w = a["b64_utf8"].as_str().unwrap().to_owned();
			if Some(w.as_str()) != a["b64_latin1"].as_str() || w != my_b64(st(s).as_bytes()) {
				run.infra(format!("base64 references disagree on {l}"));
			}
			Want::Is(J::Str(w))
		} else {
			match a["b64_latin1"].as_str() {
				Some(w) => Want::Is(J::Str(w.to_owned())),
				None => Want::Any,
			}
		};
		let mut qu = q("base64", format!("std.base64({l})"), want, true, Some(s));
		if wide {
			qu = qu.or_known(K_BASE64_STR, Want::Is(J::Str(a["b64_utf8"].as_str().unwrap().to_owned())));
		}
		push(qu, key.clone());
	}
	for ((i, b), a) in bi.iter().zip(&bytes).zip(ans["bytes"].as_array().unwrap()) {
		let key = format!("b{i}");
		let l = bytes_lit(b);
		let replace = a["replace"].as_str().unwrap().to_owned();
		let want = match a["strict"].as_str() {
			Some(s) => {
				if s != utf8_per_byte_replace(b) {
					run.infra(format!("UTF-8 references disagree on {l}"));
				}
				Want::Is(J::Str(s.to_owned()))
			}
			// ill-formed input: U+FFFD is substituted, per maximal ill-formed subsequence or per byte
			None => Want::OneOf(vec![J::Str(replace), J::Str(utf8_per_byte_replace(b))]),
		};
		push(q("decodeUTF8", format!("std.decodeUTF8({l})"), want.clone(), true, None), key.clone());
		let w = a["b64"].as_str().unwrap().to_owned();
		if w != my_b64(b) {
			run.infra(format!("base64 references disagree on {l}"));
		}
		push(q("base64", format!("std.base64({l})"), Want::Is(J::Str(w.clone())), true, None), key.clone());
		// the same array, obtained another way (natively decoded bytes, stepped / offset slices of them, reversed, mapped):
		// an array argument is its elements, whatever produced it
		let v = view_of_bytes(b, *i);
		push(q("decodeUTF8", format!("std.decodeUTF8({v})"), want.clone(), true, None), key.clone());
		push(q("base64", format!("std.base64({v})"), Want::Is(J::Str(w)), true, None), key.clone());
	}
	for ((i, (t, known)), a) in ti.iter().zip(&texts).zip(ans["b64"].as_array().unwrap()) {
		let key = format!("t{i}");
		let l = lit(t);
		let (wb, ws) = match known {
			Some(b) => {
				let py: Option<Vec<u8>> = a["bytes"].as_array().map(|v| v.iter().map(|x| x.as_u64().unwrap() as u8).collect());
				if py.as_ref() != Some(b) {
					run.infra(format!("base64 decoding references disagree on {l}"));
				}
				// "returns a naively encoded string instead of an array of bytes": one code point per byte
				let naive: String = b.iter().map(|x| char::from(*x)).collect();
				(Want::Is(J::Arr(b.iter().map(|x| J::Num(*x as f64)).collect())), Want::Is(J::Str(naive)))
			}
			// "assumes the input string has no linebreaks and is padded to a multiple of 4": anything else is open
			None => (Want::Any, Want::Any),
		};
		push(q("base64DecodeBytes", format!("std.base64DecodeBytes({l})"), wb, true, None), key.clone());
		let mut qu = q("base64Decode", format!("std.base64Decode({l})"), ws, true, None);
		if let Some(b) = known {
			// signature of the recorded finding: the bytes are decoded as UTF-8, ill-formed input is an error
			let strict = utf8_per_byte_replace(b);
			let well_formed = strict.as_bytes() == &b[..];
			qu = qu.or_known(K_BASE64_DECODE, if well_formed { Want::Is(J::Str(strict)) } else { Want::Err });
		}
		push(qu, key.clone());
	}
	for i in xi {
		if let Some((f, e)) = DOMAIN_EXTRAS.get(*i as usize) {
			let name: &'static str = SC_FUNCS.iter().find(|x| *x == f).unwrap();
			push(q(name, (*e).to_owned(), Want::Any, false, None), format!("x{i}"));
		}
	}
	out
}

fn sidecar_stage(run: &Run, func: &str, qs: Vec<&Q>) {
	let stage = format!("sc-{func}");
	let chunks: Vec<&[&Q]> = qs.chunks(CHUNK).collect();
	run.enumerate(&stage, chunks.len() as u64, |i| {
		let chunk = chunks[i as usize];
		let owned: Vec<Q> = chunk.iter().map(|x| Q { expr: x.expr.clone(), want: x.want.clone(), func: x.func, nontrivial: x.nontrivial, early: x.early, key: x.key.clone(), alt: x.alt.clone() }).collect();
		let res = ask(run, &owned);
		let mut problems = vec![];
		let mut known = None;
		for (qu, r) in owned.iter().zip(res) {
			match r {
				Ans::Ok => {}
				Ans::Known(id) => known = known.or(Some(id)),
				Ans::Bad(e) => problems.push(format!("[{}] {}  →  {e}", qu.key, qu.expr)),
			}
		}
		for qu in owned.iter().skip(1) {
			run.record(&stage, &CaseOut::pass(qu.expr.clone(), qu.nontrivial).classes(classes_of(qu)));
		}
		let first = &owned[0];
		verdict_of(first.expr.clone(), first, problems, known, format!("batch starting at `{}`", first.expr))
	});
}

// ---------------------------------------------------------------------------------------------------------------
// entry points
// ---------------------------------------------------------------------------------------------------------------

fn cfg_for(thorough: bool) -> Cfg {
	Cfg { maxlen: if thorough { 64 } else { 12 } }
}

pub fn run(run: &Run) {
	run.set_rule("per function of the property: calls generated from a choice tape (strings of 0..12 code points, thorough 0..64, over an alphabet of ASCII, 2/3/4-byte and combining code points, half of the positions non-ASCII; tiny-alphabet strings so that patterns repeat and overlap; patterns that are substrings, altered substrings, the subject, longer than the subject or empty; offsets/counts 0..len+3, -1, fractional; maxsplits -1,0,1,2,len,len+1; numeric strings with invalid digits, signs, leading zeros and values around 2^53/2^64; code points around every encoding-length and surrogate boundary; generated and mutated JSON texts), expected result from a reference implementation over code-point vectors transcribed from the documented definition (value, must-be-error, or 'any' where the documentation is silent); hashes, base64 and UTF-8 decided by Python (hashlib/base64/bytes.decode) on inputs derived from the seed; six inverse laws decided without a reference. Each call is one case; a case is non-trivial when an argument contains a multi-byte code point, an offset or count reaches the length, or an input is invalid for the function.");
	run.assume("the documented definitions are those of https://jsonnet.org/ref/stdlib.html; where they are silent (negative or fractional counts, empty separators and patterns, non-padded base64, code points above 255 in std.base64, rounding of parsed integers beyond 2^53, case folding outside ASCII) any outcome but a crash is accepted");
	run.assume("Python 3 hashlib / base64 / bytes.decode give the standard digests, RFC 4648 base64 and UTF-8 decoding");
	let thorough = run.tier.pick(false, true);
	let cfg = cfg_for(thorough);
	run.reproduce_known(|k| match known_question(&k.id) {
		Some(qu) => match ask(run, std::slice::from_ref(&qu)).pop() {
			Some(Ans::Ok) => CaseOut::pass(qu.expr.clone(), true),
			Some(Ans::Known(id)) => CaseOut { verdict: Verdict::Known(id.to_owned()), text: qu.expr.clone(), nontrivial: true, classes: vec![] },
			Some(Ans::Bad(e)) => CaseOut::fail(qu.expr.clone(), e),
			None => CaseOut::discard(qu.expr.clone(), "not asked"),
		},
		None => CaseOut::fail(k.replay.clone(), format!("no reproducer is built in for the recorded finding {}", k.id)),
	});
	let cases: u32 = run.tier.pick(4096, 4096 * 30);
	for (stage, _, gen) in SPECS {
		SHRINKING.with(|s| s.set(false));
		// a question draws 20..60 choices (more with long strings); an exhausted tape continues with the simplest choices
		run.explore(stage, cases, 256..=run.tier.pick(768, 2048), |src| tape_case(run, &cfg, stage, *gen, src));
	}
	// batch stages
	// (the sidecar is called once per block of inputs; blocks bound the memory of the thorough tier)
	let n: u64 = run.tier.pick(12_000, 12_000 * 30);
	let idx: Vec<u64> = (0..n).collect();
	for (bno, block) in idx.chunks(24_000).enumerate() {
		let xi: Vec<u64> = if bno == 0 { (0..DOMAIN_EXTRAS.len() as u64).collect() } else { vec![] };
		let t_sidecar = std::time::Instant::now();
		let all = sidecar_questions(run, &cfg, block, block, block, &xi);
		run.stage_info(json!({"stage": "sidecar-preparation", "kind": "setup", "inputs": 3 * block.len(), "wall_s": t_sidecar.elapsed().as_secs_f64()}));
		if all.is_empty() {
			run.infra("batch stages skipped: no answer from the sidecar");
		}
		for f in SC_FUNCS {
			let mine: Vec<&Q> = all.iter().filter(|qu| qu.func == *f).collect();
			if !mine.is_empty() {
				sidecar_stage(run, f, mine);
			}
		}
	}
	// floors
	let floor = run.tier.pick(100, 3000);
	for (_, class, _) in SPECS {
		run.require_class(&format!("fn:{class}"), floor);
	}
	for f in SC_FUNCS {
		run.require_class(&format!("fn:{f}"), floor);
	}
	let (subjects, early_n) = {
		let st = run.stats.lock().unwrap();
		(st.classes.get("subject:string").copied().unwrap_or(0), st.classes.get("subject:nonascii-early").copied().unwrap_or(0))
	};
	run.note(format!("{early_n} of {subjects} non-empty subject strings have a non-ASCII code point in their first half"));
	if early_n * 10 < subjects * 6 {
		run.infra(format!("generator degenerate: only {early_n} of {subjects} subject strings have an early non-ASCII code point (< 60 %)"));
	}
}

pub fn replay(run: &Run, stage: &str, tape: Option<&[u16]>, v: &Value) -> Option<CaseOut> {
	let cfg = cfg_for(v["tier"].as_str() == Some("thorough"));
	if let Some((st, _, gen)) = SPECS.iter().find(|s| s.0 == stage) {
		let tape = tape?;
		return Some(tape_case(run, &cfg, st, *gen, &mut Src::new(tape)));
	}
	// batch stage: the failing questions are listed in `why` as `[key] expr  →  ...`; regenerate those inputs, ask
	// the sidecar again and re-ask the questions of this stage's function about them
	let func = stage.strip_prefix("sc-")?;
	let why = v["why"].as_str()?;
	let (mut si, mut bi, mut ti, mut xi) = (vec![], vec![], vec![], vec![]);
	for line in why.lines() {
		let Some(rest) = line.strip_prefix('[') else { continue };
		let Some((key, _)) = rest.split_once(']') else { continue };
		let mut cs = key.chars();
		let kind = cs.next();
		let Ok(i) = cs.as_str().parse::<u64>() else { continue };
		match kind {
			Some('s') => si.push(i),
			Some('b') => bi.push(i),
			Some('t') => ti.push(i),
			Some('x') => xi.push(i),
			_ => {}
		}
	}
	let qs: Vec<Q> = sidecar_questions(run, &cfg, &si, &bi, &ti, &xi).into_iter().filter(|qu| qu.func == func).collect();
	if qs.is_empty() {
		return None;
	}
	let mut problems = vec![];
	let mut known = None;
	for (qu, r) in qs.iter().zip(ask(run, &qs)) {
		match r {
			Ans::Ok => {}
			Ans::Known(id) => known = known.or(Some(id)),
			Ans::Bad(e) => problems.push(format!("[{}] {}  →  {e}", qu.key, qu.expr)),
		}
	}
	let text = qs.iter().map(|qu| qu.expr.clone()).collect::<Vec<_>>().join("\n");
	Some(verdict_of(text.clone(), &qs[0], problems, known, text))
}

/// the recorded findings' own reproducers
fn known_question(id: &str) -> Option<Q> {
	match id {
		K_BASE64_STR => Some(q("base64", "std.base64(\"é\")".to_owned(), Want::Is(J::Str("6Q==".into())), true, None).or_known(K_BASE64_STR, Want::Is(J::Str("w6k=".into())))),
		K_BASE64_DECODE => Some(q("base64Decode", "std.base64Decode(\"w6k=\")".to_owned(), Want::Is(J::Str("Ã©".into())), true, None).or_known(K_BASE64_DECODE, Want::Is(J::Str("é".into())))),
		K_PARSE_HEX => Some(q("parseHex", "std.parseHex(\":\")".to_owned(), Want::Err, true, None).or_known(K_PARSE_HEX, Want::Is(J::Num(10.0)))),
		_ => None,
	}
}
