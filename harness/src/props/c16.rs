//! C16 — results are deterministic and independent of history.
//! No reference is needed: the oracle is byte equality of the rendered outcome across runs that differ in
//! address-space layout, interned-string pool, evaluation history and state lifetime.
use std::collections::HashMap;

use jrsonnet_evaluator::{
	manifest::JsonFormat,
	stack::limit_stack_depth,
	trace::{CompactFormat, PathResolver, TraceFormat},
	IStr,
};
use serde_json::Value;

use crate::{
	ast,
	core::{guarded, CaseOut, Run, Src},
	gen_eval,
	jr::{self, Opts},
};

/// value text or full error text (CompactFormat, file names only)
fn render_on(sess: &jr::Session, code: &str, max_stack: usize) -> String {
	let state = sess.state.clone();
	let r = guarded(|| {
		let _e = state.enter();
		let _l = (max_stack > 0).then(|| limit_stack_depth(max_stack));
		let fmt = CompactFormat { resolver: PathResolver::FileName, max_trace: 20, padding: 4 };
		match state.evaluate_snippet("prog.jsonnet", code).and_then(|v| v.manifest(JsonFormat::default())) {
			Ok(s) => format!("VALUE\n{s}"),
			Err(e) => format!("ERROR\n{}", fmt.format(&e).unwrap_or_else(|_| "<format error>".into())),
		}
	});
	jrsonnet_gcmodule::collect_thread_cycles();
	match r {
		Ok(s) => s,
		Err(p) => format!("PANIC {p}"),
	}
}
/// `max_stack` 0 = the thread's own default limit (200 frames counted from depth zero, as a one-shot run has it)
fn render(code: &str, max_stack: usize) -> String {
	let sess = jr::new_session(&session_opts());
	render_on(&sess, code, max_stack)
}

/// in-memory files every session can import: one that evaluates, two whose own body fails, one that fails lazily
fn session_opts() -> Opts {
	Opts {
		files: vec![
			("ok.libsonnet".to_owned(), b"{ lib: 1, items: [1, 2] }".to_vec()),
			("failing.libsonnet".to_owned(), b"local n = std.extVar('missing_variable'); { n: n }".to_vec()),
			("asserting.libsonnet".to_owned(), b"assert 1 > 2 : 'library invariant'; { a: 1 }".to_vec()),
			("lazy.libsonnet".to_owned(), b"{ a: error 'lazy failure', b: 1 }".to_vec()),
			// an object whose own invariant fails: the (cached) object outlives the failed evaluation
			("invariant.libsonnet".to_owned(), b"{ assert self.replicas > 0 : 'replicas must be positive', replicas: 0, name: 'svc' }".to_vec()),
		],
		..Opts::default()
	}
}

const HISTORY: &[&str] = &[
	"import 'failing.libsonnet'",
	"import 'asserting.libsonnet'",
	"(import 'lazy.libsonnet').a",
	"(import 'invariant.libsonnet').name",
	"import 'invariant.libsonnet'",
	"import 'ok.libsonnet'",
	"1 + 1",
	"error 'earlier failure'",
	"local f(x) = f(x + 1) + 1; f(0)",
	"local a = a; a",
	"{ assert false : 'earlier assertion', x: 1 }.x",
	"{ a: 1, b: 2, c: 3 }.d",
	"import 'missing.libsonnet'",
	"std.objectFields({ zz: 1, aa: 2, mm: 3 })",
	"local o = { a: error 'x', b: self.a }; o.b",
	"std.assertEqual({ a: 1 }, { a: 2 })",
	"undefinedname",
	"[1, 2, 3][5]",
	"'%d' % 'x'",
	"std.foldl(function(a, b) a + b, std.range(1, 100), 0)",
	"{ ['f' + i]: i for i in std.range(1, 40) }",
];

/// run `f` on a brand-new OS thread whose heap and interner pool have been perturbed by `junk`
fn on_fresh_thread(junk: usize, leak: usize, f: impl FnOnce() -> String + Send + 'static) -> String {
	std::thread::Builder::new()
		.stack_size(256 << 20)
		.spawn(move || {
			// move every later allocation: a leaked prefix of pseudo-random size
			let prefix: Vec<u8> = vec![7u8; leak];
			std::mem::forget(prefix);
			// pre-interned strings shift the addresses (hence the hashes) of everything interned afterwards
			let keep: Vec<IStr> = (0..junk).map(|i| IStr::from(format!("junk-{i}-{}", "x".repeat(i % 13)))).collect();
			let out = f();
			drop(keep);
			out
		})
		.unwrap()
		.join()
		.unwrap_or_else(|_| "THREAD DIED".to_owned())
}

// ------------------------------------------------------------------------------------------ programs

fn names(src: &mut Src, n: usize) -> Vec<String> {
	let mut v: Vec<String> = vec![];
	let stems = ["ab", "ba", "aab", "aba", "baa", "abb", "bab", "f", "field", "key", "x", "zz"];
	while v.len() < n {
		let s = format!("{}{}", src.pick(&stems), if src.chance(1, 2) { src.range(1, 60).to_string() } else { String::new() });
		if !v.contains(&s) {
			v.push(s);
		} else {
			// an exhausted tape repeats its draws
			v.push(format!("{s}_{}", v.len()));
		}
	}
	v
}

/// `n` distinct candidates in a drawn order (terminates on an exhausted tape)
fn distinct<'a>(src: &mut Src, cands: &[&'a str], n: usize) -> Vec<&'a str> {
	let mut out: Vec<&str> = vec![];
	while out.len() < n.min(cands.len()) {
		let mut i = src.below(cands.len());
		while out.contains(&cands[i]) {
			i = (i + 1) % cands.len();
		}
		out.push(cands[i]);
	}
	out
}

pub fn gen_program(src: &mut Src) -> (String, Vec<String>) {
	let mut classes = vec![];
	let code = match src.below(15) {
		13 => {
			// imports of the session's files: the same file may have failed (or succeeded) earlier in the history
			classes.push("imports".to_owned());
			(*src.pick(&[
				"import 'failing.libsonnet'",
				"[(import 'ok.libsonnet').lib, import 'failing.libsonnet']",
				"import 'asserting.libsonnet'",
				"{ a: (import 'ok.libsonnet').items, b: (import 'lazy.libsonnet').b }",
				"(import 'lazy.libsonnet').a",
				"local l = import 'asserting.libsonnet'; l.a",
				"(import 'invariant.libsonnet').name",
				"std.objectFields(import 'invariant.libsonnet')",
				"[std.length(import 'invariant.libsonnet'), (import 'invariant.libsonnet').replicas]",
			]))
			.to_owned()
		}
		12 => {
			// recursion just below the frame limit (200): whether it fits must not depend on earlier stack-limit hits
			classes.push("near-limit".to_owned());
			format!("local f(n) = if n == 0 then 0 else 1 + f(n - 1); f({})", 180 + src.below(20))
		}
		0 | 1 => {
			let n = src.range(5, 60) as usize;
			if n >= 30 {
				classes.push("big-object".to_owned());
			}
			let ns = names(src, n);
			let obj = format!("{{ {} }}", ns.iter().enumerate().map(|(i, k)| format!("{k}: {i}")).collect::<Vec<_>>().join(", "));
			let op = *src.pick(&[
				"o",
				"std.objectFields(o)",
				"std.toString(o)",
				"std.objectValues(o)",
				"std.mapWithKey(function(k, v) k, o)",
				"std.mergePatch(o, { extra: 1 })",
				"std.prune(o)",
				"[k for k in std.objectFieldsAll(o)]",
				"std.manifestYamlDoc(o)",
				"std.manifestToml(o)",
				"std.manifestIni({ main: o, sections: {} })",
				"std.manifestPython(o)",
				"o == o { }",
				"{ [k + 'x']: o[k] for k in std.objectFields(o) }",
			]);
			format!("local o = {obj}; {op}")
		}
		2 => {
			// removed keys (hash set inside the omit layer)
			let n = src.range(4, 20) as usize;
			let ns = names(src, n);
			let obj = format!("{{ {} }}", ns.iter().enumerate().map(|(i, k)| format!("{k}: {i}")).collect::<Vec<_>>().join(", "));
			let mut e = "o".to_owned();
			for k in ns.iter().take(src.range(1, 3) as usize) {
				e = format!("std.objectRemoveKey({e}, '{k}')");
			}
			format!("local o = {obj}; [std.objectFields({e}), {e}]")
		}
		3 | 4 => {
			// missing field with equally good suggestions
			classes.push("suggestion-tie".to_owned());
			let cands = ["abx", "axb", "xab", "aby", "ayb", "abz", "azb", "bax", "bxa"];
			let n = src.range(2, 6) as usize;
			let fields = distinct(src, &cands, n);
			format!("{{ {} }}.abq", fields.iter().map(|k| format!("{k}: 1")).collect::<Vec<_>>().join(", "))
		}
		5 | 6 => {
			// unknown variable with equally good candidates in scope
			classes.push("suggestion-tie".to_owned());
			let cands = ["abx", "axb", "xab", "aby", "ayb", "abz", "azb", "bax", "bxa", "abw", "awb"];
			let n = src.range(2, 7) as usize;
			let vars = distinct(src, &cands, n);
			format!("local {}; abq", vars.iter().map(|k| format!("{k} = 1")).collect::<Vec<_>>().join(", "))
		}
		7 => {
			classes.push("multi-error".to_owned());
			let n = src.range(2, 8) as usize;
			let ns = names(src, n);
			format!("{{ {} }}", ns.iter().map(|k| format!("{k}: error 'failure in {k}'")).collect::<Vec<_>>().join(", "))
		}
		14 => {
			// two objects with the same field names, compared: several fields could decide the outcome (one differs,
			// another fails, a third fails differently), so the order in which the fields are visited is observable
			classes.push("multi-error".to_owned());
			classes.push("compared-objects-with-several-deciding-fields".to_owned());
			let n = src.range(3, 10) as usize;
			let ns = names(src, n);
			let side = |src: &mut Src, right: bool| {
				let items: Vec<String> = ns
					.iter()
					.map(|k| match src.below(4) {
						0 => format!("{k}: 1"),
						1 => format!("{k}: {}", if right { 2 } else { 1 }),
						2 => format!("{k}: error 'failure in {k}'"),
						_ => format!("{k}: std.extVar('missing_{k}')"),
					})
					.collect();
				format!("{{ {} }}", items.join(", "))
			};
			let (l, r) = (side(src, false), side(src, true));
			let op = *src.pick(&["L == R", "L != R", "std.equals(L, R)", "std.assertEqual(L, R)", "std.member([R], L)", "std.count([R, R], L)", "[L] == [R]", "{ k: L } == { k: R }"]);
			format!("local L = {l}, R = {r}; {op}")
		}
		8 => {
			classes.push("multi-error".to_owned());
			let n = src.range(2, 5);
			let asserts: Vec<String> = (0..n).map(|i| format!("assert self.v > {i} : 'assertion {i}'")).collect();
			format!("{{ v: 0, {} }}", asserts.join(", "))
		}
		9 => {
			classes.push("multi-error".to_owned());
			match src.below(5) {
				0 => "std.assertEqual({ b: 1, a: [1, 2] }, { a: [1, 3], b: 1 })".to_owned(),
				1 => "{ ['a' + x]: 1 for x in ['b', 'c', 'b', 'c'] }".to_owned(),
				2 => "(function(aab, aba, baa) 1)(abb=1, bab=2)".to_owned(),
				3 => "(function(aab, aba, baa) 1)()".to_owned(),
				_ => "'%(aab)s %(aba)s' % { abb: 1, bab: 2 }".to_owned(),
			}
		}
		10 => {
			classes.push("stack-limit".to_owned());
			let ns = names(src, 3);
			format!("local o = {{ {}: 1 }}; local f(x) = [f(x + 1), o]; f(0)", ns[0])
		}
		_ => {
			let p = gen_eval::program(src, 5, 60, 10, 0, 0);
			let ex = p.closed();
			// the reference interpreter is used only as a cost bound here: programs it cannot finish within its fuel are not run
			match crate::props::c01::model_of(&ex) {
				crate::model::MOut::Err(e) if e.undecided() => "{ a: 1, b: self.a }".to_owned(),
				_ => {
					classes.push("typed-program".to_owned());
					ast::print_eval(&ex)
				}
			}
		}
	};
	(code, classes)
}

pub fn check(src: &mut Src, with_cli: bool) -> CaseOut {
	let (code, mut classes) = gen_program(src);
	let junk = src.range(1, 3000) as usize;
	let leak = src.range(1, 200_000) as usize;
	let hist: Vec<&'static str> = (0..src.range(1, 12)).map(|_| *src.pick(HISTORY)).collect();
	if hist.iter().any(|h| h.contains("error") || h.contains("f(x + 1)") || h.contains("a = a")) {
		classes.push("history-with-failure".to_owned());
	}
	let mut problems = vec![];
	let started = std::time::Instant::now();
	let c0 = code.clone();
	// programs just below the frame limit run under the thread's default limit: a frame leaked by an earlier
	// stack-limit hit is invisible to a limit that is set relative to the current depth
	let ms = if classes.iter().any(|c| c == "near-limit") { 0 } else { 200 };
	let base = on_fresh_thread(0, 0, move || render(&c0, ms));
	let mut cmp = |label: &str, got: String| {
		if got != base {
			problems.push(format!("{label} differs from the fresh-thread result\n--- fresh thread:\n{base}\n--- {label}:\n{got}"));
		}
	};
	// (2) different heap layout / interned pool
	let c = code.clone();
	cmp(&format!("thread with {junk} pre-interned strings and a {leak}-byte leaked prefix"), on_fresh_thread(junk, leak, move || render(&c, ms)));
	// (4) after a history of other evaluations on the same thread (fresh state each)
	let c = code.clone();
	let h = hist.clone();
	cmp(
		"after a history of other evaluations (fresh states)",
		on_fresh_thread(junk / 7, 0, move || {
			for p in &h {
				let _ = render(p, ms);
			}
			render(&c, ms)
		}),
	);
	// (3) one long-lived state, history first, then the program twice in a row
	let c = code.clone();
	let h = hist.clone();
	let twice = on_fresh_thread(3, 17, move || {
		let sess = jr::new_session(&session_opts());
		for p in &h {
			let _ = render_on(&sess, p, ms);
		}
		let a = render_on(&sess, &c, ms);
		let b = render_on(&sess, &c, ms);
		if a == b {
			a
		} else {
			format!("FIRST:\n{a}\nSECOND (same state, same program):\n{b}")
		}
	});
	cmp("long-lived state after a history, evaluated twice in a row", twice);
	// (1) separate processes (ASLR)
	if with_cli {
		let mut outs: Vec<String> = vec![];
		for _ in 0..3 {
			match std::process::Command::new("/verif/target/repo/debug/jrsonnet").args(["-e", "--", &code]).output() {
				Ok(o) => outs.push(format!("status {:?}\nstdout:\n{}\nstderr:\n{}", o.status.code(), String::from_utf8_lossy(&o.stdout), String::from_utf8_lossy(&o.stderr))),
				Err(e) => outs.push(format!("spawn failed {e}")),
			}
		}
		if outs.iter().any(|o| o != &outs[0]) {
			problems.push(format!("three runs of the executable differ:\n{}", outs.join("\n======\n")));
		}
		classes.push("cli".to_owned());
	}
	if started.elapsed().as_secs() >= 5 && std::env::var_os("C16_SLOW").is_some() {
		eprintln!("slow case ({:?}): {code}\nhistory: {hist:?}", started.elapsed());
	}
	let nontrivial = !classes.is_empty();
	if problems.is_empty() {
		CaseOut::pass(code, nontrivial).classes(classes)
	} else {
		problems.truncate(3);
		CaseOut::fail(code, problems.join("\n")).classes(classes)
	}
}

pub fn run(run: &Run) {
	run.set_rule("programs biased towards hash-ordered internals (objects with 5-60 permuted/near-duplicate field names that are listed, manifested in every format, compared, patched, pruned, iterated; removed keys; missing fields and unknown variables with several equally similar suggestions; objects with several failing fields or assertions; comparisons of two objects in which several fields decide differently (unequal, failing, failing otherwise); duplicate computed names; arity errors; format key errors; stack-limit hits) plus type-directed programs. Each is rendered (value text, or full CompactFormat error text) on a fresh thread and must be byte-identical on: a thread with thousands of pre-interned strings and a leaked heap prefix; after a random history of succeeding/failing/stack-limited/infinitely-recursive evaluations; on one long-lived state after that history, twice in a row; and (sample) in three separate processes. Non-trivial = program of a hash-sensitive class or a history containing failures.");
	run.assume("address-space variation is produced by ASLR between processes and by heap/pool perturbation between threads on this platform and allocator only");
	let counter = std::sync::atomic::AtomicU64::new(0);
	let n = run.tier.pick(3_000, 50_000);
	run.explore("programs", n, 30..=400, |src| {
		let k = counter.fetch_add(1, std::sync::atomic::Ordering::SeqCst);
		check(src, k % 6 == 0)
	});
	for c in ["suggestion-tie", "multi-error", "compared-objects-with-several-deciding-fields", "big-object", "history-with-failure", "cli", "stack-limit", "near-limit", "imports"] {
		run.require_class(c, 50);
	}
	let _ = HashMap::<u8, u8>::new();
}

pub fn replay(_run: &Run, stage: &str, tape: Option<&[u16]>, _v: &Value) -> Option<CaseOut> {
	match (stage, tape) {
		("programs", Some(t)) => Some(check(&mut Src::new(t), true)),
		_ => None,
	}
}
