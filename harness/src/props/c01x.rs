//! C01, last clause — "an experimental-syntax program gives the result of its documented desugaring".
//!
//! The subject is a second build of this harness (`target/exp`, cargo feature `exp` = jrsonnet's `exp-destruct`,
//! `exp-null-coaelse`, `exp-object-iteration`), reached as a worker process.  A case is a pair (sugar, desugared): the
//! sugar text uses destructuring locals / parameters / loop variables, `??`, `?.`, `?.[..]` or iteration over an
//! object; the desugared text is the standard-language program that docs/features.adoc gives for it.  Oracle: the
//! experimental build evaluates the sugar text, under either parser, to exactly what the *standard* build evaluates
//! the desugared text to (value: same JSON text; error <=> error).  Only documented shapes are generated: a source
//! has exactly the fields / elements its pattern names unless the pattern has a rest, no `self` in sources, no hidden
//! fields next to a kept rest, every `??` / `?.` operand parenthesised.
use serde_json::{json, Value};

use crate::{
	core::{CaseOut, Run, Src},
	jr::{self, Opts, Outcome, Parser},
	worker::{self, Reply},
};

#[derive(Clone, Debug)]
enum Pat {
	Var(String),
	Skip,
	/// start, rest (None = no rest, Some(None) = `...`, Some(Some(r)) = `...r`), end
	Arr(Vec<Pat>, Option<Option<String>>, Vec<Pat>),
	/// (field, into, default), rest
	Obj(Vec<(String, Option<Pat>, Option<String>)>, Option<Option<String>>),
}

struct G<'a, 'b> {
	src: &'a mut Src<'b>,
	next: usize,
	classes: Vec<&'static str>,
	has_error: bool,
	/// field names already bound by the shorthand `{a}` (a name may be bound once per case)
	short: Vec<String>,
}

const FIELDS: &[&str] = &["a", "b", "c", "d", "e"];
const LEAVES: &[&str] = &["1", "-2.5", "'s'", "'é😀'", "null", "true", "[]", "[1, 2]", "{}", "{ k: 1 }", "[[3]]", "{ k: { j: null } }", "0", "''", "false"];

impl G<'_, '_> {
	fn fresh(&mut self, p: &str) -> String {
		self.next += 1;
		format!("{p}{}", self.next)
	}
	fn leaf(&mut self) -> String {
		if self.src.chance(1, 12) {
			self.has_error = true;
			let n = self.fresh("E");
			return format!("error '{n}'");
		}
		(*self.src.pick(LEAVES)).to_owned()
	}
	fn rest(&mut self) -> Option<Option<String>> {
		match self.src.below(4) {
			0 | 1 => None,
			2 => {
				self.classes.push("rest-dropped");
				Some(None)
			}
			_ => {
				self.classes.push("rest-kept");
				Some(Some(self.fresh("r")))
			}
		}
	}
	fn pat(&mut self, depth: usize, in_array: bool) -> Pat {
		let k = if depth == 0 { self.src.below(2) } else { self.src.below(6) };
		match k {
			0 => Pat::Var(self.fresh("v")),
			1 if in_array => {
				self.classes.push("skip");
				Pat::Skip
			}
			1 => Pat::Var(self.fresh("v")),
			2 | 3 => self.arr(depth),
			_ => self.obj(depth),
		}
	}
	fn arr(&mut self, depth: usize) -> Pat {
		let rest = self.rest();
		let ns = self.src.below(3);
		let ne = if rest.is_some() { self.src.below(3) } else { 0 };
		let start: Vec<Pat> = (0..ns).map(|_| self.pat(depth.saturating_sub(1), true)).collect();
		let end: Vec<Pat> = (0..ne).map(|_| self.pat(depth.saturating_sub(1), true)).collect();
		if depth < 2 {
			self.classes.push("nested-pattern");
		}
		Pat::Arr(start, rest, end)
	}
	fn obj(&mut self, depth: usize) -> Pat {
		let rest = self.rest();
		let n = self.src.below(4);
		let first = self.src.below(FIELDS.len());
		let mut fields = vec![];
		for i in 0..n {
			let f = FIELDS[(first + i) % FIELDS.len()].to_owned();
			let (into, default) = match self.src.below(5) {
				// `{a}` binds the field under its own name: only possible once per name in the whole case
				0 | 1 => (Some(self.pat(depth.saturating_sub(1), false)), None),
				2 => {
					self.classes.push("default");
					let d = (*self.src.pick(&["7", "'dflt'", "[0]", "null"])).to_owned();
					if self.src.chance(1, 2) && !self.short.contains(&f) {
						self.short.push(f.clone());
						(None, Some(d))
					} else {
						(Some(Pat::Var(self.fresh("v"))), Some(d))
					}
				}
				3 if !self.short.contains(&f) => {
					self.classes.push("shorthand");
					self.short.push(f.clone());
					(None, None)
				}
				_ => (Some(Pat::Var(self.fresh("v"))), None),
			};
			fields.push((f, into, default));
		}
		if depth < 2 {
			self.classes.push("nested-pattern");
		}
		Pat::Obj(fields, rest)
	}
	/// a source value that the pattern accepts
	fn source(&mut self, p: &Pat) -> String {
		match p {
			Pat::Var(_) | Pat::Skip => self.leaf(),
			Pat::Arr(s, r, e) => {
				let mut items: Vec<String> = s.iter().map(|x| self.source(x)).collect();
				if r.is_some() {
					for _ in 0..self.src.below(3) {
						items.push(self.leaf());
					}
				}
				items.extend(e.iter().map(|x| self.source(x)));
				format!("[{}]", items.join(", "))
			}
			Pat::Obj(fs, r) => {
				let mut items = vec![];
				for (f, into, d) in fs {
					if d.is_some() && self.src.chance(1, 2) {
						self.classes.push("default-used");
						continue;
					}
					let v = match into {
						Some(p) => self.source(p),
						None => self.leaf(),
					};
					items.push(format!("{f}: {v}"));
				}
				if r.is_some() {
					for i in 0..self.src.below(3) {
						let v = self.leaf();
						items.push(format!("x{i}: {v}"));
					}
				}
				// field order of the source is free
				if items.len() > 1 && self.src.chance(1, 2) {
					items.reverse();
				}
				format!("{{ {} }}", items.join(", "))
			}
		}
	}
}

fn print_pat(p: &Pat) -> String {
	let rest = |r: &Option<Option<String>>| match r {
		None => None,
		Some(None) => Some("...".to_owned()),
		Some(Some(n)) => Some(format!("...{n}")),
	};
	match p {
		Pat::Var(n) => n.clone(),
		Pat::Skip => "?".to_owned(),
		Pat::Arr(s, r, e) => {
			let mut items: Vec<String> = s.iter().map(print_pat).collect();
			items.extend(rest(r));
			items.extend(e.iter().map(print_pat));
			format!("[{}]", items.join(", "))
		}
		Pat::Obj(fs, r) => {
			let mut items: Vec<String> = fs
				.iter()
				.map(|(f, into, d)| {
					let mut s = f.clone();
					if let Some(p) = into {
						s += &format!(": {}", print_pat(p));
					}
					if let Some(d) = d {
						s += &format!(" = {d}");
					}
					s
				})
				.collect();
			items.extend(rest(r));
			format!("{{ {} }}", items.join(", "))
		}
	}
}

/// the documented desugaring: one plain binding per bound name, each an access path into the source
fn binds(p: &Pat, access: &str, out: &mut Vec<(String, String)>) {
	match p {
		Pat::Var(n) => out.push((n.clone(), access.to_owned())),
		Pat::Skip => {}
		Pat::Arr(s, r, e) => {
			for (i, x) in s.iter().enumerate() {
				binds(x, &format!("{access}[{i}]"), out);
			}
			if let Some(Some(n)) = r {
				out.push((n.clone(), format!("{access}[{}:std.length({access}) - {}]", s.len(), e.len())));
			}
			for (i, x) in e.iter().enumerate() {
				binds(x, &format!("{access}[std.length({access}) - {} + {i}]", e.len()), out);
			}
		}
		Pat::Obj(fs, r) => {
			for (f, into, d) in fs {
				let acc = match d {
					None => format!("{access}.{f}"),
					Some(d) => format!("(if std.objectHasAll({access}, '{f}') then {access}.{f} else {d})"),
				};
				match into {
					Some(p) => binds(p, &acc, out),
					None => out.push((f.clone(), acc)),
				}
			}
			if let Some(Some(n)) = r {
				let names: Vec<String> = fs.iter().map(|(f, _, _)| format!("'{f}'")).collect();
				out.push((n.clone(), format!("{{ [k]: {access}[k] for k in std.objectFields({access}) if !std.member([{}], k) }}", names.join(", "))));
			}
		}
	}
}

fn names_of(p: &Pat, out: &mut Vec<String>) {
	let mut b = vec![];
	binds(p, "_", &mut b);
	out.extend(b.into_iter().map(|(n, _)| n));
}

fn body(g: &mut G, names: &[String]) -> String {
	// most of the bound names, in a drawn order; leaving one out keeps an `error` in it unobserved
	let mut used: Vec<String> = names.iter().filter(|_| !g.src.chance(1, 5)).cloned().collect();
	if g.src.chance(1, 3) {
		used.reverse();
	}
	match g.src.below(3) {
		0 => format!("{{ {} }}", used.iter().map(|n| format!("{n}: {n}")).collect::<Vec<_>>().join(", ")),
		_ => format!("[{}]", used.join(", ")),
	}
}

fn top_pat(g: &mut G) -> Pat {
	if g.src.chance(1, 2) {
		g.arr(2)
	} else {
		g.obj(2)
	}
}

/// (sugar, desugared)
fn destruct_pair(g: &mut G) -> (String, String) {
	let kind = g.src.below(5);
	match kind {
		// one local group with one or two patterns (the second group's sources may read names of the first)
		0 | 1 => {
			g.classes.push("destruct:local");
			let n = 1 + g.src.below(2);
			let pats: Vec<Pat> = (0..n).map(|_| top_pat(g)).collect();
			let mut names = vec![];
			for p in &pats {
				names_of(p, &mut names);
			}
			let mut srcs: Vec<String> = pats.iter().map(|p| g.source(p)).collect();
			if n == 2 {
				// mutual reference as in the documentation: a name bound by the second pattern appears in the first source
				let mut second = vec![];
				names_of(&pats[1], &mut second);
				if let (Some(v), true) = (second.first(), srcs[0].contains("1")) {
					g.classes.push("destruct:mutual");
					srcs[0] = srcs[0].replacen('1', v, 1);
				}
			}
			let b = body(g, &names);
			let sugar = format!("local {}; {b}", pats.iter().zip(&srcs).map(|(p, s)| format!("{} = {s}", print_pat(p))).collect::<Vec<_>>().join(", "));
			let mut bs = vec![];
			for (i, (p, s)) in pats.iter().zip(&srcs).enumerate() {
				bs.push((format!("src{i}"), s.clone()));
				binds(p, &format!("src{i}"), &mut bs);
			}
			let de = format!("local {}; {b}", bs.iter().map(|(n, e)| format!("{n} = {e}")).collect::<Vec<_>>().join(", "));
			(sugar, de)
		}
		// function parameters
		2 => {
			g.classes.push("destruct:params");
			let n = 1 + g.src.below(2);
			let pats: Vec<Pat> = (0..n).map(|_| top_pat(g)).collect();
			let mut names = vec![];
			for p in &pats {
				names_of(p, &mut names);
			}
			let srcs: Vec<String> = pats.iter().map(|p| g.source(p)).collect();
			let b = body(g, &names);
			let sugar = format!("local f({}, last=0) = {b}; f({})", pats.iter().map(print_pat).collect::<Vec<_>>().join(", "), srcs.join(", "));
			let mut bs = vec![];
			for (i, p) in pats.iter().enumerate() {
				binds(p, &format!("p{i}"), &mut bs);
			}
			let inner = if bs.is_empty() { b.clone() } else { format!("local {}; {b}", bs.iter().map(|(n, e)| format!("{n} = {e}")).collect::<Vec<_>>().join(", ")) };
			let de = format!("local f({}, last=0) = {inner}; f({})", (0..n).map(|i| format!("p{i}")).collect::<Vec<_>>().join(", "), srcs.join(", "));
			(sugar, de)
		}
		// loop variable of an array / object comprehension
		_ => {
			let objcomp = kind == 4;
			g.classes.push(if objcomp { "destruct:object-comprehension" } else { "destruct:comprehension" });
			let p = top_pat(g);
			let mut names = vec![];
			names_of(&p, &mut names);
			let k = 1 + g.src.below(3);
			let srcs: Vec<String> = (0..k).map(|_| g.source(&p)).collect();
			let b = body(g, &names);
			let mut bs = vec![];
			binds(&p, "it", &mut bs);
			let inner = if bs.is_empty() { b.clone() } else { format!("local {}; {b}", bs.iter().map(|(n, e)| format!("{n} = {e}")).collect::<Vec<_>>().join(", ")) };
			if objcomp {
				// the key is the position, which keeps the keys distinct
				let arr = format!("[[{}]]", srcs.iter().enumerate().map(|(i, s)| format!("'k{i}', {s}")).collect::<Vec<_>>().join("], ["));
				(format!("{{ [key]: {b} for [key, {}] in {arr} }}", print_pat(&p)), format!("{{ [pair[0]]: (local key = pair[0], it = pair[1]; {inner}) for pair in {arr} }}"))
			} else {
				let arr = format!("[{}]", srcs.join(", "));
				(format!("[{b} for {} in {arr}]", print_pat(&p)), format!("[{inner} for it in {arr}]"))
			}
		}
	}
}

const NC_SUBJECTS: &[&str] = &[
	"null", "{}", "{ a: 1 }", "{ a: null }", "{ a: { b: 2 } }", "{ a: { b: null } }", "{ a:: 3 }", "{ b: 1 }", "{ a: error 'EA' }", "{ a: [1] }", "{ a: false }", "{ a: 0 }", "{ a: '' }", "({ a: 1 } + { a+: 1 })",
	"{ 'a b': 1, a: 2 }", "{ a: { b: { a: 5 } } }",
];
const NC_FALLBACK: &[&str] = &["'fb'", "0", "null", "error 'EF'", "[9]", "{ z: 1 }"];

/// `a ?? b` = `if a == null then b else a`;  `a?.f`, `a?.['f']` = `if a != null then std.get(a, 'f', null)`
fn nullco_pair(g: &mut G) -> (String, String) {
	fn go(g: &mut G, depth: usize) -> (String, String) {
		if depth == 0 {
			let s = (*g.src.pick(NC_SUBJECTS)).to_owned();
			if s.contains("error") {
				g.has_error = true;
			}
			return (s.clone(), s);
		}
		let (a_s, a_d) = go(g, depth - 1);
		let t = g.fresh("t");
		match g.src.below(4) {
			0 => {
				g.classes.push("nullco:??");
				let (b_s, b_d) = if g.src.chance(1, 3) {
					go(g, depth - 1)
				} else {
					let f = (*g.src.pick(NC_FALLBACK)).to_owned();
					if f.contains("error") {
						g.has_error = true;
					}
					(f.clone(), f)
				};
				(format!("(({a_s}) ?? ({b_s}))"), format!("(local {t} = ({a_d}); if {t} == null then ({b_d}) else {t})"))
			}
			1 => {
				g.classes.push("nullco:?.");
				let f = *g.src.pick(&["a", "b"]);
				(format!("(({a_s})?.{f})"), format!("(local {t} = ({a_d}); if {t} != null then std.get({t}, '{f}', null))"))
			}
			2 => {
				g.classes.push("nullco:?.[]");
				let f = *g.src.pick(&["a", "b", "a b"]);
				(format!("(({a_s})?.['{f}'])"), format!("(local {t} = ({a_d}); if {t} != null then std.get({t}, '{f}', null))"))
			}
			_ => {
				g.classes.push("nullco:in-container");
				(format!("[{a_s}, ({a_s}) ?? 1]"), format!("[{a_d}, (local {t} = ({a_d}); if {t} == null then 1 else {t})]"))
			}
		}
	}
	let d = 1 + g.src.below(3);
	go(g, d)
}

const IT_OBJECTS: &[&str] = &[
	"{}", "{ a: 1 }", "{ b: 1, a: 2 }", "{ c: 'x', a: [1], b: null }", "{ a: 1, h:: 2 }", "({ z: 1, h:: 0 } + { h::: 5, y: 2 })", "{ ['k' + i]: i for i in [3, 1, 2] }", "{ a: error 'EI', b: 2 }",
	"{ 'é': 1, 'z': 2, 'A': 3 }", "{ b: { c: 1 } }",
];

/// iteration over an object yields `[key, value]` per visible field, in the order of std.objectFields
fn objiter_pair(g: &mut G) -> (String, String) {
	let o = (*g.src.pick(IT_OBJECTS)).to_owned();
	if o.contains("error") {
		g.has_error = true;
	}
	let pairs = format!("(local obj = {o}; [[k, obj[k]] for k in std.objectFields(obj)])");
	match g.src.below(5) {
		0 => {
			g.classes.push("objiter:elements");
			(format!("[i for i in {o}]"), format!("[i for i in {pairs}]"))
		}
		1 => {
			g.classes.push("objiter:keys");
			(format!("[i[0] for i in {o}]"), format!("[i[0] for i in {pairs}]"))
		}
		2 => {
			g.classes.push("objiter:object-comprehension");
			(format!("{{ [i[0] + '!']: i[1] for i in {o} }}"), format!("{{ [i[0] + '!']: i[1] for i in {pairs} }}"))
		}
		3 => {
			g.classes.push("objiter:destructured");
			(format!("{{ [k + '!']: [v] for [k, v] in {o} }}"), format!("{{ [i[0] + '!']: [i[1]] for i in {pairs} }}"))
		}
		_ => {
			g.classes.push("objiter:filtered-nested");
			(format!("[[k, j] for [k, v] in {o} if k != 'b' for j in [1, 2]]"), format!("[[i[0], j] for i in {pairs} if i[0] != 'b' for j in [1, 2]]"))
		}
	}
}

pub fn exp_eval(code: &str, parser: Parser) -> Result<Outcome, String> {
	let req = json!({"op": "eval", "code": code, "parser": if parser == Parser::Peg { "peg" } else { "ir" }});
	match worker::ask_exp(&req, 60) {
		Reply::Ok(v) => match v["o"].as_str() {
			Some("val") => Ok(Outcome::Val(v["t"].as_str().unwrap_or("").to_owned())),
			Some("err") => Ok(Outcome::Err(v["k"].as_str().unwrap_or("").to_owned(), v["t"].as_str().unwrap_or("").to_owned())),
			Some("panic") => Ok(Outcome::Panic(v["t"].as_str().unwrap_or("").to_owned())),
			_ => Err(format!("unexpected reply {v}")),
		},
		Reply::Died { status, stderr } => Ok(Outcome::Panic(format!("worker of the experimental build died ({status}): {stderr}"))),
		Reply::Timeout => Err("time limit".to_owned()),
	}
}

fn same(a: &Outcome, b: &Outcome) -> bool {
	match (a, b) {
		(Outcome::Val(x), Outcome::Val(y)) => worker::clip(x) == worker::clip(y),
		(Outcome::Err(..), Outcome::Err(..)) => true,
		_ => false,
	}
}

fn decide_pair(sugar: &str, de: &str, classes: Vec<&'static str>, nontrivial: bool) -> CaseOut {
	let text = format!("{sugar}\n// documented desugaring:\n{de}");
	let want = jr::eval(de, &Opts::default());
	if let Outcome::Panic(p) = &want {
		return CaseOut::fail(text, format!("standard build panicked on the desugared program: {p}"));
	}
	let mut problems = vec![];
	for parser in [Parser::Ir, Parser::Peg] {
		match exp_eval(sugar, parser) {
			Err(w) => return CaseOut::discard(text, &w),
			Ok(got) => {
				if !same(&want, &got) {
					problems.push(format!("[sugar/{parser:?}] experimental build: {}\n    documented desugaring (standard build): {}", got.short(), want.short()));
				}
			}
		}
	}
	// the desugared (plain) program means the same in the experimental build
	match exp_eval(de, Parser::Ir) {
		Err(w) => return CaseOut::discard(text, &w),
		Ok(got) => {
			if !same(&want, &got) {
				problems.push(format!("[plain program] experimental build: {}\n    standard build: {}", got.short(), want.short()));
			}
		}
	}
	let mut out = if problems.is_empty() { CaseOut::pass(text, nontrivial) } else { CaseOut::fail(text, problems.join("\n")) };
	let mut cs: Vec<String> = classes.into_iter().map(|c| format!("exp:{c}")).collect();
	cs.sort();
	cs.dedup();
	cs.push(if want.is_val() { "exp:outcome:value".to_owned() } else { "exp:outcome:error".to_owned() });
	out.classes = cs;
	out
}

pub fn sugar_case(src: &mut Src) -> CaseOut {
	let which = src.below(10);
	let mut g = G { src, next: 0, classes: vec![], has_error: false, short: vec![] };
	let (s, d) = match which {
		0..=5 => destruct_pair(&mut g),
		6 | 7 => nullco_pair(&mut g),
		_ => objiter_pair(&mut g),
	};
	if g.has_error {
		g.classes.push("planted-error");
	}
	let nontrivial = g.classes.iter().any(|c| matches!(*c, "nested-pattern" | "rest-kept" | "default" | "nullco:??" | "nullco:?." | "nullco:?.[]")) || which >= 8;
	decide_pair(&s, &d, g.classes, nontrivial)
}

/// plain generated programs of the standard language mean the same in the experimental build
pub fn plain_case(tape: &[u16]) -> CaseOut {
	let p = crate::gen_eval::program(&mut Src::new(tape), 5, 60, 12, 0, 0);
	let text = crate::ast::print_eval(&p.closed());
	let want = jr::eval(&text, &Opts::default());
	let mut problems = vec![];
	for parser in [Parser::Ir, Parser::Peg] {
		match exp_eval(&text, parser) {
			Err(w) => return CaseOut::discard(text, &w),
			Ok(got) => {
				if !same(&want, &got) {
					problems.push(format!("[{parser:?}] experimental build: {}\n    standard build: {}", got.short(), want.short()));
				}
			}
		}
	}
	if problems.is_empty() {
		CaseOut::pass(text, true).class("exp:plain-program")
	} else {
		CaseOut::fail(text, problems.join("\n")).class("exp:plain-program")
	}
}

/// the examples of docs/features.adoc, verbatim, with the results the document states
const DOC_EXAMPLES: &[(&str, &str)] = &[
	("local obj = { a: 5 }; local {a: b} = obj; b", "5"),
	("local obj = { a: 5 }; local {a} = obj; a", "5"),
	("local obj = { a: 5, b: 6, c: 7 }; local {a, ...rest} = obj; [a, rest]", "[5,{\"b\":6,\"c\":7}]"),
	("local {a = 1} = {}; a == 1", "true"),
	("local array = [1, 2, 3]; local [a, b, c] = array; [a, b, c]", "[1,2,3]"),
	("local array = [1, 2, 3]; local [...rest, a] = array; [rest, a]", "[[1,2],3]"),
	("local array = [1, 2, 3]; local [a, ...rest] = array; [a, rest]", "[1,[2,3]]"),
	("local array = [1, 2, 3]; local [a, ...rest, b] = array; [a, rest, b]", "[1,[2],3]"),
	("local [?, b, c] = ['a', 'b', 'c']; [b, c]", "[\"b\",\"c\"]"),
	("local {a: [{b: {c: d}}]} = {a:[{b:{c:5}}]}; d == 5", "true"),
	("local {a, b, c} = {a: y, b: c, c: x}, {x, y, z} = {x: a, y: 2, z: b}; z == 2", "true"),
	("local myFun({a, b, c}) = a + b + c; myFun({a: 1, b: 2, c: 3})", "6"),
	("{ [i[0] + '!']: i[1] + '!' for i in { a: 1, b: 2, c: 3 } } == { 'a!': '1!', 'b!': '2!', 'c!': '3!' }", "true"),
	("{ [k + '!']: v + '!' for [k, v] in { a: 1, b: 2, c: 3 } } == { 'a!': '1!', 'b!': '2!', 'c!': '3!' }", "true"),
	("[null ?? 1, 2 ?? 1, ({ b: 1 })?.b, null?.b, ({ b: 1 })?.['b'], ({ b: 1 })?.c]", "[1,2,1,null,1,null]"),
];
pub fn doc_case(i: u64) -> CaseOut {
	let (code, want) = DOC_EXAMPLES[i as usize];
	let mut problems = vec![];
	for parser in [Parser::Ir, Parser::Peg] {
		match exp_eval(code, parser) {
			Err(w) => return CaseOut::discard(code.to_owned(), &w),
			Ok(Outcome::Val(v)) if v == want => {}
			Ok(got) => problems.push(format!("[{parser:?}] documented result {want}, got {}", got.short())),
		}
	}
	if problems.is_empty() {
		CaseOut::pass(code.to_owned(), true).class("exp:documented-example")
	} else {
		CaseOut::fail(code.to_owned(), problems.join("\n")).class("exp:documented-example")
	}
}

pub fn run(run: &Run) {
	if !std::path::Path::new(worker::EXP_EXE).exists() {
		run.infra(format!("{} is missing: the experimental-syntax build of the harness was not built (./check --setup)", worker::EXP_EXE));
		return;
	}
	run.enumerate("exp-documented-examples", DOC_EXAMPLES.len() as u64, doc_case);
	let n = run.tier.pick(6_000, 60_000);
	run.explore("exp-sugar", n, 10..=120, sugar_case);
	let n = run.tier.pick(1_500, 20_000);
	run.explore("exp-plain", n, 20..=400, |src| {
		let tape: Vec<u16> = std::iter::from_fn(|| if src.exhausted() { None } else { Some(src.raw()) }).collect();
		plain_case(&tape)
	});
	for c in ["exp:destruct:local", "exp:destruct:params", "exp:destruct:comprehension", "exp:destruct:object-comprehension", "exp:rest-kept", "exp:default-used", "exp:nullco:??", "exp:nullco:?.", "exp:nullco:?.[]", "exp:objiter:destructured", "exp:outcome:error", "exp:plain-program"] {
		run.require_class(c, 20);
	}
	worker::retire_exp();
}

pub fn replay(stage: &str, tape: Option<&[u16]>, v: &Value) -> Option<CaseOut> {
	match (stage, tape) {
		("exp-sugar", Some(t)) => Some(sugar_case(&mut Src::new(t))),
		("exp-plain", Some(t)) => Some(plain_case(t)),
		("exp-documented-examples", _) => v["extra"]["index"].as_u64().map(doc_case),
		_ => None,
	}
}
