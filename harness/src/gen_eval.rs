//! Type-directed generator of closed, statically valid programs of the standard language.
//! At each hole of a wanted type it picks a production that yields that type; with a small probability it
//! deliberately plants an ill-typed term or an `error`, so that many programs contain (dead or live) failures.
use crate::{
	ast::*,
	core::Src,
};

#[derive(Clone, Debug, PartialEq)]
pub enum Ty {
	Num,
	Bool,
	Str,
	Null,
	Arr(Box<Ty>),
	/// known fields (visible) with their types
	Obj(Vec<(String, Ty)>),
	/// parameters (name, type, has default) and result
	Fun(Vec<(String, Ty, bool)>, Box<Ty>),
	Any,
}

#[derive(Clone)]
pub struct Var {
	pub name: String,
	pub ty: Ty,
}

#[derive(Clone, Default)]
pub struct Env {
	pub vars: Vec<Var>,
	/// fields of the innermost enclosing object literal that `self.f` may read (defined earlier, acyclic)
	pub self_fields: Vec<(String, Ty)>,
	/// fields known to exist in `super` (when inside the right operand of an extension)
	pub super_fields: Vec<(String, Ty)>,
	pub in_obj: bool,
}

pub struct Gen<'a, 'b> {
	pub src: &'a mut Src<'b>,
	pub counter: usize,
	/// probability (per 100 holes) of planting an error / ill-typed term
	pub err_pct: usize,
	pub budget: isize,
	pub stats: GenStats,
	/// allow std.extVar("v") / top-level parameters (embedding tests)
	pub ext_vars: Vec<(String, Ty)>,
	pub use_trace: bool,
	/// how call sites pass their arguments (see call_site)
	pub call_style: u8,
	/// use std.map / std.foldl (strict in their elements in jrsonnet: a recorded finding) instead of comprehensions
	pub std_hof: bool,
}
#[derive(Default, Clone, Debug)]
pub struct GenStats {
	pub shadowing: bool,
	pub mutual: bool,
	pub closure_over_loop: bool,
	pub default_refs_param: bool,
	pub named_call: bool,
	pub uses_super: bool,
	pub plus_field: bool,
	pub slice_step: bool,
	pub planted_errors: usize,
	pub recursion: bool,
	pub tailstrict: bool,
	pub objcomp: bool,
}

const NUMS: &[f64] = &[0.0, 1.0, 2.0, 3.0, -1.0, 0.5, 1.5, 2.25, 7.0, 10.0, 1e3, 255.0, -2.0];
const STRS: &[&str] = &["", "a", "b", "ab", "abc", "é", "😀x", "a b", "%", "x\ny", "\"q\"", "k"];
const FIELD_NAMES: &[&str] = &["a", "b", "c", "k"];

pub fn leaf_ty(src: &mut Src) -> Ty {
	match src.weighted(&[4, 2, 3, 1]) {
		0 => Ty::Num,
		1 => Ty::Bool,
		2 => Ty::Str,
		_ => Ty::Null,
	}
}
pub fn any_ty(src: &mut Src, depth: usize) -> Ty {
	if depth == 0 {
		return leaf_ty(src);
	}
	match src.weighted(&[6, 2, 2]) {
		0 => leaf_ty(src),
		1 => Ty::Arr(Box::new(any_ty(src, depth - 1))),
		_ => {
			let n = src.range(0, 3) as usize;
			Ty::Obj((0..n).map(|i| (FIELD_NAMES[i].to_owned(), any_ty(src, depth - 1))).collect())
		}
	}
}

impl<'a, 'b> Gen<'a, 'b> {
	pub fn new(src: &'a mut Src<'b>) -> Self {
		Self { src, counter: 0, err_pct: 12, budget: 60, stats: GenStats::default(), ext_vars: vec![], use_trace: false, call_style: 0, std_hof: false }
	}
	fn fresh(&mut self, env: &Env, base: &str) -> String {
		// occasionally reuse (shadow) a name from an outer scope
		if !env.vars.is_empty() && self.src.chance(1, 6) {
			let v = self.src.pick(&env.vars).name.clone();
			if v != "std" {
				self.stats.shadowing = true;
				return v;
			}
		}
		self.counter += 1;
		format!("{base}{}", self.counter)
	}

	pub fn lit(&mut self, ty: &Ty) -> Ex {
		match ty {
			Ty::Num => num(*self.src.pick(NUMS)),
			Ty::Bool => {
				if self.src.chance(1, 2) {
					Ex::True
				} else {
					Ex::False
				}
			}
			Ty::Str => {
				let t = (*self.src.pick(STRS)).to_owned();
				let st = *self.src.pick(&[StrStyle::Double, StrStyle::Double, StrStyle::Single, StrStyle::VerbDouble, StrStyle::Block]);
				let st = if style_ok(&t, st) { st } else { StrStyle::Double };
				Ex::Str(t, st)
			}
			Ty::Null => Ex::Null,
			Ty::Arr(t) => {
				let n = self.src.range(0, 3);
				Ex::Arr((0..n).map(|_| self.lit(t)).collect())
			}
			Ty::Obj(fs) => Ex::Obj(
				fs.iter()
					.map(|(n, t)| Member::Field { name: FieldName::Id(n.clone()), plus: false, vis: Vis::Normal, params: None, value: self.lit(t) })
					.collect(),
			),
			Ty::Fun(ps, r) => {
				let body = self.lit(r);
				Ex::Func(ps.iter().map(|(n, t, d)| Param { name: n.clone(), default: if *d { Some(self.lit(t)) } else { None } }).collect(), bx(body))
			}
			Ty::Any => {
				let t = leaf_ty(self.src);
				self.lit(&t)
			}
		}
	}

	fn vars_of<'e>(&self, env: &'e Env, ty: &Ty) -> Vec<&'e Var> {
		env.vars.iter().filter(|v| &v.ty == ty).collect()
	}

	/// an expression that fails when forced (or is ill-typed for its position)
	fn bomb(&mut self, env: &Env, ty: &Ty, d: usize) -> Ex {
		self.stats.planted_errors += 1;
		match self.src.weighted(&[4, 2, 2, 1, 1]) {
			0 => {
				self.counter += 1;
				Ex::Error(bx(s(&format!("boom{}", self.counter))))
			}
			1 => {
				// ill-typed: a value of another type
				let other = match ty {
					// (not a string: `string * number` is a jrsonnet extension outside the standard language)
					Ty::Num => Ty::Bool,
					Ty::Str => Ty::Num,
					Ty::Bool => Ty::Num,
					_ => Ty::Bool,
				};
				self.expr(env, &other, d.saturating_sub(1))
			}
			2 => {
				// failing assert in front of a fine value
				let v = self.lit(ty);
				self.counter += 1;
				Ex::Assert(bx(Ex::False), Some(bx(s(&format!("assert{}", self.counter)))), bx(v))
			}
			3 => Ex::Index(bx(Ex::Arr(vec![])), bx(num(0.0))),
			_ => Ex::Dot(bx(Ex::Obj(vec![])), "nope".to_owned()),
		}
	}

	pub fn expr(&mut self, env: &Env, ty: &Ty, d: usize) -> Ex {
		self.budget -= 1;
		if d == 0 || self.budget <= 0 || self.src.exhausted() {
			let vs = self.vars_of(env, ty);
			if !vs.is_empty() && self.src.chance(1, 2) {
				let i = self.src.below(vs.len());
				return var(&vs[i].name);
			}
			return self.lit(ty);
		}
		if self.src.below(100) < self.err_pct {
			return self.bomb(env, ty, d);
		}
		let d1 = d - 1;
		// productions available for every type
		let generic = self.src.weighted(&[10, 3, 3, 2, 2, 2, 1, 1, 1, 1]);
		match generic {
			0 => self.typed(env, ty, d),
			1 => {
				let vs = self.vars_of(env, ty);
				if vs.is_empty() {
					self.typed(env, ty, d)
				} else {
					let i = self.src.below(vs.len());
					var(&vs[i].name)
				}
			}
			2 => self.local(env, ty, d),
			3 => {
				let c = self.expr(env, &Ty::Bool, d1);
				let t = self.expr(env, ty, d1);
				let e = self.expr(env, ty, d1);
				Ex::If(bx(c), bx(t), Some(bx(e)))
			}
			4 => self.call_site(env, ty, d),
			5 => {
				// index into an array literal / variable of arrays of ty
				let arr_ty = Ty::Arr(Box::new(ty.clone()));
				let a = self.expr(env, &arr_ty, d1);
				let i = if self.src.chance(4, 5) { num(self.src.range(0, 2) as f64) } else { self.expr(env, &Ty::Num, d1) };
				Ex::Index(bx(a), bx(i))
			}
			6 => {
				// field of an object
				let fname = (*self.src.pick(FIELD_NAMES)).to_owned();
				let oty = Ty::Obj(vec![(fname.clone(), ty.clone())]);
				let o = self.expr(env, &oty, d1);
				if self.src.chance(1, 2) {
					Ex::Dot(bx(o), fname)
				} else {
					Ex::Index(bx(o), bx(s(&fname)))
				}
			}
			7 => {
				let c = self.expr(env, &Ty::Bool, d1);
				let m = if self.src.chance(1, 2) { Some(bx(self.expr(env, &Ty::Str, d1.saturating_sub(1)))) } else { None };
				let r = self.expr(env, ty, d1);
				Ex::Assert(bx(c), m, bx(r))
			}
			8 => {
				if !env.self_fields.is_empty() {
					let fs: Vec<&(String, Ty)> = env.self_fields.iter().filter(|f| &f.1 == ty).collect();
					if !fs.is_empty() {
						let i = self.src.below(fs.len());
						return Ex::Dot(bx(Ex::SelfE), fs[i].0.clone());
					}
				}
				self.typed(env, ty, d)
			}
			_ => {
				if !env.super_fields.is_empty() {
					let fs: Vec<&(String, Ty)> = env.super_fields.iter().filter(|f| &f.1 == ty).collect();
					if !fs.is_empty() {
						let i = self.src.below(fs.len());
						self.stats.uses_super = true;
						return Ex::SuperDot(fs[i].0.clone());
					}
				}
				self.typed(env, ty, d)
			}
		}
	}

	fn local(&mut self, env: &Env, ty: &Ty, d: usize) -> Ex {
		let d1 = d - 1;
		let n = 1 + self.src.weighted(&[5, 2, 1]);
		let mut env2 = env.clone();
		let mut names = vec![];
		// decide names and types first, so that bindings may refer to each other (recursive scope)
		let mut tys = vec![];
		for _ in 0..n {
			let t = if self.src.chance(1, 4) {
				let np = self.src.range(0, 2) as usize;
				let pn = ["p", "q"];
				Ty::Fun(
					(0..np).map(|i| (format!("{}{}", pn[i], self.counter + i), leaf_ty(self.src), self.src.chance(1, 3))).collect(),
					Box::new(any_ty(self.src, 1)),
				)
			} else {
				any_ty(self.src, 1)
			};
			let mut name = self.fresh(env, "v");
			while names.contains(&name) {
				self.counter += 1;
				name = format!("v{}", self.counter);
			}
			names.push(name.clone());
			tys.push(t.clone());
			env2.vars.push(Var { name, ty: t });
		}
		let mut binds = vec![];
		for i in 0..n {
			// forward/mutual references are legal but must not be forced in a cycle: only function bodies and
			// lazily used positions may mention later bindings; plain values see only earlier ones
			let mut env_i = env.clone();
			for j in 0..i {
				env_i.vars.push(env2.vars[env.vars.len() + j].clone());
			}
			match &tys[i] {
				Ty::Fun(ps, r) => {
					let (ps, body) = self.fun_parts(&env2.clone(), ps, r, d1, Some(&names[i]));
					if self.src.chance(1, 2) {
						binds.push(Bind::Func(names[i].clone(), ps, body));
					} else {
						binds.push(Bind::Var(names[i].clone(), Ex::Func(ps, bx(body))));
					}
					if i + 1 < n {
						self.stats.mutual = true;
					}
				}
				t => binds.push(Bind::Var(names[i].clone(), self.expr(&env_i, t, d1))),
			}
		}
		let body = self.expr(&env2, ty, d1);
		Ex::Local(binds, bx(body))
	}

	/// parameters (with defaults that may mention *other parameters*) and body of a function of the given type
	fn fun_parts(&mut self, env: &Env, ps: &[(String, Ty, bool)], r: &Ty, d: usize, _self_name: Option<&str>) -> (Vec<Param>, Ex) {
		let mut env_f = env.clone();
		env_f.self_fields.clear();
		env_f.super_fields.clear();
		for (n, t, _) in ps {
			env_f.vars.push(Var { name: n.clone(), ty: t.clone() });
		}
		let mut params = vec![];
		for (i, (n, t, has_def)) in ps.iter().enumerate() {
			let default = if *has_def {
				// defaults see all parameters; refer to an earlier one sometimes
				if i > 0 && ps[i - 1].1 == *t && self.src.chance(1, 2) {
					self.stats.default_refs_param = true;
					Some(var(&ps[i - 1].0))
				} else {
					Some(self.lit(t))
				}
			} else {
				None
			};
			params.push(Param { name: n.clone(), default });
		}
		let body = self.expr(&env_f, r, d);
		(params, body)
	}

	/// call of a function yielding `ty`: a function variable in scope, or an immediately applied literal
	fn call_site(&mut self, env: &Env, ty: &Ty, d: usize) -> Ex {
		let d1 = d - 1;
		let cands: Vec<Var> = env.vars.iter().filter(|v| matches!(&v.ty, Ty::Fun(_, r) if **r == *ty)).cloned().collect();
		let (fexpr, ps) = if !cands.is_empty() && self.src.chance(2, 3) {
			let v = cands[self.src.below(cands.len())].clone();
			let Ty::Fun(ps, _) = v.ty.clone() else { unreachable!() };
			(var(&v.name), ps)
		} else {
			let np = self.src.range(0, 3) as usize;
			self.counter += 1;
			let c = self.counter;
			let pn = ["a", "b", "c"];
			let ps: Vec<(String, Ty, bool)> = (0..np).map(|i| (format!("{}{}", pn[i], c), leaf_ty(self.src), self.src.chance(1, 3))).collect();
			let (params, body) = self.fun_parts(env, &ps, ty, d1, None);
			(Ex::Func(params, bx(body)), ps)
		};
		// arguments: positional prefix, then named (possibly reordered); parameters with defaults may be omitted
		// The same tape decides which parameters receive an argument; `call_style` only decides how they are passed
		// (0 = as drawn, 1 = positionally wherever possible, 2 = all by name, reversed).
		let mut args = vec![];
		let mut named = vec![];
		let npos = self.src.below(ps.len() + 1);
		let mut gap = false;
		for (i, (n, t, has_def)) in ps.iter().enumerate() {
			let drawn_positional = i < npos;
			let omitted = !drawn_positional && *has_def && self.src.chance(1, 2);
			if omitted {
				gap = true;
				continue;
			}
			let value = self.expr(env, t, d1);
			let positional = match self.call_style {
				1 => !gap,
				2 => false,
				_ => drawn_positional,
			};
			if positional {
				args.push(value);
			} else {
				named.push((n.clone(), value));
				self.stats.named_call = true;
			}
		}
		// (drawn unconditionally: every call style must consume the tape identically)
		let reverse = self.src.chance(1, 2);
		if (reverse && self.call_style == 0) || self.call_style == 2 {
			named.reverse();
		}
		// arity errors, sometimes
		if self.src.below(100) < self.err_pct / 3 {
			self.stats.planted_errors += 1;
			if self.src.chance(1, 2) {
				// more positional arguments than parameters, whatever the call style
				for _ in 0..=ps.len() {
					args.push(num(0.0));
				}
			} else {
				named.push(("nosuch".to_owned(), num(0.0)));
			}
		}
		let ts = self.src.chance(1, 10);
		if ts {
			self.stats.tailstrict = true;
		}
		Ex::Call(bx(fexpr), args, named, ts)
	}

	fn typed(&mut self, env: &Env, ty: &Ty, d: usize) -> Ex {
		let d1 = d - 1;
		match ty {
			Ty::Num => match self.src.weighted(&[3, 6, 1, 2, 1, 1, 1]) {
				0 => self.lit(ty),
				1 => {
					let op = *self.src.pick(&[BinOp::Add, BinOp::Sub, BinOp::Mul, BinOp::Div, BinOp::Mod, BinOp::Add, BinOp::Sub]);
					Ex::Bin(op, bx(self.expr(env, &Ty::Num, d1)), bx(self.expr(env, &Ty::Num, d1)))
				}
				2 => Ex::Un(*self.src.pick(&[UnOp::Neg, UnOp::Plus, UnOp::BitNot]), bx(self.expr(env, &Ty::Num, d1))),
				3 => {
					let t = match self.src.below(3) {
						0 => Ty::Str,
						1 => Ty::Arr(Box::new(leaf_ty(self.src))),
						_ => Ty::Obj(vec![("a".to_owned(), Ty::Num)]),
					};
					std_call("length", vec![self.expr(env, &t, d1)])
				}
				4 => {
					let op = *self.src.pick(&[BinOp::BitAnd, BinOp::BitOr, BinOp::BitXor, BinOp::Shl, BinOp::Shr]);
					let a = num(self.src.range(0, 12) as f64);
					let b = num(self.src.range(0, 5) as f64);
					Ex::Bin(op, bx(a), bx(b))
				}
				5 => self.recursion(env, d1),
				_ => {
					let a = self.expr(env, &Ty::Arr(Box::new(Ty::Num)), d1);
					if !self.std_hof {
						return std_call("length", vec![a]);
					}
					std_call("foldl", vec![Ex::Func(vec![Param { name: "acc".into(), default: None }, Param { name: "it".into(), default: None }], bx(Ex::Bin(BinOp::Add, bx(var("acc")), bx(var("it"))))), a, num(0.0)])
				}
			},
			Ty::Bool => match self.src.weighted(&[2, 4, 3, 2, 2, 1]) {
				0 => self.lit(ty),
				1 => {
					let op = *self.src.pick(&[BinOp::Lt, BinOp::Le, BinOp::Gt, BinOp::Ge, BinOp::Eq, BinOp::Ne]);
					let t = if self.src.chance(2, 3) { Ty::Num } else { Ty::Str };
					Ex::Bin(op, bx(self.expr(env, &t, d1)), bx(self.expr(env, &t, d1)))
				}
				2 => {
					let op = *self.src.pick(&[BinOp::And, BinOp::Or]);
					Ex::Bin(op, bx(self.expr(env, &Ty::Bool, d1)), bx(self.expr(env, &Ty::Bool, d1)))
				}
				3 => Ex::Un(UnOp::Not, bx(self.expr(env, &Ty::Bool, d1))),
				4 => {
					// deep equality of containers
					let t = any_ty(self.src, 1);
					let op = *self.src.pick(&[BinOp::Eq, BinOp::Ne]);
					Ex::Bin(op, bx(self.expr(env, &t, d1)), bx(self.expr(env, &t, d1)))
				}
				_ => {
					let f = (*self.src.pick(FIELD_NAMES)).to_owned();
					let o = self.expr(env, &Ty::Obj(vec![("a".to_owned(), Ty::Num)]), d1);
					if self.src.chance(1, 2) {
						Ex::Bin(BinOp::In, bx(s(&f)), bx(o))
					} else {
						std_call(*self.src.pick(&["objectHas", "objectHasAll"]), vec![o, s(&f)])
					}
				}
			},
			Ty::Str => match self.src.weighted(&[3, 4, 2, 2, 1, 1, 1]) {
				0 => self.lit(ty),
				1 => {
					// string + anything (left or right operand a string)
					let other = any_ty(self.src, 1);
					let a = self.expr(env, &Ty::Str, d1);
					let b = self.expr(env, &other, d1);
					if self.src.chance(1, 2) {
						Ex::Bin(BinOp::Add, bx(a), bx(b))
					} else {
						Ex::Bin(BinOp::Add, bx(b), bx(a))
					}
				}
				2 => {
					let t = any_ty(self.src, 1);
					std_call("toString", vec![self.expr(env, &t, d1)])
				}
				3 => {
					// slices and indexing of strings
					let a = self.expr(env, &Ty::Str, d1);
					if self.src.chance(1, 3) {
						Ex::Index(bx(a), bx(num(self.src.range(0, 2) as f64)))
					} else {
						self.slice_of(a)
					}
				}
				4 => std_call("type", vec![{
					let t = any_ty(self.src, 1);
					self.expr(env, &t, d1)
				}]),
				5 => {
					let a = self.expr(env, &Ty::Arr(Box::new(Ty::Str)), d1);
					std_call("join", vec![s(*self.src.pick(&[",", "", "-"])), a])
				}
				_ => {
					let fmt = *self.src.pick(&["%s", "<%s>", "%s-%s", "%d", "%s%%"]);
					let n = fmt.matches("%s").count() + fmt.matches("%d").count();
					let mut vals = vec![];
					for _ in 0..n {
						let t = if fmt.contains("%d") { Ty::Num } else { leaf_ty(self.src) };
						vals.push(self.expr(env, &t, d1));
					}
					Ex::Bin(BinOp::Mod, bx(s(fmt)), bx(Ex::Arr(vals)))
				}
			},
			Ty::Null => self.lit(ty),
			Ty::Arr(t) => match self.src.weighted(&[4, 2, 2, 2, 1, 1, 1, 1]) {
				0 => {
					let n = self.src.range(0, 3);
					Ex::Arr((0..n).map(|_| self.expr(env, t, d1)).collect())
				}
				1 => Ex::Bin(BinOp::Add, bx(self.expr(env, ty, d1)), bx(self.expr(env, ty, d1))),
				2 => self.comprehension(env, t, d1),
				3 => {
					let a = self.expr(env, ty, d1);
					self.slice_of(a)
				}
				4 if **t == Ty::Num => std_call("range", vec![num(self.src.range(0, 2) as f64), num(self.src.range(0, 4) as f64)]),
				5 => {
					let n = num(self.src.range(0, 3) as f64);
					self.counter += 1;
					let iv = format!("i{}", self.counter);
					let mut env2 = env.clone();
					env2.vars.push(Var { name: iv.clone(), ty: Ty::Num });
					let body = self.expr(&env2, t, d1);
					std_call("makeArray", vec![n, Ex::Func(vec![Param { name: iv, default: None }], bx(body))])
				}
				6 => {
					// std.map over another array
					let from = leaf_ty(self.src);
					let a = self.expr(env, &Ty::Arr(Box::new(from.clone())), d1);
					self.counter += 1;
					let xv = format!("m{}", self.counter);
					let mut env2 = env.clone();
					env2.vars.push(Var { name: xv.clone(), ty: from });
					let body = self.expr(&env2, t, d1);
					if !self.std_hof {
						// the same mapping written as a comprehension (std.map is strict in jrsonnet: recorded under C03/C10)
						return Ex::ArrComp(bx(body), vec![Comp::For(xv, a)]);
					}
					std_call("map", vec![Ex::Func(vec![Param { name: xv, default: None }], bx(body)), a])
				}
				7 if **t == Ty::Str => {
					let fs = any_ty(self.src, 1);
					let o = match fs {
						Ty::Obj(_) => self.expr(env, &fs, d1),
						_ => self.expr(env, &Ty::Obj(vec![("a".into(), Ty::Num), ("b".into(), Ty::Str)]), d1),
					};
					std_call(*self.src.pick(&["objectFields", "objectFieldsAll"]), vec![o])
				}
				_ => {
					let n = self.src.range(0, 3);
					Ex::Arr((0..n).map(|_| self.expr(env, t, d1)).collect())
				}
			},
			Ty::Obj(fs) => self.object(env, fs, d),
			Ty::Fun(ps, r) => {
				let (params, body) = self.fun_parts(env, ps, r, d1, None);
				Ex::Func(params, bx(body))
			}
			Ty::Any => {
				let t = any_ty(self.src, 1);
				self.expr(env, &t, d)
			}
		}
	}

	fn slice_of(&mut self, a: Ex) -> Ex {
		let mut part = |g: &mut Self, lo: i64, hi: i64| if g.src.chance(2, 3) { Some(bx(num(g.src.range(lo, hi) as f64))) } else { None };
		let x = part(self, -3, 4);
		let y = part(self, -3, 5);
		let z = if self.src.chance(1, 3) {
			self.stats.slice_step = true;
			Some(bx(num(self.src.range(1, 3) as f64)))
		} else {
			None
		};
		Ex::Slice(bx(a), x, y, z)
	}

	fn comprehension(&mut self, env: &Env, t: &Ty, d: usize) -> Ex {
		let from = leaf_ty(self.src);
		self.counter += 1;
		let xv = format!("x{}", self.counter);
		let over = self.expr(env, &Ty::Arr(Box::new(from.clone())), d);
		let mut env2 = env.clone();
		env2.vars.push(Var { name: xv.clone(), ty: from });
		let mut specs = vec![Comp::For(xv.clone(), over)];
		if self.src.chance(1, 3) {
			self.counter += 1;
			let yv = format!("y{}", self.counter);
			let over2 = self.expr(&env2, &Ty::Arr(Box::new(Ty::Num)), d.saturating_sub(1));
			env2.vars.push(Var { name: yv.clone(), ty: Ty::Num });
			specs.push(Comp::For(yv, over2));
		}
		if self.src.chance(1, 3) {
			specs.push(Comp::If(self.expr(&env2, &Ty::Bool, d.saturating_sub(1))));
		}
		// element may be a closure over the loop variable, applied later
		let body = if self.src.chance(1, 5) {
			self.stats.closure_over_loop = true;
			let inner = self.expr(&env2, t, d);
			call(Ex::Func(vec![], bx(inner)), vec![])
		} else {
			self.expr(&env2, t, d)
		};
		Ex::ArrComp(bx(body), specs)
	}

	fn recursion(&mut self, _env: &Env, _d: usize) -> Ex {
		self.stats.recursion = true;
		self.counter += 1;
		let f = format!("rec{}", self.counter);
		let n = self.src.range(0, 6) as f64;
		match self.src.below(3) {
			0 => {
				// structural recursion on a number
				let body = Ex::If(
					bx(Ex::Bin(BinOp::Le, bx(var("n")), bx(num(0.0)))),
					bx(num(1.0)),
					Some(bx(Ex::Bin(BinOp::Add, bx(var("n")), bx(call(var(&f), vec![Ex::Bin(BinOp::Sub, bx(var("n")), bx(num(1.0)))]))))),
				);
				Ex::Local(vec![Bind::Func(f.clone(), vec![Param { name: "n".into(), default: None }], body)], bx(call(var(&f), vec![num(n)])))
			}
			1 => {
				// mutual recursion even/odd
				let g = format!("{f}b");
				let fb = Ex::If(bx(Ex::Bin(BinOp::Eq, bx(var("n")), bx(num(0.0)))), bx(num(0.0)), Some(bx(call(var(&g), vec![Ex::Bin(BinOp::Sub, bx(var("n")), bx(num(1.0)))]))));
				let gb = Ex::If(bx(Ex::Bin(BinOp::Eq, bx(var("n")), bx(num(0.0)))), bx(num(1.0)), Some(bx(call(var(&f), vec![Ex::Bin(BinOp::Sub, bx(var("n")), bx(num(1.0)))]))));
				self.stats.mutual = true;
				Ex::Local(
					vec![
						Bind::Func(f.clone(), vec![Param { name: "n".into(), default: None }], fb),
						Bind::Func(g, vec![Param { name: "n".into(), default: None }], gb),
					],
					bx(call(var(&f), vec![num(n)])),
				)
			}
			_ => {
				// accumulator style with tailstrict
				self.stats.tailstrict = true;
				let body = Ex::If(
					bx(Ex::Bin(BinOp::Le, bx(var("n")), bx(num(0.0)))),
					bx(var("acc")),
					Some(bx(Ex::Call(bx(var(&f)), vec![Ex::Bin(BinOp::Sub, bx(var("n")), bx(num(1.0))), Ex::Bin(BinOp::Add, bx(var("acc")), bx(var("n")))], vec![], true))),
				);
				Ex::Local(
					vec![Bind::Func(f.clone(), vec![Param { name: "n".into(), default: None }, Param { name: "acc".into(), default: Some(num(0.0)) }], body)],
					bx(call(var(&f), vec![num(n)])),
				)
			}
		}
	}

	fn object(&mut self, env: &Env, fs: &[(String, Ty)], d: usize) -> Ex {
		let d1 = d - 1;
		match self.src.weighted(&[6, 3, 1]) {
			0 => self.obj_literal(env, fs, d1, &[]),
			1 => {
				// extension: base provides the fields (maybe with other values), the layer overrides / adds
				let base = self.obj_literal(env, fs, d1, &[]);
				let mut env2 = env.clone();
				env2.super_fields = fs.to_vec();
				let layer = self.obj_literal(&env2, fs, d1, fs);
				if self.src.chance(1, 2) {
					Ex::ObjExt(bx(base), bx(layer))
				} else {
					Ex::Bin(BinOp::Add, bx(base), bx(layer))
				}
			}
			_ => {
				if fs.len() == 1 {
					self.stats.objcomp = true;
					self.counter += 1;
					let kv = format!("k{}", self.counter);
					let mut env2 = env.clone();
					env2.vars.push(Var { name: kv.clone(), ty: Ty::Str });
					let value = self.expr(&env2, &fs[0].1, d1);
					Ex::ObjComp {
						pre: vec![],
						name: bx(var(&kv)),
						plus: false,
						vis: Vis::Normal,
						value: bx(value),
						post: vec![],
						specs: vec![Comp::For(kv, Ex::Arr(vec![s(&fs[0].0)]))],
					}
				} else {
					self.obj_literal(env, fs, d1, &[])
				}
			}
		}
	}

	/// object literal with (at least) the visible fields `fs`; `sup` = fields known to exist in super
	fn obj_literal(&mut self, env: &Env, fs: &[(String, Ty)], d: usize, sup: &[(String, Ty)]) -> Ex {
		let mut ms = vec![];
		let mut env_o = env.clone();
		env_o.in_obj = true;
		env_o.self_fields = vec![];
		env_o.super_fields = sup.to_vec();
		// optional object-level local
		if self.src.chance(1, 4) {
			let t = leaf_ty(self.src);
			self.counter += 1;
			let name = format!("ol{}", self.counter);
			let v = self.expr(&env_o, &t, d);
			ms.push(Member::Local(Bind::Var(name.clone(), v)));
			env_o.vars.push(Var { name, ty: t });
		}
		for (n, t) in fs {
			let use_plus = !sup.is_empty() && matches!(t, Ty::Num | Ty::Str | Ty::Arr(_)) && self.src.chance(1, 3);
			if use_plus {
				self.stats.plus_field = true;
			}
			let value = self.expr(&env_o, t, d);
			let name = match self.src.weighted(&[5, 2, 1]) {
				0 => FieldName::Id(n.clone()),
				1 => FieldName::Str(n.clone(), StrStyle::Double),
				_ => FieldName::Dyn(s(n)),
			};
			let vis = if self.src.chance(1, 8) { Vis::Unhide } else { Vis::Normal };
			ms.push(Member::Field { name, plus: use_plus, vis, params: None, value });
			env_o.self_fields.push((n.clone(), t.clone()));
		}
		// extras: hidden field, method, assert, null-named computed field
		if self.src.chance(1, 4) {
			let t = leaf_ty(self.src);
			let v = self.expr(&env_o, &t, d);
			ms.push(Member::Field { name: FieldName::Id("hid".into()), plus: false, vis: Vis::Hidden, params: None, value: v });
		}
		if self.src.chance(1, 6) {
			ms.push(Member::Field { name: FieldName::Dyn(Ex::Null), plus: false, vis: Vis::Normal, params: None, value: num(0.0) });
		}
		if self.src.chance(1, 6) {
			let c = self.expr(&env_o, &Ty::Bool, d);
			ms.push(Member::Assert(c, if self.src.chance(1, 2) { Some(s("objassert")) } else { None }));
		}
		Ex::Obj(ms)
	}
}

/// closed program of a random (manifestable) type
pub fn closed_expr(src: &mut Src, depth: usize) -> Ex {
	let ty = any_ty(src, 2);
	let mut g = Gen::new(src);
	let env = Env::default();
	g.expr(&env, &ty, depth)
}

pub struct Program {
	/// body with the free variables `ext`
	pub body: Ex,
	/// externally supplied values: (name, type, literal)
	pub ext: Vec<(String, Ty, Ex)>,
	pub stats: GenStats,
}
impl Program {
	/// the closed form: `local e0 = lit0, ...; body`
	pub fn closed(&self) -> Ex {
		if self.ext.is_empty() {
			return self.body.clone();
		}
		Ex::Local(self.ext.iter().map(|(n, _, l)| Bind::Var(n.clone(), l.clone())).collect(), bx(self.body.clone()))
	}
}

/// Program with `n_ext` externally supplied leaf values.  The same tape with a different `call_style` yields the
/// same program with the arguments of every call passed differently.
pub fn program(src: &mut Src, depth: usize, budget: isize, err_pct: usize, call_style: u8, n_ext: usize) -> Program {
	let ty = any_ty(src, 2);
	let mut ext = vec![];
	let mut env = Env::default();
	for i in 0..n_ext {
		let t = leaf_ty(src);
		let name = format!("ext{i}");
		env.vars.push(Var { name: name.clone(), ty: t.clone() });
		ext.push((name, t));
	}
	let mut g = Gen::new(src);
	g.budget = budget;
	g.err_pct = err_pct;
	g.call_style = call_style;
	let ext: Vec<(String, Ty, Ex)> = ext
		.into_iter()
		.map(|(n, t)| {
			let l = match &t {
				// externally supplied strings are plain double-quoted literals
				Ty::Str => s(*g.src.pick(STRS)),
				t => g.lit(t),
			};
			(n, t, l)
		})
		.collect();
	let body = g.expr(&env, &ty, depth);
	Program { body, ext, stats: g.stats }
}
