#!/usr/bin/python3
"""Independent readers for property C14 (sidecar of harness/src/props/c14.rs).

Protocol: JSON lines.  Every input line is a batch
    {"items": [{"f": <format>, "t": <text>}, ...]}
and is answered by exactly one output line
    {"r": [{"ok": true, "v": <encoded data>} | {"ok": false, "e": <exception text>}, ...]}
The process serves any number of batches until end of input, so one process reads thousands of texts.

Formats:  yaml   yaml.safe_load                  (PyYAML, YAML 1.1, pure-Python loader)
          yamls  list(yaml.safe_load_all)        -> list of documents
          toml   tomllib.loads
          py     ast.literal_eval
          pyvars ast.parse, every statement must be `<Name> = <literal>`  -> list of [name, value] in source order
          xml    xml.etree.ElementTree           -> JSONML [tag, {attrs}, children...] (attrs always present)
          ini    configparser (no interpolation, case preserving, '=' only, repeated keys collected)
                 -> {"main": {key: [values]}, "sections": {name: {key: [values]}}}

Encoding of the data that was read (lossless, so that the Rust side compares exactly):
    None -> null, bool -> true/false, str -> string, list -> array,
    int -> {"i": "<decimal digits>"}, float -> {"f": repr}  ("nan", "inf", "-inf" possible),
    dict -> {"d": [[key, value], ...]} in reader order (keys may be any encodable scalar),
    anything else (date, bytes, set, tuple, ...) -> {"o": "<type>: <repr>"}
"""
import ast
import configparser
import json
import sys
import tomllib
import xml.etree.ElementTree as ET

try:
    import yaml
    HAVE_YAML = True
except Exception as exc:  # pragma: no cover
    HAVE_YAML = False
    YAML_ERR = repr(exc)

if hasattr(sys, "set_int_max_str_digits"):
    sys.set_int_max_str_digits(0)
sys.setrecursionlimit(20000)

MAIN = "\u0001c14-main\u0001"


def enc(v):
    if v is None or v is True or v is False:
        return v
    if isinstance(v, int):
        return {"i": str(v)}
    if isinstance(v, float):
        return {"f": repr(v)}
    if isinstance(v, str):
        try:
            v.encode("utf-8")
        except UnicodeEncodeError:
            return {"o": "str with lone surrogates: " + ascii(v)}
        return v
    if isinstance(v, list):
        return [enc(x) for x in v]
    if isinstance(v, dict):
        return {"d": [[enc(k), enc(x)] for k, x in v.items()]}
    return {"o": type(v).__name__ + ": " + repr(v)[:200]}


def read_pyvars(text):
    mod = ast.parse(text)
    out = []
    for st in mod.body:
        if not isinstance(st, ast.Assign) or len(st.targets) != 1 or not isinstance(st.targets[0], ast.Name):
            raise ValueError("statement is not `name = literal`: " + ast.dump(st)[:200])
        out.append([st.targets[0].id, enc(ast.literal_eval(st.value))])
    return out


def jsonml(e):
    out = [e.tag, {"d": [[k, v] for k, v in e.attrib.items()]}]
    if e.text:
        out.append(e.text)
    for c in e:
        out.append(jsonml(c))
        if c.tail:
            out.append(c.tail)
    return out


class Multi(dict):
    """repeated options accumulate instead of replacing"""

    def __setitem__(self, k, v):
        if isinstance(v, list) and k in self and isinstance(self[k], list):
            self[k].extend(v)
        else:
            super().__setitem__(k, v)


class Ini(configparser.RawConfigParser):
    def _join_multiline_values(self):
        # keep every value as the list of its occurrences (continuation lines would show up as extra items)
        pass


def read_ini(text):
    p = Ini(
        interpolation=None,
        delimiters=("=",),
        comment_prefixes=("#", ";"),
        inline_comment_prefixes=None,
        strict=False,
        empty_lines_in_values=False,
        default_section="\u0001c14-default\u0001",
        dict_type=Multi,
        allow_no_value=False,
    )
    p.optionxform = str
    p.read_string("[" + MAIN + "]\n" + text)
    main = []
    sections = []
    for name, opts in p._sections.items():
        body = {"d": [[k, list(v) if isinstance(v, list) else v] for k, v in opts.items()]}
        if name == MAIN:
            main = body
        else:
            sections.append([name, body])
    if p._defaults:
        raise ValueError("unexpected default section")
    return {"main": main if main else {"d": []}, "sections": {"d": sections}}


def read(fmt, text):
    if fmt == "yaml":
        if not HAVE_YAML:
            raise RuntimeError("PyYAML missing: " + YAML_ERR)
        return enc(yaml.safe_load(text))
    if fmt == "yamls":
        if not HAVE_YAML:
            raise RuntimeError("PyYAML missing: " + YAML_ERR)
        return [enc(d) for d in yaml.safe_load_all(text)]
    if fmt == "toml":
        return enc(tomllib.loads(text))
    if fmt == "py":
        return enc(ast.literal_eval(text))
    if fmt == "pyvars":
        return read_pyvars(text)
    if fmt == "xml":
        return jsonml(ET.fromstring(text))
    if fmt == "ini":
        return read_ini(text)
    raise ValueError("unknown format " + fmt)


def main():
    sys.stdin.reconfigure(encoding="utf-8", errors="strict", newline="\n")
    sys.stdout.reconfigure(encoding="ascii", newline="\n")
    out = sys.stdout
    for line in sys.stdin:
        line = line.strip()
        if not line:
            continue
        req = json.loads(line)
        res = []
        for it in req["items"]:
            try:
                res.append({"ok": True, "v": read(it["f"], it["t"])})
            except BaseException as exc:  # noqa: BLE001  (RecursionError, MemoryError, SyntaxError ... are all answers)
                if isinstance(exc, (KeyboardInterrupt, SystemExit)):
                    raise
                res.append({"ok": False, "e": (type(exc).__name__ + ": " + str(exc))[:600]})
        out.write(json.dumps({"r": res}))
        out.write("\n")
        out.flush()


if __name__ == "__main__":
    main()
