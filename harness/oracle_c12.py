#!/usr/bin/python3
"""Second reference for property C12: CPython's own % operator.

Protocol: JSON lines on stdin, one JSON line on stdout per input line, same order.
  input : {"f": <format string>, "m": 0|1, "v": <encoded values>, "g": <bool, optional>}
          m = 0: "v" is a list, the operator is applied to tuple(values)
          m = 1: "v" is an encoded object, the operator is applied to the dict
          g = true: resource guard, the caller saw a `*` fed with a number > 200000: answer "ResourceGuard"
  values: {"n": "<decimal integer>"} -> int      {"d": "<repr of a double>"} -> float
          {"s": "<text>"} -> str                 null / true / false -> None / True / False
          {"a": [..]} -> list                    {"o": [[key, value], ..]} -> dict
  output: {"t": <text>}  or  {"e": <exception class name>, "m": <message>}
One process handles thousands of cases; nothing is computed here except `fmt % values`.
"""
import json
import sys


def dec(v):
    if v is None or v is True or v is False:
        return v
    if "n" in v:
        return int(v["n"])
    if "d" in v:
        return float(v["d"])
    if "s" in v:
        return v["s"]
    if "a" in v:
        return [dec(x) for x in v["a"]]
    if "o" in v:
        return {k: dec(x) for k, x in v["o"]}
    raise ValueError("bad value encoding")


def main():
    try:  # second line of defence behind the caller's resource guard: a runaway width ends in MemoryError
        import resource

        resource.setrlimit(resource.RLIMIT_AS, (2 << 30, 2 << 30))
    except Exception:
        pass
    sys.stdin.reconfigure(encoding="utf-8")
    out = sys.stdout  # output is pure ASCII (json.dumps escapes everything else)
    for line in sys.stdin:
        line = line.strip()
        if not line:
            continue
        try:
            q = json.loads(line)
            fmt = q["f"]
            vals = dec({"o": q["v"]["o"]}) if q["m"] == 1 else tuple(dec(x) for x in q["v"])
        except Exception as e:  # malformed request: report, keep the line count aligned
            out.write(json.dumps({"e": "ProtocolError", "m": str(e)}) + "\n")
            continue
        # resource guard (decided by the caller): a `*` width or precision fed with a huge number would make
        # Python allocate gigabytes
        if q.get("g"):
            out.write(json.dumps({"e": "ResourceGuard", "m": "huge number next to a * code"}) + "\n")
            continue
        try:
            text = fmt % vals
            res = {"t": text}
        except MemoryError:
            res = {"e": "MemoryError", "m": ""}
        except Exception as e:
            res = {"e": type(e).__name__, "m": str(e)[:200]}
        out.write(json.dumps(res) + "\n")
    out.flush()


if __name__ == "__main__":
    main()
